package main

// C08 — Go values crossing the host/script boundary: the real converters (object.NewTypeConverter,
// GoType.GetConverter, Proxy.GetAttr/SetAttr, Proxy method calls, risor.Eval + WithGlobal) against
// the Lean model (RisorModel/C08) and against the Spec, which the oracle evaluates on the REAL
// results.  Go types are built with reflect over a menu of declared (named) types.

import (
	"context"
	"encoding/hex"
	"encoding/json"
	"fmt"
	"math"
	"math/big"
	"os"
	"reflect"
	"sort"
	"strconv"
	"strings"
	"time"

	"github.com/risor-io/risor"
	"github.com/risor-io/risor/compiler"
	"github.com/risor-io/risor/object"
	"github.com/risor-io/risor/parser"
	"github.com/risor-io/risor/vm"
)

func init() { commands["C08"] = c08_runC08 }

// ---------------------------------------------------------------------------------------------
// model types

type c08_MTy struct {
	K  string // bool int uint f32 f64 str time iface chan named ptr slice array map struct
	W  int
	ID int
	N  int
	E  *c08_MTy
	Fs []*c08_MTy
	rt reflect.Type
	s  string
}

func (t *c08_MTy) String() string {
	if t.s != "" {
		return t.s
	}
	var s string
	switch t.K {
	case "int", "uint":
		s = fmt.Sprintf("(%s %d)", t.K, t.W)
	case "named":
		s = fmt.Sprintf("(named %d %s)", t.ID, t.E)
	case "ptr", "slice", "map":
		s = fmt.Sprintf("(%s %s)", t.K, t.E)
	case "array":
		s = fmt.Sprintf("(array %d %s)", t.N, t.E)
	case "struct":
		var b strings.Builder
		b.WriteString("(struct")
		for _, f := range t.Fs {
			b.WriteString(" " + f.String())
		}
		b.WriteString(")")
		s = b.String()
	default:
		s = t.K
	}
	t.s = s
	return s
}

func c08_mk(k string) *c08_MTy              { return &c08_MTy{K: k} }
func c08_mInt(w int) *c08_MTy               { return &c08_MTy{K: "int", W: w} }
func c08_mUint(w int) *c08_MTy              { return &c08_MTy{K: "uint", W: w} }
func c08_mPtr(e *c08_MTy) *c08_MTy          { return &c08_MTy{K: "ptr", E: e} }
func c08_mSlice(e *c08_MTy) *c08_MTy        { return &c08_MTy{K: "slice", E: e} }
func c08_mArray(n int, e *c08_MTy) *c08_MTy { return &c08_MTy{K: "array", N: n, E: e} }
func c08_mMap(e *c08_MTy) *c08_MTy          { return &c08_MTy{K: "map", E: e} }
func c08_mStruct(fs ...*c08_MTy) *c08_MTy   { return &c08_MTy{K: "struct", Fs: fs} }

// declared (named) Go types the generator draws from
type (
	c08_NInt    int
	c08_NU8     uint8
	c08_NF32    float32
	c08_NStr    string
	c08_NBool   bool
	c08_NU64    uint64
	c08_NF64    float64
	c08_NI16    int16
	c08_NIDs    []int
	c08_NStrMap map[string]string
	c08_NPair   [2]int16
	c08_NPoint  struct {
		F0 int
		F1 string
	}
	c08_NBox struct {
		F0 c08_NPoint
		F1 *int
		F2 []string
	}
	c08_NPtrs []*int
	// declared container types over string / byte / float64 elements (the element types the
	// converters have exact-type entries or fast paths for) and a struct that holds one
	c08_NLabels []string
	c08_NNames  [2]string
	c08_NBytes  []byte
	c08_NF64s   []float64
	c08_NTagged struct {
		F0 c08_NLabels
		F1 int
	}
	c08_NEnv map[string][]string
)

type c08_namedEntry struct {
	id    int
	rt    reflect.Type
	under *c08_MTy
	mty   *c08_MTy
}

var (
	c08_namedMenu   []*c08_namedEntry
	c08_namedByRT   = map[reflect.Type]*c08_namedEntry{}
	c08_namedScalar []*c08_namedEntry
	c08_namedComp   []*c08_namedEntry
	c08_ifaceRT     = reflect.TypeOf((*any)(nil)).Elem()
	c08_timeRT      = reflect.TypeOf(time.Time{})
	c08_chanRT      = reflect.TypeOf((chan int)(nil))
	c08_stringRT    = reflect.TypeOf("")
)

func c08_addNamed(id int, sample any, under *c08_MTy, scalar bool) *c08_MTy {
	e := &c08_namedEntry{id: id, rt: reflect.TypeOf(sample), under: under}
	e.mty = &c08_MTy{K: "named", ID: id, E: under, rt: e.rt}
	c08_namedMenu = append(c08_namedMenu, e)
	c08_namedByRT[e.rt] = e
	if scalar {
		c08_namedScalar = append(c08_namedScalar, e)
	} else {
		c08_namedComp = append(c08_namedComp, e)
	}
	return e.mty
}

var c08_mNPoint, c08_mNBox, c08_mNLabels, c08_mNTagged *c08_MTy

func init() {
	c08_addNamed(1, time.Duration(0), c08_mInt(64), true)
	c08_addNamed(2, c08_NInt(0), c08_mInt(0), true)
	c08_addNamed(3, c08_NU8(0), c08_mUint(8), true)
	c08_addNamed(4, c08_NF32(0), c08_mk("f32"), true)
	c08_addNamed(5, c08_NStr(""), c08_mk("str"), true)
	c08_addNamed(6, c08_NBool(false), c08_mk("bool"), true)
	c08_addNamed(7, c08_NU64(0), c08_mUint(64), true)
	c08_addNamed(8, c08_NF64(0), c08_mk("f64"), true)
	c08_addNamed(9, c08_NI16(0), c08_mInt(16), true)
	c08_addNamed(10, c08_NIDs(nil), c08_mSlice(c08_mInt(0)), false)
	c08_addNamed(11, c08_NStrMap(nil), c08_mMap(c08_mk("str")), false)
	c08_addNamed(12, c08_NPair{}, c08_mArray(2, c08_mInt(16)), false)
	c08_mNPoint = c08_addNamed(13, c08_NPoint{}, c08_mStruct(c08_mInt(0), c08_mk("str")), false)
	c08_mNBox = c08_addNamed(14, c08_NBox{}, c08_mStruct(c08_mNPoint, c08_mPtr(c08_mInt(0)), c08_mSlice(c08_mk("str"))), false)
	c08_addNamed(15, c08_NPtrs(nil), c08_mSlice(c08_mPtr(c08_mInt(0))), false)
	c08_mNLabels = c08_addNamed(16, c08_NLabels(nil), c08_mSlice(c08_mk("str")), false)
	c08_addNamed(17, c08_NNames{}, c08_mArray(2, c08_mk("str")), false)
	c08_addNamed(18, c08_NBytes(nil), c08_mSlice(c08_mUint(8)), false)
	c08_addNamed(19, c08_NF64s(nil), c08_mSlice(c08_mk("f64")), false)
	c08_mNTagged = c08_addNamed(20, c08_NTagged{}, c08_mStruct(c08_mNLabels, c08_mInt(0)), false)
	c08_addNamed(21, c08_NEnv(nil), c08_mMap(c08_mSlice(c08_mk("str"))), false)
}

func c08_intRT(w int) reflect.Type {
	switch w {
	case 8:
		return reflect.TypeOf(int8(0))
	case 16:
		return reflect.TypeOf(int16(0))
	case 32:
		return reflect.TypeOf(int32(0))
	case 64:
		return reflect.TypeOf(int64(0))
	}
	return reflect.TypeOf(int(0))
}
func c08_uintRT(w int) reflect.Type {
	switch w {
	case 8:
		return reflect.TypeOf(uint8(0))
	case 16:
		return reflect.TypeOf(uint16(0))
	case 32:
		return reflect.TypeOf(uint32(0))
	case 64:
		return reflect.TypeOf(uint64(0))
	}
	return reflect.TypeOf(uint(0))
}

func (t *c08_MTy) RT() reflect.Type {
	if t.rt != nil {
		return t.rt
	}
	var r reflect.Type
	switch t.K {
	case "bool":
		r = reflect.TypeOf(false)
	case "int":
		r = c08_intRT(t.W)
	case "uint":
		r = c08_uintRT(t.W)
	case "f32":
		r = reflect.TypeOf(float32(0))
	case "f64":
		r = reflect.TypeOf(float64(0))
	case "str":
		r = c08_stringRT
	case "time":
		r = c08_timeRT
	case "iface":
		r = c08_ifaceRT
	case "chan":
		r = c08_chanRT
	case "ptr":
		r = reflect.PointerTo(t.E.RT())
	case "slice":
		r = reflect.SliceOf(t.E.RT())
	case "array":
		r = reflect.ArrayOf(t.N, t.E.RT())
	case "map":
		r = reflect.MapOf(c08_stringRT, t.E.RT())
	case "struct":
		fs := make([]reflect.StructField, len(t.Fs))
		for i, f := range t.Fs {
			fs[i] = reflect.StructField{Name: "F" + strconv.Itoa(i), Type: f.RT()}
		}
		r = reflect.StructOf(fs)
	default:
		panic("RT: " + t.K)
	}
	t.rt = r
	return r
}

func (t *c08_MTy) under() *c08_MTy {
	for t.K == "named" {
		t = t.E
	}
	return t
}

func (t *c08_MTy) depth() int {
	switch t.K {
	case "named", "ptr", "slice", "array", "map":
		return 1 + t.E.depth()
	case "struct":
		d := 0
		for _, f := range t.Fs {
			if x := f.depth(); x > d {
				d = x
			}
		}
		return 1 + d
	}
	return 0
}

func (t *c08_MTy) hasChan() bool {
	switch t.K {
	case "chan":
		return true
	case "named", "ptr", "slice", "array", "map":
		return t.E.hasChan()
	case "struct":
		for _, f := range t.Fs {
			if f.hasChan() {
				return true
			}
		}
	}
	return false
}

var c08_mtyCache = map[reflect.Type]*c08_MTy{}

// mtyOf maps a Go type back to the model type
func c08_mtyOf(rt reflect.Type) *c08_MTy {
	if t, ok := c08_mtyCache[rt]; ok {
		return t
	}
	var t *c08_MTy
	if e, ok := c08_namedByRT[rt]; ok {
		t = e.mty
	} else if rt == c08_timeRT {
		t = c08_mk("time")
	} else {
		switch rt.Kind() {
		case reflect.Bool:
			t = c08_mk("bool")
		case reflect.Int:
			t = c08_mInt(0)
		case reflect.Int8:
			t = c08_mInt(8)
		case reflect.Int16:
			t = c08_mInt(16)
		case reflect.Int32:
			t = c08_mInt(32)
		case reflect.Int64:
			t = c08_mInt(64)
		case reflect.Uint:
			t = c08_mUint(0)
		case reflect.Uint8:
			t = c08_mUint(8)
		case reflect.Uint16:
			t = c08_mUint(16)
		case reflect.Uint32:
			t = c08_mUint(32)
		case reflect.Uint64:
			t = c08_mUint(64)
		case reflect.Float32:
			t = c08_mk("f32")
		case reflect.Float64:
			t = c08_mk("f64")
		case reflect.String:
			t = c08_mk("str")
		case reflect.Interface:
			if rt.NumMethod() == 0 {
				t = c08_mk("iface")
			} else {
				t = c08_mk("chan")
			}
		case reflect.Pointer:
			t = c08_mPtr(c08_mtyOf(rt.Elem()))
		case reflect.Slice:
			t = c08_mSlice(c08_mtyOf(rt.Elem()))
		case reflect.Array:
			t = c08_mArray(rt.Len(), c08_mtyOf(rt.Elem()))
		case reflect.Map:
			if rt.Key() == c08_stringRT {
				t = c08_mMap(c08_mtyOf(rt.Elem()))
			} else {
				t = c08_mk("chan")
			}
		case reflect.Struct:
			fs := make([]*c08_MTy, rt.NumField())
			for i := range fs {
				fs[i] = c08_mtyOf(rt.Field(i).Type)
			}
			t = c08_mStruct(fs...)
		default:
			t = c08_mk("chan")
		}
		if rt.Name() != "" && rt.PkgPath() != "" {
			t = &c08_MTy{K: "named", ID: 99, E: t}
		}
	}
	if t.rt == nil {
		t.rt = rt
	}
	c08_mtyCache[rt] = t
	return t
}

// ---------------------------------------------------------------------------------------------
// serialisation of Go values and script objects (the text forms of RisorModel/C08/Oracle.lean)

var c08_timeBase = big.NewInt(62135596800)

func c08_timeCode(t time.Time) string {
	s := big.NewInt(t.Unix())
	s.Add(s, c08_timeBase)
	s.Mul(s, big.NewInt(1000000000))
	s.Add(s, big.NewInt(int64(t.Nanosecond())))
	return s.String()
}

func c08_hx(b []byte) string {
	if len(b) == 0 {
		return "-"
	}
	return hex.EncodeToString(b)
}

func c08_valStr(v reflect.Value, t *c08_MTy) string {
	switch t.K {
	case "named":
		return c08_valStr(v, t.E)
	case "bool":
		if v.Bool() {
			return "(b 1)"
		}
		return "(b 0)"
	case "int":
		return "(i " + strconv.FormatInt(v.Int(), 10) + ")"
	case "uint":
		return "(i " + strconv.FormatUint(v.Uint(), 10) + ")"
	case "f32":
		return "(f " + strconv.FormatUint(uint64(math.Float32bits(float32(v.Float()))), 10) + ")"
	case "f64":
		return "(f " + strconv.FormatUint(math.Float64bits(v.Float()), 10) + ")"
	case "str":
		return "(s " + c08_hx([]byte(v.String())) + ")"
	case "time":
		return "(t " + c08_timeCode(v.Interface().(time.Time)) + ")"
	case "chan":
		return "nil"
	case "ptr":
		if v.IsNil() {
			return "nil"
		}
		return "(p " + c08_valStr(v.Elem(), t.E) + ")"
	case "slice", "array":
		var b strings.Builder
		b.WriteString("(seq")
		for i := 0; i < v.Len(); i++ {
			b.WriteString(" " + c08_valStr(v.Index(i), t.E))
		}
		b.WriteString(")")
		return b.String()
	case "map":
		keys := make([]string, 0, v.Len())
		for _, k := range v.MapKeys() {
			keys = append(keys, k.String())
		}
		sort.Strings(keys)
		var b strings.Builder
		b.WriteString("(m")
		for _, k := range keys {
			b.WriteString(" (" + c08_hx([]byte(k)) + " " + c08_valStr(v.MapIndex(reflect.ValueOf(k)), t.E) + ")")
		}
		b.WriteString(")")
		return b.String()
	case "struct":
		var b strings.Builder
		b.WriteString("(st")
		for i, f := range t.Fs {
			b.WriteString(" " + c08_valStr(v.Field(i), f))
		}
		b.WriteString(")")
		return b.String()
	case "iface":
		if v.IsNil() {
			return "nil"
		}
		e := v.Elem()
		d := c08_mtyOf(e.Type())
		return "(if " + d.String() + " " + c08_valStr(e, d) + ")"
	}
	return "(bad " + t.K + ")"
}

func c08_objStr(o object.Object) string {
	switch o := o.(type) {
	case *object.NilType:
		return "nil"
	case *object.Bool:
		if o.Value() {
			return "(b 1)"
		}
		return "(b 0)"
	case *object.Int:
		return "(i " + strconv.FormatInt(o.Value(), 10) + ")"
	case *object.Float:
		return "(f " + strconv.FormatUint(math.Float64bits(o.Value()), 10) + ")"
	case *object.Byte:
		return "(y " + strconv.Itoa(int(o.Value())) + ")"
	case *object.String:
		return "(s " + c08_hx([]byte(o.Value())) + ")"
	case *object.ByteSlice:
		return "(bs " + c08_hx(o.Value()) + ")"
	case *object.FloatSlice:
		var b strings.Builder
		b.WriteString("(fs")
		for _, f := range o.Value() {
			b.WriteString(" " + strconv.FormatUint(math.Float64bits(f), 10))
		}
		b.WriteString(")")
		return b.String()
	case *object.Time:
		return "(t " + c08_timeCode(o.Value()) + ")"
	case *object.List:
		var b strings.Builder
		b.WriteString("(l")
		for _, it := range o.Value() {
			b.WriteString(" " + c08_objStr(it))
		}
		b.WriteString(")")
		return b.String()
	case *object.Map:
		m := o.Value()
		keys := make([]string, 0, len(m))
		for k := range m {
			keys = append(keys, k)
		}
		sort.Strings(keys)
		var b strings.Builder
		b.WriteString("(m")
		for _, k := range keys {
			b.WriteString(" (" + c08_hx([]byte(k)) + " " + c08_objStr(m[k]) + ")")
		}
		b.WriteString(")")
		return b.String()
	case *object.Proxy:
		rv := reflect.ValueOf(o.Interface())
		t := c08_mtyOf(rv.Type())
		return "(px " + t.String() + " " + c08_valStr(rv, t) + ")"
	case nil:
		return "(other go-nil)"
	}
	return "(other " + string(o.Type()) + ")"
}

// ---------------------------------------------------------------------------------------------
// generators

type c08_gen struct {
	r        *RNG
	boundary bool // the current case contains a boundary value
}

var c08_scalarTys = []*c08_MTy{c08_mk("bool"), c08_mInt(0), c08_mInt(8), c08_mInt(16), c08_mInt(32), c08_mInt(64), c08_mUint(0), c08_mUint(8), c08_mUint(16),
	c08_mUint(32), c08_mUint(64), c08_mk("f32"), c08_mk("f64"), c08_mk("str"), c08_mk("time")}

func (g *c08_gen) leafTy(allowChan bool) *c08_MTy {
	n := g.r.Intn(100)
	switch {
	case n < 62:
		return Pick(g.r, c08_scalarTys)
	case n < 80:
		return Pick(g.r, c08_namedScalar).mty
	case n < 92:
		return c08_mk("iface")
	case n < 95 && allowChan:
		return c08_mk("chan")
	default:
		return Pick(g.r, c08_namedComp).mty
	}
}

func (g *c08_gen) ty(depth int, allowChan bool) *c08_MTy {
	if depth <= 0 || g.r.Chance(22) {
		return g.leafTy(allowChan)
	}
	switch g.r.Intn(6) {
	case 0:
		return c08_mPtr(g.ty(depth-1, allowChan))
	case 1:
		return c08_mSlice(g.ty(depth-1, allowChan))
	case 2:
		return c08_mArray(g.r.Intn(4), g.ty(depth-1, allowChan))
	case 3:
		return c08_mMap(g.ty(depth-1, allowChan))
	case 4:
		// no unsupported kind inside a struct: a failed newGoType leaves the struct type in
		// goTypeRegistry, so the error would depend on what was converted before
		n := 1 + g.r.Intn(3)
		fs := make([]*c08_MTy, n)
		for i := range fs {
			fs[i] = g.ty(depth-1, false)
		}
		return c08_mStruct(fs...)
	default:
		return Pick(g.r, c08_namedComp).mty
	}
}

// dynamic types put into interface{} values
func (g *c08_gen) dynTy(depth int, allowChan bool) *c08_MTy {
	for {
		var t *c08_MTy
		switch n := g.r.Intn(100); {
		case n < 45:
			t = Pick(g.r, c08_scalarTys)
		case n < 55:
			t = Pick(g.r, c08_namedScalar).mty
		case n < 60:
			t = c08_mSlice(c08_mk("iface"))
		case n < 65:
			t = c08_mMap(c08_mk("iface"))
		case n < 70:
			t = c08_mPtr(c08_mNPoint)
		case n < 73 && allowChan:
			t = c08_mk("chan")
		default:
			if depth <= 0 {
				t = Pick(g.r, c08_scalarTys)
			} else {
				t = g.ty(depth-1, false)
			}
		}
		if t.under().K != "iface" {
			return t
		}
	}
}

var c08_intPool = []int64{0, 1, -1, 2, 7, 127, 128, -128, -129, 255, 256, 300, 32767, 32768, -32769, 65535, 65536,
	math.MaxInt32, math.MaxInt32 + 1, math.MinInt32, math.MaxUint32, math.MaxUint32 + 1, 1 << 53, 1<<53 + 1,
	1<<60 + 1<<36 + 1, 16777217, math.MaxInt64, math.MinInt64, math.MaxInt64 - 1}

func (g *c08_gen) intVal(w int) int64 {
	bits := w
	if bits == 0 {
		bits = 64
	}
	lo, hi := int64(-1)<<(bits-1), int64(1)<<(bits-1)-1
	switch g.r.Intn(7) {
	case 0:
		return 0
	case 1:
		g.boundary = true
		return lo
	case 2:
		g.boundary = true
		return hi
	case 3:
		return -1
	case 4:
		return 1
	default:
		x := int64(g.r.Next())
		if bits < 64 {
			x = x % (hi + 1)
		}
		return x
	}
}

func (g *c08_gen) uintVal(w int) uint64 {
	bits := w
	if bits == 0 {
		bits = 64
	}
	hi := ^uint64(0)
	if bits < 64 {
		hi = uint64(1)<<bits - 1
	}
	switch g.r.Intn(8) {
	case 0:
		return 0
	case 1:
		g.boundary = true
		return hi
	case 2:
		g.boundary = true
		return hi/2 + 1 // 2^(bits-1)
	case 3:
		g.boundary = true
		return hi / 2
	case 4:
		return 1
	default:
		x := g.r.Next()
		if bits < 64 {
			x &= hi
		} else if g.r.Chance(50) {
			x >>= 1
		}
		return x
	}
}

var c08_f64Pool = []float64{0, math.Copysign(0, -1), 1, -1, 1.5, 0.1, -2.5, 255, 256, 1e6, 16777217, math.MaxFloat64,
	math.SmallestNonzeroFloat64, math.Inf(1), math.Inf(-1), math.MaxFloat32, 3.0e9, 4294967296, -0.5}
var c08_f32Pool = []float32{0, float32(math.Copysign(0, -1)), 1, -1, 1.5, 0.1, math.MaxFloat32, math.SmallestNonzeroFloat32,
	float32(math.Inf(1)), float32(math.Inf(-1)), 16777216, 255}

func (g *c08_gen) f64Val() float64 {
	switch n := g.r.Intn(10); {
	case n < 5:
		g.boundary = true
		return Pick(g.r, c08_f64Pool)
	case n == 5:
		g.boundary = true
		return math.Float64frombits(0x7ff8000000000000) // canonical quiet NaN
	default:
		for {
			f := math.Float64frombits(g.r.Next())
			if !math.IsNaN(f) {
				return f
			}
		}
	}
}

func (g *c08_gen) f32Val() float32 {
	switch n := g.r.Intn(10); {
	case n < 5:
		g.boundary = true
		return Pick(g.r, c08_f32Pool)
	case n == 5:
		g.boundary = true
		return math.Float32frombits(0x7fc00000)
	default:
		for {
			f := math.Float32frombits(uint32(g.r.Next()))
			if f == f {
				return f
			}
		}
	}
}

var c08_strPool = []string{"", "a", "x", "hello", "héllo", "日本", "\x00", "\xff\xfe", "a b\tc", "notatime", "F0"}
var c08_keyPool = []string{"a", "b", "", "k1", "é", "F0", "zz"}

func (g *c08_gen) strVal() string {
	if g.r.Chance(75) {
		return Pick(g.r, c08_strPool)
	}
	n := g.r.Intn(6)
	b := make([]byte, n)
	for i := range b {
		b[i] = byte(g.r.Next())
	}
	return string(b)
}

func (g *c08_gen) timeVal() time.Time {
	switch g.r.Intn(5) {
	case 0:
		g.boundary = true
		return time.Time{}
	case 1:
		return time.Unix(0, 0).UTC()
	case 2:
		g.boundary = true
		return time.Date(9999, 12, 31, 23, 59, 59, 999999999, time.UTC)
	default:
		return time.Unix(int64(g.r.Next()%4000000000)-1000000000, int64(g.r.Next()%1000000000)).UTC()
	}
}

// val builds a Go value of type t.  inMap: no element may *error* (only the order-independent outcomes)
func (g *c08_gen) val(t *c08_MTy, depth int, inMap bool) reflect.Value {
	rt := t.RT()
	v := reflect.New(rt).Elem()
	switch t.K {
	case "named":
		u := g.val(t.E, depth, inMap)
		v.Set(u.Convert(rt))
	case "bool":
		v.SetBool(g.r.Bool())
	case "int":
		v.SetInt(g.intVal(t.W))
	case "uint":
		v.SetUint(g.uintVal(t.W))
	case "f32":
		v.SetFloat(float64(g.f32Val()))
	case "f64":
		v.SetFloat(g.f64Val())
	case "str":
		v.SetString(g.strVal())
	case "time":
		v.Set(reflect.ValueOf(g.timeVal()))
	case "chan":
		// nil channel
	case "ptr":
		if g.r.Chance(25) {
			g.boundary = true
			break
		}
		p := reflect.New(t.E.RT())
		p.Elem().Set(g.val(t.E, depth, inMap))
		v.Set(p)
	case "slice":
		n := g.r.Intn(5)
		if n == 4 {
			g.boundary = true
			break // nil slice
		}
		s := reflect.MakeSlice(rt, n, n)
		for i := 0; i < n; i++ {
			s.Index(i).Set(g.val(t.E, depth, inMap))
		}
		v.Set(s)
	case "array":
		for i := 0; i < t.N; i++ {
			v.Index(i).Set(g.val(t.E, depth, inMap))
		}
	case "map":
		n := g.r.Intn(5)
		if n == 4 {
			g.boundary = true
			break // nil map
		}
		// several entries: only entries whose conversion alone ends in the same class (ok / error /
		// panic) are kept, so that the outcome cannot depend on Go's map iteration order (since the
		// repair of C08-uint64-wraps-negative a VALUE can be rejected, not only a type)
		m := reflect.MakeMap(rt)
		first := ""
		for i := 0; i < n; i++ {
			ev := g.val(t.E, depth, true)
			cls := c08_fromClass(t.E, ev)
			if first == "" {
				first = cls
			}
			if cls == first {
				m.SetMapIndex(reflect.ValueOf(Pick(g.r, c08_keyPool)), ev)
			}
		}
		v.Set(m)
	case "struct":
		for i, f := range t.Fs {
			v.Field(i).Set(g.val(f, depth, inMap))
		}
	case "iface":
		if g.r.Chance(20) {
			g.boundary = true
			break
		}
		d := g.dynTy(depth-1, !inMap)
		v.Set(g.val(d, depth-1, inMap))
	}
	return v
}

// ---------------------------------------------------------------------------------------------
// running the real code

func c08_recoverClass(f func() string) (out string) {
	defer func() {
		if r := recover(); r != nil {
			out = "panic"
		}
	}()
	return f()
}

func c08_getConverter(t *c08_MTy, mode string) (object.TypeConverter, error) {
	if mode == "create" {
		return object.NewTypeConverter(t.RT())
	}
	gt, err := object.NewGoType(t.RT())
	if err != nil {
		return nil, err
	}
	return gt.GetConverter()
}

// toSlot: conv.To(o) followed by what SetAttr does with the result
func c08_toSlotReal(conv object.TypeConverter, t *c08_MTy, o object.Object) string {
	return c08_recoverClass(func() string {
		res, err := conv.To(o)
		if err != nil {
			return "error"
		}
		slot := reflect.New(t.RT()).Elem()
		if res != nil {
			slot.Set(reflect.ValueOf(res))
		}
		return "(ok " + c08_valStr(slot, t) + ")"
	})
}

func c08_roundTripReal(t *c08_MTy, mode string, v reflect.Value) (string, object.Object) {
	var obj object.Object
	out := c08_recoverClass(func() string {
		conv, err := c08_getConverter(t, mode)
		if err != nil {
			return "error"
		}
		o, err := conv.From(v.Interface())
		if err != nil {
			return "error"
		}
		obj = o
		return "(ok " + c08_objStr(o) + " " + c08_toSlotReal(conv, t, o) + ")"
	})
	return out, obj
}

// evalClass runs a script and classifies: a VM-recovered panic is reported by Eval as "panic: …"
func c08_evalReal(src string, globals map[string]any) (res object.Object, class string) {
	class = c08_recoverClass(func() string {
		r, err := risor.Eval(context.Background(), src, risor.WithGlobals(globals))
		if err != nil {
			if strings.HasPrefix(err.Error(), "panic:") {
				return "panic"
			}
			return "error"
		}
		res = r
		return "ok"
	})
	return
}

// Host: echo methods for the method-call path
type c08_Host struct {
	Got    any
	Gots   []any
	Called bool
}

func (h *c08_Host) rec(x any)      { h.Got = x; h.Called = true }
func (h *c08_Host) recN(xs ...any) { h.Gots = xs; h.Called = true }

// methods with several parameters: every parameter is recorded and returned, in order
func (h *c08_Host) M20(a any, b string) (any, string)           { h.recN(a, b); return a, b }
func (h *c08_Host) M21(a *int, b int) (*int, int)               { h.recN(a, b); return a, b }
func (h *c08_Host) M22(a string, b []string) (string, []string) { h.recN(a, b); return a, b }
func (h *c08_Host) M23(a int, b c08_NStr) (int, c08_NStr)       { h.recN(a, b); return a, b }
func (h *c08_Host) M24(a map[string]int, b *c08_NPoint) (map[string]int, *c08_NPoint) {
	h.recN(a, b)
	return a, b
}
func (h *c08_Host) M30(a any, b string, c int) (any, string, int) { h.recN(a, b, c); return a, b, c }
func (h *c08_Host) M31(a []int, b map[string]any, c *c08_NPoint) ([]int, map[string]any, *c08_NPoint) {
	h.recN(a, b, c)
	return a, b, c
}
func (h *c08_Host) M32(a int, b float64, c bool) (int, float64, bool) {
	h.recN(a, b, c)
	return a, b, c
}
func (h *c08_Host) M33(a *int, b *float32, c *c08_NPoint) (*int, *float32, *c08_NPoint) {
	h.recN(a, b, c)
	return a, b, c
}
func (h *c08_Host) M34(a int8, b uint16, c int64) (int8, uint16, int64) {
	h.recN(a, b, c)
	return a, b, c
}
func (h *c08_Host) M40(a *int, b any, c []string, d int8) (*int, any, []string, int8) {
	h.recN(a, b, c, d)
	return a, b, c, d
}
func (h *c08_Host) M41(a string, b *int, c string, d *int) (string, *int, string, *int) {
	h.recN(a, b, c, d)
	return a, b, c, d
}
func (h *c08_Host) M50(a, b, c, d, e any) (any, any, any, any, any) {
	h.recN(a, b, c, d, e)
	return a, b, c, d, e
}

func (h *c08_Host) E00(x int) int                             { h.rec(x); return x }
func (h *c08_Host) E01(x int8) int8                           { h.rec(x); return x }
func (h *c08_Host) E02(x int16) int16                         { h.rec(x); return x }
func (h *c08_Host) E03(x int32) int32                         { h.rec(x); return x }
func (h *c08_Host) E04(x int64) int64                         { h.rec(x); return x }
func (h *c08_Host) E05(x uint) uint                           { h.rec(x); return x }
func (h *c08_Host) E06(x uint8) uint8                         { h.rec(x); return x }
func (h *c08_Host) E07(x uint16) uint16                       { h.rec(x); return x }
func (h *c08_Host) E08(x uint32) uint32                       { h.rec(x); return x }
func (h *c08_Host) E09(x uint64) uint64                       { h.rec(x); return x }
func (h *c08_Host) E10(x float32) float32                     { h.rec(x); return x }
func (h *c08_Host) E11(x float64) float64                     { h.rec(x); return x }
func (h *c08_Host) E12(x string) string                       { h.rec(x); return x }
func (h *c08_Host) E13(x bool) bool                           { h.rec(x); return x }
func (h *c08_Host) E14(x time.Time) time.Time                 { h.rec(x); return x }
func (h *c08_Host) E15(x time.Duration) time.Duration         { h.rec(x); return x }
func (h *c08_Host) E16(x c08_NStr) c08_NStr                   { h.rec(x); return x }
func (h *c08_Host) E17(x *int) *int                           { h.rec(x); return x }
func (h *c08_Host) E18(x **int) **int                         { h.rec(x); return x }
func (h *c08_Host) E19(x []int) []int                         { h.rec(x); return x }
func (h *c08_Host) E20(x []*int) []*int                       { h.rec(x); return x }
func (h *c08_Host) E21(x []byte) []byte                       { h.rec(x); return x }
func (h *c08_Host) E22(x []float64) []float64                 { h.rec(x); return x }
func (h *c08_Host) E23(x []string) []string                   { h.rec(x); return x }
func (h *c08_Host) E24(x [2]int) [2]int                       { h.rec(x); return x }
func (h *c08_Host) E25(x [3]*int8) [3]*int8                   { h.rec(x); return x }
func (h *c08_Host) E26(x map[string]int) map[string]int       { h.rec(x); return x }
func (h *c08_Host) E27(x map[string]*int) map[string]*int     { h.rec(x); return x }
func (h *c08_Host) E28(x map[string]any) map[string]any       { h.rec(x); return x }
func (h *c08_Host) E29(x []any) []any                         { h.rec(x); return x }
func (h *c08_Host) E30(x any) any                             { h.rec(x); return x }
func (h *c08_Host) E31(x c08_NPoint) c08_NPoint               { h.rec(x); return x }
func (h *c08_Host) E32(x *c08_NPoint) *c08_NPoint             { h.rec(x); return x }
func (h *c08_Host) E33(x []c08_NPoint) []c08_NPoint           { h.rec(x); return x }
func (h *c08_Host) E34(x c08_NIDs) c08_NIDs                   { h.rec(x); return x }
func (h *c08_Host) E35(x *c08_NIDs) *c08_NIDs                 { h.rec(x); return x }
func (h *c08_Host) E36(x [2]c08_NI16) [2]c08_NI16             { h.rec(x); return x }
func (h *c08_Host) E37(x *time.Time) *time.Time               { h.rec(x); return x }
func (h *c08_Host) E38(x []time.Duration) []time.Duration     { h.rec(x); return x }
func (h *c08_Host) E39(x [][]int) [][]int                     { h.rec(x); return x }
func (h *c08_Host) E40(x map[string][]int8) map[string][]int8 { h.rec(x); return x }
func (h *c08_Host) E41(x *[]uint16) *[]uint16                 { h.rec(x); return x }
func (h *c08_Host) E42(x c08_NBox) c08_NBox                   { h.rec(x); return x }
func (h *c08_Host) E43(x *float32) *float32                   { h.rec(x); return x }
func (h *c08_Host) E44(x []uint64) []uint64                   { h.rec(x); return x }
func (h *c08_Host) E45(x *any) *any                           { h.rec(x); return x }
func (h *c08_Host) E46(x c08_NLabels) c08_NLabels             { h.rec(x); return x }
func (h *c08_Host) E47(x []c08_NLabels) []c08_NLabels         { h.rec(x); return x }
func (h *c08_Host) E48(x map[string]c08_NLabels) map[string]c08_NLabels {
	h.rec(x)
	return x
}
func (h *c08_Host) E49(x c08_NTagged) c08_NTagged               { h.rec(x); return x }
func (h *c08_Host) E50(x c08_NNames) c08_NNames                 { h.rec(x); return x }
func (h *c08_Host) E51(x [2]c08_NPoint) [2]c08_NPoint           { h.rec(x); return x }
func (h *c08_Host) E52(x map[string]c08_NPoint) map[string]c08_NPoint {
	h.rec(x)
	return x
}
func (h *c08_Host) E53(x *c08_NBox) *c08_NBox { h.rec(x); return x }
func (h *c08_Host) E54(x c08_NBytes) c08_NBytes { h.rec(x); return x }

type c08_hostMethod struct {
	name string
	pt   *c08_MTy
}

var c08_hostMethods []c08_hostMethod

// a method with several parameters
type c08_hostMethodN struct {
	name string
	pts  []*c08_MTy
}

var c08_hostMethodsN []c08_hostMethodN

func init() {
	ht := reflect.TypeOf(&c08_Host{})
	for i := 0; i < ht.NumMethod(); i++ {
		m := ht.Method(i)
		if strings.HasPrefix(m.Name, "E") && m.Type.NumIn() == 2 {
			c08_hostMethods = append(c08_hostMethods, c08_hostMethod{m.Name, c08_mtyOf(m.Type.In(1))})
		}
		if strings.HasPrefix(m.Name, "M") && m.Type.NumIn() > 2 {
			mn := c08_hostMethodN{name: m.Name}
			for k := 1; k < m.Type.NumIn(); k++ {
				mn.pts = append(mn.pts, c08_mtyOf(m.Type.In(k)))
			}
			c08_hostMethodsN = append(c08_hostMethodsN, mn)
		}
	}
}

func c08_methodN(name string) c08_hostMethodN {
	for _, m := range c08_hostMethodsN {
		if m.name == name {
			return m
		}
	}
	panic("no host method " + name)
}

// ---------------------------------------------------------------------------------------------
// foreign script objects for the script → Go direction

var c08_otherPoint = &c08_NPoint{F0: 4, F1: "p"}

func (g *c08_gen) natural(t *c08_MTy, depth int) object.Object {
	var out object.Object
	func() {
		defer func() { recover() }()
		conv, err := c08_getConverter(t, "create")
		if err != nil {
			return
		}
		o, err := conv.From(g.val(t, depth, true).Interface())
		if err == nil {
			out = o
		}
	}()
	return out
}

func (g *c08_gen) numObj() object.Object {
	switch g.r.Intn(10) {
	case 0, 1, 2, 3, 4:
		i := Pick(g.r, c08_intPool)
		if i > 300 || i < -129 {
			g.boundary = true
		}
		return object.NewInt(i)
	case 5, 6, 7:
		return object.NewFloat(Pick(g.r, []float64{0, 1, -1, 2.5, -0.5, 255, 256, 1e6, 0.1, 16777217, 3, 127, 128, 65535, 70000}))
	case 8:
		return object.NewByte(Pick(g.r, []byte{0, 7, 255}))
	default:
		return object.NewInt(int64(g.r.Intn(200)) - 100)
	}
}

func (g *c08_gen) anyObj(depth int) object.Object {
	switch n := g.r.Intn(12); {
	case n < 4:
		return g.numObj()
	case n == 4:
		return object.NewString(g.strVal())
	case n == 5:
		return object.Nil
	case n == 6:
		return object.NewBool(g.r.Bool())
	case n == 7:
		return object.NewTime(g.timeVal())
	case n == 8 && depth > 0:
		k := g.r.Intn(3)
		items := make([]object.Object, k)
		for i := range items {
			items[i] = g.anyObj(depth - 1)
		}
		return object.NewList(items)
	case n == 9 && depth > 0:
		k := g.r.Intn(3)
		m := map[string]object.Object{}
		for i := 0; i < k; i++ {
			m[Pick(g.r, c08_keyPool)] = g.anyObj(depth - 1)
		}
		return object.NewMap(m)
	case n == 10:
		return object.NewByteSlice([]byte(g.strVal()))
	default:
		p, _ := object.NewProxy(c08_otherPoint)
		return p
	}
}

func (g *c08_gen) mismatch(t *c08_MTy) object.Object {
	u := t.under()
	for {
		var o object.Object
		switch g.r.Intn(6) {
		case 0:
			o = object.NewString("x")
		case 1:
			o = object.NewBool(true)
		case 2:
			o = object.NewInt(3)
		case 3:
			o = object.NewList([]object.Object{object.NewInt(1)})
		case 4:
			o = object.NewTime(time.Unix(7, 0).UTC())
		default:
			o = object.NewFloatSlice([]float64{1})
		}
		_ = u
		return o
	}
}

// objFor generates a script object aimed at a Go slot of type t
func (g *c08_gen) objFor(t *c08_MTy, depth int) object.Object {
	u := t.under()
	n := g.r.Intn(100)
	if n < 30 {
		if o := g.natural(t, depth); o != nil {
			return o
		}
	}
	if n >= 30 && n < 38 {
		g.boundary = true
		return object.Nil
	}
	if n >= 38 && n < 48 {
		return g.mismatch(t)
	}
	switch u.K {
	case "bool":
		return object.NewBool(g.r.Bool())
	case "int", "uint", "f32", "f64":
		return g.numObj()
	case "str":
		if g.r.Chance(20) {
			return object.NewByteSlice([]byte(g.strVal()))
		}
		return object.NewString(g.strVal())
	case "time":
		if g.r.Chance(30) {
			return object.NewString("notatime")
		}
		return object.NewTime(g.timeVal())
	case "ptr":
		if u.E.under().K == "struct" || u.E.under().K == "time" {
			return g.structObj(t, depth)
		}
		return g.objFor(u.E, depth)
	case "slice":
		if u.E.K == "uint" && u.E.W == 8 && t.K != "named" {
			switch g.r.Intn(3) {
			case 0:
				return object.NewString(g.strVal())
			case 1:
				return object.NewByteSlice([]byte(g.strVal()))
			}
		}
		if u.E.K == "f64" && t.K != "named" && g.r.Chance(60) {
			return object.NewFloatSlice([]float64{g.f64Val(), 1.5})
		}
		k := g.r.Intn(4)
		items := make([]object.Object, k)
		for i := range items {
			items[i] = g.objFor(u.E, depth-1)
		}
		return object.NewList(items)
	case "array":
		k := u.N
		switch g.r.Intn(6) {
		case 0:
			k = u.N + 1 + g.r.Intn(2)
			g.boundary = true
		case 1:
			if u.N > 0 {
				k = g.r.Intn(u.N)
				g.boundary = true
			}
		}
		items := make([]object.Object, k)
		for i := range items {
			items[i] = g.objFor(u.E, depth-1)
		}
		return object.NewList(items)
	case "map":
		// several entries: only entries whose conversion alone ends in the same class (ok / error /
		// panic) are kept, so that the outcome cannot depend on Go's map iteration order
		k := g.r.Intn(4)
		m := map[string]object.Object{}
		first := ""
		for i := 0; i < k; i++ {
			o := g.objFor(u.E, depth-1)
			cls := c08_elemClass(u.E, o)
			if first == "" {
				first = cls
			}
			if cls == first {
				m[Pick(g.r, c08_keyPool)] = o
			}
		}
		return object.NewMap(m)
	case "struct":
		return g.structObj(t, depth)
	case "iface":
		return g.anyObj(2)
	}
	return g.numObj()
}

// elemClass: how the conversion of one container element ends (ok / error / panic)
func c08_elemClass(t *c08_MTy, o object.Object) string {
	return c08_recoverClass(func() string {
		conv, err := c08_getConverter(t, "create")
		if err != nil {
			return "error"
		}
		out := c08_toSlotReal(conv, t, o) // an untyped nil result deletes the key: not a failure
		if strings.HasPrefix(out, "(ok") {
			return "ok"
		}
		return out
	})
}

// structObj: a proxy — or a map — for a struct-typed slot
func (g *c08_gen) structObj(t *c08_MTy, depth int) object.Object {
	switch g.r.Intn(8) {
	case 0:
		g.boundary = true
		p, _ := object.NewProxy(c08_otherPoint) // a proxy of another struct type
		return p
	case 1:
		g.boundary = true
		var np *c08_NPoint
		p, _ := object.NewProxy(np) // a proxy wrapping a nil pointer
		return p
	case 2:
		return object.NewInt(1)
	case 3, 4:
		// a MAP where Go wants the struct (StructConverter.To, case *Map)
		if o := g.mapFor(t, depth, false); o != nil {
			return o
		}
	}
	if o := g.natural(t, depth); o != nil {
		return o
	}
	return object.Nil
}

// structOf: the struct type a struct-kind slot (S or *S, declared or not) is about; nil for time.Time
func c08_structOf(t *c08_MTy) *c08_MTy {
	u := t.under()
	if u.K == "ptr" {
		u = u.E.under()
	}
	if u.K != "struct" {
		return nil
	}
	return u
}

// fieldClass: how StructConverter.To ends on the one-entry map {F<idx>: o} (ok / error / panic)
func c08_fieldClass(t *c08_MTy, idx int, o object.Object) string {
	return c08_recoverClass(func() string {
		conv, err := c08_getConverter(t, "get")
		if err != nil {
			return "error"
		}
		if _, err := conv.To(object.NewMap(map[string]object.Object{"F" + strconv.Itoa(idx): o})); err != nil {
			return "error"
		}
		return "ok"
	})
}

var c08_strayKeys = []string{"zz", "f0", "F", "F01", "F99", "", "F0 "}

// mapFor: a map object aimed at a struct-kind slot.  Each field is named with probability 60%
// (full: 90%), its value aimed at the field's type; sometimes a key that names no field.  Only
// entries whose conversion alone ends in the same class (ok / error / panic) are kept: Go walks the
// map in its own order, so with an error and a panic together the outcome would depend on it.
func (g *c08_gen) mapFor(t *c08_MTy, depth int, full bool) object.Object {
	st := c08_structOf(t)
	if st == nil {
		return nil
	}
	m := map[string]object.Object{}
	first := ""
	pct := 60
	if full {
		pct = 90
	}
	for i, f := range st.Fs {
		if !g.r.Chance(pct) {
			continue
		}
		var o object.Object
		if full {
			o = g.natural(f, depth-1)
			if o == nil || o == object.Nil {
				o = g.objFor(f, depth-1)
			}
		} else {
			o = g.objFor(f, depth-1)
		}
		cls := c08_fieldClass(t, i, o)
		if first == "" {
			first = cls
		}
		if cls == first {
			m["F"+strconv.Itoa(i)] = o
		}
	}
	if g.r.Chance(12) {
		m[Pick(g.r, c08_strayKeys)] = g.anyObj(1)
	}
	return object.NewMap(m)
}

// ---------------------------------------------------------------------------------------------
// cases

type c08Case struct {
	op   string
	key  string // canonical text of the case
	req  string // oracle request (TAB-joined, includes the Go result)
	gout string // the real code's outcome, in the model's text form
	triv bool
}

type c08Run struct {
	e            *Env
	g            *c08_gen
	batch        []c08Case
	proposedSeen map[string]string // proposed finding id -> first case that reproduced it
}

// Findings proposed in findings/proposed-C08.json.  While known_findings.json (owned by the
// framework) does not list them, a case that falls under one AND on which the real code agrees
// with the Impl model is reported as a note instead of a Spec violation; once listed it is an
// ordinary KNOWN-FINDING.  Any disagreement with the model is still raised.
var c08_proposed = map[string]bool{"C08-slice-element-write-lost": true}

var c08_listedCache map[string]bool

func c08_isListed(id string) bool {
	if c08_listedCache == nil {
		c08_listedCache = map[string]bool{}
		for _, p := range []string{"../known_findings.json", "known_findings.json"} {
			b, err := os.ReadFile(p)
			if err != nil {
				continue
			}
			var k struct {
				Findings []struct {
					ID string `json:"id"`
				} `json:"findings"`
			}
			if json.Unmarshal(b, &k) == nil {
				for _, f := range k.Findings {
					c08_listedCache[f.ID] = true
				}
			}
			break
		}
	}
	return c08_listedCache[id]
}

func (r *c08Run) add(c c08Case) {
	r.batch = append(r.batch, c)
	if len(r.batch) >= 1000 {
		r.flush()
	}
}

func c08_short(s string, n int) string {
	if len(s) > n {
		return s[:n] + "…"
	}
	return s
}

func (r *c08Run) flush() {
	if len(r.batch) == 0 {
		return
	}
	reqs := make([]string, len(r.batch))
	for i, c := range r.batch {
		reqs[i] = c.req
	}
	reps := r.e.O.AskBatch(reqs)
	for i, c := range r.batch {
		f := strings.Split(reps[i], "\t")
		r.e.R.Case(c.key, !c.triv)
		if len(f) < 4 {
			r.e.R.Mismatch(c.key, c08_short(c.gout, 300), c08_short(reps[i], 300), "oracle could not evaluate the case")
			continue
		}
		impl, specGo, guards := f[0], f[1], f[3]
		agree := impl == c.gout
		isHist := strings.HasPrefix(c.op, "hist")
		if !agree && isHist {
			r.e.R.Mismatch(c08_short(c.key, 3000), c08_short(c.gout, 1500), c08_short(impl, 1500), "real "+c.op+" vs C08 heap model: "+c08_histDiff(c.key, c.gout, impl))
		} else if !agree {
			r.e.R.Mismatch(c.key, c08_short(c.gout, 400), c08_short(impl, 400), "real "+c.op+" vs C08 model")
		}
		cls := c.gout
		if isHist {
			cls = "every step accepted"
			if strings.Contains(c.gout, "(panic ") {
				cls = "a step panicked"
			} else if strings.Contains(c.gout, "(error ") {
				cls = "a step rejected"
			} else if strings.HasPrefix(c.gout, "(res script-") {
				cls = "script failed"
			}
		} else if c.op == "seq" || c.op == "callseq" {
			cls = "every conversion accepted"
			if strings.Contains(c.gout, " panic") {
				cls = "a conversion panicked"
			} else if strings.Contains(c.gout, " error") {
				cls = "a conversion rejected"
			}
			if strings.Contains(c.key, "(m ") && strings.Contains(c.gout, "(st") {
				r.e.R.H("series_with_map_for_struct", cls)
			}
		} else if strings.HasPrefix(cls, "(ok") {
			cls = "ok"
			if strings.Contains(c.gout, " panic)") {
				cls = "ok-then-panic"
			} else if strings.Contains(c.gout, " error)") {
				cls = "ok-then-error"
			}
		}
		r.e.R.H("outcome/"+c.op, cls)
		if guards == "-" {
			r.e.R.H("guard", "clean")
		} else {
			for _, gname := range strings.Split(guards, ",") {
				r.e.R.H("guard", gname)
			}
		}
		if len(f) >= 5 && f[4] == "illtyped" {
			r.e.R.Mismatch(c.key, "-", "-", "the harness serialised a value that the model says is ill-typed")
		}
		if specGo == "viol" {
			finding := ""
			if agree && guards != "-" {
				finding = strings.Split(guards, ",")[0]
			}
			if c08_proposed[finding] && !c08_isListed(finding) {
				// a defect of the unchanged code that known_findings.json does not list yet
				// (findings/proposed-C08.json): counted and noted, not raised
				r.e.R.H("proposed_finding_hits", finding)
				if r.proposedSeen == nil {
					r.proposedSeen = map[string]string{}
				}
				if _, ok := r.proposedSeen[finding]; !ok {
					r.proposedSeen[finding] = c08_short(c.key, 900) + " → " + c08_short(c.gout, 300)
				}
				continue
			}
			if isHist {
				idx := ""
				if len(f) >= 5 {
					idx = f[4]
				}
				r.e.R.Spec(c08_short(c.key, 3000), c08_histDetail(c.key, c.gout, idx), finding)
				continue
			}
			r.e.R.Spec(c.key, "the real result violates the Spec: "+c08_short(c.gout, 300), finding)
		}
	}
	r.batch = r.batch[:0]
}

func c08_tyHist(e *Env, t *c08_MTy) {
	e.R.H("type_depth", strconv.Itoa(t.depth()))
	var walk func(t *c08_MTy)
	walk = func(t *c08_MTy) {
		k := t.K
		if k == "named" {
			k = "named:" + t.under().K
		}
		e.R.H("type_constructor", k)
		if t.E != nil {
			walk(t.E)
		}
		for _, f := range t.Fs {
			walk(f)
		}
	}
	walk(t)
}

func (r *c08Run) rtCase(t *c08_MTy, mode string, v reflect.Value, boundary bool) {
	vs := c08_valStr(v, t)
	gout, _ := c08_roundTripReal(t, mode, v)
	key := "rt " + mode + " " + t.String() + " " + vs
	c08_tyHist(r.e, t)
	r.add(c08Case{op: "rt", key: key, gout: gout, triv: t.depth() == 0 && !boundary,
		req: strings.Join([]string{"C08", "rt", mode, t.String(), vs, gout}, "\t")})
}

// the same crossing through risor.Eval + WithGlobal
func (r *c08Run) evalGlobalCase(t *c08_MTy, v reflect.Value) {
	res, class := c08_evalReal("x", map[string]any{"x": v.Interface()})
	gout := class
	if class == "ok" {
		gout = "(ok " + c08_objStr(res) + ")"
	}
	vs := c08_valStr(v, t)
	key := "eval-global " + t.String() + " " + vs
	c08_tyHist(r.e, t)
	r.add(c08Case{op: "eval-global", key: key, gout: gout,
		req: strings.Join([]string{"C08", "evalglobal", t.String(), vs, gout}, "\t")})
}

func (r *c08Run) nilGlobalCase() {
	_, class := c08_evalReal("x", map[string]any{"x": nil})
	gout := class
	if class == "ok" {
		gout = "(ok nil)"
	}
	r.add(c08Case{op: "global", key: "global WithGlobal(\"x\", nil)", gout: gout, req: "C08\tglobal\t" + gout})
}

func c08_newProxyFor(st *c08_MTy, sv reflect.Value) (*object.Proxy, reflect.Value, error) {
	p := reflect.New(st.RT())
	p.Elem().Set(sv)
	px, err := object.NewProxy(p.Interface())
	return px, p, err
}

func c08_attrResult(o object.Object, ok bool) string {
	if !ok {
		return "error"
	}
	if _, isErr := o.(*object.Error); isErr {
		return "error"
	}
	return "(ok " + c08_objStr(o) + ")"
}

func (r *c08Run) getCase(st *c08_MTy, sv reflect.Value, idx int, viaScript bool) {
	pt := c08_mPtr(st)
	px, p, err := c08_newProxyFor(st, sv)
	pvs := c08_valStr(p, pt)
	name := st.RT().Field(idx).Name
	gout := c08_recoverClass(func() string {
		if err != nil {
			return "error"
		}
		o, ok := px.GetAttr(name)
		return c08_attrResult(o, ok)
	})
	key := fmt.Sprintf("get %s %s %d", pt, pvs, idx)
	c08_tyHist(r.e, st)
	r.add(c08Case{op: "get", key: key, gout: gout,
		req: strings.Join([]string{"C08", "get", pt.String(), pvs, strconv.Itoa(idx), gout}, "\t")})
	if viaScript && err == nil {
		res, class := c08_evalReal("p."+name, map[string]any{"p": p.Interface()})
		if _, isErr := res.(*object.Error); isErr && class == "ok" {
			class = "error" // the script receives the error as a value
		}
		want := "ok"
		if gout == "panic" || gout == "error" {
			want = gout
		}
		skey := "eval-get " + key
		r.e.R.Case(skey, true)
		if class != want {
			r.e.R.Mismatch(skey, class, want, "script field read vs Proxy.GetAttr")
		} else if class == "ok" && "(ok "+c08_objStr(res)+")" != gout {
			r.e.R.Mismatch(skey, c08_objStr(res), gout, "script field read vs Proxy.GetAttr")
		}
	}
}

func (r *c08Run) setCase(st *c08_MTy, sv reflect.Value, idx int, o object.Object, boundary bool) {
	pt := c08_mPtr(st)
	px, p, err := c08_newProxyFor(st, sv)
	pvs := c08_valStr(p, pt)
	name := st.RT().Field(idx).Name
	os := c08_objStr(o)
	gout := c08_recoverClass(func() string {
		if err != nil {
			return "error"
		}
		if err := px.SetAttr(name, o); err != nil {
			return "error"
		}
		after := c08_valStr(p, pt)
		rd := c08_recoverClass(func() string {
			ro, ok := px.GetAttr(name)
			return c08_attrResult(ro, ok)
		})
		return "(ok " + after + " " + rd + ")"
	})
	key := fmt.Sprintf("set %s %s %d %s", pt, pvs, idx, os)
	c08_tyHist(r.e, st)
	r.add(c08Case{op: "set", key: key, gout: gout, triv: false,
		req: strings.Join([]string{"C08", "set", pt.String(), pvs, strconv.Itoa(idx), os, gout}, "\t")})
	_ = boundary
}

// the same write from a script: p.F = x ; the Go struct must end in the same state
func (r *c08Run) evalSetCase(st *c08_MTy, sv reflect.Value, idx int, o object.Object) {
	pt := c08_mPtr(st)
	name := st.RT().Field(idx).Name
	px, p1, err := c08_newProxyFor(st, sv)
	if err != nil {
		return
	}
	direct := c08_recoverClass(func() string {
		if err := px.SetAttr(name, o); err != nil {
			return "error"
		}
		return "ok"
	})
	p2 := reflect.New(st.RT())
	p2.Elem().Set(sv)
	_, class := c08_evalReal("p."+name+" = x", map[string]any{"p": p2.Interface(), "x": o})
	key := fmt.Sprintf("eval-set %s %s %d %s", pt, c08_valStr(p2, pt), idx, c08_objStr(o))
	r.e.R.Case(key, true)
	r.e.R.H("outcome/eval-set", class)
	if class != direct {
		r.e.R.Mismatch(key, class, direct, "script field write vs Proxy.SetAttr")
		return
	}
	if class == "ok" && c08_valStr(p1, pt) != c08_valStr(p2, pt) {
		r.e.R.Mismatch(key, c08_valStr(p2, pt), c08_valStr(p1, pt), "Go struct state after a script write vs after Proxy.SetAttr")
	}
}

func (r *c08Run) callCase(m c08_hostMethod, o object.Object, viaScript bool) {
	h := &c08_Host{}
	px, err := object.NewProxy(h)
	if err != nil {
		r.e.R.Mismatch("call "+m.name, "NewProxy(&Host{}) failed: "+err.Error(), "-", "harness host type")
		return
	}
	os := c08_objStr(o)
	gotStr := func(h *c08_Host) string {
		slot := reflect.New(m.pt.RT()).Elem()
		if h.Got != nil {
			slot.Set(reflect.ValueOf(h.Got))
		}
		return c08_valStr(slot, m.pt)
	}
	gout := c08_recoverClass(func() string {
		attr, ok := px.GetAttr(m.name)
		if !ok {
			return "error"
		}
		res := attr.(*object.Builtin).Call(context.Background(), o)
		if _, isErr := res.(*object.Error); isErr {
			return "error"
		}
		if !h.Called {
			return "error"
		}
		return "(ok " + gotStr(h) + " " + c08_objStr(res) + ")"
	})
	key := fmt.Sprintf("call %s %s", m.pt, os)
	c08_tyHist(r.e, m.pt)
	r.add(c08Case{op: "call", key: key, gout: gout,
		req: strings.Join([]string{"C08", "call", m.pt.String(), os, gout}, "\t")})
	if viaScript {
		h2 := &c08_Host{}
		res, class := c08_evalReal("h."+m.name+"(x)", map[string]any{"h": h2, "x": o})
		want := "ok"
		if gout == "panic" || gout == "error" {
			want = gout
		}
		skey := "eval-call " + key
		r.e.R.Case(skey, true)
		r.e.R.H("outcome/eval-call", class)
		if class != want {
			r.e.R.Mismatch(skey, class, want, "script method call vs Proxy method call")
		} else if class == "ok" {
			if got := "(ok " + gotStr(h2) + " " + c08_objStr(res) + ")"; got != gout {
				r.e.R.Mismatch(skey, got, gout, "script method call vs Proxy method call")
			}
		}
	}
}

// ---------------------------------------------------------------------------------------------
// methods with several parameters: EVERY argument position

// argsFor draws an argument list for m: usually one object per parameter, sometimes too few or
// too many, and often a nil somewhere (so that a nil is followed / preceded by other arguments)
func (g *c08_gen) argsFor(m c08_hostMethodN) []object.Object {
	n := len(m.pts)
	k := n
	switch x := g.r.Intn(100); {
	case x < 7:
		k = g.r.Intn(n) // too few
	case x < 13:
		k = n + 1 + g.r.Intn(2) // surplus
	}
	os := make([]object.Object, k)
	for i := range os {
		if i < n {
			os[i] = g.objFor(m.pts[i], 2)
		} else {
			os[i] = g.anyObj(1)
		}
	}
	if k > 0 && g.r.Chance(35) {
		os[g.r.Intn(k)] = object.Nil
	}
	return os
}

func c08_objsStr(os []object.Object) string {
	var b strings.Builder
	b.WriteString("(l")
	for _, o := range os {
		b.WriteString(" " + c08_objStr(o))
	}
	b.WriteString(")")
	return b.String()
}

// callNCase: h.M(o0, o1, …) on a method that records and returns every parameter.  Compared with
// the model of the whole argument loop (callEchoN); the Spec (each parameter holds what was passed
// in ITS position, none missing, none dropped) is evaluated on the real result.
func (r *c08Run) callNCase(m c08_hostMethodN, os []object.Object, viaScript bool) {
	h := &c08_Host{}
	px, err := object.NewProxy(h)
	if err != nil {
		r.e.R.Mismatch("calln "+m.name, "NewProxy(&Host{}) failed: "+err.Error(), "-", "harness host type")
		return
	}
	gotStr := func(h *c08_Host) string {
		var b strings.Builder
		b.WriteString("(st")
		for i, pt := range m.pts {
			slot := reflect.New(pt.RT()).Elem()
			if i < len(h.Gots) && h.Gots[i] != nil {
				slot.Set(reflect.ValueOf(h.Gots[i]))
			}
			b.WriteString(" " + c08_valStr(slot, pt))
		}
		b.WriteString(")")
		return b.String()
	}
	gout := c08_recoverClass(func() string {
		attr, ok := px.GetAttr(m.name)
		if !ok {
			return "error"
		}
		res := attr.(*object.Builtin).Call(context.Background(), os...)
		if _, isErr := res.(*object.Error); isErr {
			return "error"
		}
		if !h.Called {
			return "error"
		}
		return "(ok " + gotStr(h) + " " + c08_objStr(res) + ")"
	})
	pts := c08_mStruct(m.pts...).String()
	oss := c08_objsStr(os)
	key := fmt.Sprintf("calln %s %s", pts, oss)
	for _, pt := range m.pts {
		c08_tyHist(r.e, pt)
	}
	r.e.R.H("call_arity", fmt.Sprintf("%d params, %+d args", len(m.pts), len(os)-len(m.pts)))
	for i, o := range os {
		if o == object.Nil && i+1 < len(os) {
			r.e.R.H("call_nil_position", "nil followed by other arguments")
			break
		}
	}
	r.add(c08Case{op: "calln", key: key, gout: gout,
		req: strings.Join([]string{"C08", "calln", pts, oss, gout}, "\t")})
	if viaScript {
		h2 := &c08_Host{}
		globals := map[string]any{"h": h2}
		names := make([]string, len(os))
		for i, o := range os {
			names[i] = "x" + strconv.Itoa(i)
			globals[names[i]] = o
		}
		res, class := c08_evalReal("h."+m.name+"("+strings.Join(names, ", ")+")", globals)
		if _, isErr := res.(*object.Error); isErr && class == "ok" {
			class = "error"
		}
		want := "ok"
		if gout == "panic" || gout == "error" {
			want = gout
		}
		skey := "eval-" + key
		r.e.R.Case(skey, true)
		r.e.R.H("outcome/eval-calln", class)
		if class != want {
			r.e.R.Mismatch(skey, class, want, "script method call vs Proxy method call")
		} else if class == "ok" {
			if got := "(ok " + gotStr(h2) + " " + c08_objStr(res) + ")"; got != gout {
				r.e.R.Mismatch(skey, got, gout, "script method call vs Proxy method call")
			}
		}
	}
}

// ---------------------------------------------------------------------------------------------
// ONE converter, a series of conversions.  typeConverters / GoType.converter keep one converter per
// Go type for the whole process; whatever it converted before, conversion k must be the conversion
// of object k alone (model: toSlotSeq / callSeq = the single conversions; Spec: every single write
// faithful or rejected).  The series are biased towards struct types assembled from MAP objects in
// which a later map names fewer fields than an earlier one.

func c08_seqStr(rs []string) string { return "(seq " + strings.Join(rs, " ") + ")" }

// seqCase: conv := converter of t (fetched once); for each object: conv.To + assignment into a fresh slot
func (r *c08Run) seqCase(t *c08_MTy, mode string, os []object.Object) {
	rs := make([]string, len(os))
	conv, err := c08_getConverter(t, mode)
	for i, o := range os {
		if err != nil {
			rs[i] = "error"
			continue
		}
		rs[i] = c08_toSlotReal(conv, t, o)
	}
	gout := c08_seqStr(rs)
	oss := c08_objsStr(os)
	key := fmt.Sprintf("seq %s %s %s", mode, t, oss)
	c08_tyHist(r.e, t)
	r.e.R.H("seq_len", strconv.Itoa(len(os)))
	r.add(c08Case{op: "seq", key: key, gout: gout,
		req: strings.Join([]string{"C08", "seq", mode, t.String(), oss, gout}, "\t")})
}

// callSeqCase: h.E(o0); h.E(o1); … on ONE proxied host; what the method received and returned, per call
func (r *c08Run) callSeqCase(m c08_hostMethod, os []object.Object, viaScript bool) {
	h := &c08_Host{}
	px, err := object.NewProxy(h)
	if err != nil {
		r.e.R.Mismatch("callseq "+m.name, "NewProxy(&Host{}) failed: "+err.Error(), "-", "harness host type")
		return
	}
	gotStr := func(h *c08_Host) string {
		slot := reflect.New(m.pt.RT()).Elem()
		if h.Got != nil {
			slot.Set(reflect.ValueOf(h.Got))
		}
		return c08_valStr(slot, m.pt)
	}
	rs := make([]string, len(os))
	for i, o := range os {
		h.Got, h.Called = nil, false
		rs[i] = c08_recoverClass(func() string {
			attr, ok := px.GetAttr(m.name)
			if !ok {
				return "error"
			}
			res := attr.(*object.Builtin).Call(context.Background(), o)
			if _, isErr := res.(*object.Error); isErr {
				return "error"
			}
			if !h.Called {
				return "error"
			}
			return "(ok " + gotStr(h) + " " + c08_objStr(res) + ")"
		})
	}
	gout := c08_seqStr(rs)
	oss := c08_objsStr(os)
	key := fmt.Sprintf("callseq %s %s", m.pt, oss)
	c08_tyHist(r.e, m.pt)
	r.e.R.H("seq_len", strconv.Itoa(len(os)))
	r.add(c08Case{op: "callseq", key: key, gout: gout,
		req: strings.Join([]string{"C08", "callseq", m.pt.String(), oss, gout}, "\t")})
	if viaScript {
		// the same calls made by ONE script: [h.E(x0), h.E(x1), …]; compared when every call is accepted
		allOK := true
		for _, x := range rs {
			allOK = allOK && strings.HasPrefix(x, "(ok ")
		}
		h2 := &c08_Host{}
		globals := map[string]any{"h": h2}
		calls := make([]string, len(os))
		for i, o := range os {
			globals["x"+strconv.Itoa(i)] = o
			calls[i] = "h." + m.name + "(x" + strconv.Itoa(i) + ")"
		}
		res, class := c08_evalReal("["+strings.Join(calls, ", ")+"]", globals)
		skey := "eval-" + key
		r.e.R.Case(skey, true)
		r.e.R.H("outcome/eval-callseq", class)
		if allOK {
			want := make([]string, len(rs))
			for i, x := range rs {
				// "(ok V O)": the returned object is what follows the received value
				want[i] = strings.TrimSuffix(strings.TrimPrefix(x, "(ok "+c08_valAt(x)+" "), ")")
			}
			if class != "ok" {
				r.e.R.Mismatch(skey, class, "ok", "script method calls vs Proxy method calls")
			} else if got := c08_objStr(res); got != "(l "+strings.Join(want, " ")+")" {
				r.e.R.Mismatch(skey, got, "(l "+strings.Join(want, " ")+")", "script method calls vs Proxy method calls")
			} else if len(os) > 0 && gotStr(h2) != c08_valAt(rs[len(rs)-1]) {
				r.e.R.Mismatch(skey, gotStr(h2), c08_valAt(rs[len(rs)-1]), "what the last call received: script vs Proxy method call")
			}
		}
	}
}

// valAt: the first S-expression after "(ok " of "(ok V O)"
func c08_valAt(x string) string {
	x = strings.TrimPrefix(x, "(ok ")
	depth := 0
	for i, c := range x {
		switch c {
		case '(':
			depth++
		case ')':
			depth--
			if depth == 0 {
				return x[:i+1]
			}
		case ' ':
			if depth == 0 {
				return x[:i]
			}
		}
	}
	return x
}

// seqObj: an object for a slot of type t, biased towards maps where a struct is wanted
func (g *c08_gen) seqObj(t *c08_MTy, full bool) object.Object {
	u := t.under()
	if c08_structOf(t) != nil && g.r.Chance(80) {
		if o := g.mapFor(t, 2, full); o != nil {
			return o
		}
	}
	if (u.K == "slice" || u.K == "array" || u.K == "map") && c08_structOf(u.E) != nil && g.r.Chance(80) {
		k := 1 + g.r.Intn(3)
		if u.K == "array" {
			k = u.N
		}
		if u.K == "map" {
			m := map[string]object.Object{}
			first := ""
			for i := 0; i < k; i++ {
				o := g.seqObj(u.E, full && i == 0)
				cls := c08_elemClass(u.E, o)
				if first == "" {
					first = cls
				}
				if cls == first {
					m[Pick(g.r, c08_keyPool)] = o
				}
			}
			return object.NewMap(m)
		}
		items := make([]object.Object, k)
		for i := range items {
			items[i] = g.seqObj(u.E, full && i == 0)
		}
		return object.NewList(items)
	}
	return g.objFor(t, 2)
}

func (g *c08_gen) seqStructTy() *c08_MTy {
	if g.r.Chance(55) {
		return Pick(g.r, []*c08_MTy{c08_mNPoint, c08_mNPoint, c08_mNBox, c08_mNTagged})
	}
	return g.structTy(1)
}

func (r *c08Run) seqRandom() {
	g := r.g
	var t *c08_MTy
	if g.r.Chance(70) {
		st := g.seqStructTy()
		switch g.r.Intn(7) {
		case 0:
			t = c08_mPtr(st)
		case 1:
			t = c08_mSlice(st)
		case 2:
			t = c08_mArray(1+g.r.Intn(2), st)
		case 3:
			t = c08_mMap(st)
		default:
			t = st
		}
	} else {
		t = g.ty(1+g.r.Intn(2), false)
	}
	mode := "create"
	if g.r.Chance(40) {
		mode = "get"
	}
	os := make([]object.Object, 2+g.r.Intn(3))
	for i := range os {
		os[i] = g.seqObj(t, i == 0)
	}
	r.seqCase(t, mode, os)
}

func (r *c08Run) callSeqRandom() {
	g := r.g
	var ms []c08_hostMethod
	for _, m := range c08_hostMethods {
		u := m.pt.under()
		if c08_structOf(m.pt) != nil || ((u.K == "slice" || u.K == "array" || u.K == "map") && c08_structOf(u.E) != nil) {
			ms = append(ms, m)
		}
	}
	m := Pick(g.r, c08_hostMethods)
	if len(ms) > 0 && g.r.Chance(75) {
		m = Pick(g.r, ms)
	}
	os := make([]object.Object, 2+g.r.Intn(3))
	for i := range os {
		os[i] = g.seqObj(m.pt, i == 0)
	}
	r.callSeqCase(m, os, g.r.Chance(15))
}

// ---------------------------------------------------------------------------------------------
// one VM used for a series of runs, globals supplied again on every run

type c08_supply struct {
	name int
	t    *c08_MTy
	v    reflect.Value
}

func c08_gname(i int) string { return "g" + strconv.Itoa(i) }

// fromClass: how the conversion of one global alone ends (ok / error / panic)
func c08_fromClass(t *c08_MTy, v reflect.Value) string {
	return c08_recoverClass(func() string {
		conv, err := object.NewTypeConverter(t.RT())
		if err != nil {
			return "error"
		}
		if _, err := conv.From(v.Interface()); err != nil {
			return "error"
		}
		return "ok"
	})
}

func c08_compileFor(src string, names []string) (*compiler.Code, error) {
	ast, err := parser.Parse(context.Background(), src)
	if err != nil {
		return nil, err
	}
	var opts []compiler.Option
	if len(names) > 0 {
		opts = append(opts, compiler.WithGlobalNames(names))
	}
	return compiler.Compile(ast, opts...)
}

// reuseSeq: steps[j] are the globals supplied with run j; all runs are on ONE VirtualMachine.
//
//	api "eval"     risor.Eval(src_j, WithVM(m), WithGlobals(step_j)); src_j reads the names of step j
//	api "runcode"  vm.RunCodeOnVM(m, code_j, vm.WithGlobals(step_j)); code_j reads every name supplied so far
//	api "evalcode" one *compiler.Code compiled once, risor.EvalCode(code, WithVM(m), WithGlobals(step_j))
//	               (every step supplies every name)
//
// Every read is compared with the model (reuseRead on the history of supplies) and the Spec (the
// run sees the value supplied LAST under that name) is evaluated on the real result.  For pointers
// to structs the proxy must wrap the very pointer supplied with this run (real code only).
func (r *c08Run) reuseSeq(api string, steps [][]c08_supply) {
	machine, err := vm.NewEmpty()
	if err != nil {
		r.e.R.Mismatch("reuse "+api, "vm.NewEmpty failed: "+err.Error(), "-", "harness")
		return
	}
	ctx := context.Background()
	var hist []string
	latest := map[int]c08_supply{}
	var allNames []int
	var once *compiler.Code
	for j, step := range steps {
		globals := map[string]any{}
		for _, sp := range step {
			globals[c08_gname(sp.name)] = sp.v.Interface()
			hist = append(hist, fmt.Sprintf("(%d %s %s)", sp.name, sp.t, c08_valStr(sp.v, sp.t)))
			if _, seen := latest[sp.name]; !seen {
				allNames = append(allNames, sp.name)
			}
			latest[sp.name] = sp
		}
		var reads []int
		if api == "eval" {
			for _, sp := range step {
				dup := false
				for _, n := range reads {
					dup = dup || n == sp.name
				}
				if !dup {
					reads = append(reads, sp.name)
				}
			}
		} else {
			reads = append(reads, allNames...)
		}
		sort.Ints(reads)
		rnames := make([]string, len(reads))
		for i, n := range reads {
			rnames[i] = c08_gname(n)
		}
		src := "[" + strings.Join(rnames, ", ") + "]"
		var res object.Object
		class := c08_recoverClass(func() string {
			var rerr error
			switch api {
			case "eval":
				res, rerr = risor.Eval(ctx, src, risor.WithVM(machine), risor.WithGlobals(globals))
			case "runcode":
				var code *compiler.Code
				code, rerr = c08_compileFor(src, rnames)
				if rerr == nil {
					res, rerr = vm.RunCodeOnVM(ctx, machine, code, vm.WithGlobals(globals))
				}
			default:
				if once == nil {
					once, rerr = c08_compileFor(src, rnames)
				}
				if rerr == nil {
					res, rerr = risor.EvalCode(ctx, once, risor.WithVM(machine), risor.WithGlobals(globals))
				}
			}
			if rerr != nil {
				if strings.HasPrefix(rerr.Error(), "panic:") {
					return "panic"
				}
				return "error"
			}
			return "ok"
		})
		var items []object.Object
		if class == "ok" {
			if l, ok := res.(*object.List); ok && len(l.Value()) == len(reads) {
				items = l.Value()
			} else {
				class = "error"
			}
		}
		hs := "(h " + strings.Join(hist, " ") + ")"
		r.e.R.H("reuse_api", api)
		r.e.R.H("reuse_step", strconv.Itoa(j+1))
		for i, n := range reads {
			gout := class
			if class == "ok" {
				gout = "(ok " + c08_objStr(items[i]) + ")"
			}
			key := fmt.Sprintf("reuse %s %s run %d reads %s", api, hs, j+1, c08_gname(n))
			resupplied := false
			cnt := 0
			for _, st := range steps[:j+1] {
				for _, sp := range st {
					if sp.name == n {
						cnt++
					}
				}
			}
			resupplied = cnt > 1
			if resupplied {
				r.e.R.H("reuse_read", "name supplied more than once")
			} else {
				r.e.R.H("reuse_read", "name supplied once")
			}
			r.add(c08Case{op: "reuse", key: key, gout: gout,
				req: strings.Join([]string{"C08", "reuse", hs, strconv.Itoa(n), gout}, "\t")})
			// identity: a proxy for a pointer supplied with THIS history must wrap that very pointer
			if class == "ok" {
				sp := latest[n]
				if px, ok := items[i].(*object.Proxy); ok && sp.t.under().K == "ptr" && sp.t.under().E.under().K == "struct" && !sp.v.IsNil() {
					w := reflect.ValueOf(px.Interface())
					if w.Kind() != reflect.Pointer || w.Pointer() != sp.v.Pointer() {
						r.flush() // report the cases before this one first (keeps the first replay minimal)
						r.e.R.Spec(key, "the proxy the script sees wraps another Go object than the pointer supplied last under "+c08_gname(n), "")
					}
				}
			}
		}
	}
}

// reuseWriteCase: the per-request pattern.  One VM, every request supplies a fresh *NPoint under
// the same name; the script writes a field and reads another.  The write must land in THIS
// request's struct and the read must come from it.  Real code only (the model has no heap).
func (r *c08Run) reuseWriteCase(api string, ids []int64) {
	machine, err := vm.NewEmpty()
	if err != nil {
		return
	}
	ctx := context.Background()
	src := `req.F1 = "done"; req.F0`
	var once *compiler.Code
	for j, id := range ids {
		req := &c08_NPoint{F0: int(id), F1: "new"}
		key := fmt.Sprintf("reuse-write %s ids=%v request %d", api, ids, j+1)
		var res object.Object
		class := c08_recoverClass(func() string {
			var rerr error
			if api == "evalcode" {
				if once == nil {
					once, rerr = c08_compileFor(src, []string{"req"})
				}
				if rerr == nil {
					res, rerr = risor.EvalCode(ctx, once, risor.WithVM(machine), risor.WithGlobal("req", req))
				}
			} else {
				res, rerr = risor.Eval(ctx, src, risor.WithVM(machine), risor.WithGlobal("req", req))
			}
			if rerr != nil {
				if strings.HasPrefix(rerr.Error(), "panic:") {
					return "panic"
				}
				return "error"
			}
			return "ok"
		})
		r.e.R.Case(key, true)
		r.e.R.H("outcome/reuse-write", class)
		if class != "ok" || c08_objStr(res) != "(i "+strconv.FormatInt(id, 10)+")" || req.F1 != "done" {
			r.flush()
		}
		if class != "ok" {
			r.e.R.Spec(key, "a field write and read through a proxied global failed on a reused VM: "+class, "")
			return
		}
		if got, want := c08_objStr(res), "(i "+strconv.FormatInt(id, 10)+")"; got != want {
			r.e.R.Spec(key, "the script read req.F0 = "+got+" but this request's Go value has "+want, "")
		}
		if req.F1 != "done" {
			r.e.R.Spec(key, fmt.Sprintf("the script's write req.F1 = \"done\" did not reach the Go value supplied with this request (it still holds %q)", req.F1), "")
		}
	}
}

// reuseRandom: 2–4 runs on one VM over 1–3 names; a name is usually supplied again with a fresh
// value (same or another type).  At any moment the globals held that do not convert all fail in
// the same way (AsObjects walks a Go map: with an error and a panic held together the outcome
// would depend on the iteration order).
func (r *c08Run) reuseRandom() {
	g := r.g
	api := Pick(g.r, []string{"eval", "eval", "runcode", "evalcode"})
	nNames := 1 + g.r.Intn(3)
	nSteps := 2 + g.r.Intn(3)
	heldCls := map[int]string{}
	lastTy := map[int]*c08_MTy{}
	steps := make([][]c08_supply, nSteps)
	for j := range steps {
		var names []int
		for n := 0; n < nNames; n++ {
			if api == "evalcode" || g.r.Chance(65) {
				names = append(names, n)
			}
		}
		if len(names) == 0 {
			names = []int{g.r.Intn(nNames)}
		}
		for _, n := range names {
			var sp c08_supply
			for try := 0; ; try++ {
				t := lastTy[n]
				if t == nil || g.r.Chance(50) {
					t = g.ty(g.r.Intn(3), true)
					if t.under().K == "iface" {
						t = c08_mSlice(t)
					}
				}
				if try >= 4 {
					t = c08_mInt(0)
				}
				v := g.val(t, 2, false)
				cls := c08_fromClass(t, v)
				okc := true
				if cls != "ok" {
					for m, c := range heldCls {
						if m != n && c != "ok" && c != cls {
							okc = false
						}
					}
				}
				if okc {
					sp = c08_supply{n, t, v}
					heldCls[n] = cls
					lastTy[n] = t
					break
				}
			}
			steps[j] = append(steps[j], sp)
		}
	}
	r.reuseSeq(api, steps)
}

// nested write through a proxy of a proxy: p.F0.F0 = i; p.F0.F1 = s must change the Go struct the
// outer proxy wraps (the inner proxy aliases the field), and read back from the script and from Go.
// Evaluated on the real code only (the Lean model has no heap: aliasing is not modelled).
func (r *c08Run) nestedCase(i int64, str string) {
	b := &c08_NBox{F0: c08_NPoint{F0: 1, F1: "old"}}
	res, class := c08_evalReal("b.F0.F0 = i; b.F0.F1 = s; [b.F0.F0, b.F0.F1]",
		map[string]any{"b": b, "i": object.NewInt(i), "s": object.NewString(str)})
	key := fmt.Sprintf("eval-nested NBox.F0.F0=%d NBox.F0.F1=%q", i, str)
	r.e.R.Case(key, true)
	r.e.R.H("outcome/eval-nested", class)
	if class != "ok" {
		r.e.R.Spec(key, "nested field write through a proxy failed: "+class, "")
		return
	}
	want := "(l (i " + strconv.FormatInt(i, 10) + ") (s " + c08_hx([]byte(str)) + "))"
	if got := c08_objStr(res); got != want {
		r.e.R.Spec(key, "script reads back "+got+" after writing "+want, "")
	}
	if int64(b.F0.F0) != i || b.F0.F1 != str {
		r.e.R.Spec(key, fmt.Sprintf("Go reads back {%d %q} after the script wrote {%d %q}", b.F0.F0, b.F0.F1, i, str), "")
	}
}

// goTypeRegistry keeps a struct type whose registration failed: the first conversion is an error,
// the second is accepted and gives a proxy without the fields from the failing one on.
// The struct type used here is produced nowhere else (the generator keeps chan out of structs).
func (r *c08Run) registryCase() {
	st := c08_mStruct(c08_mk("chan"), c08_mInt(32), c08_namedMenu[7].mty)
	sv := reflect.New(st.RT()).Elem()
	sv.Field(1).SetInt(5)
	first, _ := c08_roundTripReal(st, "create", sv)
	vs := c08_valStr(sv, st)
	r.add(c08Case{op: "rt", key: "rt create " + st.String() + " " + vs + " (first attempt)", gout: first,
		req: strings.Join([]string{"C08", "rt", "create", st.String(), vs, first}, "\t")})
	gout := c08_recoverClass(func() string {
		conv, err := c08_getConverter(st, "create")
		if err != nil {
			return "error"
		}
		o, err := conv.From(sv.Interface())
		if err != nil {
			return "error"
		}
		px, ok := o.(*object.Proxy)
		if !ok {
			return "(ok nil error)"
		}
		rv := reflect.ValueOf(px.Interface())
		rd := c08_recoverClass(func() string {
			ro, ok := px.GetAttr("F1")
			return c08_attrResult(ro, ok)
		})
		return "(ok " + c08_valStr(rv, c08_mPtr(st)) + " " + rd + ")"
	})
	r.add(c08Case{op: "retry", key: "retry " + st.String() + " " + vs + " read F1", gout: gout,
		req: strings.Join([]string{"C08", "retry", st.String(), vs, "1", gout}, "\t")})
}

// structTy: a struct type for the field paths (no unsupported kinds: NewProxy must succeed)
func (g *c08_gen) structTy(depth int) *c08_MTy {
	if g.r.Chance(12) {
		return Pick(g.r, []*c08_MTy{c08_mNPoint, c08_mNBox})
	}
	n := 1 + g.r.Intn(4)
	fs := make([]*c08_MTy, n)
	for i := range fs {
		fs[i] = g.ty(depth, false)
	}
	return c08_mStruct(fs...)
}

func c08_ip(i int) *int { return &i }

// directed cases: one per recorded finding, one per REPAIRED finding (uint64 >= 2^63, nil global,
// unconvertible global through Eval, surplus arguments, integers out of range, lists longer than
// the array, declared types of a basic kind: the model says error / nil, so a recurrence of the old behaviour is a disagreement
// with the model AND an unlisted Spec violation) plus the plain paths, so that every run revisits them
func (r *c08Run) directed() {
	one := 1
	var nilp *int
	rt := func(t *c08_MTy, v any) {
		rv := reflect.New(t.RT()).Elem()
		if v != nil {
			rv.Set(reflect.ValueOf(v))
		}
		r.rtCase(t, "create", rv, true)
	}
	rt(c08_namedMenu[0].mty, time.Second)                                                   // repaired (C08-named-type-panic): time.Duration crosses as its int64
	rt(c08_namedMenu[4].mty, c08_NStr("n"))                                                 //   " a declared string type
	rt(c08_mSlice(c08_namedMenu[0].mty), []time.Duration{1, -1})                            //   " as a slice element
	rt(c08_mPtr(c08_namedMenu[8].mty), func() *c08_NI16 { x := c08_NI16(-7); return &x }()) //   " behind a pointer
	rt(c08_namedMenu[6].mty, c08_NU64(1)<<63)                                               // repaired twice: a declared uint64 >= 2^63 is rejected
	rt(c08_mPtr(c08_namedMenu[9].mty), &c08_NIDs{1})                                        // C08-declared-container-type
	rt(c08_namedMenu[9].mty, c08_NIDs{1, 2})                                                // a declared slice type on its own crosses
	rt(c08_mUint(64), uint64(1)<<63)                                                        // repaired (C08-uint64-wraps-negative): rejected
	rt(c08_mUint(0), ^uint(0))                                                              //   "
	rt(c08_mUint(64), uint64(1)<<63-1)                                                      // the largest value that crosses
	rt(c08_mSlice(c08_mUint(64)), []uint64{1, 1 << 63})                                     // repaired: the whole slice is rejected
	rt(c08_mMap(c08_mUint(0)), map[string]uint{"a": 1, "b": 1 << 63})                       //   " the whole map
	rt(c08_mSlice(c08_mPtr(c08_mInt(0))), []*int{nil, &one})                                // C08-nil-element-panic-or-drop
	rt(c08_mMap(c08_mk("iface")), map[string]any{"a": nil})                                 //   " (dropped)
	rt(c08_mPtr(c08_mPtr(c08_mInt(0))), &nilp)                                              // C08-nil-pointer-collapse
	rt(c08_mInt(64), int64(math.MinInt64))                                                  // clean
	rt(c08_mk("f32"), float32(0.1))                                                         // clean
	rt(c08_mSlice(c08_mNPoint), []c08_NPoint{{1, "a"}})                                     // clean
	rt(c08_mMap(c08_mSlice(c08_mk("str"))), map[string][]string{})                          // clean
	r.nilGlobalCase()                                                                       // repaired (C08-nil-global-panic): the script sees nil
	r.evalGlobalCase(c08_namedMenu[0].mty, reflect.ValueOf(time.Second))
	r.evalGlobalCase(c08_mInt(0), reflect.ValueOf(7))
	r.evalGlobalCase(c08_mk("chan"), reflect.ValueOf((chan int)(nil))) // repaired (C08-global-error-panics): Eval returns an error
	r.evalGlobalCase(c08_mUint(64), reflect.ValueOf(uint64(1)<<63))    // repaired twice: From rejects, Eval returns the error
	five := any(5)
	rt(c08_mPtr(c08_mk("iface")), &five) // C08-pointer-to-interface-panics

	st := c08_mStruct(c08_mInt(8), c08_mk("str"), c08_mNPoint, c08_mArray(2, c08_mInt(0)), c08_mPtr(c08_mInt(0)))
	sv := reflect.New(st.RT()).Elem()
	r.getCase(st, sv, 0, true)
	r.getCase(st, sv, 2, true)
	r.setCase(st, sv, 0, object.NewInt(300), true)   // repaired (C08-lossy-narrowing, integers): rejected
	r.setCase(st, sv, 0, object.NewInt(-129), true)  //   "
	r.setCase(st, sv, 0, object.NewByte(200), true)  //   " (a byte that an int8 cannot hold)
	r.setCase(st, sv, 0, object.NewInt(127), true)   // the largest value that fits
	r.setCase(st, sv, 0, object.NewFloat(2.7), true) // C08-lossy-float-conversion
	r.setCase(st, sv, 0, object.NewInt(-5), false)   // clean
	r.setCase(st, sv, 1, object.NewString("hi"), false)
	npx, _ := object.NewProxy(&c08_NPoint{F0: 2})
	r.setCase(st, sv, 2, npx, true)                                                                                   // C08-struct-field-set-panics
	r.setCase(st, sv, 3, object.NewList([]object.Object{object.NewInt(1), object.NewInt(2), object.NewInt(3)}), true) // repaired (C08-array-length-unchecked): a longer list is rejected
	r.setCase(st, sv, 3, object.NewList([]object.Object{object.NewInt(1)}), true)                                     // C08-array-short-list-padded
	r.setCase(st, sv, 3, object.NewList([]object.Object{object.NewInt(1), object.NewInt(2)}), true)                   // clean
	r.setCase(st, sv, 4, object.NewInt(9), false)
	r.evalSetCase(st, sv, 0, object.NewInt(300))
	r.evalSetCase(st, sv, 1, object.NewString("hi"))
	r.nestedCase(7, "new")
	r.registryCase()
	for _, m := range c08_hostMethods {
		switch m.name {
		case "E00":
			r.callCase(m, object.Nil, true) // C08-nil-argument-zero-value
			r.callCase(m, object.NewInt(5), true)
		case "E31":
			bx, _ := object.NewProxy(&c08_NBox{})
			r.callCase(m, bx, true) // C08-proxy-type-unchecked
		case "E15":
			r.callCase(m, object.NewInt(3), true) // named type, script → Go
		case "E09":
			r.callCase(m, object.NewInt(-1), true) // repaired (C08-lossy-narrowing, integers): -1 is no uint64
		case "E06":
			r.callCase(m, object.NewInt(256), true) //   " 256 is no uint8
		case "E24":
			r.callCase(m, object.NewList([]object.Object{object.NewInt(1), object.NewInt(2), object.NewInt(3)}), true) // repaired: [2]int parameter, three items
		case "E44":
			r.callCase(m, object.NewList([]object.Object{object.NewInt(math.MaxInt64)}), true) // []uint64 and back: fits
		}
	}
	_ = c08_ip

	// every argument position (a nil argument is followed by further arguments, too few, surplus)
	str := func(x string) object.Object { return object.NewString(x) }
	num := func(i int64) object.Object { return object.NewInt(i) }
	r.callNCase(c08_methodN("M30"), []object.Object{object.Nil, str("alice"), num(3)}, true)
	r.callNCase(c08_methodN("M21"), []object.Object{object.Nil, num(5)}, true)
	r.callNCase(c08_methodN("M30"), []object.Object{object.Nil}, true) // too few after a nil: rejected
	r.callNCase(c08_methodN("M32"), []object.Object{num(1), object.NewFloat(2.5), object.True}, true)
	r.callNCase(c08_methodN("M41"), []object.Object{str("a"), object.Nil, str("b"), object.Nil}, true)
	r.callNCase(c08_methodN("M33"), []object.Object{object.Nil, object.Nil, object.Nil}, false)
	r.callNCase(c08_methodN("M20"), []object.Object{num(1)}, true)                                                // too few
	r.callNCase(c08_methodN("M20"), []object.Object{num(1), str("x"), num(9)}, true)                              // repaired (C08-surplus-arguments-dropped): args error
	r.callNCase(c08_methodN("M32"), []object.Object{num(1), object.NewFloat(2.5), object.True, object.Nil}, true) //   " (a surplus nil)
	r.callNCase(c08_methodN("M20"), []object.Object{num(1), str("x")}, true)                                      // exactly enough

	// one VM, the same global name supplied again with a new value
	iv := func(i int) reflect.Value { return reflect.ValueOf(i) }
	for _, api := range []string{"eval", "runcode", "evalcode"} {
		r.reuseSeq(api, [][]c08_supply{{{0, c08_mInt(0), iv(1)}}, {{0, c08_mInt(0), iv(2)}}})
		r.reuseSeq(api, [][]c08_supply{
			{{0, c08_mInt(0), iv(10)}, {1, c08_mSlice(c08_mk("str")), reflect.ValueOf([]string{"x"})}},
			{{0, c08_mInt(0), iv(20)}, {1, c08_mSlice(c08_mk("str")), reflect.ValueOf([]string{"y", "z"})}},
			{{0, c08_mk("str"), reflect.ValueOf("s")}, {1, c08_mMap(c08_mInt(0)), reflect.ValueOf(map[string]int{"b": 2})}}})
		r.reuseSeq(api, [][]c08_supply{
			{{0, c08_mPtr(c08_mNPoint), reflect.ValueOf(&c08_NPoint{F0: 1, F1: "a"})}},
			{{0, c08_mPtr(c08_mNPoint), reflect.ValueOf(&c08_NPoint{F0: 1, F1: "a"})}}}) // equal contents, another pointer
	}
	r.reuseSeq("runcode", [][]c08_supply{{{0, c08_mInt(0), iv(1)}}, {{1, c08_mInt(0), iv(2)}}, {{0, c08_mInt(0), iv(3)}}})
	// a global without a converter keeps the next run from starting until it is replaced
	r.reuseSeq("runcode", [][]c08_supply{{{0, c08_mInt(0), iv(1)}}, {{1, c08_mk("chan"), reflect.ValueOf((chan int)(nil))}},
		{{1, c08_mk("bool"), reflect.ValueOf(true)}}})
	r.reuseWriteCase("eval", []int64{1, 2, 3})
	r.reuseWriteCase("evalcode", []int64{1, 2, 3})

	// declared container types over string / byte / float64 elements, Go → script: as a global, as a
	// struct field, as a method result, nested as the element of a slice / array / map
	labels := c08_NLabels{"a", "b"}
	rt(c08_mNLabels, labels)
	rt(c08_mNLabels, c08_NLabels(nil))
	rt(c08_mSlice(c08_mNLabels), []c08_NLabels{{"x"}, nil, {}})
	rt(c08_mMap(c08_mNLabels), map[string]c08_NLabels{"k": {"v"}})
	rt(c08_mArray(2, c08_mNLabels), [2]c08_NLabels{{"p"}, {"q", "r"}})
	rt(c08_namedMenu[16].mty, c08_NNames{"l", "r"})
	rt(c08_namedMenu[17].mty, c08_NBytes("hi"))
	rt(c08_namedMenu[18].mty, c08_NF64s{1.5, -2})
	rt(c08_namedMenu[20].mty, c08_NEnv{"PATH": {"/bin", "/usr/bin"}})
	r.evalGlobalCase(c08_mNLabels, reflect.ValueOf(labels))
	r.evalGlobalCase(c08_mPtr(c08_mNLabels), reflect.ValueOf(&labels)) // reads; only the way back is C08-declared-container-type
	tv := reflect.ValueOf(c08_NTagged{F0: labels, F1: 3})
	r.getCase(c08_mNTagged, tv, 0, true)
	r.setCase(c08_mNTagged, tv, 0, object.NewList([]object.Object{object.NewString("z")}), false)
	for _, m := range c08_hostMethods {
		switch m.name {
		case "E46":
			r.callCase(m, object.NewList([]object.Object{object.NewString("a"), object.NewString("b")}), true)
		case "E47":
			r.callCase(m, object.NewList([]object.Object{object.NewList([]object.Object{object.NewString("a")}), object.NewList(nil)}), true)
		case "E48":
			r.callCase(m, object.NewMap(map[string]object.Object{"k": object.NewList([]object.Object{object.NewString("v")})}), true)
		case "E49":
			tp, _ := object.NewProxy(&c08_NTagged{F0: labels, F1: 1})
			r.callCase(m, tp, true)
		}
	}

	// a MAP where Go wants a struct, and series of them through one converter: the later maps name
	// fewer fields than the earlier ones (every field they do not name must be zero)
	mp := func(kv ...any) object.Object {
		m := map[string]object.Object{}
		for i := 0; i+1 < len(kv); i += 2 {
			m[kv[i].(string)] = kv[i+1].(object.Object)
		}
		return object.NewMap(m)
	}
	full := mp("F0", num(3), "F1", str("first"))
	onlyName := mp("F1", str("second"))
	onlyNum := mp("F0", num(9))
	for _, mode := range []string{"create", "get"} {
		r.seqCase(c08_mNPoint, mode, []object.Object{full, onlyName, mp(), onlyNum})
		r.seqCase(c08_mPtr(c08_mNPoint), mode, []object.Object{full, onlyName})
		r.seqCase(c08_mSlice(c08_mNPoint), mode, []object.Object{object.NewList([]object.Object{full, onlyName, onlyNum})})
		r.seqCase(c08_mArray(2, c08_mNPoint), mode, []object.Object{object.NewList([]object.Object{full, onlyName})})
		r.seqCase(c08_mMap(c08_mNPoint), mode, []object.Object{mp("a", full), mp("a", onlyName)})
	}
	anon := c08_mStruct(c08_mk("str"), c08_mInt(16), c08_mk("bool"), c08_mSlice(c08_mk("str")))
	r.seqCase(anon, "get", []object.Object{
		mp("F0", str("n"), "F1", num(3), "F2", object.True, "F3", object.NewList([]object.Object{str("x")})),
		mp("F0", str("m")), mp("zz", num(1)), mp("F1", num(40000))}) // the last one: 40000 is no int16, rejected
	r.seqCase(c08_mNBox, "get", []object.Object{mp("F1", num(5), "F2", object.NewList([]object.Object{str("t")})), mp("F2", object.NewList(nil))})
	r.seqCase(c08_mNBox, "get", []object.Object{mp("F0", full)})                           // C08-struct-field-set-panics (a struct-typed field, set from a map)
	r.seqCase(c08_mStruct(c08_mPtr(c08_mInt(0))), "get", []object.Object{mp("F0", object.Nil)}) // C08-nil-element-panic-or-drop (a nil entry)
	r.seqCase(c08_mSlice(c08_mInt(8)), "create", []object.Object{object.NewList([]object.Object{num(1), num(2)}), object.NewList([]object.Object{num(300)}), object.NewList(nil)})
	for _, m := range c08_hostMethods {
		switch m.name {
		case "E31": // func (h *Host) E31(x NPoint) NPoint
			r.callSeqCase(m, []object.Object{full, onlyName, onlyNum}, true)
			r.callCase(m, onlyName, true)
		case "E33": // []NPoint
			r.callSeqCase(m, []object.Object{object.NewList([]object.Object{full, onlyName}), object.NewList([]object.Object{onlyNum})}, true)
		case "E51", "E52":
			if m.name == "E51" {
				r.callSeqCase(m, []object.Object{object.NewList([]object.Object{full, onlyName})}, true)
			} else {
				r.callSeqCase(m, []object.Object{mp("k", full), mp("k", onlyNum)}, true)
			}
		case "E32", "E53": // *NPoint / *NBox from a map: a pointer to a new struct
			r.callSeqCase(m, []object.Object{mp("F1", str("p")), mp()}, false)
		}
	}
	st2 := c08_mStruct(c08_mSlice(c08_mNPoint), c08_mInt(0))
	r.setCase(st2, reflect.New(st2.RT()).Elem(), 0, object.NewList([]object.Object{full, onlyName}), false) // a []struct field written as a list of maps
	r.histDirected()
}

func c08_runC08(e *Env) {
	e.R.Rule = "a case is (path, Go type, value[, script object]); paths: converter round trip in create/get mode (From, To, " +
		"assignment into a slot), risor.Eval+WithGlobal, Proxy.GetAttr, Proxy.SetAttr (+ script assignment), Proxy method call " +
		"(+ script call), Proxy method call with 2-5 parameters (every argument position: nil followed by other arguments, too few, " +
		"surplus; the method records and returns every parameter), one VirtualMachine used for 2-4 runs with globals supplied again " +
		"under the same or other names (risor.Eval+WithVM, vm.RunCodeOnVM with options, one compiled code + risor.EvalCode; each run " +
		"reads the globals; for *struct globals also: the proxy wraps the pointer supplied last, a field write lands in it), HISTORIES over one Go object graph " +
		"(2-5 objects with scalar, *struct, struct-by-value, []*struct, map[string]*struct, []struct fields; 1-3 global names, usually several for one object): " +
		"3-24 steps of script reads / scalar writes / pointer stores / fresh-struct stores through paths of 1-6 steps interleaved with Go-side scalar stores, " +
		"re-pointed pointers (65% at a pointer the script has walked through before), fresh objects, replaced slices / maps / struct values; after every mutation " +
		"the place is read again through every name of the object; the whole Go heap is compared after every step; executed through kept proxies (hist-api) and as one script (hist-script; non-trivial: Go replaced a pointer / slice / map). Types are built with reflect (PointerTo/SliceOf/ArrayOf/MapOf/StructOf) to depth <= 3 over scalars, " +
		"time.Time, interface{}, chan and 21 declared types (among them []string, [2]string, []byte, []float64, map[string][]string and a struct holding a declared []string); values are zero/nil/extremes/random; script objects for the " +
		"script-to-Go direction are natural (what From produced), numeric boundary values, nil, mismatched kinds, wrong-length " +
		"lists, foreign proxies, and MAPS where Go wants a struct (each field named with 60%, sometimes a key that names no field). " +
		"SERIES: 2-4 objects converted one after the other through ONE converter (conv.To + slot) or passed to ONE Go method " +
		"(70% struct types S, *S, []S, [n]S, map[string]S filled from maps, the first map naming most fields, later ones fewer); " +
		"every result is compared with the model's single conversion and the Spec is evaluated per element. " +
		"FIRST USE of a Go type by several goroutines at once (30 / 240 child processes, each: one race of 2-4 goroutines calling methods of the never-seen host type " +
		"— 3 fields, ~70 methods — and 25 / 40 rounds over reflect.StructOf types of 8-120 fields made for the round, a third of them also contained in an outer fresh struct " +
		"that the first goroutine proxies; paths NewProxy+GetAttr, NewTypeConverter+From, risor.Eval global; the goroutines leave one barrier after seeded delays — the interleaving aimed at is part of the case; " +
		"every goroutine's field read / method call is compared with the model's sequential one and judged by the Spec; a child that dies is a violation). " +
		"Non-trivial: type depth >= 1 or a boundary value; distinct by the canonical text of the case."
	r := &c08Run{e: e, g: &c08_gen{r: e.Rng.Fork()}}
	r.directed()
	r.flush()

	n := 60000
	if !e.Quick {
		n = 600000
	}
	g := r.g
	nh := 2500
	if !e.Quick {
		nh = 40000
	}
	// first use of a Go type racing with other uses of it (c08_firstuse.go): child processes
	fu := &c08Run{e: e, g: &c08_gen{r: e.Rng.Fork()}}
	if e.Quick {
		fu.firstUseChildren(30, 25)
	} else {
		fu.firstUseChildren(240, 40)
	}
	fu.flush()
	hg := &c08Run{e: e, g: &c08_gen{r: e.Rng.Fork()}}
	for i := 0; i < nh; i++ {
		hg.histCase()
	}
	hg.flush()
	for id, c := range hg.proposedSeen {
		if r.proposedSeen == nil {
			r.proposedSeen = map[string]string{}
		}
		if _, ok := r.proposedSeen[id]; !ok {
			r.proposedSeen[id] = c
		}
	}
	for i := 0; i < n; i++ {
		g.boundary = false
		op := g.r.Intn(100)
		switch {
		case op < 45: // converter round trip
			t := g.ty(1+g.r.Intn(3), true)
			if g.r.Chance(15) {
				t = g.leafTy(true)
			}
			mode := "create"
			if g.r.Chance(30) {
				mode = "get"
			}
			v := g.val(t, 3, false)
			r.rtCase(t, mode, v, g.boundary)
			e.R.H("op", "rt-"+mode)
		case op < 49: // through risor.Eval
			t := g.ty(g.r.Intn(3), true)
			if t.under().K == "iface" {
				t = c08_mSlice(t)
			}
			v := g.val(t, 2, false)
			r.evalGlobalCase(t, v)
			e.R.H("op", "eval-global")
		case op < 60: // field read
			st := g.structTy(2)
			sv := g.val(st, 3, false)
			r.getCase(st, sv, g.r.Intn(len(st.under().Fs)), g.r.Chance(8))
			e.R.H("op", "get")
		case op < 82: // field write
			st := g.structTy(2)
			sv := g.val(st, 2, false)
			idx := g.r.Intn(len(st.under().Fs))
			o := g.objFor(st.under().Fs[idx], 2)
			if g.r.Chance(10) {
				r.evalSetCase(st, sv, idx, o)
				e.R.H("op", "eval-set")
			} else {
				r.setCase(st, sv, idx, o, g.boundary)
				e.R.H("op", "set")
			}
		case op == 99 && g.r.Chance(20):
			r.nestedCase(g.intVal(0), g.strVal())
			e.R.H("op", "eval-nested")
		case op >= 92 && op < 96: // method with several parameters
			m := Pick(g.r, c08_hostMethodsN)
			r.callNCase(m, g.argsFor(m), g.r.Chance(10))
			e.R.H("op", "calln")
		case op == 96 || op == 97: // one VM, globals supplied again
			if g.r.Chance(4) {
				r.reuseWriteCase(Pick(g.r, []string{"eval", "evalcode"}), []int64{g.intVal(0), g.intVal(0), g.intVal(0)})
				e.R.H("op", "reuse-write")
			} else if g.r.Chance(50) {
				r.reuseRandom()
				e.R.H("op", "reuse")
			}
		case op == 98 || op == 90: // one converter, a series of conversions
			r.seqRandom()
			e.R.H("op", "seq")
		case op == 91: // one method, a series of calls
			r.callSeqRandom()
			e.R.H("op", "callseq")
		default: // method call
			m := Pick(g.r, c08_hostMethods)
			o := g.objFor(m.pt, 2)
			r.callCase(m, o, g.r.Chance(10))
			e.R.H("op", "call")
		}
	}
	r.flush()
	for id, c := range r.proposedSeen {
		e.R.Note("PROPOSED FINDING %s (findings/proposed-C08.json, not yet in known_findings.json) reproduced on: %s", id, c)
	}
	e.R.Note("%d declared types, %d host methods; Eval-level paths are compared with the direct API (same outcome class, same object / Go state)", len(c08_namedMenu), len(c08_hostMethods)+len(c08_hostMethodsN))
}
