package main

// C04 — multi-variable statements `a, _, c := e` / `a, _, c = e` (compiler.compileMultiVar).
//
// The model (lean/RisorModel/C04/MultiVar.lean) says what the compiler emits after the right
// side: `UNPACK n` and ONE taking instruction per name, the name `_` included, last name first;
// MultiVarProps.lean proves that this tail is stack-neutral under any number of pending operands,
// for all name lists, and that a tail which emits nothing for some name leaks one slot per
// execution (`mv_stmt_effect`, `compileMultiVar_neutral`, `skipLeading_leaks`,
// `mv_loop_rejected`), while the checker of a whole code object cannot see such a leak in a
// function body that runs the statement once (`mv_fn_accepted_despite_leak`).
//
// This file generates the scenario class and ties the model to the real compiler and VM:
//
//   * programs: 1-3 multi-variable statements (2..n names; `_` nowhere / first / in the middle /
//     last / several times; `:=` and `=`; names that resolve to globals, frame slots and closure
//     cells, mixed in one statement; right sides: list literal, call, variable) placed in the
//     main code, a function body or a closure x no loop / three-clause / condition / endless /
//     range / for-in loop x bare / `if` / `else` / `switch` case (pending switch subject, pending
//     loop iterator: the statement runs with 0, 1 or 2 operands below it);
//   * per statement: the instructions the REAL compiler emitted after the right side must be the
//     model's tail (`multi`, f2), the heights the verified checker certifies at them must be the
//     model's (`mvHts`), and `runStraight` over the REAL instructions must leave nothing behind
//     (the Spec, f3 = 0);
//   * per name list: the real code objects of `for { names := len }` and
//     `func() { names := len; return len }` must BE `loopCode` / `fnCode` and their certificates,
//     computed from the name list, must be accepted on the real instructions (`multicode`);
//   * per program: every code object through the verified checker; the run on the real VM with the
//     height hook — at every execution of a statement the real operand-stack height after the
//     statement's tail must be the height before the right side was pushed; the run with the
//     iteration count beyond the stack's capacity must end with the value computed here from the
//     program's structure (every assigned value is used).

import (
	"fmt"
	"strconv"
	"strings"
	"time"

	"github.com/risor-io/risor/compiler"
	"github.com/risor-io/risor/op"
	"github.com/risor-io/risor/vm"
)

type mvName struct {
	blank bool
	name  string
	class byte // 'g' global, 'l' frame slot, 'f' closure cell
	inner bool // a `_` that resolves to the `_` an earlier `:=` of the same block declared
}

type mvStmt struct {
	walrus bool
	names  []mvName
	consts []int
	rhs    string // list | call | var
	id     int
}

type mvProg struct {
	loc   string // main | fn | closure
	loop  string // none | for3 | forcond | forever | range | forin
	wrap  string // none | if | else | switch | block
	stmts []mvStmt
}

func (s *mvStmt) spec() string {
	var parts []string
	for _, nm := range s.names {
		b := "n"
		if nm.blank {
			b = "b"
		}
		parts = append(parts, b+string(nm.class))
	}
	return strings.Join(parts, ",")
}

func (s *mvStmt) lhs() string {
	var parts []string
	for _, nm := range s.names {
		parts = append(parts, nm.name)
	}
	return strings.Join(parts, ", ")
}

func (s *mvStmt) blankPattern() string {
	n, k, first, last := len(s.names), 0, false, false
	for i, nm := range s.names {
		if nm.blank {
			k++
			if i == 0 {
				first = true
			}
			if i == n-1 {
				last = true
			}
		}
	}
	switch {
	case k == 0:
		return "none"
	case k == n:
		return "all"
	case k > 1 && first:
		return "several-leading"
	case k > 1:
		return "several"
	case first:
		return "first"
	case last:
		return "last"
	}
	return "middle"
}

func (s *mvStmt) items(i string) string {
	var parts []string
	for _, c := range s.consts {
		parts = append(parts, fmt.Sprintf("%s + %d", i, c))
	}
	return "[" + strings.Join(parts, ", ") + "]"
}

// lines of one statement followed by the use of every value it assigned
func (s *mvStmt) lines() []string {
	op := "="
	if s.walrus {
		op = ":="
	}
	var out []string
	rhs := s.items("i")
	switch s.rhs {
	case "call":
		rhs = fmt.Sprintf("mk%d(i)", s.id)
	case "var":
		out = append(out, fmt.Sprintf("t%d := %s", s.id, s.items("i")))
		rhs = fmt.Sprintf("t%d", s.id)
	}
	out = append(out, s.lhs()+" "+op+" "+rhs)
	var used []string
	for _, nm := range s.names {
		if !nm.blank {
			used = append(used, nm.name)
		}
	}
	if len(used) > 0 {
		out = append(out, "acc += "+strings.Join(used, " + "))
	} else {
		out = append(out, "acc += 1")
	}
	return out
}

// value one execution of the statement adds to acc when the loop variable is i
func (s *mvStmt) adds(i int64) int64 {
	var t int64
	any := false
	for k, nm := range s.names {
		if !nm.blank {
			t += i + int64(s.consts[k])
			any = true
		}
	}
	if !any {
		return 1
	}
	return t
}

func mvGen(r *RNG, quick bool) *mvProg {
	p := &mvProg{}
	p.loc = Pick(r, []string{"main", "main", "fn", "fn", "closure"})
	p.loop = Pick(r, []string{"none", "for3", "for3", "forcond", "forever", "range", "range", "forin"})
	if p.loc == "closure" && p.loop == "none" {
		p.loop = "for3"
	}
	p.wrap = Pick(r, []string{"none", "none", "if", "else", "switch", "switch", "block"})
	sameScope := p.loop == "none" && p.wrap == "none" // the statements share a scope with the declarations before them
	nst := 1 + r.Intn(3)
	walrusBlankUsed := false
	// where `_` lives for the `=` statements (declared once, before the statements)
	classes := []byte{'g'}
	switch p.loc {
	case "fn":
		classes = []byte{'g', 'l'}
	case "closure":
		classes = []byte{'g', 'l', 'f'}
	}
	blankClass := Pick(r, classes)
	vn := 0
	for si := 0; si < nst; si++ {
		s := mvStmt{id: si, rhs: Pick(r, []string{"list", "list", "call", "var"})}
		n := 2 + r.Intn(4)
		if r.Chance(10) {
			n = 6 + r.Intn(7)
		}
		if !quick && r.Chance(3) {
			n = 20 + r.Intn(40)
		}
		s.walrus = r.Bool()
		// blank positions
		blanks := make([]bool, n)
		switch r.Intn(8) {
		case 0: // none
		case 1, 2: // first
			blanks[0] = true
		case 3: // last
			blanks[n-1] = true
		case 4: // one in the middle (or first when n = 2)
			blanks[r.Intn(n)] = true
		case 5: // several at the front
			k := 1 + r.Intn(n-1)
			for i := 0; i < k; i++ {
				blanks[i] = true
			}
		case 6: // any subset
			for i := range blanks {
				blanks[i] = r.Chance(40)
			}
		case 7: // all
			for i := range blanks {
				blanks[i] = true
			}
		}
		nb := 0
		for _, b := range blanks {
			if b {
				nb++
			}
		}
		if s.walrus && nb > 0 {
			// `:=` declares `_` like any other name: one `_` per statement, one such statement per scope,
			// and not in the scope that already holds the declaration `_ := 0`
			if nb > 1 || walrusBlankUsed || sameScope {
				s.walrus = false
			} else {
				walrusBlankUsed = true
			}
		}
		for i := 0; i < n; i++ {
			nm := mvName{blank: blanks[i]}
			here := byte('g')
			if p.loc != "main" {
				here = 'l'
			}
			switch {
			case s.walrus:
				nm.class = here
			case nm.blank:
				nm.class = blankClass
				if walrusBlankUsed {
					nm.class, nm.inner = here, true // an earlier `:=` of this block declared `_`
				}
			default:
				nm.class = Pick(r, classes)
			}
			if nm.blank {
				nm.name = "_"
			} else {
				nm.name = fmt.Sprintf("v%d", vn)
				vn++
			}
			s.names = append(s.names, nm)
			s.consts = append(s.consts, r.Intn(9))
		}
		p.stmts = append(p.stmts, s)
	}
	return p
}

// decls returns the declarations each level needs for the `=` statements.
func (p *mvProg) decls() (glob, outer, local []string) {
	blank := map[byte]bool{}
	for _, s := range p.stmts {
		if s.walrus {
			continue
		}
		for _, nm := range s.names {
			d := nm.name + " := 0"
			if nm.blank {
				if nm.inner || blank[nm.class] {
					continue
				}
				blank[nm.class] = true
			}
			switch nm.class {
			case 'g':
				glob = append(glob, d)
			case 'f':
				outer = append(outer, d)
			case 'l':
				local = append(local, d)
			}
		}
	}
	return
}

func mvIndent(lines []string) []string {
	out := make([]string, len(lines))
	for i, l := range lines {
		out[i] = "  " + l
	}
	return out
}

// src renders the program with iteration count k; want is the value it must end with.
func (p *mvProg) src(k int) (string, int64) {
	var body []string
	for i := range p.stmts {
		body = append(body, p.stmts[i].lines()...)
	}
	switch p.wrap {
	case "if":
		body = append(append([]string{"if i >= 0 {"}, mvIndent(body)...), "}")
	case "else":
		body = append(append([]string{"if i < 0 {", "  acc += 100", "} else {"}, mvIndent(body)...), "}")
	case "switch":
		body = append(append([]string{"switch i % 2 {", "case 7:", "  acc += 100", "default:"}, mvIndent(body)...), "}")
	case "block":
		body = append(append([]string{"if true {"}, mvIndent(body)...), "}")
	}
	bound := "n"
	if p.loc == "main" {
		bound = strconv.Itoa(k)
	}
	var loop []string
	switch p.loop {
	case "none":
		loop = body
	case "for3":
		loop = append(append([]string{"for i := 0; i < " + bound + "; i++ {"}, mvIndent(body)...), "}")
	case "forcond":
		loop = append(append([]string{"i := 0", "for i < " + bound + " {"}, mvIndent(append(body, "i++"))...), "}")
	case "forever":
		loop = append(append([]string{"i := 0", "for {", "  if i >= " + bound + " {", "    break", "  }"}, mvIndent(append(body, "i++"))...), "}")
	case "range":
		loop = append(append([]string{"for i := range " + bound + " {"}, mvIndent(body)...), "}")
	case "forin":
		loop = append(append([]string{"for i in " + bound + " {"}, mvIndent(body)...), "}")
	}
	glob, outer, local := p.decls()
	var lines []string
	for _, s := range p.stmts {
		if s.rhs == "call" {
			lines = append(lines, fmt.Sprintf("func mk%d(i) { return %s }", s.id, s.items("i")))
		}
	}
	lines = append(lines, glob...)
	var want int64
	each := func(i int64) int64 {
		var t int64
		for si := range p.stmts {
			t += p.stmts[si].adds(i)
		}
		return t
	}
	if p.loop == "none" {
		if p.loc == "main" {
			want = each(7)
		} else {
			for i := 0; i < k; i++ {
				want += each(int64(i))
			}
		}
	} else {
		for i := 0; i < k; i++ {
			want += each(int64(i))
		}
	}
	switch p.loc {
	case "main":
		lines = append(lines, "acc := 0")
		if p.loop == "none" {
			lines = append(lines, "i := 7")
		}
		lines = append(lines, loop...)
		lines = append(lines, "acc")
	case "fn":
		if p.loop == "none" {
			lines = append(lines, "func f(i) {")
		} else {
			lines = append(lines, "func f(n) {")
		}
		lines = append(lines, "  acc := 0")
		lines = append(lines, mvIndent(local)...)
		lines = append(lines, mvIndent(loop)...)
		lines = append(lines, "  return acc", "}")
		if p.loop == "none" {
			lines = append(lines, "total := 0", fmt.Sprintf("for j := 0; j < %d; j++ {", k), "  total += f(j)", "}", "total")
		} else {
			lines = append(lines, fmt.Sprintf("f(%d)", k))
		}
	case "closure":
		lines = append(lines, "func outer(n) {", "  acc := 0")
		lines = append(lines, mvIndent(outer)...)
		lines = append(lines, "  inner := func() {")
		lines = append(lines, mvIndent(mvIndent(local))...)
		lines = append(lines, mvIndent(mvIndent(loop))...)
		lines = append(lines, "  }", "  inner()", "  return acc", "}", fmt.Sprintf("outer(%d)", k))
	}
	return strings.Join(lines, "\n") + "\n", want
}

type mvIns struct {
	pos  int
	name string
	ops  []int
}

func mvDecode(c *compiler.Code) []mvIns {
	var out []mvIns
	n := c.InstructionCount()
	for i := 0; i < n; {
		info := op.GetInfo(c.Instruction(i))
		in := mvIns{pos: i, name: info.Name}
		for k := 1; k <= info.OperandCount && i+k < n; k++ {
			in.ops = append(in.ops, int(c.Instruction(i+k)))
		}
		out = append(out, in)
		i += 1 + info.OperandCount
	}
	return out
}

func mvIsSink(name string) bool {
	return name == "STORE_GLOBAL" || name == "STORE_FAST" || name == "STORE_FREE" || name == "POP_TOP"
}

type mvWindow struct {
	code     *compiler.Code
	start    int // slot of UNPACK
	end      int // slot after the last sink
	text     string
	insSlots []int // slot of every instruction of the window
}

// mvWindows finds the tail of every multi-variable statement: UNPACK and the taking instructions
// that follow it (the generated programs never start the next statement with a store or a pop).
func mvWindows(code *compiler.Code) []mvWindow {
	var out []mvWindow
	for _, cc := range code.Flatten() {
		ins := mvDecode(cc)
		for i := 0; i < len(ins); i++ {
			if ins[i].name != "UNPACK" {
				continue
			}
			w := mvWindow{code: cc, start: ins[i].pos}
			var toks []string
			j := i
			for ; j < len(ins) && (j == i || mvIsSink(ins[j].name)); j++ {
				t := ins[j].name
				for _, o := range ins[j].ops {
					t += ":" + strconv.Itoa(o)
				}
				toks = append(toks, t)
				w.insSlots = append(w.insSlots, ins[j].pos)
			}
			if j < len(ins) {
				w.end = ins[j].pos
			} else {
				w.end = cc.InstructionCount()
			}
			w.text = strings.Join(toks, " ")
			out = append(out, w)
			i = j - 1
		}
	}
	return out
}

func mvEraseIdx(text string) string {
	var out []string
	for _, t := range strings.Fields(text) {
		f := strings.SplitN(t, ":", 2)
		if strings.HasPrefix(f[0], "STORE_") {
			out = append(out, f[0])
		} else {
			out = append(out, t)
		}
	}
	return strings.Join(out, " ")
}

// mvTrace runs src on the real VM with the height hook and checks, at every execution of a
// statement's tail, that the real height after the tail is the real height before the right
// side's value was pushed (height at UNPACK minus one).  It returns the first deviation.
func mvTrace(src string, timeout time.Duration) (out EvalOut, deviation string, execs int) {
	type pend struct {
		id     string
		fp, sp int
		ip     int
	}
	var open []pend
	vm.VerifTrace = func(_ *vm.VirtualMachine, id string, ip int, opc op.Code, sp int, fp int) {
		if deviation != "" {
			return
		}
		name := op.GetInfo(opc).Name
		if n := len(open); n > 0 && open[n-1].id == id && open[n-1].fp == fp && !mvIsSink(name) {
			p := open[n-1]
			open = open[:n-1]
			execs++
			if sp != p.sp-1 {
				deviation = fmt.Sprintf("the statement whose UNPACK is at slot %d of code %s began with sp=%d (before its right side was pushed) and is over at slot %d with sp=%d: it left %d value(s) on the operand stack",
					p.ip, id, p.sp-1, ip, sp, sp-(p.sp-1))
				return
			}
		}
		if name == "UNPACK" {
			open = append(open, pend{id, fp, sp, ip})
		}
	}
	out = EvalSrc(src, timeout)
	vm.VerifTrace = nil
	return
}

var c04multiRuleDone = false

func c04MultiOne(e *Env, p *mvProg, big int) {
	small := 3 + len(p.stmts)
	src, want := p.src(small)
	e.R.H("multi_place", p.loc+"/"+p.loop+"/"+p.wrap)
	nontrivial := p.loop != "none"
	for i := range p.stmts {
		s := &p.stmts[i]
		o := "assign"
		if s.walrus {
			o = "walrus"
		}
		e.R.H("multi_stmt", o+":"+s.rhs+":blank="+s.blankPattern())
		e.R.H("multi_names", fmt.Sprintf("%02d", min(len(s.names), 20)))
		cl := map[byte]bool{}
		for _, nm := range s.names {
			cl[nm.class] = true
		}
		k := ""
		for _, c := range []byte{'g', 'l', 'f'} {
			if cl[c] {
				k += string(c)
			}
		}
		e.R.H("multi_classes", k)
	}
	e.R.Case("multi: "+src, nontrivial)
	code, err := CompileSrc(src)
	if err != nil {
		e.R.H("multi_compile", ErrClass(err.Error())+": "+strings.SplitN(strings.TrimPrefix(err.Error(), "compile error: "), "\n", 2)[0])
		e.R.Mismatch(src, "does not compile: "+err.Error(), "compiles (every name, `_` included, is an ordinary variable; declarations precede uses)", "multi-variable statement program")
		return
	}
	e.R.H("multi_compile", "ok")

	// 1. per statement: the real tail against the model's, and what the real instructions leave behind
	var static []string
	wins := mvWindows(code)
	if len(wins) != len(p.stmts) {
		e.R.Mismatch(src, fmt.Sprintf("%d UNPACK instructions", len(wins)), fmt.Sprintf("%d (one per multi-variable statement)", len(p.stmts)), "multi-variable statements: number of UNPACK instructions in the real bytecode")
	}
	certs := c04Certs(e, code)
	for i := 0; i < len(wins) && i < len(p.stmts); i++ {
		s, w := &p.stmts[i], wins[i]
		o, kind := "assign", "fn"
		if s.walrus {
			o = "walrus"
		}
		if w.code.IsRoot() {
			kind = "main"
		}
		rep := e.O.Ask("C04", "multi", o, kind, s.spec(), w.text)
		f := strings.Split(rep, "\t")
		if f[0] != "ok" || len(f) != 6 {
			e.R.Mismatch(src, w.text, rep[:min(len(rep), 300)], "C04 multi: malformed oracle reply")
			continue
		}
		modelText, same, realNet, modelHts, leaks := f[1], f[2], f[3], f[4], f[5]
		if leaks != "0,0,"+strconv.Itoa(mvLeading(s)) {
			e.R.Mismatch(src, "0,0,"+strconv.Itoa(mvLeading(s)), leaks, "C04 multi: leak of the three compilers on this name list (leak_implSinks, leak_blankSinks, skipLeading_leaks)")
		}
		if same != "same" {
			e.R.H("multi_tail", "differs")
			e.R.Mismatch(src, mvEraseIdx(w.text), modelText, fmt.Sprintf("multi-variable statement `%s %s …`: the instructions the real compiler emits after the right side vs the model of compileMultiVar (implSinks)", s.lhs(), map[bool]string{true: ":=", false: "="}[s.walrus]))
		} else {
			e.R.H("multi_tail", "same")
		}
		if realNet != "0" {
			static = append(static, fmt.Sprintf("statement `%s %s …` compiles to `%s`: run from the height after the right side these instructions leave %s value(s) on the operand stack (runStraight; a neutral statement leaves 0)",
				s.lhs(), map[bool]string{true: ":=", false: "="}[s.walrus], mvEraseIdx(w.text), realNet))
		}
		// the certified heights at the tail's instructions are the model's
		if cert, ok := certs[w.code.ID()]; ok && same == "same" {
			var hs []string
			base := cert[w.start] - 1
			for _, sl := range w.insSlots {
				hs = append(hs, strconv.Itoa(cert[sl]-base))
			}
			if got := strings.Join(hs, ","); got != modelHts {
				e.R.Mismatch(src, got, modelHts, "multi-variable statement: heights the verified checker certifies at the real tail (relative to the statement's start) vs mvHts")
			}
			if w.end < len(cert) && cert[w.end] != base {
				static = append(static, fmt.Sprintf("the certificate of code %s has height %d after the statement and %d before it", w.code.ID(), cert[w.end], base))
			}
		}
	}

	// 2. every code object through the verified checker
	bad, _, _ := c04CheckCode(e, code)
	for _, cc := range code.Flatten() {
		e.R.Case(CodeText(cc), c04NonTrivial(CodeText(cc)))
	}
	if len(bad) > 0 {
		e.R.H("multi_verdict", "reject")
		static = append(static, "verified checker: "+strings.Join(bad, "; "))
	} else {
		e.R.H("multi_verdict", "accept")
	}

	// 3. the real VM: heights around every execution of a statement, result, and the run past the stack's capacity
	out, dev, execs := mvTrace(src, 10*time.Second)
	var dyn []string
	if dev != "" {
		dyn = append(dyn, "real VM, "+strconv.Itoa(small)+" iteration(s): "+dev)
	}
	if execs == 0 {
		e.R.H("multi_real", "not-run")
	} else {
		e.R.H("multi_real", "statements-executed")
	}
	if out.Err != "" || out.Value != strconv.FormatInt(want, 10) {
		dyn = append(dyn, fmt.Sprintf("real VM, %d iteration(s): result %s err=%q, the assigned values give %d", small, out.Value, out.Err, want))
	}
	if len(bad) == 0 {
		c04HeightsCheck(e, src, code, 10*time.Second)
	}
	caseSrc := src
	if p.loc != "main" || p.loop != "none" {
		bsrc, bwant := p.src(big)
		bout := EvalSrc(bsrc, 60*time.Second)
		if bout.Err != "" || bout.Value != strconv.FormatInt(bwant, 10) {
			e.R.H("multi_big", "fails")
			if out.Err == "" { // only the iteration count differs
				caseSrc = bsrc
			}
			dyn = append(dyn, fmt.Sprintf("real VM, %d iterations: result %s err=%q, the assigned values give %d", big, bout.Value, strings.SplitN(bout.Err, "\n", 2)[0], bwant))
		} else {
			e.R.H("multi_big", "ok")
		}
	}
	if len(static)+len(dyn) > 0 {
		e.R.Spec(caseSrc, strings.Join(append(dyn, static...), " | "), "")
	}
}

func mvLeading(s *mvStmt) int {
	k := 0
	for _, nm := range s.names {
		if !nm.blank {
			break
		}
		k++
	}
	return k
}

// c04MultiCode ties `loopCode` / `fnCode` (the code objects of mv_loop_cert_accepted,
// mv_loop_rejected, mv_fn_cert_accepted_despite_leak) to the real compiler for one name list.
func c04MultiCode(e *Env, s *mvStmt) {
	nb := 0
	var names, spec []string
	for i, nm := range s.names {
		if nm.blank {
			nb++
			names = append(names, "_")
		} else {
			names = append(names, fmt.Sprintf("w%d", i))
		}
	}
	if nb > 1 {
		return // `:=` declares `_` once
	}
	for _, shape := range []string{"loop", "fn"} {
		cl := "g"
		src := "for { " + strings.Join(names, ", ") + " := len }"
		if shape == "fn" {
			cl = "l"
			src = "func() { " + strings.Join(names, ", ") + " := len; return len }"
		}
		spec = spec[:0]
		for _, nm := range s.names {
			b := "n"
			if nm.blank {
				b = "b"
			}
			spec = append(spec, b+cl)
		}
		code, err := CompileSrc(src)
		if err != nil {
			e.R.Mismatch(src, "does not compile: "+err.Error(), "compiles", "multi-variable statement: directed code object")
			continue
		}
		cc := code
		if shape == "fn" {
			fl := code.Flatten()
			if len(fl) != 2 {
				e.R.Mismatch(src, fmt.Sprintf("%d code objects", len(fl)), "2", "multi-variable statement: directed code object")
				continue
			}
			cc = fl[1]
		}
		text := CodeText(cc)
		rep := e.O.Ask("C04", "multicode", shape, strings.Join(spec, ","), text)
		e.R.Case("multicode: "+text, false)
		if rep != "ok\tsame\taccept\taccept" {
			e.R.H("multi_code", shape+":differs")
			e.R.Mismatch(src, text, rep[:min(len(rep), 300)], "multi-variable statement: the real code object vs loopCode/fnCode of the model (same), the certificate computed from the name list on the real instructions (accept), on the model's (accept)")
		} else {
			e.R.H("multi_code", shape+":same")
		}
	}
}

func c04Multi(e *Env, rng *RNG) {
	if !c04multiRuleDone {
		c04multiRuleDone = true
		e.R.Rule += "; multi-variable statements (MultiVarProps: compileMultiVar_neutral, mv_stmt_effect, mv_loop_rejected): generated programs with 1-3 statements " +
			"`n1, …, nk := e` / `= e` (k = 2..12, thorough up to 59; `_` nowhere / first / middle / last / several / all; names resolving to globals, frame slots and closure cells; " +
			"right side a list, a call or a variable) in the main code, a function or a closure x no loop / for3 / condition / endless / range / for-in x bare / if / else / switch / block; " +
			"a case is one program (non-trivial when the statements sit in a loop) and each of its code objects; per statement the real tail is compared with the model's, " +
			"runStraight over the real tail must leave 0, the real VM's height after every execution of a statement must be the height before it, and the run with the iteration count beyond the stack capacity must give the value computed from the structure"
	}
	n, big := 350, 1500
	if !e.Quick {
		n, big = 12000, 2600
	}
	for i := 0; i < n; i++ {
		r := rng.Fork()
		p := mvGen(r, e.Quick)
		c04MultiOne(e, p, big)
		if i%3 == 0 {
			c04MultiCode(e, &p.stmts[0])
		}
	}
}
