package main

// C17 — large programs (dozens of code objects) and the ORDER of the serialised code list.
//
// Model: Model.lean "the order of the serialised code list" (State.reorder, flattenIds,
// childBeforeParent); Props: stateFromCode_code_order / marshal_code_order (the file is written
// in Flatten order), codeFromState_ids / codeFromState_entry (the loader keeps the order of the
// file and returns its first element), codeFromState_child_before_parent (a child before its
// parent is rejected).  Here: programs with 18–90 functions in several tree shapes go through
// the full check of c17Check (compile, marshal three times, compare with the model, reload,
// compare the trees, run side by side); the ids of the real bytes are compared with the real
// Flatten order on EVERY program of the run (c17OrderSpec); and the real loader is given the real
// bytes with the code list permuted and compared with the model's `unmarshal ∘ reorder`.

import (
	"encoding/json"
	"fmt"
	"strconv"
	"strings"

	"github.com/risor-io/risor/compiler"
)

// ---------------------------------------------------------------- the real file order

type c17CodeHead struct {
	ID       string `json:"id"`
	ParentID string `json:"parent_id"`
}

// c17CodeIDs reads the ids of the "code" list of MarshalCode's output, in file order.
func c17CodeIDs(b []byte) (ids []string, err error) {
	var st struct {
		Code []c17CodeHead `json:"code"`
	}
	if err = json.Unmarshal(b, &st); err != nil {
		return nil, err
	}
	for _, c := range st.Code {
		ids = append(ids, c.ID)
	}
	return ids, nil
}

// c17OrderSpec evaluates the Spec of the file order on the real result: the code list of the
// bytes is the Flatten sequence of the real tree ("" when it is).
func c17OrderSpec(code *compiler.Code, b []byte) string {
	ids, err := c17CodeIDs(b)
	if err != nil {
		return "MarshalCode's output does not parse as {code: [...]}: " + err.Error()
	}
	flat := code.Flatten()
	if len(ids) != len(flat) {
		return fmt.Sprintf("MarshalCode wrote %d code objects, the tree has %d", len(ids), len(flat))
	}
	for i, c := range flat {
		if ids[i] != c.ID() {
			return fmt.Sprintf("the code list of MarshalCode's output is not in Flatten order (%d code objects): position %d holds code %q, Flatten has %q there (file order %s…)",
				len(flat), i, ids[i], c.ID(), strings.Join(ids[:min(len(ids), 8)], ","))
		}
	}
	return ""
}

// c17Permute returns the bytes with the elements of the code list taken in the order ord
// (every element and the symbol table byte for byte as MarshalCode wrote them).
func c17Permute(b []byte, ord []int) ([]byte, error) {
	var st struct {
		Code        []json.RawMessage `json:"code"`
		SymbolTable json.RawMessage   `json:"symbol_table"`
	}
	if err := json.Unmarshal(b, &st); err != nil {
		return nil, err
	}
	var sb strings.Builder
	sb.WriteString(`{"code":[`)
	k := 0
	for _, i := range ord {
		if i < 0 || i >= len(st.Code) {
			continue
		}
		if k > 0 {
			sb.WriteByte(',')
		}
		sb.Write(st.Code[i])
		k++
	}
	sb.WriteString(`],"symbol_table":`)
	sb.Write(st.SymbolTable)
	sb.WriteByte('}')
	return []byte(sb.String()), nil
}

// ---------------------------------------------------------------- permutations of the list

type c17Ord struct {
	kind string
	ord  []int
}

// c17Orders: orders of the list of a tree with the given parent positions (Flatten positions,
// -1 for the root); about half of them keep parents first.
func c17Orders(r *RNG, parent []int) []c17Ord {
	n := len(parent)
	id := make([]int, n)
	for i := range id {
		id[i] = i
	}
	cp := func() []int { return append([]int(nil), id...) }
	topo := func() []int {
		placed := make([]bool, n)
		var out []int
		for len(out) < n {
			var cand []int
			for i := 0; i < n; i++ {
				if !placed[i] && (parent[i] < 0 || placed[parent[i]]) {
					cand = append(cand, i)
				}
			}
			c := Pick(r, cand)
			placed[c] = true
			out = append(out, c)
		}
		return out
	}
	all := []c17Ord{{"identity", cp()}, {"parents-first-shuffle", topo()}, {"parents-first-shuffle", topo()}}
	if n >= 2 {
		rev := cp()
		for i, j := 0, n-1; i < j; i, j = i+1, j-1 {
			rev[i], rev[j] = rev[j], rev[i]
		}
		rot := append([]int{n - 1}, id[:n-1]...)
		k := 1 + r.Intn(n-1)
		rootMoved := append(append(append([]int(nil), id[1:k+1]...), 0), id[k+1:]...)
		sh := cp()
		for i := n - 1; i > 0; i-- {
			j := r.Intn(i + 1)
			sh[i], sh[j] = sh[j], sh[i]
		}
		all = append(all, c17Ord{"reversed", rev}, c17Ord{"last-first", rot}, c17Ord{"root-moved-back", rootMoved}, c17Ord{"random-shuffle", sh})
	}
	if n >= 3 {
		a := 1 + r.Intn(n-2)
		sw := cp()
		sw[a], sw[a+1] = sw[a+1], sw[a]
		all = append(all, c17Ord{"adjacent-swap", sw})
		// one child moved in front of its parent (every other code object stays where it was)
		c := 1 + r.Intn(n-1)
		for tries := 0; tries < 8 && parent[c] <= 0; tries++ {
			c = 1 + r.Intn(n-1)
		}
		if p := parent[c]; p > 0 {
			var mv []int
			for _, i := range id {
				if i == c {
					continue
				}
				if i == p {
					mv = append(mv, c)
				}
				mv = append(mv, i)
			}
			all = append(all, c17Ord{"child-before-its-parent", mv})
		}
	}
	return all
}

// c17OrdCheck gives the real loader the real bytes of `code` with the code list in k of the
// orders above and compares its verdict (loads or not, why not, which code object it returns)
// with the model's.  Returns the number of disagreements.
func c17OrdCheck(e *Env, src string, code *compiler.Code, b1 []byte, r *RNG, k int) (bad int) {
	flat := code.Flatten()
	idx := map[*compiler.Code]int{}
	for i, c := range flat {
		idx[c] = i
	}
	parent := make([]int, len(flat))
	for i, c := range flat {
		parent[i] = -1
		if p := c.Parent(); p != nil {
			parent[i] = idx[p]
		}
	}
	nodes, table, probs := c17Export(code)
	if len(probs) > 0 {
		return 0 // reported by c17Check
	}
	orders := c17Orders(r, parent)
	for len(orders) > k {
		i := r.Intn(len(orders))
		orders = append(orders[:i], orders[i+1:]...)
	}
	for _, o := range orders {
		what := "code list in the order " + o.kind + " of: " + src
		toks := make([]string, len(o.ord))
		for i, x := range o.ord {
			toks[i] = strconv.Itoa(x)
		}
		pb, err := c17Permute(b1, o.ord)
		if err != nil {
			e.R.Mismatch(what, err.Error(), "", "harness could not permute MarshalCode's output")
			bad++
			continue
		}
		rep := strings.Split(e.O.Ask("C17", "ord", strings.Join(toks, " "), nodes, table), "\t")
		if len(rep) != 6 || rep[0] != "ok" {
			e.R.Mismatch(what, "ord request", strings.Join(rep, " "), "oracle could not decode the request")
			bad++
			continue
		}
		mstatus, mcbp, mentry, mids := rep[1], rep[2] == "1", rep[3], rep[4]
		// the permuted bytes hold what we think they hold
		ids, _ := c17CodeIDs(pb)
		hx := make([]string, len(ids))
		for i, s := range ids {
			hx[i] = Hex(s)
		}
		if g := strings.Join(hx, " "); g != mids {
			e.R.Mismatch(what, g, mids, "ids of the permuted real code list differ from the model's reordered state")
			bad++
		}
		c2, err := c17Unmarshal(pb)
		gstatus, gentry := "ok", "-"
		switch {
		case err == nil:
			gentry = Hex(c2.ID())
		case strings.HasPrefix(err.Error(), "parent code not found"):
			gstatus = "err:parent-not-found"
		case strings.HasPrefix(err.Error(), "symbol table not found"):
			gstatus = "err:table-not-found"
		case strings.HasPrefix(err.Error(), "function not found"):
			gstatus = "err:function-not-found"
		default:
			gstatus = "err:" + err.Error()
		}
		e.R.H("list_order", o.kind+" → "+gstatus)
		e.R.H("list_order_child_before_parent/loads", c17_b01(mcbp)+"/"+c17_b01(err == nil))
		if gstatus != mstatus || gentry != mentry {
			e.R.Mismatch(what, gstatus+" entry="+gentry, mstatus+" entry="+mentry,
				"UnmarshalCode of the real bytes with the code list reordered differs from the model's unmarshal ∘ reorder")
			bad++
		}
		if err == nil && o.kind == "identity" {
			continue
		}
		if err == nil {
			// a parents-first order: the loader accepts it and hands back the root (codeFromState_entry)
			if c2.ID() != code.ID() {
				e.R.Mismatch(what, "entry point "+c2.ID(), "entry point "+code.ID(), "a parents-first order of the list loads with another entry point")
				bad++
			}
		}
	}
	return bad
}

// ---------------------------------------------------------------- large programs

type c17LG struct {
	r        *RNG
	next     int
	budget   int
	maxDepth int
	maxKids  int
	chain    bool
	closures int
	sb       strings.Builder
}

// fn emits one function (with its nested functions) and returns its name.
func (g *c17LG) fn(depth int, indent string, kids int) string {
	id := g.next
	g.next++
	g.budget--
	name := "f" + strconv.Itoa(id)
	arg := "a" + strconv.Itoa(depth)
	params := arg
	switch g.r.Intn(5) {
	case 0:
		params += ", k=" + c17IntDefault(g.r)
	case 1:
		params += ", k=" + c17Float(g.r)
	case 2:
		params += ", s=" + c17Str(g.r)
	}
	literal := g.r.Chance(25)
	if literal {
		g.sb.WriteString(indent + name + " := func(" + params + ") {\n")
	} else {
		g.sb.WriteString(indent + "func " + name + "(" + params + ") {\n")
	}
	in := indent + "  "
	var calls []string
	for j := 0; j < kids && g.budget > 0 && depth < g.maxDepth; j++ {
		sub := 0
		if depth+1 < g.maxDepth {
			if g.chain {
				sub = 1
			} else {
				sub = g.r.Intn(g.maxKids + 1)
			}
		}
		c := g.fn(depth+1, in, sub)
		calls = append(calls, fmt.Sprintf("%s(%s + %d)", c, arg, g.r.Intn(5)))
	}
	expr := arg
	if depth > 1 && g.r.Chance(50) {
		expr += " + a" + strconv.Itoa(depth-1) // free variable: the enclosing function's parameter
		g.closures++
	}
	switch g.r.Intn(4) {
	case 0:
		g.sb.WriteString(in + "t := " + c17Int(g.r) + "\n")
		expr += " + t"
	case 1:
		expr += " + len(" + c17Str(g.r) + ")"
	case 2:
		expr += " + " + strconv.Itoa(g.r.Intn(100))
	}
	for _, c := range calls {
		expr += " + " + c
	}
	g.sb.WriteString(in + "return " + expr + "\n" + indent + "}\n")
	return name
}

// c17Large builds a program with `total` functions (total+1 code objects) in one of several
// tree shapes; every function is called and the program's value is the list of the results.
func c17Large(r *RNG, i int) (src, shape string) {
	total := 0
	switch x := r.Intn(10); {
	case x < 1:
		total = 18 + r.Intn(5)
	case x < 4:
		total = 22 + r.Intn(5) // 23–27 code objects
	case x < 8:
		total = 27 + r.Intn(22)
	default:
		total = 49 + r.Intn(42)
	}
	g := &c17LG{r: r, budget: total}
	shape = Pick(r, []string{"flat", "chains", "bushy", "bushy", "wide", "deep-bushy"})
	var tops []string
	if r.Chance(30) {
		g.sb.WriteString("base := " + c17Int(r) + "\n")
	}
	for g.budget > 0 {
		kids := 0
		switch shape {
		case "flat":
			g.maxDepth = 1
		case "chains":
			g.maxDepth, g.chain, kids = 2+r.Intn(6), true, 1
		case "bushy":
			g.maxDepth, g.maxKids = 3, 3
			kids = r.Intn(4)
		case "deep-bushy":
			g.maxDepth, g.maxKids = 6, 2
			kids = 1 + r.Intn(2)
		case "wide":
			g.maxDepth, g.maxKids = 2+r.Intn(2), 1
			kids = g.budget - 1 - r.Intn(min(g.budget, 4))
		}
		tops = append(tops, g.fn(1, "", kids))
	}
	if r.Chance(25) {
		// closures made in a loop share one code object
		g.sb.WriteString("fs := []\nfor i := 0; i < 3; i++ {\n  fs.append(func() { return i })\n}\n")
		tops = append(tops, "fs[1]")
	}
	var calls []string
	for j, t := range tops {
		if t == "fs[1]" {
			calls = append(calls, "fs[1]()")
		} else {
			calls = append(calls, fmt.Sprintf("%s(%d)", t, j%7))
		}
	}
	g.sb.WriteString("[" + strings.Join(calls, ", ") + "]")
	return g.sb.String(), shape
}

func c17Bucket(n int) string {
	switch {
	case n < 10:
		return "01-09"
	case n < 20:
		return "10-19"
	case n < 24:
		return "20-23"
	case n < 28:
		return "24-27"
	case n < 50:
		return "28-49"
	default:
		return "50+"
	}
}

// c17LargePrograms: the large-program family and the list-order comparison.
func c17LargePrograms(e *Env) {
	n := 70
	if !e.Quick {
		n = 1200
	}
	rng := e.Rng.Fork()
	// the list-order comparison on the directed programs and on programs of the ordinary generator
	for i, src := range c17Directed {
		if code, err := CompileSrc(src); err == nil {
			if b, err := c17Marshal(code); err == nil {
				c17OrdCheck(e, src, code, b, rng.Fork(), 4)
			}
		}
		_ = i
	}
	m := 150
	if !e.Quick {
		m = 2000
	}
	for i := 0; i < m; i++ {
		r := rng.Fork()
		p, _, _ := c17Program(r, i)
		src := Src(p)
		code, err := CompileSrc(src)
		if err != nil || len(code.Flatten()) < 3 {
			continue
		}
		if b, err := c17Marshal(code); err == nil {
			e.R.H("list_order_codes", c17Bucket(len(code.Flatten())))
			c17OrdCheck(e, src, code, b, r, 3)
		}
	}
	for i := 0; i < n; i++ {
		r := rng.Fork()
		src, shape := c17Large(r, i)
		v := c17Check(e, src, true, true)
		e.R.Case(src, v.compiled)
		if !v.compiled {
			e.R.H("large_programs", "does-not-compile:"+shape)
			continue
		}
		code, err := CompileSrc(src)
		if err != nil {
			continue
		}
		nc := len(code.Flatten())
		e.R.H("large_programs", shape)
		e.R.H("large_program_codes", c17Bucket(nc))
		e.R.H("list_order_codes", c17Bucket(nc))
		if v.orig.Err != "" {
			e.R.H("large_program_run", ErrClass(v.orig.Err))
		} else {
			e.R.H("large_program_run", "ok")
		}
		c17Report(e, nil, src, v)
		if b, err := c17Marshal(code); err == nil {
			c17OrdCheck(e, src, code, b, r, 3)
		}
		if c17Unlisted >= 25 {
			e.R.Note("stopped generating large programs after %d: %d unlisted violations already found", i+1, c17Unlisted)
			break
		}
	}
}
