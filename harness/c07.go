package main

// C07 — runs on a reused VM are independent of earlier runs and their contexts.
//
// A *history* is a list of invocations (Run / RunCode / Call) executed on ONE real
// vm.VirtualMachine.  Every invocation is handed a context OBJECT - one created for it (id = its
// index) or one named by id and shared with other invocations, possibly cancelled already (mid-run
// of an earlier invocation, while the VM was idle, or before its first use) - and a
// script that descends `depth` frames and then calls the host builtin hook(); the hook
// is the only place where contexts are cancelled while a run executes, and it waits
// (polling vm.VerifState().Halt from the VM's own goroutine) until the watcher it
// expects has fired, so every outcome is logically determined - timing is never a verdict.
//
//   Code vs Impl : outcome and (sp, fp, halt, running, startCount, halt-before-start,
//                  fp-at-leaf, len(vm.modules), whether the leaf / the module's top-level code
//                  was reached) of every invocation against the Lean model (oracle).
//   Code vs Spec : the outcome of invocation k on the shared VM against the outcome of the
//                  same invocation on a FRESH VM with the same globals (len(acc)), where
//                  events concerning other invocations' contexts do not exist; and the
//                  result objects handed out by earlier invocations still read the same
//                  after all later invocations of the history.
//
// Three things make storage that survives an invocation visible in OUTCOMES (not only in
// registers): (1) RunCode may re-supply the very *compiler.Code object of an earlier
// invocation (`runcode@j`; the script reads its parameters from the host, so one code object
// is run with every behaviour) - also after the host has compiled further snippets into it
// (`grows`: the host keeps the object's incremental compiler); the object must run its CURRENT
// contents, and the reference is a fresh VM running a code object with the same contents; (2) "headroom probes": RunCode invocations whose pending
// operands fill the operand stack to the last slot a fresh VM has - one slot leaked by
// anything earlier makes the probe overflow; (3) scripts import a FILE module through the
// VM's importer (fmod, LocalImporter over a temp dir) and an invocation may end - error,
// panic, overflow, own cancellation - while the module's top-level code is executing; later
// invocations import the module again and check that it is completely initialised.

import (
	"context"
	"errors"
	"fmt"
	"os"
	"path/filepath"
	"runtime"
	"strconv"
	"strings"
	"time"

	"github.com/risor-io/risor/builtins"
	"github.com/risor-io/risor/compiler"
	"github.com/risor-io/risor/importer"
	"github.com/risor-io/risor/object"
	"github.com/risor-io/risor/op"
	"github.com/risor-io/risor/parser"
	"github.com/risor-io/risor/vm"
)

func init() { commands["C07"] = c07_runC07 }

const c07Finding = "C07-stale-context-watcher"
const c07FindingImport = "C07-reset-drops-global-modules"
const c07FindingLost = "C07-runcode-reset-loses-cancellation"
const c07HookValue = -7

var c07WaitBound = 5 * time.Second

type c07Inv struct {
	Kind   string // run | runcode | call
	Beh    string // normal | err | panic | overflow | selfcancel
	Depth  int
	Pend   int
	V      int
	Bump   int
	Bg     bool
	Imp    bool // the script first executes `import hostmod` (a module supplied as a global)
	FImp   bool // the script then executes `import fmod` (a file module loaded by the VM's importer)
	MFail  bool // the ending Beh happens inside fmod's top-level code (when that code is executed)
	Same   int  // RunCode: 1+index of the earlier RunCode invocation whose *compiler.Code is re-supplied; 0 = newly compiled
	Ctx    int  // 1+id of the context OBJECT the invocation is handed (shared by every invocation naming it); 0 = a context created for it (id = its index)
	Grows  []int // ids of code objects (index of the RunCode invocation they were compiled for) into which the host compiles one more snippet before the invocation starts
	Pre    []int // contexts (any id, the own one included) cancelled before the invocation starts
	During []int // OTHER contexts cancelled by the host callback while the invocation runs
	Sched  string // OBSERVED, only for an invocation whose context was already cancelled at its start: e | f | l (see the Lean model, `Sched`)
	Lay    c07Lay   // how the code object compiled for the invocation lays out its globals (RunCode: the object it is handed; Call: the definitions loaded when the VM has no code)
	LkPre  []string // global names (tokens, see c07TokName) the host looks up with vm.Get before the invocation ...
	LkPost []string // ... and after it
}

// c07Lay: the global names the code object is compiled with (the compiler sorts them; HSet bit 0:
// the additional name `aaa`, for which the host supplies no global and which moves every other
// name up one slot; bit 1: without modhook; bit 2: without hostmod), then Fills filler functions,
// over/act in either order (functions are hoisted by the compiler in source order), then Pads
// variables, then `who`: ONE name lives in different slots of different code objects
type c07Lay struct {
	HSet, Fills int
	Swap       bool
	Pads       int
}

func (l c07Lay) String() string {
	if l == (c07Lay{}) {
		return "_"
	}
	return fmt.Sprintf("%d.%d.%d.%d", l.HSet, l.Fills, c07B(l.Swap), l.Pads)
}

func (l c07Lay) globalNames() []string {
	var out []string
	if l.HSet&1 != 0 {
		out = append(out, "aaa")
	}
	for _, n := range c07GlobalNames {
		if (n == "modhook" && l.HSet&2 != 0) || (n == "hostmod" && l.HSet&4 != 0) {
			continue
		}
		out = append(out, n)
	}
	return out
}

// c07TokName: the string of a name token (h<i>: i-th host name, a0/o0: act/over, a<k+1>/o<k+1>:
// act_k/over_k of REPL snippet k, f<i>, g<i>, w: who, x: a name nobody defines)
func c07TokName(t string) string {
	n, _ := strconv.Atoi(t[1:])
	switch t[0] {
	case 'h':
		return c07GlobalNames[n%len(c07GlobalNames)]
	case 'a', 'o':
		base := map[byte]string{'a': "act", 'o': "over"}[t[0]]
		if n == 0 {
			return base
		}
		return base + "_" + strconv.Itoa(n-1)
	case 'f', 'g':
		return t
	case 'w':
		return "who"
	case 'e':
		return "aaa"
	}
	return "nosuch"
}

func c07NameTok(name string) string {
	for i, h := range c07GlobalNames {
		if h == name {
			return "h" + strconv.Itoa(i)
		}
	}
	for _, p := range [][2]string{{"act", "a"}, {"over", "o"}} {
		if name == p[0] {
			return p[1] + "0"
		}
		if strings.HasPrefix(name, p[0]+"_") {
			if n, err := strconv.Atoi(name[len(p[0])+1:]); err == nil {
				return p[1] + strconv.Itoa(n+1)
			}
		}
	}
	if len(name) >= 2 && (name[0] == 'f' || name[0] == 'g') {
		if _, err := strconv.Atoi(name[1:]); err == nil {
			return name
		}
	}
	if name == "who" {
		return "w"
	}
	if name == "nosuch" {
		return "x"
	}
	if name == "aaa" {
		return "e"
	}
	return "?" + name
}

func c07Toks(xs []string) string {
	if len(xs) == 0 {
		return "_"
	}
	return strings.Join(xs, ".")
}

// c07Universe: the names worth asking for after invocation k of h: every host name, every name a
// code object may define, a name nobody defines, and the names of the two latest REPL snippets
func c07Universe(h []c07Inv, k int) []string {
	u := []string{"a0", "o0", "w", "x", "e", "f0", "f1", "g0", "g1", "g2"}
	for i := range c07GlobalNames {
		u = append(u, "h"+strconv.Itoa(i))
	}
	n := 0
	for j := k; j >= 0 && n < 2; j-- {
		if h[j].Kind == "run" {
			u = append(u, "a"+strconv.Itoa(j+1), "o"+strconv.Itoa(j+1))
			n++
		}
	}
	return u
}

// ctxID is the id of the context object handed to invocation k
func (v c07Inv) ctxID(k int) int {
	if v.Ctx > 0 {
		return v.Ctx - 1
	}
	return k
}

func c07Ids(xs []int) string {
	if len(xs) == 0 {
		return "_"
	}
	ss := make([]string, len(xs))
	for i, x := range xs {
		ss[i] = strconv.Itoa(x)
	}
	return strings.Join(ss, ".")
}

// String is the canonical text of the invocation (the case key); the oracle request appends
// the observed schedule (wire)
func (v c07Inv) wire() string {
	sc := v.Sched
	if sc == "" {
		sc = "f"
	}
	return v.String() + ":" + sc
}

func (v c07Inv) String() string {
	bg := "0"
	if v.Bg {
		bg = "1"
	}
	imp := strconv.Itoa(c07B(v.Imp) + 2*c07B(v.FImp))
	if v.MFail {
		imp += "m"
	}
	kind := v.Kind
	if v.Same > 0 {
		kind += "@" + strconv.Itoa(v.Same-1)
	}
	cx := "_"
	if v.Ctx > 0 {
		cx = strconv.Itoa(v.Ctx - 1)
	}
	return fmt.Sprintf("%s:%s:%d:%d:%d:%d:%s:%s:%s:%s:%s:%s:%s:%s:%s", kind, v.Beh, v.Depth, v.Pend, v.V, v.Bump, bg, imp, c07Ids(v.Pre), c07Ids(v.During), cx, c07Ids(v.Grows), v.Lay.String(), c07Toks(v.LkPre), c07Toks(v.LkPost))
}

// c07Canon makes a history well formed: only RunCode can re-supply a code object, only one
// compiled for an EARLIER RunCode invocation, and the pending operands are part of that code;
// "ending inside the module" needs the module import.
func c07Canon(h []c07Inv) []c07Inv {
	for k := range h {
		v := &h[k]
		if v.Same > 0 && (v.Kind != "runcode" || v.Same-1 >= k || h[v.Same-1].Kind != "runcode") {
			v.Same = 0
		}
		if v.Same > 0 {
			v.Pend = h[v.Same-1].Pend
			if h[v.Same-1].Same > 0 {
				v.Same = h[v.Same-1].Same // name the invocation the object was compiled for
			}
			v.Lay = h[v.Same-1].Lay // the layout of its globals is part of the code object
		}
		if v.Kind == "run" {
			v.Lay = c07Lay{} // REPL snippets only append their own two functions to the main code
		}
		v.Lay.HSet, v.Lay.Fills, v.Lay.Pads = v.Lay.HSet%8, v.Lay.Fills%3, v.Lay.Pads%4
		if c07MaxPend > 0 && v.Pend == c07MaxPend {
			// a headroom probe has the exact shape its bound was measured with; it is never cut
			// short by a stale watcher (that would leave its operands on the stack: the known
			// finding, whose effect on the stack BOUND the model does not cover), it has a
			// context of its own and its code object never grows
			v.Kind, v.Beh, v.Depth, v.Bump, v.Imp, v.FImp, v.During = "runcode", "normal", 0, 0, false, false, nil
			v.Ctx = 0
			v.Lay = c07Lay{}
			v.Pre = c07Without(v.Pre, k)
		}
		// only code objects that exist (compiled for an earlier RunCode) and are not probes grow
		var grows []int
		for _, j := range v.Grows {
			if j >= 0 && j < k && h[j].Kind == "runcode" && h[j].Same == 0 && !(c07MaxPend > 0 && h[j].Pend == c07MaxPend) {
				grows = append(grows, j)
			}
		}
		v.Grows = grows
		// `during` names OTHER contexts
		v.During = c07Without(v.During, v.ctxID(k))
		v.Sched = ""
		if !v.FImp {
			v.MFail = false
		}
	}
	return h
}

func c07Without(xs []int, x int) []int {
	var out []int
	for _, y := range xs {
		if y != x {
			out = append(out, y)
		}
	}
	return out
}

// c07MaxPend is the largest number of pending operands with which the probe script
// (RunCode, normal ending, depth 0, no appends, no imports) succeeds on a FRESH VM: it fills
// the operand stack to its last slot.  Measured on the real VM, once per process.
var c07MaxPend int

func c07ProbeInv(pend int) c07Inv {
	return c07Inv{Kind: "runcode", Beh: "normal", Pend: pend, V: 1}
}

func c07MeasureMaxPend() int {
	ok := func(p int) bool { return c07Reference(0, c07ProbeInv(p), 0, false, false, 0, 0).Outcome == "ok=1" }
	if !ok(0) || !ok(8) {
		return 0
	}
	lo, hi := 8, 2048 // ok(lo), !ok(hi): the operand stack has 1024 slots
	if ok(hi) {
		return 0
	}
	for hi-lo > 1 {
		mid := (lo + hi) / 2
		if ok(mid) {
			lo = mid
		} else {
			hi = mid
		}
	}
	return lo
}

func c07Key(h []c07Inv) string {
	ss := make([]string, len(h))
	for i, v := range h {
		ss[i] = v.String()
	}
	return strings.Join(ss, " ")
}

// sorted, as the compiler sorts the global names it is given: index = slot in a code object compiled with exactly these names
var c07GlobalNames = []string{"acc", "boom", "hook", "hostmod", "len", "modhook", "p"}

// the file module: its top-level code calls back into the host two script frames deep
// (modhook), then - if the host says so - fails, and only then assigns `last`
const c07ModSource = `func mover(n) { return mover(n+1) }
func mrec(n) {
  if n > 0 { return mrec(n-1) }
  return modhook()
}
first := 1
m := mrec(2)
if m == 1 { first + "s" }
if m == 2 { boom() }
if m == 3 { mover(0) }
last := 42
`

var c07ModDir string

func c07ModuleDir() string {
	if c07ModDir == "" {
		d, err := os.MkdirTemp("", "verif-c07-")
		if err != nil {
			panic(err)
		}
		if err := os.WriteFile(filepath.Join(d, "fmod.risor"), []byte(c07ModSource), 0o644); err != nil {
			panic(err)
		}
		c07ModDir = d
	}
	return c07ModDir
}

// c07World is one real VM with its host: contexts, the host global acc, the hook.
type c07World struct {
	m         *vm.VirtualMachine
	comp      *compiler.Compiler // incremental compiler feeding Run (REPL protocol)
	acc       *object.List
	ctxs      map[int]context.Context // context objects by id, created on first use
	cancels   map[int]context.CancelFunc
	armed     map[int]int // per context: watchers armed by start() on this VM that have not fired
	cancelled map[int]bool
	compilers map[int]*compiler.Compiler // RunCode: the incremental compiler behind the code object compiled for invocation k
	gens      map[int]int                // ... and how many further snippets the host has compiled into it
	traceHits int                        // dead-context invocations: instructions dispatched before the watcher's store was seen
	hasCode   bool
	curName   string // suffix of the act/over functions defined in the active code
	isRef     bool   // fresh reference VM: other invocations' contexts do not exist here
	codes     map[int]*compiler.Code // RunCode: the code object compiled for invocation k
	hostObjs  []object.Object        // the objects supplied under c07GlobalNames, in that order
	setupCode *compiler.Code         // the definitions loaded last for a Call on a VM without code
	// per invocation
	k        int
	inv      c07Inv
	leafFP   int
	leafRun  bool
	hookHits int
	modHits  int
	timeouts int
}

func c07NewWorld(accLen int, isRef bool, withImporter bool) *c07World {
	w := &c07World{armed: map[int]int{}, cancelled: map[int]bool{}, isRef: isRef, codes: map[int]*compiler.Code{},
		ctxs: map[int]context.Context{}, cancels: map[int]context.CancelFunc{}, compilers: map[int]*compiler.Compiler{}, gens: map[int]int{}}
	items := make([]object.Object, accLen)
	for i := range items {
		items[i] = object.NewInt(0)
	}
	w.acc = object.NewList(items)
	globals := map[string]any{
		"hook":    object.NewBuiltin("hook", func(ctx context.Context, args ...object.Object) object.Object { return w.hook() }),
		"boom":    object.NewBuiltin("boom", func(ctx context.Context, args ...object.Object) object.Object { panic("boom") }),
		"acc":     w.acc,
		"len":     builtins.Builtins()["len"],
		"hostmod": object.NewBuiltinsModule("hostmod", map[string]object.Object{"one": object.NewInt(1)}),
		"p":       object.NewBuiltin("p", func(ctx context.Context, args ...object.Object) object.Object { return w.param(args) }),
		"modhook": object.NewBuiltin("modhook", func(ctx context.Context, args ...object.Object) object.Object { return w.modhook() }),
	}
	for _, name := range c07GlobalNames {
		w.hostObjs = append(w.hostObjs, globals[name].(object.Object))
	}
	c, err := compiler.New(compiler.WithGlobalNames(c07GlobalNames))
	if err != nil {
		panic(err)
	}
	w.comp = c
	opts := []vm.Option{vm.WithGlobals(globals)}
	if withImporter {
		// one importer per VM: nothing is shared between the reused VM and the reference VMs
		opts = append(opts, vm.WithImporter(importer.NewLocalImporter(importer.LocalImporterOptions{
			GlobalNames: c07GlobalNames, SourceDir: c07ModuleDir()})))
	}
	w.m = vm.New(c.Code(), opts...)
	return w
}

// param: the script of a Run/RunCode invocation reads its arguments from the host, so that
// one code object can be re-run with every behaviour
func (w *c07World) param(args []object.Object) object.Object {
	i := -1
	if len(args) == 1 {
		if n, ok := args[0].(*object.Int); ok {
			i = int(n.Value())
		}
	}
	v := w.inv
	ps := []int{c07Mode(v.Beh), v.Depth, v.V, v.Bump, c07Im(v)}
	if i < 0 || i >= len(ps) {
		return object.Errorf("p: bad index")
	}
	return object.NewInt(int64(ps[i]))
}

func c07Im(v c07Inv) int { return c07B(v.Imp) + 2*c07B(v.FImp) }

// modhook is called by fmod's top-level code, two module frames deep
func (w *c07World) modhook() object.Object {
	w.modHits++
	if !w.inv.MFail {
		return object.NewInt(0)
	}
	if w.inv.Beh == "selfcancel" && !w.inv.Bg {
		w.cancel(w.inv.ctxID(w.k))
	}
	return object.NewInt(int64(c07Mode(w.inv.Beh)))
}

// got: vm.Get(name) on this world's VM, rendered as the oracle renders the model's answer:
// nocode | notfound | nil (a slot whose definition has not been executed) | host<i> (the very
// object the host supplied under its i-th name) | fn:<name>@<owner> (owner = the root code object
// the function was compiled in: main | c<j> | setup) | int:<v>
func (w *c07World) got(tok string) (out string) {
	defer func() {
		if r := recover(); r != nil {
			out = fmt.Sprintf("PANIC(%v)", r)
		}
	}()
	obj, err := w.m.Get(c07TokName(tok))
	if err != nil {
		switch {
		case errors.Is(err, vm.ErrGlobalNotFound):
			return "notfound"
		case strings.Contains(err.Error(), "no active code"):
			return "nocode"
		}
		return "err(" + err.Error() + ")"
	}
	return w.renderVal(obj)
}

func (w *c07World) renderVal(obj object.Object) string {
	if obj == nil {
		return "nil"
	}
	for i, h := range w.hostObjs {
		if h == obj {
			return "host" + strconv.Itoa(i)
		}
	}
	switch o := obj.(type) {
	case *object.Function:
		return "fn:" + c07NameTok(o.Name()) + "@" + w.ownerOf(o)
	case *object.Int:
		return "int:" + strconv.FormatInt(o.Value(), 10)
	}
	s := obj.Inspect()
	if len(s) > 40 {
		s = s[:40]
	}
	return "?" + string(obj.Type()) + "(" + s + ")"
}

func (w *c07World) ownerOf(f *object.Function) string {
	if f.Code() == nil {
		return "nocode"
	}
	root := f.Code().Root()
	if root == w.comp.Code() {
		return "main"
	}
	if w.setupCode != nil && root == w.setupCode {
		return "setup"
	}
	best := -1
	for j, c := range w.codes {
		if c == root && (best < 0 || j < best) {
			best = j
		}
	}
	if best >= 0 {
		return "c" + strconv.Itoa(best)
	}
	return "other"
}

func (w *c07World) gots(toks []string) []string {
	out := make([]string, len(toks))
	for i, t := range toks {
		out[i] = w.got(t)
	}
	return out
}

// names: vm.GlobalNames() as tokens
func (w *c07World) names() (out []string) {
	defer func() {
		if r := recover(); r != nil {
			out = []string{fmt.Sprintf("PANIC(%v)", r)}
		}
	}()
	for _, n := range w.m.GlobalNames() {
		out = append(out, c07NameTok(n))
	}
	return out
}

// ctxFor returns the context object with the given id, creating it on first use
func (w *c07World) ctxFor(id int) context.Context {
	if c, ok := w.ctxs[id]; ok {
		return c
	}
	c, cancel := context.WithCancel(context.Background())
	w.ctxs[id], w.cancels[id] = c, cancel
	return c
}

// cancel cancels context i; when watchers of this VM are armed for it (one per invocation that
// was started with this context object), wait until they have stored halt=1 (a bound on the
// wait only; a timeout is reported, never interpreted).
func (w *c07World) cancel(i int) {
	w.ctxFor(i)
	expect := 0
	if !w.cancelled[i] {
		expect = w.armed[i]
	}
	// The watcher goroutine of start() exits right after it has stored halt=1, so "the
	// number of goroutines dropped by the number of armed watchers" is a logical observation
	// that they have fired (halt itself may already be 1 from an earlier watcher and proves
	// nothing).
	n0 := runtime.NumGoroutine()
	w.cancels[i]()
	w.cancelled[i] = true
	if expect > 0 {
		t0 := time.Now()
		for runtime.NumGoroutine() > n0-expect {
			if time.Since(t0) > c07WaitBound {
				w.timeouts++
				c07WaitBound = 100 * time.Millisecond // the verdict is already "mismatch"; do not stall the rest
				break
			}
			runtime.Gosched()
			time.Sleep(5 * time.Microsecond)
		}
	} else {
		for j := 0; j < 3; j++ {
			runtime.Gosched()
		}
	}
	delete(w.armed, i)
}

// release cancels every context that is still live and waits for the watcher goroutines to
// exit, so that goroutine counting in the next history starts from a quiet process.
func (w *c07World) release(base int) {
	for i, c := range w.cancels {
		if !w.cancelled[i] {
			c()
		}
	}
	t0 := time.Now()
	for runtime.NumGoroutine() > base && time.Since(t0) < c07WaitBound {
		runtime.Gosched()
		time.Sleep(5 * time.Microsecond)
	}
}

func (w *c07World) hook() object.Object {
	st := w.m.VerifState()
	w.leafFP, w.leafRun = st.FP, st.Running
	w.hookHits++
	if !w.isRef {
		for _, i := range w.inv.During {
			if i != w.inv.ctxID(w.k) {
				w.cancel(i)
			}
		}
	}
	if w.inv.Beh == "selfcancel" && !w.inv.Bg {
		w.cancel(w.inv.ctxID(w.k))
	}
	return object.NewInt(c07HookValue)
}

// c07Defs: the definitions of a script.  `s` is the suffix of the function names: "" for the code
// objects handed to RunCode and for the definitions a Call loads (the SAME names act/over/who/...
// in every such code object, in the slots the layout gives them), "_k" for REPL snippet k (the
// REPL's main code cannot define a name twice).  `who` identifies the code object.
func c07Defs(s string, lay c07Lay, who int) string {
	over := fmt.Sprintf("func over%[1]s(n) { return over%[1]s(n+1) }\n", s)
	act := fmt.Sprintf(`func act%[1]s(mode, n, v, b, im) {
  if n > 0 { return act%[1]s(mode, n-1, v, b, im) }
  if im == 1 || im == 3 { import hostmod }
  if im >= 2 {
    import fmod
    if fmod.last != 42 { return "half-initialised module" }
  }
  for i := 0; i < b; i++ { acc.append(v) }
  hook()
  if mode == 1 { return v + "s" }
  if mode == 2 { boom() }
  if mode == 3 { return over%[1]s(0) }
  return v + 1000*len(acc)
}
`, s)
	var b strings.Builder
	if s == "" {
		for i := 0; i < lay.Fills; i++ {
			fmt.Fprintf(&b, "func f%d() { return %d }\n", i, i)
		}
	}
	if s == "" && lay.Swap {
		b.WriteString(act)
		b.WriteString(over)
	} else {
		b.WriteString(over)
		b.WriteString(act)
	}
	if s == "" {
		for i := 0; i < lay.Pads; i++ {
			fmt.Fprintf(&b, "g%d := %d\n", i, 10+i)
		}
		fmt.Fprintf(&b, "who := %d\n", who)
	}
	return b.String()
}

func c07Mode(beh string) int {
	switch beh {
	case "err":
		return 1
	case "panic":
		return 2
	case "overflow":
		return 3
	}
	return 0
}

func c07B(b bool) int {
	if b {
		return 1
	}
	return 0
}

func c07Expr(suffix string, v c07Inv) string {
	call := fmt.Sprintf("act%s(p(0), p(1), p(2), p(3), p(4))", suffix)
	if v.Pend == 0 {
		return call
	}
	parts := []string{}
	for i := 1; i <= v.Pend; i++ {
		parts = append(parts, strconv.Itoa(i))
	}
	return "[" + strings.Join(parts, ", ") + ", " + call + "]"
}

func c07ErrClass(err error) string {
	if err == nil {
		return ""
	}
	msg := err.Error()
	switch {
	case errors.Is(err, context.Canceled):
		return "err=canceled"
	case errors.Is(err, context.DeadlineExceeded):
		return "err=deadline"
	case strings.HasPrefix(msg, "panic: boom"):
		return "err=panic"
	case strings.Contains(msg, "index out of range [1024]"):
		return "err=overflow"
	case strings.Contains(msg, "type error: unsupported operation"):
		return "err=runtime"
	case strings.Contains(msg, "imports are disabled"), strings.Contains(msg, `module "hostmod" not found`):
		return "err=import"
	case strings.Contains(msg, "already running"):
		return "err=busy"
	}
	if len(msg) > 80 {
		msg = msg[:80]
	}
	return "err=other(" + msg + ")"
}

func c07Value(o object.Object, pend int) string {
	switch o := o.(type) {
	case nil:
		return "ok=<go-nil>"
	case *object.Int:
		if o.Value() == c07HookValue {
			return "ok=hook"
		}
		return "ok=" + strconv.FormatInt(o.Value(), 10)
	case *object.List:
		items := o.Value()
		if pend > 0 && len(items) == pend+1 {
			ok := true
			for i := 0; i < pend; i++ {
				if n, isInt := items[i].(*object.Int); !isInt || n.Value() != int64(i+1) {
					ok = false
				}
			}
			if ok {
				return c07Value(items[pend], 0)
			}
		}
	}
	s := o.Inspect()
	if len(s) > 60 {
		s = s[:60]
	}
	return "ok=?" + string(o.Type()) + "(" + s + ")"
}

func c07Compile(c *compiler.Compiler, src string) *compiler.Code {
	ast, err := parser.Parse(context.Background(), src)
	if err != nil {
		panic(fmt.Sprintf("C07 template does not parse: %v\n%s", err, src))
	}
	var code *compiler.Code
	if c != nil {
		code, err = c.Compile(ast)
	} else {
		code, err = compiler.Compile(ast, compiler.WithGlobalNames(c07GlobalNames))
	}
	if err != nil {
		panic(fmt.Sprintf("C07 template does not compile: %v\n%s", err, src))
	}
	return code
}

// c07CompileWith compiles a source on its own, with the given order of the host's global names
func c07CompileWith(globalNames []string, src string) *compiler.Code {
	ast, err := parser.Parse(context.Background(), src)
	if err != nil {
		panic(fmt.Sprintf("C07 template does not parse: %v\n%s", err, src))
	}
	code, err := compiler.Compile(ast, compiler.WithGlobalNames(globalNames))
	if err != nil {
		panic(fmt.Sprintf("C07 template does not compile: %v\n%s", err, src))
	}
	return code
}

type c07Obs struct {
	Outcome    string
	SP, FP     int
	Halt       int32
	Running    bool
	StartCount int64
	PreHalt    int32
	LeafFP     int
	HookHits   int
	ModHits    int
	Modules    int
	IPCont     string // Run only: did vm.ip already point at the new snippet before SetIP
	Dead       bool   // the context handed to the invocation was already cancelled when it started
	Sched      string // observed schedule of a Dead invocation (e | f | l), "" otherwise
	Gen        int    // RunCode: growth snippets the code object contains when the invocation starts
	Result     object.Object // the object a successful invocation handed to the host
	ResultPend int
	PreGots    []string // answers of vm.Get for LkPre, before the invocation
	PostGots   []string // ... for LkPost, after it
	Names      []string // vm.GlobalNames() after it
	CallName   string   // Call: the name of the function fetched with vm.Get
	OwnCode    int      // id of the code object the invocation was handed (RunCode), -1 otherwise
}

func (o c07Obs) stateString() string {
	b := func(x bool) string {
		if x {
			return "1"
		}
		return "0"
	}
	return fmt.Sprintf("%s,%d,%d,%d,%s,%d,%d", o.Outcome, o.SP, o.FP, o.Halt, b(o.Running), o.StartCount, o.PreHalt)
}

// c07GrowSrc is the i-th snippet the host compiles into an existing code object: an expression
// statement of its own, whose value is the result of the grown code
func c07GrowSrc(i int) string {
	return fmt.Sprintf("p(2) + 1000*len(acc) + %d", 1000000*i)
}

// grow compiles one more snippet into the code object that was compiled for invocation j
func (w *c07World) grow(j int) {
	c := w.compilers[j]
	if c == nil {
		return
	}
	w.gens[j]++
	c07Compile(c, c07GrowSrc(w.gens[j]))
}

// newCode compiles the script of a RunCode invocation into a code object of its own, through an
// incremental compiler that the host keeps (so that it can compile further snippets into it)
func (w *c07World) newCode(k int, src string, gen int, lay c07Lay) *compiler.Code {
	c, err := compiler.New(compiler.WithGlobalNames(lay.globalNames()))
	if err != nil {
		panic(err)
	}
	code := c07Compile(c, src)
	w.compilers[k], w.gens[k] = c, 0
	for i := 0; i < gen; i++ {
		w.grow(k)
	}
	if c.Code() != code {
		panic("C07: the incremental compiler returned a different code object")
	}
	return code
}

// invoke executes invocation k on this world's VM.  `refDead`/`refGen`: on a reference VM the
// context is cancelled beforehand / the code object is compiled with that many growth snippets.
func (w *c07World) invoke(k int, v c07Inv, refDead bool, refGen int, refOwn int) (obs c07Obs) {
	w.k, w.inv = k, v
	obs.OwnCode = -1
	w.leafFP, w.leafRun, w.hookHits, w.modHits, w.traceHits = -1, false, 0, 0, 0
	cid := v.ctxID(k)
	if !w.isRef {
		for _, j := range v.Grows {
			w.grow(j)
		}
		for _, i := range v.Pre {
			w.cancel(i)
		}
	} else if refDead {
		w.cancel(cid)
	}
	obs.PreHalt = w.m.VerifState().Halt
	obs.PreGots = w.gots(v.LkPre)
	ctx := context.Background()
	if !v.Bg {
		ctx = w.ctxFor(cid)
		obs.Dead = w.cancelled[cid]
		if !obs.Dead {
			w.armed[cid]++
		}
	}
	// An invocation that is handed an already cancelled context: start() arms a watcher that
	// fires at once.  Go scheduling decides WHEN its store lands; the run is held at its first
	// dispatched instruction (verif trace hook) until the watcher goroutine has exited, so that
	// what follows is determined: the next poll stops the run ("f"), unless no instruction was
	// dispatched at all ("e"), or the store was wiped by RunCode's reset ("l": halt is 0 although
	// the watcher has exited).
	n0 := 0
	lostSeen := false
	arm := func() {
		if !obs.Dead {
			return
		}
		n0 = runtime.NumGoroutine()
		vm.VerifTrace = func(m *vm.VirtualMachine, codeID string, ip int, opcode op.Code, sp int, fp int) {
			if m != w.m {
				return
			}
			w.traceHits++
			if w.traceHits > 1 {
				return
			}
			t0 := time.Now()
			for runtime.NumGoroutine() > n0 && time.Since(t0) < c07WaitBound {
				runtime.Gosched()
				time.Sleep(5 * time.Microsecond)
			}
			lostSeen = m.VerifState().Halt == 0
		}
	}
	defer func() { vm.VerifTrace = nil }()
	suffix := "_" + strconv.Itoa(k) // REPL snippets; the code objects of RunCode and Call's definitions use the bare names
	var err error
	var result object.Object
	func() {
		defer func() {
			if r := recover(); r != nil {
				err = fmt.Errorf("ESCAPED-PANIC: %v", r)
			}
		}()
		switch v.Kind {
		case "runcode":
			var code *compiler.Code
			if v.Same > 0 && !w.isRef && w.codes[v.Same-1] != nil {
				// the very object an earlier invocation ran - with whatever the host has compiled
				// into it since
				code = w.codes[v.Same-1]
				obs.Gen = w.gens[v.Same-1]
				obs.OwnCode = v.Same - 1
				w.compilers[k], w.gens[k] = w.compilers[v.Same-1], w.gens[v.Same-1]
				w.codes[k] = code
			} else {
				// on a reference VM the code object stands for the one the invocation was handed
				// on the reused VM (same contents, same identity mark `who`)
				id := k
				if w.isRef {
					id = refOwn
				}
				code = w.newCode(id, c07Defs("", v.Lay, 100+id)+c07Expr("", v), refGen, v.Lay)
				obs.Gen = refGen
				obs.OwnCode = id
				w.codes[id] = code
			}
			w.curName, w.hasCode = "", true
			arm()
			err = w.m.RunCode(ctx, code)
			if err == nil {
				if tos, ok := w.m.TOS(); ok {
					result = tos
				} else {
					result = object.Nil
				}
			}
		case "run":
			// REPL protocol: append the snippet to main, start at the snippet, and move
			// ip past the snippet if the run failed
			start := w.comp.Code().InstructionCount()
			code := c07Compile(w.comp, c07Defs(suffix, c07Lay{}, 0)+c07Expr(suffix, v))
			w.curName, w.hasCode = suffix, true
			if w.m.VerifState().IP == start {
				obs.IPCont = "ip-already-at-snippet"
			} else {
				obs.IPCont = "ip-moved-by-host"
			}
			if e := w.m.SetIP(start); e != nil {
				err = e
				return
			}
			arm()
			err = w.m.Run(ctx)
			if err != nil {
				w.m.SetIP(code.InstructionCount())
			} else if tos, ok := w.m.TOS(); ok {
				result = tos
			} else {
				result = object.Nil
			}
		case "call":
			if !w.hasCode {
				// what risor.Call does: load the definitions first
				w.setupCode = c07CompileWith(v.Lay.globalNames(), c07Defs("", v.Lay, 99))
				if e := w.m.RunCode(context.Background(), w.setupCode); e != nil {
					err = fmt.Errorf("setup failed: %w", e)
					return
				}
				w.curName, w.hasCode = "", true
			}
			obs.CallName = c07NameTok("act" + w.curName)
			fnObj, e := w.m.Get("act" + w.curName)
			if e != nil {
				err = fmt.Errorf("get failed: %w", e)
				return
			}
			fn, ok := fnObj.(*object.Function)
			if !ok {
				err = fmt.Errorf("get: not a function (%T)", fnObj)
				return
			}
			arm()
			result, err = w.m.Call(ctx, fn, []object.Object{object.NewInt(int64(c07Mode(v.Beh))),
				object.NewInt(int64(v.Depth)), object.NewInt(int64(v.V)), object.NewInt(int64(v.Bump)), object.NewInt(int64(c07Im(v)))})
		}
	}()
	vm.VerifTrace = nil
	if obs.Dead {
		switch {
		case w.traceHits == 0:
			obs.Sched = "e"
		case lostSeen:
			obs.Sched = "l"
		default:
			obs.Sched = "f"
		}
		// the watcher armed for the dead context exits at once; wait for it (bounded) so that the
		// goroutine counts of later cancellations start from a quiet process
		t0 := time.Now()
		for runtime.NumGoroutine() > n0 && time.Since(t0) < c07WaitBound {
			runtime.Gosched()
			time.Sleep(5 * time.Microsecond)
		}
		if obs.Sched != "l" && v.Kind != "call" {
			// the run was stopped before its function definitions were executed: a later Call
			// has to load definitions first
			w.hasCode = false
		}
	}
	if err != nil {
		obs.Outcome = c07ErrClass(err)
	} else {
		pend := v.Pend
		if v.Kind == "call" {
			pend = 0
		}
		obs.Outcome = c07Value(result, pend)
		obs.Result, obs.ResultPend = result, pend
	}
	st := w.m.VerifState()
	obs.SP, obs.FP, obs.Halt, obs.Running, obs.StartCount = st.SP, st.FP, st.Halt, st.Running, st.StartCount
	obs.LeafFP, obs.HookHits, obs.ModHits, obs.Modules = w.leafFP, w.hookHits, w.modHits, st.Modules
	obs.PostGots = w.gots(v.LkPost)
	obs.Names = w.names()
	return obs
}

// c07Reference: the same invocation on a fresh VM whose host global has the same value.
// `dead`: it is handed a context that is already cancelled; `gen`: its code object contains
// that many growth snippets (the code object AS IT IS when the invocation starts).
// `own`: the id of the code object the invocation was handed on the reused VM.  The look-ups
// made after the invocation (LkPost) and vm.GlobalNames() are answered by the fresh VM as well.
type c07Ref struct {
	Outcome string
	Gots    []string
	Names   []string
}

func c07Reference(k int, v c07Inv, accLen int, withImporter bool, dead bool, gen int, own int) c07Ref {
	base := runtime.NumGoroutine()
	w := c07NewWorld(accLen, true, withImporter)
	defer w.release(base)
	v.Pre, v.During, v.Same, v.Grows, v.LkPre = nil, nil, 0, nil, nil
	obs := w.invoke(k, v, dead, gen, own)
	return c07Ref{obs.Outcome, obs.PostGots, obs.Names}
}

func c07Nontrivial(h []c07Inv) bool {
	if len(h) < 2 {
		return false
	}
	for _, v := range h {
		if v.Beh != "normal" || len(v.Pre) > 0 || len(v.During) > 0 || v.Same > 0 || v.FImp || v.Ctx > 0 || len(v.Grows) > 0 || (c07MaxPend > 0 && v.Pend == c07MaxPend) || len(v.LkPre) > 0 || len(v.LkPost) > 0 || v.Lay != (c07Lay{}) {
			return true
		}
	}
	return false
}

func c07UsesImporter(h []c07Inv) bool {
	for _, v := range h {
		if v.FImp {
			return true
		}
	}
	return false
}

type c07Runner struct {
	e     *Env
	refs  map[string]c07Ref
	nInv  int
	nRef  int
	nWait int
	last  string
}

func (r *c07Runner) reference(k int, v c07Inv, accLen int, withImporter bool, dead bool, gen int, own int) c07Ref {
	// the index of the invocation is part of the reference only where it is part of the script
	// (the names of a REPL snippet); the identity of the code object only for RunCode (`who`)
	kk := -1
	if v.Kind == "run" {
		kk = k
	}
	key := fmt.Sprintf("%s:%s:%d:%d:%d:%d:%v:%v:%v:%v:%v:%d:%v:%d:%d:%d:%s:%s", v.Kind, v.Beh, v.Depth, v.Pend, v.V, v.Bump, v.Bg, v.Imp, v.FImp, v.MFail, withImporter, accLen, dead, gen, kk, own, v.Lay.String(), c07Toks(v.LkPost))
	if s, ok := r.refs[key]; ok {
		return s
	}
	s := c07Reference(k, v, accLen, withImporter, dead, gen, own)
	r.refs[key] = s
	r.nRef++
	return s
}

// runHistory executes one history on a real VM and compares it with the model and the Spec.
// The real VM runs first: where the code leaves the order of events to the Go scheduler (an
// invocation that is handed an already cancelled context), the schedule that was OBSERVED is
// part of the question put to the model.
func (r *c07Runner) runHistory(h []c07Inv) {
	e := r.e
	h = c07Canon(h)
	withImporter := c07UsesImporter(h)
	key := c07Key(h)
	e.R.Case(key, c07Nontrivial(h))
	e.R.H("history_length", strconv.Itoa(len(h)))
	base := runtime.NumGoroutine()
	w := c07NewWorld(0, false, withImporter)
	defer w.release(base)
	type kept struct {
		k        int
		o        object.Object
		pend     int
		rendered string
	}
	type ran struct {
		obs       c07Obs
		accBefore int
		accAfter  []object.Object
		ref       c07Ref
		timeouts  int
		leafRun   bool
	}
	var results []kept
	defer func() {
		// results handed to the host by earlier invocations are not changed by later ones
		for _, x := range results {
			if now := c07Value(x.o, x.pend); now != x.rendered {
				e.R.Spec(key, fmt.Sprintf("the result of invocation %d (%s) was %s when it returned and reads %s after the later invocations of the history", x.k, h[x.k].String(), x.rendered, now), "")
			}
		}
	}()
	runs := make([]ran, len(h))
	for k, v := range h {
		r.nInv++
		x := &runs[k]
		x.accBefore = len(w.acc.Value())
		x.obs = w.invoke(k, v, false, 0, 0)
		x.leafRun = w.leafRun
		x.timeouts, w.timeouts = w.timeouts, 0
		x.accAfter = append([]object.Object(nil), w.acc.Value()...)
		h[k].Sched = x.obs.Sched
		// Code vs Spec: the same invocation on a fresh VM with the same globals, the same code
		// object contents and a context in the same state
		x.ref = r.reference(k, v, x.accBefore, withImporter, x.obs.Dead, x.obs.Gen, x.obs.OwnCode)
		if x.obs.Result != nil && k+1 < len(h) {
			results = append(results, kept{k, x.obs.Result, x.obs.ResultPend, x.obs.Outcome})
		}
	}
	req := []string{"C07", "hist"}
	for _, v := range h {
		req = append(req, v.wire())
	}
	reply := strings.Split(e.O.Ask(req...), "\t")
	if reply[0] != "ok" || len(reply) != len(h)+1 {
		e.R.Mismatch(key, "-", strings.Join(reply, " "), "oracle rejected the history")
		return
	}
	for k, v := range h {
		x := runs[k]
		obs, accBefore, ref := x.obs, x.accBefore, x.ref.Outcome
		m := strings.Split(reply[k+1], ",")
		if len(m) != 24 {
			e.R.Mismatch(key, "-", reply[k+1], "malformed oracle reply")
			return
		}
		modelState := strings.Join(m[:7], ",")
		modelSpec, modelStale, modelLeafFP, modelImportFails := m[7], m[8] == "1", m[9], m[10] == "1"
		wantHook, wantMod, modelModules := 0, 0, m[13]
		modelDead, modelLost, modelRanGen, modelCurGen := m[14] == "1", m[15] == "1", m[16], m[17]
		if m[11] == "1" {
			wantHook = 1
		}
		if m[12] == "1" {
			wantMod = 1
		}
		tag := fmt.Sprintf("%s [invocation %d]", key, k)
		e.R.H("kind", v.Kind)
		e.R.H("behaviour", v.Beh)
		e.R.H("kind_x_behaviour", v.Kind+"/"+v.Beh)
		e.R.H("depth", strconv.Itoa(v.Depth))
		e.R.H("pending_operands", strconv.Itoa(v.Pend))
		e.R.H("context", map[bool]string{true: "background", false: "cancellable"}[v.Bg])
		if !v.Bg {
			uses := 0
			for j := 0; j < k; j++ {
				if !h[j].Bg && h[j].ctxID(j) == v.ctxID(k) {
					uses++
				}
			}
			shape := "own"
			if uses > 0 {
				shape = "shared with " + strconv.Itoa(c07Min(uses, 3)) + "+ earlier invocation(s)"
			} else if v.Ctx > 0 {
				shape = "named, first use"
			}
			if obs.Dead {
				shape += ", ALREADY CANCELLED at start"
			}
			e.R.H("context_object", shape)
			if obs.Dead {
				e.R.H("dead_context_kind_x_schedule", v.Kind+"/"+obs.Sched)
			}
		}
		e.R.H("imports_global_module", strconv.FormatBool(v.Imp))
		e.R.H("imports_file_module", map[bool]string{false: "no", true: map[bool]string{false: "yes", true: "yes, ending inside its top-level code"}[v.MFail]}[v.FImp])
		if v.FImp {
			e.R.H("file_module_code_executed_x_where_the_run_ends", fmt.Sprintf("executed=%d leaf-reached=%d", wantMod, wantHook))
		}
		if v.Kind == "runcode" {
			e.R.H("runcode_code_object", map[bool]string{false: "newly compiled", true: "re-supplied object of an earlier invocation"}[v.Same > 0])
			e.R.H("runcode_stack_headroom_probe", strconv.FormatBool(c07MaxPend > 0 && v.Pend == c07MaxPend))
			e.R.H("runcode_code_object_generation", fmt.Sprintf("resupplied=%v growth-snippets=%d", v.Same > 0, c07Min(obs.Gen, 3)))
		}
		e.R.H("code_objects_grown_before", strconv.Itoa(len(v.Grows)))
		e.R.H("cancel_placement", fmt.Sprintf("before=%d during=%d", len(v.Pre), len(v.During)))
		e.R.H("outcome_on_shared_vm", strings.SplitN(obs.Outcome, "=", 2)[0]+"="+c07OutcomeClass(obs.Outcome))
		if obs.IPCont != "" {
			e.R.H("run_ip_continuity", obs.IPCont)
		}
		if k > 0 {
			e.R.H("previous_ending->kind", c07OutcomeClass(runs[k-1].obs.Outcome)+"->"+v.Kind)
		}
		// Code vs Impl
		if got := obs.stateString(); got != modelState {
			e.R.Mismatch(tag, got, modelState, "outcome,sp,fp,halt,running,startCount,haltBeforeStart")
		}
		if obs.Dead != modelDead {
			e.R.Mismatch(tag, fmt.Sprintf("context already cancelled at start: %v", obs.Dead), fmt.Sprintf("%v", modelDead), "which contexts are cancelled (bookkeeping of the harness vs the model)")
		}
		if v.Kind == "runcode" && (strconv.Itoa(obs.Gen) != modelCurGen || modelRanGen != modelCurGen) {
			e.R.Mismatch(tag, fmt.Sprintf("the code object contains %d growth snippets", obs.Gen), "current generation "+modelCurGen+", executed generation "+modelRanGen, "contents of the code object handed to RunCode")
		}
		if obs.HookHits != wantHook {
			e.R.Mismatch(tag, fmt.Sprintf("hook called %d times", obs.HookHits), fmt.Sprintf("hook called %d times", wantHook), "how often the script reaches its leaf")
		} else if wantHook == 1 && (strconv.Itoa(obs.LeafFP) != modelLeafFP || !x.leafRun) {
			e.R.Mismatch(tag, fmt.Sprintf("fp=%d running=%v at the leaf", obs.LeafFP, x.leafRun), "fp="+modelLeafFP+" running=true", "state while the host callback runs")
		}
		if obs.ModHits != wantMod {
			e.R.Mismatch(tag, fmt.Sprintf("module top-level code executed %d times", obs.ModHits), fmt.Sprintf("executed %d times", wantMod), "whether `import fmod` executes the module's code (it must, unless a completely initialised module is cached)")
		}
		if strconv.Itoa(obs.Modules) != modelModules {
			e.R.Mismatch(tag, fmt.Sprintf("len(vm.modules)=%d", obs.Modules), "len(vm.modules)="+modelModules, "import cache after the invocation")
		}
		if x.timeouts > 0 {
			e.R.Mismatch(tag, "watcher did not set halt within 5s", "halt=1 after cancel", "every armed watcher must fire after its context is cancelled")
		}
		if ref != modelSpec {
			e.R.Mismatch(tag+" (fresh VM)", ref, modelSpec, "Lean Spec vs the real outcome on a fresh VM")
		}
		// LOOK-UPS BY NAME.  Code vs Impl: every answer of vm.Get before and after the invocation,
		// vm.GlobalNames() after it, the name a Call fetched its function under
		modelPre, modelPost, modelSpecs, modelNames, modelTarget, modelSpecNames := c07List(m[18]), c07List(m[19]), c07List(m[20]), c07List(m[21]), m[22], m[23]
		if got, want := strings.Join(obs.PreGots, ";"), strings.Join(modelPre, ";"); got != want {
			e.R.Mismatch(tag, got, want, "vm.Get before the invocation, names "+c07Toks(v.LkPre))
		}
		if got, want := strings.Join(obs.PostGots, ";"), strings.Join(modelPost, ";"); got != want {
			e.R.Mismatch(tag, got, want, "vm.Get after the invocation, names "+c07Toks(v.LkPost))
		}
		if got, want := strings.Join(obs.Names, ";"), strings.Join(modelNames, ";"); got != want {
			e.R.Mismatch(tag, got, want, "vm.GlobalNames() after the invocation (the active code's symbol table in slot order)")
		}
		if v.Kind == "call" && obs.CallName != "" && obs.CallName != modelTarget {
			e.R.Mismatch(tag, obs.CallName, modelTarget, "the name under which the host fetches the function it calls")
		}
		e.R.H("names_looked_up", fmt.Sprintf("before=%d after=%d", c07Min(len(v.LkPre), 4), c07Min(len(v.LkPost), 4)))
		if v.Kind != "run" {
			e.R.H("code_object_layout_global_names", map[bool]string{true: "the host's names", false: "another set (aaa added and/or modhook, hostmod left out)"}[v.Lay.HSet == 0])
			e.R.H("code_object_layout_definitions", "fillers="+strconv.Itoa(v.Lay.Fills)+" act-before-over="+strconv.Itoa(c07B(v.Lay.Swap))+" variables-before-who="+strconv.Itoa(v.Lay.Pads))
		}
		if k > 0 && v.Kind != "run" && h[k-1].Kind != "run" {
			e.R.H("layout_vs_previous_code_object", map[bool]string{true: "same", false: "different"}[v.Lay == h[k-1].Lay])
		}
		lookFinding := ""
		if modelLost && strings.Join(obs.PostGots, ";") == strings.Join(modelPost, ";") {
			lookFinding = c07FindingLost
		}
		if len(modelSpecs) == len(v.LkPost) && len(obs.PostGots) == len(v.LkPost) && len(x.ref.Gots) == len(v.LkPost) {
			preAns := map[string]string{}
			for i, t := range v.LkPre {
				if i < len(obs.PreGots) {
					preAns[t] = obs.PreGots[i]
				}
			}
			for i, t := range v.LkPost {
				if k > 0 {
					e.R.H("looked_up_name_slot_vs_previously_active_code", c07SlotMove(runs[k-1].obs.Names, obs.Names, t))
				}
				if modelSpecs[i] == "~" {
					// the property demands nothing by itself; a Call of a function of the code an
					// earlier invocation loaded must leave every name as it was
					if before, asked := preAns[t]; asked && v.Kind == "call" && before != obs.PostGots[i] {
						e.R.Spec(key, fmt.Sprintf("invocation %d (%s): vm.Get(%q) answered %s before the Call and %s after it", k, v.String(), c07TokName(t), before, obs.PostGots[i]), "")
					}
					continue
				}
				// Lean Spec vs the real fresh VM
				if x.ref.Gots[i] != modelSpecs[i] {
					e.R.Mismatch(tag+" (fresh VM)", x.ref.Gots[i], modelSpecs[i], "Lean Spec vs vm.Get("+c07TokName(t)+") after the invocation on a fresh VM")
				}
				// Code vs Spec
				if obs.PostGots[i] != x.ref.Gots[i] {
					e.R.Spec(key, fmt.Sprintf("after invocation %d (%s) on the reused VM vm.Get(%q) answers %s; after the same invocation on a fresh VM it answers %s", k, v.String(), c07TokName(t), obs.PostGots[i], x.ref.Gots[i]), lookFinding)
					e.R.H("spec_violation_shape", v.Kind+"/lookup "+t)
				}
			}
		}
		if modelSpecNames != "~" {
			if got := strings.Join(x.ref.Names, ";"); got != strings.Join(c07List(modelSpecNames), ";") {
				e.R.Mismatch(tag+" (fresh VM)", got, modelSpecNames, "Lean Spec vs vm.GlobalNames() after the invocation on a fresh VM")
			}
			if got, want := strings.Join(obs.Names, ";"), strings.Join(x.ref.Names, ";"); got != want {
				e.R.Spec(key, fmt.Sprintf("after invocation %d (%s) on the reused VM vm.GlobalNames() = %s; after the same invocation on a fresh VM = %s", k, v.String(), got, want), "")
			}
		}
		if obs.Outcome != ref {
			finding := ""
			if modelLost && obs.Outcome == m[0] {
				finding = c07FindingLost
			} else if modelStale && obs.Outcome == m[0] {
				finding = c07Finding
			} else if modelImportFails && obs.Outcome == m[0] {
				finding = c07FindingImport
			}
			what := ""
			if obs.Dead {
				what = " [its context was already cancelled when it started]"
			}
			if v.Kind == "runcode" && obs.Gen > 0 {
				what += fmt.Sprintf(" [its code object contains %d snippet(s) compiled into it after it was first run]", obs.Gen)
			}
			e.R.Spec(key, fmt.Sprintf("invocation %d (%s) on the reused VM gave %s; the same invocation on a fresh VM with the same globals, code and context gives %s%s", k, v.String(), obs.Outcome, ref, what), finding)
			e.R.H("spec_violation_shape", v.Kind+"/"+v.Beh+" -> "+c07OutcomeClass(obs.Outcome))
		}
		r.last = obs.Outcome
		// the host global: exactly the appends of the invocations that reached their leaf
		wantAcc := accBefore
		if wantHook == 1 {
			wantAcc += v.Bump
		}
		items := x.accAfter
		accOK := len(items) == wantAcc
		for i := accBefore; accOK && i < wantAcc; i++ {
			n, isInt := items[i].(*object.Int)
			accOK = isInt && n.Value() == int64(v.V)
		}
		if !accOK {
			e.R.Mismatch(tag, fmt.Sprintf("len(acc)=%d", len(items)), fmt.Sprintf("len(acc)=%d, the new items = %d", wantAcc, v.V), "host global after the invocation (appends happen iff the leaf is reached)")
		}
	}
}

// c07List splits a `;`-joined list of the oracle (`-` = empty)
func c07List(s string) []string {
	if s == "-" || s == "" {
		return nil
	}
	return strings.Split(s, ";")
}

// c07SlotMove: where a looked-up name lives in the active code's table, against the table of the
// code that was active after the previous invocation
func c07SlotMove(prev, now []string, tok string) string {
	idx := func(xs []string) int {
		for i, x := range xs {
			if x == tok {
				return i
			}
		}
		return -1
	}
	a, b := idx(prev), idx(now)
	switch {
	case a < 0 && b < 0:
		return "in neither table"
	case a < 0:
		return "new name"
	case b < 0:
		return "name gone"
	case a == b:
		return "same slot"
	}
	return "MOVED to another slot"
}

func c07Min(a, b int) int {
	if a < b {
		return a
	}
	return b
}

func c07OutcomeClass(o string) string {
	if strings.HasPrefix(o, "ok=") {
		if o == "ok=hook" {
			return "cut-short-success"
		}
		if strings.HasPrefix(o, "ok=?") || strings.HasPrefix(o, "ok=<") {
			return "odd-value"
		}
		return "value"
	}
	return strings.TrimPrefix(o, "err=")
}

func (r *c07Runner) lastOutcome(h []c07Inv, k int) string { return r.last }

var c07Kinds = []string{"run", "runcode", "call"}

// (import hostmod, import fmod, ending inside fmod's top-level code)
var c07ImpVariants = [][3]bool{{false, false, false}, {true, false, false}, {false, true, false}, {false, true, true}}
var c07Behs = []string{"normal", "err", "panic", "overflow", "selfcancel"}

// placements of earlier-context cancellation for invocation k: none, or one earlier
// context cancelled before the invocation starts, or one cancelled while it runs
func c07Placements(k int) [][2][]int {
	out := [][2][]int{{nil, nil}}
	for i := 0; i < k; i++ {
		out = append(out, [2][]int{{i}, nil})
		out = append(out, [2][]int{nil, {i}})
	}
	return out
}

// c07RandLay: a layout of a code object's globals; mostly small differences, so that the tables of
// consecutive code objects overlap in length and a name's slot in one is a valid slot of the other
func c07RandLay(rng *RNG) c07Lay {
	l := c07Lay{Fills: rng.Intn(3), Swap: rng.Chance(50), Pads: rng.Intn(4)}
	if rng.Chance(35) {
		l.HSet = 1 + rng.Intn(7)
	}
	return l
}

func (r *c07Runner) randInv(k int, rng *RNG) c07Inv {
	v := c07Inv{Kind: Pick(rng, c07Kinds), Beh: Pick(rng, c07Behs)}
	v.Depth = Pick(rng, []int{0, 0, 1, 2, 3, 7, 40})
	v.Pend = rng.Intn(3)
	v.V = 1 + rng.Intn(98)
	v.Bump = rng.Intn(3)
	v.Bg = rng.Chance(15)
	v.Imp = rng.Chance(20)
	if rng.Chance(35) {
		v.FImp = true
		v.MFail = rng.Chance(60)
	}
	if rng.Chance(65) {
		v.Lay = c07RandLay(rng)
	}
	if k > 0 && rng.Chance(40) {
		// re-supply the code object of an earlier invocation (c07Canon drops impossible choices)
		v.Kind = "runcode"
		v.Same = 1 + rng.Intn(k)
	}
	if c07MaxPend > 0 && rng.Chance(8) {
		v.Pend = c07MaxPend
	}
	// context objects with an identity: two named contexts shared by whoever names them, or
	// the context of an earlier invocation; cancelled before the start (also the own one, also
	// before its first use) or during other invocations
	if rng.Chance(45) {
		switch rng.Intn(3) {
		case 0:
			v.Ctx = 1 + 100
		case 1:
			v.Ctx = 1 + 101
		default:
			if k > 0 {
				v.Ctx = 1 + rng.Intn(k)
			}
		}
	}
	if rng.Chance(18) {
		v.Pre = append(v.Pre, v.ctxID(k))
	}
	for _, c := range []int{100, 101} {
		switch rng.Intn(12) {
		case 0:
			v.Pre = append(v.Pre, c)
		case 1:
			v.During = append(v.During, c)
		}
	}
	// the host compiles further snippets into code objects that exist
	for i := 0; i < k; i++ {
		if rng.Chance(25) {
			v.Grows = append(v.Grows, i)
			if rng.Chance(30) {
				v.Grows = append(v.Grows, i)
			}
		}
	}
	if k > 0 {
		// cancellation of earlier contexts: any subset, mostly small
		for i := 0; i < k; i++ {
			switch rng.Intn(8) {
			case 0:
				v.Pre = append(v.Pre, i)
			case 1, 2:
				v.During = append(v.During, i)
			case 3:
				v.Pre = append(v.Pre, i)
				v.During = append(v.During, i)
			}
		}
	}
	return v
}

func c07_runC07(e *Env) {
	r := &c07Runner{e: e, refs: map[string]c07Ref{}}
	e.R.Rule = "case = one history (list of Run/RunCode/Call invocations with behaviour, depth, pending operands, global appends, context kind, the placements of cancel(ctx_i) of earlier contexts before/during each later invocation, which context OBJECT it is handed (its own, a named one shared with other invocations, the one of an earlier invocation - possibly cancelled mid-run earlier, while the VM was idle, or before its first use), whether RunCode re-supplies the *compiler.Code object of an earlier invocation (runcode@j) and which code objects the host has compiled further snippets into before the invocation (grows), whether the script imports a global module and/or a file module through the VM's importer and whether the run ends inside that module's top-level code (imp 2m/3m); pending operands = the measured maximum make the invocation a stack-headroom probe) ; the LAYOUT of the globals of the code object compiled for the invocation (lay: which global names it is compiled with, how many functions and variables are defined before act/over/who, in which order - so that ONE name lives in different slots of the code objects the VM runs one after the other; RunCode and the definitions a Call loads use the same names act/over/who/f<i>/g<i> in every code object) and the NAMES the host looks up with vm.Get before (lkpre) and after (lkpost) the invocation, besides the function every Call fetches by name) executed on ONE real VM; every invocation is compared with the Lean Impl model (outcome + sp, fp, halt, running, startCount, halt before start, fp at the leaf, len(vm.modules), leaf reached, module code executed, every answer of vm.Get - no active code / not found / unset slot / the host's own object / the function of which code object / the integer -, vm.GlobalNames() in slot order, the name a Call fetches) and with the same invocation on a fresh VM with the same globals and importer, a code object with the same CURRENT contents and a context in the same state (Spec: outcome, the answer to every look-up made after an invocation that loads code, vm.GlobalNames(); after a Call into code an earlier invocation loaded every name must resolve as before the Call); where the code leaves the order to the Go scheduler (the watcher of an already cancelled context) the run is held at its first instruction until the watcher has exited and the observed schedule is given to the model; after the history the result objects of all earlier successful invocations must still read as they did when returned (Spec), and the host global holds exactly the appends of the invocations that reached their leaf (Impl). SECOND FAMILY (data-globals ...): histories of RunCode invocations on a VM whose host globals `data`/`cfg` are plain Go data ([]any/map[string]any or []int64/map[string]int64, supplied at construction or with the first RunCode) converted by copy: each script updates its copy in place (append / decrement) before and after the point where it ends with a value, a runtime error at depth or a recovered panic, and each RunCode is handed no options, WithConcurrency only, or WithGlobals again (same or changed data); what the script read last, what vm.Get finds afterwards and the host's own Go data are compared with the Lean model (dRunCode) and with the same invocation on a fresh VM constructed with the host's current data (Spec dSpecAt); non-trivial = an earlier invocation updated its copy. THIRD FAMILY (kept-objects ...): histories of RunCode (of one of 1-3 code objects - the same again, another, one the host has compiled a further snippet into; ending with a value, a runtime error, or the panic of a fired foreign callback), vm.Get-and-keep of a function, a closure or a list, vm.Call of a kept object, vm.Get-then-Call, reads of kept lists; a callback is registered through the host builtin reg in every run and the host builtin fire calls a kept object from inside a running script; the functions read and write a global and append to a global list; every result and vm.Get(x)/vm.Get(items) afterwards are compared with the Lean model (kStep) and with a replay on a fresh VM of the invocations since the last RunCode in which kept functions of the loaded code are fetched again by name (Spec kSpecRes); non-trivial = an object made in an earlier load than the current one is called. distinct = canonical history text; non-trivial = length >= 2 and at least one abnormal ending, cancellation of a context, shared/named context, re-supplied or grown code object, file-module import, headroom probe, non-default layout or look-up by name"
	t0 := time.Now()
	defer func() {
		if c07ModDir != "" {
			os.RemoveAll(c07ModDir)
		}
	}()
	c07MaxPend = c07MeasureMaxPend()
	if c07MaxPend == 0 {
		e.R.Mismatch("stack headroom probe", "no bound found", "the probe script succeeds with 8 and fails with 2048 pending operands on a fresh VM", "measuring the operand-stack headroom of a fresh VM")
	}
	e.R.Note("stack headroom probe: %d pending operands fill the operand stack of a fresh VM", c07MaxPend)
	probe := func(same int) c07Inv { v := c07ProbeInv(c07MaxPend); v.Same = same; return v }

	// 0. the committed witness of the known finding, always first
	r.runHistory([]c07Inv{
		{Kind: "runcode", Beh: "normal", V: 2, Bump: 1},
		{Kind: "runcode", Beh: "normal", Depth: 2, Pend: 1, V: 3, Bump: 1, During: []int{0}},
	})

	r.runHistory([]c07Inv{
		{Kind: "runcode", Beh: "normal", V: 2, Bump: 1, Imp: true},
		{Kind: "runcode", Beh: "normal", V: 3, Bump: 1, Imp: true},
		{Kind: "runcode", Beh: "normal", V: 4, Bump: 1, Imp: true},
	})

	// 0D. host DATA globals converted by copy (c07data.go)
	c07RunData(e)

	// 0K. objects the host keeps across invocations (c07kept.go)
	c07RunKept(e)

	// 0a. the smallest history that re-supplies a code object: the probe, then the probe's own
	// *compiler.Code again
	if c07MaxPend > 0 {
		r.runHistory([]c07Inv{probe(0), probe(1)})
	}

	// 0d. stack headroom after every kind of invocation: X; probe / probe; X; the probe's own
	// code object again / X; probe; the probe's object again.  0e. a file module whose
	// top-level code was left in every possible way (X), then imported by Call / Run / RunCode
	for _, kind := range c07Kinds {
		for _, beh := range c07Behs {
			for _, iv := range c07ImpVariants {
				x := c07Inv{Kind: kind, Beh: beh, Depth: 2, Pend: 1, V: 5, Bump: 1, Imp: iv[0], FImp: iv[1], MFail: iv[2]}
				if c07MaxPend > 0 {
					r.runHistory([]c07Inv{x, probe(0)})
					r.runHistory([]c07Inv{probe(0), x, probe(1)})
					r.runHistory([]c07Inv{x, probe(0), probe(2)})
					x2 := x
					x2.Kind, x2.Same = "runcode", 1
					r.runHistory([]c07Inv{probe(0), x2, probe(1)})
				}
				if iv[1] {
					for _, k2 := range c07Kinds {
						for _, b2 := range []string{"normal", "err", "selfcancel"} {
							for _, mf := range []bool{false, true} {
								y := c07Inv{Kind: k2, Beh: b2, Depth: 1, V: 6, Bump: 1, FImp: true, MFail: mf}
								r.runHistory([]c07Inv{x, y})
								r.runHistory([]c07Inv{x, x, y, y})
							}
						}
					}
				}
			}
		}
	}

	// 0f. SHARED CONTEXT OBJECTS.  One context object c handed to several invocations; cancelled
	// in the middle of one of them (selfcancel), while the VM is idle (pre of the next), or
	// before its first use; then handed to later invocations of every kind and ending, which
	// must be stopped by it (fresh VM with that context: context.Canceled) - and a live shared
	// context must keep working (two watchers armed for it; both fire when it is cancelled).
	{
		const c = 1 + 100
		const d = 1 + 101
		laterBehs := []string{"normal", "err", "selfcancel"}
		for _, k1 := range c07Kinds {
			for _, k2 := range c07Kinds {
				for _, b2 := range laterBehs {
					y := c07Inv{Kind: k2, Beh: b2, Depth: 1, Pend: 1, V: 7, Bump: 1, Ctx: c}
					yPre := y
					yPre.Pre = []int{100}
					// cancelled mid-run, then handed in again (twice)
					x := c07Inv{Kind: k1, Beh: "selfcancel", Depth: 2, Pend: 1, V: 5, Bump: 1, Ctx: c}
					r.runHistory([]c07Inv{x, y})
					r.runHistory([]c07Inv{x, y, y})
					// used normally, cancelled while the VM is idle, then handed in again
					xn := x
					xn.Beh = "normal"
					r.runHistory([]c07Inv{xn, yPre})
					r.runHistory([]c07Inv{xn, yPre, y})
					// cancelled before its first use
					r.runHistory([]c07Inv{yPre})
					r.runHistory([]c07Inv{xn, c07Inv{Kind: k2, Beh: b2, Depth: 0, V: 8, Bump: 1, Ctx: d, Pre: []int{101}}, y})
					// an invocation with another context in between; the shared one is cancelled
					// during it (stale watcher: known finding) or before it
					mid := c07Inv{Kind: k2, Beh: "normal", Depth: 1, V: 6, Bump: 1, Ctx: d, Pre: []int{100}}
					r.runHistory([]c07Inv{xn, mid, y})
					// live and shared: both keep working; cancelling it mid-run stops that run
					r.runHistory([]c07Inv{xn, y, xn})
					// the context of an EARLIER invocation, handed in again by index
					z := y
					z.Ctx = 1 + 0
					own := c07Inv{Kind: k1, Beh: "selfcancel", Depth: 1, V: 5, Bump: 1}
					r.runHistory([]c07Inv{own, z})
					ownN := own
					ownN.Beh = "normal"
					z.Pre = []int{0}
					r.runHistory([]c07Inv{ownN, z, z})
				}
			}
		}
	}

	// 0g. GROWING CODE OBJECTS.  The host keeps the incremental compiler of a RunCode code object
	// and compiles further snippets into it between invocations; the object is re-supplied after
	// it grew - directly, after invocations of every kind and ending, several times - and must
	// run its CURRENT contents (fresh VM: a code object with the same contents).
	{
		base := c07Inv{Kind: "runcode", Beh: "normal", Depth: 1, Pend: 1, V: 3, Bump: 1}
		again := func(g int, beh string) c07Inv {
			v := c07Inv{Kind: "runcode", Beh: beh, Depth: 0, Pend: 1, V: 4, Bump: 1, Same: 1}
			for i := 0; i < g; i++ {
				v.Grows = append(v.Grows, 0)
			}
			return v
		}
		for _, b0 := range []string{"normal", "err", "panic", "selfcancel"} {
			b := base
			b.Beh = b0
			for _, b1 := range []string{"normal", "err", "selfcancel"} {
				r.runHistory([]c07Inv{b, again(1, b1)})
				r.runHistory([]c07Inv{b, again(2, b1), again(0, "normal")})
				r.runHistory([]c07Inv{b, again(1, b1), again(1, "normal"), again(1, "normal")})
				r.runHistory([]c07Inv{b, again(0, b1), again(1, "normal")})
			}
			for _, kind := range c07Kinds {
				for _, beh := range c07Behs {
					x := c07Inv{Kind: kind, Beh: beh, Depth: 2, Pend: 1, V: 5, Bump: 1}
					xg := x
					xg.Grows = []int{0}
					a := again(0, "normal")
					a.Same = 1
					a2 := again(1, "normal")
					r.runHistory([]c07Inv{b, xg, a})
					r.runHistory([]c07Inv{b, x, a2, x, a2})
				}
			}
		}
		// two growing objects, interleaved; a fresh object with the same first snippet in between
		o2 := c07Inv{Kind: "runcode", Beh: "normal", Pend: 0, V: 9, Bump: 0}
		r.runHistory([]c07Inv{base, o2,
			{Kind: "runcode", Beh: "normal", Pend: 1, V: 4, Same: 1, Grows: []int{0, 1}},
			{Kind: "runcode", Beh: "normal", Pend: 0, V: 4, Same: 2, Grows: []int{1}},
			{Kind: "runcode", Beh: "normal", Pend: 1, V: 4},
			{Kind: "call", Beh: "normal", V: 4, Grows: []int{0}},
			{Kind: "runcode", Beh: "normal", Pend: 1, V: 4, Same: 1}})
		// shared cancelled context AND grown code in one history
		r.runHistory([]c07Inv{
			{Kind: "runcode", Beh: "selfcancel", Pend: 1, V: 3, Bump: 1, Ctx: 1 + 100},
			{Kind: "runcode", Beh: "normal", Pend: 1, V: 4, Bump: 1, Same: 1, Grows: []int{0}, Ctx: 1 + 100},
			{Kind: "runcode", Beh: "normal", Pend: 1, V: 4, Bump: 1, Same: 1, Grows: []int{0}},
			{Kind: "run", Beh: "normal", Pend: 1, V: 4, Bump: 1, Ctx: 1 + 100},
			{Kind: "call", Beh: "normal", V: 4, Bump: 1},
			{Kind: "call", Beh: "normal", V: 4, Bump: 1, Ctx: 1 + 100}})
	}

	// 0h. NAMES MOVE BETWEEN CODE OBJECTS.  The code objects a reused VM runs one after the other
	// lay their globals out differently (host names rotated, more or fewer definitions before a
	// name, definitions in another order), so the SAME name - `act`, `over`, `who`, a host name -
	// lives in different slots; the host looks names up (vm.Get, vm.GlobalNames) before and after
	// every invocation and fetches the function of every Call by name (risor.Call = RunCode + Get +
	// Call).  Every answer must be the one a fresh VM gives after the same invocation.
	{
		lays := []c07Lay{{}, {Fills: 1}, {Swap: true}, {Fills: 2, Pads: 2}, {HSet: 1}, {HSet: 6, Fills: 1, Swap: true, Pads: 3}, {Pads: 1}}
		rc := func(l c07Lay, beh string, same int) c07Inv {
			return c07Inv{Kind: "runcode", Beh: beh, Depth: 1, Pend: 1, V: 5, Bump: 1, Lay: l, Same: same}
		}
		call := func(l c07Lay, beh string) c07Inv {
			return c07Inv{Kind: "call", Beh: beh, Depth: 1, V: 6, Bump: 1, Lay: l}
		}
		run := func(beh string) c07Inv { return c07Inv{Kind: "run", Beh: beh, Depth: 1, Pend: 1, V: 7, Bump: 1} }
		// look: 0 = the host asks for every name after every invocation, 1 = only before (and
		// for) the Calls, 2 = before and after, 3 = never (only the Calls fetch their function)
		withLooks := func(h []c07Inv, look int) []c07Inv {
			h = append([]c07Inv(nil), h...)
			for k := range h {
				u := c07Universe(h, k)
				if look == 0 || look == 2 {
					h[k].LkPost = u
				}
				if (look == 1 && h[k].Kind == "call") || (look == 2 && k > 0) {
					h[k].LkPre = u
				}
			}
			return h
		}
		for ai, a := range lays {
			for bi, b := range lays {
				if ai == bi {
					continue
				}
				for look := 0; look < 4; look++ {
					// risor.Call on a reused VM, twice, with two programs
					r.runHistory(withLooks([]c07Inv{rc(a, "normal", 0), call(a, "normal"), rc(b, "normal", 0), call(b, "normal")}, look))
					// the definitions a Call loads, then another program, then a Call again
					r.runHistory(withLooks([]c07Inv{call(a, "normal"), rc(b, "normal", 0), call(a, "err"), call(a, "normal")}, look))
					// the REPL in between; the first object handed in again at the end
					r.runHistory(withLooks([]c07Inv{rc(a, "normal", 0), run("normal"), call(a, "normal"), rc(b, "normal", 0), call(b, "normal"), rc(a, "normal", 1), call(a, "normal")}, look))
				}
				// every ending of the first program, everything looked up
				for _, beh := range c07Behs {
					r.runHistory(withLooks([]c07Inv{rc(a, beh, 0), rc(b, "normal", 0), call(b, "normal")}, 0))
					r.runHistory(withLooks([]c07Inv{rc(a, "normal", 0), call(a, beh), rc(b, beh, 0), call(b, "normal"), run(beh), call(a, "normal")}, 2))
				}
			}
		}
	}

	// 0b. one long RunCode-only history (1100 invocations, cheap endings, pending operands):
	// storage that is not reset between runs shows up as exhaustion long before the end
	{
		long := make([]c07Inv, 1100)
		for k := range long {
			long[k] = c07Inv{Kind: "runcode", Beh: []string{"normal", "err", "panic", "normal"}[k%4], Depth: k % 3, Pend: (k / 4) % 3, V: 1 + k%7,
				Lay: c07Lay{Fills: k % 3, Swap: k%2 == 1, Pads: (k / 3) % 4, HSet: (k / 7) % 8}, LkPost: []string{"a0", "w", "x", "h2"}}
			if k > 0 && k%5 == 0 {
				long[k].Pre = []int{k - 1}
			}
		}
		r.runHistory(long)
	}

	// 0c. the same, ONE code object supplied 1100 times (the script reads its behaviour from
	// the host, so the object is run with normal, failing and panicking endings)
	{
		long := make([]c07Inv, 1100)
		for k := range long {
			long[k] = c07Inv{Kind: "runcode", Beh: []string{"normal", "err", "panic", "normal"}[k%4], Depth: k % 3, Pend: 1, V: 1 + k%7, LkPost: []string{"a0", "w"}}
			if k > 0 {
				long[k].Same = 1
			}
			if k > 0 && k%5 == 0 {
				long[k].Pre = []int{k - 1}
			}
		}
		r.runHistory(long)
	}

	// 1. exhaustive: all histories of length 1..L over kind x behaviour x placement of one
	// earlier-context cancellation; the remaining parameters vary with the position
	depthAt := []int{0, 2, 1, 3}
	pendAt := []int{0, 1, 2, 0}
	layAt := []c07Lay{{}, {Fills: 1, Pads: 1}, {HSet: 3, Swap: true}, {Fills: 2}}
	maxLen := 3
	var rec func(h []c07Inv, n int)
	rec = func(h []c07Inv, n int) {
		if len(h) == n {
			r.runHistory(append([]c07Inv(nil), h...))
			return
		}
		k := len(h)
		for _, kind := range c07Kinds {
			for _, beh := range c07Behs {
				for _, pl := range c07Placements(k) {
					for ivi, iv := range c07ImpVariants {
						if ivi > 0 && n == 3 && (beh == "overflow" || beh == "panic") {
							continue
						}
						if n == 3 {
							// length 3: the file-module variants with every triple of kinds and
							// endings but without cancellations of earlier contexts (those are
							// combined with the module at length <= 2 and in the sampled part)
							placed, fimp := len(pl[0]) > 0 || len(pl[1]) > 0, ivi >= 2
							for _, u := range h {
								placed = placed || len(u.Pre) > 0 || len(u.During) > 0
								fimp = fimp || u.FImp
							}
							if placed && fimp {
								continue
							}
						}
						v := c07Inv{Kind: kind, Beh: beh, Depth: depthAt[k], Pend: pendAt[k], V: 11 + 7*k, Bump: 1 + k%2, Imp: iv[0], FImp: iv[1], MFail: iv[2], Pre: pl[0], During: pl[1], Lay: layAt[k]}
						// the host asks for every name after every invocation, and before every later one
						v.LkPost = c07Universe(append(h, v), k)
						if k > 0 {
							v.LkPre = v.LkPost
						}
						rec(append(h, v), n)
						if kind == "runcode" && k > 0 && h[k-1].Kind == "runcode" && n < 3 {
							// the previous invocation's code object, supplied again
							v.Same = k
							rec(append(h, v), n)
						}
					}
				}
			}
		}
	}
	for n := 1; n <= maxLen; n++ {
		if n == 3 && e.Quick {
			break
		}
		rec(nil, n)
	}
	if e.Quick {
		// length 3: all kind x behaviour triples, placements sampled
		for _, k0 := range c07Kinds {
			for _, b0 := range c07Behs {
				for _, k1 := range c07Kinds {
					for _, b1 := range c07Behs {
						for _, k2 := range c07Kinds {
							for _, b2 := range c07Behs {
								h := []c07Inv{{Kind: k0, Beh: b0}, {Kind: k1, Beh: b1}, {Kind: k2, Beh: b2}}
								for k := range h {
									h[k].Depth, h[k].Pend, h[k].V, h[k].Bump = depthAt[k], pendAt[k], 11+7*k, 1+k%2
									h[k].Lay = c07RandLay(e.Rng)
									h[k].LkPost = c07Universe(h, k)
									if e.Rng.Chance(50) {
										h[k].LkPre = h[k].LkPost
									}
									pl := Pick(e.Rng, c07Placements(k))
									h[k].Pre, h[k].During = pl[0], pl[1]
									iv := c07ImpVariants[0]
									if e.Rng.Chance(50) {
										iv = Pick(e.Rng, c07ImpVariants[1:])
									}
									h[k].Imp, h[k].FImp, h[k].MFail = iv[0], iv[1], iv[2]
									if k > 0 && h[k].Kind == "runcode" && e.Rng.Chance(40) {
										h[k].Same = 1 + e.Rng.Intn(k)
									}
								}
								r.runHistory(h)
							}
						}
					}
				}
			}
		}
	}
	e.R.Note("exhaustive part done after %.1fs: %d histories, %d invocations, %d fresh-VM reference runs", time.Since(t0).Seconds(), e.R.Evaluations, r.nInv, r.nRef)

	// 2. sampled histories of length 2..6 with random parameters, background contexts,
	// several cancellations per invocation
	n := 2500
	budget := 60 * time.Second
	if !e.Quick {
		n = 200000
		budget = 9 * time.Minute
	}
	t1 := time.Now()
	done := 0
	for i := 0; i < n && time.Since(t1) < budget; i++ {
		rng := e.Rng.Fork()
		length := 2 + rng.Intn(5)
		if e.Quick {
			length = 2 + rng.Intn(3)
			if rng.Chance(20) {
				length = 5 + rng.Intn(2)
			}
		}
		h := make([]c07Inv, length)
		for k := range h {
			h[k] = r.randInv(k, rng)
		}
		// which names the host looks up, before and after each invocation: everything, a few, nothing
		for k := range h {
			u := c07Universe(h, k)
			pick := func() []string {
				switch rng.Intn(4) {
				case 0:
					return nil
				case 1:
					var out []string
					for _, t := range u {
						if rng.Chance(25) {
							out = append(out, t)
						}
					}
					return out
				}
				return u
			}
			h[k].LkPost = pick()
			if rng.Chance(40) {
				h[k].LkPre = pick()
			}
		}
		r.runHistory(h)
		done++
	}
	e.R.Note("sampled part: %d histories in %.1fs (time bound is a budget, not a verdict)", done, time.Since(t1).Seconds())
	e.R.Exhaustive = false
}
