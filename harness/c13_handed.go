package main

// C13 — the rooted local filesystem used OVER TIME, with the host paths it hands out itself
// coming back as arguments.
//
// localfs.MkdirTemp returns, localfs.WalkDir reports to its callback, and the files returned by
// Create/Open/OpenFile name HOST paths (<base>/t-123, <base>/a/in.txt).  The base directory is
// therefore no secret, and a caller can build later arguments from such a path: append
// "/../..", a sibling's name, anything.  A session here is a sequence of calls on ONE
// filesystem over a real directory tree (inside the driver's read-only mount namespace only);
// each argument is
//
//   * a host path handed out earlier in the session with a suffix appended (mostly: exactly as
//     many ".." as it takes to reach the directory above the base, then the name of something
//     that lies there),
//   * a string built from the host base directory itself (<base>/../x, <base>X, <base>//./..),
//   * or an ordinary short path.
//
// A quarter of the calls go through a VirtualOS on which the filesystem is mounted at "/" (the
// way a script reaches it; VirtualOS.WalkDir reports the mounted filesystem's host paths).
//
// Impl: C13.lstep (oracle request `lstep`): which host paths the call gives to the Go os
// package and which it hands to the caller.  Code vs Impl: refusal (fs.ErrInvalid) exactly when
// the model refuses; what was read equals a direct read of the model's host path; whatever
// changed in the tree lies at the model's host paths; the paths handed out are the model's.
// Spec (on what the real code did): nothing outside the base directory is read, listed,
// identified or changed, no link inside the base leads out of it, and every host path handed
// to the caller lies under the base.

import (
	"context"
	"fmt"
	"io/fs"
	"os"
	"path/filepath"
	"sort"
	"strings"

	ros "github.com/risor-io/risor/os"
	"github.com/risor-io/risor/os/localfs"
)

type hArg struct {
	handed int    // index into the session's handed-out paths, -1 for a literal
	text   string // the literal, or the suffix
	kind   string // histogram key
}

func (a hArg) spec() string {
	if a.handed < 0 {
		return "L" + Hex(a.text)
	}
	return fmt.Sprintf("H%d:%s", a.handed, Hex(a.text))
}

type hOpDef struct {
	name  string
	kind  string // access | open | access2 | mkdirtemp | walk
	write bool
}

// name patterns for MkdirTemp: plain ones (any bytes but the separator; the digits go to the LAST
// '*', or to the end) and ones with path separators / '..' segments (at most one level up when
// taken raw)
var c13TempPatternsPlain = []string{"t", "t*", "*", "", "pre-*-suf", "a*b*c", "..*", ".*", "*..", "é*", "**", "x *y", "\\*"}
var c13TempPatternsSep = []string{"../esc-*", "../outdir/esc-*", "a/../../esc-*", "sub/t*", "a/t*", "/t*", "t*/", "./t*", "*/../../esc", "../*", "a/b/../../../outdir/e*", "..//esc*"}

var c13HandedOps = []hOpDef{
	{"Mkdir", "access", true}, {"MkdirAll", "access", true}, {"Stat", "access", false}, {"ReadFile", "access", false},
	{"ReadDir", "access", false}, {"Remove", "access", true}, {"RemoveAll", "access", true}, {"WriteFile", "access", true},
	{"Create", "open", true}, {"Open", "open", false}, {"OpenFile", "open", true},
	{"Rename", "access2", true}, {"Symlink", "access2", true},
	{"MkdirTemp", "mkdirtemp", true}, {"WalkDir", "walk", false},
}

type hTree struct {
	outer, base, systmp string
	outside             []string // host paths outside the base whose identity must never be answered for
}

func (t *hTree) build() {
	os.MkdirAll(filepath.Join(t.base, "a", "b"), 0o755)
	os.MkdirAll(t.systmp, 0o755)
	os.MkdirAll(filepath.Join(t.outer, "outdir"), 0o755)
	os.WriteFile(filepath.Join(t.outer, "sentinel.txt"), []byte("SECRET-OUTSIDE"), 0o644)
	os.WriteFile(filepath.Join(t.outer, "a"), []byte("SECRET-OUTSIDE-A"), 0o644)
	os.WriteFile(filepath.Join(t.outer, "baseX"), []byte("SECRET-SIBLING"), 0o644)
	os.WriteFile(filepath.Join(t.outer, "outdir", "deep.txt"), []byte("SECRET-DEEP"), 0o644)
	os.WriteFile(filepath.Join(t.base, "a", "in.txt"), []byte("inside"), 0o644)
	os.WriteFile(filepath.Join(t.base, "top.txt"), []byte("inside-top"), 0o644)
}

func (t *hTree) rebuild() {
	es, _ := os.ReadDir(t.outer)
	for _, d := range es {
		os.RemoveAll(filepath.Join(t.outer, d.Name()))
	}
	os.MkdirAll(t.outer, 0o755)
	t.build()
}

func (t *hTree) insideBase(p string) bool { return p == t.base || strings.HasPrefix(p, t.base+"/") }

// hSnapshot records the whole tree below outer (the base included).
func hSnapshot(root string) snap {
	s := snap{}
	filepath.WalkDir(root, func(p string, d fs.DirEntry, err error) error {
		if err != nil {
			return nil
		}
		if d.Type()&fs.ModeSymlink != 0 {
			t, _ := os.Readlink(p)
			s[p] = "link:" + t
		} else if d.IsDir() {
			s[p] = "dir"
		} else {
			b, _ := os.ReadFile(p)
			s[p] = "file:" + string(b)
		}
		return nil
	})
	return s
}

type hChange struct{ verb, path string }

func hDiff(a, b snap) []hChange {
	var out []hChange
	for k, v := range a {
		if w, ok := b[k]; !ok {
			out = append(out, hChange{"removed", k})
		} else if w != v {
			out = append(out, hChange{"changed", k})
		}
	}
	for k := range b {
		if _, ok := a[k]; !ok {
			out = append(out, hChange{"added", k})
		}
	}
	sort.Slice(out, func(i, j int) bool { return out[i].path < out[j].path })
	return out
}

// hCanon resolves the symbolic links of the longest existing prefix of p.
func hCanon(p string) string {
	rest, cur := "", p
	for {
		if r, err := filepath.EvalSymlinks(cur); err == nil {
			return filepath.Join(r, rest)
		}
		d := filepath.Dir(cur)
		if d == cur {
			return p
		}
		rest = filepath.Join(filepath.Base(cur), rest)
		cur = d
	}
}

func hReach(c string, ts []string) bool {
	for _, t := range ts {
		if c == t || strings.HasPrefix(c, t+"/") || strings.HasPrefix(t, c+"/") {
			return true
		}
	}
	return false
}

func hInvalid(err error) bool {
	pe, ok := err.(*fs.PathError)
	return ok && pe.Err == fs.ErrInvalid
}

func hReadSome(f ros.File, err error) (string, error) {
	if err != nil {
		return "", err
	}
	defer f.Close()
	buf := make([]byte, 64)
	n, _ := f.Read(buf)
	return string(buf[:n]), nil
}

func hList(s string) []string {
	if s == "none" || s == "" {
		return nil
	}
	var out []string
	for _, h := range strings.Split(s, ",") {
		out = append(out, UnHex(h))
	}
	return out
}

func hHexList(xs []string) string {
	if len(xs) == 0 {
		return "none"
	}
	hs := make([]string, len(xs))
	for i, x := range xs {
		hs[i] = Hex(x)
	}
	return strings.Join(hs, ",")
}

func c13Handed(e *Env) {
	if !c13Jailed() {
		e.R.Note("localfs sessions with handed-out host paths were SKIPPED: the harness is not running inside the read-only mount namespace that ./check sets up")
		return
	}
	orig, _ := os.Getwd()
	defer os.Chdir(orig)
	rng := e.Rng.Fork()
	type spelling struct{ chdir, base string }
	spellings := []spelling{{"", ""}, {"base", "."}, {".", "base"}, {".", "./base/"}, {"base/a", "../../base"}}
	sessions, steps := 260, 12
	if !e.Quick {
		sessions, steps = 4000, 16
	}
	for i, sp := range spellings {
		n := sessions
		if i > 0 {
			n = sessions / 5
		}
		for s := 0; s < n; s++ {
			c13HandedSession(e, rng, sp.chdir, sp.base, steps)
			os.Chdir(orig)
		}
	}
}

func c13HandedSession(e *Env, rng *RNG, chdirTo, baseSpelling string, steps int) {
	outer, err := os.MkdirTemp("", "verif-c13h-")
	if err != nil {
		e.R.Note("cannot create temp tree: %v", err)
		return
	}
	if r, err := filepath.EvalSymlinks(outer); err == nil {
		outer = r
	}
	defer os.RemoveAll(outer)
	t := &hTree{outer: outer, base: filepath.Join(outer, "base"), systmp: filepath.Join(outer, "systmp")}
	t.outside = []string{outer, filepath.Join(outer, "sentinel.txt"), filepath.Join(outer, "a"), filepath.Join(outer, "baseX"),
		filepath.Join(outer, "outdir"), filepath.Join(outer, "outdir", "deep.txt"), t.systmp}
	t.build()
	oldTmp := os.Getenv("TMPDIR")
	os.Setenv("TMPDIR", t.systmp)
	defer os.Setenv("TMPDIR", oldTmp)

	// the working directory is always inside the temporary tree (for an absolute base it plays no
	// role as long as the filesystem is confined)
	given, stored, label, cwdAbs := t.base, t.base, "<tmp>/base", outer
	if baseSpelling != "" {
		cwdAbs = filepath.Join(outer, chdirTo)
		given, stored = baseSpelling, filepath.Clean(baseSpelling)
		label = fmt.Sprintf("%q (working directory <tmp>/%s)", baseSpelling, chdirTo)
	}
	if err := os.Chdir(cwdAbs); err != nil {
		e.R.Note("chdir: %v", err)
		return
	}
	lfs, err := localfs.New(context.Background(), localfs.WithBase(given))
	nb := e.O.Ask("C13", "newbase", Hex(given))
	if err != nil {
		if nb != "reject" {
			e.R.Mismatch("localfs.New base="+label, "rejected: "+err.Error(), nb, "localfs.New vs C13.newBase")
		}
		e.R.Case("handed-back localfs.New base="+label+" rejected", true)
		return
	}
	if nb != "ok\t"+Hex(stored) {
		e.R.Mismatch("localfs.New base="+label, "accepted", nb, "localfs.New vs C13.newBase")
		return
	}
	// the same filesystem behind a virtual OS (mounted at "/"): a script reaches it this way, and
	// VirtualOS.WalkDir reports the mounted filesystem's HOST paths to the script's callback
	vos := ros.NewVirtualOS(context.Background(), ros.WithMounts(map[string]*ros.Mount{"/": {Source: lfs, Target: "/", Type: "local"}}), ros.WithCwd("/"))
	abs := func(p string) string {
		if filepath.IsAbs(p) {
			return p
		}
		return filepath.Join(cwdAbs, p)
	}
	// the host path the RAW string names — what a filesystem that does not confine at all would
	// act on.  Calls that write are only made with strings that, even taken raw, stay inside the
	// temporary tree: whatever a change to risor does to confinement, this generator cannot
	// overwrite or remove anything else (the driver's mount namespace is the second line).
	rawOutside := func(p string) bool {
		h := filepath.Clean(abs(p))
		return h != outer && !strings.HasPrefix(h, outer+"/")
	}
	// the temporary tree's name is random: never part of a case key
	show := func(s string) string {
		return strings.ReplaceAll(strings.ReplaceAll(s, outer, "<tmp>"), strings.TrimPrefix(outer, "/"), "<tmp-without-leading-slash>")
	}

	var handed []string  // host paths handed out so far (real ones)
	var sources []string // how each was obtained, without the generated names
	var history []string
	before := hSnapshot(outer)

	for st := 0; st < steps; st++ {
		// ---- choose the operation and its arguments
		var op hOpDef
		if st == 0 || (len(handed) == 0 && rng.Chance(60)) {
			op = Pick(rng, []hOpDef{c13HandedOps[13], c13HandedOps[14], c13HandedOps[9], c13HandedOps[13]})
		} else {
			op = Pick(rng, c13HandedOps)
		}
		arg := func(first bool) hArg {
			r := rng.Intn(100)
			switch {
			case len(handed) > 0 && r < 50 && !(st == 0 && first):
				i := rng.Intn(len(handed))
				return hArg{i, c13ClimbSuffix(rng, t, abs(handed[i])), "handed-out path + suffix"}
			case r < 72 && st > 0:
				return hArg{-1, c13BaseLiteral(rng, t, stored), "literal built from the host base directory"}
			default:
				return hArg{-1, Pick(rng, []string{"", ".", "a", "a/in.txt", "a/b", "x", "new/dir", "../sentinel.txt", "/", "a/../x", "t", "lnk", "top.txt", "a/b/../in.txt", "/a"}), "ordinary literal"}
			}
		}
		a1 := arg(true)
		a2 := hArg{-1, "", ""}
		if op.kind == "access2" {
			a2 = arg(false)
		}
		conc := func(a hArg) string {
			if a.handed < 0 {
				return a.text
			}
			return handed[a.handed] + a.text
		}
		sym := func(a hArg) string {
			if a.handed < 0 {
				return fmt.Sprintf("%q", show(a.text))
			}
			return fmt.Sprintf("h%d+%q", a.handed, a.text)
		}
		p, q := conc(a1), conc(a2)
		if strings.ContainsRune(p, 0) || strings.ContainsRune(q, 0) {
			continue
		}
		if op.write && (rawOutside(p) || (op.kind == "access2" && rawOutside(q))) {
			op = c13HandedOps[2] // Stat
			e.R.H("handed_guard", "write replaced by Stat: the raw string names a host path outside the temporary tree")
		}
		// MkdirTemp's second string, the name PATTERN, is the one script-controlled string that is
		// not resolved: mostly plain patterns (with and without '*'), often patterns with path
		// separators and '..' segments (os.MkdirTemp refuses them: C13.tempName).  Taken raw and
		// joined to the directory such a pattern climbs at most one level (the pool), and the guard
		// keeps the result inside the temporary tree.
		pattern, patSep := "", false
		if op.kind == "mkdirtemp" {
			if rng.Chance(45) {
				pattern = Pick(rng, c13TempPatternsSep)
			} else {
				pattern = Pick(rng, c13TempPatternsPlain)
			}
			dirRaw := p
			if p == "" {
				dirRaw = stored
			}
			if rawOutside(filepath.Join(abs(dirRaw), pattern)) || rawOutside(filepath.Join(abs(stored), pattern)) {
				pattern = "t*"
				e.R.H("handed_guard", "pattern replaced by t*: joined raw it names a host path outside the temporary tree")
			}
			patSep = strings.ContainsRune(pattern, '/')
		}
		via := op.kind != "mkdirtemp" && rng.Chance(25)
		var tgt ros.FS = lfs
		call := op.name + "(" + sym(a1)
		if via {
			tgt = vos
			call = "VirtualOS{/ -> fs}." + call
		}
		if op.kind == "access2" {
			call += ", " + sym(a2)
		}
		if op.kind == "mkdirtemp" {
			call += fmt.Sprintf(", pattern %q", pattern)
		}
		call += ")"
		// the definitions of the handed-out paths the call refers to, and the last calls
		var defs []string
		for _, a := range []hArg{a1, a2} {
			if a.handed >= 0 {
				defs = append(defs, fmt.Sprintf("h%d=%s", a.handed, sources[a.handed]))
			}
		}
		tail := history
		if len(tail) > 3 {
			tail = tail[len(tail)-3:]
		}
		c := fmt.Sprintf("localfs session base=%s [%s] after [%s]: %s", label, strings.Join(defs, "; "), strings.Join(tail, "; "), call)
		history = append(history, call)

		// ---- the real call
		var out string
		var rerr error
		var newHanded []string
		var statInfo fs.FileInfo
		var entries []ros.DirEntry
		switch op.name {
		case "Mkdir":
			rerr = tgt.Mkdir(p, 0o755)
		case "MkdirAll":
			rerr = tgt.MkdirAll(p, 0o755)
		case "Stat":
			statInfo, rerr = tgt.Stat(p)
			if rerr == nil {
				out = statInfo.Name()
			}
		case "ReadFile":
			var b []byte
			b, rerr = tgt.ReadFile(p)
			out = string(b)
		case "ReadDir":
			entries, rerr = tgt.ReadDir(p)
			var names []string
			for _, d := range entries {
				names = append(names, d.Name())
			}
			out = strings.Join(names, ",")
		case "Remove":
			rerr = tgt.Remove(p)
		case "RemoveAll":
			rerr = tgt.RemoveAll(p)
		case "WriteFile":
			rerr = tgt.WriteFile(p, []byte("w"), 0o644)
		case "Create":
			var f ros.File
			f, rerr = tgt.Create(p)
			if rerr == nil {
				if of, ok := f.(*os.File); ok {
					newHanded = append(newHanded, of.Name())
				}
				f.Close()
			}
		case "Open", "OpenFile":
			var f ros.File
			if op.name == "Open" {
				f, rerr = tgt.Open(p)
			} else {
				f, rerr = tgt.OpenFile(p, os.O_RDWR|os.O_CREATE, 0o644)
			}
			if rerr == nil {
				if of, ok := f.(*os.File); ok {
					newHanded = append(newHanded, of.Name())
				}
			}
			out, _ = hReadSome(f, rerr)
		case "Rename":
			rerr = tgt.Rename(p, q)
		case "Symlink":
			rerr = tgt.Symlink(p, q)
		case "MkdirTemp":
			var res string
			res, rerr = lfs.MkdirTemp(p, pattern)
			if rerr == nil {
				newHanded = append(newHanded, res)
			}
		case "WalkDir":
			rerr = tgt.WalkDir(p, func(path string, d fs.DirEntry, err error) error {
				newHanded = append(newHanded, path)
				return nil
			})
			out = strings.Join(newHanded, ",")
		}
		after := hSnapshot(outer)
		changes := hDiff(before, after)

		e.R.Case(c, true)
		e.R.H("handed_op", op.name)
		e.R.H("handed_arg", a1.kind)
		if op.kind == "access2" {
			e.R.H("handed_arg", a2.kind)
		}

		// ---- the model.  Through the virtual OS the filesystem is handed the mount-relative path
		// of C13.findMount (mount table {"/"}, working directory "/").
		a1spec, a2spec0 := a1.spec(), a2.spec()
		if via {
			routed := func(path string) string {
				f := strings.Fields(strings.Split(e.O.Ask("C13", "mount", Hex("/"), Hex(path), Hex("/")), "\t")[0])
				if len(f) != 3 {
					return ""
				}
				return "L" + f[2]
			}
			a1spec = routed(p)
			if op.kind == "access2" {
				a2spec0 = routed(q)
			}
			if a1spec == "" || a2spec0 == "" {
				e.R.Mismatch(c, "-", "no mount", "C13.findMount found no mount for a path although \"/\" is mounted")
				before = after
				continue
			}
			e.R.H("handed_route", "through a VirtualOS mount")
		} else {
			e.R.H("handed_route", "directly")
		}
		extra := "x"
		kind := op.kind
		switch op.kind {
		case "mkdirtemp":
			// the model gets the caller's pattern and the digits the operating system generated
			// (C13.tempName puts them at the last '*', or at the end)
			kind = "mkdirtempp"
			rnd := "0"
			if patSep {
				e.R.H("handed_pattern", "with a path separator")
			} else {
				e.R.H("handed_pattern", "plain")
			}
			if rerr == nil && !patSep {
				pre, suf := pattern, ""
				if i := strings.LastIndexByte(pattern, '*'); i >= 0 {
					pre, suf = pattern[:i], pattern[i+1:]
				}
				name := filepath.Base(newHanded[0])
				if len(name) >= len(pre)+len(suf) && strings.HasPrefix(name, pre) && strings.HasSuffix(name, suf) {
					rnd = name[len(pre) : len(name)-len(suf)]
				} else {
					e.R.Mismatch(c, show(newHanded[0]), "a name made of the pattern's two parts around generated digits", "localfs.MkdirTemp: generated name vs C13.tempName")
				}
				digits := rnd != ""
				for _, ch := range rnd {
					if ch < '0' || ch > '9' {
						digits = false
					}
				}
				if !digits {
					e.R.Mismatch(c, fmt.Sprintf("generated part %q", rnd), "a non-empty string of decimal digits", "localfs.MkdirTemp: the generated part of the name is not what LOp.WF assumes")
					rnd = "0"
				}
			}
			extra = Hex(rnd)
		case "walk":
			// the entries below the model's host path, from a walk of our own
			r0 := strings.Split(e.O.Ask("C13", "lstep", Hex(stored), hHexList(handed), "access", a1spec, "x", "x"), "\t")
			var rels []string
			if len(r0) == 3 && r0[0] == "ok" {
				root := UnHex(strings.Split(r0[1], ",")[0])
				filepath.WalkDir(root, func(path string, d fs.DirEntry, err error) error {
					if path != root {
						rel, _ := filepath.Rel(root, path)
						rels = append(rels, rel)
					}
					return nil
				})
			}
			extra = hHexList(rels)
		}
		a2spec := "x"
		if op.kind == "access2" {
			a2spec = a2spec0
		}
		if op.kind == "mkdirtemp" {
			a2spec = Hex(pattern)
		}
		rep := strings.Split(e.O.Ask("C13", "lstep", Hex(stored), hHexList(handed), kind, a1spec, a2spec, extra), "\t")
		if len(rep) != 3 {
			e.R.Mismatch(c, "-", strings.Join(rep, " "), "oracle reply malformed")
			before = after
			continue
		}
		modelInvalid := rep[0] == "invalid"
		touched, modelHanded := hList(rep[1]), hList(rep[2])
		e.R.H("handed_model", rep[0])

		// ---- Code vs Impl
		if op.kind == "mkdirtemp" && patSep {
			// a pattern with a separator: the model refuses (C13.tempName = none); Go answers with
			// os.MkdirTemp's own error (not fs.ErrInvalid) or, for a bad directory, with fs.ErrInvalid
			if !modelInvalid {
				e.R.Mismatch(c, "-", rep[0], "C13.lstep accepted a MkdirTemp pattern with a path separator")
			}
			if rerr == nil {
				e.R.Mismatch(c, "succeeded: "+show(strings.Join(newHanded, ", ")), "refused: the pattern contains a path separator", "localfs.MkdirTemp: pattern with a path separator vs C13.tempName")
			}
		} else if modelInvalid != hInvalid(rerr) {
			e.R.Mismatch(c, fmt.Sprintf("err=%v", rerr), rep[0], "localfs: refusal with fs.ErrInvalid vs C13.localResolve")
		}
		if !modelInvalid {
			var reach []string
			for _, tp := range touched {
				a := abs(tp)
				reach = append(reach, a, hCanon(a))
			}
			// what changed lies at the model's host paths
			for _, ch := range changes {
				if !hReach(ch.path, reach) && !hReach(hCanon(ch.path), reach) {
					e.R.Mismatch(c, ch.verb+" "+show(ch.path), "touches "+show(strings.Join(touched, ", ")), "localfs: the call changed a host path other than the ones C13.lstep gives to the os package")
					break
				}
			}
			r0 := ""
			if len(touched) > 0 {
				r0 = touched[0]
			}
			// what was read is what a direct read of the model's host path gives
			switch op.name {
			case "Stat":
				fi2, err2 := os.Stat(r0)
				if (rerr == nil) != (err2 == nil) || (rerr == nil && !os.SameFile(statInfo, fi2)) {
					e.R.Mismatch(c, fmt.Sprintf("err=%v name=%q", rerr, out), fmt.Sprintf("os.Stat(%s): err=%v", show(r0), err2), "localfs.Stat vs a direct Stat of the model's host path")
				}
			case "ReadFile":
				b2, err2 := os.ReadFile(r0)
				if (rerr == nil) != (err2 == nil) || out != string(b2) {
					e.R.Mismatch(c, fmt.Sprintf("err=%v data=%q", rerr, out), fmt.Sprintf("os.ReadFile(%s): err=%v data=%q", show(r0), err2, b2), "localfs.ReadFile vs a direct read of the model's host path")
				}
			case "ReadDir":
				es2, err2 := os.ReadDir(r0)
				var names []string
				for _, d := range es2 {
					names = append(names, d.Name())
				}
				if (rerr == nil) != (err2 == nil) || out != strings.Join(names, ",") {
					e.R.Mismatch(c, fmt.Sprintf("err=%v names=%q", rerr, out), fmt.Sprintf("os.ReadDir(%s): err=%v names=%q", show(r0), err2, strings.Join(names, ",")), "localfs.ReadDir vs a direct listing of the model's host path")
				}
			case "Open":
				out2, err2 := hReadSome(os.Open(r0))
				if (rerr == nil) != (err2 == nil) || out != out2 {
					e.R.Mismatch(c, fmt.Sprintf("err=%v data=%q", rerr, out), fmt.Sprintf("os.Open(%s): err=%v data=%q", show(r0), err2, out2), "localfs.Open vs a direct open of the model's host path")
				}
			}
			// positive effects of successful writes
			if rerr == nil {
				bad := ""
				switch op.name {
				case "WriteFile":
					if b, err := os.ReadFile(r0); err != nil || string(b) != "w" {
						bad = "the written data is not at the model's host path"
					}
				case "Mkdir", "MkdirAll":
					if fi, err := os.Stat(r0); err != nil || !fi.IsDir() {
						bad = "no directory at the model's host path"
					}
				case "Create", "OpenFile":
					if _, err := os.Stat(r0); err != nil {
						bad = "no file at the model's host path"
					}
				case "Remove", "RemoveAll":
					if _, err := os.Lstat(r0); err == nil && op.name == "Remove" {
						bad = "the model's host path still exists"
					}
				case "Symlink":
					if len(touched) == 2 {
						if l, err := os.Readlink(touched[1]); err != nil || l != touched[0] {
							bad = fmt.Sprintf("the link at the model's second host path reads %q, the model's first host path is %q", show(l), show(touched[0]))
						}
					}
				case "Rename":
					if len(touched) == 2 && touched[0] != touched[1] {
						if _, err := os.Lstat(touched[1]); err != nil {
							bad = "nothing at the model's second host path"
						}
					}
				}
				if bad != "" {
					e.R.Mismatch(c, "succeeded", "touches "+show(strings.Join(touched, ", ")), "localfs."+op.name+": "+bad)
				}
			}
			// the host paths handed to the caller
			if rerr == nil && (op.kind == "open" || op.kind == "mkdirtemp" || op.kind == "walk") {
				if strings.Join(newHanded, "\x00") != strings.Join(modelHanded, "\x00") {
					e.R.Mismatch(c, show(strings.Join(newHanded, ", ")), show(strings.Join(modelHanded, ", ")), "localfs."+op.name+": host paths handed to the caller vs C13.lstep")
				}
			}
		} else if len(changes) > 0 {
			e.R.Mismatch(c, changes[0].verb+" "+show(changes[0].path), "invalid: nothing is touched", "localfs: a call the model refuses changed the tree")
		}

		// ---- Spec, on what the real code did
		if strings.Contains(out, "SECRET") {
			e.R.Spec(c, "read data from outside the base: "+show(out), "")
		}
		var outsideChanged []string
		for _, ch := range changes {
			if !t.insideBase(ch.path) {
				outsideChanged = append(outsideChanged, ch.verb+" "+show(ch.path))
			}
		}
		if len(outsideChanged) > 0 {
			e.R.Spec(c, "host paths outside the base changed: "+strings.Join(outsideChanged, "; "), "")
		}
		for _, h := range newHanded {
			if !under(stored, h) || hasDotDotComp(h) || !t.insideBase(filepath.Clean(abs(h))) {
				e.R.Spec(c, fmt.Sprintf("%s handed the caller the host path %q, which is not under the base %q", op.name, show(h), show(stored)), "")
				break
			}
		}
		sameAsOutside := func(fi fs.FileInfo) string {
			for _, o := range t.outside {
				if fo, err := os.Stat(o); err == nil && os.SameFile(fi, fo) {
					return o
				}
			}
			return ""
		}
		if op.name == "Stat" && rerr == nil {
			if o := sameAsOutside(statInfo); o != "" {
				e.R.Spec(c, "Stat answered for a host file outside the base: "+show(o), "")
			}
		}
		if op.name == "ReadDir" && rerr == nil {
			for _, d := range entries {
				if fi, err := d.Info(); err == nil {
					if o := sameAsOutside(fi); o != "" {
						e.R.Spec(c, "ReadDir listed a host directory outside the base: it contains "+show(o), "")
						break
					}
				}
			}
		}
		if op.name == "Symlink" && rerr == nil {
			filepath.WalkDir(t.base, func(pth string, d fs.DirEntry, werr error) error {
				if werr != nil || d.Type()&fs.ModeSymlink == 0 {
					return nil
				}
				lt, _ := os.Readlink(pth)
				if !filepath.IsAbs(lt) {
					lt = filepath.Join(filepath.Dir(pth), lt)
				}
				lt = filepath.Clean(lt)
				if !t.insideBase(lt) {
					e.R.Spec(c, fmt.Sprintf("a symbolic link inside the base points outside it: %s -> %s", show(pth), show(lt)), "")
					os.Remove(pth)
				}
				return nil
			})
		}

		// ---- bookkeeping: remember what was handed out, keep the tree usable
		keepBelow := 0 // of a walk, the session remembers the root and one entry below it
		if op.kind == "walk" && len(newHanded) > 1 {
			keepBelow = 1 + (st+len(handed))%(len(newHanded)-1)
		}
		for i, h := range newHanded {
			if len(handed) >= 10 {
				break
			}
			if op.kind == "walk" && i > 0 && i != keepBelow {
				continue
			}
			src := call
			if op.kind == "walk" {
				src = fmt.Sprintf("%s[%d]", call, i)
			} else if op.kind == "open" {
				src = call + ".Name()"
			}
			handed = append(handed, h)
			sources = append(sources, src)
			e.R.H("handed_source", op.name)
		}
		if _, err := os.Stat(filepath.Join(t.base, "a")); err != nil || len(outsideChanged) > 0 {
			t.rebuild()
			os.Chdir(cwdAbs)
			after = hSnapshot(outer)
		}
		before = after
	}
}

// c13ClimbSuffix builds what a caller appends to a host path it was handed: mostly exactly as
// many ".." as it takes to reach the directory above the base (never more: the session must
// not be able to leave its own temporary tree even if confinement is broken), then the name of
// something that lies there; sometimes fewer, sometimes an ordinary continuation.
func c13ClimbSuffix(rng *RNG, t *hTree, handedAbs string) string {
	depth := 0
	if rel, err := filepath.Rel(t.outer, filepath.Clean(handedAbs)); err == nil && rel != "." && !strings.HasPrefix(rel, "..") {
		depth = len(strings.Split(rel, "/"))
	}
	k := depth
	switch r := rng.Intn(100); {
	case r < 45:
	case r < 65 && depth > 0:
		k = depth - 1 // the base's own level: base/…
	case r < 80:
		k = 0
	default:
		k = rng.Intn(depth + 1)
	}
	up := ".."
	if rng.Chance(15) {
		up = "./.."
	}
	if rng.Chance(10) {
		up = "/.."
	}
	s := ""
	for i := 0; i < k; i++ {
		s += "/" + up
	}
	var targets []string
	switch {
	case k == depth && depth > 0:
		targets = []string{"sentinel.txt", "a", "baseX", "outdir", "outdir/deep.txt", "systmp", "", "base/a/in.txt", "sentinel.txt/", "newfile"}
	case k == depth-1:
		targets = []string{"a/in.txt", "top.txt", "", "a", "x", "a/b"}
	default:
		targets = []string{"", "x", "in.txt", "b", "../in.txt", "."}
	}
	tg := Pick(rng, targets)
	if tg != "" {
		s += "/" + tg
	}
	if k == 0 && rng.Chance(15) {
		s = "X" // a sibling that shares the string prefix
	}
	if rng.Chance(8) {
		s = "/" + s
	}
	return s
}

// c13BaseLiteral builds a literal from the filesystem's own base directory, as the caller
// knows it from the paths it was handed.
func c13BaseLiteral(rng *RNG, t *hTree, stored string) string {
	b := stored
	tails := []string{"", "/", "/a/in.txt", "/../sentinel.txt", "/../baseX", "X", "/a/../../sentinel.txt", "/./../a", "//..//sentinel.txt",
		"/..", "/../outdir/deep.txt", "/top.txt", "/../base/top.txt", "/a/b/../../../outdir"}
	switch r := rng.Intn(100); {
	case r < 70:
		return b + Pick(rng, tails)
	case r < 80:
		return filepath.Join(t.outer, Pick(rng, []string{"sentinel.txt", "outdir", "a", ""}))
	case r < 90:
		return strings.TrimPrefix(b, "/") + Pick(rng, tails)
	default:
		return "/" + b + Pick(rng, tails)
	}
}
