package main

import (
	"fmt"
	"strconv"
	"time"
)

func init() {
	childCommands["dev-gen"] = func(args []string) {
		seed, n := uint64(1), 5
		if len(args) > 0 {
			seed, _ = strconv.ParseUint(args[0], 10, 64)
		}
		if len(args) > 1 {
			n, _ = strconv.Atoi(args[1])
		}
		r := NewRNG(seed)
		classes := map[string]int{}
		for i := 0; i < n; i++ {
			p := GenProgram(r.Fork(), GenOpts{MaxStmts: 4, MaxDepth: 3, Budget: 120, Funcs: true, Closures: true, Containers: true, Strings: true, CtlHeavy: i%2 == 0})
			src := Src(p)
			out := EvalSrc(src, 5*time.Second)
			classes[ErrClass(out.Err)]++
			if c := ErrClass(out.Err); (c == "panic" || c == "parse") && classes[c] <= 6 {
				msg := out.Err
				small := Shrink(p, func(q *N) bool { return EvalSrc(Src(q), 5*time.Second).Err == msg })
				fmt.Printf("===== shrunk %s: %s\n%s", c, msg, Src(small))
			}
			if n <= 10 || (out.Err != "" && classes[ErrClass(out.Err)] <= 2) {
				fmt.Printf("----- #%d size=%d ctlUnderOperands=%v\n%s=> %s | err=%s | out=%q\n", i, Size(p), CtlUnderOperands(p), src, out.Value, out.Err, out.Stdout)
			}
		}
		fmt.Println(classes)
	}
}
