package main

// C13 — TWO-PATH operations of the virtual OS (rename, symlink, and whatever other method of
// *VirtualOS takes two path strings; plus the script-level builtins os.rename / os.symlink /
// cp, the last of which is a read of one path and a write of the other) over NESTED and
// sibling mount layouts with recording filesystems behind them.  Both paths are drawn
// independently: absolute, relative to a working directory inside either mount, unclean.
//
// Impl: C13.twoPath (each argument looked up on its own, forwarded only when both lookups name
// the same mount).  Spec (evaluated on what the real code did): each path belongs to the mount
// whose mount point is its longest component-wise prefix (C13.specMount); an operation whose
// two paths belong to different mounts must not reach any filesystem; otherwise it reaches
// that mount's filesystem and only it, and each relative path it is handed is the path's own
// remainder below the mount point.

import (
	"context"
	"fmt"
	"path/filepath"
	"reflect"
	"sort"
	"strings"

	modos "github.com/risor-io/risor/modules/os"
	"github.com/risor-io/risor/object"
	ros "github.com/risor-io/risor/os"
)

// readableFS is a recording filesystem whose reads succeed (so that cp goes on to write).
// VirtualOS.ReadFile is Source.Open + io.ReadAll.
type readableFS struct{ recFS }

func (f readableFS) ReadFile(name string) ([]byte, error) {
	f.rec("readfile", name)
	return []byte("data"), nil
}

func (f readableFS) Open(name string) (ros.File, error) {
	f.rec("open", name)
	return ros.NewInMemoryFile([]byte("data")), nil
}

type twoOp struct {
	name string
	kind string // "same-mount": forwarded as ONE call with both paths; "copy": a read and a write
	call func(v *ros.VirtualOS, p, q string) error
}

// c13TwoPathOps finds the two-path operations: every exported method of *VirtualOS of type
// func(string, string) error whose arguments are paths (Setenv's are not), called through
// reflection so that a method added later is exercised without touching this file; plus the
// builtins of modules/os that take two paths.
func c13TwoPathOps(e *Env) []twoOp {
	var ops []twoOp
	t := reflect.TypeOf(&ros.VirtualOS{})
	strT := reflect.TypeOf("")
	errT := reflect.TypeOf((*error)(nil)).Elem()
	notPaths := map[string]bool{"Setenv": true}
	var names []string
	for i := 0; i < t.NumMethod(); i++ {
		m := t.Method(i)
		ft := m.Type
		if ft.NumIn() != 3 || ft.NumOut() != 1 || ft.In(1) != strT || ft.In(2) != strT || ft.Out(0) != errT || notPaths[m.Name] {
			continue
		}
		idx := i
		names = append(names, m.Name)
		ops = append(ops, twoOp{strings.ToLower(m.Name), "same-mount", func(v *ros.VirtualOS, p, q string) error {
			out := reflect.ValueOf(v).Method(idx).Call([]reflect.Value{reflect.ValueOf(p), reflect.ValueOf(q)})
			if err, ok := out[0].Interface().(error); ok {
				return err
			}
			return nil
		}})
	}
	builtin := func(f func(context.Context, ...object.Object) object.Object) func(v *ros.VirtualOS, p, q string) error {
		return func(v *ros.VirtualOS, p, q string) error {
			ctx := ros.WithOS(context.Background(), v)
			res := f(ctx, object.NewString(p), object.NewString(q))
			if er, ok := res.(*object.Error); ok {
				return er.Value()
			}
			return nil
		}
	}
	ops = append(ops,
		twoOp{"os.rename", "same-mount", builtin(modos.Rename)},
		twoOp{"os.symlink", "same-mount", builtin(modos.Symlink)},
		twoOp{"cp", "copy", builtin(modos.Copy)})
	sort.Strings(names)
	e.R.Note("two-path operations: methods of *VirtualOS with two path arguments found by reflection: %s; builtins os.rename, os.symlink, cp", strings.Join(names, ", "))
	return ops
}

// forwardedName is the name under which the recording filesystem logs the operation
func (o twoOp) forwardedName() string { return strings.TrimPrefix(o.name, "os.") }

var c13TwoLayouts = [][]string{
	// nested
	{"/", "/priv"},
	{"/data", "/data/private"},
	{"/a", "/a/b"},
	{"/", "/a", "/a/b"},
	{"/a", "/a/b", "/a/b/c"},
	{"/a/b", "/a"},
	{"/", "/a/b"},
	// siblings
	{"/a", "/b"},
	{"/a", "/ab"},
	{"/pub", "/priv"},
	// both
	{"/", "/a", "/b"},
	{"/m", "/m/n", "/x"},
	{"/a", "/b", "/a/b/a"},
	// a single mount (everything inside is same-mount, everything else is refused)
	{"/a"},
}

func c13GoComps(p string) []string {
	var out []string
	for _, s := range strings.Split(p, "/") {
		if s != "" {
			out = append(out, s)
		}
	}
	return out
}

// c13GoKey is the cleaned absolute form of a script-supplied path (Go library functions only)
func c13GoKey(cwd, p string) string {
	if !filepath.IsAbs(p) {
		p = filepath.Join(cwd, p)
	}
	return filepath.Clean(p)
}

// c13Faithful: the mount point's components followed by the relative path's are the path's own
func c13Faithful(mount, rel, cwd, p string) bool {
	a := append(append([]string{}, c13GoComps(mount)...), c13GoComps(rel)...)
	b := c13GoComps(c13GoKey(cwd, p))
	return strings.Join(a, "/") == strings.Join(b, "/") && len(a) == len(b)
}

// c13TwoPool builds the path pool of a layout and working directory: for every mount point,
// paths at, inside, just above and beside it — absolute, and spelled relative to the working
// directory — clean and unclean.
func c13TwoPool(layout []string, cwd string, rng *RNG, extra []string) []string {
	seen := map[string]bool{}
	var pool []string
	add := func(p string) {
		if !seen[p] {
			seen[p] = true
			pool = append(pool, p)
		}
	}
	ccwd := filepath.Clean(cwd)
	var absolute []string
	for _, t := range layout {
		j := func(s string) string {
			if t == "/" {
				return "/" + s
			}
			return t + "/" + s
		}
		base := filepath.Base(t)
		absolute = append(absolute, t, j("x"), j("d/y"))
		for _, p := range []string{t, t + "/", j("x"), j("x/"), j("d/y"), j("./x"), j("/x"), j("d/../x"), j("../x"),
			j("../" + base + "/x"), j(".."), j("x/../..")} {
			add(p)
		}
		if t != "/" {
			add(t + "x")       // a sibling that shares the string prefix
			add(t + "/../" + base) // up and back
		}
	}
	for _, a := range absolute {
		if r, err := filepath.Rel(ccwd, filepath.Clean(a)); err == nil {
			add(r)
			add("./" + r)
			add(r + "/")
			add("d/../" + r)
		}
	}
	for _, p := range []string{"", ".", "..", "x", "./x", "../x", "../../x", "d/y", "/zz/x", "/", "priv/moved.txt", "b/x", "a/b/x"} {
		add(p)
	}
	for _, p := range extra {
		add(p)
	}
	_ = rng
	return pool
}

func c13TwoPath(e *Env, paths []string) {
	rng := e.Rng.Fork()
	ops := c13TwoPathOps(e)
	layouts := append([][]string{}, c13TwoLayouts...)
	// seeded layouts: 2-4 mount points of depth 0-3 over a small component pool (mostly nested)
	nl := 6
	if !e.Quick {
		nl = 40
	}
	for i := 0; i < nl; i++ {
		set := map[string]bool{}
		var l []string
		n := 2 + rng.Intn(3)
		for len(l) < n {
			var t string
			if len(l) > 0 && rng.Chance(60) {
				t = Pick(rng, l)
				if t == "/" {
					t = ""
				}
				t += "/" + Pick(rng, []string{"a", "b", "priv", "a.."})
			} else {
				d := rng.Intn(3)
				for j := 0; j < d; j++ {
					t += "/" + Pick(rng, []string{"a", "b", "priv", "..a"})
				}
				if t == "" {
					t = "/"
				}
			}
			if !set[t] {
				set[t] = true
				l = append(l, t)
			}
		}
		layouts = append(layouts, l)
	}
	for li, layout := range layouts {
		var log []recEntry
		mounts := map[string]*ros.Mount{}
		hexMounts := make([]string, len(layout))
		for i, t := range layout {
			mounts[t] = &ros.Mount{Source: readableFS{recFS{name: t, log: &log}}, Target: t, Type: "rec"}
			hexMounts[i] = Hex(t)
		}
		msField := strings.Join(hexMounts, ",")
		nested := false
		for _, a := range layout {
			for _, b := range layout {
				if a != b && (a == "/" || strings.HasPrefix(b, a+"/")) {
					nested = true
				}
			}
		}
		kind := "sibling"
		if nested {
			kind = "nested"
		}
		if len(layout) == 1 {
			kind = "single"
		}
		// working directories: the root, every mount point, a directory inside every mount
		cwdSet := map[string]bool{}
		var cwds []string
		addCwd := func(c string) {
			if !cwdSet[c] {
				cwdSet[c] = true
				cwds = append(cwds, c)
			}
		}
		addCwd("/")
		for _, t := range layout {
			addCwd(t)
			if t == "/" {
				addCwd("/d")
			} else {
				addCwd(t + "/d")
			}
		}
		if last := layout[len(layout)-1]; last != "/" {
			addCwd(last + "/")
		}
		addCwd("/zz")
		for ci, cwd := range cwds {
			// a few paths of the exhaustive alphabet on top of the structured pool
			var extra []string
			for i := 0; i < 6; i++ {
				extra = append(extra, paths[rng.Intn(len(paths))])
			}
			pool := c13TwoPool(layout, cwd, rng, extra)
			vos := ros.NewVirtualOS(context.Background(), ros.WithMounts(mounts), ros.WithCwd(cwd))
			// quick: every ordered pair for the first working directories of the fixed layouts,
			// a seeded half of the pairs elsewhere
			keepPct := 100
			if e.Quick && (li >= len(c13TwoLayouts) || ci >= 3) {
				keepPct = 35
			}
			type tcase struct {
				p, q string
				op   twoOp
			}
			var cases []tcase
			for _, p := range pool {
				for _, q := range pool {
					if keepPct < 100 && !rng.Chance(keepPct) {
						continue
					}
					cases = append(cases, tcase{p, q, ops[rng.Intn(len(ops))]})
				}
			}
			reqs := make([]string, len(cases))
			for i, c := range cases {
				reqs[i] = "C13\tmount2\t" + Hex(cwd) + "\t" + Hex(c.p) + "\t" + Hex(c.q) + "\t" + msField
			}
			reps := e.O.AskBatch(reqs)
			for i, tc := range cases {
				log = log[:0]
				err := tc.op.call(vos, tc.p, tc.q)
				c := fmt.Sprintf("twopath mounts=%q cwd=%q op=%s path=%q path2=%q", layout, cwd, tc.op.name, tc.p, tc.q)
				e.R.Case(c, true)
				e.R.H("twopath_layout", kind)
				e.R.H("twopath_op", tc.op.name)
				f := strings.Split(reps[i], "\t")
				if len(f) != 5 {
					e.R.Mismatch(c, "-", reps[i], "oracle reply malformed")
					continue
				}
				impl, specTwo, spec1, spec2 := f[0], f[1], f[2], f[3]
				if f[4] == "true" {
					e.R.H("twopath_discriminating", "per-argument lookup differs from a lookup of the first argument only")
				}
				if tc.op.kind == "copy" {
					c13JudgeCopy(e, c, cwd, tc.p, tc.q, log, err, spec1, spec2, msField)
					continue
				}
				// what the real code did
				goImpl := "refused"
				if len(log) > 1 {
					e.R.Mismatch(c, fmt.Sprintf("%d filesystem calls", len(log)), "at most one", "a two-path operation reached filesystems more than once")
				}
				if len(log) > 0 {
					if len(log[0].paths) != 2 {
						e.R.Mismatch(c, fmt.Sprintf("%s with %d paths", log[0].op, len(log[0].paths)), "two paths", "two-path operation forwarded with a different arity")
						continue
					}
					goImpl = "some " + Hex(log[0].mount) + " " + Hex(log[0].paths[0]) + " " + Hex(log[0].paths[1])
					if log[0].op != tc.op.forwardedName() {
						e.R.Mismatch(c, log[0].op, tc.op.forwardedName(), "operation forwarded under a different name")
					}
				}
				want := impl
				if !strings.HasPrefix(impl, "some ") {
					want = "refused"
				}
				e.R.H("twopath_model", strings.SplitN(impl, " ", 2)[0])
				if goImpl != want {
					e.R.Mismatch(c, goImpl, impl, "VirtualOS two-path routing vs C13.twoPath")
				}
				if (len(log) == 0) != (err != nil) {
					e.R.Mismatch(c, fmt.Sprintf("forwarded=%v err=%v", len(log) > 0, err), "an error exactly when nothing is forwarded", "two-path operation: error value vs forwarding")
				}
				// Spec, on the Go result
				if len(log) > 0 {
					g := log[0]
					gm := "some " + Hex(g.mount)
					switch {
					case specTwo == "none":
						e.R.Spec(c, fmt.Sprintf("%s(%q, %q) was handed to the filesystem mounted at %q as (%q, %q), but the two paths do not belong to one mount: the first belongs to %s, the second to %s (longest component-wise mount prefix of each path) — the operation has to be refused",
							tc.op.name, tc.p, tc.q, g.mount, g.paths[0], g.paths[1], c13ShowSpec(spec1), c13ShowSpec(spec2)), "")
					case gm != specTwo:
						e.R.Spec(c, fmt.Sprintf("%s(%q, %q) was handed to the filesystem mounted at %q, but both paths belong to %s", tc.op.name, tc.p, tc.q, g.mount, c13ShowSpec(specTwo)), "")
					default:
						if !c13Faithful(g.mount, g.paths[0], cwd, tc.p) || !c13Faithful(g.mount, g.paths[1], cwd, tc.q) {
							e.R.Spec(c, fmt.Sprintf("%s(%q, %q) on mount %q was handed (%q, %q): not the paths' own remainders below the mount point (cleaned paths %q, %q)",
								tc.op.name, tc.p, tc.q, g.mount, g.paths[0], g.paths[1], c13GoKey(cwd, tc.p), c13GoKey(cwd, tc.q)), "")
						}
					}
				} else if specTwo != "none" {
					e.R.Spec(c, fmt.Sprintf("%s(%q, %q) was refused (%v) although both paths belong to %s", tc.op.name, tc.p, tc.q, err, c13ShowSpec(specTwo)), "")
				}
			}
		}
	}
}

func c13ShowSpec(s string) string {
	if strings.HasPrefix(s, "some ") {
		return fmt.Sprintf("mount %q", UnHex(strings.TrimPrefix(s, "some ")))
	}
	return "no mount"
}

// cp(src, dst) = ReadFile(src) then WriteFile(dst): each path is served by its own mount (the
// two may differ); nothing is written when the source lies under no mount.
func c13JudgeCopy(e *Env, c, cwd, p, q string, log []recEntry, err error, spec1, spec2, msField string) {
	r1 := strings.Split(e.O.Ask("C13", "mount", Hex(cwd), Hex(p), msField), "\t")
	r2 := strings.Split(e.O.Ask("C13", "mount", Hex(cwd), Hex(q), msField), "\t")
	if len(r1) != 3 || len(r2) != 3 {
		e.R.Mismatch(c, "-", strings.Join(append(r1, r2...), " "), "oracle reply malformed")
		return
	}
	var want []string
	if r1[0] != "none" {
		want = append(want, "open "+r1[0])
		if r2[0] != "none" {
			want = append(want, "writefile "+r2[0])
		}
	}
	var got []string
	for _, g := range log {
		if len(g.paths) != 1 {
			got = append(got, fmt.Sprintf("%s with %d paths", g.op, len(g.paths)))
			continue
		}
		got = append(got, g.op+" some "+Hex(g.mount)+" "+Hex(g.paths[0]))
	}
	if strings.Join(got, "; ") != strings.Join(want, "; ") {
		e.R.Mismatch(c, strings.Join(got, "; "), strings.Join(want, "; "), "cp: ReadFile(src) and WriteFile(dst) routing vs C13.findMount of each path")
	}
	// Spec on the Go result: every filesystem call is on the path's own mount with its own remainder
	for _, g := range log {
		if len(g.paths) != 1 {
			continue
		}
		path, spec := p, spec1
		if g.op == "writefile" {
			path, spec = q, spec2
		}
		if "some "+Hex(g.mount) != spec {
			e.R.Spec(c, fmt.Sprintf("cp(%q, %q): %s of %q was served by mount %q, the path belongs to %s", p, q, g.op, path, g.mount, c13ShowSpec(spec)), "")
		} else if !c13Faithful(g.mount, g.paths[0], cwd, path) {
			e.R.Spec(c, fmt.Sprintf("cp(%q, %q): %s on mount %q was handed %q, not the remainder of %q", p, q, g.op, g.mount, g.paths[0], c13GoKey(cwd, path)), "")
		}
	}
	if len(log) == 0 && spec1 != "none" {
		e.R.Spec(c, fmt.Sprintf("cp(%q, %q) read nothing (%v) although the source belongs to %s", p, q, err, c13ShowSpec(spec1)), "")
	}
}
