package main

// C04 — the conclusion of `check_sound` observed on the real VM.
//
// `check_sound` (Lean) says: if the verified checker accepts a certificate for a code object,
// then in EVERY execution the operand-stack height of a frame running that code, at offset pc,
// is cert[pc].  The theorem is about the VM model; this file re-establishes on every run that it
// describes vm.eval: every accepted program is executed by the real VM with the build-tag-guarded
// hook vm.VerifTrace, and at every instruction the real VM dispatches, in whatever frame, the
// real height (sp relative to the frame's height at entry) must equal the certificate's entry
// for that slot.  A changed stack effect of any opcode arm, a call that does not restore the
// caller's height, a jump landing elsewhere — each shows at the first instruction after it.

import (
	"fmt"
	"strconv"
	"strings"
	"time"

	"github.com/risor-io/risor/compiler"
	"github.com/risor-io/risor/op"
	"github.com/risor-io/risor/vm"
)

func c04Certs(e *Env, code *compiler.Code) map[string][]int {
	certs := map[string][]int{}
	for _, cc := range code.Flatten() {
		kind := "fn"
		if cc.IsRoot() {
			kind = "main"
		}
		rep := e.O.Ask("C04", "cert", kind, CodeText(cc))
		f := strings.Split(rep, "\t")
		if f[0] != "accept" || len(f) < 2 {
			return nil
		}
		var hs []int
		for _, x := range strings.Split(f[1], ",") {
			if x == "-" {
				hs = append(hs, -1)
			} else {
				v, _ := strconv.Atoi(x)
				hs = append(hs, v)
			}
		}
		certs[cc.ID()] = hs
	}
	return certs
}

// c04HeightsCheck runs an accepted program on the real VM and compares heights.
func c04HeightsCheck(e *Env, src string, code *compiler.Code, timeout time.Duration) {
	certs := c04Certs(e, code)
	if certs == nil {
		return
	}
	type ent struct {
		id     string
		ip, fp int
		op     op.Code
	}
	base := map[int]int{}
	var prev *ent
	mismatch := ""
	n, frames := 0, 0
	vm.VerifTrace = func(_ *vm.VirtualMachine, id string, ip int, opc op.Code, sp int, fp int) {
		if mismatch != "" {
			return
		}
		n++
		// a frame starts at slot 0 (the only other way to reach slot 0 is a backward jump in the same frame)
		if ip == 0 && !(prev != nil && prev.fp == fp && prev.id == id && prev.op == op.JumpBackward) {
			base[fp] = sp + 1
			frames++
		}
		cur := ent{id, ip, fp, opc}
		prev = &cur
		cert, ok := certs[id]
		b, okb := base[fp]
		if !ok || !okb {
			return // code that was not compiled from this source (none in generated programs)
		}
		h := sp + 1 - b
		want := -1
		if ip < len(cert) {
			want = cert[ip]
		}
		if want != h {
			mismatch = fmt.Sprintf("instruction #%d: code %s slot %d (%s) in frame %d: real height %d, certificate %d", n, id, ip, op.GetInfo(opc).Name, fp, h, want)
		}
	}
	out := EvalSrc(src, timeout)
	vm.VerifTrace = nil
	_ = out
	switch {
	case n == 0:
		e.R.H("real_heights", "not-run")
	case mismatch == "":
		e.R.H("real_heights", "agree")
		switch {
		case frames > 20:
			e.R.H("real_heights_frames", ">20")
		case frames > 1:
			e.R.H("real_heights_frames", "2-20")
		default:
			e.R.H("real_heights_frames", "1")
		}
	default:
		e.R.H("real_heights", "differ")
		e.R.Mismatch(src, mismatch, "accepted certificate (check_sound)", "real operand-stack height at a dispatched instruction vs the height the verified checker's certificate gives for that slot")
	}
}
