package main

// C01, proved fragment F7: strings and maps as data (lean/RisorModel/C01/Str*.lean).  The theorem
// `str_compile_correct` relates three Lean definitions: evalStr (reference semantics over a heap
// of map objects), compStr (functional compiler) and runStr (VM on the fragment's opcodes).  As
// c01seq.go does for F6, this file re-establishes on every run the links between those
// definitions and the code:
//
//   (A) compStr p, assembled          == bytecode of the real compiler        (and == Compile.lean)
//   (B) evalStr p                     == Sem.lean's runProg p                 (and == the real result)
//   (C) runStr (compStr p)            == VM.lean's runCodes (compileProg p)   (and == the real result)
//
// Map literals with two or more entries: compileMap ranges over a Go map, so the real compiler
// emits the entries in a random order (C05's finding C05-map-literal-order).  compStr is the SOURCE
// order.  For such programs the harness compiles the source again and again until the real
// compiler happens to emit the source order (histogram str_recompiles), compares THAT code object
// instruction for instruction and runs THAT code object (risor.EvalCode) for the result links.
// A program for which no compilation matches is a mismatch of link A.
// The oracle computes all Lean sides in one request (`C01 str run`), see StrOracle.lean.

import (
	"bytes"
	"context"
	"fmt"
	"strings"
	"time"

	"github.com/risor-io/risor"
	"github.com/risor-io/risor/compiler"
	ros "github.com/risor-io/risor/os"
)

const c01strDupFinding = "C01-map-literal-duplicate-key-first-wins"

// c01strEvalCode runs an already compiled code object as EvalSrc runs a source text.
func c01strEvalCode(code *compiler.Code, timeout time.Duration) (out EvalOut) {
	ctx, cancel := context.WithTimeout(context.Background(), timeout)
	defer cancel()
	buf := &bytes.Buffer{}
	vos := ros.NewVirtualOS(ctx, ros.WithStdout(&memFile{buf: buf}))
	defer func() {
		if r := recover(); r != nil {
			out.Panic = true
			out.Err = fmt.Sprintf("PANIC: %v", r)
		}
		out.Stdout = buf.String()
	}()
	res, err := risor.EvalCode(ctx, code, risor.WithOS(vos))
	if err != nil {
		out.Err = err.Error()
		return
	}
	out.Obj = res
	out.Value = res.Inspect()
	out.Type = string(res.Type())
	return
}

// c01strMulti: the number of map literals with two or more entries; dup: one of them repeats a key
func c01strMulti(p *N) (multi int, dup bool) {
	Walk(p, func(x *N, _ []*N) {
		if x.K == "map" && len(x.C) >= 4 {
			multi++
			seen := map[string]bool{}
			for i := 0; i+1 < len(x.C); i += 2 {
				if seen[x.C[i].S] {
					dup = true
				}
				seen[x.C[i].S] = true
			}
		}
	}, nil)
	return
}

var c01strGaveUp = 0

// c01strOne checks every link on one program; origin names the generator for the histograms.
// It returns false when the program is outside the fragment.
func c01strOne(e *Env, p *N, origin string) bool {
	src := c01seqSrc(p)
	rep := e.O.Ask("C01", "str", "run", Sexp(p), c01Globals)
	f := strings.Split(rep, "\t")
	if f[0] != "in" || len(f) != 12 {
		if f[0] != "out" {
			e.R.Mismatch(src, "-", rep, "C01 str run: malformed oracle reply")
		}
		return false
	}
	evalS, runS, stE, stR, asm, linkA, sem, vmm, topE, topSem, stVM := f[1], f[2], f[3], f[4], f[5], f[6], f[7], f[8], f[9], f[10], f[11]
	if evalS == "err:unsupported" {
		e.R.H("str_programs", origin+":unsupported-op")
		e.R.Note("F7 program with an operation the fragment's models do not cover (skipped, origin %s): %s", origin, src)
		return true
	}
	e.R.H("str_programs", origin)
	for k := range Kinds(p) {
		e.R.H("str_constructs", k)
	}
	oc := evalS
	if strings.HasPrefix(oc, "ok:(") {
		oc = strings.SplitN(strings.TrimPrefix(oc, "ok:("), " ", 2)[0]
		oc = "ok:" + strings.TrimSuffix(oc, ")")
	}
	e.R.H("str_outcome", oc)
	if evalS == "oof" || runS == "oof" {
		e.R.Note("F7 program exhausted the model's fuel (skipped): %s", src)
		return true
	}
	mis := func(goSide, model, what string) { e.R.Mismatch(src, goSide, model, "F7: "+what) }
	if evalS != runS || stE != stR {
		mis(evalS+" "+stE, runS+" "+stR, "evalStr vs runStr∘compStr (proved equal by str_compile_correct)")
	}
	// (A) bytecode; with multi-entry literals: the compilation in which the real compiler emitted the source order
	multi, dup := c01strMulti(p)
	var code *compiler.Code
	goCode := "fail"
	tries, limit := 0, 1
	if multi > 0 {
		limit = 4000
		if c01strGaveUp >= 3 {
			limit = 50 // something is wrong with every program: do not burn the time budget
		}
	}
	for tries < limit {
		tries++
		c, err := CompileSrc(src)
		if err != nil {
			goCode = "fail: " + err.Error()
			break
		}
		goCode = CodeExport(c)
		if goCode == asm {
			code = c
			break
		}
	}
	if multi > 0 {
		switch {
		case code == nil:
			e.R.H("str_recompiles", "never-source-order")
		case tries == 1:
			e.R.H("str_recompiles", "1")
		case tries <= 4:
			e.R.H("str_recompiles", "2-4")
		case tries <= 16:
			e.R.H("str_recompiles", "5-16")
		default:
			e.R.H("str_recompiles", "17+")
		}
	}
	if goCode != asm {
		if multi > 0 {
			c01strGaveUp++
			mis(goCode, asm, fmt.Sprintf("link A: compiler.Compile vs compStr (assembled): none of %d compilations emitted compStr's code (entries of multi-entry literals in source order)", tries))
		} else {
			mis(goCode, asm, "link A: compiler.Compile vs compStr (assembled), instruction for instruction")
		}
	}
	if linkA != "same" {
		mis(asm, linkA, "link A: compStr (assembled) vs Compile.lean's compileProg")
	}
	// the real pipeline: the whole of it (risor.Eval) without multi-entry literals, else the matched code object
	var out EvalOut
	switch {
	case multi == 0:
		out = EvalSrc(src, 5*time.Second)
	case code != nil:
		out = c01strEvalCode(code, 5*time.Second)
	default:
		return true // link A already reported
	}
	real := c01fragReal(out)
	if real == "err:context" {
		e.R.Note("real run timed out on an F7 program (skipped): %s", src)
		return true
	}
	if real != evalS {
		mis(real, evalS, "real VM vs evalStr (reference semantics of the fragment, deep value)")
	}
	if real != runS {
		mis(real, runS, "real VM vs runStr (compStr p) (deep value)")
	}
	// (B) reference semantics
	switch {
	case strings.HasPrefix(sem, "unsupported:"):
		e.R.H("str_links", "B:unsupported")
	case sem != evalS || topSem != topE:
		if dup && real == evalS {
			// Go agrees with the Impl models; the source-level rule (later duplicate wins, Sem.mkMapItems) differs
			e.R.H("str_links", "B:known-duplicate-key")
			e.R.Spec(src, "map literal with a duplicated key compiled in source order: BuildMap keeps the EARLIER entry (the pairs are popped from the top of the stack): the code gives "+real+" "+topE+", the source-level rule (later entry wins) "+sem+" "+topSem, c01strDupFinding)
		} else {
			mis(sem+" "+topSem, evalS+" "+topE, "link B: Sem.lean's runProg vs evalStr (outcome, top-level variables, deep)")
		}
	default:
		e.R.H("str_links", "B:checked")
	}
	// (C) VM model
	switch {
	case strings.HasPrefix(vmm, "unsupported:"):
		e.R.H("str_links", "C:unsupported")
	case vmm != runS || stVM != stR:
		if dup && real == runS {
			e.R.H("str_links", "C:known-duplicate-key") // VM.lean builds the literal's object with Sem's mkMapItems (later wins)
		} else {
			mis(vmm+" "+stVM, runS+" "+stR, "link C: VM.lean's runCodes on compileProg vs runStr on compStr (outcome, globals, deep)")
		}
	default:
		e.R.H("str_links", "C:checked")
	}
	return true
}

// ---------------------------------------------------------------- directed programs

func c01strDirected() []*N {
	I, S, id := nInt, nStr, nId
	M := func(xs ...*N) *N { return n("map", xs...) }
	ix := func(o, i *N) *N { return n("index", o, i) }
	set := func(op string, o, i, v *N) *N { return ns("setitem", op, o, i, v) }
	ex := func(x *N) *N { return n("expr", x) }
	prog := func(ss ...*N) *N { return n("prog", ss...) }
	in := func(a, b *N) *N { return n("in", a, b) }
	nin := func(a, b *N) *N { return n("notin", a, b) }
	ife := func(c *N, a, b *N) *N { return n("if", c, nBlock(ex(a)), nBlock(ex(b))) }
	cmp := func(op string) *N {
		return prog(nVar("s", nInfix("+", S("ab"), S("c"))), nVar("t", S("abd")), nVar("u", S("abc")),
			nVar("r", M(S("st"), nInfix(op, id("s"), id("t")), S("ts"), nInfix(op, id("t"), id("s")), S("su"), nInfix(op, id("s"), id("u")))), ex(id("r")))
	}
	ps := []*N{
		// strings: concatenation, the six comparisons, truthiness, type errors
		prog(nVar("s", nInfix("+", S("ab"), S("c"))), ex(ife(nInfix("<", id("s"), S("abd")), nInfix("+", id("s"), S("!")), S("no")))),
		cmp("=="), cmp("!="), cmp("<"), cmp("<="), cmp(">"), cmp(">="),
		prog(nVar("s", S("")), ex(ife(id("s"), S("t"), S("f")))),
		prog(nVar("s", S("é")), nVar("t", nInfix("+", id("s"), S("z"))), ex(nInfix("<", S("z"), id("t")))),
		prog(ex(nInfix("+", S("a"), I(1)))),
		prog(ex(nInfix("<", S("a"), I(1)))),
		prog(ex(nInfix("-", S("a"), S("b")))),
		prog(nVar("s", S("a")), nAssign("s", "+=", S("b")), nAssign("s", "+=", id("s")), ex(id("s"))),
		// map literals: sizes 0..5, source order, nested, values that fail
		prog(nVar("m", M()), ex(ife(id("m"), I(1), I(0)))),
		prog(nVar("m", M(S("a"), I(1))), ex(id("m"))),
		prog(nVar("m", M(S("b"), I(2), S("a"), I(1))), ex(id("m"))),
		prog(nVar("m", M(S("c"), I(3), S("a"), I(1), S("b"), S("x"))), ex(ix(id("m"), S("b")))),
		prog(nVar("m", M(S("e"), I(5), S("d"), I(4), S("c"), I(3), S("b"), I(2), S("a"), I(1))), ex(id("m"))),
		prog(nVar("m", M(S("a"), M(S("x"), I(1)), S("b"), M(S("y"), M()))), ex(ix(ix(id("m"), S("a")), S("x")))),
		prog(nVar("m", M(S("a"), nInfix("/", I(1), I(0)), S("b"), nInfix("+", S("x"), I(1)))), ex(id("m"))),
		prog(nVar("m", M(S("a"), nInfix("+", S("x"), I(1)), S("b"), nInfix("/", I(1), I(0)))), ex(id("m"))),
		// index read: present, missing (raised error), wrong key type, not a container
		prog(nVar("m", M(S("x"), I(1), S("y"), I(2))), ex(ix(id("m"), S("z")))),
		prog(nVar("m", M(S("x"), I(1))), ex(ix(id("m"), I(0)))),
		prog(nVar("m", M(S("x"), I(1))), ex(ix(id("m"), n("nil")))),
		prog(nVar("x", I(3)), ex(ix(id("x"), S("a")))),
		prog(nVar("m", M(S("x"), I(1))), nVar("k", nInfix("+", S(""), S("x"))), ex(ix(id("m"), id("k")))),
		// index assignment: new key, existing key, compound, missing key compound, wrong key type, aliasing
		prog(nVar("a", M(S("x"), I(1))), nVar("b", id("a")), set("=", id("b"), S("y"), I(2)), ex(nInfix("+", ix(id("a"), S("y")), ix(id("a"), S("x"))))),
		prog(nVar("a", M(S("x"), I(1))), nVar("b", id("a")), nVar("c", id("b")), set("=", id("c"), S("x"), I(7)), set("+=", id("a"), S("x"), I(1)), ex(ix(id("b"), S("x")))),
		prog(nVar("a", M(S("x"), I(1))), nVar("b", M(S("x"), I(1))), set("=", id("b"), S("x"), I(5)), ex(ix(id("a"), S("x")))),
		prog(nVar("m", M(S("k"), S("a"))), set("+=", id("m"), S("k"), S("b")), ex(id("m"))),
		prog(nVar("m", M(S("k"), I(1))), set("+=", id("m"), S("nope"), I(5)), ex(id("m"))),
		prog(nVar("m", M(S("k"), I(1))), set("=", id("m"), I(1), I(5)), ex(id("m"))),
		prog(nVar("x", I(1)), set("=", id("x"), S("k"), I(5)), ex(id("x"))),
		prog(nVar("o", M(S("in"), M(S("v"), I(1)))), nVar("i", ix(id("o"), S("in"))), set("=", id("i"), S("v"), I(2)), ex(id("o"))),
		prog(nVar("o", M()), set("=", id("o"), S("self"), I(1)), nVar("p", M(S("o"), id("o"))), set("=", id("o"), S("w"), I(3)), ex(id("p"))),
		// membership
		prog(nVar("m", M(S("x"), I(1))), ex(M(S("a"), in(S("x"), id("m")), S("b"), in(S("y"), id("m")), S("c"), nin(S("x"), id("m")), S("d"), nin(S("y"), id("m")), S("e"), in(I(1), id("m"))))),
		prog(nVar("x", I(1)), ex(in(S("a"), id("x")))),
		prog(nVar("x", I(1)), ex(nin(S("a"), id("x")))),
		prog(nVar("m", M()), n("for3", nVar("i", I(0)), nInfix("<", id("i"), I(3)), ns("postfix", "i ++"), nBlock(set("=", id("m"), S("k"), id("i")))),
			ex(nInfix("&&", in(S("k"), id("m")), nin(S("z"), id("m"))))),
		// equality, truthiness changing with writes
		prog(nVar("a", M(S("x"), I(1), S("y"), S("s"))), nVar("b", M(S("y"), S("s"), S("x"), I(1))), nVar("c", M(S("x"), I(1))),
			ex(M(S("ab"), nInfix("==", id("a"), id("b")), S("ac"), nInfix("==", id("a"), id("c")), S("ne"), nInfix("!=", id("a"), id("c")), S("ai"), nInfix("==", id("a"), I(1))))),
		prog(nVar("m", M()), nVar("r", nInfix("||", id("m"), S("empty"))), set("=", id("m"), S("k"), I(0)), ex(M(S("r"), id("r"), S("now"), nInfix("&&", id("m"), S("full"))))),
		// growing keys in a counting loop, reads through an alias inside the loop
		prog(nVar("m", M()), nVar("al", id("m")), nVar("k", S("q")), nVar("t", I(0)),
			n("for3", nVar("i", I(0)), nInfix("<", id("i"), I(4)), ns("postfix", "i ++"),
				nBlock(set("=", id("m"), id("k"), id("i")), nAssign("t", "+=", ix(id("al"), id("k"))), nAssign("k", "+=", S("q")))),
			ex(M(S("m"), id("m"), S("t"), id("t")))),
	}
	return ps
}

// duplicated keys: the code as it is keeps the EARLIER entry (finding c01strDupFinding)
func c01strDups() []*N {
	I, S, id := nInt, nStr, nId
	M := func(xs ...*N) *N { return n("map", xs...) }
	return []*N{
		n("prog", n("expr", n("index", M(S("a"), I(1), S("a"), I(2)), S("a")))),
		n("prog", nVar("m", M(S("a"), I(1), S("b"), I(5), S("a"), I(2))), n("expr", id("m"))),
		n("prog", nVar("m", M(S("k"), S("x"), S("k"), S("y"), S("k"), S("z"))), n("expr", id("m"))),
	}
}

func c01strOutside() []*N {
	return []*N{
		n("prog", n("expr", n("list", nInt(1)))),
		n("prog", n("expr", nCall(nId("len"), nStr("a")))),
		n("prog", nVar("m", n("map", nStr("a"), nInt(1))), n("expr", nCall(nId("len"), nId("m")))),
	}
}

// ---------------------------------------------------------------- generator

type c01strMap struct {
	keys map[string]string // key -> type of its value ("int" | "str" | "map"); shared by aliases
}

type c01strGen struct {
	r      *RNG
	errs   bool
	ints   []string
	strs   []string
	maps   []string
	obj    map[string]*c01strMap
	n      int
	shapes map[string]bool
	multi  int
}

var c01strKeys = []string{"a", "b", "c", "d", "e", "k1", "k2", "é"}

func (g *c01strGen) fresh(p string) string { g.n++; return fmt.Sprintf("%s%d", p, g.n) }
func (g *c01strGen) mark(s string)         { g.shapes[s] = true }

func (g *c01strGen) intE(d int) *N {
	switch c := g.r.Intn(10); {
	case c < 3 || d <= 0 || len(g.ints) == 0:
		return nInt(int64(g.r.Intn(16)))
	case c < 6:
		return nId(Pick(g.r, g.ints))
	case c < 8:
		return nInfix(Pick(g.r, []string{"+", "-", "*"}), g.intE(d-1), g.intE(d-1))
	default:
		if m, k := g.keyOf("int"); m != "" {
			g.mark("read-int")
			return n("index", nId(m), g.keyE(k))
		}
		return nInt(int64(g.r.Intn(9)))
	}
}

func (g *c01strGen) strE(d int) *N {
	switch c := g.r.Intn(10); {
	case c < 3 || d <= 0 || len(g.strs) == 0:
		return nStr(Pick(g.r, []string{"", "a", "b", "ab", "abc", "é", "k", "z"}))
	case c < 6:
		return nId(Pick(g.r, g.strs))
	case c < 8:
		g.mark("concat")
		return nInfix("+", g.strE(d-1), g.strE(d-1))
	default:
		if m, k := g.keyOf("str"); m != "" {
			g.mark("read-str")
			return n("index", nId(m), g.keyE(k))
		}
		return nStr("w")
	}
}

// a key expression that evaluates to the string k
func (g *c01strGen) keyE(k string) *N {
	if len(k) == 2 && k[0] == 'k' && g.r.Chance(40) {
		g.mark("computed-key")
		return nInfix("+", nStr(k[:1]), nStr(k[1:]))
	}
	return nStr(k)
}

// a map variable and a key it certainly holds with a value of the type
func (g *c01strGen) keyOf(ty string) (string, string) {
	var cands [][2]string
	for _, m := range g.maps {
		for _, k := range c01strKeys {
			if g.obj[m].keys[k] == ty {
				cands = append(cands, [2]string{m, k})
			}
		}
	}
	if len(cands) == 0 {
		return "", ""
	}
	c := Pick(g.r, cands)
	return c[0], c[1]
}

func (g *c01strGen) boolE(d int) *N {
	switch c := g.r.Intn(12); {
	case c < 3 && len(g.strs) > 0:
		g.mark("str-compare")
		return nInfix(Pick(g.r, []string{"==", "!=", "<", "<=", ">", ">="}), g.strE(1), g.strE(1))
	case c < 5:
		return nInfix(Pick(g.r, []string{"==", "!=", "<", "<=", ">", ">="}), g.intE(1), g.intE(1))
	case c < 8 && len(g.maps) > 0:
		g.mark("membership")
		k := Pick(g.r, c01strKeys)
		return n(Pick(g.r, []string{"in", "notin"}), g.keyE(k), nId(Pick(g.r, g.maps)))
	case c < 10 && len(g.maps) > 1:
		g.mark("map-eq")
		return nInfix(Pick(g.r, []string{"==", "!="}), nId(Pick(g.r, g.maps)), nId(Pick(g.r, g.maps)))
	case c < 11 && d > 0:
		return nInfix(Pick(g.r, []string{"&&", "||"}), g.boolE(d-1), g.boolE(d-1))
	default:
		return nBool(g.r.Bool())
	}
}

// a map literal; the object's key table
func (g *c01strGen) lit(depth int) (*N, *c01strMap) {
	o := &c01strMap{keys: map[string]string{}}
	x := n("map")
	k := g.r.Intn(5)
	perm := append([]string{}, c01strKeys...)
	for i := range perm {
		j := i + g.r.Intn(len(perm)-i)
		perm[i], perm[j] = perm[j], perm[i]
	}
	for _, key := range perm[:k] {
		var v *N
		switch c := g.r.Intn(10); {
		case c < 4:
			v, o.keys[key] = g.intE(1), "int"
		case c < 7:
			v, o.keys[key] = g.strE(1), "str"
		case c < 8:
			v, o.keys[key] = g.boolE(0), "bool"
		case c < 9 && depth > 0:
			v, _ = g.lit(depth - 1)
			o.keys[key] = "map"
			g.mark("nested-literal")
		case len(g.maps) > 0:
			v, o.keys[key] = nId(Pick(g.r, g.maps)), "map"
			g.mark("map-in-map")
		default:
			v, o.keys[key] = nInt(7), "int"
		}
		x.C = append(x.C, nStr(key), v)
	}
	if k >= 2 {
		g.multi++
		g.mark("multi-entry-literal")
	}
	return x, o
}

func (g *c01strGen) canLit() bool { return g.multi < 2 }

func (g *c01strGen) declMap() []*N {
	name := g.fresh("m")
	var x *N
	var o *c01strMap
	if g.canLit() {
		x, o = g.lit(1)
	} else {
		x, o = n("map", nStr("a"), g.intE(1)), &c01strMap{keys: map[string]string{"a": "int"}}
	}
	g.maps = append(g.maps, name)
	g.obj[name] = o
	return []*N{nVar(name, x)}
}

// statements; top = not inside a branch or loop (only there new keys are recorded)
func (g *c01strGen) stmt(d int, top bool) []*N {
	set := func(op string, o, i, v *N) *N { return ns("setitem", op, o, i, v) }
	switch c := g.r.Intn(20); {
	case c < 2 && top:
		name := g.fresh("n")
		s := nVar(name, g.intE(2))
		g.ints = append(g.ints, name)
		return []*N{s}
	case c < 4 && top:
		name := g.fresh("s")
		s := nVar(name, g.strE(2))
		g.strs = append(g.strs, name)
		return []*N{s}
	case c < 5 && top:
		return g.declMap()
	case c < 6 && top && len(g.maps) > 0: // alias
		a := Pick(g.r, g.maps)
		name := g.fresh("al")
		g.maps = append(g.maps, name)
		g.obj[name] = g.obj[a]
		g.mark("alias")
		return []*N{nVar(name, nId(a))}
	case c < 10 && len(g.maps) > 0: // plain write
		m := Pick(g.r, g.maps)
		o := g.obj[m]
		k := Pick(g.r, c01strKeys)
		ty, has := o.keys[k]
		if !has {
			if !top {
				return g.stmt(d, top)
			}
			ty = Pick(g.r, []string{"int", "str"})
			o.keys[k] = ty
			g.mark("write-new-key")
		} else {
			g.mark("write-existing-key")
		}
		var v *N
		switch ty {
		case "int":
			v = g.intE(2)
		case "str":
			v = g.strE(2)
		case "bool":
			v = g.boolE(1)
		default:
			return g.stmt(d, top)
		}
		if len(g.maps) > 1 {
			g.mark("write-with-aliases")
		}
		return []*N{set("=", nId(m), g.keyE(k), v)}
	case c < 12: // compound write on a key certainly present
		ty := Pick(g.r, []string{"int", "str"})
		m, k := g.keyOf(ty)
		if m == "" {
			if g.errs && len(g.maps) > 0 && g.r.Chance(30) {
				g.mark("compound-missing-key")
				return []*N{set("+=", nId(Pick(g.r, g.maps)), nStr("zz"), nInt(1))}
			}
			return g.stmt(d, top)
		}
		g.mark("compound-write")
		if ty == "int" {
			return []*N{set(Pick(g.r, []string{"+=", "-=", "*="}), nId(m), g.keyE(k), g.intE(1))}
		}
		return []*N{set("+=", nId(m), g.keyE(k), g.strE(1))}
	case c < 13 && len(g.ints) > 0:
		return []*N{nAssign(Pick(g.r, g.ints), Pick(g.r, []string{"=", "+=", "-="}), g.intE(2))}
	case c < 14 && len(g.strs) > 0:
		return []*N{nAssign(Pick(g.r, g.strs), Pick(g.r, []string{"=", "+="}), g.strE(2))}
	case c < 16 && d > 0:
		g.mark("if")
		th := g.stmts(d-1, 1+g.r.Intn(2))
		if g.r.Bool() {
			return []*N{n("expr", n("if", g.boolE(1), nBlock(th...)))}
		}
		return []*N{n("expr", n("if", g.boolE(1), nBlock(th...), nBlock(g.stmts(d-1, 1+g.r.Intn(2))...)))}
	case c < 18 && d > 0 && len(g.maps) > 0: // counting loop writing growing keys
		g.mark("counting-loop")
		i, kq := g.fresh("i"), g.fresh("q")
		m := Pick(g.r, g.maps)
		body := []*N{set("=", nId(m), nId(kq), nId(i)), nAssign(kq, "+=", nStr("q"))}
		body = append(body, g.stmts(d-1, g.r.Intn(2))...)
		if g.r.Chance(30) {
			body = append(body, n("expr", n("if", nInfix(">", nId(i), nInt(1)), nBlock(n("break")))))
			g.mark("loop-break")
		}
		return []*N{nVar(kq, nStr("q")), n("for3", nVar(i, nInt(0)), nInfix("<", nId(i), nInt(int64(1+g.r.Intn(4)))), ns("postfix", i+" ++"), nBlock(body...))}
	case c < 19 && g.errs:
		g.mark("injected-error")
		switch g.r.Intn(6) {
		case 0:
			if len(g.maps) > 0 {
				return []*N{n("expr", n("index", nId(Pick(g.r, g.maps)), nStr("zz")))} // missing key
			}
		case 1:
			if len(g.maps) > 0 {
				return []*N{n("expr", n("index", nId(Pick(g.r, g.maps)), nInt(0)))} // key not a string
			}
		case 2:
			if len(g.ints) > 0 {
				return []*N{n("expr", n("index", nId(Pick(g.r, g.ints)), nStr("a")))} // not a container
			}
		case 3:
			if len(g.ints) > 0 {
				return []*N{n("expr", n("in", nStr("a"), nId(Pick(g.r, g.ints))))}
			}
		case 4:
			return []*N{n("expr", nInfix("+", g.strE(1), g.intE(1)))}
		}
		return []*N{n("expr", nInfix("<", g.strE(1), g.intE(1)))}
	}
	return []*N{n("expr", g.boolE(2))}
}

func (g *c01strGen) stmts(d, k int) []*N {
	var ss []*N
	for i := 0; i < k; i++ {
		ss = append(ss, g.stmt(d, false)...)
	}
	if len(ss) == 0 {
		ss = []*N{n("expr", nInt(0))}
	}
	return ss
}

func c01strProgram(r *RNG) (*N, map[string]bool) {
	g := &c01strGen{r: r, errs: r.Chance(25), obj: map[string]*c01strMap{}, shapes: map[string]bool{}}
	var ss []*N
	for i, k := 0, 1+r.Intn(2); i < k; i++ {
		name := g.fresh("n")
		ss = append(ss, nVar(name, g.intE(1)))
		g.ints = append(g.ints, name)
	}
	for i, k := 0, 1+r.Intn(2); i < k; i++ {
		name := g.fresh("s")
		ss = append(ss, nVar(name, g.strE(1)))
		g.strs = append(g.strs, name)
	}
	for i, k := 0, 1+r.Intn(2); i < k; i++ {
		ss = append(ss, g.declMap()...)
	}
	for i, k := 0, 3+r.Intn(7); i < k; i++ {
		ss = append(ss, g.stmt(2, true)...)
	}
	// the program's value observes the whole state: every top-level variable, maps followed to the bottom
	// (built by writes: a literal of that size would be one more multi-entry literal, and the real compiler emits
	// the entries of a literal with more than 8 entries in an order that is never the source order)
	ss = append(ss, nVar("obs", n("map")))
	for _, grp := range [][]string{g.ints, g.strs, g.maps} {
		for _, v := range grp {
			ss = append(ss, ns("setitem", "=", nId("obs"), nStr(v), nId(v)))
		}
	}
	ss = append(ss, n("expr", nId("obs")))
	return n("prog", ss...), g.shapes
}

// ---------------------------------------------------------------- the check

var c01strRuleDone = false
var c01strRng *RNG

func c01strNontrivial(q *N, shapes map[string]bool) bool {
	k := Kinds(q)
	return k["setitem"] > 0 && (k["in"]+k["notin"] > 0 || shapes["alias"]) && (k["if"]+k["for3"] > 0)
}

// c01StrCheck is called once per program of the shared generator (from c01.go's flush).
func c01StrCheck(e *Env, p *N, src string) {
	if !c01strRuleDone {
		c01strRuleDone = true
		c01strRng = e.Rng.Fork().Fork().Fork().Fork().Fork().Fork()
		e.R.Rule += "; proved fragment F7 (strings and maps as data): directed programs (concatenation, the six string comparisons, map literals of 0-5 entries in source order, nested literals, " +
			"entries that fail, index reads present / missing / wrong key type / not a container, index assignment new / existing / compound / through aliases and alias chains / into inner maps, membership, deep equality, " +
			"truthiness changing with writes, counting loops writing growing keys, duplicated keys) plus fragment-only programs from a typed generator (int / string / map globals with a table of the keys each " +
			"map object certainly holds, shared by aliases; map literals of 0-4 entries with distinct keys incl. nested literals and maps stored in maps; computed keys; plain and compound writes through any alias; reads in scalar " +
			"expressions; conditions from string comparison, membership, map equality; if / else; counting for loops writing growing keys with break; on error runs injected missing keys and type errors); the value of every " +
			"generated program is a map of all top-level variables (deep); programs with multi-entry literals are recompiled until the real compiler emits the source order (at most two such literals per program); " +
			"each checked on links A, B, C and against the real VM; a case is non-trivial when it writes a map, tests membership or uses an alias, and branches or loops"
		for _, q := range c01strDirected() {
			if c01strOne(e, q, "directed") {
				e.R.Case("str:"+Sexp(q), true)
			} else {
				e.R.Mismatch(c01seqSrc(q), "-", "out", "F7: a directed program is outside the fragment")
			}
		}
		for _, q := range c01strDups() {
			if c01strOne(e, q, "directed-dup") {
				e.R.Case("str:"+Sexp(q), true)
			} else {
				e.R.Mismatch(c01seqSrc(q), "-", "out", "F7: a directed program is outside the fragment")
			}
		}
		for _, q := range c01strOutside() {
			if rep := e.O.Ask("C01", "str", "run", Sexp(q), c01Globals); rep != "out" {
				e.R.Mismatch(c01seqSrc(q), "-", rep, "F7: a program that must be outside the fragment is reported inside")
			} else {
				e.R.H("str_programs", "directed:outside-as-expected")
			}
		}
	}
	q, shapes := c01strProgram(c01strRng.Fork())
	if c01strOne(e, q, "own") {
		e.R.Case("str:"+Sexp(q), c01strNontrivial(q, shapes))
		for s := range shapes {
			e.R.H("str_shapes", s)
		}
	} else {
		e.R.H("str_programs", "own:outside")
		e.R.Note("the F7 generator produced a program outside the fragment: %s", c01seqSrc(q))
	}
}

// development aid (not a registered check): `harness C01str -oracle …` runs only the F7 part
func init() {
	commands["C01str"] = func(e *Env) {
		e.R.Rule = "fragment F7 only (development aid)"
		nProg := 1500
		if !e.Quick {
			nProg = 15000
		}
		for i := 0; i < nProg; i++ {
			c01StrCheck(e, n("prog"), "")
		}
	}
}
