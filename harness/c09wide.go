package main

// C09, third part — state that is neither a package-level variable nor handed out per request, but is
// SHARED BY CONSTRUCTION between evaluations that are otherwise separate (own VM, own globals):
//
// "ctxshare" schedules: several evaluations under ONE context (a request context shared by the
// scripts of a request, a worker group under one deadline).  A group = one context + members;
//   short  members run a bounded loop and return [gid, mid, K·N·(N-1)/2]
//   long   members call wait() in a loop that only a cancellation ends (wait() parks the member until
//          the group's context has ended, then sleeps 1 ms per call: a bound on the wait, never a verdict;
//          an unhalted member falls out of the loop after c09CtxLimit calls and returns [gid, mid, -1])
//   late   members are started only after every early short member has returned.
// The coordinator of a group ends the context (cancel(), or a real 150 ms timeout for `expire`) only
// after every short member has returned and every long member is parked in wait(): "one evaluation
// under the context has finished, the others are still running, now the context ends" — logically,
// without timing.  Alone, a member runs the same way as the only member of its group.  Expected (=
// stand-alone) results in closed form; the Lean context model (Model §5, `ctxs`) is asked for the
// outcome of every evaluation under a random interleaving of the groups' event sequences and alone.
//
// "config" schedules: evaluations that differ in their CONFIGURATION.  Every evaluation k has its
// own risor options: WithoutGlobal("mod.attr") / WithGlobalOverride("mod.attr", v) on attributes of
// standard-library modules (in-place edits of the module objects its Config holds), top-level
// WithoutGlobal, or nothing.  Its script reads a pool of attributes (try(string(mod.attr)) → text |
// MISSING), lets the others run (hold_sync), and reads them again.  Reference for evaluation k = k
// ALONE IN A FRESH PROCESS and the Lean configuration model (Model §6, `cfg`); compared with it are
// the concurrent run and the back-to-back run in one process.

import (
	"context"
	"encoding/json"
	"fmt"
	"runtime"
	"strconv"
	"strings"
	"sync"
	"time"

	"github.com/risor-io/risor"
	"github.com/risor-io/risor/compiler"
	"github.com/risor-io/risor/object"
	"github.com/risor-io/risor/parser"
	"github.com/risor-io/risor/vm"
)

// ---------------------------------------------------------------------------------------
// ctxshare

const c09CtxLimit = 2000 // wait() calls of a long member before it gives up (≥ 2 s after its context ended)

type c09CtxMember struct {
	Role string `json:"role"` // short | long
	Late bool   `json:"late"` // started after every early short member of the group has returned
	API  string `json:"api"`  // eval | evalcode | vmrun | call | vmnew
	N    int    `json:"n"`    // short: loop length
	K    int    `json:"k"`    // short: multiplier
}

type c09CtxGroup struct {
	// cancel | timeout | deadline: ended by cancel() (the latter two with a limit one hour away);
	// expire: WithTimeout(150 ms), nobody cancels; none: never ended while members run (short members only)
	Ctx     string         `json:"ctx"`
	Members []c09CtxMember `json:"members"`
}

func (m c09CtxMember) String() string {
	s := m.Role
	if m.Late {
		s = "late-" + s
	}
	if m.Role == "short" {
		return fmt.Sprintf("%s/%s/N%d/K%d", s, m.API, m.N, m.K)
	}
	return fmt.Sprintf("%s/%s", s, m.API)
}

func c09CtxSrc(m c09CtxMember, g, i int) string {
	body := func(k string) string {
		if m.Role == "long" {
			return fmt.Sprintf("n := 0\nfor i := 0; i < %d; i++ {\n\twait()\n\tn += 1\n}\n", c09CtxLimit)
		}
		return fmt.Sprintf("s := 0\nfor i := 0; i < %d; i++ {\n\ts += i * %s\n\tif i %% 64 == 63 { pause() }\n}\n", m.N, k)
	}
	val := "s"
	if m.Role == "long" {
		val = "-1"
	}
	if m.API == "call" {
		return "func f(k) {\n" + body("k") + fmt.Sprintf("return [%d, %d, %s]\n}\n", g, i, val)
	}
	return body(strconv.Itoa(m.K)) + fmt.Sprintf("[%d, %d, %s]", g, i, val)
}

// the stand-alone results in closed form.  Under `expire` a short member that is overtaken by the
// real 150 ms timeout ends with "context deadline exceeded" alone, too: both are accepted (how fast an
// evaluation is is not this property's business).
func c09CtxExpect(grp c09CtxGroup, m c09CtxMember, g, i int) []string {
	if m.Role == "long" {
		if grp.Ctx == "expire" {
			return []string{"error: context deadline exceeded"}
		}
		return []string{"error: context canceled"}
	}
	done := fmt.Sprintf("list:[%d, %d, %d]", g, i, m.K*m.N*(m.N-1)/2)
	if grp.Ctx == "expire" {
		return []string{done, "error: context deadline exceeded"}
	}
	return []string{done}
}

func c09CtxAccepts(grp c09CtxGroup, m c09CtxMember, g, i int, got string) bool {
	for _, x := range c09CtxExpect(grp, m, g, i) {
		if x == got {
			return true
		}
	}
	return false
}

func c09CtxRunMember(ctx context.Context, m c09CtxMember, g, i int, pause, wait func()) string {
	bi := func(name string, f func()) object.Object {
		return object.NewBuiltin(name, func(ctx context.Context, args ...object.Object) object.Object {
			f()
			return object.Nil
		})
	}
	opts := []risor.Option{risor.WithGlobal("pause", bi("pause", pause)), risor.WithGlobal("wait", bi("wait", wait))}
	src := c09CtxSrc(m, g, i)
	switch m.API {
	case "eval":
		return c09Show(risor.Eval(ctx, src, opts...))
	case "evalcode", "vmrun", "call", "vmnew":
		code, err := c09Compile(src, opts)
		if err != nil {
			return "error: compile: " + err.Error()
		}
		switch m.API {
		case "evalcode":
			return c09Show(risor.EvalCode(ctx, code, opts...))
		case "vmrun":
			return c09Show(vm.Run(ctx, code, risor.NewConfig(opts...).VMOpts()...))
		case "call":
			return c09Show(risor.Call(ctx, code, "f", []object.Object{object.NewInt(int64(m.K))}, opts...))
		default:
			machine := vm.New(code, risor.NewConfig(opts...).VMOpts()...)
			if err := machine.Run(ctx); err != nil {
				return "error: " + err.Error()
			}
			if tos, ok := machine.TOS(); ok {
				return c09Show(tos, nil)
			}
			return "<nil>"
		}
	}
	return "error: unknown api " + m.API
}

// c09CtxRunGroup runs the members `idx` of group g under ONE context and stores their results.
func c09CtxRunGroup(g int, grp c09CtxGroup, idx []int, yield bool, store func(i int, s string)) {
	ctx, cancel := context.WithCancel(context.Background())
	switch grp.Ctx {
	case "timeout":
		ctx, cancel = context.WithTimeout(context.Background(), time.Hour)
	case "deadline":
		ctx, cancel = context.WithDeadline(context.Background(), time.Now().Add(time.Hour))
	case "expire":
		ctx, cancel = context.WithTimeout(context.Background(), 150*time.Millisecond)
	}
	defer cancel()
	released := make(chan struct{})
	type st struct {
		arrived, done chan struct{}
		once          sync.Once
	}
	sts := map[int]*st{}
	for _, i := range idx {
		sts[i] = &st{arrived: make(chan struct{}), done: make(chan struct{})}
	}
	launch := func(i int) {
		m := grp.Members[i]
		s := sts[i]
		go func() {
			defer close(s.done)
			defer s.once.Do(func() { close(s.arrived) })
			defer func() {
				if r := recover(); r != nil {
					store(i, fmt.Sprintf("panic: %v", r))
				}
			}()
			pause := func() {
				if yield {
					runtime.Gosched()
				}
			}
			wait := func() {
				s.once.Do(func() { close(s.arrived) })
				<-released
				time.Sleep(time.Millisecond) // bounds the wait for the halt flag; never a verdict
				runtime.Gosched()
			}
			store(i, c09CtxRunMember(ctx, m, g, i, pause, wait))
		}()
	}
	settle := func(late bool) {
		for _, i := range idx {
			if grp.Members[i].Late == late {
				launch(i)
			}
		}
		for _, i := range idx {
			if m := grp.Members[i]; m.Late == late {
				if m.Role == "short" {
					<-sts[i].done
				} else {
					<-sts[i].arrived
				}
			}
		}
	}
	settle(false)
	settle(true)
	// every short member has returned, every long member is parked inside wait(): end the context
	anyLong := false
	for _, i := range idx {
		anyLong = anyLong || grp.Members[i].Role == "long"
	}
	switch grp.Ctx {
	case "expire":
		if anyLong {
			<-ctx.Done()
		}
	case "none":
	default:
		cancel()
	}
	close(released)
	for _, i := range idx {
		<-sts[i].done
	}
}

func c09CtxOffsets(groups []c09CtxGroup) ([]int, int) {
	offs := make([]int, len(groups))
	total := 0
	for g := range groups {
		offs[g] = total
		total += len(groups[g].Members)
	}
	return offs, total
}

// c09RunCtxShare: conc = the groups run concurrently, each with all its members under one context;
// otherwise every member runs alone (the only member of its group), one after the other.
func c09RunCtxShare(job *c09Job, conc bool) []string {
	offs, total := c09CtxOffsets(job.Groups)
	res := make([]string, total)
	var mu sync.Mutex
	store := func(g int) func(i int, s string) {
		return func(i int, s string) {
			mu.Lock()
			res[offs[g]+i] = s
			mu.Unlock()
		}
	}
	if !conc {
		for g, grp := range job.Groups {
			for i := range grp.Members {
				c09CtxRunGroup(g, grp, []int{i}, false, store(g))
			}
		}
		return res
	}
	var wg sync.WaitGroup
	for g, grp := range job.Groups {
		wg.Add(1)
		go func(g int, grp c09CtxGroup) {
			defer wg.Done()
			idx := make([]int, len(grp.Members))
			for i := range idx {
				idx[i] = i
			}
			c09CtxRunGroup(g, grp, idx, true, store(g))
		}(g, grp)
	}
	wg.Wait()
	return res
}

func c09Merge(r *RNG, seqs [][]string) []string {
	var out []string
	pos := make([]int, len(seqs))
	for {
		var live []int
		for w := range seqs {
			if pos[w] < len(seqs[w]) {
				live = append(live, w)
			}
		}
		if len(live) == 0 {
			return out
		}
		w := live[r.Intn(len(live))]
		out = append(out, seqs[w][pos[w]])
		pos[w]++
	}
}

// c09CtxEvents: the groups' event sequences in the vocabulary of the Lean context model (context id =
// group, evaluation id = result slot), merged into one random interleaving that keeps each group's order:
// early members (random merge) · late members (random merge) · the context ends · the long members' tails.
func c09CtxEvents(r *RNG, groups []c09CtxGroup) string {
	offs, _ := c09CtxOffsets(groups)
	var gseqs [][]string
	for g, grp := range groups {
		var seq []string
		for _, late := range []bool{false, true} {
			var ms [][]string
			for i, m := range grp.Members {
				if m.Late != late {
					continue
				}
				id := strconv.Itoa(offs[g] + i)
				ev := []string{"s" + id + ":" + strconv.Itoa(g), "i" + id}
				if m.Role == "short" {
					ev = append(ev, "i"+id, "f"+id)
				}
				ms = append(ms, ev)
			}
			seq = append(seq, c09Merge(r, ms)...)
		}
		if grp.Ctx != "none" {
			seq = append(seq, "c"+strconv.Itoa(g))
		}
		var tails [][]string
		for i, m := range grp.Members {
			if m.Role == "long" {
				id := strconv.Itoa(offs[g] + i)
				tails = append(tails, []string{"i" + id, "i" + id, "f" + id})
			}
		}
		seq = append(seq, c09Merge(r, tails)...)
		gseqs = append(gseqs, seq)
	}
	return strings.Join(c09Merge(r, gseqs), ",")
}

type c09CtxSpec struct {
	groups []c09CtxGroup
	procs  int
	plain  bool
}

func (s c09CtxSpec) job() (*c09Job, string) {
	var gs []string
	n := 0
	for g, grp := range s.groups {
		var xs []string
		for _, m := range grp.Members {
			xs = append(xs, m.String())
			n++
		}
		gs = append(gs, fmt.Sprintf("g%d<%s>[%s]", g, grp.Ctx, strings.Join(xs, " ")))
	}
	job := &c09Job{Kind: "ctxshare", Groups: s.groups, Procs: s.procs, Threads: n, Plain: s.plain}
	key := fmt.Sprintf("ctxshare groups=%d evaluations=%d procs=%d race-detector=%v: every group runs its members (own VM, own globals each) under ONE context "+
		"(<how the context ends> role/api; a short member runs s := 0; for i := 0; i < N; i++ { s += i*K; if i%%64 == 63 { pause() } }; [gid, mid, s]; "+
		"a long member runs for i := 0; i < %d; i++ { wait() }; [gid, mid, -1]; late members start after the early short members have returned; "+
		"the context ends once every short member has returned and every long member is parked in wait()): %s",
		len(s.groups), n, s.procs, !s.plain, c09CtxLimit, strings.Join(gs, " | "))
	return job, key
}

func c09GenCtx(r *RNG, i int) c09CtxSpec {
	sh := func(api string, late bool) c09CtxMember {
		return c09CtxMember{Role: "short", Late: late, API: api, N: 300, K: 2}
	}
	lg := func(api string, late bool) c09CtxMember { return c09CtxMember{Role: "long", Late: late, API: api} }
	switch i {
	case 0: // the smallest form: one finishes, the other is still running, the context is cancelled
		return c09CtxSpec{groups: []c09CtxGroup{{Ctx: "cancel", Members: []c09CtxMember{sh("eval", false), lg("eval", false)}}}, procs: 1, plain: true}
	case 1: // a run that starts and ends under the context while another one is parked
		return c09CtxSpec{groups: []c09CtxGroup{{Ctx: "cancel", Members: []c09CtxMember{lg("vmrun", false), sh("call", true)}}}, procs: 1, plain: true}
	case 2:
		return c09CtxSpec{groups: []c09CtxGroup{{Ctx: "timeout", Members: []c09CtxMember{sh("evalcode", false), sh("vmnew", false), lg("call", false)}}}, procs: 2, plain: false}
	case 3:
		return c09CtxSpec{groups: []c09CtxGroup{{Ctx: "expire", Members: []c09CtxMember{sh("eval", false), lg("evalcode", false)}}}, procs: 1, plain: true}
	}
	s := c09CtxSpec{procs: Pick(r, []int{1, 1, 2, 4, 8}), plain: r.Chance(50)}
	ng := 1 + r.Intn(3)
	for g := 0; g < ng; g++ {
		grp := c09CtxGroup{Ctx: Pick(r, []string{"cancel", "cancel", "cancel", "timeout", "deadline", "expire", "none"})}
		nm := 2 + r.Intn(4)
		for k := 0; k < nm; k++ {
			m := c09CtxMember{Role: "short", Late: r.Chance(30), API: Pick(r, []string{"eval", "eval", "evalcode", "vmrun", "call", "vmnew"}), N: 100 + r.Intn(1400), K: 1 + r.Intn(9)}
			if grp.Ctx != "none" && r.Chance(45) {
				m.Role, m.N, m.K = "long", 0, 1
			}
			// risor.Call starts ONE machine twice (RunCode, then Call).  Under a context that a timer can end
			// at any moment the second start's plain `vm.halt = 0` is unordered with the store of the first
			// run's watcher: one evaluation racing with its own earlier watcher — the mechanism of findings
			// C06-runcode-reset-loses-cancellation / C07-stale-context-watcher, not interference between
			// evaluations.  Timer-ended contexts are therefore combined with the single-start APIs only.
			if grp.Ctx == "expire" && m.API == "call" {
				m.API = "evalcode"
			}
			grp.Members = append(grp.Members, m)
		}
		s.groups = append(s.groups, grp)
	}
	return s
}

// c09CtxReference: the stand-alone results against their closed form, and the Lean context model
// (one watcher per run = the code as it is) under a random interleaving and alone.
func c09CtxReference(e *Env, r *RNG, key string, sp *c09CtxSpec, seq []string) {
	offs, total := c09CtxOffsets(sp.groups)
	events := c09CtxEvents(r, sp.groups)
	rep := e.O.Ask("C09", "ctxs", "perRun", strconv.Itoa(total), events)
	f := strings.Split(rep, "\t")
	if len(f) != 3 || f[0] != "ok" {
		e.R.Mismatch(key, "-", rep, "oracle rejected the ctxshare schedule "+events)
		return
	}
	full, alone := strings.Split(f[1], "|"), strings.Split(f[2], "|")
	if len(full) != total || len(alone) != total {
		e.R.Mismatch(key, strconv.Itoa(total), rep, "oracle: number of evaluations")
		return
	}
	for g, grp := range sp.groups {
		for i, m := range grp.Members {
			t := offs[g] + i
			want := strings.Join(c09CtxExpect(grp, m, g, i), " or ")
			if t < len(seq) && !c09CtxAccepts(grp, m, g, i, seq[t]) {
				e.R.Mismatch(key, seq[t], want, fmt.Sprintf("stand-alone result of member %d of group %d (%s under a %s context) vs its closed form", i, g, m, grp.Ctx))
			}
			// model: an evaluation is halted iff it is still running when its context ends
			halted := !strings.HasSuffix(full[t], ":-")
			if halted != (m.Role == "long") {
				e.R.Mismatch(key, want, full[t], fmt.Sprintf("Impl context model (one watcher per run): evaluation %d under the interleaving %s", t, events))
			}
			if full[t] != alone[t] {
				e.R.Mismatch(key, alone[t], full[t], fmt.Sprintf("Impl context model: evaluation %d under the interleaving differs from alone (%s)", t, events))
			}
		}
	}
}

// ---------------------------------------------------------------------------------------
// config

var c09CfgCells = []struct{ mod, attr string }{
	{"strings", "to_upper"}, {"strings", "contains"}, {"math", "PI"}, {"math", "abs"}, {"math", "E"},
	{"json", "marshal"}, {"json", "valid"}, {"base64", "encode"}, {"strconv", "atoi"}, {"time", "RFC822"},
	{"time", "now"}, {"filepath", "join"}, {"fmt", "sprintf"}, {"regexp", "match"}, {"bytes", "equals"},
	{"errors", "new"}, {"rand", "intn"}, {"os", "getpid"}, {"os", "getenv"}, {"exec", "look_path"},
	{"net", "parse_ip"}, {"http", "get"},
}

// top-level names an evaluation may be configured without (none of them is used by the scripts)
var c09CfgTopNames = []string{"fetch", "cat", "ord", "chr", "hash", "dns"}

func c09CfgCellName(c int) string { return c09CfgCells[c].mod + "." + c09CfgCells[c].attr }

// (module id, attribute id) of a cell in the numbering sent to the oracle
func c09CfgCellID(c int) (int, int) {
	mods := map[string]int{}
	cnt := map[string]int{}
	for i, x := range c09CfgCells {
		if _, ok := mods[x.mod]; !ok {
			mods[x.mod] = len(mods)
		}
		if i == c {
			return mods[x.mod], cnt[x.mod]
		}
		cnt[x.mod]++
	}
	return 0, 0
}

type c09CfgEdit struct {
	Kind string `json:"kind"` // deny | override | denytop
	Cell int    `json:"cell"`
	Val  int    `json:"val,omitempty"`
	Name string `json:"name,omitempty"`
}

type c09CfgEval struct {
	API   string       `json:"api"` // eval | evalcode | vmnew
	Edits []c09CfgEdit `json:"edits"`
}

func (c c09CfgEval) String() string {
	var xs []string
	for _, ed := range c.Edits {
		switch ed.Kind {
		case "deny":
			xs = append(xs, fmt.Sprintf("WithoutGlobal(%q)", c09CfgCellName(ed.Cell)))
		case "override":
			xs = append(xs, fmt.Sprintf("WithGlobalOverride(%q, %d)", c09CfgCellName(ed.Cell), ed.Val))
		default:
			xs = append(xs, fmt.Sprintf("WithoutGlobal(%q)", ed.Name))
		}
	}
	if len(xs) == 0 {
		xs = []string{"no configuration option"}
	}
	return c.API + ": " + strings.Join(xs, ", ")
}

func c09CfgSrc(pool []int, rounds int) string {
	var b strings.Builder
	fmt.Fprintf(&b, "out := []\nfor r := 0; r < %d; r++ {\n", rounds)
	for _, c := range pool {
		fmt.Fprintf(&b, "\tout.append(try(func() { return string(%s) }, func(e) { return \"MISSING\" }))\n", c09CfgCellName(c))
	}
	b.WriteString("\thold_sync()\n}\n\"|\".join(out)")
	return b.String()
}

func c09CfgOptions(c c09CfgEval, k int, syncFn func()) []risor.Option {
	opts := []risor.Option{
		risor.WithGlobal("pid", k),
		risor.WithGlobal("hold_sync", object.NewBuiltin("hold_sync", func(ctx context.Context, args ...object.Object) object.Object {
			syncFn()
			return object.Nil
		})),
	}
	for _, ed := range c.Edits {
		switch ed.Kind {
		case "deny":
			opts = append(opts, risor.WithoutGlobal(c09CfgCellName(ed.Cell)))
		case "override":
			opts = append(opts, risor.WithGlobalOverride(c09CfgCellName(ed.Cell), ed.Val))
		case "denytop":
			opts = append(opts, risor.WithoutGlobal(ed.Name))
		}
	}
	return opts
}

func c09CfgRun(ctx context.Context, api, src string, opts []risor.Option) string {
	switch api {
	case "evalcode":
		code, err := c09Compile(src, opts)
		if err != nil {
			return "error: compile: " + err.Error()
		}
		return c09Show(risor.EvalCode(ctx, code, opts...))
	case "vmnew":
		cfg := risor.NewConfig(opts...)
		ast, err := parser.Parse(ctx, src)
		if err != nil {
			return "error: " + err.Error()
		}
		var code *compiler.Code
		if code, err = compiler.Compile(ast, cfg.CompilerOpts()...); err != nil {
			return "error: compile: " + err.Error()
		}
		machine := vm.New(code, cfg.VMOpts()...)
		if err := machine.Run(ctx); err != nil {
			return "error: " + err.Error()
		}
		if tos, ok := machine.TOS(); ok {
			return c09Show(tos, nil)
		}
		return "<nil>"
	}
	return c09Show(risor.Eval(ctx, src, opts...))
}

type c09CfgSpec struct {
	evals        []c09CfgEval
	pool         []int
	rounds       int
	procs        int
	sync         string
	plain, seq   bool
	directedNote string
}

func (h c09CfgSpec) job() (*c09Job, string) {
	var cs, ps []string
	for k, c := range h.evals {
		cs = append(cs, fmt.Sprintf("evaluation %d {%s}", k, c))
	}
	for _, c := range h.pool {
		ps = append(ps, c09CfgCellName(c))
	}
	job := &c09Job{Kind: "config", Srcs: []string{c09CfgSrc(h.pool, h.rounds)}, Cfgs: h.evals, Procs: h.procs, Threads: len(h.evals), Sync: h.sync, Plain: h.plain, Seq: h.seq}
	mode := "concurrently"
	if h.seq {
		mode = "back to back in one process"
	}
	key := fmt.Sprintf("config n=%d %s procs=%d sync=%s rounds=%d race-detector=%v: every evaluation has its own risor options and reads %s "+
		"(try(string(mod.attr)) or MISSING) before and after hold_sync(): %s",
		len(h.evals), mode, h.procs, h.sync, h.rounds, !h.plain, strings.Join(ps, ", "), strings.Join(cs, "; "))
	return job, key
}

func c09GenCfg(r *RNG, i int) c09CfgSpec {
	cell := func(name string) int {
		for c := range c09CfgCells {
			if c09CfgCellName(c) == name {
				return c
			}
		}
		return 0
	}
	if i < 4 {
		var h c09CfgSpec
		if i < 2 { // the smallest form: one evaluation is configured without an attribute, the other just uses it
			h = c09CfgSpec{pool: []int{cell("strings.to_upper")}, rounds: 2, procs: 1, sync: "barrier", plain: true,
				evals: []c09CfgEval{{API: "eval", Edits: []c09CfgEdit{{Kind: "deny", Cell: cell("strings.to_upper")}}}, {API: "eval"}}}
		} else {
			h = c09CfgSpec{pool: []int{cell("math.PI"), cell("json.marshal")}, rounds: 2, procs: 2, sync: "barrier", plain: false,
				evals: []c09CfgEval{{API: "evalcode", Edits: []c09CfgEdit{{Kind: "override", Cell: cell("math.PI"), Val: 3}}},
					{API: "vmnew", Edits: []c09CfgEdit{{Kind: "deny", Cell: cell("json.marshal")}}}, {API: "eval"}}}
		}
		if i%2 == 1 {
			h.seq, h.plain, h.procs = true, true, 1
		}
		return h
	}
	h := c09CfgSpec{rounds: 2 + r.Intn(2), procs: Pick(r, []int{1, 2, 4, 8}), sync: Pick(r, []string{"barrier", "barrier", "barrier", "yield", "none"}), plain: r.Chance(50)}
	np := 2 + r.Intn(4)
	perm := make([]int, len(c09CfgCells))
	for j := range perm {
		perm[j] = j
	}
	for j := 0; j < np; j++ {
		x := j + r.Intn(len(perm)-j)
		perm[j], perm[x] = perm[x], perm[j]
	}
	h.pool = append([]int(nil), perm[:np]...)
	n := 2 + r.Intn(5)
	for k := 0; k < n; k++ {
		c := c09CfgEval{API: Pick(r, []string{"eval", "eval", "evalcode", "vmnew"})}
		if !r.Chance(30) {
			ne := 1 + r.Intn(3)
			for j := 0; j < ne; j++ {
				ed := c09CfgEdit{Cell: Pick(r, h.pool)}
				if r.Chance(20) {
					ed.Cell = r.Intn(len(c09CfgCells))
				}
				switch p := r.Intn(100); {
				case p < 50:
					ed.Kind = "deny"
				case p < 85:
					ed.Kind, ed.Val = "override", r.Intn(100)
				default:
					ed = c09CfgEdit{Kind: "denytop", Name: Pick(r, c09CfgTopNames)}
				}
				// one override per attribute (the options are kept in a map keyed by the name)
				dup := false
				for _, o := range c.Edits {
					if o.Kind == "override" && ed.Kind == "override" && o.Cell == ed.Cell {
						dup = true
					}
				}
				if !dup {
					c.Edits = append(c.Edits, ed)
				}
			}
		}
		h.evals = append(h.evals, c)
	}
	if r.Chance(30) {
		h.seq, h.plain = true, true
	}
	return h
}

// c09CfgEvents: the schedule in the vocabulary of the Lean configuration model.  Per evaluation:
// build · its denials · its overrides (Config.init applies the denylist first) · the reads of round 0;
// then round by round the reads of all evaluations.  Concurrent: random merge per phase; back to back:
// evaluation after evaluation.
func c09CfgEvents(r *RNG, h *c09CfgSpec) string {
	n := len(h.evals)
	uses := func(k int) []string {
		var ev []string
		for _, c := range h.pool {
			m, a := c09CfgCellID(c)
			ev = append(ev, fmt.Sprintf("u%d:%d:%d", k, m, a))
		}
		return ev
	}
	conf := func(k int) []string {
		ev := []string{fmt.Sprintf("b%d", k)}
		for _, kind := range []string{"deny", "override"} {
			for _, ed := range h.evals[k].Edits {
				if ed.Kind != kind {
					continue
				}
				m, a := c09CfgCellID(ed.Cell)
				if kind == "deny" {
					ev = append(ev, fmt.Sprintf("d%d:%d:%d", k, m, a))
				} else {
					ev = append(ev, fmt.Sprintf("o%d:%d:%d:%d", k, m, a, ed.Val))
				}
			}
		}
		return ev
	}
	var out []string
	if h.seq {
		for k := 0; k < n; k++ {
			out = append(out, conf(k)...)
			for rd := 0; rd < h.rounds; rd++ {
				out = append(out, uses(k)...)
			}
		}
		return strings.Join(out, ",")
	}
	for rd := 0; rd < h.rounds; rd++ {
		var seqs [][]string
		for k := 0; k < n; k++ {
			var s []string
			if rd == 0 {
				s = conf(k)
			}
			seqs = append(seqs, append(s, uses(k)...))
		}
		out = append(out, c09Merge(r, seqs)...)
	}
	return strings.Join(out, ",")
}

func c09CfgUnquote(res string) (string, bool) {
	if !strings.HasPrefix(res, "string:") {
		return "", false
	}
	q := strings.TrimPrefix(res, "string:")
	if s, err := strconv.Unquote(q); err == nil {
		return s, true
	}
	return strings.Trim(q, `"`), true
}

// c09CfgPredict: what the model's answer for one evaluation (cells in pool order, `rounds` observations
// each: 0 as built, 1 removed, v+2 replaced by v) means for the script's result
func c09CfgPredict(h *c09CfgSpec, part string, base map[int]string) (string, bool) {
	kv := strings.SplitN(part, ":", 2)
	if len(kv) != 2 {
		return "", false
	}
	cells := strings.Split(kv[1], ";")
	if len(cells) != len(h.pool) {
		return "", false
	}
	obs := make([][]string, len(cells))
	for j, c := range cells {
		eq := strings.SplitN(c, "=", 2)
		if len(eq) != 2 {
			return "", false
		}
		obs[j] = strings.Split(eq[1], ",")
		if len(obs[j]) != h.rounds {
			return "", false
		}
	}
	var out []string
	for rd := 0; rd < h.rounds; rd++ {
		for j, c := range h.pool {
			v, err := strconv.Atoi(obs[j][rd])
			switch {
			case err != nil:
				return "", false
			case v == 0:
				out = append(out, base[c])
			case v == 1:
				out = append(out, "MISSING")
			default:
				out = append(out, strconv.Itoa(v-2))
			}
		}
	}
	return strings.Join(out, "|"), true
}

// c09CfgDiff names the attributes whose observed text differs
func c09CfgDiff(h *c09CfgSpec, got, alone string) string {
	g, okg := c09CfgUnquote(got)
	a, oka := c09CfgUnquote(alone)
	if !okg || !oka {
		return ""
	}
	gs, as := strings.Split(g, "|"), strings.Split(a, "|")
	if len(gs) != len(as) || len(gs) != h.rounds*len(h.pool) {
		return ""
	}
	var xs []string
	for j := range gs {
		if gs[j] != as[j] {
			xs = append(xs, fmt.Sprintf("read %d of %s found %q, alone %q", j/len(h.pool), c09CfgCellName(h.pool[j%len(h.pool)]), gs[j], as[j]))
		}
	}
	return strings.Join(xs, "; ")
}

// c09CfgReference: evaluation k alone in a fresh process against the Lean configuration model
// (fresh = a library per DefaultGlobals call, the code as it is), and the model under the schedule's
// interleaving against the model alone.
func c09CfgReference(e *Env, r *RNG, key string, h *c09CfgSpec, alone []string, base map[int]string) {
	n := len(h.evals)
	events := c09CfgEvents(r, h)
	rep := e.O.Ask("C09", "cfg", "fresh", strconv.Itoa(n), events)
	f := strings.Split(rep, "\t")
	if len(f) != 3 || f[0] != "ok" {
		e.R.Mismatch(key, "-", rep, "oracle rejected the config schedule "+events)
		return
	}
	full, al := strings.Split(f[1], "|"), strings.Split(f[2], "|")
	if len(full) != n || len(al) != n {
		e.R.Mismatch(key, strconv.Itoa(n), rep, "oracle: number of evaluations")
		return
	}
	for k := 0; k < n; k++ {
		if full[k] != al[k] {
			e.R.Mismatch(key, al[k], full[k], fmt.Sprintf("Impl configuration model: evaluation %d under the interleaving differs from alone (%s)", k, events))
		}
		want, ok := c09CfgPredict(h, al[k], base)
		if !ok {
			e.R.Mismatch(key, "-", al[k], "oracle: malformed answer for evaluation "+strconv.Itoa(k))
			continue
		}
		got, ok := "", false
		if k < len(alone) {
			got, ok = c09CfgUnquote(alone[k])
		}
		if !ok || got != want {
			shown := ""
			if k < len(alone) {
				shown = alone[k]
			}
			e.R.Mismatch(key, shown, want, fmt.Sprintf("evaluation %d {%s} alone in a fresh process vs the Impl configuration model", k, h.evals[k]))
		}
	}
}

func c09CfgJSON(c c09CfgEval) string {
	b, _ := json.Marshal(c)
	return string(b)
}
