package main

// C19, the wrappers outside modules/strings and modules/regexp, and decimal ints.
//
// (1) Every row of the regenerated inventory `wideSigs` (modules/base64, bytes, filepath, math,
// strconv; asked from the oracle with `winv`, so the harness has no list of its own) must have a
// reference in c19Specs — the Go standard-library function called directly — and must be
// exercised by c19Wrappers on generated arguments (valid, boundary, ill-typed, wrong arity).
// For every such call the real builtin's outcome is compared with the Lean glue model `wWrap`
// of the row applied to the Go result (request `wglue`): arity and type errors for every shape,
// the injected Go result for `direct` rows, and for the `method` rows of the bytes module the
// method of the byte_slice called directly (by its Go name, through reflection).
//
// (2) `string(n)` / `strconv.atoi`: the Lean byte-level models `itoa` / `atoi` are compared with
// the real builtins AND with strconv.FormatInt / strconv.Atoi on ints (boundaries, negatives)
// and on texts (valid, signs, leading zeros, empty, non-digits, underscores, out of range).

import (
	"encoding/base64"
	"fmt"
	"reflect"
	"strconv"
	"strings"

	"github.com/risor-io/risor/builtins"
	"github.com/risor-io/risor/object"
)

type c19wideReq struct {
	c, req, real string
	sp           *c19_fnSpec
	a            []object.Object
}

type c19wideState struct {
	inv   map[string]string // "mod.name" -> shape
	order []string
	calls map[string]int
	reqs  []c19wideReq
}

func c19_wideInit(e *Env) *c19wideState {
	st := &c19wideState{inv: map[string]string{}, calls: map[string]int{}}
	rep := e.O.Ask("C19\twinv")
	for _, row := range strings.Fields(rep) {
		i := strings.LastIndexByte(row, ':')
		if i < 0 {
			e.R.Mismatch("wide inventory", "-", rep, "unreadable inventory row from the oracle")
			continue
		}
		st.inv[row[:i]] = row[i+1:]
		st.order = append(st.order, row[:i])
	}
	if len(st.order) == 0 {
		e.R.Mismatch("wide inventory", "-", rep, "the oracle reports an empty wrapper inventory")
	}
	return st
}

// note one call of a wrapper made by c19Wrappers
func (st *c19wideState) note(sp *c19_fnSpec, c string, a []object.Object, arityOK, wellTyped bool, viaObj string) {
	fn := sp.mod + "." + sp.name
	if _, ok := st.inv[fn]; !ok || sp.recv {
		return
	}
	tok := c19_argsTok(a)
	if strings.Contains(tok, "?") { // an argument object outside the value model (a buffer, a set)
		return
	}
	goRes := "n"
	if arityOK && wellTyped {
		switch r := sp.spec(a); {
		case strings.HasPrefix(r, "val "):
			goRes = strings.TrimPrefix(r, "val ")
		case r == "gopanic":
			goRes = "panic"
		default:
			goRes = "error"
		}
	}
	st.calls[fn]++
	st.reqs = append(st.reqs, c19wideReq{c, "C19\twglue\t" + sp.mod + "\t" + sp.name + "\t" + tok + "\t" + goRes, viaObj, sp, append([]object.Object{}, a...)})
}

func c19_callMethod(recv object.Object, goName string, args []object.Object) (out string) {
	defer func() {
		if r := recover(); r != nil {
			out = "panic"
		}
	}()
	m := reflect.ValueOf(recv).MethodByName(goName)
	if !m.IsValid() {
		return "other:no-such-method"
	}
	in := make([]reflect.Value, len(args))
	for i, a := range args {
		in[i] = reflect.ValueOf(a)
	}
	res := m.Call(in)
	if len(res) != 1 {
		return "other:results"
	}
	o, _ := res[0].Interface().(object.Object)
	return c19_outcomeOf(o)
}

// the rows of the inventory that c19Specs has no entry for: the base64 module (its codecs are
// compared elsewhere, through encode/decode) and math.sum — called here on generated arguments
// and compared with the Go library called directly
func (st *c19wideState) extra(e *Env) {
	rng := e.Rng.Fork()
	pad := func(a []object.Object) bool { return len(a) < 2 || a[1].(*object.Bool).Value() }
	encOf := func(url bool, a []object.Object) *base64.Encoding {
		switch {
		case url && pad(a):
			return base64.URLEncoding
		case url:
			return base64.RawURLEncoding
		case pad(a):
			return base64.StdEncoding
		}
		return base64.RawStdEncoding
	}
	mk := func(name string, url, dec bool) c19_fnSpec {
		return c19_fnSpec{mod: "base64", name: name, spec: func(a []object.Object) string {
			if dec {
				b, err := encOf(url, a).DecodeString(c19_sOf(a[0]))
				return c19_vErr(err, func() string { return c19_vBy(b) })
			}
			return c19_vS(encOf(url, a).EncodeToString([]byte(c19_sOf(a[0]))))
		}}
	}
	specs := []c19_fnSpec{mk("encode", false, false), mk("url_encode", true, false), mk("decode", false, true), mk("url_decode", true, true),
		{mod: "math", name: "sum", spec: func(a []object.Object) string {
			sum := 0.0
			for _, it := range a[0].(*object.List).Value() {
				switch v := it.(type) {
				case *object.Int:
					sum += float64(v.Value())
				case *object.Float:
					sum += v.Value()
				default:
					return "err"
				}
			}
			return c19_vF(sum)
		}}}
	n := 300
	if !e.Quick {
		n = 6000
	}
	for si := range specs {
		sp := &specs[si]
		for i := 0; i < n; i++ {
			var a []object.Object
			var feat c19_argFeat
			if sp.mod == "math" {
				items := make([]object.Object, rng.Intn(6))
				for j := range items {
					switch {
					case rng.Chance(50):
						v := c19Int(rng)
						feat.noteInt(v)
						items[j] = object.NewInt(v)
					case rng.Chance(4):
						items[j] = object.NewString("x")
					default:
						x := c19Float(rng)
						feat.noteFloat(x)
						items[j] = object.NewFloat(x)
					}
				}
				feat.empty = len(items) == 0
				a = []object.Object{object.NewList(items)}
			} else {
				raw := string(c19_randBytes(rng))
				feat.noteStr(raw)
				if strings.HasSuffix(sp.name, "decode") {
					enc := []*base64.Encoding{base64.StdEncoding, base64.RawStdEncoding, base64.URLEncoding, base64.RawURLEncoding}[rng.Intn(4)]
					raw = enc.EncodeToString([]byte(raw))
					if rng.Chance(30) {
						raw = c19_mutate(rng, raw, "=-_+/A\n ")
					}
				}
				if rng.Bool() {
					a = []object.Object{object.NewByteSlice([]byte(raw))}
				} else {
					a = []object.Object{object.NewString(raw)}
				}
				if rng.Bool() {
					a = append(a, object.NewBool(rng.Bool()))
				}
			}
			arityOK, wellTyped := true, true
			switch {
			case rng.Chance(4):
				a = append(a, object.NewString("extra"), object.NewString("extra"))
				arityOK, feat.wrongArity = false, true
			case rng.Chance(4):
				a[len(a)-1] = object.NewMap(map[string]object.Object{})
				wellTyped, feat.wrongType = false, true
			}
			viaObj := c19_modCall(sp.mod, sp.name, a...)
			c := sp.mod + "." + sp.name + " " + c19_argsTok(a)
			e.R.Case(c, feat.nontrivial())
			e.R.H("function", sp.mod+"."+sp.name)
			want := "err"
			if arityOK && wellTyped {
				want = sp.spec(a)
			}
			if c19_coarse(viaObj) != c19_coarse(want) {
				e.R.Spec(c+" via object-api", fmt.Sprintf("risor returned %s, the Go function gives %s", viaObj, want), "")
			}
			st.note(sp, c, a, arityOK, wellTyped, viaObj)
		}
	}
}

func (st *c19wideState) finish(e *Env) {
	st.extra(e)
	reqs := make([]string, len(st.reqs))
	for i, r := range st.reqs {
		reqs[i] = r.req
	}
	for i, rep := range e.O.AskBatch(reqs) {
		q := st.reqs[i]
		parts := strings.SplitN(rep, "\t", 2)
		if len(parts) != 2 {
			e.R.Mismatch(q.c, q.real, rep, "wide wrapper glue model: unreadable reply")
			continue
		}
		tag := parts[0]
		model := strings.NewReplacer("argsErr", "err:args", "typeErr", "err:type").Replace(strings.ReplaceAll(parts[1], "\t", " "))
		real := q.real
		if strings.HasPrefix(real, "err") && real != "err:args" && real != "err:type" {
			real = "err"
		}
		shape := strings.SplitN(tag, ":", 2)[0]
		switch {
		case model == "val n" && shape == "method":
			// forwarded to the byte_slice's method: call it directly on the same objects
			model = c19_callMethod(q.a[0], strings.TrimPrefix(tag, "method:"), q.a[1:])
			real = q.real
			e.R.H("wide-glue-model", "method: forwarded call compared with the method itself")
		case model == "val n" && shape == "other":
			e.R.H("wide-glue-model", "other: body outside the glue model (compared with the Go function only)")
			continue
		case shape == "other" && model == "err:args" && q.sp.mod == "filepath" && q.sp.name == "join":
			continue
		default:
			e.R.H("wide-glue-model", shape+": "+strings.SplitN(model, " ", 2)[0])
		}
		if model != real {
			e.R.Mismatch(q.c, real, model, "hand-written wrapper vs C19.wWrap (glue model of the regenerated wide inventory, shape "+tag+")")
		}
	}
	// every row of the inventory has a reference and was called
	for _, fn := range st.order {
		e.R.H("wide-inventory-rows", st.inv[fn])
		if fn == "filepath.walk_dir" || fn == "filepath.abs" {
			// walks / reads the process's file system: outside this property's reference functions
			e.R.H("wide-inventory-coverage", "row without a pure Go reference (filepath.abs, filepath.walk_dir)")
			continue
		}
		if st.calls[fn] == 0 {
			e.R.Mismatch("wide inventory row "+fn, "0 calls", st.inv[fn], "a wrapper of the regenerated inventory has no reference function in the harness or was never called")
			continue
		}
		e.R.H("wide-inventory-coverage", "row called and compared")
	}
}

// ------------------------------------------------------------------ decimal ints

func c19_decText(r *RNG) string {
	digits := func(n int) string {
		var sb strings.Builder
		for i := 0; i < n; i++ {
			sb.WriteByte(byte('0' + r.Intn(10)))
		}
		return sb.String()
	}
	switch r.Intn(12) {
	case 0:
		return []string{"", "+", "-", "0", "-0", "+0", "00", "9223372036854775807", "9223372036854775808", "-9223372036854775808", "-9223372036854775809",
			"+9223372036854775807", "18446744073709551616", "0x10", "1_000", " 1", "1 ", "1e3", "١٢", "--1", "+-1", "1.0"}[r.Intn(22)]
	case 1, 2: // up to 17 digits: always in range
		return []string{"", "+", "-"}[r.Intn(3)] + digits(1+r.Intn(17))
	case 3: // 18-20 digits: around the range boundary
		return []string{"", "+", "-"}[r.Intn(3)] + digits(18+r.Intn(3))
	case 4: // leading zeros
		return []string{"", "+", "-"}[r.Intn(3)] + strings.Repeat("0", 1+r.Intn(25)) + digits(r.Intn(19))
	case 5: // near the boundary
		base := "922337203685477580"
		return []string{"", "-", "+"}[r.Intn(3)] + base + digits(1)
	case 6: // a foreign byte somewhere
		s := []string{"", "+", "-"}[r.Intn(3)] + digits(1+r.Intn(8))
		alien := []string{" ", "_", "-", "+", "a", "x", ".", "\x00", "\xff", "٣", "\n", "/", ":"}[r.Intn(13)]
		i := r.Intn(len(s) + 1)
		return s[:i] + alien + s[i:]
	default: // what string(n) prints
		return strconv.FormatInt(c19Int(r), 10)
	}
}

func c19Decimal(e *Env) {
	rng := e.Rng.Fork()
	n := 1500
	if !e.Quick {
		n = 40000
	}
	stringFn, ok1 := builtins.Builtins()["string"].(*object.Builtin)
	intFn, ok2 := builtins.Builtins()["int"].(*object.Builtin)
	if !ok1 || !ok2 {
		e.R.Mismatch("decimal ints", "-", "-", "builtins string / int not found")
		return
	}
	type req struct{ c, req, real, lib, what string }
	var reqs []req
	fixed := []int64{0, 1, -1, 9, 10, -10, 99, 100, 9223372036854775807, -9223372036854775808, 9223372036854775806, -9223372036854775807, 1000000000000000000}
	for i := 0; i < n; i++ {
		var v int64
		if i < len(fixed) {
			v = fixed[i]
		} else {
			v = c19Int(rng)
			if rng.Chance(30) {
				v = int64(rng.Next())
			}
		}
		c := "string(" + strconv.FormatInt(v, 10) + ")"
		e.R.Case(c, v < 0 || v > 9 || v == 0)
		e.R.H("decimal", "string(int) vs itoa model vs strconv.FormatInt")
		real := c19_callObj(stringFn, object.NewInt(v))
		lib := "val s" + c19_hx(strconv.FormatInt(v, 10))
		reqs = append(reqs, req{c, "C19\titoa\t" + strconv.FormatInt(v, 10), real, lib, "string(int) vs C19.itoa"})
		// and back, through the real builtins: strconv.atoi(string(v)) == v, int(string(v)) == v
		if s, ok := strings.CutPrefix(real, "val s"); ok {
			txt := strconv.FormatInt(v, 10)
			_ = s
			back := c19_modCall("strconv", "atoi", object.NewString(txt))
			if back != c19_vI(v) {
				e.R.Spec(c+" -> strconv.atoi", fmt.Sprintf("strconv.atoi(string(%d)) returned %s", v, back), "")
			}
			if back2 := c19_callObj(intFn, object.NewString(txt)); back2 != c19_vI(v) {
				e.R.Spec(c+" -> int", fmt.Sprintf("int(string(%d)) returned %s", v, back2), "")
			}
		}
	}
	for i := 0; i < n; i++ {
		s := c19_decText(rng)
		c := "strconv.atoi(s" + c19_hx(s) + ")"
		v, err := strconv.Atoi(s)
		e.R.Case(c, err != nil || strings.HasPrefix(s, "0") || strings.HasPrefix(s, "+") || strings.HasPrefix(s, "-"))
		lib := "reject"
		if err == nil {
			lib = "ok " + strconv.FormatInt(int64(v), 10)
			e.R.H("decimal", "atoi: accepted text")
		} else if ne, ok := err.(*strconv.NumError); ok && ne.Err == strconv.ErrRange {
			e.R.H("decimal", "atoi: rejected, out of range")
		} else {
			e.R.H("decimal", "atoi: rejected, syntax")
		}
		real := c19_modCall("strconv", "atoi", object.NewString(s))
		switch {
		case strings.HasPrefix(real, "val i"):
			real = "ok " + strings.TrimPrefix(real, "val i")
		case real == "err":
			real = "reject"
		}
		reqs = append(reqs, req{c, "C19\tatoi\t" + c19_hx(s), real, lib, "strconv.atoi vs C19.atoi"})
	}
	lines := make([]string, len(reqs))
	for i, q := range reqs {
		lines[i] = q.req
	}
	for i, rep := range e.O.AskBatch(lines) {
		q := reqs[i]
		model := strings.ReplaceAll(rep, "\t", " ")
		if strings.HasPrefix(q.req, "C19\titoa\t") {
			model = "val s" + model
		}
		if model != q.real {
			e.R.Mismatch(q.c, q.real, model, q.what)
		}
		if model != q.lib {
			e.R.Mismatch(q.c, q.lib, model, q.what+" (the Go library called directly)")
		}
		if q.real != q.lib {
			e.R.Spec(q.c, fmt.Sprintf("risor returned %s, the Go library gives %s", q.real, q.lib), "")
		}
	}
}
