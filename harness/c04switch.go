package main

// C04 — switch used as a STATEMENT, with the clause forms the shared generator never emits:
// empty `case v:` clauses, empty `default:`, clauses with several values, mixed with non-empty
// ones, in every statement position (first / middle / last statement of the program, of a
// block, of a function body, of the body of each loop form incl. the range forms whose
// iterator lives in the operand-stack slot below the statement), matched and unmatched at run
// time.  Every program is compiled by the REAL compiler; every code object goes through the
// verified checker (`C04 stack`); an accepted certificate is compared with the real VM's
// height at every dispatched instruction (c04HeightsCheck); a rejected code object is a
// concrete failing program: it is reported (e.R.Spec) together with what the real VM does
// when the loop bound is raised past the stack's capacity.

import (
	"fmt"
	"strings"
	"time"
)

// c04SwitchStmt renders one switch statement over `subj`; values 0..2 can match when the
// subject ranges over small ints, values >= 50 never do.
func c04SwitchStmt(r *RNG, subj string, depth int) (string, bool) {
	var sb strings.Builder
	sb.WriteString("switch " + subj + " {\n")
	k := 1 + r.Intn(4)
	hasEmpty := false
	val := func() string {
		if r.Chance(65) {
			return fmt.Sprint(r.Intn(3))
		}
		return fmt.Sprint(50 + r.Intn(9))
	}
	body := func() string {
		switch r.Intn(5) {
		case 0:
			return "x++\n"
		case 1:
			return "x = x + 2\nx\n"
		case 2:
			return "q := 2\nx += q\n"
		case 3:
			if depth < 2 {
				s, _ := c04SwitchStmt(r, "x % 3", depth+1)
				return s + "\nx++\n"
			}
			return "x\n"
		default:
			return "7\n"
		}
	}
	defAt := -1
	if r.Chance(50) {
		defAt = r.Intn(k + 1)
	}
	for i := 0; i <= k; i++ {
		if i == defAt {
			sb.WriteString("default:\n")
			if r.Chance(50) {
				hasEmpty = true
			} else {
				sb.WriteString(body())
			}
		}
		if i == k {
			break
		}
		vs := val()
		if r.Chance(30) {
			vs += ", " + val()
			if r.Chance(30) {
				vs += ", " + val()
			}
		}
		sb.WriteString("case " + vs + ":\n")
		if r.Chance(55) {
			hasEmpty = true
		} else {
			sb.WriteString(body())
		}
	}
	sb.WriteString("}")
	return sb.String(), hasEmpty
}

// position: 0 first, 1 middle, 2 last statement of its statement list
func c04SwitchPlace(sw string, pos int) string {
	switch pos {
	case 0:
		return sw + "\nx += 1\n"
	case 1:
		return "x += 1\n" + sw + "\nx += 1\n"
	default:
		return "x += 1\n" + sw + "\n"
	}
}

var c04SwitchContexts = []struct {
	name string
	src  string // %[1]s = the statement list with the switch, %[2]d = the loop bound
}{
	{"program", "x := 0\ni := 1\n%[1]s"},
	{"block", "x := 0\ni := 2\nif x == 0 {\n%[1]s}\nx"},
	{"func-body", "x := 0\nfunc f(i) {\n%[1]s}\nfor j := 0; j < %[2]d; j++ { f(j %% 3) }\nx"},
	{"func-body-loop", "func f(n) {\nx := 0\nfor i := 0; i < n; i++ {\n%[1]s}\nreturn x\n}\nf(%[2]d)"},
	{"for3", "x := 0\nfor i := 0; i < %[2]d; i++ {\n%[1]s}\nx"},
	{"forcond", "x := 0\ni := 0\nfor i < %[2]d {\ni++\n%[1]s}\nx"},
	{"forever", "x := 0\ni := 0\nfor {\ni++\nif i > %[2]d { break }\n%[1]s}\nx"},
	{"range-int", "x := 0\nfor i := range %[2]d {\n%[1]s}\nx"},
	{"range-kv", "x := 0\nfor n := 0; n < %[2]d; n++ { for _, i := range [0, 1, 2] {\n%[1]s} }\nx"},
	{"for-in", "x := 0\nfor n := 0; n < %[2]d; n++ { for i in [0, 1, 2, 55] {\n%[1]s} }\nx"},
	{"range-novar", "x := 0\ni := 0\nfor range %[2]d {\ni = (i + 1) %% 3\n%[1]s}\nx"},
	{"nested-range", "x := 0\nfor a := range %[2]d { for i := range 3 {\n%[1]s} }\nx"},
}

// rejected programs of this run; those that the real VM fails on at the raised bound are reported first
var c04SwitchRuns, c04SwitchFailed int
var c04SwitchRejected []struct {
	src, detail string
	failed      bool
}

func c04SwitchOne(e *Env, r *RNG) {
	subj := Pick(r, []string{"i", "i", "i % 3", "x % 3", "i + 0", "1"})
	sw, hasEmpty := c04SwitchStmt(r, subj, 0)
	pos := r.Intn(3)
	ctx := Pick(r, c04SwitchContexts)
	stmts := c04SwitchPlace(sw, pos)
	src := fmt.Sprintf(ctx.src, stmts, 4)
	code, err := CompileSrc(src)
	if err != nil {
		e.R.H("switch_stmt", "does-not-compile:"+ErrClass(err.Error()))
		return
	}
	e.R.H("switch_stmt", fmt.Sprintf("%s:pos%d", ctx.name, pos))
	if hasEmpty {
		e.R.H("switch_stmt_clauses", "with-empty-clause")
	} else {
		e.R.H("switch_stmt_clauses", "no-empty-clause")
	}
	for _, cc := range code.Flatten() {
		e.R.Case(CodeText(cc), hasEmpty && c04NonTrivial(CodeText(cc)) || hasEmpty && pos < 2)
	}
	bad, _, _ := c04CheckCode(e, code)
	if len(bad) == 0 {
		c04HeightsCheck(e, src, code, 5*time.Second)
		return
	}
	detail := strings.Join(bad, "; ") + fmt.Sprintf(" | switch statement in position %d of context %s", pos, ctx.name)
	failed := false
	if c04SwitchRuns < 12 && c04SwitchFailed < 3 {
		c04SwitchRuns++
		small := EvalSrc(src, 10*time.Second)
		bigSrc := fmt.Sprintf(ctx.src, stmts, 3000)
		big := EvalSrc(bigSrc, 30*time.Second)
		detail += fmt.Sprintf(" | real VM, bound 4: %s; bound 3000: %s", c04ShowOut(small), c04ShowOut(big))
		if big.Err != "" && small.Err == "" || ErrClass(small.Err) == "panic" {
			failed = true
			c04SwitchFailed++
		}
	}
	c04SwitchRejected = append(c04SwitchRejected, struct {
		src, detail string
		failed      bool
	}{src, detail, failed})
}

func c04ShowOut(o EvalOut) string {
	if o.Err != "" {
		return "fails: " + o.Err
	}
	return "ok " + o.Value
}

func c04Switch(e *Env, r *RNG) {
	e.R.Rule += "; switch statements with empty case clauses, empty default, several values per clause and nested switches, in first / middle / last position of the program, a block, " +
		"a function body and the body of every loop form (three-part, condition, forever, range over int / list with and without variables, for-in, nested range), matched and unmatched at run time: " +
		"a case is one code object; non-trivial when the switch has an empty clause and is not the last statement or sits in a loop"
	n := 700
	if !e.Quick {
		n = 20000
	}
	for i := 0; i < n; i++ {
		c04SwitchOne(e, r.Fork())
	}
	for _, first := range []bool{true, false} {
		for _, x := range c04SwitchRejected {
			if x.failed == first {
				e.R.Spec(x.src, x.detail, "")
			}
		}
	}
	c04SwitchRejected = nil
}
