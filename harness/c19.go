package main

// C19 — standard-library wrappers agree with Go; encoders invert their decoders.
//
//  1. codecs (hex, base64, base32, urlquery, gzip, modules/base64): the real encode/decode
//     builtins against the Lean model byte for byte (Mismatch), against the Go library
//     function called directly, and against the Spec (decode∘encode = id on the real
//     results; input with alien bytes / impossible length is rejected).
//  2. json: generated value trees through encode/decode "json" and json.marshal/unmarshal,
//     against the Lean document-level model (Mismatch) and the Spec (round trip equal with
//     numbers equal as numbers; the two encoders agree).
//  3. module functions and string / byte_slice methods (strings, strconv, math, bytes,
//     filepath, regexp): the real builtin, through the object API and through scripts,
//     against the Go function called directly on the same argument tuple (Spec); the
//     strings module additionally against the Lean glue model (Mismatch).
//  4. sessions and liveness: the parts above look at a result once, right after its call, and
//     keep only a copy.  Sessions keep the LIVE result objects of several codec calls and hand
//     them on (a := encode(A); b := encode(B); decode(a)), re-examining every slot after every
//     step, through the object API and as one script, against the Go library (Spec) and the
//     Lean heap model (Mismatch).  Liveness does the same for every call of parts 1-3: the last
//     few result objects stay alive and must not change when later calls run, and no call may
//     change its arguments.
//  5. argument kinds and argument reuse (c19args.go): every function that takes a bytes-like
//     argument with every kind object/typeconv.go accepts there (string, byte_slice, buffer,
//     file), the same object used by several calls and by several parameters of one call,
//     against the Go function on the object's initial contents (Spec), the objects' contents
//     after every call (Spec), and the Lean argument-object model (Mismatch).

import (
	"bytes"
	"compress/gzip"
	"context"
	"encoding/base32"
	"encoding/base64"
	"encoding/hex"
	"encoding/json"
	"fmt"
	"io"
	"math"
	"net/url"
	"path/filepath"
	"regexp"
	"sort"
	"strconv"
	"strings"
	"unicode/utf8"

	"github.com/risor-io/risor"
	"github.com/risor-io/risor/builtins"
	modBase64 "github.com/risor-io/risor/modules/base64"
	modBytes "github.com/risor-io/risor/modules/bytes"
	modFilepath "github.com/risor-io/risor/modules/filepath"
	modJSON "github.com/risor-io/risor/modules/json"
	modMath "github.com/risor-io/risor/modules/math"
	modRegexp "github.com/risor-io/risor/modules/regexp"
	modStrconv "github.com/risor-io/risor/modules/strconv"
	modStrings "github.com/risor-io/risor/modules/strings"
	"github.com/risor-io/risor/object"
)

func init() { commands["C19"] = c19_runC19 }

// ------------------------------------------------------------------ value trees / tokens

// jv mirrors the Lean `Val`: k ∈ n t f i d y s b l m
type c19_jv struct {
	k  byte
	i  int64
	d  uint64 // float bits
	s  string
	xs []*c19_jv
	ks []string // map keys (parallel to xs)
}

func c19_hx(s string) string {
	if s == "" {
		return "-"
	}
	return hex.EncodeToString([]byte(s))
}

func (v *c19_jv) tok() string {
	switch v.k {
	case 'n', 't', 'f':
		return string(v.k)
	case 'i':
		return "i" + strconv.FormatInt(v.i, 10)
	case 'd':
		return "d" + strconv.FormatUint(v.d, 10)
	case 'y':
		return "y" + strconv.FormatInt(v.i, 10)
	case 's':
		return "s" + c19_hx(v.s)
	case 'b':
		return "b" + c19_hx(v.s)
	case 'l':
		var sb strings.Builder
		sb.WriteString("l" + strconv.Itoa(len(v.xs)))
		for _, x := range v.xs {
			sb.WriteString(" " + x.tok())
		}
		return sb.String()
	case 'm':
		var sb strings.Builder
		sb.WriteString("m" + strconv.Itoa(len(v.xs)))
		for i, x := range v.xs {
			sb.WriteString(" s" + c19_hx(v.ks[i]) + " " + x.tok())
		}
		return sb.String()
	}
	return "?"
}

func (v *c19_jv) sortKeys() *c19_jv {
	for _, x := range v.xs {
		x.sortKeys()
	}
	if v.k == 'm' {
		idx := make([]int, len(v.ks))
		for i := range idx {
			idx[i] = i
		}
		sort.SliceStable(idx, func(a, b int) bool { return v.ks[idx[a]] < v.ks[idx[b]] })
		ks, xs := make([]string, len(idx)), make([]*c19_jv, len(idx))
		for i, j := range idx {
			ks[i], xs[i] = v.ks[j], v.xs[j]
		}
		v.ks, v.xs = ks, xs
	}
	return v
}

func (v *c19_jv) obj() object.Object {
	switch v.k {
	case 'n':
		return object.Nil
	case 't':
		return object.True
	case 'f':
		return object.False
	case 'i':
		return object.NewInt(v.i)
	case 'd':
		return object.NewFloat(math.Float64frombits(v.d))
	case 'y':
		return object.NewByte(byte(v.i))
	case 's':
		return object.NewString(v.s)
	case 'b':
		return object.NewByteSlice([]byte(v.s))
	case 'l':
		items := make([]object.Object, len(v.xs))
		for i, x := range v.xs {
			items[i] = x.obj()
		}
		return object.NewList(items)
	case 'm':
		m := map[string]object.Object{}
		for i, x := range v.xs {
			m[v.ks[i]] = x.obj()
		}
		return object.NewMap(m)
	}
	return object.Nil
}

// jvOfObj renders a result object (map keys sorted); nil for types outside the universe.
func c19_jvOfObj(o object.Object) *c19_jv {
	switch o := o.(type) {
	case *object.NilType:
		return &c19_jv{k: 'n'}
	case *object.Bool:
		if o.Value() {
			return &c19_jv{k: 't'}
		}
		return &c19_jv{k: 'f'}
	case *object.Int:
		return &c19_jv{k: 'i', i: o.Value()}
	case *object.Float:
		b := math.Float64bits(o.Value())
		if o.Value() != o.Value() {
			b = 0x7ff8000000000001 // one NaN
		}
		return &c19_jv{k: 'd', d: b}
	case *object.Byte:
		return &c19_jv{k: 'y', i: int64(o.Value())}
	case *object.String:
		return &c19_jv{k: 's', s: o.Value()}
	case *object.ByteSlice:
		return &c19_jv{k: 'b', s: string(o.Value())}
	case *object.List:
		r := &c19_jv{k: 'l'}
		for _, it := range o.Value() {
			x := c19_jvOfObj(it)
			if x == nil {
				return nil
			}
			r.xs = append(r.xs, x)
		}
		return r
	case *object.Map:
		r := &c19_jv{k: 'm'}
		m := o.Value()
		for _, k := range sortedKeys(m) {
			x := c19_jvOfObj(m[k])
			if x == nil {
				return nil
			}
			r.ks = append(r.ks, k)
			r.xs = append(r.xs, x)
		}
		return r
	}
	return nil
}

func c19_parseTokens(toks []string) (*c19_jv, []string) {
	if len(toks) == 0 {
		return nil, nil
	}
	t, rest := toks[0], toks[1:]
	if t == "" {
		return nil, nil
	}
	unhex := func(s string) (string, bool) {
		if s == "-" {
			return "", true
		}
		b, err := hex.DecodeString(s)
		return string(b), err == nil
	}
	switch t[0] {
	case 'n', 't', 'f':
		if len(t) == 1 {
			return &c19_jv{k: t[0]}, rest
		}
	case 'i', 'y':
		n, err := strconv.ParseInt(t[1:], 10, 64)
		if err == nil {
			return &c19_jv{k: t[0], i: n}, rest
		}
	case 'd':
		n, err := strconv.ParseUint(t[1:], 10, 64)
		if err == nil {
			return &c19_jv{k: 'd', d: n}, rest
		}
	case 's', 'b':
		if s, ok := unhex(t[1:]); ok {
			return &c19_jv{k: t[0], s: s}, rest
		}
	case 'l':
		n, err := strconv.Atoi(t[1:])
		if err != nil {
			return nil, nil
		}
		r := &c19_jv{k: 'l'}
		for i := 0; i < n; i++ {
			var x *c19_jv
			x, rest = c19_parseTokens(rest)
			if x == nil {
				return nil, nil
			}
			r.xs = append(r.xs, x)
		}
		return r, rest
	case 'm':
		n, err := strconv.Atoi(t[1:])
		if err != nil {
			return nil, nil
		}
		r := &c19_jv{k: 'm'}
		for i := 0; i < n; i++ {
			if len(rest) == 0 || rest[0] == "" || rest[0][0] != 's' {
				return nil, nil
			}
			k, ok := unhex(rest[0][1:])
			if !ok {
				return nil, nil
			}
			var x *c19_jv
			x, rest = c19_parseTokens(rest[1:])
			if x == nil {
				return nil, nil
			}
			r.ks = append(r.ks, k)
			r.xs = append(r.xs, x)
		}
		return r, rest
	}
	return nil, nil
}

// canonTok re-sorts the map keys of a token string produced by the oracle.
func c19_canonTok(s string) string {
	if s == "err" {
		return s
	}
	v, rest := c19_parseTokens(strings.Fields(s))
	if v == nil || len(rest) != 0 {
		return "unparsable:" + s
	}
	return v.sortKeys().tok()
}

// floatIsInt reports whether the float denotes exactly the integer n.
func c19_floatIsInt(bits uint64, n int64) bool {
	f := math.Float64frombits(bits)
	if f != math.Trunc(f) || math.IsInf(f, 0) || f != f {
		return false
	}
	if f >= 9223372036854775808.0 || f < -9223372036854775808.0 {
		return false
	}
	return int64(f) == n
}

// specEq is the Spec equality between an original value and what came back (numbers equal
// as numbers, a byte_slice may come back as a string with the same bytes).
func c19_specEq(a, b *c19_jv) bool {
	switch {
	case a.k == 'n' || a.k == 't' || a.k == 'f':
		return a.k == b.k
	case a.k == 'i' && b.k == 'i':
		return a.i == b.i
	case (a.k == 'i' || a.k == 'y') && b.k == 'd':
		return c19_floatIsInt(b.d, a.i)
	case a.k == 'd' && b.k == 'd':
		return a.d == b.d
	case a.k == 's' && b.k == 's':
		return a.s == b.s
	case a.k == 'b' && (b.k == 'b' || b.k == 's'):
		return a.s == b.s
	case (a.k == 'l' && b.k == 'l') || (a.k == 'm' && b.k == 'm'):
		if len(a.xs) != len(b.xs) {
			return false
		}
		for i := range a.xs {
			if a.k == 'm' && a.ks[i] != b.ks[i] {
				return false
			}
			if !c19_specEq(a.xs[i], b.xs[i]) {
				return false
			}
		}
		return true
	}
	return false
}

// ------------------------------------------------------------------ calling risor

var c19ctx = context.Background()

// outcome of a call: "val <tokens>", "err:args", "err:type", "err", "panic", "other:<type>"
func c19_outcomeOf(o object.Object) string {
	if e, ok := o.(*object.Error); ok {
		msg := e.Value().Error()
		switch {
		case strings.HasPrefix(msg, "args error:"):
			return "err:args"
		case strings.HasPrefix(msg, "type error:"):
			return "err:type"
		}
		return "err"
	}
	if o == nil {
		return "other:<nil>"
	}
	if rx, ok := o.(*modRegexp.Regexp); ok { // a compiled pattern: identified by the source of its pattern
		if re, ok := rx.Interface().(*regexp.Regexp); ok && re != nil {
			return "val r" + c19_hx(re.String())
		}
		return "other:regexp-without-pattern"
	}
	v := c19_jvOfObj(o)
	if v == nil {
		return "other:" + string(o.Type())
	}
	return "val " + v.tok()
}

func c19_callObj(fn object.Object, args ...object.Object) (out string) {
	defer func() {
		if r := recover(); r != nil {
			out = "panic"
		}
	}()
	b, ok := fn.(*object.Builtin)
	if !ok {
		return "other:not-a-builtin"
	}
	before := c19_liveBefore(args)
	res := b.Call(c19ctx, args...)
	out = c19_outcomeOf(res)
	c19_liveAfter(b.Name(), args, before, res, out)
	return out
}

func c19_evalScript(src string, args []object.Object) (out string) {
	defer func() {
		if r := recover(); r != nil {
			out = "panic(escaped Eval)"
		}
	}()
	g := map[string]any{}
	for i, a := range args {
		g["a"+strconv.Itoa(i)] = a
	}
	before := c19_liveBefore(args)
	res, err := risor.Eval(c19ctx, src, risor.WithGlobals(g))
	if err != nil {
		c19_liveAfter("script{"+src+"}", args, before, nil, "err")
		msg := err.Error()
		switch {
		case strings.HasPrefix(msg, "panic:"):
			return "panic"
		case strings.HasPrefix(msg, "args error:"):
			return "err:args"
		case strings.HasPrefix(msg, "type error:"):
			return "err:type"
		}
		return "err"
	}
	out = c19_outcomeOf(res)
	c19_liveAfter("script{"+src+"}", args, before, res, out)
	return out
}

// ------------------------------------------------------------------ liveness of results and arguments
//
// Every call made through callObj / evalScript is watched: (1) the call must leave its
// arguments as they were; (2) the objects returned by the last few calls are kept ALIVE (the
// object itself, not a copy) and looked at again after every later call: a value that was
// returned stays what it was, whatever runs afterwards (no pooled / cached / shared output
// buffer behind a byte_slice, string, list or map).

type c19_liveEnt struct {
	fn   string
	args []string
	obj  object.Object
	tok  string
}

var c19Live struct {
	r                         *Result
	ents                      []c19_liveEnt
	rechecks, tracked, argChk int
}

const c19LiveCap = 6

func c19_tokOf(o object.Object) string {
	if o == nil {
		return "?<nil>"
	}
	if v := c19_jvOfObj(o); v != nil {
		return v.tok()
	}
	if b, ok := o.(*object.Buffer); ok { // a buffer argument: its contents (looking does not read)
		return "B" + c19_hx(string(b.Value().Bytes()))
	}
	return "?" + string(o.Type())
}

func c19_liveBefore(args []object.Object) []string {
	if c19Live.r == nil {
		return nil
	}
	t := make([]string, len(args))
	for i, a := range args {
		t[i] = c19_tokOf(a)
	}
	return t
}

func c19_liveDesc(fn string, args []string) string { return fn + "(" + strings.Join(args, ", ") + ")" }

func c19_liveAfter(fn string, args []object.Object, before []string, res object.Object, out string) {
	L := &c19Live
	if L.r == nil || before == nil && len(args) > 0 {
		return
	}
	for i, a := range args {
		L.argChk++
		if now := c19_tokOf(a); now != before[i] {
			L.r.Spec(fmt.Sprintf("argument-changed %s arg%d", c19_liveDesc(fn, before), i),
				fmt.Sprintf("argument %d was %s before the call and is %s after it: the call changed its argument", i, before[i], now), "")
		}
	}
	kept := L.ents[:0]
	for _, en := range L.ents {
		L.rechecks++
		if now := c19_tokOf(en.obj); now != en.tok {
			L.r.Spec("result-changed "+c19_liveDesc(en.fn, en.args)+" ; then "+c19_liveDesc(fn, before),
				fmt.Sprintf("the first call returned %s; the SAME object, looked at again after the second call, is %s: a returned value changed when a later call ran", en.tok, now), "")
			continue
		}
		kept = append(kept, en)
	}
	L.ents = kept
	switch res.(type) {
	case *object.ByteSlice, *object.String, *object.List, *object.Map:
		if strings.HasPrefix(out, "val ") {
			if len(L.ents) >= c19LiveCap {
				L.ents = append(L.ents[:0], L.ents[1:]...)
			}
			L.ents = append(L.ents, c19_liveEnt{fn, before, res, out[4:]})
			L.tracked++
		}
	}
}

func c19_coarse(o string) string {
	if strings.HasPrefix(o, "err") {
		return "err"
	}
	return o
}

func c19_argList(n int) string {
	s := make([]string, n)
	for i := range s {
		s[i] = "a" + strconv.Itoa(i)
	}
	return strings.Join(s, ", ")
}

// ------------------------------------------------------------------ generators

var c19Atoms = []string{"a", "b", "ab", "abc", "A", "Z", " ", "  ", "\t", "\n", ",", ".", "/", "..", "-", "_", "%", "+", "=",
	"é", "É", "ß", "İ", "ı", "ǅ", "日本", "語", "😀", " ", " ", "\u0085", "\x00", "\xff", "\xc3", "\xe2\x82",
	"\xed\xa0\x80", "\xf4\x90\x80\x80", "\xc0\xaf", "0", "1", "7", "10", "x", "aa", "aaa", "\r\n", "'", "\"", "\\", "<", ">", "&",
	"$1", "σ", "Σ", "ς", "é", "�", "\xe9"}

func c19Str(r *RNG) string {
	switch r.Intn(12) {
	case 0:
		return ""
	case 1:
		return Pick(r, c19Atoms)
	case 2:
		n := 1 + r.Intn(6)
		b := make([]byte, n)
		for i := range b {
			b[i] = byte(r.Next())
		}
		return string(b)
	case 3:
		return strings.Repeat(Pick(r, c19Atoms), 2+r.Intn(20))
	}
	n := 1 + r.Intn(5)
	var sb strings.Builder
	for i := 0; i < n; i++ {
		sb.WriteString(Pick(r, c19Atoms))
	}
	return sb.String()
}

func c19Sub(r *RNG, s string) string {
	if len(s) == 0 {
		return ""
	}
	i := r.Intn(len(s) + 1)
	j := i + r.Intn(len(s)-i+1)
	return s[i:j]
}

var c19Ints = []int64{0, 1, -1, 2, 3, 7, 8, 10, 16, 32, 36, 37, 62, 63, 64, 65, 100, 255, 256, -2, -3, 308, 309, -323, -324,
	math.MaxInt64, math.MinInt64, math.MaxInt32, math.MinInt32, 1 << 53, 1<<53 + 1, -(1 << 53) - 1, 1<<53 - 1, 1 << 62,
	math.MaxInt64 - 511, math.MaxInt64 - 512, math.MaxInt64 - 513, 1<<63 - 1025, 123456789012345678, -987654321987654321}

func c19Int(r *RNG) int64 {
	switch r.Intn(5) {
	case 0:
		return int64(r.Intn(41)) - 20
	case 1:
		return int64(r.Next())
	case 2:
		return int64(r.Next()) >> uint(r.Intn(64))
	}
	return Pick(r, c19Ints)
}

var c19Floats = []float64{0, math.Copysign(0, -1), 1, -1, 0.5, -0.5, 1.5, 2.5, -2.5, 3.5, math.NaN(), math.Inf(1), math.Inf(-1),
	math.MaxFloat64, -math.MaxFloat64, math.SmallestNonzeroFloat64, 1e308, 9007199254740992, 9223372036854775808, -9223372036854775808,
	308, 309, -323, -324, math.Pi, math.E, 1e-320, 0.1, 100, 4, 2, -8, 1e15, 1e21, 1e-7, 123.456, -1e-300, 2.2250738585072014e-308}

func c19Float(r *RNG) float64 {
	switch r.Intn(4) {
	case 0:
		return math.Float64frombits(r.Next())
	case 1:
		return float64(int64(r.Intn(2001))-1000) / 8
	}
	return Pick(r, c19Floats)
}

type c19_argFeat struct{ nonASCII, invalid, empty, negative, boundary, wrongType, wrongArity bool }

func (f *c19_argFeat) nontrivial() bool {
	return f.nonASCII || f.invalid || f.empty || f.negative || f.boundary
}

func (f *c19_argFeat) noteStr(s string) {
	if s == "" {
		f.empty = true
	}
	if !utf8.ValidString(s) {
		f.invalid = true
	}
	for i := 0; i < len(s); i++ {
		if s[i] >= 0x80 {
			f.nonASCII = true
			break
		}
	}
}
func (f *c19_argFeat) noteInt(n int64) {
	if n < 0 {
		f.negative = true
	}
	if n == 0 || n > 1<<31 || n < -(1<<31) {
		f.boundary = true
	}
}
func (f *c19_argFeat) noteFloat(x float64) {
	if x < 0 || math.Signbit(x) {
		f.negative = true
	}
	if x == 0 || x != x || math.IsInf(x, 0) || math.Abs(x) >= 1<<53 || (x != 0 && math.Abs(x) < 2.3e-308) {
		f.boundary = true
	}
}

var c19Paths = []string{"", ".", "..", "/", "a", "a/b", "/a/b", "a/../b", "a//b/", "/a/./b/..", "a.txt", "a/b.tar.gz", ".hidden", "a/.b",
	"/é/日本.txt", "a b/c", "../x", "/..", "a/b/", "x.", "a:b", ":", "a::b:", "\xff/\xfe.x", "*", "a*", "[a-c]", "[", "a?", "\\*", "[^a]", "[a-", "a/*/c", "é?"}
var c19Regexps = []string{"a+", "(a)(b)?", "[a-z]+", "", "\\s+", "(?i)é", "a|b", ".", "^", "$", "\\b", "x*", "(", "[", "a{2,1}", "\\p{Greek}+",
	"(?P<n>a)(b)", "日", ".*?", "a{1001}", "(a|ab)(c|bcd)", "\\d+", "[^a]", "\\C", "(?s).", "\xff", "é+", "(\\w)(\\w)"}
var c19Numeric = []string{"0", "1", "-1", "+7", "007", "12", "9223372036854775807", "9223372036854775808", "-9223372036854775808", "-9223372036854775809",
	"0x1f", "0b101", "0o17", "1_000", "1e3", "1.5", "-0", ".5", "5.", "inf", "-Inf", "NaN", "nan", "Infinity", "0x1p-2", "1e309", "1e-400", "4.9e-324",
	"true", "T", "FALSE", "f", "t", "yes", "", " 1", "1 ", "١٢", "z", "ff", "FF", "-ff", "7fffffffffffffff", "8000000000000000", "1e", "--1", "0x", "_1", "1__0", "0_1", "1.7976931348623159e308"}

// genArg produces one argument of the given kind; arg0 (when string-like) lets later
// string arguments be correlated with it.
func c19_genArg(r *RNG, kind byte, arg0 string, f *c19_argFeat) object.Object {
	str := func() string {
		s := ""
		switch kind {
		case 'p':
			if r.Chance(70) {
				s = Pick(r, c19Paths)
			} else {
				s = Pick(r, c19Paths) + "/" + Pick(r, c19Paths)
			}
		case 'r':
			s = Pick(r, c19Regexps)
		case 'n':
			if r.Chance(80) {
				s = Pick(r, c19Numeric)
			} else {
				s = c19Str(r)
			}
		default:
			x := r.Intn(10)
			switch {
			case arg0 != "" && x < 4:
				s = c19Sub(r, arg0)
			case arg0 != "" && x == 4:
				s = ""
			default:
				s = c19Str(r)
			}
		}
		f.noteStr(s)
		return s
	}
	switch kind {
	case 's', 'p', 'r', 'n':
		s := str()
		if r.Chance(15) {
			return object.NewByteSlice([]byte(s))
		}
		return object.NewString(s)
	case 'S':
		return object.NewString(str())
	case 'b':
		s := str()
		if r.Chance(30) {
			return object.NewString(s)
		}
		return object.NewByteSlice([]byte(s))
	case 'B':
		return object.NewByteSlice([]byte(str()))
	case 'i':
		n := c19Int(r)
		if r.Chance(8) {
			n &= 255
			f.noteInt(n)
			return object.NewByte(byte(n))
		}
		f.noteInt(n)
		return object.NewInt(n)
	case 'c': // repeat count: small, negative, or certainly overflowing (fixed up against len(s) by the spec)
		var n int64
		switch r.Intn(10) {
		case 0:
			n = -1 - int64(r.Intn(5))
		case 1:
			n = math.MinInt64
		case 2:
			n = math.MaxInt64 - int64(r.Intn(3))
		case 3:
			n = 1 << 62
		default:
			n = int64(r.Intn(12))
		}
		f.noteInt(n)
		return object.NewInt(n)
	case 'k': // small count
		n := int64(r.Intn(8)) - 2
		if r.Chance(5) {
			n = Pick(r, c19Ints)
		}
		f.noteInt(n)
		return object.NewInt(n)
	case 'e': // base
		n := Pick(r, []int64{0, 2, 8, 10, 16, 36, 10, 10, 1, 37, -1, 62, 1 << 40})
		f.noteInt(n)
		return object.NewInt(n)
	case 'z': // bit size
		n := Pick(r, []int64{0, 8, 16, 32, 64, 64, 4, 65, -1, 128, 1})
		f.noteInt(n)
		return object.NewInt(n)
	case 'f':
		switch r.Intn(10) {
		case 0, 1, 2:
			n := c19Int(r)
			f.noteInt(n)
			return object.NewInt(n)
		case 3:
			n := int64(r.Intn(256))
			f.noteInt(n)
			return object.NewByte(byte(n))
		}
		x := c19Float(r)
		f.noteFloat(x)
		return object.NewFloat(x)
	case 'l':
		n := r.Intn(5)
		items := make([]object.Object, n)
		for i := range items {
			s := c19Str(r)
			f.noteStr(s)
			if r.Chance(15) {
				items[i] = object.NewByteSlice([]byte(s))
			} else {
				items[i] = object.NewString(s)
			}
		}
		if n == 0 {
			f.empty = true
		}
		return object.NewList(items)
	case 'o':
		if r.Bool() {
			return object.True
		}
		return object.False
	}
	return object.Nil
}

// accepts reports whether the converter behind the kind accepts the object.
func c19_accepts(kind byte, o object.Object) bool {
	switch kind {
	case 's', 'p', 'r', 'n', 'b':
		switch o.(type) {
		case *object.String, *object.ByteSlice:
			return true
		}
	case 'S':
		_, ok := o.(*object.String)
		return ok
	case 'B':
		_, ok := o.(*object.ByteSlice)
		return ok
	case 'i', 'c', 'k', 'e', 'z':
		switch o.(type) {
		case *object.Int, *object.Byte:
			return true
		}
	case 'f':
		switch o.(type) {
		case *object.Int, *object.Byte, *object.Float:
			return true
		}
	case 'l':
		l, ok := o.(*object.List)
		if !ok {
			return false
		}
		for _, it := range l.Value() {
			if !c19_accepts('s', it) {
				return false
			}
		}
		return true
	case 'o':
		_, ok := o.(*object.Bool)
		return ok
	}
	return false
}

func c19_wrongTyped(r *RNG, kind byte) object.Object {
	cands := []object.Object{object.Nil, object.NewInt(3), object.NewFloat(1.5), object.True, object.NewString("x"),
		object.NewList([]object.Object{object.NewInt(1)}), object.NewMap(map[string]object.Object{"a": object.NewInt(1)}), object.NewByteSlice([]byte("x"))}
	for tries := 0; tries < 20; tries++ {
		c := Pick(r, cands)
		if !c19_accepts(kind, c) {
			return c
		}
	}
	return object.Nil
}

func c19_sOf(o object.Object) string {
	switch o := o.(type) {
	case *object.String:
		return o.Value()
	case *object.ByteSlice:
		return string(o.Value())
	}
	return ""
}
func c19_iOf(o object.Object) int64 {
	switch o := o.(type) {
	case *object.Int:
		return o.Value()
	case *object.Byte:
		return int64(o.Value())
	}
	return 0
}
func c19_fOf(o object.Object) float64 {
	switch o := o.(type) {
	case *object.Int:
		return float64(o.Value())
	case *object.Byte:
		return float64(o.Value())
	case *object.Float:
		return o.Value()
	}
	return 0
}
func c19_lOf(o object.Object) []string {
	l := o.(*object.List).Value()
	r := make([]string, len(l))
	for i, it := range l {
		r[i] = c19_sOf(it)
	}
	return r
}

func c19_vS(s string) string   { return "val s" + c19_hx(s) }
func c19_vBy(s []byte) string  { return "val b" + c19_hx(string(s)) }
func c19_vI(n int64) string    { return "val i" + strconv.FormatInt(n, 10) }
func c19_vInt(n int) string    { return c19_vI(int64(n)) }
func c19_vB(b bool) string     { return "val " + map[bool]string{true: "t", false: "f"}[b] }
func c19_vF(x float64) string  { return c19_outcomeOf(object.NewFloat(x)) }
func c19_vL(l []string) string { return c19_outcomeOf(object.NewStringList(l)) }
func c19_vErr(err error, ok func() string) string {
	if err != nil {
		return "err"
	}
	return ok()
}

// guarded runs a Go library call that may panic.
func c19_guarded(f func() string) (out string) {
	defer func() {
		if r := recover(); r != nil {
			out = "gopanic"
		}
	}()
	return f()
}

// ------------------------------------------------------------------ wrapper table

type c19_fnSpec struct {
	mod, name string
	kinds     string // one letter per required argument (see genArg)
	opt       string // kinds of optional trailing arguments
	recv      bool   // method of args[0] (string / byte_slice / regexp object)
	// spec: what the Go standard-library function returns on these (well-typed) arguments:
	// "val …", "err" (the Go function reports an error) or "gopanic" (the Go function is not
	// defined there; the property then demands a script error, not a panic)
	spec func(a []object.Object) string
	// badType: outcome demanded when an argument has an unaccepted type ("err" if nil)
	badType func(a []object.Object) string
	fix     func(a []object.Object)
	// known: (finding id, deviation the unchanged code shows) for arguments inside a known finding's guard
	known func(a []object.Object) (string, string)
	skip  func(a []object.Object) bool
	fixed [][]object.Object // argument tuples always run first (witnesses of the known findings, boundary rows)
}

func c19_repeatFix(a []object.Object) {
	// keep the Go call either cheap or certainly refused: never a huge-but-allocatable product
	n := c19_iOf(a[1])
	l := int64(len(c19_sOf(a[0])))
	if n > 64 && l < 2 {
		a[1] = object.NewInt(3)
	}
}

// (Before the repairs "fix: strings.repeat, bytes.repeat and byte_slice.repeat return an error
// instead of panicking" and "fix: bytes.contains_rune and bytes.index_rune accept a multi-byte
// character" two functions stood here that attributed a panic of repeat and the refusal of a
// multi-byte character to the findings C19-repeat-panics / C19-bytes-rune-multibyte.  Both are
// repaired: a recurrence is an unlisted violation.)

// the single valid character denoted by s, if any
func c19_singleRune(s string) (rune, bool) {
	if !utf8.ValidString(s) || utf8.RuneCountInString(s) != 1 {
		return 0, false
	}
	r, _ := utf8.DecodeRuneInString(s)
	return r, true
}

// equals/contains answer false (not an error) when the *operand* has an unaccepted type
func c19_falseOnBadType(a []object.Object) string {
	if len(a) == 2 && (c19_accepts('S', a[0]) || c19_accepts('B', a[0])) && !c19_accepts('b', a[1]) {
		return "val f"
	}
	return "err"
}

var c19_reCache = map[string]*regexp.Regexp{}

func c19_reOf(p string) *regexp.Regexp {
	if re, ok := c19_reCache[p]; ok {
		return re
	}
	re, err := regexp.Compile(p)
	if err != nil {
		re = nil
	}
	c19_reCache[p] = re
	return re
}

func c19Specs() []c19_fnSpec {
	ss := func(name string, f func(a, b string) string) c19_fnSpec {
		return c19_fnSpec{mod: "strings", name: name, kinds: "ss", spec: func(a []object.Object) string { return f(c19_sOf(a[0]), c19_sOf(a[1])) }}
	}
	s1 := func(name string, f func(a string) string) c19_fnSpec {
		return c19_fnSpec{mod: "strings", name: name, kinds: "s", spec: func(a []object.Object) string { return f(c19_sOf(a[0])) }}
	}
	specs := []c19_fnSpec{
		ss("contains", func(a, b string) string { return c19_vB(strings.Contains(a, b)) }),
		ss("has_prefix", func(a, b string) string { return c19_vB(strings.HasPrefix(a, b)) }),
		ss("has_suffix", func(a, b string) string { return c19_vB(strings.HasSuffix(a, b)) }),
		ss("count", func(a, b string) string { return c19_vInt(strings.Count(a, b)) }),
		ss("compare", func(a, b string) string { return c19_vInt(strings.Compare(a, b)) }),
		{mod: "strings", name: "repeat", kinds: "sc", fix: c19_repeatFix, spec: func(a []object.Object) string {
			return c19_guarded(func() string { return c19_vS(strings.Repeat(c19_sOf(a[0]), int(c19_iOf(a[1])))) })
		}},
		{mod: "strings", name: "join", kinds: "ls", spec: func(a []object.Object) string { return c19_vS(strings.Join(c19_lOf(a[0]), c19_sOf(a[1]))) }},
		ss("split", func(a, b string) string { return c19_vL(strings.Split(a, b)) }),
		s1("fields", func(a string) string { return c19_vL(strings.Fields(a)) }),
		ss("index", func(a, b string) string { return c19_vInt(strings.Index(a, b)) }),
		ss("last_index", func(a, b string) string { return c19_vInt(strings.LastIndex(a, b)) }),
		{mod: "strings", name: "replace_all", kinds: "sss", spec: func(a []object.Object) string {
			return c19_vS(strings.ReplaceAll(c19_sOf(a[0]), c19_sOf(a[1]), c19_sOf(a[2])))
		}},
		s1("to_lower", func(a string) string { return c19_vS(strings.ToLower(a)) }),
		s1("to_upper", func(a string) string { return c19_vS(strings.ToUpper(a)) }),
		ss("trim", func(a, b string) string { return c19_vS(strings.Trim(a, b)) }),
		ss("trim_prefix", func(a, b string) string { return c19_vS(strings.TrimPrefix(a, b)) }),
		ss("trim_suffix", func(a, b string) string { return c19_vS(strings.TrimSuffix(a, b)) }),
		s1("trim_space", func(a string) string { return c19_vS(strings.TrimSpace(a)) }),
	}
	// string methods: same Go functions, receiver first
	for _, sp := range specs[:len(specs):len(specs)] {
		m := sp
		m.mod, m.recv = "string", true
		switch sp.name {
		case "compare", "repeat":
			continue
		case "join": // sep.join(list)
			m.kinds = "Sl"
			m.spec = func(a []object.Object) string { return c19_vS(strings.Join(c19_lOf(a[1]), c19_sOf(a[0]))) }
		case "contains":
			m.kinds = "S" + sp.kinds[1:]
			m.badType = c19_falseOnBadType
		default:
			m.kinds = "S" + sp.kinds[1:]
		}
		specs = append(specs, m)
	}
	// strconv
	specs = append(specs,
		c19_fnSpec{mod: "strconv", name: "atoi", kinds: "n", spec: func(a []object.Object) string {
			n, err := strconv.Atoi(c19_sOf(a[0]))
			return c19_vErr(err, func() string { return c19_vInt(n) })
		}},
		c19_fnSpec{mod: "strconv", name: "parse_bool", kinds: "n", spec: func(a []object.Object) string {
			b, err := strconv.ParseBool(c19_sOf(a[0]))
			return c19_vErr(err, func() string { return c19_vB(b) })
		}},
		c19_fnSpec{mod: "strconv", name: "parse_float", kinds: "n", spec: func(a []object.Object) string {
			x, err := strconv.ParseFloat(c19_sOf(a[0]), 64)
			return c19_vErr(err, func() string { return c19_vF(x) })
		}},
		c19_fnSpec{mod: "strconv", name: "parse_int", kinds: "n", opt: "ez", spec: func(a []object.Object) string {
			base, bits := 10, 64
			if len(a) > 1 {
				base = int(c19_iOf(a[1]))
			}
			if len(a) > 2 {
				bits = int(c19_iOf(a[2]))
			}
			n, err := strconv.ParseInt(c19_sOf(a[0]), base, bits)
			return c19_vErr(err, func() string { return c19_vI(n) })
		}},
	)
	// math
	f1 := func(name string, g func(float64) float64) c19_fnSpec {
		return c19_fnSpec{mod: "math", name: name, kinds: "f", spec: func(a []object.Object) string { return c19_vF(g(c19_fOf(a[0]))) }}
	}
	f2 := func(name string, g func(x, y float64) float64) c19_fnSpec {
		return c19_fnSpec{mod: "math", name: name, kinds: "ff", spec: func(a []object.Object) string { return c19_vF(g(c19_fOf(a[0]), c19_fOf(a[1]))) }}
	}
	intKeeps := func(name string, g func(float64) float64) c19_fnSpec { // ceil/floor hand an int back unchanged
		return c19_fnSpec{mod: "math", name: name, kinds: "f", spec: func(a []object.Object) string {
			if _, ok := a[0].(*object.Int); ok {
				return c19_outcomeOf(a[0])
			}
			return c19_vF(g(c19_fOf(a[0])))
		}, skip: func(a []object.Object) bool { _, ok := a[0].(*object.Byte); return ok }}
	}
	noByte := func(sp c19_fnSpec) c19_fnSpec { // abs/sqrt/sin/cos switch on Int and Float only
		sp.skip = func(a []object.Object) bool { _, ok := a[0].(*object.Byte); return ok }
		return sp
	}
	specs = append(specs,
		noByte(c19_fnSpec{mod: "math", name: "abs", kinds: "f", spec: func(a []object.Object) string {
			if n, ok := a[0].(*object.Int); ok {
				v := n.Value()
				if v < 0 {
					v = -v
				}
				return c19_vI(v)
			}
			return c19_vF(math.Abs(c19_fOf(a[0])))
		}}),
		noByte(f1("sqrt", math.Sqrt)), noByte(f1("sin", math.Sin)), noByte(f1("cos", math.Cos)), f1("tan", math.Tan),
		f1("log", math.Log), f1("log10", math.Log10), f1("log2", math.Log2), f1("round", math.Round),
		intKeeps("ceil", math.Ceil), intKeeps("floor", math.Floor),
		f2("pow", math.Pow), f2("mod", math.Mod), f2("max", math.Max), f2("min", math.Min), f2("atan2", math.Atan2),
		c19_fnSpec{mod: "math", name: "is_inf", kinds: "f", spec: func(a []object.Object) string { return c19_vB(math.IsInf(c19_fOf(a[0]), 0)) }},
		c19_fnSpec{mod: "math", name: "inf", kinds: "", opt: "i", spec: func(a []object.Object) string {
			sign := 1
			if len(a) == 1 {
				sign = int(c19_iOf(a[0]))
			}
			return c19_vF(math.Inf(sign))
		}},
		c19_fnSpec{mod: "math", name: "pow10", kinds: "f", spec: func(a []object.Object) string {
			if _, ok := a[0].(*object.Float); ok {
				return c19_vF(math.Pow10(int(c19_fOf(a[0]))))
			}
			return c19_vF(math.Pow10(int(c19_iOf(a[0])))) // math.Pow10 is a function of an int
		}, skip: func(a []object.Object) bool { // Pow10 is defined on ints: floats only when they denote a small one
			x, ok := a[0].(*object.Float)
			return ok && (x.Value() != math.Trunc(x.Value()) || math.Abs(x.Value()) > 1e6 || x.Value() != x.Value())
		}},
	)
	// bytes module + byte_slice methods
	bb := func(name string, f func(a, b []byte) string) c19_fnSpec {
		return c19_fnSpec{mod: "bytes", name: name, kinds: "Bb", spec: func(a []object.Object) string { return f([]byte(c19_sOf(a[0])), []byte(c19_sOf(a[1]))) }}
	}
	bs := []c19_fnSpec{
		{mod: "bytes", name: "clone", kinds: "B", spec: func(a []object.Object) string { return c19_vBy(bytes.Clone([]byte(c19_sOf(a[0])))) }},
		func() c19_fnSpec {
			sp := bb("equals", func(a, b []byte) string { return c19_vB(bytes.Equal(a, b)) })
			sp.badType = c19_falseOnBadType
			return sp
		}(),
		func() c19_fnSpec {
			sp := bb("contains", func(a, b []byte) string { return c19_vB(bytes.Contains(a, b)) })
			sp.badType = c19_falseOnBadType
			return sp
		}(),
		{mod: "bytes", name: "contains_any", kinds: "Bs", spec: func(a []object.Object) string {
			return c19_vB(bytes.ContainsAny([]byte(c19_sOf(a[0])), c19_sOf(a[1])))
		}},
		{mod: "bytes", name: "contains_rune", kinds: "Bs", spec: func(a []object.Object) string {
			r, ok := c19_singleRune(c19_sOf(a[1])) // anything but one well-formed character (a lone byte >= 0x80 too) is refused
			if !ok {
				return "err"
			}
			return c19_vB(bytes.ContainsRune([]byte(c19_sOf(a[0])), r))
		}},
		bb("count", func(a, b []byte) string { return c19_vInt(bytes.Count(a, b)) }),
		bb("has_prefix", func(a, b []byte) string { return c19_vB(bytes.HasPrefix(a, b)) }),
		bb("has_suffix", func(a, b []byte) string { return c19_vB(bytes.HasSuffix(a, b)) }),
		bb("index", func(a, b []byte) string { return c19_vInt(bytes.Index(a, b)) }),
		{mod: "bytes", name: "index_any", kinds: "Bs", spec: func(a []object.Object) string {
			return c19_vInt(bytes.IndexAny([]byte(c19_sOf(a[0])), c19_sOf(a[1])))
		}},
		{mod: "bytes", name: "index_byte", kinds: "Bb", spec: func(a []object.Object) string {
			c := c19_sOf(a[1])
			if len(c) != 1 {
				return "err"
			}
			return c19_vInt(bytes.IndexByte([]byte(c19_sOf(a[0])), c[0]))
		}},
		{mod: "bytes", name: "index_rune", kinds: "Bs", spec: func(a []object.Object) string {
			r, ok := c19_singleRune(c19_sOf(a[1]))
			if !ok {
				return "err"
			}
			return c19_vInt(bytes.IndexRune([]byte(c19_sOf(a[0])), r))
		}},
		{mod: "bytes", name: "repeat", kinds: "Bc", fix: c19_repeatFix, spec: func(a []object.Object) string {
			return c19_guarded(func() string { return c19_vBy(bytes.Repeat([]byte(c19_sOf(a[0])), int(c19_iOf(a[1])))) })
		}},
		{mod: "bytes", name: "replace", kinds: "Bbbk", spec: func(a []object.Object) string {
			return c19_vBy(bytes.Replace([]byte(c19_sOf(a[0])), []byte(c19_sOf(a[1])), []byte(c19_sOf(a[2])), int(c19_iOf(a[3]))))
		}},
		{mod: "bytes", name: "replace_all", kinds: "Bbb", spec: func(a []object.Object) string {
			return c19_vBy(bytes.ReplaceAll([]byte(c19_sOf(a[0])), []byte(c19_sOf(a[1])), []byte(c19_sOf(a[2]))))
		}},
	}
	specs = append(specs, bs...)
	for _, sp := range bs {
		m := sp
		m.mod, m.recv = "byte_slice", true
		specs = append(specs, m)
	}
	// filepath
	p1 := func(name string, f func(string) string) c19_fnSpec {
		return c19_fnSpec{mod: "filepath", name: name, kinds: "p", spec: func(a []object.Object) string { return f(c19_sOf(a[0])) }}
	}
	specs = append(specs,
		p1("abs", func(p string) string {
			r, err := filepath.Abs(p)
			return c19_vErr(err, func() string { return c19_vS(r) })
		}),
		p1("base", func(p string) string { return c19_vS(filepath.Base(p)) }),
		p1("clean", func(p string) string { return c19_vS(filepath.Clean(p)) }),
		p1("dir", func(p string) string { return c19_vS(filepath.Dir(p)) }),
		p1("ext", func(p string) string { return c19_vS(filepath.Ext(p)) }),
		p1("is_abs", func(p string) string { return c19_vB(filepath.IsAbs(p)) }),
		p1("split", func(p string) string { d, f := filepath.Split(p); return c19_vL([]string{d, f}) }),
		p1("split_list", func(p string) string { return c19_vL(filepath.SplitList(p)) }),
		c19_fnSpec{mod: "filepath", name: "join", kinds: "", opt: "pppp", spec: func(a []object.Object) string {
			ps := make([]string, len(a))
			for i := range a {
				ps[i] = c19_sOf(a[i])
			}
			return c19_vS(filepath.Join(ps...))
		}},
		c19_fnSpec{mod: "filepath", name: "match", kinds: "pp", spec: func(a []object.Object) string {
			m, err := filepath.Match(c19_sOf(a[0]), c19_sOf(a[1]))
			return c19_vErr(err, func() string { return c19_vB(m) })
		}},
		c19_fnSpec{mod: "filepath", name: "rel", kinds: "pp", spec: func(a []object.Object) string {
			r, err := filepath.Rel(c19_sOf(a[0]), c19_sOf(a[1]))
			return c19_vErr(err, func() string { return c19_vS(r) })
		}},
	)
	// regexp: module function + methods of a compiled object (receiver = pattern string here)
	specs = append(specs,
		c19_fnSpec{mod: "regexp", name: "match", kinds: "rs", spec: func(a []object.Object) string {
			m, err := regexp.MatchString(c19_sOf(a[0]), c19_sOf(a[1]))
			return c19_vErr(err, func() string { return c19_vB(m) })
		}},
		c19_fnSpec{mod: "regexp-object", name: "match", kinds: "rs", recv: true, spec: func(a []object.Object) string {
			return c19_vB(c19_reOf(c19_sOf(a[0])).MatchString(c19_sOf(a[1])))
		}},
		c19_fnSpec{mod: "regexp-object", name: "find", kinds: "rs", recv: true, spec: func(a []object.Object) string {
			return c19_vS(c19_reOf(c19_sOf(a[0])).FindString(c19_sOf(a[1])))
		}},
		c19_fnSpec{mod: "regexp-object", name: "find_all", kinds: "rs", opt: "k", recv: true, spec: func(a []object.Object) string {
			n := -1
			if len(a) > 2 {
				n = int(c19_iOf(a[2]))
			}
			return c19_vL(c19_reOf(c19_sOf(a[0])).FindAllString(c19_sOf(a[1]), n))
		}},
		c19_fnSpec{mod: "regexp-object", name: "find_submatch", kinds: "rs", recv: true, spec: func(a []object.Object) string {
			return c19_vL(c19_reOf(c19_sOf(a[0])).FindStringSubmatch(c19_sOf(a[1])))
		}},
		c19_fnSpec{mod: "regexp-object", name: "replace_all", kinds: "rss", recv: true, spec: func(a []object.Object) string {
			return c19_vS(c19_reOf(c19_sOf(a[0])).ReplaceAllString(c19_sOf(a[1]), c19_sOf(a[2])))
		}},
		c19_fnSpec{mod: "regexp-object", name: "split", kinds: "rs", opt: "k", recv: true, spec: func(a []object.Object) string {
			n := -1
			if len(a) > 2 {
				n = int(c19_iOf(a[2]))
			}
			return c19_vL(c19_reOf(c19_sOf(a[0])).Split(c19_sOf(a[1]), n))
		}},
		c19_fnSpec{mod: "json", name: "valid", kinds: "b", spec: func(a []object.Object) string { return c19_vB(json.Valid([]byte(c19_sOf(a[0])))) }},
	)
	S, I, F := object.NewString, object.NewInt, object.NewFloat
	BS := func(s string) object.Object { return object.NewByteSlice([]byte(s)) }
	fixed := map[string][][]object.Object{
		"strings.repeat":           {{S("a"), I(-1)}, {S("ab"), I(math.MaxInt64)}, {S("ab"), I(3)}, {S(""), I(math.MaxInt64)}, {S("é"), I(0)}, {S("abc"), I(math.MaxInt64/3 + 1)}, {S("a"), I(math.MinInt64)}, {S(""), I(-1)}},
		"bytes.repeat":             {{BS("a"), I(-1)}, {BS("ab"), I(math.MaxInt64)}, {BS("ab"), I(2)}, {BS("abc"), I(math.MaxInt64/3 + 1)}, {BS(""), I(math.MaxInt64)}, {BS(""), I(-1)}},
		"byte_slice.repeat":        {{BS("a"), I(-1)}, {BS("ab"), I(2)}, {BS("ab"), I(math.MaxInt64)}, {BS("abc"), I(math.MaxInt64/3 + 1)}, {BS(""), I(math.MaxInt64)}, {BS("a"), I(math.MinInt64)}},
		"bytes.contains_rune":      {{BS("caf\xc3\xa9"), S("é")}, {BS("cafe"), S("e")}, {BS("caf\xe9"), S("\xe9")}, {BS("a\xffb"), S("\xff")}, {BS("a\xffb"), S("\ufffd")}, {BS("ab"), S("")}, {BS("éé"), S("éé")}, {BS("x😀"), S("😀")}, {BS("\xed\xa0\x80"), S("\xed\xa0\x80")}},
		"bytes.index_rune":         {{BS("caf\xc3\xa9"), S("é")}, {BS("cafe"), S("e")}, {BS("caf\xe9"), S("\xe9")}, {BS("a\xffb"), S("\xff")}, {BS("a\xffb"), S("\ufffd")}, {BS("ab"), S("")}, {BS("éé"), S("éé")}, {BS("x😀"), S("😀")}, {BS("\xc3"), S("\xc3")}},
		"byte_slice.contains_rune": {{BS("caf\xc3\xa9"), S("é")}, {BS("caf\xe9"), S("\xe9")}, {BS("日本"), S("本")}},
		"byte_slice.index_rune":    {{BS("caf\xc3\xa9"), S("日")}, {BS("caf\xc3\xa9"), S("é")}, {BS("a\xffb"), S("\xff")}},
		"math.abs":                 {{F(math.Copysign(0, -1))}, {I(math.MinInt64)}, {F(-2.5)}, {F(math.NaN())}},
		"math.pow10":               {{I(math.MaxInt64)}, {I(math.MaxInt64 - 512)}, {I(math.MaxInt64 - 513)}, {I(308)}, {I(309)}, {I(-324)}, {I(math.MinInt64)}},
		"strings.split":            {{S("aé"), S("")}, {S(""), S("")}, {S("a,b"), S(",")}},
		"strings.count":            {{S("aé"), S("")}, {S("\xff\xff"), S("")}},
		"strconv.parse_int":        {{S("7"), I(1)}, {S("7"), I(10), I(4)}, {S("-9223372036854775808")}, {S("9223372036854775808")}},
		"strconv.atoi":             {{S("9223372036854775807")}, {S("")}},
		"math.max":                 {{I(math.MaxInt64), I(0)}, {F(math.NaN()), F(1)}, {F(0), F(math.Copysign(0, -1))}},
		"filepath.join":            {{}, {S("")}, {S("a"), S("../..")}},
	}
	for i := range specs {
		specs[i].fixed = fixed[specs[i].mod+"."+specs[i].name]
	}
	return specs
}

// fixedJSON: the witnesses of the json findings and a few boundary rows, run in every tier.
func c19_fixedJSON() []*c19_jv {
	i := func(n int64) *c19_jv { return &c19_jv{k: 'i', i: n} }
	return []*c19_jv{
		{k: 'n'},
		{k: 'b', s: "hi"},
		i(1<<53 + 1),
		{k: 's', s: "\xff"},
		{k: 'l', xs: []*c19_jv{{k: 'n'}, i(1 << 53), i(-(1 << 53)), i(0), {k: 'd', d: math.Float64bits(math.Copysign(0, -1))}}},
		{k: 'm', ks: []string{"a", "é"}, xs: []*c19_jv{{k: 's', s: "<&>\u2028"}, {k: 'y', i: 255}}},
		{k: 'b', s: "\xff\xfe"},
		i(math.MaxInt64), i(math.MinInt64),
		{k: 'm', ks: []string{"\xfe", "\xff"}, xs: []*c19_jv{i(1), i(2)}},
	}
}

var c19Mods = map[string]*object.Module{}

func c19Module(name string) *object.Module {
	if m, ok := c19Mods[name]; ok {
		return m
	}
	var m *object.Module
	switch name {
	case "strings":
		m = modStrings.Module()
	case "strconv":
		m = modStrconv.Module()
	case "math":
		m = modMath.Module()
	case "bytes":
		m = modBytes.Module()
	case "filepath":
		m = modFilepath.Module()
	case "regexp":
		m = modRegexp.Module()
	case "json":
		m = modJSON.Module()
	case "base64":
		m = modBase64.Module()
	}
	c19Mods[name] = m
	return m
}

func c19_modCall(mod, name string, args ...object.Object) string {
	fn, ok := c19Module(mod).GetAttr(name)
	if !ok {
		return "other:no-such-function"
	}
	return c19_callObj(fn, args...)
}

// callSpec runs one wrapper through the object API and (optionally) through a script.
func c19_callSpec(sp *c19_fnSpec, a []object.Object, script bool) (viaObj, viaScript string) {
	viaScript = "-"
	rest := make([]string, 0, len(a))
	for i := 1; i < len(a); i++ {
		rest = append(rest, "a"+strconv.Itoa(i))
	}
	switch {
	case sp.mod == "regexp-object":
		if c19_reOf(c19_sOf(a[0])) == nil || !c19_accepts('S', a[0]) {
			return "skip", "-"
		}
		reObj := c19_guardedObj(func() object.Object { return modRegexp.Compile(c19ctx, a[0]) })
		if _, isErr := reObj.(*object.Error); isErr {
			return "other:compile:" + c19_outcomeOf(reObj), "-"
		}
		fn, ok := reObj.GetAttr(sp.name)
		if !ok {
			return "other:no-such-method", "-"
		}
		viaObj = c19_callObj(fn, a[1:]...)
		if script {
			viaScript = c19_evalScript("regexp.compile(a0)."+sp.name+"("+strings.Join(rest, ", ")+")", a)
		}
	case sp.recv:
		fn, ok := a[0].GetAttr(sp.name)
		if !ok {
			return "other:no-such-method", "-"
		}
		viaObj = c19_callObj(fn, a[1:]...)
		if script {
			viaScript = c19_evalScript("a0."+sp.name+"("+strings.Join(rest, ", ")+")", a)
		}
	default:
		viaObj = c19_modCall(sp.mod, sp.name, a...)
		if script {
			viaScript = c19_evalScript(sp.mod+"."+sp.name+"("+c19_argList(len(a))+")", a)
		}
	}
	return
}

func c19_guardedObj(f func() object.Object) (o object.Object) {
	defer func() {
		if r := recover(); r != nil {
			o = object.Errorf("panic: %v", r)
		}
	}()
	return f()
}

func c19_argsTok(a []object.Object) string {
	parts := make([]string, len(a))
	for i, x := range a {
		if v := c19_jvOfObj(x); v != nil {
			parts[i] = v.tok()
		} else {
			parts[i] = "?" + string(x.Type())
		}
	}
	return "l" + strconv.Itoa(len(a)) + strings.Repeat(" ", min(1, len(a))) + strings.Join(parts, " ")
}

func c19Wrappers(e *Env) {
	rng := e.Rng.Fork()
	specs := c19Specs()
	perFn := 500
	scriptEvery := 3
	if !e.Quick {
		perFn = 12000
		scriptEvery = 4
	}
	type glueReq struct{ c, req, real, what string }
	var glue []glueReq
	wide := c19_wideInit(e) // the regenerated inventory of the other modules' wrappers (c19wide.go)
	for si := range specs {
		sp := &specs[si]
		fnName := sp.mod + "." + sp.name
		runCase := func(a []object.Object, wellTyped, arityOK bool, feat c19_argFeat, script bool) {
			viaObj, viaScript := c19_callSpec(sp, a, script)
			if viaObj == "skip" {
				return
			}
			c := fnName + " " + c19_argsTok(a)
			e.R.Case(c, feat.nontrivial())
			e.R.H("function", fnName)
			e.R.H("route", "object-api")
			if script {
				e.R.H("route", "script")
			}
			for k, on := range map[string]bool{"non-ascii": feat.nonASCII, "invalid-utf8": feat.invalid, "empty": feat.empty, "negative": feat.negative,
				"boundary-number": feat.boundary, "wrong-type": feat.wrongType, "wrong-arity": feat.wrongArity} {
				if on {
					e.R.H("argument-features", k)
				}
			}
			e.R.H("outcome", strings.SplitN(c19_coarse(viaObj), " ", 2)[0])
			// what the property demands
			want := "err"
			switch {
			case !arityOK:
			case !wellTyped:
				if sp.badType != nil {
					want = sp.badType(a)
				}
			default:
				want = sp.spec(a)
			}
			finding, deviation := "", ""
			if arityOK && wellTyped && sp.known != nil {
				finding, deviation = sp.known(a)
			}
			goPanicked := want == "gopanic"
			if goPanicked {
				want = "err" // outside the Go function's domain: a script error, never a panic
			}
			check := func(route, got string) {
				if c19_coarse(got) == c19_coarse(want) {
					return
				}
				id := ""
				if finding != "" && c19_coarse(got) == c19_coarse(deviation) {
					id = finding
				}
				e.R.Spec(c+" via "+route, fmt.Sprintf("risor returned %s, the Go function gives %s", got, want), id)
			}
			check("object-api", viaObj)
			if script {
				check("script", viaScript)
				if c19_coarse(viaScript) != c19_coarse(viaObj) {
					e.R.Mismatch(c, viaObj, viaScript, "object API and script route disagree")
				}
			}
			// glue model of the wider inventory (base64, bytes, filepath, math, strconv)
			wide.note(sp, c, a, arityOK, wellTyped, viaObj)
			// glue model (strings module): the Lean wrapper model predicts the risor outcome from the Go result
			if sp.mod == "strings" {
				goRes := "panic"
				if arityOK && wellTyped {
					if r := sp.spec(a); strings.HasPrefix(r, "val ") {
						goRes = strings.TrimPrefix(r, "val ")
					}
				} else {
					goRes = "n"
				}
				glue = append(glue, glueReq{c, "C19\tglue\t" + sp.name + "\t" + c19_argsTok(a) + "\t" + goRes, viaObj, "strings module wrapper vs C19.wrap (glue model)"})
			}
			// LibSpec, the hypothesis of C19_no_panic about the Go library: the real strings.Repeat
			// panics exactly where the model's goPanics says
			if arityOK && wellTyped && fnName == "strings.repeat" {
				glue = append(glue, glueReq{c, "C19\tpanics\trepeat\t" + c19_argsTok(a), strconv.FormatBool(goPanicked), "strings.Repeat panics vs C19.goPanics (LibSpec)"})
			}
			// the repaired argument conventions that the Lean model carries (with their pre-fix
			// forms as historical definitions): which rune arguments are accepted; abs on the bits
			if arityOK && wellTyped && (sp.name == "contains_rune" || sp.name == "index_rune") {
				glue = append(glue, glueReq{c, "C19\trunearg\t" + c19_hx(c19_sOf(a[1])), strconv.FormatBool(c19_coarse(viaObj) != "err"),
					"rune argument accepted by " + fnName + " vs C19.runeArgOK"})
			}
			if arityOK && wellTyped && fnName == "math.abs" && len(a) == 1 {
				if x, ok := a[0].(*object.Float); ok && x.Value() == x.Value() { // (outcome tokens show one NaN for all NaNs)
					glue = append(glue, glueReq{c, "C19\tabsbits\t" + strconv.FormatUint(math.Float64bits(x.Value()), 10), strings.TrimPrefix(viaObj, "val d"),
						"math.abs on a float vs C19.absBits"})
				}
			}
		}
		for _, a := range sp.fixed {
			var feat c19_argFeat
			feat.boundary = true
			runCase(a, true, true, feat, true)
		}
		for n := 0; n < perFn; n++ {
			var feat c19_argFeat
			nOpt := 0
			if sp.opt != "" {
				nOpt = rng.Intn(len(sp.opt) + 1)
			}
			kinds := sp.kinds + sp.opt[:nOpt]
			a := make([]object.Object, len(kinds))
			arg0 := ""
			for i := range kinds {
				a[i] = c19_genArg(rng, kinds[i], arg0, &feat)
				if i == 0 && strings.IndexByte("sSbB", kinds[0]) >= 0 {
					arg0 = c19_sOf(a[0])
				}
			}
			if sp.fix != nil && len(a) == len(kinds) {
				sp.fix(a)
			}
			// ill-typed / wrong-arity variants
			wellTyped := true
			first := 0
			if sp.recv {
				first = 1
			}
			if len(a) > first && rng.Chance(5) {
				i := first + rng.Intn(len(a)-first)
				a[i] = c19_wrongTyped(rng, kinds[i])
				feat.wrongType = true
				wellTyped = false
			}
			arityOK := true
			if rng.Chance(3) && !(sp.mod == "filepath" && sp.name == "join") {
				if rng.Bool() && len(sp.kinds) > first {
					a = a[:len(sp.kinds)-1]
				} else {
					for len(a) < len(sp.kinds)+len(sp.opt)+1 {
						a = append(a, object.NewString("extra"))
					}
				}
				arityOK = false
				feat.wrongArity = true
			}
			if arityOK && wellTyped && sp.skip != nil && sp.skip(a) {
				continue
			}
			runCase(a, wellTyped, arityOK, feat, n%scriptEvery == 0)
		}
	}
	reqs := make([]string, len(glue))
	for i, g := range glue {
		reqs[i] = g.req
	}
	for i, rep := range e.O.AskBatch(reqs) {
		model := strings.ReplaceAll(rep, "\t", " ")
		model = strings.NewReplacer("argsErr", "err:args", "typeErr", "err:type").Replace(model)
		if model != glue[i].real {
			e.R.Mismatch(glue[i].c, glue[i].real, model, glue[i].what)
		}
		if strings.HasPrefix(glue[i].req, "C19\tglue\t") {
			e.R.H("glue-model", strings.SplitN(model, " ", 2)[0])
		} else {
			kind := strings.SplitN(glue[i].req, "\t", 3)[1]
			if kind == "runearg" || kind == "panics" {
				kind += "=" + model
			}
			e.R.H("argument-convention-model", kind)
		}
	}
	wide.finish(e)
}

// ------------------------------------------------------------------ codecs

type c19_codecDef struct {
	name   string // codec name for encode()/decode(), or "" for the base64 module variants
	oracle string
	enc    func([]byte) string
	dec    func(string) ([]byte, error)
	unit   int    // encoded length must be a multiple of unit after CR/LF removal (0: no such rule)
	alpha  string // alphabet + padding + CR LF (bytes outside are alien); "" = none
	mod    string // base64 module function names (enc, dec) and the padding flag
	modDec string
	pad    bool
}

const c19_b64Std = "ABCDEFGHIJKLMNOPQRSTUVWXYZabcdefghijklmnopqrstuvwxyz0123456789+/"
const c19_b64URL = "ABCDEFGHIJKLMNOPQRSTUVWXYZabcdefghijklmnopqrstuvwxyz0123456789-_"
const c19_b32Std = "ABCDEFGHIJKLMNOPQRSTUVWXYZ234567"

func c19CodecDefs() []c19_codecDef {
	b64 := func(enc *base64.Encoding) (func([]byte) string, func(string) ([]byte, error)) {
		return enc.EncodeToString, func(s string) ([]byte, error) {
			dst := make([]byte, enc.DecodedLen(len(s)))
			n, err := enc.Decode(dst, []byte(s))
			return dst[:n], err
		}
	}
	se, sd := b64(base64.StdEncoding)
	sre, srd := b64(base64.RawStdEncoding)
	ue, ud := b64(base64.URLEncoding)
	ure, urd := b64(base64.RawURLEncoding)
	return []c19_codecDef{
		{name: "hex", oracle: "hex", enc: hex.EncodeToString, dec: hex.DecodeString, unit: 2, alpha: "0123456789abcdefABCDEF"},
		{name: "base64", oracle: "base64", enc: se, dec: sd, unit: 4, alpha: c19_b64Std + "=\r\n"},
		{name: "base32", oracle: "base32", enc: base32.StdEncoding.EncodeToString, dec: func(s string) ([]byte, error) {
			dst := make([]byte, base32.StdEncoding.DecodedLen(len(s)))
			n, err := base32.StdEncoding.Decode(dst, []byte(s))
			return dst[:n], err
		}, unit: 8, alpha: c19_b32Std + "=\r\n"},
		{name: "urlquery", oracle: "urlquery", enc: func(b []byte) string { return url.QueryEscape(string(b)) },
			dec: func(s string) ([]byte, error) { r, err := url.QueryUnescape(s); return []byte(r), err }},
		{oracle: "b64-std-pad", enc: se, dec: sd, unit: 4, alpha: c19_b64Std + "=\r\n", mod: "encode", modDec: "decode", pad: true},
		{oracle: "b64-std-raw", enc: sre, dec: srd, alpha: c19_b64Std + "\r\n", mod: "encode", modDec: "decode", pad: false},
		{oracle: "b64-url-pad", enc: ue, dec: ud, unit: 4, alpha: c19_b64URL + "=\r\n", mod: "url_encode", modDec: "url_decode", pad: true},
		{oracle: "b64-url-raw", enc: ure, dec: urd, alpha: c19_b64URL + "\r\n", mod: "url_encode", modDec: "url_decode", pad: false},
	}
}

func c19_randBytes(r *RNG) []byte {
	var n int
	switch r.Intn(10) {
	case 0:
		n = 0
	case 1:
		n = 40 + r.Intn(260)
	default:
		n = 1 + r.Intn(14)
	}
	b := make([]byte, n)
	switch r.Intn(4) {
	case 0:
		s := c19Str(r)
		for len(s) < n {
			s += c19Str(r) + "x"
		}
		copy(b, s)
	case 1:
		v := Pick(r, []byte{0, 0xff, 0x80, 'a', ' ', '%', '+'})
		for i := range b {
			b[i] = v
		}
	default:
		for i := range b {
			b[i] = byte(r.Next())
		}
	}
	return b
}

// mutate makes a probably-malformed variant of an encoded text.
func c19_mutate(r *RNG, s string, alpha string) string {
	b := []byte(s)
	pool := []byte("=\n\r %+-_/@~!*Zz09AFafGg27" + "\x00\xff\x80")
	if alpha != "" {
		pool = append(pool, alpha...)
	}
	nm := 1 + r.Intn(3)
	for k := 0; k < nm; k++ {
		switch op := r.Intn(6); {
		case op == 0 && len(b) > 0: // delete
			i := r.Intn(len(b))
			b = append(b[:i:i], b[i+1:]...)
		case op == 1: // insert
			i := r.Intn(len(b) + 1)
			b = append(b[:i:i], append([]byte{Pick(r, pool)}, b[i:]...)...)
		case op == 2 && len(b) > 0: // replace
			b[r.Intn(len(b))] = Pick(r, pool)
		case op == 3 && len(b) > 0: // truncate
			b = b[:r.Intn(len(b))]
		case op == 4: // append
			b = append(b, Pick(r, pool))
		default: // newline somewhere
			i := r.Intn(len(b) + 1)
			b = append(b[:i:i], append([]byte{'\n'}, b[i:]...)...)
		}
	}
	return string(b)
}

func c19_stripCRLF(s string) string { return strings.NewReplacer("\r", "", "\n", "").Replace(s) }

func c19Codecs(e *Env) {
	rng := e.Rng.Fork()
	nPer := 1800
	if !e.Quick {
		nPer = 40000
	}
	type pending struct {
		c, what, real string
	}
	for _, cd := range c19CodecDefs() {
		var reqs []string
		var pend []pending
		label := cd.name
		if label == "" {
			label = "base64." + cd.mod + "/" + strconv.FormatBool(cd.pad)
		}
		encode := func(in object.Object) string {
			if cd.name != "" {
				return c19_callObj(object.NewBuiltin("encode", builtins.Encode), in, object.NewString(cd.name))
			}
			return c19_modCall("base64", cd.mod, in, object.NewBool(cd.pad))
		}
		decode := func(in object.Object) string {
			if cd.name != "" {
				return c19_callObj(object.NewBuiltin("decode", builtins.Decode), in, object.NewString(cd.name))
			}
			return c19_modCall("base64", cd.modDec, in, object.NewBool(cd.pad))
		}
		for n := 0; n < nPer; n++ {
			data := c19_randBytes(rng)
			var in object.Object = object.NewByteSlice(data)
			if rng.Chance(40) {
				in = object.NewString(string(data))
			}
			// --- encode
			got := encode(in)
			c := "encode " + label + " " + c19_hx(string(data))
			nontriv := len(data) == 0 || !utf8.Valid(data) || bytes.IndexFunc(data, func(r rune) bool { return r >= 0x80 }) >= 0
			e.R.Case(c, nontriv)
			e.R.H("codec", label+" encode")
			e.R.H("codec-input-length", c19_lenClass(len(data)))
			wantText := cd.enc(data)
			if got != c19_vS(wantText) {
				e.R.Spec(c, fmt.Sprintf("risor returned %s, the Go encoder gives %s", got, c19_vS(wantText)), "")
			}
			reqs = append(reqs, "C19\tenc\t"+cd.oracle+"\t"+c19_hx(string(data)))
			pend = append(pend, pending{c, "encode vs model", strings.TrimPrefix(got, "val s")})
			if n%5 == 0 && cd.name != "" {
				if sgot := c19_evalScript(`encode(a0, "`+cd.name+`")`, []object.Object{in}); sgot != got {
					e.R.Mismatch(c, got, sgot, "object API and script route disagree")
				}
			}
			// --- decode what was encoded: the inverse law on the real results
			if strings.HasPrefix(got, "val s") {
				text := UnHex(strings.TrimPrefix(got, "val s"))
				var tin object.Object = object.NewString(text)
				if rng.Chance(30) && cd.name != "" {
					tin = object.NewByteSlice([]byte(text))
				}
				back := decode(tin)
				okBack := back == c19_vBy(data) || (cd.name == "urlquery" && back == c19_vS(string(data)))
				if !okBack {
					e.R.Spec("roundtrip "+label+" "+c19_hx(string(data)), fmt.Sprintf("decode(encode(x)) = %s, x = %s", back, c19_vBy(data)), "")
				}
			}
			// --- decode arbitrary / malformed text
			var text string
			switch rng.Intn(8) {
			case 0:
				text = string(c19_randBytes(rng))
			case 1:
				text = wantText
			case 2: // random text over the alphabet
				k := rng.Intn(20)
				bb := make([]byte, k)
				al := cd.alpha
				if al == "" {
					al = "abc%+ 0123456789ABCDEFabcdefgG%%%"
				}
				for i := range bb {
					bb[i] = al[rng.Intn(len(al))]
				}
				text = string(bb)
			default:
				text = c19_mutate(rng, wantText, cd.alpha)
			}
			dgot := decode(object.NewString(text))
			dc := "decode " + label + " " + c19_hx(text)
			e.R.Case(dc, text == "" || strings.ContainsAny(text, "\r\n=") || !utf8.ValidString(text))
			e.R.H("codec", label+" decode")
			want, err := cd.dec(text)
			wantOut := "err"
			if err == nil {
				wantOut = c19_vBy(want)
				if cd.name == "urlquery" {
					wantOut = c19_vS(string(want))
				}
			}
			e.R.H("decode-outcome", label+" "+strings.SplitN(c19_coarse(dgot), " ", 2)[0])
			if c19_coarse(dgot) != wantOut {
				e.R.Spec(dc, fmt.Sprintf("risor returned %s, the Go decoder gives %s", dgot, wantOut), "")
			}
			// Spec: malformed input is rejected.  "Malformed" = a byte that can never occur in an
			// encoding, or a length no encoding has.  For base32 only the part before the first
			// padding character is judged: Go's decoder stops at the padding and does not look at
			// up to 7 bytes after it (library behaviour, reproduced by the Impl model and reported
			// as an observation, not attributed to risor).
			if cd.alpha != "" {
				judged := text
				if cd.name == "base32" {
					if i := strings.IndexByte(text, '='); i >= 0 {
						judged = text[:i]
					}
				}
				malformed := false
				for i := 0; i < len(judged); i++ {
					if strings.IndexByte(cd.alpha, judged[i]) < 0 {
						malformed = true
					}
				}
				if cd.unit > 0 && len(judged) == len(text) && len(c19_stripCRLF(text))%cd.unit != 0 {
					malformed = true
				}
				if malformed {
					e.R.H("malformed", label)
					if c19_coarse(dgot) != "err" {
						e.R.Spec(dc, "malformed input (alien byte or impossible length) was accepted: "+dgot, "")
					}
				} else if cd.name == "base32" && c19_coarse(dgot) != "err" && len(judged) != len(text) &&
					strings.Trim(c19_stripCRLF(text[len(judged):]), "=") != "" {
					e.R.H("observation", "base32: bytes after the padding ignored by encoding/base32")
				}
			} else if cd.name == "urlquery" {
				if c19_badPercent(text) {
					e.R.H("malformed", label)
					if c19_coarse(dgot) != "err" {
						e.R.Spec(dc, "malformed input (incomplete percent escape) was accepted: "+dgot, "")
					}
				}
			}
			reqs = append(reqs, "C19\tdec\t"+cd.oracle+"\t"+c19_hx(text))
			real := "reject"
			if strings.HasPrefix(dgot, "val ") {
				real = "ok\t" + dgot[5:]
			} else if c19_coarse(dgot) != "err" {
				real = dgot
			}
			pend = append(pend, pending{dc, "decode vs model", real})
		}
		for i, rep := range e.O.AskBatch(reqs) {
			if rep != pend[i].real {
				e.R.Mismatch(pend[i].c, strings.ReplaceAll(pend[i].real, "\t", " "), strings.ReplaceAll(rep, "\t", " "), label+": "+pend[i].what)
			}
		}
	}
	c19Gzip(e, rng)
}

func c19_badPercent(s string) bool {
	for i := 0; i < len(s); i++ {
		if s[i] == '%' {
			if i+2 >= len(s) || !c19_isHex(s[i+1]) || !c19_isHex(s[i+2]) {
				return true
			}
			i += 2
		}
	}
	return false
}
func c19_isHex(c byte) bool {
	return '0' <= c && c <= '9' || 'a' <= c && c <= 'f' || 'A' <= c && c <= 'F'
}

func c19_lenClass(n int) string {
	switch {
	case n == 0:
		return "0"
	case n < 3:
		return "1-2"
	case n < 6:
		return "3-5"
	case n < 16:
		return "6-15"
	}
	return "16+"
}

func c19Gzip(e *Env, rng *RNG) {
	n := 300
	if !e.Quick {
		n = 6000
	}
	enc := object.NewBuiltin("encode", builtins.Encode)
	dec := object.NewBuiltin("decode", builtins.Decode)
	gz := object.NewString("gzip")
	for i := 0; i < n; i++ {
		data := c19_randBytes(rng)
		c := "encode gzip " + c19_hx(string(data))
		e.R.Case(c, len(data) == 0 || !utf8.Valid(data))
		e.R.H("codec", "gzip encode")
		got := c19_callObj(enc, object.NewByteSlice(data), gz)
		var buf bytes.Buffer
		w := gzip.NewWriter(&buf)
		w.Write(data)
		w.Close()
		if got != c19_vBy(buf.Bytes()) {
			e.R.Spec(c, "risor's gzip output differs from compress/gzip's", "")
		}
		if strings.HasPrefix(got, "val b") {
			packed := UnHex(strings.TrimPrefix(got, "val b"))
			if back := c19_callObj(dec, object.NewByteSlice([]byte(packed)), gz); back != c19_vBy(data) {
				e.R.Spec("roundtrip gzip "+c19_hx(string(data)), "decode(encode(x)) = "+back, "")
			}
			// damaged streams: same verdict and bytes as compress/gzip
			bad := []byte(packed)
			switch rng.Intn(4) {
			case 0:
				bad = bad[:rng.Intn(len(bad))]
			case 1:
				bad[rng.Intn(len(bad))] ^= 1 << uint(rng.Intn(8))
			case 2:
				bad = append(bad, byte(rng.Next()))
			default:
				bad = c19_randBytes(rng)
			}
			dc := "decode gzip " + c19_hx(string(bad))
			e.R.Case(dc, true)
			e.R.H("codec", "gzip decode")
			dgot := c19_callObj(dec, object.NewByteSlice(bad), gz)
			want := "err"
			if zr, err := gzip.NewReader(bytes.NewReader(bad)); err == nil {
				if out, err := io.ReadAll(zr); err == nil {
					want = c19_vBy(out)
				}
			}
			e.R.H("decode-outcome", "gzip "+strings.SplitN(c19_coarse(dgot), " ", 2)[0])
			if c19_coarse(dgot) != want {
				e.R.Spec(dc, fmt.Sprintf("risor returned %s, compress/gzip gives %s", dgot, want), "")
			}
		}
	}
}

// ------------------------------------------------------------------ json

var c19Keys = []string{"a", "b", "k", "", "é", "日本", "a b", "A", "0", "x.y", "\"", "<k>", " "}

func c19_genJSON(r *RNG, depth int) *c19_jv {
	x := r.Intn(100)
	switch {
	case x < 8:
		return &c19_jv{k: 'n'}
	case x < 16:
		return &c19_jv{k: Pick(r, []byte{'t', 'f'})}
	case x < 36:
		n := c19Int(r)
		for n > 1<<53 || n < -(1<<53) { // clean values: ints a float64 holds exactly
			n >>= 11
		}
		return &c19_jv{k: 'i', i: n}
	case x < 50:
		f := c19Float(r)
		for f != f || math.IsInf(f, 0) {
			f = c19Float(r)
		}
		return &c19_jv{k: 'd', d: math.Float64bits(f)}
	case x < 53:
		return &c19_jv{k: 'y', i: int64(r.Intn(256))}
	case x < 75 || depth <= 0:
		return &c19_jv{k: 's', s: strings.ToValidUTF8(c19Str(r), "?")}
	case x < 88:
		v := &c19_jv{k: 'l'}
		for i, n := 0, r.Intn(4); i < n; i++ {
			v.xs = append(v.xs, c19_genJSON(r, depth-1))
		}
		return v
	}
	v := &c19_jv{k: 'm'}
	seen := map[string]bool{}
	for i, n := 0, r.Intn(4); i < n; i++ {
		k := Pick(r, c19Keys)
		if seen[k] {
			continue
		}
		seen[k] = true
		v.ks = append(v.ks, k)
		v.xs = append(v.xs, c19_genJSON(r, depth-1))
	}
	return v.sortKeys()
}

// leaves returns pointers to every node of the tree.
func (v *c19_jv) nodes(out *[]*c19_jv) {
	*out = append(*out, v)
	for _, x := range v.xs {
		x.nodes(out)
	}
}

// injectDefect turns one node into a value of a known-defect class.
func c19_injectDefect(r *RNG, v *c19_jv) string {
	var ns []*c19_jv
	v.nodes(&ns)
	t := Pick(r, ns)
	switch r.Intn(5) {
	case 0:
		*v = c19_jv{k: 'n'}
		return "nil"
	case 1:
		*t = c19_jv{k: 'b', s: string(c19_randBytes(r))}
		return "bytes"
	case 2:
		*t = c19_jv{k: 'i', i: Pick(r, []int64{1<<53 + 1, -(1 << 53) - 1, math.MaxInt64, math.MinInt64 + 1, 1<<62 + 1, 9007199254740995, int64(r.Next()) | 1<<60 | 1})}
		return "int"
	case 3:
		*t = c19_jv{k: 's', s: Pick(r, []string{"\xff", "a\xffb", "\xc3", "\xe2\x82", "\xed\xa0\x80", "ok\xc0\xaf", "\xf4\x90\x80\x80"})}
		return "utf8"
	default:
		*t = c19_jv{k: 'd', d: math.Float64bits(Pick(r, []float64{math.NaN(), math.Inf(1), math.Inf(-1)}))}
		return "nonfinite"
	}
}

func (v *c19_jv) hasNonFinite() bool {
	if v.k == 'd' {
		f := math.Float64frombits(v.d)
		return f != f || math.IsInf(f, 0)
	}
	for _, x := range v.xs {
		if x.hasNonFinite() {
			return true
		}
	}
	return false
}

func (v *c19_jv) countKinds(r *Result) {
	r.H("json-node", string(v.k))
	for _, x := range v.xs {
		x.countKinds(r)
	}
}

func c19_depthTop(r *RNG) bool { return r.Chance(90) }

func c19_pickFinding(flags string, order ...string) string {
	ids := map[string]string{"nil": "C19-json-codec-nil", "bytes": "C19-json-codec-bytes", "int": "C19-json-int-precision", "utf8": "C19-json-invalid-utf8"}
	for _, o := range order {
		for _, f := range strings.Split(flags, ",") {
			if f == o {
				return ids[o]
			}
		}
	}
	return ""
}

func c19JSON(e *Env) {
	rng := e.Rng.Fork()
	n := 6000
	if !e.Quick {
		n = 150000
	}
	enc := object.NewBuiltin("encode", builtins.Encode)
	dec := object.NewBuiltin("decode", builtins.Decode)
	js := object.NewString("json")
	type item struct {
		c                          string
		v                          *c19_jv
		codecRT, marshalRT         string
		encOut, marOut             string
		agreeReal, nonFinite, deft bool
	}
	var items []item
	var reqs []string
	fixedVals := c19_fixedJSON()
	for i := 0; i < n; i++ {
		var v *c19_jv
		defect := ""
		if i < len(fixedVals) {
			v, defect = fixedVals[i], "fixed-row"
		} else {
			v = c19_genJSON(rng, 3)
			if v.k == 'n' && c19_depthTop(rng) {
				v = c19_genJSON(rng, 3)
			}
			if rng.Chance(13) {
				defect = c19_injectDefect(rng, v)
			}
		}
		v.countKinds(e.R)
		e.R.H("json-defect-class", map[bool]string{true: defect, false: "none"}[defect != ""])
		o := v.obj()
		it := item{c: "json " + v.tok(), v: v, nonFinite: v.hasNonFinite(), deft: defect != ""}
		rt := func(encOut string, decFn func(object.Object) string) string {
			if !strings.HasPrefix(encOut, "val s") {
				return c19_coarse(encOut)
			}
			back := decFn(object.NewString(UnHex(strings.TrimPrefix(encOut, "val s"))))
			if strings.HasPrefix(back, "val ") {
				return back[4:]
			}
			return "decode-failed:" + back
		}
		it.encOut = c19_callObj(enc, o, js)
		it.codecRT = rt(it.encOut, func(t object.Object) string { return c19_callObj(dec, t, js) })
		it.marOut = c19_modCall("json", "marshal", o)
		it.marshalRT = rt(it.marOut, func(t object.Object) string { return c19_modCall("json", "unmarshal", t) })
		it.agreeReal = c19_coarse(it.encOut) == c19_coarse(it.marOut)
		if i%7 == 0 {
			if s := c19_evalScript(`encode(a0, "json")`, []object.Object{o}); c19_coarse(s) != c19_coarse(it.encOut) {
				e.R.Mismatch(it.c, it.encOut, s, "object API and script route disagree (encode json)")
			}
			if s := c19_evalScript(`json.marshal(a0)`, []object.Object{o}); c19_coarse(s) != c19_coarse(it.marOut) {
				e.R.Mismatch(it.c, it.marOut, s, "object API and script route disagree (json.marshal)")
			}
		}
		// the decoders agree with each other on the same text
		if strings.HasPrefix(it.marOut, "val s") {
			t := object.NewString(UnHex(strings.TrimPrefix(it.marOut, "val s")))
			if a, b := c19_callObj(dec, t, js), c19_modCall("json", "unmarshal", t); c19_coarse(a) != c19_coarse(b) {
				e.R.Spec(it.c, fmt.Sprintf("decode(text, \"json\") = %s but json.unmarshal(text) = %s", a, b), "")
			}
		}
		e.R.Case(it.c, true)
		items = append(items, it)
		reqs = append(reqs, "C19\tjson\t"+v.tok())
	}
	for i, rep := range e.O.AskBatch(reqs) {
		it := items[i]
		f := strings.Split(rep, "\t")
		if len(f) != 5 {
			e.R.Mismatch(it.c, "-", rep, "oracle reply malformed")
			continue
		}
		mCodec, mMarshal, mAgree, flags := c19_canonTok(f[0]), c19_canonTok(f[1]), f[2] == "true", f[4]
		agreeModel := true
		if it.codecRT != mCodec {
			e.R.Mismatch(it.c, it.codecRT, mCodec, "decode(encode(v,json),json) vs C19.codecRoundtrip")
			agreeModel = false
		}
		if it.marshalRT != mMarshal {
			e.R.Mismatch(it.c, it.marshalRT, mMarshal, "json.unmarshal(json.marshal(v)) vs C19.marshalRoundtrip")
			agreeModel = false
		}
		if it.agreeReal != mAgree {
			e.R.Mismatch(it.c, fmt.Sprint(it.agreeReal), fmt.Sprint(mAgree), "agreement of the two encoders vs model")
			agreeModel = false
		}
		attr := func(order ...string) string {
			if !agreeModel {
				return ""
			}
			return c19_pickFinding(flags, order...)
		}
		// Spec 1: the two encoders agree
		if !it.agreeReal {
			e.R.Spec(it.c, fmt.Sprintf("encode(v, \"json\") = %s but json.marshal(v) = %s", it.encOut, it.marOut), attr("nil", "bytes"))
		}
		// Spec 2: decoding the encoded value gives back an equal value (a non-finite float is
		// not representable in JSON and must be, and is, refused with an error)
		for _, p := range []struct{ what, rt, out string }{{"codec", it.codecRT, it.encOut}, {"json module", it.marshalRT, it.marOut}} {
			if it.nonFinite {
				if c19_coarse(p.out) != "err" {
					e.R.Spec(it.c, p.what+": a non-finite float was encoded as "+p.out, "")
				}
				continue
			}
			back, rest := c19_parseTokens(strings.Fields(p.rt))
			okRT := back != nil && len(rest) == 0 && c19_specEq(it.v, back)
			if !okRT {
				order := []string{"bytes", "int", "utf8"}
				if p.what == "codec" {
					order = []string{"nil", "bytes", "int", "utf8"}
				} else {
					order = []string{"int", "utf8"}
				}
				e.R.Spec(it.c, fmt.Sprintf("%s round trip gave %s", p.what, p.rt), attr(order...))
			}
		}
		if flags == "-" {
			e.R.H("json-guard", "inside (no known defect class)")
		} else {
			e.R.H("json-guard", flags)
		}
	}
	// malformed JSON text is rejected, exactly when encoding/json rejects it
	m := 4000
	if !e.Quick {
		m = 60000
	}
	for i := 0; i < m; i++ {
		v := c19_genJSON(rng, 2)
		b, _ := json.Marshal(v.obj())
		text := string(b)
		if rng.Chance(80) {
			text = c19_mutate(rng, text, "{}[],:\"\\tfn0123456789.eE-+ u\xff")
		}
		c := "decode json " + c19_hx(text)
		e.R.Case(c, true)
		var probe interface{}
		want := json.Unmarshal([]byte(text), &probe) == nil
		a := c19_callObj(dec, object.NewString(text), js)
		u := c19_modCall("json", "unmarshal", object.NewString(text))
		e.R.H("json-text", map[bool]string{true: "valid", false: "malformed"}[want])
		if strings.HasPrefix(a, "val ") != want || strings.HasPrefix(u, "val ") != want {
			e.R.Spec(c, fmt.Sprintf("encoding/json accepts=%v but decode gives %s and json.unmarshal gives %s", want, a, u), "")
		}
		if c19_coarse(a) != c19_coarse(u) {
			e.R.Spec(c, fmt.Sprintf("decode gives %s and json.unmarshal gives %s", a, u), "")
		}
	}
}

// f64OfInt of the model against Go's int64 → float64 conversion
func c19Floats64(e *Env) {
	rng := e.Rng.Fork()
	n := 2000
	if !e.Quick {
		n = 40000
	}
	reqs := make([]string, n)
	vals := make([]int64, n)
	for i := range reqs {
		vals[i] = c19Int(rng)
		reqs[i] = "C19\tf64\t" + strconv.FormatInt(vals[i], 10)
	}
	for i, rep := range e.O.AskBatch(reqs) {
		v := vals[i]
		f := float64(v)
		exact := f < 9223372036854775808.0 && int64(f) == v
		want := strconv.FormatUint(math.Float64bits(f), 10) + "\t" + strconv.FormatBool(exact)
		c := "f64 " + strconv.FormatInt(v, 10)
		e.R.Case(c, v < 0 || v > 1<<53 || v < -(1<<53))
		if rep != want {
			e.R.Mismatch(c, strings.ReplaceAll(want, "\t", " "), strings.ReplaceAll(rep, "\t", " "), "int64→float64 vs C19.f64OfInt / intExact")
		}
	}
	// sanitize vs encoding/json's treatment of invalid UTF-8
	reqs = reqs[:0]
	var strs []string
	for i := 0; i < n; i++ {
		s := c19Str(rng)
		strs = append(strs, s)
		reqs = append(reqs, "C19\tsanitize\t"+c19_hx(s))
	}
	for i, rep := range e.O.AskBatch(reqs) {
		b, _ := json.Marshal(strs[i])
		var back string
		json.Unmarshal(b, &back)
		c := "sanitize " + c19_hx(strs[i])
		e.R.Case(c, !utf8.ValidString(strs[i]))
		if rep != c19_hx(back) {
			e.R.Mismatch(c, c19_hx(back), rep, "encoding/json string round trip vs C19.sanitize")
		}
	}
}

// ------------------------------------------------------------------ sessions
//
// A session is a sequence of steps over numbered slots: a literal, encode(slot, codec) or
// decode(slot, codec).  Through the object API the LIVE result objects are kept and handed on
// (never copied); after every step every slot is looked at again.  Spec (the Go library
// functions applied to immutable values, = Lean runSpec): each slot shows for ever what its
// step returned, so in particular decode(encode(x)) = x however many other calls ran in
// between.  Sessions over the modelled codecs are also sent to the Lean heap model
// (runImpl fresh), and sessions without errors are run as one script in one VM as well.

type c19_sessCodec struct {
	label    string
	modelled bool // known to the Lean oracle under this label
	encKind  byte // 's' or 'b': type of the encoder's result
	decKind  byte
	enc      func([]byte) []byte
	dec      func([]byte) ([]byte, bool)
	callEnc  func(in object.Object) object.Object
	callDec  func(in object.Object) object.Object
	srcEnc   func(v string) string
	srcDec   func(v string) string
}

func c19SessCodecs() []c19_sessCodec {
	var out []c19_sessCodec
	for _, cd := range c19CodecDefs() {
		cd := cd
		sc := c19_sessCodec{label: cd.oracle, modelled: true, encKind: 's', decKind: 'b',
			enc: func(b []byte) []byte { return []byte(cd.enc(b)) },
			dec: func(t []byte) ([]byte, bool) { r, err := cd.dec(string(t)); return r, err == nil }}
		if cd.name != "" {
			name := object.NewString(cd.name)
			sc.label = cd.name
			if cd.name == "urlquery" {
				sc.decKind = 's'
			}
			sc.callEnc = func(in object.Object) object.Object { return builtins.Encode(c19ctx, in, name) }
			sc.callDec = func(in object.Object) object.Object { return builtins.Decode(c19ctx, in, name) }
			sc.srcEnc = func(v string) string { return `encode(` + v + `, "` + cd.name + `")` }
			sc.srcDec = func(v string) string { return `decode(` + v + `, "` + cd.name + `")` }
		} else {
			pad := object.NewBool(cd.pad)
			call := func(fname string) func(object.Object) object.Object {
				return func(in object.Object) object.Object {
					fn, ok := c19Module("base64").GetAttr(fname)
					if !ok {
						return object.Errorf("no such function base64.%s", fname)
					}
					return fn.(*object.Builtin).Call(c19ctx, in, pad)
				}
			}
			sc.callEnc, sc.callDec = call(cd.mod), call(cd.modDec)
			sc.srcEnc = func(v string) string { return "base64." + cd.mod + "(" + v + ", " + strconv.FormatBool(cd.pad) + ")" }
			sc.srcDec = func(v string) string {
				return "base64." + cd.modDec + "(" + v + ", " + strconv.FormatBool(cd.pad) + ")"
			}
		}
		out = append(out, sc)
	}
	gz := object.NewString("gzip")
	out = append(out, c19_sessCodec{label: "gzip", encKind: 'b', decKind: 'b',
		enc: func(b []byte) []byte {
			var buf bytes.Buffer
			w := gzip.NewWriter(&buf)
			w.Write(b)
			w.Close()
			return buf.Bytes()
		},
		dec: func(t []byte) ([]byte, bool) {
			zr, err := gzip.NewReader(bytes.NewReader(t))
			if err != nil {
				return nil, false
			}
			r, err := io.ReadAll(zr)
			return r, err == nil
		},
		callEnc: func(in object.Object) object.Object { return builtins.Encode(c19ctx, in, gz) },
		callDec: func(in object.Object) object.Object { return builtins.Decode(c19ctx, in, gz) },
		srcEnc:  func(v string) string { return `encode(` + v + `, "gzip")` },
		srcDec:  func(v string) string { return `decode(` + v + `, "gzip")` }})
	return out
}

type c19_sessStep struct {
	op    byte // 'L' literal, 'E' encode, 'D' decode
	codec int  // index into the codec table
	src   int
	kind  byte // literal: 's' string or 'b' byte_slice
	lit   []byte
}

type c19_session []c19_sessStep

func (ss c19_session) text(cs []c19_sessCodec) string {
	parts := make([]string, len(ss))
	for i, st := range ss {
		if st.op == 'L' {
			parts[i] = "L:" + string(st.kind) + ":" + c19_hx(string(st.lit))
		} else {
			parts[i] = string(st.op) + ":" + cs[st.codec].label + ":" + strconv.Itoa(st.src)
		}
	}
	return "[" + strings.Join(parts, " ") + "]"
}

// source renders the session as a risor program (literals are the globals a0, a1, ...).
func (ss c19_session) source(cs []c19_sessCodec) (string, []object.Object) {
	var sb strings.Builder
	var lits []object.Object
	names := make([]string, len(ss))
	for i, st := range ss {
		v := "s" + strconv.Itoa(i)
		names[i] = v
		switch st.op {
		case 'L':
			sb.WriteString(v + " := a" + strconv.Itoa(len(lits)) + "\n")
			lits = append(lits, st.litObj())
		case 'E':
			sb.WriteString(v + " := " + cs[st.codec].srcEnc("s"+strconv.Itoa(st.src)) + "\n")
		case 'D':
			sb.WriteString(v + " := " + cs[st.codec].srcDec("s"+strconv.Itoa(st.src)) + "\n")
		}
	}
	sb.WriteString("[" + strings.Join(names, ", ") + "]")
	return sb.String(), lits
}

func (st c19_sessStep) litObj() object.Object {
	if st.kind == 's' {
		return object.NewString(string(st.lit))
	}
	return object.NewByteSlice(append([]byte(nil), st.lit...))
}

// words: the session as a script a reader can retype
func (ss c19_session) words(cs []c19_sessCodec) string {
	var parts []string
	for i, st := range ss {
		v := "s" + strconv.Itoa(i)
		switch st.op {
		case 'L':
			q := strconv.Quote(string(st.lit))
			if len(q) > 60 {
				q = q[:57] + `..."`
			}
			if st.kind == 'b' {
				q = "byte_slice(" + q + ")"
			}
			parts = append(parts, v+" := "+q)
		case 'E':
			parts = append(parts, v+" := "+cs[st.codec].srcEnc("s"+strconv.Itoa(st.src)))
		case 'D':
			parts = append(parts, v+" := "+cs[st.codec].srcDec("s"+strconv.Itoa(st.src)))
		}
	}
	return strings.Join(parts, "; ")
}

// spec evaluates the session with the Go library functions on immutable values: per slot the
// token "s<hex>" / "b<hex>" or "err".
func (ss c19_session) spec(cs []c19_sessCodec) []string {
	out := make([]string, len(ss))
	val := make([][]byte, len(ss))
	for i, st := range ss {
		switch st.op {
		case 'L':
			val[i] = st.lit
			out[i] = string(st.kind) + c19_hx(string(st.lit))
		case 'E', 'D':
			if st.src >= i || out[st.src] == "err" {
				out[i] = "err"
				continue
			}
			c := cs[st.codec]
			if st.op == 'E' {
				val[i] = c.enc(val[st.src])
				out[i] = string(c.encKind) + c19_hx(string(val[i]))
			} else if r, ok := c.dec(val[st.src]); ok {
				val[i] = r
				out[i] = string(c.decKind) + c19_hx(string(r))
			} else {
				out[i] = "err"
			}
		}
	}
	return out
}

func c19_slotTok(o object.Object) string {
	switch o := o.(type) {
	case nil:
		return "other:<nil>"
	case *object.Error:
		return "err"
	case *object.String:
		return "s" + c19_hx(o.Value())
	case *object.ByteSlice:
		return "b" + c19_hx(string(o.Value()))
	}
	return "other:" + string(o.Type())
}

// runAPI runs the session through the object API on live objects.  After every step every
// slot is looked at again.  It returns the slots as they look at the end and, if some slot
// ever differed from the Spec, a description of the first such moment.
func (ss c19_session) runAPI(cs []c19_sessCodec, want []string) (final []string, bad string) {
	slots := make([]object.Object, 0, len(ss))
	first := make([]string, 0, len(ss))
	for i, st := range ss {
		var o object.Object
		switch {
		case st.op == 'L':
			o = st.litObj()
		case st.src >= i:
			o = object.Errorf("bad slot")
		default:
			if _, isErr := slots[st.src].(*object.Error); isErr {
				o = slots[st.src]
			} else if st.op == 'E' {
				o = c19_guardedObj(func() object.Object { return cs[st.codec].callEnc(slots[st.src]) })
			} else {
				o = c19_guardedObj(func() object.Object { return cs[st.codec].callDec(slots[st.src]) })
			}
		}
		slots = append(slots, o)
		first = append(first, c19_slotTok(o))
		if bad != "" {
			continue
		}
		for j := 0; j <= i; j++ {
			now := c19_slotTok(slots[j])
			if now == want[j] {
				continue
			}
			if j == i {
				bad = fmt.Sprintf("step s%d returned %s, the Go library function on the same value gives %s", i, now, want[j])
			} else if first[j] == want[j] {
				bad = fmt.Sprintf("s%d was %s when its call returned (as the Go library gives) but the same object is %s after step s%d ran: a later call changed an earlier result", j, first[j], now, i)
				if ss[j].op == 'E' && ss[ss[j].src].op == 'L' {
					back := c19_slotTok(c19_guardedObj(func() object.Object { return cs[ss[j].codec].callDec(slots[j]) }))
					bad += fmt.Sprintf("; decoding s%d now gives %s, s%d is %s (decode(encode(x)) = x is lost)", j, back, ss[j].src, want[ss[j].src])
				}
			} else {
				bad = fmt.Sprintf("s%d is %s after step s%d, the Go library gives %s", j, now, i, want[j])
			}
			break
		}
	}
	final = make([]string, len(slots))
	for j, o := range slots {
		final[j] = c19_slotTok(o)
	}
	return final, bad
}

// runScript runs the whole session as one program in one VM and looks at all slots at the end.
func (ss c19_session) runScript(cs []c19_sessCodec, want []string) (bad string) {
	src, lits := ss.source(cs)
	var res object.Object
	var err error
	func() {
		defer func() {
			if r := recover(); r != nil {
				err = fmt.Errorf("panic: %v", r)
			}
		}()
		g := map[string]any{}
		for i, a := range lits {
			g["a"+strconv.Itoa(i)] = a
		}
		res, err = risor.Eval(c19ctx, src, risor.WithGlobals(g))
	}()
	if err != nil {
		return "the script failed with " + strconv.Quote(err.Error()) + " although no step is an error for the Go library"
	}
	l, ok := res.(*object.List)
	if !ok || len(l.Value()) != len(want) {
		return "the script did not return the list of its slots"
	}
	for j, o := range l.Value() {
		if now := c19_slotTok(o); now != want[j] {
			return fmt.Sprintf("at the end of the script s%d is %s, the Go library gives %s", j, now, want[j])
		}
	}
	return ""
}

// drop removes step k and every step that (transitively) reads it; slots are renumbered.
func (ss c19_session) drop(k int) c19_session {
	gone := make([]bool, len(ss))
	gone[k] = true
	newIdx := make([]int, len(ss))
	var out c19_session
	for i, st := range ss {
		if i != k && st.op != 'L' && st.src < i && gone[st.src] {
			gone[i] = true
		}
		if gone[i] {
			continue
		}
		newIdx[i] = len(out)
		if st.op != 'L' {
			st.src = newIdx[st.src]
		}
		out = append(out, st)
	}
	return out
}

// shrink makes a failing session smaller while it keeps failing (fewer steps, then shorter
// literals).  fails must be deterministic enough; it is tried a few times per candidate.
func (ss c19_session) shrink(fails func(c19_session) string) (c19_session, string) {
	why := fails(ss)
	try := func(c c19_session) bool {
		if len(c) == 0 {
			return false
		}
		for n := 0; n < 3; n++ {
			if w := fails(c); w != "" {
				ss, why = c, w
				return true
			}
		}
		return false
	}
	for changed := true; changed; {
		changed = false
		for k := len(ss) - 1; k >= 0; k-- {
			if k < len(ss) && try(ss.drop(k)) {
				changed = true
			}
		}
	}
	for k := range ss {
		if ss[k].op != 'L' {
			continue
		}
		for _, cand := range [][]byte{[]byte(""), []byte("a"), []byte("b"), []byte("aaaa"), []byte("bbbb"), ss[k].lit[:len(ss[k].lit)/2]} {
			if len(cand) >= len(ss[k].lit) {
				continue
			}
			c := append(c19_session(nil), ss...)
			c[k].lit = cand
			if try(c) {
				break
			}
		}
	}
	return ss, why
}

// sameLen returns bytes of the same length as b that differ from it everywhere.
func c19_sameLen(r *RNG, b []byte) []byte {
	o := make([]byte, len(b))
	for i := range b {
		o[i] = b[i] ^ byte(1+r.Intn(255))
	}
	return o
}

func c19_genSession(r *RNG, cs []c19_sessCodec) c19_session {
	var ss c19_session
	lit := func(b []byte) {
		k := byte('b')
		if r.Chance(40) {
			k = 's'
		}
		ss = append(ss, c19_sessStep{op: 'L', kind: k, lit: b})
	}
	a := c19_randBytes(r)
	lit(a)
	for n := r.Intn(3); n > 0; n-- {
		switch r.Intn(3) {
		case 0:
			lit(c19_sameLen(r, a))
		case 1:
			lit(c19_randBytes(r))
		default: // a longer or shorter relative of the first
			if r.Bool() {
				lit(append(append([]byte(nil), a...), c19_randBytes(r)...))
			} else {
				lit(a[:r.Intn(len(a)+1)])
			}
		}
	}
	focus := -1
	if r.Chance(65) {
		focus = r.Intn(len(cs))
	}
	pick := func() int {
		if focus >= 0 && r.Chance(85) {
			return focus
		}
		return r.Intn(len(cs))
	}
	encBy := map[int]int{} // slot -> codec that produced it by encoding
	nSteps := 2 + r.Intn(7)
	for n := 0; n < nSteps; n++ {
		i := len(ss)
		var encoded []int
		for j := 0; j < i; j++ {
			if _, ok := encBy[j]; ok {
				encoded = append(encoded, j)
			}
		}
		if len(encoded) > 0 && r.Chance(45) {
			src := Pick(r, encoded)
			c := encBy[src]
			if r.Chance(10) {
				c = pick() // decoding with another codec: mostly an error
			}
			ss = append(ss, c19_sessStep{op: 'D', codec: c, src: src})
			continue
		}
		if r.Chance(6) {
			ss = append(ss, c19_sessStep{op: 'D', codec: pick(), src: r.Intn(i)})
			continue
		}
		c := pick()
		ss = append(ss, c19_sessStep{op: 'E', codec: c, src: r.Intn(i)})
		encBy[i] = c
	}
	// never read a slot that holds an error for the Go library: turn such steps into reads of slot 0
	want := ss.spec(cs)
	for i := range ss {
		if ss[i].op != 'L' && want[ss[i].src] == "err" {
			ss[i].src = 0
			want = ss.spec(cs)
		}
	}
	return ss
}

// directed sessions: for every codec the shapes in which a shared output buffer shows
func c19_directedSessions(cs []c19_sessCodec) []c19_session {
	L := func(k byte, s string) c19_sessStep { return c19_sessStep{op: 'L', kind: k, lit: []byte(s)} }
	E := func(c, src int) c19_sessStep { return c19_sessStep{op: 'E', codec: c, src: src} }
	D := func(c, src int) c19_sessStep { return c19_sessStep{op: 'D', codec: c, src: src} }
	big := strings.Repeat("0123456789abcdef", 300)
	pairs := [][2]string{{"a", "b"}, {"first payload", "SECOND PAYLOAD"}, {"long, longer, longest payload", "short"}, {"x", "a much longer second payload \xff\x00"},
		{"", "non-empty"}, {big, strings.ToUpper(big)}, {big, "tiny"}}
	var out []c19_session
	for c := range cs {
		for pi, p := range pairs {
			k := byte('b')
			if pi%2 == 1 {
				k = 's'
			}
			// a := enc(A); b := enc(B); dec(a); dec(b)
			out = append(out, c19_session{L(k, p[0]), L(k, p[1]), E(c, 0), E(c, 1), D(c, 2), D(c, 3)})
		}
		// the same input twice, decode both; decode twice; encode an encoding
		out = append(out,
			c19_session{L('b', "same"), E(c, 0), E(c, 0), D(c, 1), D(c, 2)},
			c19_session{L('s', "A-A-A"), L('s', "B-B-B"), E(c, 0), D(c, 2), E(c, 1), D(c, 4), D(c, 2)},
			c19_session{L('b', "nested"), E(c, 0), E(c, 1), D(c, 2), D(c, 3)},
			c19_session{L('b', "A1"), L('b', "B2"), L('b', "C3"), E(c, 0), E(c, 1), E(c, 2), D(c, 3), D(c, 4), D(c, 5)})
	}
	return out
}

func c19Sessions(e *Env, rng *RNG) {
	cs := c19SessCodecs()
	n := 2500
	if !e.Quick {
		n = 60000
	}
	var reqs []string
	type pend struct{ c, real string }
	var pends []pend
	reported := 0
	runOne := func(ss c19_session, origin string, script bool) {
		want := ss.spec(cs)
		text := ss.text(cs)
		nEnc, nDec, hasErr, allModelled := 0, 0, false, true
		for i, st := range ss {
			switch st.op {
			case 'E':
				nEnc++
			case 'D':
				nDec++
			}
			if st.op != 'L' {
				e.R.H("session-call", string(st.op)+" "+cs[st.codec].label)
				allModelled = allModelled && cs[st.codec].modelled
			}
			hasErr = hasErr || want[i] == "err"
		}
		e.R.Case("session "+text, nEnc >= 2 && nDec >= 1)
		e.R.H("session-origin", origin)
		e.R.H("session-steps", strconv.Itoa(len(ss)))
		e.R.H("session-shape", fmt.Sprintf("encodes=%d decodes=%d", min(nEnc, 4), min(nDec, 4)))
		report := func(route string, fails func(c19_session) string) {
			if reported >= 5 { // shrinking is not free; a handful of minimised sessions is enough
				e.R.Spec("session "+route+" "+text, fails(ss)+" — "+ss.words(cs), "")
				return
			}
			reported++
			small, why := ss.shrink(fails)
			e.R.Spec("session "+route+" "+small.text(cs), why+" — "+small.words(cs)+"  (minimised from "+text+")", "")
		}
		e.R.H("session-route", "object-api")
		final, bad := ss.runAPI(cs, want)
		if bad != "" {
			report("api", func(c c19_session) string { _, b := c.runAPI(cs, c.spec(cs)); return b })
		}
		if script && !hasErr {
			e.R.H("session-route", "script")
			if b := ss.runScript(cs, want); b != "" {
				report("script", func(c c19_session) string {
					w := c.spec(cs)
					for _, x := range w {
						if x == "err" {
							return ""
						}
					}
					return c.runScript(cs, w)
				})
			}
		}
		if allModelled {
			parts := make([]string, len(ss))
			for i, st := range ss {
				if st.op == 'L' {
					parts[i] = "L" + c19_hx(string(st.lit))
				} else {
					parts[i] = string(st.op) + ":" + cs[st.codec].label + ":" + strconv.Itoa(st.src)
				}
			}
			reqs = append(reqs, "C19\tsession\t"+strings.Join(parts, " "))
			real := make([]string, len(final))
			for i, f := range final {
				real[i] = f
				if f != "err" && len(f) > 0 && (f[0] == 's' || f[0] == 'b') {
					real[i] = f[1:] // the model speaks about the byte projection
				}
			}
			pends = append(pends, pend{"session " + text, strings.Join(real, " ")})
		}
	}
	for _, ss := range c19_directedSessions(cs) {
		runOne(ss, "directed", true)
	}
	for i := 0; i < n; i++ {
		runOne(c19_genSession(rng, cs), "generated", i%4 == 0)
	}
	for i, rep := range e.O.AskBatch(reqs) {
		if rep != pends[i].real {
			e.R.Mismatch(pends[i].c, pends[i].real, rep, "slots at the end of the session vs C19.runImpl fresh (heap model)")
		}
	}
	e.R.H("session-model", "sessions compared with the Lean heap model: "+strconv.Itoa(len(reqs)))
}

func c19_runC19(e *Env) {
	e.R.Rule = "a case is (function or codec, argument tuple, route); arguments are drawn from pools of Unicode / invalid-UTF-8 / empty strings, " +
		"byte slices, boundary ints and floats, lists and maps of those, with substrings of the first argument for later string arguments, " +
		"5% ill-typed and 3% wrong-arity tuples, mutated encodings for the decoders; non-trivial when at least one argument is non-ASCII, " +
		"empty, negative or a boundary number (codecs: empty, non-UTF-8 or containing padding/newlines; json: every tree); distinct by the canonical text of the case. " +
		"Sessions: sequences of 2-10 steps (literal / encode(slot, codec) / decode(slot, codec)) over live result objects, 65% focused on one codec, related literals " +
		"(same length, prefix, extension), directed shapes per codec (a:=enc(A); b:=enc(B); dec(a); dec(b) ...), through the object API (all slots re-examined after every step) " +
		"and as one script; non-trivial when at least two encodes precede a decode. Liveness: the last 6 results of ALL calls of the other parts are kept alive and re-examined " +
		"after every later call, and every call's arguments are compared before/after. " +
		"Use sessions (argument kinds and reuse): a heap of 1-3 argument objects of every bytes-like kind (string, byte_slice, buffer from bytes / built by writes / partly read, " +
		"in-memory file, 5% ill-typed values; contents related to one base value, encoded text for decoders) and 2-6 calls over it of the functions that take bytes-like arguments " +
		"(codec registry, base64 module, gzip, json text, string()/byte_slice(), strings module, string / byte_slice methods, bytes module; 60% focused on one function, 65% on one hot object, " +
		"also the same object in two parameters), directed shapes (every function x every kind x three uses), through the object API (every object re-examined after every call) and as one " +
		"script; non-trivial when a buffer or file is used by more than one call or twice in one call. " +
		"Regexp module: tuples (pattern, subject, replacement template, count): the pattern from a grammar (30% complete literals with escaped metacharacters, 6% literals under a flag, " +
		"10% malformed, 6% the free-form pool, the rest structured: classes, capturing / non-capturing / named groups, alternation with empty branches, greedy / lazy / counted quantifiers, " +
		"anchors, flags), the subject built from 0-4 strings sampled from the pattern's syntax tree between fillers (empty, Unicode, invalid UTF-8), the template from text and references " +
		"($$, $0, $1, ${1}, ${name}, $name, missing groups, $1x, ${, a trailing $; 25% without $), the count in -2..4; every tuple goes through regexp.compile, regexp.match and the six " +
		"methods of the compiled pattern (object API, every third through a script), 4% ill-typed, 3% wrong arity; each result is compared with Go's package regexp called directly and with " +
		"the Lean glue model of the regenerated inventory; Go's template expansion and ReplaceAllString on a literal are compared with their Lean models; every regexp case is non-trivial"
	// sessions run first (a minimal sequence makes the clearest replay) on an RNG of their own,
	// so that the case streams of the other parts are what they were before sessions existed
	saved := *e.Rng
	sessRng := NewRNG(e.Rng.Next() ^ 0xC19C19C19)
	*e.Rng = saved
	usesRng := NewRNG(e.Rng.Next() ^ 0xA26C19A26) // use sessions (c19args.go): likewise on their own stream, and first
	*e.Rng = saved
	rxRng := NewRNG(e.Rng.Next() ^ 0x5EC19E9C19) // the regexp module (c19regexp.go): likewise
	*e.Rng = saved
	c19Live.r, c19Live.ents = e.R, nil
	c19ArgUses(e, usesRng)
	c19Sessions(e, sessRng)
	c19Regexp(e, rxRng)
	c19Codecs(e)
	c19Floats64(e)
	c19JSON(e)
	c19Wrappers(e)
	c19Decimal(e)
	e.R.Hist["liveness"] = map[string]int{"results kept alive": c19Live.tracked, "re-examinations of an earlier result after a later call": c19Live.rechecks,
		"arguments compared before/after their call": c19Live.argChk}
}
