package main

// C01, proved fragment F6: mutable containers with identity and iteration
// (lean/RisorModel/C01/Seq*.lean).  The theorem `seq_compile_correct` relates three Lean
// definitions: evalSeq (reference semantics over a heap of list objects), compSeq (functional
// compiler) and runSeq (VM on the fragment's opcodes).  As c01frag.go does for F1-F3, this file
// re-establishes on every run the links between those definitions and the code:
//
//   (A) compSeq p, assembled          == bytecode of the real compiler        (and == Compile.lean)
//   (B) evalSeq p                     == Sem.lean's runProg p                 (and == the real result)
//   (C) runSeq (compSeq p)            == VM.lean's runCodes (compileProg p)   (and == the real result)
//
// Values are compared DEEP (every reference followed), final states included, so aliasing shows.
// Programs: the shared generator's (whole or longest in-fragment prefix) when they use lists,
// a directed list, and a structured generator of its own (c01seqProgram).
// The oracle computes all Lean sides in one request (`C01 seq run`), see SeqOracle.lean.

import (
	"fmt"
	"strings"
	"time"
)

// ---------------------------------------------------------------- rendering

func c01seqSub(x *N, p int, right bool) string {
	q := exprPrec(x)
	if x.K == "tern" {
		q = 1 // a ternary operand is always parenthesised
	}
	s := c01seqExpr(x)
	if q < p || (right && q == p) {
		return "(" + s + ")"
	}
	return s
}

func c01seqList(xs []*N) string {
	parts := make([]string, len(xs))
	for i, a := range xs {
		parts[i] = c01seqExpr(a)
	}
	return strings.Join(parts, ", ")
}

func c01seqExpr(x *N) string {
	switch x.K {
	case "infix":
		p := precTable[x.S]
		return c01seqSub(x.C[0], p, false) + " " + x.S + " " + c01seqSub(x.C[1], p, true)
	case "prefix":
		in := c01seqSub(x.C[0], 14, false)
		if x.S == "-" && strings.HasPrefix(in, "-") {
			in = "(" + in + ")"
		}
		return x.S + in
	case "tern":
		return c01seqSub(x.C[0], 7, false) + " ? " + c01seqSub(x.C[1], 7, false) + " : " + c01seqSub(x.C[2], 7, false)
	case "if":
		s := "if " + c01seqExpr(x.C[0]) + " " + c01seqBlock(x.C[1])
		if len(x.C) > 2 {
			if x.C[2].K == "if" {
				s += " else " + c01seqExpr(x.C[2])
			} else {
				s += " else " + c01seqBlock(x.C[2])
			}
		}
		return s
	case "switch":
		var sb strings.Builder
		sb.WriteString("switch " + c01seqExpr(x.C[0]) + " {\n")
		for _, c := range x.C[1:] {
			if c.K == "case" {
				sb.WriteString("case " + c01seqList(c.C[:len(c.C)-1]) + ":\n" + c01seqStmts(c.C[len(c.C)-1].C, 1))
			} else {
				sb.WriteString("default:\n" + c01seqStmts(c.C[0].C, 1))
			}
		}
		sb.WriteString("}")
		return sb.String()
	case "list":
		return "[" + c01seqList(x.C) + "]"
	case "index": // an if / switch / ternary / operator expression as the object is parenthesised (exprPrec < 15)
		return c01seqSub(x.C[0], 15, false) + "[" + c01seqExpr(x.C[1]) + "]"
	}
	return Expr(x) // literals, identifiers, and the kinds of the programs that must be outside the fragment
}

func c01seqBlock(b *N) string {
	if len(b.C) == 0 {
		return "{ }"
	}
	return "{\n" + c01seqStmts(b.C, 1) + "}"
}

func c01seqStmts(ss []*N, depth int) string {
	var sb strings.Builder
	for _, s := range ss {
		sb.WriteString(ind(depth) + strings.ReplaceAll(c01seqStmt(s), "\n", "\n"+ind(depth)) + "\n")
	}
	return sb.String()
}

func c01seqStmt(s *N) string {
	switch s.K {
	case "var":
		return s.S + " := " + c01seqExpr(s.C[0])
	case "assign":
		f := strings.SplitN(s.S, " ", 2)
		return f[0] + " " + f[1] + " " + c01seqExpr(s.C[0])
	case "postfix":
		f := strings.SplitN(s.S, " ", 2)
		return f[0] + f[1]
	case "for3":
		return "for " + c01seqStmt(s.C[0]) + "; " + c01seqExpr(s.C[1]) + "; " + c01seqStmt(s.C[2]) + " " + c01seqBlock(s.C[3])
	case "forcond":
		return "for " + c01seqExpr(s.C[0]) + " " + c01seqBlock(s.C[1])
	case "forever":
		return "for " + c01seqBlock(s.C[0])
	case "setitem": // S = op; C = obj, index, value
		return c01seqSub(s.C[0], 15, false) + "[" + c01seqExpr(s.C[1]) + "] " + s.S + " " + c01seqExpr(s.C[2])
	case "forrange": // S = "k,v" | "k" | ""; C = container, block
		head := "for range "
		if s.S != "" {
			head = "for " + strings.ReplaceAll(s.S, ",", ", ") + " := range "
		}
		return head + c01seqSub(s.C[0], 14, false) + " " + c01seqBlock(s.C[1])
	case "forin": // S = var; C = container, block
		return "for " + s.S + " in " + c01seqSub(s.C[0], 14, false) + " " + c01seqBlock(s.C[1])
	case "expr":
		return c01seqExpr(s.C[0])
	}
	return Stmt(s)
}

func c01seqSrc(p *N) string { return c01seqStmts(p.C, 0) }

// ---------------------------------------------------------------- one program, every link

// c01seqCompoundEffects is the guard of the known finding C01-compound-index-evaluated-twice as it
// shows WITHOUT calls: a compound item assignment `a[i] op= v` whose right-hand side contains a
// statement with an effect (an assignment in an if block): the code evaluates container and index
// again after it, Sem.lean (each operand once) does not.
func c01seqCompoundEffects(p *N) bool {
	found := false
	Walk(p, func(x *N, _ []*N) {
		if x.K == "setitem" && x.S != "=" {
			Walk(x.C[2], func(y *N, _ []*N) {
				switch y.K {
				case "assign", "postfix", "var", "setitem":
					found = true
				}
			}, nil)
		}
	}, nil)
	return found
}

func c01seqHasLists(k map[string]int) bool {
	return k["list"]+k["index"]+k["setitem"]+k["forrange"]+k["forin"] > 0
}

// c01seqOne checks every link on one program; origin names the generator for the histograms.
// It returns false when the program is outside the fragment.
func c01seqOne(e *Env, p *N, origin string) bool {
	src := c01seqSrc(p)
	rep := e.O.Ask("C01", "seq", "run", Sexp(p), c01Globals)
	f := strings.Split(rep, "\t")
	if f[0] != "in" || len(f) != 12 {
		if f[0] != "out" {
			e.R.Mismatch(src, "-", rep, "C01 seq run: malformed oracle reply")
		}
		return false
	}
	evalS, runS, stE, stR, asm, linkA, sem, vmm, topE, topSem, stVM := f[1], f[2], f[3], f[4], f[5], f[6], f[7], f[8], f[9], f[10], f[11]
	if evalS == "err:unsupported" {
		// the fragment's own models give up (list + list, a string used as a container): nothing to compare
		e.R.H("seq_programs", origin+":unsupported-op") // (origin own: the generator must not produce these)
		e.R.Note("F6 program with an operation the fragment's models do not cover (skipped, origin %s): %s", origin, src)
		return true
	}
	e.R.H("seq_programs", origin)
	for k := range Kinds(p) {
		e.R.H("seq_constructs", k)
	}
	oc := evalS
	if strings.HasPrefix(oc, "ok:(") {
		oc = strings.SplitN(strings.TrimPrefix(oc, "ok:("), " ", 2)[0]
		oc = "ok:" + strings.TrimSuffix(oc, ")")
	}
	e.R.H("seq_outcome", oc)
	if evalS == "oof" || runS == "oof" {
		e.R.Note("F6 program exhausted the model's fuel (skipped): %s", src)
		return true
	}
	mis := func(goSide, model, what string) { e.R.Mismatch(src, goSide, model, "F6: "+what) }
	// the theorem's two sides, evaluated (a proved equality: a difference here means the build is inconsistent)
	if evalS != runS || stE != stR {
		mis(evalS+" "+stE, runS+" "+stR, "evalSeq vs runSeq∘compSeq (proved equal by seq_compile_correct)")
	}
	// the real pipeline
	out := EvalSrc(src, 5*time.Second)
	real := c01fragReal(out)
	if real == "err:context" {
		e.R.Note("real run timed out on an F6 program (skipped): %s", src)
		return true
	}
	if real != evalS {
		mis(real, evalS, "risor.Eval vs evalSeq (reference semantics of the fragment, deep value)")
	}
	if real != runS {
		mis(real, runS, "risor.Eval vs runSeq (compSeq p) (deep value)")
	}
	// (A) bytecode
	code, err := CompileSrc(src)
	goCode := "fail"
	if err == nil {
		goCode = CodeExport(code)
	} else {
		goCode = "fail: " + err.Error()
	}
	if goCode != asm {
		mis(goCode, asm, "link A: compiler.Compile vs compSeq (assembled), instruction for instruction")
	}
	if linkA != "same" {
		mis(asm, linkA, "link A: compSeq (assembled) vs Compile.lean's compileProg")
	}
	// (B) reference semantics
	switch {
	case strings.HasPrefix(sem, "unsupported:"):
		e.R.H("seq_links", "B:unsupported")
	case sem != evalS || topSem != topE:
		if c01seqCompoundEffects(p) && real == evalS {
			// Go agrees with the Impl models; the source-level meaning (each operand once) differs
			e.R.H("seq_links", "B:known-double-eval")
			e.R.Spec(src, "compound item assignment evaluates the index twice: Sem (each operand once) gives "+sem+" "+topSem+", the code "+real+" "+topE, "C01-compound-index-evaluated-twice")
		} else {
			mis(sem+" "+topSem, evalS+" "+topE, "link B: Sem.lean's runProg vs evalSeq (outcome, top-level variables, deep)")
		}
	default:
		e.R.H("seq_links", "B:checked")
	}
	// (C) VM model
	switch {
	case strings.HasPrefix(vmm, "unsupported:"):
		e.R.H("seq_links", "C:unsupported")
	case vmm != runS || stVM != stR:
		mis(vmm+" "+stVM, runS+" "+stR, "link C: VM.lean's runCodes on compileProg vs runSeq on compSeq (outcome, globals, deep)")
	default:
		e.R.H("seq_links", "C:checked")
	}
	return true
}

// ---------------------------------------------------------------- directed programs

// c01seqDirected: programs that isolate one rule of lists with identity / iteration each; every
// one must be inside the fragment.  Every variable is declared once.
func c01seqDirected() []*N {
	I, id := nInt, nId
	L := func(xs ...*N) *N { return n("list", xs...) }
	ix := func(o, i *N) *N { return n("index", o, i) }
	set := func(op string, o, i, v *N) *N { return ns("setitem", op, o, i, v) }
	ex := func(x *N) *N { return n("expr", x) }
	prog := func(ss ...*N) *N { return n("prog", ss...) }
	rng := func(names string, c *N, body ...*N) *N { return ns("forrange", names, c, nBlock(body...)) }
	fin := func(v string, c *N, body ...*N) *N { return ns("forin", v, c, nBlock(body...)) }
	iff := func(c *N, body ...*N) *N { return ex(n("if", c, nBlock(body...))) }
	ife := func(c *N, a, b *N) *N { return n("if", c, nBlock(ex(a)), nBlock(ex(b))) }
	eq := func(a, b *N) *N { return nInfix("==", a, b) }
	brk, cnt := func() *N { return n("break") }, func() *N { return n("continue") }
	a123 := func() *N { return nVar("a", L(I(1), I(2), I(3))) }
	s0 := func() *N { return nVar("s", I(0)) }
	add := func(x string, e *N) *N { return nAssign(x, "+=", e) }
	return []*N{
		// aliasing, identity, freshness of literals
		prog(nVar("a", L(I(1), I(2))), nVar("b", id("a")), set("=", id("b"), I(0), I(9)), ex(ix(id("a"), I(0)))),
		prog(a123(), nVar("b", id("a")), nVar("c", id("b")), set("=", id("c"), I(1), I(7)), ex(L(id("a"), id("b"), id("c"), nInfix("+", ix(id("a"), I(1)), ix(id("b"), I(1)))))),
		prog(nVar("a", L(I(1))), nVar("b", L(I(1))), set("=", id("b"), I(0), I(5)), ex(ix(id("a"), I(0)))),
		prog(nVar("p", L(L(I(0)), L(I(0)))), n("for3", nVar("i", I(0)), nInfix("<", id("i"), I(2)), ns("postfix", "i ++"),
			nBlock(nVar("t", L(I(1))), set("=", id("p"), id("i"), id("t")))), set("=", ix(id("p"), I(0)), I(0), I(9)), ex(id("p"))),
		// negative indices, out of range
		prog(a123(), ex(ix(id("a"), I(-1)))),
		prog(a123(), set("=", id("a"), I(-1), I(7)), ex(id("a"))),
		prog(a123(), ex(ix(id("a"), I(-3)))),
		prog(a123(), ex(ix(id("a"), I(5)))),
		prog(a123(), ex(ix(id("a"), I(3)))),
		prog(a123(), ex(ix(id("a"), I(-4)))),
		prog(a123(), set("=", id("a"), I(5), I(1)), ex(id("a"))),
		prog(a123(), set("=", id("a"), I(-4), I(1)), ex(id("a"))),
		prog(nVar("a", L()), ex(ix(id("a"), I(0)))),
		// type errors
		prog(nVar("x", I(3)), ex(ix(id("x"), I(0)))),
		prog(ex(ix(nBool(true), I(0)))),
		prog(ex(ix(n("nil"), I(0)))),
		prog(a123(), ex(ix(id("a"), nStr("k")))),
		prog(a123(), ex(ix(id("a"), nBool(true)))),
		prog(a123(), ex(ix(id("a"), n("nil")))),
		prog(nVar("x", I(3)), set("=", id("x"), I(0), I(1)), ex(id("x"))),
		prog(a123(), set("=", id("a"), nStr("k"), I(1)), ex(id("a"))),
		prog(nVar("x", I(3)), set("+=", id("x"), I(0), I(1)), ex(id("x"))),
		prog(ex(nInfix("<", L(I(1)), I(1)))),
		prog(ex(nInfix("+", L(I(1)), I(1)))),
		prog(ex(ns("prefix", "-", L(I(1))))),
		// nesting
		prog(ex(ix(ix(L(L(I(1), I(2)), L(I(3))), I(0)), I(1)))),
		prog(nVar("m", L(L(I(1)), L(I(2)))), nVar("c", ix(id("m"), I(1))), set("=", ix(id("m"), I(1)), I(0), I(8)), ex(L(ix(id("c"), I(0)), id("m")))),
		prog(nVar("i1", L(I(1), I(2))), nVar("m", L(id("i1"), L(I(3)))), set("=", ix(id("m"), I(0)), I(0), I(8)), set("+=", ix(id("m"), I(-2)), I(-1), I(5)), ex(L(id("i1"), id("m")))),
		prog(nVar("m", L(L(I(1)), L(I(2)))), nVar("c", ix(id("m"), I(0))), set("=", id("m"), I(0), L(I(7))), set("=", id("c"), I(0), I(5)), ex(L(id("c"), id("m")))),
		prog(nVar("a", L(I(1), I(0))), ex(ix(id("a"), ix(id("a"), I(0))))),
		prog(nVar("a", L(I(1), I(2))), set("=", id("a"), I(0), ix(id("a"), I(1))), ex(id("a"))),
		prog(nVar("a", L(nStr("x"), nStr("y"))), ex(nInfix("+", ix(id("a"), I(0)), ix(id("a"), I(-1))))),
		// evaluation order inside literals and item assignments
		prog(nVar("x", I(1)), nVar("a", L(id("x"), n("if", nBool(true), nBlock(nAssign("x", "=", I(5)), ex(id("x"))), nBlock(ex(I(0)))), id("x"))), ex(id("a"))),
		prog(nVar("a", L(I(1), I(2))), nVar("i", I(0)), set("=", id("a"), id("i"), n("if", nBool(true), nBlock(nAssign("i", "=", I(1)), ex(I(7))), nBlock(ex(I(0))))), ex(id("a"))),
		prog(nVar("a", L(I(1), I(2))), nVar("i", I(0)), set("=", id("a"), n("if", nBool(true), nBlock(nAssign("i", "=", I(1)), ex(I(0))), nBlock(ex(I(0)))), id("i")), ex(id("a"))),
		// equality
		prog(ex(eq(L(I(1), I(2)), L(I(1), I(2))))),
		prog(ex(eq(L(I(1), I(2)), L(I(1), I(3))))),
		prog(ex(eq(L(I(1), I(2)), L(I(1), I(2), I(3))))),
		prog(ex(eq(L(I(1)), I(1)))),
		prog(ex(nInfix("!=", L(I(1)), I(1)))),
		prog(ex(eq(L(), L()))),
		prog(ex(eq(L(L(I(1)), L(I(2))), L(L(I(1)), L(I(2)))))),
		prog(ex(nInfix("!=", L(L(I(1)), L(I(2))), L(L(I(1)), L(I(3)))))),
		prog(ex(eq(L(I(1), nStr("a"), nBool(true), n("nil")), L(I(1), nStr("a"), nBool(true), n("nil"))))),
		prog(nVar("a", L(I(1), I(2))), nVar("b", id("a")), nVar("c", L(I(1), I(2))), nVar("x", eq(id("a"), id("b"))), nVar("y", eq(id("a"), id("c"))),
			set("=", id("b"), I(0), I(5)), ex(L(id("x"), id("y"), eq(id("a"), id("b")), eq(id("a"), id("c")), nInfix("!=", id("a"), id("c"))))),
		// truthiness
		prog(nVar("a", L()), ex(ife(id("a"), I(1), I(2)))),
		prog(nVar("a", L(I(0))), ex(ife(id("a"), I(1), I(2)))),
		prog(ex(ns("prefix", "!", L()))),
		prog(ex(ns("prefix", "!", L(I(0))))),
		prog(ex(nInfix("&&", L(), I(1)))),
		prog(ex(nInfix("||", L(I(0)), I(2)))),
		prog(ex(nInfix("||", L(), I(2)))),
		prog(ex(nInfix("&&", L(I(1)), L()))),
		prog(ex(n("tern", L(I(1)), I(1), I(2)))),
		prog(nVar("a", L(I(1))), nVar("c", I(0)), n("forcond", id("a"), nBlock(ns("postfix", "c ++"), iff(nInfix(">", id("c"), I(2)), brk()))), ex(id("c"))),
		// range loops: the four forms
		prog(s0(), rng("i,v", L(I(1), I(2), I(3)), add("s", nInfix("+", nInfix("*", id("i"), I(10)), id("v")))), ex(id("s"))),
		prog(s0(), rng("i", L(I(5), I(6), I(7)), add("s", nInfix("+", id("i"), I(1)))), ex(id("s"))),
		prog(nVar("k", I(0)), a123(), rng("", id("a"), ns("postfix", "k ++")), ex(id("k"))),
		prog(s0(), fin("v", L(I(4), I(5)), add("s", id("v"))), ex(id("s"))),
		prog(s0(), rng("i,v", L(), add("s", I(1))), ex(id("s"))),
		// over an int
		prog(s0(), rng("i,v", I(5), add("s", nInfix("+", id("i"), id("v")))), ex(id("s"))),
		prog(s0(), rng("i,v", I(0), add("s", I(1))), ex(id("s"))),
		prog(nVar("l", L(I(9), I(9), I(9))), rng("i,v", I(-3), set("=", id("l"), id("i"), id("v"))), ex(id("l"))),
		prog(s0(), fin("v", I(4), add("s", id("v"))), ex(id("s"))),
		prog(s0(), rng("", I(3), add("s", I(2))), ex(id("s"))),
		prog(s0(), nVar("k", I(3)), rng("i", id("k"), add("s", id("i")), nAssign("k", "=", I(100))), ex(L(id("s"), id("k")))),
		// over something that is not iterable
		prog(fin("v", n("nil"))),
		prog(rng("i", nBool(true))),
		// break / continue
		prog(nVar("k", I(0)), fin("v", L(I(1), I(2), I(3)), ns("postfix", "k ++"), brk()), ex(id("k"))),
		prog(s0(), fin("v", L(I(1), I(2), I(3)), iff(eq(id("v"), I(2)), brk()), add("s", id("v"))), ex(id("s"))),
		prog(s0(), fin("v", L(I(1), I(2), I(3)), iff(nInfix(">", id("v"), I(1)), iff(eq(id("v"), I(2)), brk())), add("s", id("v"))), ex(id("s"))),
		prog(s0(), fin("v", L(I(1), I(2), I(3)), ex(n("if", nInfix("<", id("v"), I(2)), nBlock(add("s", I(10))), nBlock(brk()))), add("s", id("v"))), ex(id("s"))),
		prog(s0(), fin("v", L(I(1), I(2), I(3), I(4)), iff(eq(nInfix("%", id("v"), I(2)), I(0)), cnt()), add("s", id("v"))), ex(id("s"))),
		prog(s0(), rng("i,v", L(I(1), I(2), I(3)), add("s", id("v")), cnt(), add("s", I(100))), ex(id("s"))),
		prog(s0(), rng("i,v", L(I(1), I(2), I(3)), iff(eq(id("i"), I(1)), iff(nBool(true), cnt())), add("s", id("v"))), ex(id("s"))),
		prog(s0(), rng("", I(4), add("s", I(1)), iff(eq(id("s"), I(2)), brk())), ex(id("s"))),
		// nested loops
		prog(s0(), fin("i", L(I(1), I(2)), fin("j", L(I(10), I(20), I(30)), iff(eq(id("j"), I(20)), brk()), add("s", nInfix("*", id("i"), id("j"))))), ex(id("s"))),
		prog(s0(), fin("i", L(I(1), I(2), I(3)), fin("j", L(I(1), I(2)), add("s", id("j"))), iff(eq(id("i"), I(2)), brk())), ex(id("s"))),
		prog(s0(), fin("i", L(I(1), I(2), I(3)), fin("j", L(I(1), I(2), I(3)), iff(eq(id("j"), id("i")), cnt()), add("s", id("j"))), iff(eq(id("i"), I(1)), cnt()), add("s", I(100))), ex(id("s"))),
		prog(nVar("c", I(0)), s0(), n("forcond", nInfix("<", id("c"), I(3)), nBlock(ns("postfix", "c ++"),
			fin("v", L(I(1), I(2), I(3)), iff(eq(id("v"), id("c")), brk()), add("s", id("v"))), iff(eq(id("c"), I(2)), cnt()), add("s", I(100)))), ex(id("s"))),
		prog(s0(), fin("v", L(I(1), I(2), I(3)), nVar("c", I(0)), n("forcond", nInfix("<", id("c"), I(5)), nBlock(ns("postfix", "c ++"), iff(eq(id("c"), id("v")), brk()), add("s", I(1)))),
			iff(eq(id("v"), I(2)), cnt()), add("s", I(10))), ex(id("s"))),
		prog(s0(), n("for3", nVar("i", I(0)), nInfix("<", id("i"), I(3)), ns("postfix", "i ++"), nBlock(
			rng("k,v", L(I(1), I(2)), iff(eq(id("k"), id("i")), cnt()), add("s", id("v"))), iff(eq(id("i"), I(1)), brk()))), ex(id("s"))),
		prog(s0(), rng("k,v", L(I(1), I(2), I(3)), n("for3", nVar("i", I(0)), nInfix("<", id("i"), I(3)), ns("postfix", "i ++"), nBlock(iff(eq(id("i"), id("k")), brk()), add("s", id("v")))),
			iff(eq(id("k"), I(1)), brk())), ex(id("s"))),
		prog(s0(), nVar("c", I(0)), n("forever", nBlock(ns("postfix", "c ++"), fin("v", I(3), iff(eq(id("v"), I(1)), cnt()), add("s", id("v"))), iff(nInfix(">", id("c"), I(1)), brk()))), ex(L(id("s"), id("c")))),
		// the body writes to the list being ranged over
		prog(a123(), s0(), rng("i,v", id("a"), iff(eq(id("i"), I(0)), set("=", id("a"), I(2), I(10))), add("s", id("v"))), ex(L(id("s"), id("a")))),
		prog(a123(), s0(), rng("i,v", id("a"), iff(eq(id("i"), I(1)), set("=", id("a"), I(0), I(10))), add("s", id("v"))), ex(L(id("s"), id("a")))),
		prog(a123(), rng("i,v", id("a"), set("+=", id("a"), id("i"), id("v"))), ex(id("a"))),
		prog(a123(), rng("i", id("a"), set("*=", id("a"), id("i"), I(2)), set("-=", id("a"), id("i"), I(1))), ex(id("a"))),
		prog(a123(), nVar("b", id("a")), rng("i,v", id("a"), set("=", id("b"), id("i"), nInfix("*", id("v"), I(2)))), ex(L(id("a"), eq(id("a"), id("b"))))),
		prog(a123(), s0(), rng("i,v", id("a"), set("=", id("a"), nInfix("+", id("i"), I(1)), nInfix("+", id("v"), I(1)))), ex(L(id("s"), id("a")))),
		prog(a123(), s0(), fin("v", id("a"), nAssign("a", "=", L(I(9))), add("s", id("v"))), ex(L(id("s"), id("a")))),
		prog(nVar("m", L(L(I(1), I(2)), L(I(3)))), s0(), rng("i,r", id("m"), fin("w", id("r"), add("s", id("w"))), set("=", id("r"), I(0), id("i"))), ex(L(id("s"), id("m")))),
		// compound item assignment
		prog(a123(), set("+=", id("a"), I(0), I(1)), set("-=", id("a"), I(-1), I(1)), set("*=", id("a"), I(1), I(5)), set("/=", id("a"), I(1), I(3)), ex(id("a"))),
		prog(a123(), set("+=", id("a"), I(0), nStr("x")), ex(id("a"))),
		prog(a123(), set("+=", id("a"), I(9), I(1)), ex(id("a"))),
		prog(a123(), set("/=", id("a"), I(0), I(0)), ex(id("a"))),
		prog(nVar("a", L(nStr("x"))), set("+=", id("a"), I(0), nStr("y")), ex(id("a"))),
		// the index of a compound item assignment is evaluated twice (finding C01-compound-index-evaluated-twice), without calls
		prog(nVar("a", L(I(10), I(20))), nVar("i", I(0)),
			set("+=", id("a"), id("i"), n("if", nBool(true), nBlock(nAssign("i", "=", I(1)), ex(I(5))), nBlock(ex(I(0))))), ex(id("a"))),
		// lists as switch subject / case values
		prog(ex(n("switch", L(I(1)), n("case", L(I(1)), nBlock(ex(I(1)))), n("default", nBlock(ex(I(2))))))),
		prog(nVar("a", L(I(1), I(2))), ex(n("switch", id("a"), n("case", L(I(1)), L(I(1), I(2)), nBlock(ex(I(5)))), n("default", nBlock(ex(I(6))))))),
		// an if / switch as the object of an index
		prog(ex(ix(n("if", nBool(true), nBlock(ex(L(I(4), I(5)))), nBlock(ex(L(I(6))))), I(1)))),
		prog(ex(ix(n("tern", nBool(false), L(I(4)), L(I(6), I(7))), I(-1)))),
		// a range loop as the last statement: the program's value is nil
		prog(nVar("a", L(I(1))), fin("v", id("a"), set("=", id("a"), I(0), I(2)))),
		prog(a123(), set("=", id("a"), I(0), I(2))),
	}
}

// c01seqOutside: programs the fragment must reject.
func c01seqOutside() []*N {
	I, id := nInt, nId
	L := func(xs ...*N) *N { return n("list", xs...) }
	ex := func(x *N) *N { return n("expr", x) }
	prog := func(ss ...*N) *N { return n("prog", ss...) }
	fin := func(v string, c *N, body ...*N) *N { return ns("forin", v, c, nBlock(body...)) }
	a := func() *N { return nVar("a", L(I(1), I(2))) }
	brkIf := func() *N { return n("if", nBool(true), nBlock(n("break"))) }
	return []*N{
		prog(a(), ex(nCall(id("len"), id("a")))),
		prog(a(), ex(n("slice", id("a"), I(0), I(1)))),
		prog(ex(n("map", nStr("k"), I(1)))),
		prog(ex(n("set", I(1)))),
		prog(a(), ex(ns("mcall", "append", id("a"), I(3)))),
		prog(a(), ex(n("in", I(1), id("a")))),
		prog(ns("multi", "p,q", L(I(1), I(2)))),
		prog(a(), fin("v", id("a"), nVar("x", nInfix("+", I(1), brkIf())))),                         // break under a pending operand
		prog(a(), fin("v", id("a"), ex(L(brkIf())))),                                                // … as a list item
		prog(a(), fin("v", id("a"), ex(n("index", id("a"), brkIf())))),                              // … as an index
		prog(a(), fin("v", id("a"), ns("setitem", "=", id("a"), I(0), brkIf()))),                    // … as a right-hand side
		prog(a(), fin("v", id("a"), ex(n("switch", id("v"), n("case", I(1), nBlock(n("break"))))))), // … inside a switch
		prog(a(), nVar("a", L(I(3)))),                                                               // declared twice
		prog(a(), fin("v", id("a")), ex(id("v"))),                                                   // a loop variable used after its loop
		prog(a(), fin("v", id("a")), fin("v", id("a"))),                                             // a loop variable declared twice
		prog(ex(id("zz"))), // never declared
		prog(a(), ns("setitem", "+=", id("a"), n("if", nBool(true), nBlock(nVar("t", I(0)), ex(id("t"))), nBlock(ex(I(0)))), I(1))), // the index code is emitted twice: so is its declaration
		prog(a(), fin("v", id("a"), ex(ns("func", "", n("params"), nBlock())))),
		prog(n("break")),
	}
}

// ---------------------------------------------------------------- generator

// c01seqGen generates programs of F6 on top of the fragment generator (c01fragGen): lists are
// variables of type "L1" (list of scalars) or "L2" (list of L1s) in the fragment generator's
// scopes, declared `locked` so that it never assigns to them itself.  STRATIFICATION rules out
// cyclic lists (the real Inspect / Equals would not terminate on one): only scalars are stored
// into an L1, only L1 values or scalars into an L2, an L2 is stored nowhere.  An expression
// whose value may be a list (a bare list variable, `a && x`, `a || x`) is never produced by the
// expression hook, so no list reaches a position the fragment generator treats as a scalar.
type c01seqGen struct {
	g      *c01fragGen
	shapes map[string]bool
	lens   map[string]int    // exact length of the list an L1 / L2 variable holds; -1 = unknown, not empty
	elem   map[string]string // L1 variables: the element type (int str bool)
	inner  map[string][]int  // L2 variables: lengths of the inner lists (-2 = a scalar); shared between aliases
	depth  map[string]int    // 0 = bound to a literal; k = alias at distance k
	bound  map[string]int    // key variables of range loops: 0 <= key < bound
}

func (sg *c01seqGen) mark(s string) { sg.shapes[s] = true }

func (sg *c01seqGen) declare(name, ty, elem string, ln, depth int) {
	sg.g.declare(name, ty, true)
	sg.lens[name], sg.elem[name], sg.depth[name] = ln, elem, depth
}

// l1 lists the L1 variables in scope with the element type (any when ""), non-empty ones only on request.
func (sg *c01seqGen) l1(elem string, nonEmpty bool) []c01fragVar {
	var out []c01fragVar
	for _, v := range sg.g.vars("L1", false) {
		if (elem == "" || sg.elem[v.name] == elem) && !(nonEmpty && sg.lens[v.name] == 0) {
			out = append(out, v)
		}
	}
	return out
}

func (sg *c01seqGen) l2(nonEmpty bool) []c01fragVar {
	var out []c01fragVar
	for _, v := range sg.g.vars("L2", false) {
		if !(nonEmpty && sg.lens[v.name] == 0) {
			out = append(out, v)
		}
	}
	return out
}

func (sg *c01seqGen) leaf(elem string) *N {
	r := sg.g.r
	switch elem {
	case "int":
		return nInt(int64(r.Intn(10)))
	case "bool":
		return nBool(r.Bool())
	}
	return nStr(Pick(r, c01fragWords))
}

func (sg *c01seqGen) item(elem string) *N {
	g := sg.g
	if g.r.Chance(65) || g.budget <= 0 {
		return sg.leaf(elem)
	}
	return g.expr(elem, 1, false)
}

// pure replaces an expression that contains a statement with an effect by a literal (operands of a
// compound item assignment: the code evaluates container and index twice, see c01seqCompoundEffects;
// a declaration in the index would be compiled twice).
func (sg *c01seqGen) pure(x *N, elem string) *N {
	k := Kinds(x)
	if k["assign"]+k["postfix"]+k["var"]+k["setitem"]+k["for3"]+k["forcond"]+k["forever"]+k["forrange"]+k["forin"] > 0 {
		return sg.leaf(elem)
	}
	return x
}

// l1lit: a literal of k items (k < 0: 1-4 items, sometimes none)
func (sg *c01seqGen) l1lit(elem string, k int) (*N, int) {
	g := sg.g
	g.budget -= 2
	if k < 0 {
		k = 1 + g.r.Intn(4)
		if g.r.Chance(7) {
			k = 0
		}
	}
	x := n("list")
	for i := 0; i < k; i++ {
		x.C = append(x.C, sg.item(elem))
	}
	return x, k
}

// l2lit: 1-3 inner lists, each a non-empty literal of ints or an L1 variable of ints
func (sg *c01seqGen) l2lit() (*N, []int) {
	g := sg.g
	x := n("list")
	var inner []int
	for i, k := 0, 1+g.r.Intn(3); i < k; i++ {
		if vs := sg.l1("int", true); len(vs) > 0 && g.r.Chance(30) {
			v := Pick(g.r, vs)
			if sg.lens[v.name] > 0 {
				x.C = append(x.C, nId(v.name))
				inner = append(inner, sg.lens[v.name])
				sg.mark("L2-holds-variable")
				continue
			}
		}
		lit, ln := sg.l1lit("int", 1+g.r.Intn(3))
		x.C = append(x.C, lit)
		inner = append(inner, ln)
	}
	return x, inner
}

// idx: an index expression for a list of ln items (ln < 0: unknown, not empty); what = read | write (shape names)
func (sg *c01seqGen) idx(ln int, what string) *N {
	g := sg.g
	r := g.r
	if ln < 0 {
		return nInt(Pick(r, []int64{0, 0, -1}))
	}
	if ln == 0 { // (error runs only)
		sg.mark(what + "-oob")
		return nInt(Pick(r, []int64{0, -1, 1}))
	}
	switch c := r.Intn(100); {
	case c < 42:
	case c < 60:
		sg.mark(what + "-neg")
		return nInt(-int64(1 + r.Intn(ln)))
	case c < 84:
		var ks []string // key variables of the enclosing range loops that stay below ln
		for _, v := range g.vars("int", false) {
			if b, ok := sg.bound[v.name]; ok && b <= ln {
				ks = append(ks, v.name)
			}
		}
		if len(ks) > 0 && r.Chance(65) {
			sg.mark(what + "-key")
			return nId(Pick(r, ks))
		}
		if vs := g.vars("int", false); len(vs) > 0 {
			sg.mark(what + "-var")
			x := nId(Pick(r, vs).name)
			if g.errs && r.Chance(20) {
				return x // whatever the variable holds
			}
			return nInfix("%", x, nInt(int64(ln))) // |x % ln| < ln: always a valid index
		}
	case c < 92 && g.errs:
		sg.mark(what + "-oob")
		return nInt(Pick(r, []int64{int64(ln), int64(ln) + 1, -int64(ln) - 1}))
	case c < 96 && g.errs:
		sg.mark(what + "-expr")
		return g.expr("int", 1, false)
	}
	return nInt(int64(r.Intn(ln)))
}

// l2pos: a position of an L2 variable and its rendering (from the front or from the end)
func (sg *c01seqGen) l2pos(m string) (int, *N) {
	r := sg.g.r
	ln := sg.lens[m]
	if ln <= 0 {
		return 0, nInt(0)
	}
	i := r.Intn(ln)
	if r.Chance(25) {
		return i, nInt(int64(i - ln))
	}
	if b := sg.keysBelow(ln); len(b) > 0 && r.Chance(30) {
		return -1, nId(Pick(r, b))
	}
	return i, nInt(int64(i))
}

func (sg *c01seqGen) keysBelow(ln int) []string {
	var ks []string
	for _, v := range sg.g.vars("int", false) {
		if b, ok := sg.bound[v.name]; ok && b <= ln {
			ks = append(ks, v.name)
		}
	}
	return ks
}

// innerLen: the length of m's inner list at position i (i < 0: a key variable, any position)
func (sg *c01seqGen) innerLen(m string, i int) int {
	in := sg.inner[m]
	if i >= 0 && i < len(in) {
		return in[i]
	}
	ln := -1
	for k, x := range in {
		switch {
		case x == -2:
			return -2
		case k == 0:
			ln = x
		case x != ln:
			ln = -1
		}
	}
	return ln
}

// read: `a[i]` on an L1 of the element type; nil when there is none
func (sg *c01seqGen) read(elem string) *N {
	g := sg.g
	vs := sg.l1(elem, !g.errs)
	if len(vs) == 0 {
		return nil
	}
	v := Pick(g.r, vs)
	sg.mark("read")
	if sg.depth[v.name] > 0 {
		sg.mark("read-alias")
	}
	return n("index", nId(v.name), sg.idx(sg.lens[v.name], "read"))
}

// readNested: `m[i][j]`
func (sg *c01seqGen) readNested() *N {
	g := sg.g
	vs := sg.l2(true)
	if len(vs) == 0 {
		return nil
	}
	m := Pick(g.r, vs).name
	i, ix := sg.l2pos(m)
	ln := sg.innerLen(m, i)
	if ln == -2 && !g.errs {
		return nil
	}
	if ln == -2 {
		ln = -1
	}
	sg.mark("read-nested")
	return n("index", n("index", nId(m), ix), sg.idx(ln, "read"))
}

// listOperand: an expression whose value is an L1 (for equality): a variable, a literal, `m[i]`
func (sg *c01seqGen) listOperand() *N {
	g := sg.g
	switch c := g.r.Intn(10); {
	case c < 5:
		if vs := sg.l1("", false); len(vs) > 0 {
			return nId(Pick(g.r, vs).name)
		}
	case c < 7:
		if vs := sg.l2(true); len(vs) > 0 {
			m := Pick(g.r, vs).name
			_, ix := sg.l2pos(m)
			return n("index", nId(m), ix)
		}
	}
	lit, _ := sg.l1lit("int", 1+g.r.Intn(3))
	return lit
}

func (sg *c01seqGen) listEq() *N {
	g := sg.g
	op := Pick(g.r, []string{"==", "!="})
	if vs := sg.l2(false); len(vs) > 0 && g.r.Chance(15) {
		sg.mark("list-eq-nested")
		return nInfix(op, nId(Pick(g.r, vs).name), nId(Pick(g.r, vs).name))
	}
	a, b := sg.listOperand(), sg.listOperand()
	if g.r.Chance(12) {
		b = sg.leaf("int") // a list is never equal to a scalar
	}
	sg.mark("list-eq")
	return nInfix(op, a, b)
}

// exprHook: list forms in scalar positions of the fragment generator's expressions
func (sg *c01seqGen) exprHook(ty string, d int, noTern bool) *N {
	g := sg.g
	r := g.r
	if g.budget <= 0 {
		return nil
	}
	switch ty {
	case "int":
		if !r.Chance(24) {
			return nil
		}
		switch c := r.Intn(100); {
		case c < 55:
			return sg.read("int")
		case c < 75:
			return sg.readNested()
		case c < 85 && d > 0: // a list as the condition of an if expression
			if vs := sg.l1("", false); len(vs) > 0 {
				sg.mark("list-cond")
				return n("if", nId(Pick(r, vs).name), nBlock(n("expr", g.expr("int", d-1, noTern))), nBlock(n("expr", g.expr("int", d-1, noTern))))
			}
		case c < 92 && d > 0 && !noTern: // … of a ternary
			if vs := sg.l1("", false); len(vs) > 0 {
				sg.mark("list-cond")
				return g.tern(func() *N { return nId(Pick(r, vs).name) }, func() *N { return g.expr("int", d-1, true) }, func() *N { return g.expr("int", d-1, true) })
			}
		default: // a literal indexed on the spot
			lit, k := sg.l1lit("int", 1+r.Intn(3))
			sg.mark("read-literal")
			return n("index", lit, sg.idx(k, "read"))
		}
	case "str":
		if r.Chance(25) {
			return sg.read("str")
		}
	case "bool":
		if !r.Chance(22) {
			return nil
		}
		switch c := r.Intn(100); {
		case c < 50:
			return sg.listEq()
		case c < 75:
			if vs := sg.l1("", false); len(vs) > 0 {
				sg.mark("list-not")
				return ns("prefix", "!", nId(Pick(r, vs).name))
			}
		default:
			return sg.read("bool")
		}
	}
	return nil
}

func (sg *c01seqGen) declStmt() []*N {
	g := sg.g
	r := g.r
	g.budget -= 3
	if (len(sg.l1("int", true)) > 0 && r.Chance(30)) || r.Chance(12) {
		lit, inner := sg.l2lit()
		name := g.fresh("m")
		sg.declare(name, "L2", "", len(inner), 0)
		sg.inner[name] = inner
		sg.mark("decl-L2")
		return []*N{nVar(name, lit)}
	}
	elem := "int"
	switch r.Intn(10) {
	case 0:
		elem = "str"
	case 1:
		elem = "bool"
	}
	lit, k := sg.l1lit(elem, -1)
	name := g.fresh("a")
	sg.declare(name, "L1", elem, k, 0)
	sg.mark("decl-L1")
	if k == 0 {
		sg.mark("decl-L1-empty")
	}
	if elem != "int" {
		sg.mark("decl-L1-" + elem)
	}
	return []*N{nVar(name, lit)}
}

func (sg *c01seqGen) aliasStmt() []*N {
	g := sg.g
	vs := append(sg.l1("", false), sg.l2(false)...)
	if len(vs) == 0 {
		return nil
	}
	g.budget -= 2
	v := Pick(g.r, vs)
	name := g.fresh("b")
	sg.declare(name, v.ty, sg.elem[v.name], sg.lens[v.name], sg.depth[v.name]+1)
	if v.ty == "L2" {
		sg.inner[name] = sg.inner[v.name]
		sg.mark("alias-L2")
	}
	sg.mark("alias")
	if sg.depth[name] >= 2 {
		sg.mark("alias-chain")
	}
	return []*N{nVar(name, nId(v.name))}
}

// innerAliasStmt: `c := m[i]`
func (sg *c01seqGen) innerAliasStmt() []*N {
	g := sg.g
	vs := sg.l2(true)
	if len(vs) == 0 {
		return nil
	}
	m := Pick(g.r, vs).name
	i, ix := sg.l2pos(m)
	ln := sg.innerLen(m, i)
	if ln == -2 {
		if !g.errs {
			return nil
		}
		ln = -1
	}
	g.budget -= 2
	name := g.fresh("c")
	sg.declare(name, "L1", "int", ln, 1)
	sg.mark("alias-inner")
	return []*N{nVar(name, n("index", nId(m), ix))}
}

var c01seqOps = map[string][]string{"int": {"+=", "-=", "*=", "/=", "+="}, "str": {"+="}, "bool": nil}

// itemWrite: `obj[i] = e` / `obj[i] op= e` for an object expression holding an L1 of the element type
func (sg *c01seqGen) itemWrite(obj *N, el string, ln int, compound bool) *N {
	g := sg.g
	r := g.r
	i := sg.idx(ln, "write")
	if compound && len(c01seqOps[el]) > 0 {
		op := Pick(r, c01seqOps[el])
		var rhs *N
		switch {
		case op == "/=" && !(g.errs && r.Chance(25)):
			rhs = nInt(int64(1 + r.Intn(4)))
		case el == "str":
			rhs = nStr(Pick(r, c01fragWords)) // (lengths stay linear in the rounds)
		default:
			rhs = sg.pure(g.expr(el, 1, false), el)
		}
		sg.mark("write-compound")
		return ns("setitem", op, obj, sg.pure(i, "int"), rhs)
	}
	rhs := g.expr(el, 2, false)
	if el == "str" && g.inLoop > 0 {
		rhs = nStr(Pick(r, c01fragWords))
	}
	if g.errs && el == "int" && r.Chance(6) { // a string in a list of ints: a type error wherever it is summed later
		rhs = nStr(Pick(r, c01fragWords))
		sg.mark("inject-store-str")
	}
	sg.mark("write")
	return ns("setitem", "=", obj, i, rhs)
}

func (sg *c01seqGen) writeStmt(compound bool) []*N {
	g := sg.g
	vs := sg.l1("", !g.errs)
	if len(vs) == 0 {
		return nil
	}
	g.budget -= 3
	v := Pick(g.r, vs)
	if sg.depth[v.name] > 0 {
		sg.mark("write-alias")
	}
	return []*N{sg.itemWrite(nId(v.name), sg.elem[v.name], sg.lens[v.name], compound)}
}

// nestedWriteStmt: `m[i][j] = e` / `m[i][j] op= e`
func (sg *c01seqGen) nestedWriteStmt() []*N {
	g := sg.g
	vs := sg.l2(true)
	if len(vs) == 0 {
		return nil
	}
	m := Pick(g.r, vs).name
	i, ix := sg.l2pos(m)
	ln := sg.innerLen(m, i)
	if ln == -2 {
		if !g.errs {
			return nil
		}
		ln = -1
	}
	g.budget -= 3
	sg.mark("write-nested")
	return []*N{sg.itemWrite(n("index", nId(m), ix), "int", ln, g.r.Chance(35))}
}

// l2ItemStmt: `m[i] = <an L1>`: a literal or a variable of the same length (exact lengths stay
// exact under any control flow); on error runs also another length or a scalar
func (sg *c01seqGen) l2ItemStmt() []*N {
	g := sg.g
	r := g.r
	vs := sg.l2(true)
	if len(vs) == 0 {
		return nil
	}
	m := Pick(r, vs).name
	ln := sg.lens[m]
	if ln <= 0 {
		return nil
	}
	i := r.Intn(ln)
	old := sg.innerLen(m, i)
	g.budget -= 3
	sg.mark("write-L2-item")
	switch {
	case g.errs && r.Chance(20):
		sg.inner[m][i] = -2
		sg.mark("inject-scalar-in-L2")
		return []*N{ns("setitem", "=", nId(m), nInt(int64(i)), Pick(r, []*N{nInt(int64(r.Intn(5))), n("nil"), nBool(r.Bool())}))}
	case g.errs && r.Chance(20):
		lit, k := sg.l1lit("int", -1)
		sg.inner[m][i] = k
		return []*N{ns("setitem", "=", nId(m), nInt(int64(i)), lit)}
	}
	if old > 0 {
		var same []string
		for _, v := range sg.l1("int", true) {
			if sg.lens[v.name] == old {
				same = append(same, v.name)
			}
		}
		if len(same) > 0 && r.Bool() {
			sg.mark("L2-holds-variable")
			return []*N{ns("setitem", "=", nId(m), nInt(int64(i)), nId(Pick(r, same)))}
		}
		lit, _ := sg.l1lit("int", old)
		return []*N{ns("setitem", "=", nId(m), nInt(int64(i)), lit)}
	}
	return nil
}

// reassignStmt: `a = b` / `a = [ … ]` with the same element type and length
func (sg *c01seqGen) reassignStmt() []*N {
	g := sg.g
	r := g.r
	vs := sg.l1("", false)
	if len(vs) == 0 {
		return nil
	}
	v := Pick(r, vs)
	ln, el := sg.lens[v.name], sg.elem[v.name]
	if ln < 0 {
		return nil
	}
	g.budget -= 2
	var same []string
	for _, w := range sg.l1(el, false) {
		if w.name != v.name && sg.lens[w.name] == ln {
			same = append(same, w.name)
		}
	}
	sg.mark("reassign")
	if len(same) > 0 && r.Bool() {
		return []*N{nAssign(v.name, "=", nId(Pick(r, same)))}
	}
	lit, _ := sg.l1lit(el, ln)
	return []*N{nAssign(v.name, "=", lit)}
}

// listCond: a condition made of lists
func (sg *c01seqGen) listCond() *N {
	g := sg.g
	vs := sg.l1("", false)
	if len(vs) == 0 || g.r.Chance(30) {
		return sg.listEq()
	}
	sg.mark("list-cond")
	x := nId(Pick(g.r, vs).name)
	switch g.r.Intn(4) {
	case 0:
		return ns("prefix", "!", x)
	case 1:
		return nInfix(Pick(g.r, []string{"&&", "||"}), x, g.expr("bool", 1, false))
	}
	return x
}

func (sg *c01seqGen) condStmt(d int) []*N {
	g := sg.g
	g.budget -= 2
	x := n("if", sg.listCond(), g.body(d+1))
	if g.r.Bool() {
		x.C = append(x.C, g.body(d+1))
	}
	return []*N{n("expr", x)}
}

// exprStmt: an expression statement whose value may be a list (it is dropped, or it is the program's value)
func (sg *c01seqGen) exprStmt() []*N {
	g := sg.g
	r := g.r
	g.budget -= 2
	vs := sg.l1("", false)
	switch c := r.Intn(10); {
	case c < 3:
		return []*N{n("expr", sg.listEq())}
	case c < 6 && len(vs) > 0:
		sg.mark("list-logic")
		return []*N{n("expr", nInfix(Pick(r, []string{"&&", "||"}), nId(Pick(r, vs).name), g.expr(Pick(r, []string{"int", "bool"}), 1, false)))}
	case c < 7 && len(vs) > 0: // a switch over lists
		sg.mark("list-switch")
		lit, _ := sg.l1lit("int", 1+r.Intn(2))
		return []*N{n("expr", n("switch", nId(Pick(r, vs).name), n("case", lit, sg.listOperand(), nBlock(n("expr", sg.leaf("int")))), n("default", nBlock(n("expr", sg.leaf("int"))))))}
	case c < 8 && len(vs) > 0:
		return []*N{n("expr", nId(Pick(r, vs).name))}
	}
	if x := sg.read(""); x != nil {
		return []*N{n("expr", x)}
	}
	return nil
}

// sureInt: a variable that certainly holds an int (a loop counter / key), or a fresh one
func (sg *c01seqGen) sureInt() (string, []*N) {
	g := sg.g
	var ks []string
	for _, v := range g.vars("int", false) {
		if _, ok := sg.bound[v.name]; ok {
			ks = append(ks, v.name)
		}
	}
	if len(ks) > 0 && g.r.Bool() {
		return Pick(g.r, ks), nil
	}
	x := g.fresh("x")
	g.declare(x, "int", true)
	return x, []*N{nVar(x, nInt(int64(g.r.Intn(6))))}
}

// injectStmt: ill-typed uses (error runs only)
func (sg *c01seqGen) injectStmt(d int) []*N {
	g := sg.g
	r := g.r
	g.budget -= 3
	vs := sg.l1("int", true)
	switch r.Intn(6) {
	case 0: // index an int
		x, pre := sg.sureInt()
		sg.mark("inject-index-int")
		return append(pre, n("expr", n("index", nId(x), nInt(0))))
	case 1: // assign into an int
		x, pre := sg.sureInt()
		sg.mark("inject-assign-into-int")
		return append(pre, ns("setitem", Pick(r, []string{"=", "+="}), nId(x), nInt(0), nInt(1)))
	case 2: // index with a string
		if len(vs) > 0 {
			sg.mark("inject-index-str")
			if r.Bool() {
				return []*N{n("expr", n("index", nId(Pick(r, vs).name), nStr("k")))}
			}
			return []*N{ns("setitem", "=", nId(Pick(r, vs).name), nStr("k"), nInt(1))}
		}
	case 3: // index nil / a bool
		sg.mark("inject-index-nil-bool")
		return []*N{n("expr", n("index", Pick(r, []*N{n("nil"), nBool(true)}), nInt(0)))}
	case 4: // a string stored into a list of ints, summed later
		if len(vs) > 0 {
			v := Pick(r, vs).name
			sg.mark("inject-store-str")
			return []*N{ns("setitem", "=", nId(v), sg.idx(sg.lens[v], "write"), nStr("x"))}
		}
	case 5: // a range over an int where the list was meant: the keys run past the end
		if len(vs) > 0 && d < 3 {
			v := Pick(r, vs).name
			k := g.fresh("k")
			s := g.fresh("s")
			g.declare(s, "int", false)
			sg.mark("inject-range-int")
			sg.mark("range-int")
			return []*N{nVar(s, nInt(0)), ns("forrange", k, nInt(int64(sg.lens[v]+1+r.Intn(2))), nBlock(nAssign(s, "+=", n("index", nId(v), nId(k)))))}
		}
	}
	return nil
}

// rangeStmt: a range loop over an L1 variable / L1 literal / L2 variable / int, in one of the four
// forms, with forced body shapes (accumulate, write into the list being ranged over, break /
// continue) followed by statements of the fragment generator.  At most 6 rounds.
func (sg *c01seqGen) rangeStmt(d int) []*N {
	g := sg.g
	r := g.r
	g.budget -= 4
	var pre []*N
	var cont *N
	kind, cname, elem, ln := "", "", "int", 0
	l1s, l2s := sg.l1("", false), sg.l2(false)
	switch c := r.Intn(100); {
	case c < 40 && len(l1s) > 0:
		v := Pick(r, l1s)
		kind, cname, cont, elem, ln = "L1", v.name, nId(v.name), sg.elem[v.name], sg.lens[v.name]
	case c < 65 && len(l2s) > 0:
		v := Pick(r, l2s)
		kind, cname, cont, ln = "L2", v.name, nId(v.name), sg.lens[v.name]
	case c < 80:
		nv := r.Intn(6)
		kind, ln = "int", nv
		if r.Chance(25) {
			nv = -nv
		}
		cont = nInt(int64(nv))
	default:
		kind = "lit"
		if r.Chance(12) {
			elem = "str"
		}
		cont, ln = sg.l1lit(elem, -1)
	}
	if g.inLoop > 0 {
		sg.mark("range-in-loop")
	}
	// the accumulator lives outside the loop
	acc := ""
	if vs := g.vars("int", true); len(vs) > 0 && r.Chance(55) {
		acc = Pick(r, vs).name
	} else {
		acc = g.fresh("s")
		g.declare(acc, "int", false)
		pre = append(pre, nVar(acc, nInt(0)))
	}
	accS := ""
	if elem == "str" && (kind == "L1" || kind == "lit") {
		accS = g.fresh("t")
		g.declare(accS, "str", false)
		pre = append(pre, nVar(accS, nStr("")))
	}
	form := r.Intn(4)
	if (kind == "L1" || kind == "L2") && r.Chance(40) { // the key / the row is what the forced bodies work with
		form = r.Intn(2)
	}
	g.push()
	kv, vv := "", ""
	switch form {
	case 0:
		kv, vv = g.fresh("k"), g.fresh("v")
		sg.mark("range-kv")
	case 1:
		kv = g.fresh("k")
		sg.mark("range-k")
	case 2:
		sg.mark("range-bare")
	default:
		vv = g.fresh("v")
		sg.mark("forin")
	}
	sg.mark("range-" + kind)
	if kv != "" {
		g.declare(kv, "int", true)
		if ln >= 0 {
			sg.bound[kv] = ln
		}
	}
	if vv != "" {
		switch kind {
		case "L2":
			il := sg.innerLen(cname, -1)
			if il == -2 {
				il = -1
			}
			sg.declare(vv, "L1", "int", il, 1)
		case "int":
			g.declare(vv, "int", false)
		default:
			g.declare(vv, elem, false)
		}
	}
	g.loop++
	g.inLoop++
	var body []*N
	I := func(k int) *N { return nInt(int64(k)) }
	addAcc := func(e *N) *N { return nAssign(acc, "+=", e) }
	switch kind {
	case "L1", "lit":
		switch {
		case vv != "" && elem == "int":
			body = append(body, addAcc(nId(vv)))
			sg.mark("range-accumulate")
		case vv != "" && elem == "str":
			body = append(body, nAssign(accS, "+=", nId(vv)))
			sg.mark("range-accumulate")
		case vv != "" && elem == "bool":
			body = append(body, n("expr", n("if", nId(vv), nBlock(addAcc(I(1))))))
			sg.mark("range-accumulate")
		case kv != "" && kind == "L1" && elem == "int":
			body = append(body, addAcc(n("index", nId(cname), nId(kv))))
			sg.mark("range-accumulate")
		default:
			body = append(body, addAcc(I(1)))
		}
		if kind == "L1" && kv != "" && elem == "int" && ln > 0 && r.Chance(80) { // the body writes into the list it ranges over
			val := nId(kv)
			if vv != "" {
				val = nInfix(Pick(r, []string{"*", "+"}), nId(vv), I(2))
			}
			switch r.Intn(5) {
			case 0:
				w := ns("setitem", "=", nId(cname), nId(kv), val)
				if r.Bool() && vv != "" {
					w = n("expr", n("if", nInfix(Pick(r, []string{">", "<", "=="}), nId(vv), I(r.Intn(5))), nBlock(w)))
				}
				body = append(body, w)
				sg.mark("range-body-write")
			case 1:
				rhs := I(1 + r.Intn(3))
				if vv != "" && r.Bool() {
					rhs = nId(vv)
				}
				body = append(body, ns("setitem", Pick(r, []string{"+=", "-=", "*="}), nId(cname), nId(kv), rhs))
				sg.mark("range-body-compound")
			case 2: // a later position: the loop sees the new value
				w := ns("setitem", "=", nId(cname), nInfix("+", nId(kv), I(1)), nInfix("+", val, I(1)))
				if !(g.errs && r.Bool()) {
					w = n("expr", n("if", nInfix("<", nId(kv), I(ln-1)), nBlock(w)))
				}
				body = append(body, w)
				sg.mark("range-body-write-next")
			case 3: // an earlier position: not visited again
				body = append(body, ns("setitem", "=", nId(cname), I(0), val))
				sg.mark("range-body-write-earlier")
			default: // the last position, whatever the key
				body = append(body, ns("setitem", Pick(r, []string{"=", "+="}), nId(cname), I(-1), val))
				sg.mark("range-body-write-last")
			}
		}
	case "L2":
		switch {
		case vv != "":
			switch r.Intn(4) {
			case 0:
				body = append(body, addAcc(n("index", nId(vv), sg.idx(sg.lens[vv], "read"))))
				sg.mark("range-L2-read-row")
			case 1:
				val := I(r.Intn(9))
				if kv != "" {
					val = nId(kv)
				}
				body = append(body, ns("setitem", "=", nId(vv), sg.idx(sg.lens[vv], "write"), val))
				sg.mark("range-L2-write-row")
			case 2:
				body = append(body, ns("setitem", "+=", nId(vv), sg.pure(sg.idx(sg.lens[vv], "write"), "int"), I(1+r.Intn(3))))
				sg.mark("range-L2-write-row")
			default: // the row ranged over in turn
				w := g.fresh("w")
				inner := ns("forin", w, nId(vv), nBlock(addAcc(nId(w))))
				if r.Bool() {
					j := g.fresh("j")
					inner = ns("forrange", j+","+w, nId(vv), nBlock(ns("setitem", "=", nId(vv), nId(j), nInfix("+", nId(w), I(1))), addAcc(nId(w))))
				}
				body = append(body, inner)
				sg.mark("range-L2-nested-row")
				sg.mark("nested-range")
			}
		case kv != "":
			body = append(body, addAcc(n("index", n("index", nId(cname), nId(kv)), I(0))))
			sg.mark("range-L2-read-row")
		default:
			body = append(body, addAcc(I(1)))
		}
	case "int":
		switch {
		case kv != "" && vv != "":
			body = append(body, addAcc(nInfix("+", nId(kv), nId(vv))))
		case kv != "":
			body = append(body, addAcc(nId(kv)))
		case vv != "":
			body = append(body, addAcc(nId(vv)))
		default:
			body = append(body, addAcc(I(1)))
		}
		sg.mark("range-accumulate")
		if vs := sg.l1("int", true); len(vs) > 0 && kv != "" && r.Chance(40) { // the keys index a list
			v := Pick(r, vs).name
			if sg.lens[v] >= ln || (g.errs && r.Chance(30)) {
				body = append(body, ns("setitem", Pick(r, []string{"=", "+="}), nId(v), nId(kv), nId(kv)))
				sg.mark("range-int-indexes-list")
			}
		}
	}
	// break / continue on a loop variable, before or after the forced statements
	if r.Chance(35) && (kv != "" || (vv != "" && kind != "L2" && elem == "int")) {
		x := kv
		if x == "" || (vv != "" && kind != "L2" && elem == "int" && r.Bool()) {
			x = vv
		}
		c := n("expr", n("if", nInfix(Pick(r, []string{"==", ">", "<"}), nId(x), I(r.Intn(3))), nBlock(n(Pick(r, []string{"break", "continue"})))))
		if r.Chance(25) { // inside a nested if
			c = n("expr", n("if", nInfix(">=", nId(x), I(0)), nBlock(c)))
		}
		if r.Bool() {
			body = append([]*N{c}, body...)
		} else {
			body = append(body, c)
		}
	}
	blk := g.body(d+1, body...)
	g.inLoop--
	g.loop--
	g.pop()
	if kv != "" {
		delete(sg.bound, kv)
	}
	k := Kinds(blk)
	if k["break"]+k["continue"] > 0 {
		sg.mark("range-ctl")
	}
	if k["forrange"]+k["forin"] > 0 {
		sg.mark("nested-range")
	}
	if k["for3"]+k["forcond"]+k["forever"] > 0 {
		sg.mark("loop-in-range")
	}
	var st *N
	switch form {
	case 0:
		st = ns("forrange", kv+","+vv, cont, blk)
	case 1:
		st = ns("forrange", kv, cont, blk)
	case 2:
		st = ns("forrange", "", cont, blk)
	default:
		st = ns("forin", vv, cont, blk)
	}
	return append(pre, st)
}

// stmtHook: list statements among the fragment generator's statements, at every depth
func (sg *c01seqGen) stmtHook(d int) []*N {
	g := sg.g
	r := g.r
	if len(g.vars("L1", false))+len(g.vars("L2", false)) == 0 {
		if !r.Chance(35) {
			return nil
		}
		return sg.declStmt()
	}
	if !r.Chance(48) {
		return nil
	}
	deep := d < 3 && g.budget > 0
	for try := 0; try < 3; try++ {
		var ss []*N
		switch c := r.Intn(100); {
		case c < 7:
			ss = sg.declStmt()
		case c < 14:
			ss = sg.aliasStmt()
		case c < 21:
			ss = sg.innerAliasStmt()
		case c < 32:
			ss = sg.writeStmt(false)
		case c < 40:
			ss = sg.writeStmt(true)
		case c < 49:
			ss = sg.nestedWriteStmt()
		case c < 53:
			ss = sg.l2ItemStmt()
		case c < 56:
			ss = sg.reassignStmt()
		case c < 61:
			if deep {
				ss = sg.condStmt(d)
			}
		case c < 88:
			if deep {
				ss = sg.rangeStmt(d)
			}
		case c < 94:
			ss = sg.exprStmt()
		default:
			if g.errs {
				ss = sg.injectStmt(d)
			}
		}
		if ss != nil {
			return ss
		}
	}
	return nil
}

// c01seqProgram generates one program inside F6; the second result names the shapes it used.
func c01seqProgram(r *RNG) (*N, map[string]bool) {
	g := &c01fragGen{r: r, budget: 25 + r.Intn(100), errs: r.Chance(30)}
	sg := &c01seqGen{g: g, shapes: map[string]bool{}, lens: map[string]int{}, elem: map[string]string{}, inner: map[string][]int{},
		depth: map[string]int{}, bound: map[string]int{}}
	g.exprHook = sg.exprHook
	g.stmtHook = sg.stmtHook
	g.push()
	var ss []*N
	for i, k := 0, 1+r.Intn(2); i < k; i++ {
		ss = append(ss, sg.declStmt()...)
	}
	if r.Chance(40) {
		ss = append(ss, sg.aliasStmt()...)
	}
	for i, k := 0, 2+r.Intn(6); i < k && g.budget > 0; i++ {
		ss = append(ss, g.stmt(0)...)
	}
	hasRange := func() bool {
		for s := range sg.shapes {
			if strings.HasPrefix(s, "range-") || s == "forin" {
				return true
			}
		}
		return false
	}
	if !hasRange() && r.Chance(75) {
		if g.budget < 12 {
			g.budget = 12
		}
		ss = append(ss, sg.rangeStmt(0)...)
	}
	if !sg.shapes["write-alias"] && r.Chance(50) {
		if g.budget < 6 {
			g.budget = 6
		}
		if al := sg.aliasStmt(); al != nil {
			ss = append(ss, al...)
			b := al[0].S
			if _, isL2 := sg.inner[b]; !isL2 && (sg.lens[b] != 0 || g.errs) {
				sg.mark("write-alias")
				ss = append(ss, sg.itemWrite(nId(b), sg.elem[b], sg.lens[b], r.Chance(30)))
			}
		}
	}
	// the program's value observes the whole state: every top-level variable, lists followed to the bottom
	switch c := r.Intn(100); {
	case c < 75:
		obs := n("list")
		for _, v := range g.scopes[0] {
			obs.C = append(obs.C, nId(v.name))
		}
		ss = append(ss, n("expr", obs))
		sg.mark("observe-all")
	case c < 87:
		ss = append(ss, n("expr", nId(Pick(r, g.scopes[0]).name)))
	case c < 95:
		if x := sg.exprStmt(); x != nil {
			ss = append(ss, x...)
		}
	}
	return n("prog", ss...), sg.shapes
}

// ---------------------------------------------------------------- the check

var c01seqRuleDone = false

// the generator's own stream (five forks deep: distinct from the other fragments' streams)
var c01seqRng *RNG

func c01seqNontrivial(q *N, shapes map[string]bool) bool {
	k := Kinds(q)
	return k["list"]+k["index"]+k["setitem"] > 0 && (k["forrange"]+k["forin"] > 0 || shapes["write-alias"])
}

// c01SeqCheck is called once per program of the shared generator (from c01.go's flush).
func c01SeqCheck(e *Env, p *N, src string) {
	if !c01seqRuleDone {
		c01seqRuleDone = true
		c01seqRng = e.Rng.Fork().Fork().Fork().Fork().Fork()
		e.R.Rule += "; proved fragment F6 (lists with identity, iteration): every shared-generator program that uses lists (or its longest top-level prefix) that lies in the fragment, " +
			"directed programs (aliasing, literal freshness, negative / out-of-range indices, type errors, nested lists, equality, truthiness, the four range forms over lists and ints, " +
			"break / continue in range loops, bodies writing to the list ranged over, compound item assignment), plus fragment-only programs from a generator with stratified list types " +
			"(L1 = list of scalars, L2 = list of L1s; no cyclic list can be built): list declarations, aliases and alias chains, inner aliases `c := m[i]`, index reads in scalar expressions " +
			"(in range, negative, key variables, `x % len`, on error runs out of range), item writes plain and compound through any alias and into inner lists, list equality, lists as conditions, " +
			"range loops of all four forms over L1 / L2 variables, literals and ints with forced bodies (accumulate, write at the key / the next / an earlier / the last position, break / continue) followed by " +
			"random statements of the fragment generator, nested loops, injected type errors; the value of most programs is the list of all top-level variables (deep); each checked on links A, B, C and against the real pipeline"
		for _, q := range c01seqDirected() {
			if c01seqOne(e, q, "directed") {
				e.R.Case("seq:"+Sexp(q), true)
			} else {
				e.R.Mismatch(c01seqSrc(q), "-", "out", "F6: a directed program is outside the fragment")
			}
		}
		for _, q := range c01seqOutside() {
			if rep := e.O.Ask("C01", "seq", "run", Sexp(q), c01Globals); rep != "out" {
				e.R.Mismatch(c01seqSrc(q), "-", rep, "F6: a program that must be outside the fragment is reported inside")
			} else {
				e.R.H("seq_programs", "directed:outside-as-expected")
			}
		}
	}
	// 1. the shared generator's program, or the longest prefix of its top-level statements
	if c01seqHasLists(Kinds(p)) {
		k := 0
		fmt.Sscanf(e.O.Ask("C01", "seq", "prefix", Sexp(p), c01Globals), "%d", &k)
		switch {
		case k == len(p.C) && k > 0:
			c01seqOne(e, p, "shared:whole")
		case k > 0:
			q := n("prog", p.C[:k]...)
			if !c01seqHasLists(Kinds(q)) {
				e.R.H("seq_programs", "shared:prefix-without-lists") // (the F1-F3 check has it)
				break
			}
			// observe every variable the prefix declares at the top level
			obs := n("list")
			for _, s := range p.C[:k] {
				if s.K == "var" {
					obs.C = append(obs.C, nId(s.S))
				}
			}
			q.C = append(append([]*N{}, q.C...), n("expr", obs))
			if !c01seqOne(e, q, "shared:prefix") {
				e.R.Mismatch(c01seqSrc(q), "-", "out", "F6: an in-fragment prefix with its observation is outside the fragment")
			}
		default:
			e.R.H("seq_programs", "shared:outside")
		}
	}
	// 2. fragment-only programs
	for i := 0; i < 1; i++ {
		q, shapes := c01seqProgram(c01seqRng.Fork())
		if c01seqOne(e, q, "own") {
			e.R.Case("seq:"+Sexp(q), c01seqNontrivial(q, shapes))
			for s := range shapes {
				e.R.H("seq_shapes", s)
			}
		} else {
			e.R.H("seq_programs", "own:outside")
			e.R.Note("the F6 generator produced a program outside the fragment: %s", c01seqSrc(q))
		}
	}
}

// development aid (not a registered check): `harness C01seq -oracle …` runs only the F6 part
func init() {
	commands["C01seq"] = func(e *Env) {
		e.R.Rule = "fragment F6 only (development aid)"
		nProg := 3000
		if !e.Quick {
			nProg = 30000
		}
		for i := 0; i < nProg; i++ {
			c01SeqCheck(e, n("prog"), "")
		}
	}
}
