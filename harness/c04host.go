package main

// C04 at the level of the HOST ENTRY POINTS (lean/RisorModel/C04/Host.lean, HostProps.lean).
//
// A history is a sequence of invocations on ONE VirtualMachine: Run (REPL path; "fresh" = a
// chunk was appended to the main code just before), RunCode of the main code / another code
// object / the same code object again / a code object used earlier (through vm.RunCode,
// vm.RunCodeOnVM, risor.EvalCode(WithVM) or risor.Call(WithVM)), Call of a function of the
// active code — each ending normally, in a raised error, in a cancelled context or in a
// recovered Go panic (a host builtin that panics).  After EVERY invocation the real VM's sp
// and fp (vm.VerifState(), build tag verif) are compared with the entry-point machine
// (`C04 host impl <history>`: e.R.Mismatch) and with the Spec (the stack holds exactly what
// this invocation leaves, whatever came before: e.R.Spec).  One long history repeats the same
// RunCode / the same Call more often than the stack has slots.

import (
	"context"
	"fmt"
	"strconv"
	"strings"

	"github.com/risor-io/risor"
	"github.com/risor-io/risor/compiler"
	"github.com/risor-io/risor/object"
	"github.com/risor-io/risor/parser"
	"github.com/risor-io/risor/vm"
)

const c04hostLib = "func g(a) { return a + 1 }\n" +
	"func h(a) { return [a, a, error(\"x\")] }\n" +
	"func f(a) { return [a, boom()] }\n" +
	"func z() { return boom() }\n" +
	"func w(n) { x := 0; for i := 0; i < n; i++ { x += i }; return x }\n"

const c04hostSpin = "x := 0\nfor i := 0; i < 5000000; i++ { x += 1 }\nx"

type c04hostCode struct {
	src    string
	code   *compiler.Code
	out    string // ok | e<k> | p<k> | cancel
	lib    bool   // defines g, h, f, z, w
	cancel bool
}

type c04hostSession struct {
	e     *Env
	cfg   *risor.Config
	opts  []risor.Option
	comp  *compiler.Compiler // the compiler that owns the main code (REPL path)
	m     *vm.VirtualMachine
	codes []*c04hostCode // codes[0] is the main code
	// what the harness knows about the VM
	ipOwner  int    // code object whose end vm.ip is at (-1: none yet)
	active   int    // code object activated last (-1: none)
	mainOut  string // outcome of a RunCode of the main code from slot 0 (changes when a failing chunk is appended)
	mainNew  bool   // the main code has instructions that no Run has executed yet
	grown    bool   // chunks were appended to the main code: run from slot 0 it leaves one value PER CHUNK, so RunCode of it is no longer generated
	toks     []string
	descr    []string
	real     []string // sp/fp after every invocation ("?" where it cannot be observed)
	outcomes []string // observed outcome class per invocation: ok | e | p
}

func c04hostConfig() (*risor.Config, []risor.Option) {
	boom := object.NewBuiltin("boom", func(ctx context.Context, args ...object.Object) object.Object { panic("boom") })
	opts := []risor.Option{risor.WithGlobal("boom", boom)}
	return risor.NewConfig(opts...), opts
}

func c04hostCompile(cfg *risor.Config, src string) *compiler.Code {
	prog, err := parser.Parse(context.Background(), src)
	if err != nil {
		return nil
	}
	code, err := compiler.Compile(prog, cfg.CompilerOpts()...)
	if err != nil {
		return nil
	}
	return code
}

func c04hostItems(k int, last string) string {
	parts := []string{}
	for i := 0; i < k; i++ {
		parts = append(parts, strconv.Itoa(i+1))
	}
	return "[" + strings.Join(append(parts, last), ", ") + "]"
}

// c04hostPool builds the code objects of one session (all compiled by the real compiler).
func c04hostPool(r *RNG, cfg *risor.Config) []*c04hostCode {
	a, b := r.Intn(50), 1+r.Intn(9)
	var out []*c04hostCode
	add := func(src, o string, lib bool) {
		if c := c04hostCompile(cfg, src); c != nil {
			out = append(out, &c04hostCode{src: src, code: c, out: o, lib: lib, cancel: o == "cancel"})
		}
	}
	oks := []string{
		fmt.Sprintf("%d + %d", a, b),
		fmt.Sprintf("x := %d\nx * %d", a, b),
		fmt.Sprintf("x := 0\nfor i := 0; i < %d; i++ { x += i }\nx", b),
		fmt.Sprintf("func g(a) { return a + %d }\ng(%d)", a, b),
		fmt.Sprintf("[%d, %d, 3]", a, b),
		fmt.Sprintf("switch %d { case 1: 5\n default: 6 }", b),
		fmt.Sprintf("try(func() { error(\"e\") }, %d)", a),
		fmt.Sprintf("x := %d\nfor _, v := range [1, 2, 3] { if v == 2 { break }; x += v }", a),
		fmt.Sprintf("x := %d", a),
		"",
	}
	for i := 0; i < 3; i++ {
		add(Pick(r, oks), "ok", false)
	}
	k := r.Intn(5)
	add(c04hostItems(k, "error(\"e\")"), "e"+strconv.Itoa(k), false)
	add("func h(a) { return [a, a, error(\"x\")] }\n[7, h(1)]", "e1", false) // the callee's operands are dropped by callFunction
	k = r.Intn(5)
	add(c04hostItems(k, "boom()"), "p"+strconv.Itoa(k), false)
	// a panic that unwinds a callee with an operand pending: callFunction's deferred function drops the
	// callee's operands (before the repair of C04-call-panic-leaks-slot one of them stayed: p3)
	add("func f(a) { return [a, boom()] }\n[7, 8, f(1)]", "p2", false)
	add("func z() { return boom() }\n[7, z()]", "p1", false)
	add(c04hostLib+"42", "ok", true)
	add(c04hostLib+"[1, 2, error(\"e\")]", "e2", true)
	add(c04hostSpin, "cancel", false)
	return out
}

func c04hostNew(e *Env, r *RNG) *c04hostSession {
	cfg, opts := c04hostConfig()
	s := &c04hostSession{e: e, cfg: cfg, opts: opts, ipOwner: -1, active: -1, mainOut: "ok", mainNew: true}
	comp, err := compiler.New(cfg.CompilerOpts()...)
	if err != nil {
		return nil
	}
	prog, err := parser.Parse(context.Background(), c04hostLib+"42")
	if err != nil {
		return nil
	}
	main, err := comp.Compile(prog)
	if err != nil {
		return nil
	}
	s.comp = comp
	s.codes = append([]*c04hostCode{{src: c04hostLib + "42", code: main, out: "ok", lib: true}}, c04hostPool(r, cfg)...)
	s.m = vm.New(main, cfg.VMOpts()...)
	return s
}

func c04hostClass(err error) string {
	switch {
	case err == nil:
		return "ok"
	case strings.HasPrefix(err.Error(), "panic:"):
		return "p"
	default:
		return "e"
	}
}

func cancelledCtx() context.Context {
	ctx, cancel := context.WithCancel(context.Background())
	cancel()
	return ctx
}

func (s *c04hostSession) observe(tok, descr string, err error) {
	st := s.m.VerifState()
	s.toks = append(s.toks, tok)
	s.descr = append(s.descr, descr)
	s.real = append(s.real, fmt.Sprintf("%d/%d", st.SP, st.FP))
	s.outcomes = append(s.outcomes, c04hostClass(err))
}

// runCode invokes RunCode of code object id through one of its host entry points.
func (s *c04hostSession) runCode(id int, api int) {
	c := s.codes[id]
	out := c.out
	if id == 0 {
		out = s.mainOut
	}
	ctx := context.Background()
	if c.cancel {
		ctx = cancelledCtx()
	}
	var err error
	name := ""
	func() {
		defer func() {
			if r := recover(); r != nil {
				err = fmt.Errorf("PANIC escaped the entry point: %v", r)
			}
		}()
		switch api {
		case 1:
			name = "vm.RunCodeOnVM"
			_, err = vm.RunCodeOnVM(ctx, s.m, c.code)
		case 2:
			name = "risor.EvalCode(WithVM)"
			_, err = risor.EvalCode(ctx, c.code, append([]risor.Option{risor.WithVM(s.m)}, s.opts...)...)
		default:
			name = "vm.RunCode"
			err = s.m.RunCode(ctx, c.code)
		}
	}()
	if c.cancel {
		// where the halt flag catches the loop is not determined: the operands the abandoned run left are
		// read from the VM (this step's sp is not a test; every later step is)
		// (a cancellation that loses the race against the reset of the halt flag lets the loop finish: C07's matter)
		out = "e" + strconv.Itoa(max(s.m.VerifState().SP+1, 0))
		if err == nil {
			out = "ok"
		}
	}
	s.ipOwner, s.active = id, id
	if id == 0 {
		s.mainNew = false
		if err != nil {
			s.m.SetIP(c.code.InstructionCount()) // as a REPL does after a failed run
		}
	}
	s.observe(fmt.Sprintf("code:%d:%s", id, out), fmt.Sprintf("%s(code %d)", name, id), err)
}

// run invokes Run; with fresh a chunk is appended to the main code first.
func (s *c04hostSession) run(r *RNG, fresh bool) {
	out, appended := "ok", ""
	if s.mainNew {
		fresh = false // the main code has not been run at all: it is the fresh part (two chunks compiled before one Run leave two results)
	}
	if fresh {
		chunk, o := fmt.Sprintf("y%d := %d\ny%d + 1", len(s.toks), r.Intn(100), len(s.toks)), "ok"
		switch r.Intn(8) {
		case 0:
			k := 1 + r.Intn(3)
			chunk, o = c04hostItems(k, "error(\"e\")"), "e"+strconv.Itoa(k)
		case 1:
			k := r.Intn(3)
			chunk, o = c04hostItems(k, "boom()"), "p"+strconv.Itoa(k)
		case 2:
			chunk = "for i := 0; i < 3; i++ { switch i { case 1: }; g(i) }"
		}
		prog, err := parser.Parse(context.Background(), chunk)
		if err != nil {
			return
		}
		if _, err := s.comp.Compile(prog); err != nil {
			return
		}
		if o != "ok" && s.mainOut == "ok" {
			s.mainOut = o
		}
		s.grown = true
		appended = " after the chunk `" + strings.ReplaceAll(chunk, "\n", "; ") + "` was appended to the main code"
		out = o
	}
	isFresh := fresh || s.mainNew
	err := s.m.Run(context.Background())
	s.mainNew = false
	s.ipOwner, s.active = 0, 0
	if err != nil {
		s.m.SetIP(s.codes[0].code.InstructionCount())
	}
	f := "0"
	if isFresh {
		f = "1"
	} else {
		out = "ok"
	}
	s.observe("run:"+f+":"+out, "vm.Run()"+appended, err)
}

func (s *c04hostSession) call(r *RNG) {
	type fn struct {
		name string
		args []object.Object
		out  string
		canc bool
	}
	fns := []fn{
		{"g", []object.Object{object.NewInt(int64(r.Intn(9)))}, "ok", false},
		{"w", []object.Object{object.NewInt(int64(r.Intn(9)))}, "ok", false},
		{"h", []object.Object{object.NewInt(1)}, "e2", false},
		{"z", nil, "p0", false},
		{"f", []object.Object{object.NewInt(1)}, "p1", false},
		{"w", []object.Object{object.NewInt(5000000)}, "e0", true},
	}
	c := fns[0]
	switch x := r.Intn(20); {
	case x < 9:
		c = fns[r.Intn(2)]
	case x < 13:
		c = fns[2]
	case x < 15:
		c = fns[3]
	case x < 18:
		c = fns[4]
	default:
		c = fns[5]
	}
	s.callFn(c.name, c.args, c.out, c.canc)
}

func (s *c04hostSession) callFn(name string, args []object.Object, out string, canc bool) {
	o, err := s.m.Get(name)
	f, ok := o.(*object.Function)
	if err != nil || !ok {
		return
	}
	ctx := context.Background()
	if canc {
		ctx = cancelledCtx()
	}
	var cerr error
	func() {
		defer func() {
			if r := recover(); r != nil {
				cerr = fmt.Errorf("PANIC escaped the entry point: %v", r)
			}
		}()
		_, cerr = s.m.Call(ctx, f, args)
	}()
	if canc && cerr == nil {
		out = "ok" // the loop ended before the watcher raised the halt flag
	}
	s.observe("call:"+out, "vm.Call("+name+")", cerr)
}

func (s *c04hostSession) callable() bool {
	return s.active >= 0 && s.codes[s.active].lib
}

func (s *c04hostSession) text(upto int) string {
	var sb strings.Builder
	for i := 0; i <= upto && i < len(s.toks); i++ {
		fmt.Fprintf(&sb, "#%d %s [%s] -> real sp/fp %s, outcome %s\n", i+1, s.descr[i], s.toks[i], s.real[i], s.outcomes[i])
	}
	return sb.String()
}

func (s *c04hostSession) sources() string {
	var sb strings.Builder
	for i, c := range s.codes {
		fmt.Fprintf(&sb, "code %d: %s\n", i, strings.ReplaceAll(c.src, "\n", "; "))
	}
	return sb.String()
}

// judge compares the real registers after every invocation with the machine and the Spec.
// It returns false when a violation was reported.
func (s *c04hostSession) judge(kind string) bool {
	e := s.e
	if len(s.toks) == 0 {
		return true
	}
	hist := strings.Join(s.toks, " ")
	rep := e.O.Ask("C04", "host", "impl", hist)
	f := strings.Split(rep, "\t")
	if f[0] != "ok" || len(f) != 4 {
		e.R.Mismatch(hist, "-", rep, "C04 host: malformed oracle reply")
		return false
	}
	impl, spec, guard := strings.Fields(f[1]), strings.Fields(f[2]), strings.Fields(f[3])
	if len(impl) != len(s.toks) || len(spec) != len(s.toks) || len(guard) != len(s.toks) {
		e.R.Mismatch(hist, "-", rep, "C04 host: the oracle's trace has another length than the history")
		return false
	}
	nontrivial, failedBefore := false, false
	for i, t := range s.toks {
		if i > 0 && strings.HasPrefix(t, "code:") && failedBefore {
			nontrivial = true
		}
		if i > 0 && strings.HasPrefix(t, "code:") && strings.HasPrefix(s.toks[i-1], "code:") &&
			strings.SplitN(t, ":", 3)[1] == strings.SplitN(s.toks[i-1], ":", 3)[1] {
			nontrivial = true
		}
		if !strings.HasSuffix(t, ":ok") {
			failedBefore = true
		}
	}
	e.R.Case(kind+" "+hist, nontrivial)
	okAll := true
	mism, specReported := false, false
	for i, t := range s.toks {
		kindTok := strings.SplitN(t, ":", 2)[0]
		want := t[strings.LastIndex(t, ":")+1:]
		wantClass := want[:1]
		if want == "ok" {
			wantClass = "ok"
		}
		e.R.H("host_invocation", kindTok+":"+wantClass)
		if guard[i] == "1" {
			e.R.H("host_call_panics_with_operands", "seen") // the class of the fixed finding C04-call-panic-leaks-slot: judged like every other
		}
		if s.real[i] == "?" {
			continue
		}
		if s.outcomes[i] != wantClass && !mism {
			mism = true
			e.R.Mismatch(kind+" history:\n"+s.text(i)+s.sources(), "invocation #"+strconv.Itoa(i+1)+" ended "+s.outcomes[i], "designed outcome "+want,
				"host history: an invocation did not end the way its code was written to end (ok / error / recovered panic)")
		}
		if s.real[i] != impl[i] && !mism {
			mism = true
			e.R.H("host_step", "differs-from-machine")
			e.R.Mismatch(kind+" history:\n"+s.text(i)+s.sources(), "sp/fp "+s.real[i]+" after invocation #"+strconv.Itoa(i+1), "sp/fp "+impl[i],
				"host history: the real VM's sp/fp after an invocation vs the entry-point machine (Host.step implCfg)")
		} else if s.real[i] == impl[i] {
			e.R.H("host_step", "agrees-with-machine")
		}
		if s.real[i] != spec[i] {
			if specReported {
				continue
			}
			specReported = true
			okAll = false
			e.R.Spec(kind+" history on one VM:\n"+s.text(i)+s.sources(),
				fmt.Sprintf("after invocation #%d (%s) the real VM has sp/fp %s; the property demands %s: the stack must hold exactly what this invocation leaves, whatever came before (entry-point machine: %s)",
					i+1, s.descr[i], s.real[i], spec[i], impl[i]), "")
		}
	}
	return okAll
}

func c04HostHistory(e *Env, r *RNG, n int) {
	s := c04hostNew(e, r)
	if s == nil {
		e.R.Mismatch("host session", "could not be set up", "-", "C04 host: the library program does not compile")
		return
	}
	cancels := 0
	for len(s.toks) < n {
		switch x := r.Intn(100); {
		case x < 40: // RunCode: same as before / main / any
			id := r.Intn(len(s.codes))
			if s.active >= 0 && r.Chance(40) {
				id = s.active
			} else if r.Chance(15) {
				id = 0
			}
			if id == 0 && s.grown {
				continue
			}
			if s.codes[id].cancel {
				if cancels >= 2 {
					continue
				}
				cancels++
			}
			s.runCode(id, r.Intn(3))
		case x < 45: // risor.Call(WithVM): RunCode of a library code object, then Call
			var libs []int
			for i, c := range s.codes {
				if c.lib && (i != 0 || !s.grown) && c.out == "ok" {
					libs = append(libs, i)
				}
			}
			if len(libs) == 0 {
				continue
			}
			id := Pick(r, libs)
			_, err := risor.Call(context.Background(), s.codes[id].code, "g", []object.Object{object.NewInt(3)},
				append([]risor.Option{risor.WithVM(s.m)}, s.opts...)...)
			s.ipOwner, s.active = id, id
			if id == 0 {
				s.mainNew = false
			}
			s.toks = append(s.toks, fmt.Sprintf("code:%d:ok", id))
			s.descr = append(s.descr, fmt.Sprintf("risor.Call(code %d, g, WithVM): its RunCode", id))
			s.real = append(s.real, "?")
			s.outcomes = append(s.outcomes, "ok")
			s.observe("call:ok", "risor.Call(.., g, WithVM): its Call", err)
		case x < 65: // Run, only while vm.ip belongs to the main code
			if s.ipOwner > 0 {
				continue
			}
			s.run(r, r.Chance(60))
		default:
			if !s.callable() {
				continue
			}
			s.call(r)
		}
	}
	s.judge("generated")
}

// c04HostLong: more invocations of one kind than the operand stack has slots.
func c04HostLong(e *Env, r *RNG) {
	n := 1100
	// the same code object, RunCode after RunCode, through each API
	for api := 0; api < 3; api++ {
		s := c04hostNew(e, r)
		if s == nil {
			return
		}
		id := 1 + r.Intn(3)
		for i := 0; i < n; i++ {
			s.runCode(id, api)
			if s.outcomes[len(s.outcomes)-1] != "ok" {
				break
			}
		}
		if !s.judgeLong(fmt.Sprintf("long: %d x RunCode of the same code object (api %d)", n, api)) {
			return
		}
	}
	// Calls of a function (finishing, failing), then the main code run again and again
	s := c04hostNew(e, r)
	if s == nil {
		return
	}
	s.runCode(0, 0)
	for i := 0; i < n; i++ {
		if i%3 == 2 {
			s.callFn("h", []object.Object{object.NewInt(1)}, "e2", false)
		} else {
			s.callFn("g", []object.Object{object.NewInt(int64(i))}, "ok", false)
		}
	}
	if !s.judgeLong(fmt.Sprintf("long: RunCode of the library, then %d Calls", n)) {
		return
	}
	s = c04hostNew(e, r)
	if s == nil {
		return
	}
	for i := 0; i < 400; i++ {
		s.run(r, i%2 == 0)
		if i%5 == 4 {
			s.callFn("g", []object.Object{object.NewInt(int64(i))}, "ok", false)
		}
	}
	s.judgeLong("long: 400 Runs, every second one after the main code grew, Calls in between")
	// alternating two code objects, and failing runs between finished ones
	s = c04hostNew(e, r)
	if s == nil {
		return
	}
	for i := 0; i < n; i++ {
		switch i % 4 {
		case 0, 1:
			s.runCode(1, 0)
		case 2:
			s.runCode(4, 0)
		default:
			s.runCode(2, 0)
		}
	}
	s.judgeLong(fmt.Sprintf("long: %d RunCodes (same, same, failing, other)", n))
}

// judgeLong judges a long history; the text of a violation shows the last invocations only.
func (s *c04hostSession) judgeLong(kind string) bool {
	return s.judge(kind)
}

func c04Host(e *Env, r *RNG) {
	e.R.Rule += "; host entry points (Host.lean): histories of 2-40 invocations on one VM — Run (fresh after a chunk was appended / nothing new), RunCode through vm.RunCode / vm.RunCodeOnVM / " +
		"risor.EvalCode(WithVM) / risor.Call(WithVM) of the main code, the same code object as before, another or an earlier one, Call of a function of the active code; " +
		"outcomes: finished, raised error with 0-4 operands pending, cancelled context, recovered panic of a host builtin with 0-4 operands pending, in the entry frame or in a callee — " +
		"the real sp/fp after EVERY invocation against the entry-point machine and the Spec; a case is one history (its token text); non-trivial when the same code object is run twice in a row " +
		"or a RunCode follows a failed invocation; plus long histories (1100 x the same RunCode per API, 1100 Calls, 400 Runs, 1100 mixed); Run is generated only while vm.ip belongs to the main code, " +
		"and after a failed run of the main code the host sets ip to its end as the REPL does"
	nh := 160
	if !e.Quick {
		nh = 4000
	}
	for i := 0; i < nh; i++ {
		hr := r.Fork()
		c04HostHistory(e, hr, 2+hr.Intn(39))
	}
	c04HostLong(e, r.Fork())
}
