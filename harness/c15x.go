package main

// C15, stream "xpair": the comparable scalar types that the value model of Model.lean does not
// carry — byte_slice (object/byte_slice.go) and time (object/time.go) — and their meeting with
// strings and other scalars, against `vequals` / `vcompare` / `vhashKey` of
// lean/RisorModel/C15/Dispatch.lean (oracle request `xpair`), through the object API and through
// scripts (`==`, `<`).  Laws checked on the real results: == reflexive, == symmetric (the
// byte_slice/string pairs violate it: finding C15-eq-asymmetric-cross-type), Compare = 0 iff ==,
// Compare antisymmetric for byte_slices, equal byte_slices have equal hash keys.  Time pairs that
// are neither == nor After in either direction ("twins": the same instant in two *Location
// values, or with and without a monotonic reading) are counted in a histogram: the property's
// text does not list time among the ordered types.

import (
	"fmt"
	"strconv"
	"time"

	"github.com/risor-io/risor/object"
)

const c15AsymFinding = "C15-eq-asymmetric-cross-type"

type c15XVal struct {
	obj object.Object
	enc string // oracle encoding
	key string // canonical text for case keys (no wall-clock readings)
	ty  string
}

func c15XBytes(s string) c15XVal {
	h := Hex(s)
	return c15XVal{object.NewByteSlice([]byte(s)), "Y " + h, "Y " + h, "byte_slice"}
}
func c15XBase(o object.Object) c15XVal {
	enc := c15Enc(o)
	return c15XVal{o, enc, enc, string(o.Type())}
}

// every time of a run is base+d: with the monotonic reading of base (only in time.Local: every
// change of location strips it) or without, in one of four locations
func c15XTime(base time.Time, locs []*time.Location, d time.Duration, mono bool, loc int) c15XVal {
	var t time.Time
	monoField := "-"
	if mono {
		t = base.Add(d)
		loc = 3
		monoField = strconv.FormatInt(int64(d), 10)
	} else {
		t = base.Round(0).Add(d)
		if loc != 3 {
			t = t.In(locs[loc])
		}
	}
	enc := fmt.Sprintf("W %d %d %s %d", t.Unix(), t.Nanosecond(), monoField, loc)
	return c15XVal{object.NewTime(t), enc, fmt.Sprintf("W d=%d mono=%v loc=%d", int64(d), mono, loc), "time"}
}

func c15XHKEq(a, b object.Object) string {
	ha, ok1 := a.(object.Hashable)
	hb, ok2 := b.(object.Hashable)
	if !ok1 || !ok2 {
		return "none"
	}
	return c15b01(ha.HashKey() == hb.HashKey())
}

func c15XPairs(e *Env, g *c15Gen) {
	base := time.Now()
	locs := []*time.Location{time.UTC, time.FixedZone("A", 3600), time.FixedZone("A", 3600), time.Local}
	var vals []c15XVal
	strs := []string{"", "a", "ab", "b", "a\x00", "\xff", "\xc3\xa9", "aa", "A"}
	if !e.Quick {
		strs = append(strs, "\x00", "ab\x00", "\xc3", "z", "\xf0\x9f\x98\x80")
	}
	for _, s := range strs {
		vals = append(vals, c15XBytes(s), c15XBase(c15S(s)))
	}
	for i := 0; i < 6; i++ { // random byte strings and near copies
		n := g.rng.Intn(5)
		b := make([]byte, n)
		for j := range b {
			b[j] = byte(g.rng.Intn(4)) * 85
		}
		vals = append(vals, c15XBytes(string(b)))
		if g.rng.Bool() {
			vals = append(vals, c15XBase(c15S(string(b))))
		}
		if n > 0 {
			b2 := append([]byte{}, b...)
			b2[g.rng.Intn(n)] ^= 1
			vals = append(vals, c15XBytes(string(b2)))
		}
	}
	ds := []time.Duration{0, 1, -1, time.Second, -time.Second, time.Hour}
	for _, d := range ds {
		for loc := 0; loc < 4; loc++ {
			vals = append(vals, c15XTime(base, locs, d, false, loc))
		}
		vals = append(vals, c15XTime(base, locs, d, true, 3))
	}
	for i := 0; i < 4; i++ {
		d := time.Duration(g.rng.Intn(2_000_000_001) - 1_000_000_000)
		vals = append(vals, c15XTime(base, locs, d, g.rng.Bool(), g.rng.Intn(4)))
	}
	for _, o := range []object.Object{c15I(97), c15B(97), c15F(97), object.Nil, object.True, c15List(c15S("a")), c15Err("a", false)} {
		vals = append(vals, c15XBase(o))
	}

	type pr struct{ a, b c15XVal }
	var pairs []pr
	var reqs []string
	for _, a := range vals {
		for _, b := range vals {
			pairs = append(pairs, pr{a, b})
			reqs = append(reqs, "C15\txpair\t"+cleanField(a.enc)+"\t"+cleanField(b.enc))
		}
	}
	reps := e.O.AskBatch(reqs)
	for i, p := range pairs {
		a, b := p.a, p.b
		key := c15Key("xpair", a.key, b.key)
		var eq, qe bool
		var cmp, pmc, hkeq string
		pan := c15Guard(func() {
			eq, qe = object.Equals(a.obj, b.obj), object.Equals(b.obj, a.obj)
			cmp, pmc = c15Cmp(a.obj, b.obj), c15Cmp(b.obj, a.obj)
			hkeq = c15XHKEq(a.obj, b.obj)
		})
		goOut := fmt.Sprintf("eq=%s qe=%s cmp=%s pmc=%s hkeq=%s", c15b01(eq), c15b01(qe), cmp, pmc, hkeq)
		if pan != "" {
			goOut = "panic: " + pan
		}
		f := c15Fields(reps[i])
		model := fmt.Sprintf("eq=%s qe=%s cmp=%s pmc=%s hkeq=%s", f["eq"], f["qe"], f["cmp"], f["pmc"], f["hkeq"])
		agree := goOut == model
		if !agree {
			e.R.Mismatch(key, goOut, reps[i], "byte_slice/time: object API vs vequals/vcompare/vhashKey (Dispatch.lean)")
		}
		nontrivial := a.key != b.key
		e.R.Case(key, nontrivial)
		e.R.H("C15 xpair types", a.ty+" × "+b.ty)
		e.R.H("C15 xpair outcome", fmt.Sprintf("eq=%s cmp=%s", c15b01(eq), cmp))
		if pan != "" {
			continue
		}
		// scripts: the operators must be the methods
		if i%3 == 0 || a.ty != b.ty {
			gl := map[string]any{"a": a.obj, "b": b.obj}
			if s := c15Script("a == b", gl); s != c15b01(eq) {
				e.R.Mismatch(key+" [script ==]", s, c15b01(eq), "script a == b differs from a.Equals(b)")
			}
			want := "err"
			if cmp != "err" {
				want = c15b01(cmp == "-1")
			}
			if s := c15Script("a < b", gl); s != want {
				e.R.Mismatch(key+" [script <]", s, want, "script a < b differs from a.Compare(b) < 0")
			}
			e.R.H("C15 xpair scripts", "run")
		}
		// laws on the real results
		finding := ""
		if agree && f["cross"] == "1" {
			finding = c15AsymFinding
		}
		if eq != qe {
			e.R.Spec(key, fmt.Sprintf("== is not symmetric: a == b is %v, b == a is %v (a: %s, b: %s)", eq, qe, a.obj.Inspect(), b.obj.Inspect()), finding)
			e.R.H("C15 xpair laws", "eq-asymmetric")
		}
		if a.key == b.key && !eq {
			e.R.Spec(key, "== is not reflexive on "+a.obj.Inspect(), "")
		}
		if cmp != "err" && (cmp == "0") != eq {
			e.R.Spec(key, fmt.Sprintf("Compare = %s but == is %v", cmp, eq), "")
		}
		if a.ty == "byte_slice" && b.ty == "byte_slice" {
			if ci, err := strconv.Atoi(cmp); err != nil || strconv.Itoa(-ci) != pmc {
				e.R.Spec(key, "byte_slice Compare is not antisymmetric: "+cmp+" / "+pmc, "")
			}
			if (hkeq == "1") != eq {
				e.R.Spec(key, "byte_slice == and hash key disagree: eq="+c15b01(eq)+" hkeq="+hkeq, "")
			}
			e.R.H("C15 xpair laws", "bslice-laws-checked")
		}
		if a.ty == "time" && b.ty == "time" && cmp == "-1" && pmc == "-1" {
			e.R.H("C15 xpair laws", "time-twins (a<b and b<a; outside the property's ordered types) model-guard="+f["twins"])
			if f["twins"] != "1" {
				e.R.Mismatch(key, "a<b and b<a", reps[i], "time twins outside the model's guard timeTwins")
			}
		}
	}
}
