package main

// C07, round 7: objects the HOST keeps across invocations.
//
// A function object or closure the host obtained with vm.Get - or was handed as a callback through
// the host builtin `reg` - in invocation i is called with vm.Call, or fired by the host builtin
// `fire` from inside a running script, in invocation j > i, after RunCode of the same, of another
// or of a grown code object (ending with a value, a runtime error or a panic) in between, having
// been called zero or more times before the reset; a list obtained in one invocation is read in a
// later one.  Every invocation is compared with the Lean model (`C07 kept`: kStep) and with a
// replay on a FRESH VM of the invocations since the last RunCode, in which every kept function of
// the loaded code is fetched again with vm.Get (Spec: kSpecRes; theorems
// kept_function_sees_current_globals, kept_call_equals_fresh_fetch_call,
// C07_kept_independent_of_history).

import (
	"context"
	"fmt"
	"strconv"
	"strings"

	"github.com/risor-io/risor/compiler"
	"github.com/risor-io/risor/object"
	"github.com/risor-io/risor/vm"
)

var c07KeptNames = []string{"fail", "fire", "param", "reg"}

const c07KeptSrc = `x := param()
items := [param()]
func bump(n) { x = x + n; items.append(n); return [0, x] }
func peek(n) { return [0, x] }
func mk(k) { return func(n) { x = x + n; return [k, x] } }
cl := mk(param())
reg(bump)
x = x + 1
fire()
if fail() { 1 + "s" }
x = x + 10
`

var c07KeptWhat = map[string]string{"b": "bump", "p": "peek", "c": "cl", "l": "items"}

// c07KInv is one step of the host: Op r (RunCode), k (Get and keep), c (Call kept object I),
// f (Get then Call), l (read kept list I)
type c07KInv struct {
	Op     string
	Code   int   // r: which code object
	P      int64 // r: what param() returns
	Grow   bool  // r: the host compiles one more snippet into the code object first
	FireI  int   // r: the kept object `fire` calls (-1: none)
	FireN  int64
	Fails  bool
	W      string // k, f: b|p|c|l
	I      int    // c, l
	N      int64  // c, f
	snips  int    // r: snippets compiled into the code object so far (filled in when the history is run)
}

func (v c07KInv) wire() string {
	switch v.Op {
	case "r":
		fr := "_"
		if v.FireI >= 0 {
			fr = fmt.Sprintf("%d.%d", v.FireI, v.FireN)
		}
		fl := "0"
		if v.Fails {
			fl = "1"
		}
		return fmt.Sprintf("r:%d:%d:%d:%s:%s", v.Code, v.P, v.snips, fr, fl)
	case "k":
		return "k:" + v.W
	case "c":
		return fmt.Sprintf("c:%d:%d", v.I, v.N)
	case "f":
		return fmt.Sprintf("f:%s:%d", v.W, v.N)
	}
	return fmt.Sprintf("l:%d", v.I)
}

func (v c07KInv) String() string {
	switch v.Op {
	case "r":
		s := fmt.Sprintf("RunCode(code%d p=%d", v.Code, v.P)
		if v.Grow {
			s += " grown"
		}
		if v.FireI >= 0 {
			s += fmt.Sprintf(" fire=kept[%d](%d)", v.FireI, v.FireN)
		}
		if v.Fails {
			s += " fails"
		}
		return s + ")"
	case "k":
		return "keep(Get " + c07KeptWhat[v.W] + ")"
	case "c":
		return fmt.Sprintf("Call(kept[%d], %d)", v.I, v.N)
	case "f":
		return fmt.Sprintf("Call(Get %s, %d)", c07KeptWhat[v.W], v.N)
	}
	return fmt.Sprintf("read(kept[%d])", v.I)
}

type c07KCode struct {
	comp  *compiler.Compiler
	code  *compiler.Code
	snips int
}

// c07KeptHost is the host: one VM, the parameters its builtins hand to the scripts, the table
// of kept objects (registered callbacks included)
type c07KeptHost struct {
	m        *vm.VirtualMachine
	p        int64
	fails    bool
	fireIdx  int           // the kept object the builtin `fire` calls in the running script (-1: none) ...
	fireObj  object.Object // ... or this very object ...
	fireName string        // ... or the function it fetches with vm.Get when `fire` is called
	fireN    int64
	kept     []object.Object
}

func c07NewKeptHost() *c07KeptHost {
	h := &c07KeptHost{fireIdx: -1}
	globals := map[string]any{
		"param": object.NewBuiltin("param", func(ctx context.Context, args ...object.Object) object.Object { return object.NewInt(h.p) }),
		"fail":  object.NewBuiltin("fail", func(ctx context.Context, args ...object.Object) object.Object { return object.NewBool(h.fails) }),
		"reg": object.NewBuiltin("reg", func(ctx context.Context, args ...object.Object) object.Object {
			h.kept = append(h.kept, args[0])
			return object.Nil
		}),
		"fire": object.NewBuiltin("fire", func(ctx context.Context, args ...object.Object) object.Object {
			target := h.fireObj
			if target == nil && h.fireName != "" {
				if o, err := h.m.Get(h.fireName); err == nil {
					target = o
				}
			}
			if target == nil && h.fireIdx >= 0 && h.fireIdx < len(h.kept) {
				target = h.kept[h.fireIdx]
			}
			fn, ok := target.(*object.Function)
			if !ok {
				return object.Nil
			}
			call, ok := object.GetCallFunc(ctx)
			if !ok {
				return object.Errorf("no call function in the context")
			}
			r, err := call(ctx, fn, []object.Object{object.NewInt(h.fireN)})
			if err != nil {
				return object.NewError(err)
			}
			return r
		}),
	}
	h.m = vm.New(c07CompileWith(c07KeptNames, ""), vm.WithGlobals(globals))
	return h
}

func c07NewKCode() *c07KCode {
	comp, err := compiler.New(compiler.WithGlobalNames(c07KeptNames))
	if err != nil {
		panic(err)
	}
	return &c07KCode{comp: comp, code: c07Compile(comp, c07KeptSrc)}
}

func (c *c07KCode) grow() {
	c07Compile(c.comp, "x = x + 1000\n")
	c.snips++
}

func (h *c07KeptHost) after() string {
	x, items := "~", "~"
	if o, err := h.m.Get("x"); err == nil {
		x = c07RenderObj(o)
		if o2, err := h.m.Get("items"); err == nil {
			items = c07RenderObj(o2)
		}
	}
	return x + ";" + items
}

func c07KCallRes(r object.Object, err error) string {
	if err != nil {
		if strings.Contains(err.Error(), "nil pointer dereference") {
			return "notloaded"
		}
		return c07ErrClass(err)
	}
	if l, ok := r.(*object.List); ok && len(l.Value()) == 2 {
		return "ok=" + c07RenderObj(l.Value()[0]) + "/" + c07RenderObj(l.Value()[1])
	}
	return "ok=?" + r.Inspect()
}

func (h *c07KeptHost) call(o object.Object, n int64) (out string) {
	defer func() {
		if r := recover(); r != nil {
			out = fmt.Sprintf("go-panic(%v)", r)
		}
	}()
	fn, ok := o.(*object.Function)
	if !ok {
		return "badtarget"
	}
	return c07KCallRes(h.m.Call(context.Background(), fn, []object.Object{object.NewInt(n)}))
}

func (h *c07KeptHost) runCode(c *c07KCode, p int64, fails bool, fireIdx int, fireObj object.Object, fireName string, fireN int64) (out string) {
	defer func() {
		if r := recover(); r != nil {
			out = fmt.Sprintf("go-panic(%v)", r)
		}
	}()
	h.p, h.fails, h.fireIdx, h.fireObj, h.fireName, h.fireN = p, fails, fireIdx, fireObj, fireName, fireN
	err := h.m.RunCode(context.Background(), c.code)
	switch {
	case err == nil:
		return "ran=ok"
	case strings.Contains(err.Error(), "nil pointer dereference"):
		return "ran=panic"
	case c07ErrClass(err) == "err=runtime":
		return "ran=err"
	}
	return c07ErrClass(err)
}

// step executes one invocation on the host's VM: "result;x;items"
func (h *c07KeptHost) step(v c07KInv, codes []*c07KCode) string {
	res := "badtarget"
	switch v.Op {
	case "r":
		res = h.runCode(codes[v.Code], v.P, v.Fails, v.FireI, nil, "", v.FireN)
	case "k":
		o, err := h.m.Get(c07KeptWhat[v.W])
		if err != nil {
			res = "nocode"
		} else {
			h.kept = append(h.kept, o)
			res = "kept"
		}
	case "c":
		if v.I < len(h.kept) {
			res = h.call(h.kept[v.I], v.N)
		}
	case "f":
		o, err := h.m.Get(c07KeptWhat[v.W])
		if err != nil {
			res = "nocode"
		} else {
			res = h.call(o, v.N)
		}
	case "l":
		if v.I < len(h.kept) {
			if l, ok := h.kept[v.I].(*object.List); ok {
				res = "list=" + c07RenderObj(l)
			}
		}
	}
	return res + ";" + h.after()
}

func c07KeptKey(h []c07KInv) string {
	xs := make([]string, len(h))
	for i, v := range h {
		xs[i] = v.String()
	}
	return "kept-objects " + strings.Join(xs, " ; ")
}

// c07KeptFresh replays, on a fresh VM, the invocations since (and including) the last RunCode up
// to invocation k, every kept function of the loaded code object being fetched again by name;
// returns what invocation k gives there
func c07KeptFresh(h []c07KInv, k int, codes []*c07KCode, snipsAt []int, host *c07KeptHost, keptName []string, keptCode []int, keptLenAt []int) (string, bool) {
	start := -1
	for j := k; j >= 0; j-- {
		if h[j].Op == "r" {
			start = j
			break
		}
	}
	if start < 0 || h[k].Op == "l" || h[k].Op == "k" {
		return "", false
	}
	ref := c07NewKeptHost()
	// a code object with the same CURRENT contents
	rv := h[start]
	rc := c07NewKCode()
	for i := 0; i < snipsAt[start]; i++ {
		rc.grow()
	}
	// translate a kept object of the reused VM into the object the fresh host calls: a function
	// of the loaded code object is fetched again by name, anything else is the very object
	sameCode := func(i int) bool { return keptCode[i] == rv.Code && keptName[i] != "items" }
	translate := func(i int) object.Object {
		if i < 0 || i >= len(keptName) || i >= len(host.kept) {
			return nil
		}
		if !sameCode(i) {
			return host.kept[i]
		}
		o, err := ref.m.Get(keptName[i])
		if err != nil {
			return nil
		}
		return o
	}
	out := ""
	for j := start; j <= k; j++ {
		v := h[j]
		switch v.Op {
		case "r":
			switch {
			case v.FireI < 0:
				out = ref.runCode(rc, v.P, v.Fails, -1, nil, "", v.FireN)
			case v.FireI >= keptLenAt[j]:
				// the callback this very run registers (or nothing)
				out = ref.runCode(rc, v.P, v.Fails, v.FireI-keptLenAt[j]+len(ref.kept), nil, "", v.FireN)
			case sameCode(v.FireI):
				out = ref.runCode(rc, v.P, v.Fails, -1, nil, keptName[v.FireI], v.FireN)
			default:
				out = ref.runCode(rc, v.P, v.Fails, -1, host.kept[v.FireI], "", v.FireN)
			}
		case "c":
			o := translate(v.I)
			if o == nil {
				out = "badtarget"
			} else {
				out = ref.call(o, v.N)
				// a closure's captured value is its own: the fresh one captured the current p
				if keptName[v.I] == "cl" && keptCode[v.I] == rv.Code && strings.HasPrefix(out, "ok=") {
					if _, x, ok := strings.Cut(out[3:], "/"); ok {
						out = "ok=*/" + x
					}
				}
			}
		case "f":
			o, err := ref.m.Get(c07KeptWhat[v.W])
			if err != nil {
				out = "nocode"
			} else {
				out = ref.call(o, v.N)
			}
		default:
			continue
		}
	}
	return out + ";" + ref.after(), true
}

func c07RunKeptHistory(e *Env, h []c07KInv) {
	// which snippets each code object has when each RunCode starts; the static kept table
	ncodes := 0
	for _, v := range h {
		if v.Op == "r" && v.Code+1 > ncodes {
			ncodes = v.Code + 1
		}
	}
	snips := make([]int, ncodes)
	snipsAt := make([]int, len(h))
	for k := range h {
		if h[k].Op == "r" {
			if h[k].Grow {
				snips[h[k].Code]++
			}
			h[k].snips = snips[h[k].Code]
			snipsAt[k] = h[k].snips
		}
	}
	key := c07KeptKey(h)
	req := []string{"C07", "kept"}
	for _, v := range h {
		req = append(req, v.wire())
	}
	reply := strings.Split(e.O.Ask(req...), "\t")
	if reply[0] != "ok" || len(reply) != len(h)+1 {
		e.R.Mismatch(key, "-", strings.Join(reply, " "), "oracle rejected the kept-objects history")
		return
	}
	codes := make([]*c07KCode, ncodes)
	for i := range codes {
		codes[i] = c07NewKCode()
	}
	host := c07NewKeptHost()
	var keptName []string
	var keptCode []int
	keptLenAt := make([]int, len(h))
	loaded, loadNo, lastLoadOf := -1, 0, map[int]int{}
	keptLoad := []int{}
	crossing, variantDiffers := false, false
	for k, v := range h {
		tag := fmt.Sprintf("%s @%d", key, k)
		m := strings.Split(reply[k+1], ";")
		if len(m) != 5 {
			e.R.Mismatch(tag, "-", reply[k+1], "malformed oracle reply")
			return
		}
		impl, spec, variant := m[0], m[1], m[2]
		if variant != impl {
			variantDiffers = true
		}
		keptLenAt[k] = len(host.kept)
		if v.Op == "r" {
			if v.Grow {
				codes[v.Code].grow()
			}
			loaded = v.Code
			loadNo++
			lastLoadOf[v.Code] = loadNo
		}
		// a call of an object made in an earlier load than the current one
		target := -1
		if v.Op == "c" {
			target = v.I
		} else if v.Op == "r" && v.FireI >= 0 && v.FireI < len(keptLoad) {
			target = v.FireI
		}
		if target >= 0 && target < len(keptLoad) && keptLoad[target] < loadNo && keptName[target] != "items" {
			crossing = true
			rel := "another code object is loaded"
			if keptCode[target] == loaded {
				rel = "the same code object was loaded again"
			}
			e.R.H("kept_call_across_reset", map[string]string{"c": "vm.Call", "r": "fired by a host builtin during RunCode"}[v.Op]+", "+keptName[target]+", "+rel)
		}
		got := host.step(v, codes)
		// the table of kept objects as the model sees it
		for len(keptName) < len(host.kept) {
			name := "bump"
			if v.Op == "k" {
				name = c07KeptWhat[v.W]
			}
			keptName = append(keptName, name)
			keptCode = append(keptCode, loaded)
			keptLoad = append(keptLoad, loadNo)
		}
		e.R.H("kept_invocation", map[string]string{"r": "RunCode", "k": "Get and keep", "c": "Call kept object", "f": "Get then Call", "l": "read kept list"}[v.Op])
		want := impl + ";" + m[3] + ";" + m[4]
		if got != want {
			e.R.Mismatch(tag, got, want, "result of the invocation; vm.Get(x); vm.Get(items) afterwards - objects the host kept across invocations on a reused VM")
		}
		// Spec on the real code: the invocations since the last RunCode replayed on a fresh VM,
		// kept functions of the loaded code fetched again
		if fresh, ok := c07KeptFresh(h, k, codes, snipsAt, host, keptName, keptCode, keptLenAt); ok {
			gotCmp, specCmp := got, spec
			if strings.HasPrefix(fresh, "ok=*/") {
				// closure: the captured value is the closure's own (compared with the model above)
				if _, rest, ok := strings.Cut(got, "/"); ok && strings.HasPrefix(got, "ok=") {
					gotCmp = "ok=*/" + rest
				}
				if _, rest, ok := strings.Cut(spec, "/"); ok {
					specCmp = "ok=*/" + rest
				}
			}
			freshRes, _, _ := strings.Cut(fresh, ";")
			if specCmp != freshRes {
				e.R.Mismatch(tag, "fresh VM: "+freshRes, specCmp, "the Spec model (kSpecRes) against the replay on a fresh VM")
			}
			if gotCmp != fresh {
				e.R.Spec(tag, fmt.Sprintf("invocation %d (%s) on the reused VM gave %s (result;x;items); the invocations since the last RunCode replayed on a fresh VM, the kept functions fetched again with vm.Get, give %s - an object the host kept from an earlier invocation does not see the current load's globals", k, v.String(), got, fresh), "")
			}
		}
	}
	e.R.Case(key, crossing)
	e.R.H("kept_history_length", strconv.Itoa(c07Min(len(h), 12)))
	e.R.H("kept_remembered_code_variant_would_differ", strconv.FormatBool(variantDiffers))
}

func c07RunKept(e *Env) {
	rc := func(code int, p int64) c07KInv { return c07KInv{Op: "r", Code: code, P: p, FireI: -1} }
	call := func(i int, n int64) c07KInv { return c07KInv{Op: "c", I: i, N: n} }
	keep := func(w string) c07KInv { return c07KInv{Op: "k", W: w} }
	fresh := func(w string, n int64) c07KInv { return c07KInv{Op: "f", W: w, N: n} }
	// the committed witness of the contrast theorem (cachedCode_depends_on_history), first
	c07RunKeptHistory(e, []c07KInv{rc(0, 100), call(0, 5), rc(0, 100), call(0, 5), fresh("p", 0)})
	// directed: how the object was obtained (registered callback / Get bump, peek, cl) x called
	// 0-2 times before the reset x what runs in between (same / other / grown code object; ok /
	// fails) x called by vm.Call or fired from the next run
	for _, w := range []string{"reg", "b", "p", "c"} {
		for pre := 0; pre <= 2; pre++ {
			for between := 0; between < 5; between++ {
				for _, how := range []string{"call", "fire", "both"} {
					h := []c07KInv{rc(0, 7)}
					idx := 0
					if w != "reg" {
						h = append(h, keep(w))
						idx = 1
					}
					h = append(h, keep("l"))
					lst := idx + 1
					for i := 0; i < pre; i++ {
						h = append(h, call(idx, int64(2+i)))
					}
					r2 := rc(0, 20)
					switch between {
					case 1:
						r2 = rc(1, 20)
					case 2:
						r2.Grow = true
					case 3:
						r2.Fails = true
					case 4:
						h = append(h, rc(1, 30), call(idx, 1))
					}
					if how != "call" {
						r2.FireI, r2.FireN = idx, 3
					}
					h = append(h, r2)
					if how != "fire" {
						h = append(h, call(idx, 4), call(idx, 5))
					}
					h = append(h, fresh("p", 0), c07KInv{Op: "l", I: lst}, rc(0, 9), call(idx, 1), c07KInv{Op: "l", I: lst})
					c07RunKeptHistory(e, h)
				}
			}
		}
	}
	// sampled histories
	n := 1200
	if e.Quick {
		n = 250
	}
	rng := e.Rng.Fork()
	for i := 0; i < n; i++ {
		ncodes := 1 + rng.Intn(3)
		h := []c07KInv{rc(rng.Intn(ncodes), int64(rng.Intn(50)))}
		kept := 1
		fnKept := []int{0}
		listKept := []int{}
		for l := 3 + rng.Intn(10); l > 0; l-- {
			switch x := rng.Intn(100); {
			case x < 25:
				v := rc(rng.Intn(ncodes), int64(rng.Intn(50)))
				if rng.Chance(70) {
					v.Code = h[0].Code // mostly the same code object again
				}
				v.Grow, v.Fails = rng.Chance(20), rng.Chance(15)
				if rng.Chance(40) {
					v.FireI, v.FireN = fnKept[rng.Intn(len(fnKept))], int64(rng.Intn(9))
				}
				h = append(h, v)
				fnKept = append(fnKept, kept)
				kept++
			case x < 40:
				w := []string{"b", "p", "c", "l"}[rng.Intn(4)]
				h = append(h, keep(w))
				if w == "l" {
					listKept = append(listKept, kept)
				} else {
					fnKept = append(fnKept, kept)
				}
				kept++
			case x < 80:
				h = append(h, call(fnKept[rng.Intn(len(fnKept))], int64(rng.Intn(9))))
			case x < 90:
				h = append(h, fresh([]string{"b", "p", "c"}[rng.Intn(3)], int64(rng.Intn(9))))
			default:
				if len(listKept) > 0 {
					h = append(h, c07KInv{Op: "l", I: listKept[rng.Intn(len(listKept))]})
				}
			}
		}
		c07RunKeptHistory(e, h)
	}
}
