package main

// C10, part F — PRODUCE-THEN-CLOSE races on buffered channels.
//
// A producer sends its last values and closes at once while consumers (explicit receive and
// range) are waiting on the momentarily empty channel.  The model (RisorModel/C10:
// `closedAndDrained`, `recv_is_atomic_test`, `closed_reported_only_when_drained`,
// `closed_report_is_final`) says that a receive answers "closed" (nil / end of the range)
// only on ONE atomic look that finds the queue empty AND the channel closed; the contrast
// machine `step2` (poll, then a separate flag) is proved to lose a value
// (`two_step_variant_loses_a_value`).
//
//   F1. call-out schedules   deterministic: a real object.Chan is driven from Go; the operation
//        under test (Receive / Next / Send) is called with a context whose methods (Done, Err,
//        Value, Deadline — the only places where the call hands control to anybody else) run a
//        burst of OTHER threads' operations (sends, a close, a receive) at the k-th call-out.
//        Linearisability is the Spec: the observations must be those of the machine on
//        pre ++ burst ++ [op] ++ post or on pre ++ [op] ++ burst ++ post (`C10 pclose`), and a
//        "closed" answer is never given while a value is buffered (read off the real channel).
//   F2. API rounds           many short rounds (a channel lifetime each) on real goroutines at
//        the object.Chan API: producer sends 1..n values and closes, 1–2 consumers (Receive
//        until nil / Next+Entry until the end) on a cancellable context, GOMAXPROCS varied.
//   F3. script rounds        the same through scripts: worker threads run thousands of rounds,
//        producers started with go / spawn() / fn.spawn(), consumers `<-c`, c.receive(),
//        range, for-in, and a second consumer thread; the host reads the channel after every
//        round.
// Judgement of F2/F3 per round (never timing): the consumer(s) got every sent value exactly
// once, in order, then "closed", and nothing is left in the channel — compared with the
// machine's own run of the round (`C10 pclose`).

import (
	"context"
	"fmt"
	"runtime"
	"sort"
	"strconv"
	"strings"
	"sync"
	"sync/atomic"
	"time"

	"github.com/risor-io/risor"
	"github.com/risor-io/risor/object"
)

// ---------------------------------------------------------------------------------------
// F1. call-out schedules

// c10HookCtx is a context whose every method is a schedule point: at the at-th call-out the
// burst runs (once), inside the call that consulted the context.
type c10HookCtx struct {
	context.Context
	mu     sync.Mutex
	calls  int
	at     int
	fired  bool
	inside bool
	fire   func()
}

func (h *c10HookCtx) point() {
	h.mu.Lock()
	n := h.calls
	h.calls++
	do := n == h.at && !h.fired
	if do {
		h.fired = true
		h.inside = true
	}
	h.mu.Unlock()
	if do {
		h.fire()
	}
}

// fallback: the burst did not fire inside the call; run it now (once)
func (h *c10HookCtx) outside() bool {
	h.mu.Lock()
	do := !h.fired
	if do {
		h.fired = true
	}
	h.mu.Unlock()
	if do {
		h.fire()
	}
	return do
}

func (h *c10HookCtx) Done() <-chan struct{}       { h.point(); return h.Context.Done() }
func (h *c10HookCtx) Err() error                  { h.point(); return h.Context.Err() }
func (h *c10HookCtx) Value(k any) any             { h.point(); return h.Context.Value(k) }
func (h *c10HookCtx) Deadline() (time.Time, bool) { h.point(); return h.Context.Deadline() }

type c10Callout struct {
	cap    int
	pre    []string
	hooked string
	burst  []string
	at     int
	post   []string
}

func (c c10Callout) key() string {
	return fmt.Sprintf("callout cap=%d pre=%s op=%s burst=%s at-callout=%d post=%s", c.cap, c10J(c.pre), c.hooked, c10J(c.burst), c.at, c10J(c.post))
}

func c10J(xs []string) string {
	if len(xs) == 0 {
		return "-"
	}
	return strings.Join(xs, ",")
}

// c10ChanDriver executes single operations of the model's vocabulary on one real channel.
type c10ChanDriver struct {
	mu      sync.Mutex // the burst may run next to the call under test (fallback outside the call)
	ch      *object.Chan
	vals    *c10Vals
	pending map[string]bool
	// closedWithBuffered: a "closed" answer (nil / end) given while values were buffered
	closedWithBuffered []string
}

func (d *c10ChanDriver) isPending(t string) bool {
	d.mu.Lock()
	defer d.mu.Unlock()
	return d.pending[t]
}

func (d *c10ChanDriver) setPending(t string, v bool) {
	d.mu.Lock()
	defer d.mu.Unlock()
	if v {
		d.pending[t] = true
	} else {
		delete(d.pending, t)
	}
}

func (d *c10ChanDriver) mk(i, k int) object.Object {
	d.mu.Lock()
	defer d.mu.Unlock()
	return d.vals.mk(i, k)
}

func (d *c10ChanDriver) name(o object.Object) string {
	d.mu.Lock()
	defer d.mu.Unlock()
	return d.vals.name(o)
}

func (d *c10ChanDriver) do(op string, ctx context.Context) string {
	f := strings.Split(op, ":")
	atoi := func(s string) int { n, _ := strconv.Atoi(s); return n }
	reportClosed := func(what string) {
		if n := len(d.ch.Value()); n > 0 {
			d.mu.Lock()
			d.closedWithBuffered = append(d.closedWithBuffered, fmt.Sprintf("%s answered \"closed\" with %d value(s) buffered", what, n))
			d.mu.Unlock()
		}
	}
	switch f[0] {
	case "s":
		if d.isPending(f[1]) {
			return "B"
		}
		err := d.ch.Send(ctx, d.mk(atoi(f[2]), atoi(f[3])))
		switch {
		case err == nil:
			return "so"
		case err == context.Canceled:
			return "B"
		case strings.Contains(err.Error(), "send on closed channel"):
			return "se"
		}
		return "senderr(" + err.Error() + ")"
	case "r":
		if d.isPending(f[1]) {
			return "B"
		}
		v, err := d.ch.Receive(ctx)
		switch {
		case err == context.Canceled:
			return "B"
		case err != nil:
			return "recverr(" + err.Error() + ")"
		case v == object.Nil:
			reportClosed("Receive (" + op + ")")
			return "nil"
		}
		return "v:" + d.name(v)
	case "c":
		if d.isPending(f[1]) {
			return "B"
		}
		err := d.ch.Close()
		switch {
		case err == nil:
			return "co"
		case strings.Contains(err.Error(), "close of closed channel"):
			return "ce"
		}
		return "closeerr(" + err.Error() + ")"
	case "n":
		if d.isPending(f[1]) {
			return "B"
		}
		v, more := d.ch.Next(ctx)
		if more {
			d.setPending(f[1], true)
			return "nv:" + d.name(v)
		}
		reportClosed("Next (" + op + ")")
		return "end"
	case "e":
		if !d.isPending(f[1]) {
			return "B"
		}
		d.setPending(f[1], false)
		ent, has := d.ch.Entry()
		if !has {
			return "entnone"
		}
		key := "?"
		if k, isInt := ent.Key().(*object.Int); isInt {
			key = strconv.FormatInt(k.Value(), 10)
		}
		return "ent:" + key + ":" + d.name(ent.Value())
	}
	return "?"
}

func c10GenCallout(rng *RNG) c10Callout {
	c := c10Callout{cap: 1 + rng.Intn(8)}
	if rng.Chance(35) {
		c.cap = 1 + rng.Intn(2)
	}
	seq := 0
	msg := func() string { seq++; return fmt.Sprintf("0:%d", seq-1) }
	k0 := rng.Intn(c.cap + 1)
	if rng.Chance(40) {
		k0 = 0
	}
	for i := 0; i < k0; i++ {
		c.pre = append(c.pre, "s:0:"+msg())
	}
	r0 := 0
	if k0 > 0 {
		r0 = rng.Intn(k0 + 1)
		if rng.Chance(50) {
			r0 = k0 // drained again: the consumer will find the channel empty
		}
	}
	for i := 0; i < r0; i++ {
		c.pre = append(c.pre, "r:1")
	}
	b := k0 - r0
	closed := false
	if rng.Chance(8) {
		c.pre = append(c.pre, "c:0")
		closed = true
	}
	c.at = rng.Intn(4)
	if rng.Chance(50) {
		c.at = 0
	}
	kind := rng.Intn(100)
	switch {
	case kind < 80: // receive side
		iter := kind >= 45
		j := rng.Intn(c.cap - b + 1)
		if j > 3 {
			j = 1 + rng.Intn(3)
		}
		cl := !closed && rng.Chance(75)
		if b == 0 && j == 0 && !cl && !closed {
			if rng.Bool() {
				j = 1
			} else {
				cl = true
			}
		}
		for i := 0; i < j; i++ {
			c.burst = append(c.burst, "s:0:"+msg())
		}
		if cl {
			c.burst = append(c.burst, "c:0")
			closed = true
		}
		if iter {
			c.hooked = "n:1"
			c.post = append(c.post, "e:1")
		} else {
			c.hooked = "r:1"
		}
		// what is queued after burst and op: a close before the burst refuses its sends
		left := b + j - 1
		if strings.Contains(strings.Join(c.pre, ","), "c:0") {
			left = b - 1
		}
		if left < 0 {
			left = 0
		}
		// drain: what is left, alternately by explicit receive and by range step; when the
		// channel is closed one more of each (they answer "closed")
		for i := 0; i < left; i++ {
			if i%2 == 0 {
				c.post = append(c.post, "r:1")
			} else {
				c.post = append(c.post, "n:2", "e:2")
			}
		}
		if closed {
			c.post = append(c.post, "r:1", "n:2", "r:2")
		}
	default: // send side: thread 2 sends while somebody closes or makes room
		var bk string
		switch {
		case closed:
			bk = "none"
		case b == c.cap:
			bk = Pick(rng, []string{"recv", "close"})
		default:
			bk = Pick(rng, []string{"close", "recv", "none"})
			if b == 0 && bk == "recv" {
				bk = "close"
			}
		}
		switch bk {
		case "recv":
			c.burst = append(c.burst, "r:3")
		case "close":
			c.burst = append(c.burst, "c:0")
			closed = true
		}
		c.hooked = "s:2:2:" + strconv.Itoa(seq)
		if closed {
			// drain whatever there is, then "closed" twice
			for i := 0; i < b+1; i++ {
				c.post = append(c.post, "r:1")
			}
			c.post = append(c.post, "n:1")
		} else {
			n := b + 1
			if bk == "recv" {
				n--
			}
			for i := 0; i < n; i++ {
				c.post = append(c.post, "r:1")
			}
		}
	}
	return c
}

// c10RunCallout executes one call-out schedule on a real channel.  obs are in the order
// pre, burst, op, post.
func c10RunCallout(c c10Callout) (obs []string, inside bool, callouts int, closedWithBuffered []string, hung string) {
	d := &c10ChanDriver{ch: object.NewChan(c.cap), vals: &c10Vals{byPtr: map[object.Object]string{}}, pending: map[string]bool{}}
	base, cancel := context.WithCancel(context.Background())
	defer cancel()
	for _, op := range c.pre {
		obs = append(obs, d.do(op, base))
	}
	burstObs := make([]string, len(c.burst))
	h := &c10HookCtx{Context: base, at: c.at}
	h.fire = func() {
		for i, op := range c.burst {
			burstObs[i] = d.do(op, base)
		}
	}
	var hookedObs string
	done := make(chan struct{})
	go func() { defer close(done); hookedObs = d.do(c.hooked, h) }()
	select {
	case <-done:
	case <-time.After(3 * time.Millisecond): // a scheduling aid only: the burst runs from outside
		h.outside()
		select {
		case <-done:
		case <-time.After(c10Wait):
			return obs, h.inside, h.calls, d.closedWithBuffered, fmt.Sprintf("%s did not return within %v after the burst", c.hooked, c10Wait)
		}
	}
	h.outside() // the op returned without the burst having run: it runs now, after the op
	obs = append(obs, burstObs...)
	obs = append(obs, hookedObs)
	for _, op := range c.post {
		// post operations are generated enabled (the model says so for both linearisations)
		o := ""
		if !c10_withWatch(func() { o = d.do(op, base) }) {
			return obs, h.inside, h.calls, d.closedWithBuffered, "post operation " + op + " did not return within " + c10Wait.String()
		}
		obs = append(obs, o)
	}
	return obs, h.inside, h.calls, d.closedWithBuffered, ""
}

func c10Callouts(e *Env) {
	rng := e.Rng.Fork()
	n := 1500
	if !e.Quick {
		n = 30000
	}
	var cases []c10Callout
	// directed: the race of the model's contrast machine (Props.pollThenFlagRace), at every
	// call-out index, for a receive and for a range step, buffer 1 and 2
	for at := 0; at < 4; at++ {
		cases = append(cases, c10Callout{cap: 1, hooked: "r:1", burst: []string{"s:0:0:0", "c:0"}, at: at, post: []string{"r:1", "n:2", "r:2"}})
		cases = append(cases, c10Callout{cap: 2, hooked: "n:1", burst: []string{"s:0:0:0", "s:0:0:1", "c:0"}, at: at, post: []string{"e:1", "r:1", "r:1", "n:2", "r:2"}})
		cases = append(cases, c10Callout{cap: 1, pre: []string{"s:0:0:0", "r:1"}, hooked: "r:1", burst: []string{"s:0:0:1", "c:0"}, at: at, post: []string{"r:1", "n:2", "r:2"}})
	}
	for i := 0; i < n; i++ {
		cases = append(cases, c10GenCallout(rng))
	}
	// two linearisations per case: burst before the op (A), op before the burst (B)
	reqs := make([]string, 0, 2*len(cases))
	for _, c := range cases {
		a := append(append(append(append([]string{}, c.pre...), c.burst...), c.hooked), c.post...)
		b := append(append(append(append([]string{}, c.pre...), c.hooked), c.burst...), c.post...)
		reqs = append(reqs, fmt.Sprintf("C10\tpclose\t%d\t%s", c.cap, strings.Join(a, ",")), fmt.Sprintf("C10\tpclose\t%d\t%s", c.cap, strings.Join(b, ",")))
	}
	reps := e.O.AskBatch(reqs)
	nHung := 0
	for i, c := range cases {
		key := c.key()
		fa, fb := strings.Split(reps[2*i], "\t"), strings.Split(reps[2*i+1], "\t")
		if len(fa) != 4 || len(fb) != 4 {
			e.R.Mismatch(key, "-", reps[2*i]+" | "+reps[2*i+1], "oracle reply malformed")
			continue
		}
		fix := func(s string) []string { // the zero-like zoo is not used here; nothing to rewrite
			return strings.Split(s, ",")
		}
		ma, mbRaw := fix(fa[0]), fix(fb[0])
		// permute B's observations into A's layout (pre, burst, op, post)
		np, nb := len(c.pre), len(c.burst)
		mb := append([]string{}, mbRaw[:np]...)
		mb = append(mb, mbRaw[np+1:np+1+nb]...)
		mb = append(mb, mbRaw[np])
		mb = append(mb, mbRaw[np+1+nb:]...)
		bLegal := mbRaw[np] != "B" // the op is enabled without the burst
		obs, inside, callouts, cwb, hung := c10RunCallout(c)
		recvSide := c.hooked[0] != 's'
		racing := recvSide && !bLegal && strings.Contains(strings.Join(c.burst, ","), "c:")
		e.R.Case(key, racing && inside)
		e.R.H("callout_op", c.hooked[:1])
		e.R.H("callout_burst_ran", map[bool]string{true: "inside the call (at a context call-out)", false: "outside (the call made fewer call-outs)"}[inside])
		e.R.H("callout_count_of_op", strconv.Itoa(callouts))
		e.R.H("callout_cap", strconv.Itoa(c.cap))
		if racing {
			e.R.H("callout_produce_then_close_on_waiting_consumer", map[bool]string{true: "burst inside the call", false: "burst outside"}[inside])
		}
		if hung != "" {
			e.R.Mismatch(key, "hung: "+hung, fa[0], "real channel blocked where the model says the step is enabled")
			e.R.Spec(key, hung+": a value that was sent is never received", "")
			nHung++
			if nHung >= 3 {
				e.R.Note("call-out schedules stopped after %d schedules that blocked", nHung)
				break
			}
			continue
		}
		goAll := strings.Join(obs, ",")
		okA := goAll == strings.Join(ma, ",")
		okB := bLegal && goAll == strings.Join(mb, ",")
		if !okA && !okB {
			model := "burst first: " + strings.Join(ma, ",")
			if bLegal {
				model += " | op first: " + strings.Join(mb, ",")
			} else {
				model += " (the op is not enabled before the burst)"
			}
			e.R.Mismatch(key, goAll, model, "object.Chan with other threads' operations at a context call-out vs C10.step (no linearisation of the call explains the observations)")
			hi := np + nb
			e.R.Spec(key, fmt.Sprintf("%s was called (cap %d, after %s); while it was inside the call the other thread(s) did %s; it answered %s; every placement of the call as ONE atomic step gives %s (observations in the order pre, burst, op, post: %s)",
				c.hooked, c.cap, c10J(c.pre), c10J(c.burst), obs[hi], ma[hi], goAll), "")
		}
		for _, w := range cwb {
			e.R.Spec(key, w+" (the property: receiving yields nil / iteration ends only on a closed AND drained channel); observations (pre, burst, op, post): "+goAll, "")
		}
		if fa[3] != "ok" || fb[3] != "ok" {
			e.R.Mismatch(key, "-", fa[3]+"/"+fb[3], "the model itself reports closed on an undrained channel (contradicts closed_reported_only_when_drained)")
		}
	}
}

// ---------------------------------------------------------------------------------------
// F2 / F3. rounds

type c10Shape struct {
	size, msgs int
	consumers  []string // recv | iter  (at most one iter: the recorded finding needs two)
}

func (s c10Shape) key(level string, procs int) string {
	return fmt.Sprintf("produce-then-close level=%s size=%d msgs=%d consumers=%v procs=%d", level, s.size, s.msgs, s.consumers, procs)
}

// the round as ONE schedule of the channel machine: the consumers are waiting first (not
// enabled), the producer sends (a consumer takes a value whenever the buffer is full), closes
// at once, the consumers drain and each sees "closed".
func (s c10Shape) schedule() []string {
	var ops []string
	take := func(j int) {
		t := 1 + j%len(s.consumers)
		if s.consumers[t-1] == "iter" {
			ops = append(ops, fmt.Sprintf("n:%d", t), fmt.Sprintf("e:%d", t))
		} else {
			ops = append(ops, fmt.Sprintf("r:%d", t))
		}
	}
	for j := range s.consumers {
		take(j) // not enabled: the channel is empty and open
	}
	buffered, taken := 0, 0
	for i := 0; i < s.msgs; i++ {
		if buffered == s.size {
			take(taken)
			taken++
			buffered--
		}
		ops = append(ops, fmt.Sprintf("s:0:0:%d", i))
		buffered++
	}
	ops = append(ops, "c:0")
	for ; buffered > 0; buffered-- {
		take(taken)
		taken++
	}
	for j, c := range s.consumers { // everybody sees "closed"
		if c == "iter" {
			ops = append(ops, fmt.Sprintf("n:%d", j+1))
		} else {
			ops = append(ops, fmt.Sprintf("r:%d", j+1))
		}
	}
	return ops
}

type c10RoundFail struct {
	shape    c10Shape
	procs    int
	level    string
	round    int
	logs     [][]int // per consumer: the sequence numbers it was handed
	leftover int
	note     string
}

func (f c10RoundFail) detail() string {
	got := 0
	for _, l := range f.logs {
		got += len(l)
	}
	return fmt.Sprintf("round %d (%s, GOMAXPROCS %d): buffer %d; the producer sent %d value(s) 0..%d and closed at once; consumers %v were handed %v (%d of %d) and were then told \"closed\"; %d value(s) still in the channel after every consumer saw \"closed\"%s",
		f.round, f.level, f.procs, f.shape.size, f.shape.msgs, f.shape.msgs-1, f.shape.consumers, f.logs, got, f.shape.msgs, f.leftover, f.note)
}

// c10JudgeRound: exactly once, in order per consumer, nothing left (Spec evaluated on the real result)
func c10JudgeRound(s c10Shape, logs [][]int, leftover int) bool {
	seen := make([]int, s.msgs)
	for _, l := range logs {
		last := -1
		for _, v := range l {
			if v < 0 || v >= s.msgs || v <= last {
				return false
			}
			last = v
			seen[v]++
		}
	}
	for _, k := range seen {
		if k != 1 {
			return false
		}
	}
	return leftover == 0
}

// one round at the API level; logs are written into the caller's buffers
func c10APIRound(ctx context.Context, s c10Shape, vals []object.Object, idx map[object.Object]int, logs [][]int) (leftover int, note string) {
	ch := object.NewChan(s.size)
	go func() {
		for i := 0; i < s.msgs; i++ {
			if err := ch.Send(ctx, vals[i]); err != nil {
				return
			}
		}
		ch.Close()
	}()
	consume := func(j int) {
		logs[j] = logs[j][:0]
		for {
			var v object.Object
			if s.consumers[j] == "iter" {
				if _, more := ch.Next(ctx); !more {
					return
				}
				ent, has := ch.Entry()
				if !has {
					logs[j] = append(logs[j], -2)
					continue
				}
				v = ent.Value()
			} else {
				var err error
				v, err = ch.Receive(ctx)
				if err != nil || v == object.Nil {
					return
				}
			}
			k, ok := idx[v]
			if !ok {
				k = -1
			}
			logs[j] = append(logs[j], k)
		}
	}
	if len(s.consumers) == 1 {
		consume(0)
	} else {
		var wg sync.WaitGroup
		for j := 1; j < len(s.consumers); j++ {
			wg.Add(1)
			go func(j int) { defer wg.Done(); consume(j) }(j)
		}
		consume(0)
		wg.Wait()
	}
	// every consumer was told "closed": the producer has done all its sends and its close
	return len(ch.Value()), ""
}

func c10GenShapes(rng *RNG, n int) []c10Shape {
	var out []c10Shape
	seen := map[string]bool{}
	// the smallest first
	base := []c10Shape{{1, 1, []string{"recv"}}, {1, 1, []string{"iter"}}, {2, 2, []string{"recv"}}, {1, 2, []string{"recv", "recv"}}}
	for _, s := range base {
		out = append(out, s)
		seen[s.key("", 0)] = true
	}
	for len(out) < n {
		s := c10Shape{size: 1 + rng.Intn(8)}
		s.msgs = 1 + rng.Intn(3)
		if rng.Chance(25) {
			s.msgs = 1 + rng.Intn(s.size+2)
		}
		switch x := rng.Intn(100); {
		case x < 40:
			s.consumers = []string{"recv"}
		case x < 75:
			s.consumers = []string{"iter"}
		case x < 90:
			s.consumers = []string{"recv", "recv"}
		default:
			s.consumers = []string{"iter", "recv"}
		}
		if k := s.key("", 0); !seen[k] {
			seen[k] = true
			out = append(out, s)
		}
	}
	return out
}

// c10ModelOfShapes asks the machine for its own run of every shape
func c10ModelOfShapes(e *Env, shapes []c10Shape) map[string][]string {
	reqs := make([]string, len(shapes))
	for i, s := range shapes {
		reqs[i] = fmt.Sprintf("C10\tpclose\t%d\t%s", s.size, strings.Join(s.schedule(), ","))
	}
	reps := e.O.AskBatch(reqs)
	out := map[string][]string{}
	for i, s := range shapes {
		out[s.key("", 0)] = strings.Split(reps[i], "\t")
	}
	return out
}

// c10CheckModelOfShape: the machine's run of the round delivers everything and ends drained;
// returns (delivered, buflen, closed) of the model
func c10CheckModelOfShape(e *Env, key string, s c10Shape, f []string) (ok bool) {
	if len(f) != 4 {
		e.R.Mismatch(key, "-", strings.Join(f, "\t"), "oracle reply malformed")
		return false
	}
	want := fmt.Sprintf("%d:%d:%d:0:true", s.msgs, s.msgs, s.msgs)
	if f[2] != want || f[3] != "ok" {
		e.R.Mismatch(key, want, f[2]+" "+f[3], "the model's own run of the round (sent:dequeued:delivered:buflen:closed) — harness schedule and machine disagree")
		return false
	}
	return true
}

func c10CloseRaceAPI(e *Env) (fails int) {
	rng := e.Rng.Fork()
	nShapes, rounds := 40, 6000
	if !e.Quick {
		nShapes, rounds = 120, 40000
	}
	shapes := c10GenShapes(rng, nShapes)
	model := c10ModelOfShapes(e, shapes)
	base, cancel := context.WithCancel(context.Background()) // cancellable: Err()/Done() are real
	defer cancel()
	maxMsgs := 12
	total := 0
	var failMu sync.Mutex
	var failsList []c10RoundFail
	var stop atomic.Bool
	for _, procs := range []int{2, 4, 16} {
		runtime.GOMAXPROCS(procs)
		workers := 2 * procs
		for _, s := range shapes {
			key := s.key("api", procs)
			if !c10CheckModelOfShape(e, key, s, model[s.key("", 0)]) {
				continue
			}
			e.R.Case(key, true)
			e.R.H("pclose_api_consumers", strings.Join(s.consumers, "+"))
			e.R.H("pclose_api_size", strconv.Itoa(s.size))
			if stop.Load() {
				continue
			}
			var wg sync.WaitGroup
			per := (rounds + workers - 1) / workers
			for w := 0; w < workers; w++ {
				wg.Add(1)
				go func(w int) {
					defer wg.Done()
					vals := make([]object.Object, maxMsgs)
					idx := map[object.Object]int{}
					for i := range vals {
						vals[i] = object.NewInt(int64(1000000 + i))
						idx[vals[i]] = i
					}
					logs := make([][]int, len(s.consumers))
					for r := 0; r < per && !stop.Load(); r++ {
						leftover, note := c10APIRound(base, s, vals, idx, logs)
						if !c10JudgeRound(s, logs, leftover) {
							cp := make([][]int, len(logs))
							for i := range logs {
								cp[i] = append([]int{}, logs[i]...)
							}
							failMu.Lock()
							failsList = append(failsList, c10RoundFail{s, procs, "object.Chan API from Go goroutines", w*per + r, cp, leftover, note})
							if len(failsList) >= 3 {
								stop.Store(true)
							}
							failMu.Unlock()
						}
					}
				}(w)
			}
			wg.Wait()
			total += per * workers
		}
	}
	for _, f := range failsList {
		key := f.shape.key("api", f.procs)
		m := model[f.shape.key("", 0)]
		e.R.Mismatch(key, fmt.Sprintf("logs=%v leftover=%d", f.logs, f.leftover), m[0]+" final "+m[2], "a produce-then-close round on real goroutines vs the machine's run of the round")
		e.R.Spec(key, f.detail(), "")
	}
	e.R.Note("produce-then-close rounds at the object.Chan API: %d (shapes %d x GOMAXPROCS 2/4/16), failing rounds: %d", total, len(shapes), len(failsList))
	return len(failsList)
}

// --- F3: the same through scripts

const c10RoundScript = `
func produce(c, msgs) {
	for i := 0; i < msgs; i++ { c <- i }
	close(c)
}
func produce_m(c, msgs) {
	for i := 0; i < msgs; i++ { c.send(i) }
	c.close()
}
func consume(c) {
	got := []
	for {
		v := <-c
		if v == nil { break }
		got.append(v)
	}
	return got
}
func start(form, c, msgs) {
	switch form {
	case 0:
		go produce(c, msgs)
	case 1:
		spawn(produce_m, c, msgs)
	default:
		produce.spawn(c, msgs)
	}
}
func round_receive(w, r, form, size, msgs) {
	c := chan(size)
	start(form, c, msgs)
	got := []
	for {
		v := <-c
		if v == nil { break }
		got.append(v)
	}
	rdone(w, r, 0, size, msgs, c, got, nil)
}
func round_method(w, r, form, size, msgs) {
	c := chan(size)
	start(form, c, msgs)
	got := []
	for {
		v := c.receive()
		if v == nil { break }
		got.append(v)
	}
	rdone(w, r, 0, size, msgs, c, got, nil)
}
func round_range(w, r, form, size, msgs) {
	c := chan(size)
	start(form, c, msgs)
	got := []
	for _, v := range c { got.append(v) }
	rdone(w, r, 1, size, msgs, c, got, nil)
}
func round_forin(w, r, form, size, msgs) {
	c := chan(size)
	start(form, c, msgs)
	got := []
	for v in c { got.append(v) }
	rdone(w, r, 1, size, msgs, c, got, nil)
}
func round_two(w, r, form, size, msgs) {
	c := chan(size)
	other := spawn(consume, c)
	start(form, c, msgs)
	got := []
	for _, v := range c { got.append(v) }
	rdone(w, r, 2, size, msgs, c, got, other.wait())
}
func worker(w) {
	for r := 0; r < ROUNDS; r++ {
		x := r * 7 + w * 3 + SALT
		size := 1 + x % 8
		if x % 3 == 0 { size = 1 + x % 2 }
		msgs := 1 + (x / 8) % 3
		form := (x / 24) % 3
		switch (x / 72) % 9 {
		case 0, 1:
			round_receive(w, r, form, size, msgs)
		case 2:
			round_method(w, r, form, size, msgs)
		case 3, 4, 5:
			round_range(w, r, form, size, msgs)
		case 6, 7:
			round_forin(w, r, form, size, msgs)
		default:
			round_two(w, r, form, size, msgs)
		}
	}
	return w
}
threads := []
for w := 0; w < WORKERS; w++ { threads.append(spawn(worker, w)) }
for _, t := range threads { t.wait() }
"end"
`

func c10CloseRaceScript(e *Env) (fails int) {
	rng := e.Rng.Fork()
	workers, rounds := 8, 1800
	procsList := []int{4, 16, 16}
	if !e.Quick {
		workers, rounds = 8, 20000
		procsList = []int{2, 4, 16, 16, 16}
	}
	type shapeCount struct {
		s c10Shape
		n int
	}
	var failsList []c10RoundFail
	total := 0
	for _, procs := range procsList {
		salt := rng.Intn(100000)
		perWorker := make([]map[string]*shapeCount, workers)
		workerFails := make([][]c10RoundFail, workers)
		for w := range perWorker {
			perWorker[w] = map[string]*shapeCount{}
		}
		var stop atomic.Bool
		ints := func(o object.Object) []int {
			var out []int
			l, ok := o.(*object.List)
			if !ok {
				return []int{-3}
			}
			for _, x := range l.Value() {
				if i, ok := x.(*object.Int); ok {
					out = append(out, int(i.Value()))
				} else {
					out = append(out, -1)
				}
			}
			return out
		}
		globals := map[string]any{
			"WORKERS": workers, "ROUNDS": rounds, "SALT": salt,
			// rdone(w, r, kind, size, msgs, c, got, got2): called by worker w only; per-worker state, no lock
			"rdone": object.NewBuiltin("rdone", func(ctx context.Context, args ...object.Object) object.Object {
				iv := func(i int) int { return int(args[i].(*object.Int).Value()) }
				w, r, kind := iv(0), iv(1), iv(2)
				s := c10Shape{size: iv(3), msgs: iv(4)}
				switch kind {
				case 0:
					s.consumers = []string{"recv"}
				case 1:
					s.consumers = []string{"iter"}
				default:
					s.consumers = []string{"iter", "recv"}
				}
				logs := [][]int{ints(args[6])}
				if kind == 2 {
					logs = append(logs, ints(args[7]))
				}
				leftover := -1
				if ch, ok := args[5].(*object.Chan); ok {
					leftover = len(ch.Value())
				}
				k := s.key("", 0)
				sc := perWorker[w][k]
				if sc == nil {
					sc = &shapeCount{s: s}
					perWorker[w][k] = sc
				}
				sc.n++
				if !c10JudgeRound(s, logs, leftover) && len(workerFails[w]) < 3 {
					workerFails[w] = append(workerFails[w], c10RoundFail{s, procs, "script threads", w*rounds + r, logs, leftover, ""})
					stop.Store(true)
				}
				return object.Nil
			}),
		}
		runtime.GOMAXPROCS(procs)
		ctx, cancel := context.WithTimeout(context.Background(), 10*c10Wait)
		var err error
		var res object.Object
		finished := c10_withWatchFor(12*c10Wait, func() {
			defer func() {
				if r := recover(); r != nil {
					err = fmt.Errorf("panic: %v", r)
				}
			}()
			res, err = risor.Eval(ctx, c10RoundScript, risor.WithConcurrency(), risor.WithGlobals(globals))
		})
		cancel()
		runKey := fmt.Sprintf("produce-then-close level=script workers=%d rounds=%d salt=%d procs=%d", workers, rounds, salt, procs)
		if !finished || err != nil || res == nil || res.Inspect() != `"end"` {
			got := "-"
			if res != nil {
				got = res.Inspect()
			}
			e.R.Mismatch(runKey, fmt.Sprintf("finished=%v err=%v result=%s", finished, err, got), `"end"`, "the round script did not complete")
			e.R.Spec(runKey, fmt.Sprintf("the workers did not complete their rounds (finished=%v err=%v result=%s)", finished, err, got), "")
			fails++
			continue
		}
		// merge the per-worker counts, ask the machine about every shape that occurred
		merged := map[string]*shapeCount{}
		for _, m := range perWorker {
			for k, sc := range m {
				if merged[k] == nil {
					merged[k] = &shapeCount{s: sc.s}
				}
				merged[k].n += sc.n
			}
		}
		var shapes []c10Shape
		for _, k := range sortedKeys(merged) {
			shapes = append(shapes, merged[k].s)
		}
		model := c10ModelOfShapes(e, shapes)
		for _, s := range shapes {
			key := s.key("script", procs)
			c10CheckModelOfShape(e, key, s, model[s.key("", 0)])
			e.R.Case(key, true)
			e.R.H("pclose_script_consumers", strings.Join(s.consumers, "+"))
			total += merged[s.key("", 0)].n
		}
		for _, wf := range workerFails {
			failsList = append(failsList, wf...)
		}
		if len(failsList) >= 3 {
			break
		}
	}
	sort.Slice(failsList, func(a, b int) bool { return failsList[a].round < failsList[b].round })
	for i, f := range failsList {
		if i >= 5 {
			break
		}
		key := f.shape.key("script", f.procs)
		e.R.Mismatch(key, fmt.Sprintf("logs=%v leftover=%d", f.logs, f.leftover), fmt.Sprintf("every value 0..%d exactly once, in order, nothing left", f.shape.msgs-1), "a produce-then-close round of script threads vs the machine's run of the round")
		e.R.Spec(key, f.detail(), "")
	}
	e.R.Note("produce-then-close rounds through scripts: %d, failing rounds: %d", total, len(failsList))
	return fails + len(failsList)
}

func c10_withWatchFor(d time.Duration, f func()) bool {
	done := make(chan struct{})
	go func() { defer close(done); f() }()
	select {
	case <-done:
		return true
	case <-time.After(d):
		select { // a stalled process makes both due at once: look again
		case <-done:
			return true
		case <-time.After(3 * time.Second):
			return false
		}
	}
}

func c10CloseRaces(e *Env) {
	t0 := time.Now()
	c10Callouts(e)
	t1 := time.Now()
	c10CloseRaceAPI(e)
	t2 := time.Now()
	c10CloseRaceScript(e)
	e.R.Note("part F wall: call-outs %.1fs, API rounds %.1fs, script rounds %.1fs", t1.Sub(t0).Seconds(), t2.Sub(t1).Seconds(), time.Since(t2).Seconds())
}
