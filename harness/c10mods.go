package main

// C10, part I — WHAT A THREAD'S VM KNOWS OF THE MODULES: schedules of the model's
// thread/VM/module machine (`C10 mods`) executed step by step on one real VM with an importer.
//
// The main program is generated as straight-line code that follows the schedule: its own
// steps are statements (a top-level `import m<k>` or a function-level import, a call of
// `m<k>.bump(x)` reached through the shared table `tbl`, spawn()/fn.spawn()/go of a worker,
// `handle.wait()`), the steps of the other threads are calls of the host builtin `drive`,
// which hands the thread its command and waits for its report — or for its end.  Every other
// thread runs `worker`: a command loop (import inside the thread, call into a module, spawn
// a further worker, wait, return the list of the values its calls returned).
//
// The class: threads are started, run and FINISH, the spawner IMPORTS modules in between (late
// top-level imports, function-level imports), later threads call into — or import themselves
// — what their spawner knew when it started them.  Module k has ONE counter in the whole
// evaluation (`bump(x)` = x*1000 + ++counter; the module's body reports each time it runs),
// so a private copy of a module, a re-run body or a thread that cannot reach a module are all
// visible in the values.
//
// Compared step by step with `mstep` (Mismatch) and with `mspecStep` (Spec).  A call by a
// thread that was started BEFORE the module was loaded faults in the code as it is (the
// clone's snapshot has no root code for the module: nil dereference in vm.loadCode, recovered
// into the thread's error): recorded finding C10-thread-older-than-import, generated rarely,
// attributed only when the real code agrees with the model and the model's guard is off.

import (
	"context"
	"fmt"
	"runtime"
	"sort"
	"strconv"
	"strings"
	"sync"
	"testing/fstest"
	"time"

	"github.com/risor-io/risor"
	"github.com/risor-io/risor/importer"
	"github.com/risor-io/risor/object"
)

const c10ModFinding = "C10-thread-older-than-import"
const c10NMods = 4

type c10ModScn struct {
	ops      []string       // oracle syntax (C10 mods)
	forms    map[int]string // thread -> spawn | fnspawn | go
	topLevel map[int]bool   // index of a main-program import step -> written as a top-level statement
}

func (s c10ModScn) key() string {
	var fs []string
	for t := 1; t <= len(s.forms); t++ {
		fs = append(fs, s.forms[t])
	}
	var tl []int
	for i := range s.topLevel {
		tl = append(tl, i)
	}
	sort.Ints(tl)
	return fmt.Sprintf("mods forms=%v toplevel-imports-at=%v ops=%s", fs, tl, strings.Join(s.ops, ","))
}

// c10GenMods: a mostly-enabled schedule; the generator tracks threads, views and imports.
func c10GenMods(rng *RNG) (c10ModScn, bool) {
	s := c10ModScn{forms: map[int]string{}, topLevel: map[int]bool{}}
	type th struct {
		live bool
		view map[int]bool
	}
	threads := []*th{{live: true, view: map[int]bool{}}}
	imported := map[int]bool{}
	topDone := map[int]bool{}
	n := 8 + rng.Intn(24)
	lateCalls := 0 // calls by a thread into a module its spawner imported after an earlier thread had finished
	finishedBefore := map[int]int{}
	nfinished := 0
	liveThreads := func(notMain bool) []int {
		var ls []int
		for t, x := range threads {
			if x.live && !(notMain && t == 0) {
				ls = append(ls, t)
			}
		}
		return ls
	}
	x := 1
	for len(s.ops) < n {
		switch r := rng.Intn(100); {
		case r < 18 && len(threads) < 8:
			p := 0
			if ls := liveThreads(true); len(ls) > 0 && rng.Chance(25) {
				p = Pick(rng, ls)
			}
			v := map[int]bool{}
			for m := range threads[p].view {
				v[m] = true
			}
			id := len(threads)
			threads = append(threads, &th{live: true, view: v})
			s.forms[id] = Pick(rng, []string{"spawn", "fnspawn", "go"})
			s.ops = append(s.ops, fmt.Sprintf("sp:%d", p))
		case r < 36:
			ls := liveThreads(true)
			if len(ls) == 0 {
				continue
			}
			t := Pick(rng, ls)
			threads[t].live = false
			nfinished++
			s.ops = append(s.ops, fmt.Sprintf("fin:%d", t))
		case r < 52:
			// the main program imports: a new module (late import) or one it has already
			m := rng.Intn(c10NMods)
			if !imported[m] {
				finishedBefore[m] = nfinished
			}
			if !topDone[m] && rng.Chance(50) {
				s.topLevel[len(s.ops)] = true
				topDone[m] = true
			}
			imported[m] = true
			threads[0].view[m] = true
			s.ops = append(s.ops, fmt.Sprintf("im:0:%d", m))
		case r < 60:
			// a thread imports what its VM knows already
			ls := liveThreads(true)
			if len(ls) == 0 {
				continue
			}
			t := Pick(rng, ls)
			var ms []int
			for m := range threads[t].view {
				ms = append(ms, m)
			}
			if len(ms) == 0 {
				continue
			}
			sort.Ints(ms)
			s.ops = append(s.ops, fmt.Sprintf("im:%d:%d", t, Pick(rng, ms)))
		case r < 92:
			var ms []int
			for m := range imported {
				ms = append(ms, m)
			}
			if len(ms) == 0 {
				continue
			}
			sort.Ints(ms)
			m := Pick(rng, ms)
			ls := liveThreads(false)
			t := Pick(rng, ls)
			if rng.Chance(70) {
				// prefer a spawned thread that knows the module
				var ks []int
				for _, u := range ls {
					if u != 0 && threads[u].view[m] {
						ks = append(ks, u)
					}
				}
				if len(ks) > 0 {
					t = Pick(rng, ks)
				}
			}
			if !threads[t].view[m] {
				// the thread is older than the module: the recorded defect's ground (rare, and only
				// for a thread whose end the host can observe)
				if s.forms[t] == "go" || !rng.Chance(12) {
					continue
				}
				threads[t].live = false
			} else if t != 0 && finishedBefore[m] > 0 {
				lateCalls++
			}
			s.ops = append(s.ops, fmt.Sprintf("ca:%d:%d:%d", t, m, x))
			x++
		default:
			var cands []int
			for t := 1; t < len(threads); t++ {
				if s.forms[t] != "go" && (!threads[t].live || rng.Chance(5)) {
					cands = append(cands, t)
				}
			}
			if len(cands) == 0 {
				continue
			}
			w := Pick(rng, liveThreads(false))
			s.ops = append(s.ops, fmt.Sprintf("w:%d:%d", w, Pick(rng, cands)))
		}
	}
	// everybody returns; the main program waits for every thread it can wait for
	for t := len(threads) - 1; t >= 1; t-- {
		if threads[t].live {
			s.ops = append(s.ops, fmt.Sprintf("fin:%d", t))
		}
	}
	for t := 1; t < len(threads); t++ {
		if s.forms[t] != "go" {
			s.ops = append(s.ops, fmt.Sprintf("w:0:%d", t))
		}
	}
	return s, lateCalls >= 1
}

func c10DirectedMods() []c10ModScn {
	var out []c10ModScn
	for _, form := range []string{"spawn", "fnspawn", "go"} {
		for _, top := range []bool{true, false} {
			// a thread has finished; the main program imports late; the next thread calls into the module
			ops := []string{"sp:0", "fin:1", "im:0:0", "sp:0", "ca:2:0:7", "ca:0:0:3", "ca:2:0:4", "fin:2"}
			if form != "go" {
				ops = append(ops, "w:0:2")
			}
			out = append(out, c10ModScn{ops: ops, forms: map[int]string{1: form, 2: form}, topLevel: map[int]bool{2: top}})
			// … the next thread imports the module itself: it must get the spawner's module, not a copy
			ops = []string{"sp:0", "ca:0:1:1", "fin:1", "im:0:1", "ca:0:1:2", "sp:0", "im:2:1", "ca:2:1:5", "ca:0:1:6", "fin:2"}
			if form != "go" {
				ops = append(ops, "w:0:2")
			}
			out = append(out, c10ModScn{ops: ops, forms: map[int]string{1: form, 2: form}, topLevel: map[int]bool{3: top}})
			// … several generations: each import is followed by a thread that uses everything imported so far
			ops = []string{"im:0:0", "sp:0", "ca:1:0:1", "fin:1", "im:0:1", "sp:0", "ca:2:0:2", "ca:2:1:3", "fin:2", "im:0:2", "sp:0", "sp:3",
				"ca:4:2:4", "ca:4:0:5", "ca:3:1:6", "fin:4", "fin:3"}
			out = append(out, c10ModScn{ops: ops, forms: map[int]string{1: form, 2: form, 3: form, 4: form}, topLevel: map[int]bool{0: top, 4: !top, 9: top}})
		}
	}
	// the recorded defect: the thread is older than the module
	out = append(out, c10ModScn{ops: []string{"sp:0", "im:0:0", "ca:1:0:5", "w:0:1"}, forms: map[int]string{1: "spawn"}, topLevel: map[int]bool{1: true}})
	return out
}

func c10ModSource(k int) string {
	return fmt.Sprintf("loaded(%d)\ncounter := 0\nfunc bump(x) {\n  counter = counter + 1\n  return x * 1000 + counter\n}\nfunc get() { return counter }\n", k)
}

const c10ModWorker = `
func worker(tid) {
  out := []
  for {
    c := cmd(tid)
    op := c[0]
    if op == 0 { return out }
    if op == 1 { r := tbl[c[1]].bump(c[2]); out.append(r); ack(tid, r) }
    if op == 2 { imps[c[1]](); ack(tid, 0) }
    if op == 4 { keep(c[1], spawn(worker, c[1])); ack(tid, 0) }
    if op == 5 { keep(c[1], worker.spawn(c[1])); ack(tid, 0) }
    if op == 6 { go worker(c[1]); ack(tid, 0) }
    if op == 7 {
      h := handle(c[1])
      ack(tid, try(func() { return h.wait() }, func(e) { return "E:" + string(e) }))
    }
  }
}
`

// script: the main program of the scenario (steps the model says are not enabled are left out)
func (s c10ModScn) script(impl []string) string {
	var b strings.Builder
	w := func(format string, a ...any) { fmt.Fprintf(&b, format+"\n", a...) }
	w("tbl := [nil, nil, nil, nil]")
	for k := 0; k < c10NMods; k++ {
		w("func imp%d() {\n  import m%d\n  tbl[%d] = m%d\n  return 1\n}", k, k, k, k)
	}
	w("imps := [imp0, imp1, imp2, imp3]")
	b.WriteString(c10ModWorker)
	nthreads := 1
	atoi := func(x string) int { n, _ := strconv.Atoi(x); return n }
	for idx, op := range s.ops {
		if impl[idx] == "B" {
			continue
		}
		f := strings.Split(op, ":")
		switch f[0] {
		case "sp":
			id := nthreads
			nthreads++
			p := atoi(f[1])
			if p != 0 {
				code := map[string]int{"spawn": 4, "fnspawn": 5, "go": 6}[s.forms[id]]
				w("drive(%d, %d, %d, %d, 0)", idx, p, code, id)
				break
			}
			switch s.forms[id] {
			case "spawn":
				w("keep(%d, spawn(worker, %d))", id, id)
			case "fnspawn":
				w("keep(%d, worker.spawn(%d))", id, id)
			default:
				w("go worker(%d)", id)
			}
			w("started(%d, %d)", idx, id)
		case "fin":
			w("drive(%d, %s, 0, 0, 0)", idx, f[1])
		case "im":
			if f[1] != "0" {
				w("drive(%d, %s, 2, %s, 0)", idx, f[1], f[2])
				break
			}
			w("mark(%d)", idx)
			if s.topLevel[idx] {
				w("import m%s\ntbl[%s] = m%s", f[2], f[2], f[2])
			} else {
				w("imp%s()", f[2])
			}
			w("obs(%d, 0)", idx)
		case "ca":
			if f[1] != "0" {
				w("drive(%d, %s, 1, %s, %s)", idx, f[1], f[2], f[3])
				break
			}
			w("obs(%d, try(func() { return tbl[%s].bump(%s) }, func(e) { return \"E:\" + string(e) }))", idx, f[2], f[3])
		case "w":
			if f[1] != "0" {
				w("drive(%d, %s, 7, %s, 0)", idx, f[1], f[2])
				break
			}
			w("obs(%d, try(func() { return handle(%s).wait() }, func(e) { return \"E:\" + string(e) }))", idx, f[2])
		}
	}
	w("finish()")
	return b.String()
}

func c10ModShow(o object.Object) string {
	switch x := o.(type) {
	case *object.Int:
		return "v:" + strconv.FormatInt(x.Value(), 10)
	case *object.String:
		if strings.Contains(x.Value(), "panic:") {
			return "perr"
		}
		return "str(" + x.Value() + ")"
	case *object.Error:
		if strings.Contains(x.Value().Error(), "panic:") {
			return "perr"
		}
		return "err(" + x.Value().Error() + ")"
	case *object.List:
		var vs []string
		for _, it := range x.Value() {
			if i, ok := it.(*object.Int); ok {
				vs = append(vs, strconv.FormatInt(i.Value(), 10))
			} else {
				vs = append(vs, "?"+it.Inspect())
			}
		}
		if len(vs) == 0 {
			return "r:-"
		}
		return "r:" + strings.Join(vs, ".")
	case *object.NilType:
		return "nil"
	}
	return "other(" + o.Inspect() + ")"
}

func c10Mods(e *Env) {
	rng := e.Rng.Fork()
	n := 500
	budget := 30 * time.Second
	if !e.Quick {
		n = 12000
		budget = 5 * time.Minute
	}
	type gen struct {
		s  c10ModScn
		nt bool
	}
	var scns []gen
	for _, s := range c10DirectedMods() {
		scns = append(scns, gen{s, true})
	}
	for i := 0; i < n; i++ {
		s, nt := c10GenMods(rng)
		scns = append(scns, gen{s, nt})
	}
	reqs := make([]string, len(scns))
	for i, g := range scns {
		reqs[i] = fmt.Sprintf("C10\tmods\t%s", strings.Join(g.s.ops, ","))
	}
	reps := e.O.AskBatch(reqs)
	runtime.GOMAXPROCS(4)
	deadline := time.Now().Add(budget)
	incomplete, done := 0, 0
	for i, g := range scns {
		if time.Now().After(deadline) {
			e.R.Note("module schedules stopped at the tier's time budget after %d of %d", done, len(scns))
			break
		}
		done++
		if !c10RunMods(e, g.s, g.nt, reps[i]) {
			incomplete++
			if incomplete >= 1 {
				e.R.Note("module schedules stopped after %d schedule(s) that did not complete", incomplete)
				break
			}
		}
	}
	e.R.Note("thread/VM/module schedules executed step by step on real script threads: %d", done)
}

func c10RunMods(e *Env, s c10ModScn, nontrivial bool, rep string) bool {
	key := s.key()
	e.R.Case(key, nontrivial)
	f := strings.Split(rep, "\t")
	if len(f) != 5 {
		e.R.Mismatch(key, "-", rep, "oracle reply malformed")
		return true
	}
	impl, spec, known := strings.Split(f[0], ","), strings.Split(f[1], ","), strings.Split(f[2], ",")
	if len(impl) != len(s.ops) || len(spec) != len(s.ops) || len(known) != len(s.ops) {
		e.R.Mismatch(key, "-", rep, "oracle reply malformed")
		return true
	}
	for _, fm := range s.forms {
		e.R.H("mods_spawn_form", fm)
	}
	e.R.H("mods_threads", strconv.Itoa(len(s.forms)))

	runCtx, cancel := context.WithTimeout(context.Background(), 2*c10Wait)
	defer cancel()
	var mu sync.Mutex
	cmdCh := map[int]chan []int{}
	ackCh := map[int]chan object.Object{}
	parkCh := map[int]chan struct{}{}
	doneCh := map[int]chan struct{}{}
	results := map[int]object.Object{}
	handles := map[int]*object.Thread{}
	goObs := make([]string, len(s.ops))
	for i := range goObs {
		goObs[i] = "B"
	}
	bodyRuns := []int{} // module bodies that ran, in order
	markAt := 0
	hung := ""
	chans := func(t int) (chan []int, chan object.Object, chan struct{}) {
		mu.Lock()
		defer mu.Unlock()
		if cmdCh[t] == nil {
			cmdCh[t] = make(chan []int, 1)
			ackCh[t] = make(chan object.Object, 4)
			parkCh[t] = make(chan struct{}, 64)
		}
		return cmdCh[t], ackCh[t], parkCh[t]
	}
	intArg := func(o object.Object) int {
		if i, ok := o.(*object.Int); ok {
			return int(i.Value())
		}
		return -1
	}
	fail := func(format string, a ...any) object.Object {
		mu.Lock()
		if hung == "" {
			hung = fmt.Sprintf(format, a...)
		}
		mu.Unlock()
		return object.Errorf("harness: schedule abandoned")
	}
	waitParked := func(t int) bool {
		_, _, pk := chans(t)
		select {
		case <-pk:
			return true
		case <-runCtx.Done():
		case <-time.After(c10Wait):
		}
		return false
	}
	globals := map[string]any{
		"loaded": object.NewBuiltin("loaded", func(ctx context.Context, args ...object.Object) object.Object {
			mu.Lock()
			bodyRuns = append(bodyRuns, intArg(args[0]))
			mu.Unlock()
			return object.Nil
		}),
		"cmd": object.NewBuiltin("cmd", func(ctx context.Context, args ...object.Object) object.Object {
			t := intArg(args[0])
			ch, _, pk := chans(t)
			pk <- struct{}{}
			var c []int
			select {
			case c = <-ch:
			case <-runCtx.Done():
				c = []int{0}
			}
			items := make([]object.Object, len(c))
			for i, x := range c {
				items[i] = object.NewInt(int64(x))
			}
			return object.NewList(items)
		}),
		"ack": object.NewBuiltin("ack", func(ctx context.Context, args ...object.Object) object.Object {
			_, ak, _ := chans(intArg(args[0]))
			ak <- args[1]
			return object.Nil
		}),
		"keep": object.NewBuiltin("keep", func(ctx context.Context, args ...object.Object) object.Object {
			if th, ok := args[1].(*object.Thread); ok {
				id := intArg(args[0])
				d := make(chan struct{})
				mu.Lock()
				handles[id] = th
				doneCh[id] = d
				mu.Unlock()
				go func() {
					r := th.Wait(runCtx)
					mu.Lock()
					results[id] = r
					mu.Unlock()
					close(d)
				}()
			}
			return object.Nil
		}),
		"handle": object.NewBuiltin("handle", func(ctx context.Context, args ...object.Object) object.Object {
			mu.Lock()
			defer mu.Unlock()
			if th := handles[intArg(args[0])]; th != nil {
				return th
			}
			return object.Nil
		}),
		// started(idx, id): the main program has started thread id; wait until it asks for its first command
		"started": object.NewBuiltin("started", func(ctx context.Context, args ...object.Object) object.Object {
			idx, id := intArg(args[0]), intArg(args[1])
			if !waitParked(id) {
				return fail("step %d: thread %d did not ask for its first command", idx, id)
			}
			goObs[idx] = "sp:" + strconv.Itoa(id)
			return object.Nil
		}),
		"mark": object.NewBuiltin("mark", func(ctx context.Context, args ...object.Object) object.Object {
			mu.Lock()
			markAt = len(bodyRuns)
			mu.Unlock()
			return object.Nil
		}),
		// obs(idx, v): the main program reports the result of its own step idx
		"obs": object.NewBuiltin("obs", func(ctx context.Context, args ...object.Object) object.Object {
			idx := intArg(args[0])
			if strings.HasPrefix(s.ops[idx], "im:") {
				mu.Lock()
				ran := len(bodyRuns) > markAt
				mu.Unlock()
				goObs[idx] = "u"
				if ran {
					goObs[idx] = "ran"
				}
				return object.Nil
			}
			goObs[idx] = c10ModShow(args[1])
			return object.Nil
		}),
		// drive(idx, t, code, a, b): thread t performs step idx; wait for its report or its end
		"drive": object.NewBuiltin("drive", func(ctx context.Context, args ...object.Object) object.Object {
			idx, t, code, a, b := intArg(args[0]), intArg(args[1]), intArg(args[2]), intArg(args[3]), intArg(args[4])
			ch, ak, _ := chans(t)
			mu.Lock()
			before := len(bodyRuns)
			d := doneCh[t]
			mu.Unlock()
			select {
			case <-d: // (nil for a thread without a handle: never ready)
				goObs[idx] = "dead"
				return object.Nil
			default:
			}
			select {
			case ch <- []int{code, a, b}:
			case <-d:
				// the thread has ended although the model has it running: it cannot take the step
				goObs[idx] = "dead"
				return object.Nil
			case <-time.After(c10Wait):
				return fail("step %d (%s): thread %d does not take commands", idx, s.ops[idx], t)
			}
			if code == 0 { // return
				goObs[idx] = "u"
				if d != nil {
					select {
					case <-d:
					case <-time.After(c10Wait):
						return fail("step %d (%s): thread %d did not end after its function returned", idx, s.ops[idx], t)
					}
				} else {
					for i := 0; i < 4; i++ { // no handle (go statement): give the goroutine a chance to finish; not a verdict
						runtime.Gosched()
					}
					time.Sleep(200 * time.Microsecond)
				}
				return object.Nil
			}
			var v object.Object
			select {
			case v = <-ak:
			case <-d: // (nil for a go-statement thread: never ready)
				mu.Lock()
				r := results[t]
				mu.Unlock()
				goObs[idx] = "P"
				if er, ok := r.(*object.Error); !ok || !strings.Contains(er.Value().Error(), "panic:") {
					goObs[idx] = "ended(" + c10Short(fmt.Sprint(r)) + ")"
				} else {
					e.R.H("mods_thread_panic", c10Short(er.Value().Error()))
				}
				return object.Nil
			case <-time.After(c10Wait):
				return fail("step %d (%s): thread %d did not report the result of its step (a thread started with a go statement that faults is never heard of again)", idx, s.ops[idx], t)
			}
			switch code {
			case 1, 7:
				goObs[idx] = c10ModShow(v)
			case 2:
				mu.Lock()
				ran := len(bodyRuns) > before
				mu.Unlock()
				goObs[idx] = "u"
				if ran {
					goObs[idx] = "ran"
				}
			case 4, 5, 6:
				if !waitParked(a) {
					return fail("step %d: thread %d did not ask for its first command", idx, a)
				}
				goObs[idx] = "sp:" + strconv.Itoa(a)
			}
			return object.Nil
		}),
		"finish": object.NewBuiltin("finish", func(ctx context.Context, args ...object.Object) object.Object {
			mu.Lock()
			defer mu.Unlock()
			for _, ch := range cmdCh {
				select {
				case ch <- []int{0}:
				default:
				}
			}
			return object.Nil
		}),
	}
	mfs := fstest.MapFS{}
	var names []string
	for k := range globals {
		names = append(names, k)
	}
	sort.Strings(names)
	for k := 0; k < c10NMods; k++ {
		mfs[fmt.Sprintf("m%d.risor", k)] = &fstest.MapFile{Data: []byte(c10ModSource(k))}
	}
	imp := importer.NewFSImporter(importer.FSImporterOptions{GlobalNames: append(names, "spawn", "try", "string", "len"), SourceFS: mfs})
	src := s.script(impl)
	var err error
	finished := c10_withWatch(func() {
		defer func() {
			if r := recover(); r != nil {
				err = fmt.Errorf("panic: %v", r)
			}
		}()
		_, err = risor.Eval(runCtx, src, risor.WithConcurrency(), risor.WithGlobals(globals), risor.WithImporter(imp))
	})
	cancel()
	mu.Lock()
	h := hung
	runs := append([]int{}, bodyRuns...)
	mu.Unlock()
	for _, o := range goObs {
		e.R.H("mods_obs", strings.SplitN(o, ":", 2)[0])
	}
	got := strings.Join(goObs, ",")
	if !finished || h != "" || err != nil {
		if h == "" {
			h = fmt.Sprintf("finished=%v err=%v", finished, err)
		}
		e.R.Mismatch(key, "did not complete: "+h+"; observations: "+got, f[0], "module schedule did not complete on the real code")
		// which step failed: the first one that the model enables and that has no observation
		for j := range s.ops {
			if impl[j] != "B" && (goObs[j] == "B" || goObs[j] != impl[j]) {
				finding := ""
				if known[j] == "0" && goObs[j] == impl[j] {
					finding = c10ModFinding
				}
				e.R.Spec(key, fmt.Sprintf("the schedule did not complete (%s); step %d (%s): the code gave %s, the property demands %s", h, j, s.ops[j], goObs[j], spec[j]), finding)
				break
			}
		}
		return false
	}
	agree := got == f[0]
	if !agree {
		e.R.Mismatch(key, got, f[0], "import / call / spawn / return / wait steps of real script threads vs C10.mstep")
	}
	// every module body ran at most once (one module object per evaluation)
	seen := map[int]int{}
	for _, k := range runs {
		seen[k]++
	}
	for k, c := range seen {
		if c > 1 {
			e.R.Mismatch(key, fmt.Sprintf("body of module m%d ran %d times", k, c), "once (a thread's VM knows what its spawner knew: its import finds the module)", "module bodies run")
			e.R.Spec(key, fmt.Sprintf("the body of module m%d ran %d times: a thread that imported the module its spawner already had got a second copy with a counter of its own; observations: %s", k, c, got), "")
			return true
		}
	}
	// Spec: every step gives what the property demands
	for j := range s.ops {
		if goObs[j] != spec[j] {
			finding := ""
			if known[j] == "0" && agree {
				finding = c10ModFinding
				e.R.H("mods_defect_manifested", "thread older than the module it calls into")
			}
			e.R.Spec(key, fmt.Sprintf("step %d (%s): the code gave %s, the property demands %s (a call into a module returns that function's value — x*1000 + the module's one counter — and wait() returns exactly the values of the thread's calls); observations: %s",
				j, s.ops[j], goObs[j], spec[j], got), finding)
			break
		}
	}
	return true
}
