package main

// C10, part H — RANGE LOOPS THAT ARE LEFT EARLY (break, return, a raised error) and what the
// next receiver finds afterwards.
//
//   H1  loop schedules on one real object.Chan: the schedules of part A plus `en:t` (thread t
//       starts a range loop: the harness asks the channel for an iterator, `Chan.Iter()`, as
//       the VM's range does, and drives THAT object with Next/Entry) and `lv:t` (the loop ends:
//       the iterator is dropped).  Loops are left at any moment, in particular while several
//       values are ready; other threads (and the same thread, outside or in a later loop) go on
//       receiving.  Every step is compared with the loop machine of the model (`C10 loops`,
//       Mismatch) and with the Spec machine; at the end the queue is drained and compared with
//       the model's queue VALUE BY VALUE.  Spec on the real results, independent of the model:
//       every accepted value was handed out exactly once or is still queued.  A step the model
//       says is enabled is not issued when the real channel would block on it (queue length
//       read first): reported at once instead of waiting for a watchdog.
//   H2  the same through scripts on real goroutines: producers (go | spawn() | fn.spawn()) and
//       ONE consumer at a time that works in SEGMENTS — a range loop left by `break` after q
//       values, a for-in loop left by `break`, a range loop left by `return` from the enclosing
//       function, a range loop left by an error raised in its body (caught by try), q explicit
//       receives, q c.receive() calls — cycling until the channel ends; optionally explicit
//       consumers beside it, or a HAND-OVER chain (consumer k consumes one segment and returns,
//       the main program waits for it and only then starts consumer k+1).  Per-thread logs are
//       judged by the oracle's validHistory.

import (
	"context"
	"fmt"
	"runtime"
	"sort"
	"strconv"
	"strings"
	"sync"
	"time"

	"github.com/risor-io/risor"
	"github.com/risor-io/risor/object"
)

// ---------------------------------------------------------------------------------------
// H1. loop schedules at the object.Chan API

func c10GenLoopOps(rng *RNG, cap int) []string {
	n := 8 + rng.Intn(36)
	nthreads := 2 + rng.Intn(3)
	pending := map[int]bool{}
	inLoop := map[int]bool{}
	buffered := 0
	closed := false
	seq := 0
	var ops []string
	twoIter := rng.Chance(12) // several iterating threads: the recorded defect's ground
	iterThread := rng.Intn(nthreads)
	fill := rng.Chance(60) // keep the queue full: loops are left while values are ready
	mayIter := func(t int) bool { return twoIter || t == iterThread }
	msg := func(t int) string {
		seq++
		return fmt.Sprintf("%d:%d", t, seq-1)
	}
	for len(ops) < n {
		t := rng.Intn(nthreads)
		if mayIter(t) && rng.Chance(40) {
			t = iterThread
		}
		if pending[t] {
			if rng.Chance(80) {
				ops = append(ops, fmt.Sprintf("e:%d", t))
				delete(pending, t)
			} else if rng.Chance(20) { // not enabled on purpose: a loop cannot be left between Next and Entry
				ops = append(ops, fmt.Sprintf("lv:%d", t))
			}
			continue
		}
		if mayIter(t) && !inLoop[t] && rng.Chance(45) {
			ops = append(ops, fmt.Sprintf("en:%d", t))
			inLoop[t] = true
			continue
		}
		if inLoop[t] {
			switch x := rng.Intn(100); {
			case x < 30:
				ops = append(ops, fmt.Sprintf("lv:%d", t))
				delete(inLoop, t)
				continue
			case x < 80:
				if buffered > 0 || closed {
					ops = append(ops, fmt.Sprintf("n:%d", t))
					if buffered > 0 {
						buffered--
						pending[t] = true
					}
					continue
				}
				if cap == 0 && !closed {
					s := rng.Intn(nthreads)
					if s != t && !pending[s] {
						ops = append(ops, fmt.Sprintf("h:%d:%d:%s:1", s, t, msg(s)))
						pending[t] = true
					}
					continue
				}
			}
			// otherwise: the loop body sends / receives / closes like anybody else
		} else if mayIter(t) && rng.Chance(4) { // not enabled on purpose: Next outside a loop
			ops = append(ops, fmt.Sprintf("n:%d", t))
			continue
		}
		switch x := rng.Intn(100); {
		case x < 2 && (!closed || rng.Chance(20)):
			ops = append(ops, fmt.Sprintf("c:%d", t))
			closed = true
		case closed && buffered == 0 && rng.Chance(75):
			// closed and drained: little left to see
			if rng.Chance(30) {
				n--
			}
			continue
		case cap == 0 && !closed && x < 60:
			r := rng.Intn(nthreads)
			if r == t || pending[r] {
				continue
			}
			if inLoop[r] && rng.Chance(60) {
				ops = append(ops, fmt.Sprintf("h:%d:%d:%s:1", t, r, msg(t)))
				pending[r] = true
			} else {
				ops = append(ops, fmt.Sprintf("h:%d:%d:%s:0", t, r, msg(t)))
			}
		case x < 60 || (fill && buffered < cap && !closed):
			if buffered < cap || closed || rng.Chance(8) {
				ops = append(ops, fmt.Sprintf("s:%d:%s", t, msg(t)))
				if buffered < cap && !closed {
					buffered++
				}
			}
		default:
			if buffered > 0 || closed || rng.Chance(8) {
				ops = append(ops, fmt.Sprintf("r:%d", t))
				if buffered > 0 {
					buffered--
				}
			}
		}
	}
	// half-finished iteration steps finish, every loop is left, then somebody else receives
	// what is still queued (all but possibly the last values: the final drain names those)
	var ps []int
	for t := range pending {
		ps = append(ps, t)
	}
	sort.Ints(ps)
	for _, t := range ps {
		ops = append(ops, fmt.Sprintf("e:%d", t))
	}
	var ls []int
	for t := range inLoop {
		ls = append(ls, t)
	}
	sort.Ints(ls)
	for _, t := range ls {
		ops = append(ops, fmt.Sprintf("lv:%d", t))
	}
	keep := rng.Intn(2)
	for ; buffered > keep; buffered-- {
		ops = append(ops, fmt.Sprintf("r:%d", rng.Intn(nthreads)))
	}
	return ops
}

type c10LoopExec struct {
	obs      []string
	queue    string // what the final drain found, "i:k;i:k" or "-"
	closed   bool
	inflight []string // values a Next returned whose Entry had not been executed when the schedule ended
	stopped  string   // a step the model enables would block on the real channel
	hung     string   // a step did not return
	accepted []string // values the channel accepted (send returned nil)
	handed   []string // values handed to a receiver or a loop body
}

// c10ExecLoopOps executes a loop schedule on a real channel following the model's enabledness.
func c10ExecLoopOps(cap int, ops []string, impl []string) c10LoopExec {
	var x c10LoopExec
	ch := object.NewChan(cap)
	byPtr := map[object.Object]string{}
	mk := func(i, k int) object.Object {
		o := object.NewInt(int64(1000000 + i*100000 + k)) // outside NewInt's cache: a fresh pointer
		byPtr[o] = fmt.Sprintf("%d:%d", i, k)
		return o
	}
	name := func(o object.Object) string {
		if o == nil {
			return "gonil"
		}
		if s, ok := byPtr[o]; ok {
			return s
		}
		return "alien(" + o.Inspect() + ")"
	}
	live := context.Background()
	its := map[string]object.Iterator{}
	pending := map[string]string{} // thread -> the value its Next returned and its Entry has not handed over yet
	closedReal := false
	// final state: the queue value by value, closedness (a closed drained channel yields nil)
	finish := func() {
		var q []string
		for n := len(ch.Value()); n > 0; n-- {
			q = append(q, name(<-ch.Value()))
		}
		x.queue = "-"
		if len(q) > 0 {
			x.queue = strings.Join(q, ";")
		}
		dead, cancel := context.WithCancel(context.Background())
		cancel()
		for i := 0; i < 40 && !x.closed; i++ {
			v, err := ch.Receive(dead)
			x.closed = err == nil && v == object.Nil
		}
		for _, v := range pending {
			x.inflight = append(x.inflight, v)
		}
	}
	// Next on an iterator that is not the channel itself cannot be probed for "would block":
	// it gets a cancellable context and a watchdog (never reached on a channel-backed iterator)
	guardedNext := func(it object.Iterator) (v object.Object, more bool, blocked bool) {
		if _, isChan := it.(*object.Chan); isChan || !(cap > 0 && len(ch.Value()) == 0 && !closedReal) {
			v, more = it.Next(live)
			return v, more, false
		}
		ctx, cancel := context.WithCancel(context.Background())
		defer cancel()
		done := make(chan struct{})
		go func() { defer close(done); v, more = it.Next(ctx) }()
		select {
		case <-done:
			return v, more, false
		case <-time.After(2 * time.Second):
			cancel()
			<-done
			return v, more, !more
		}
	}
	atoi := func(s string) int { n, _ := strconv.Atoi(s); return n }
	wouldBlock := func() bool { return cap > 0 && len(ch.Value()) == 0 && !closedReal }
	sendObs := func(err error, v object.Object) string {
		switch {
		case err == nil:
			x.accepted = append(x.accepted, name(v))
			return "so"
		case strings.Contains(err.Error(), "send on closed channel"):
			return "se"
		}
		return "senderr(" + err.Error() + ")"
	}
	recvObs := func(v object.Object, err error) string {
		switch {
		case err != nil:
			return "recverr(" + err.Error() + ")"
		case v == object.Nil:
			return "nil"
		}
		x.handed = append(x.handed, name(v))
		return "v:" + name(v)
	}
	for idx, op := range ops {
		f := strings.Split(op, ":")
		if idx < len(impl) && impl[idx] == "B" {
			x.obs = append(x.obs, "B") // not enabled in the model: blocks (or is not a step a script can take); skipped
			continue
		}
		o := "?"
		ok := true
		switch f[0] {
		case "en":
			its[f[1]] = ch.Iter()
			o = "u"
		case "lv":
			delete(its, f[1])
			o = "u"
		case "s":
			if cap > 0 && len(ch.Value()) == cap && !closedReal {
				x.stopped = fmt.Sprintf("step %d (%s): the model has room in the queue, the real channel is full", idx, op)
				finish()
				return x
			}
			v := mk(atoi(f[2]), atoi(f[3]))
			ok = c10_withWatch(func() { o = sendObs(ch.Send(live, v), v) })
		case "r":
			if wouldBlock() {
				x.stopped = fmt.Sprintf("step %d (%s): the model has a value queued for this receive, the real channel is empty and open — the receive would block for ever", idx, op)
				finish()
				return x
			}
			ok = c10_withWatch(func() { o = recvObs(ch.Receive(live)) })
		case "c":
			if err := ch.Close(); err == nil {
				o = "co"
				closedReal = true
			} else if strings.Contains(err.Error(), "close of closed channel") {
				o = "ce"
			} else {
				o = "closeerr(" + err.Error() + ")"
			}
		case "n":
			it := its[f[1]]
			if it == nil {
				o = "noiter"
				break
			}
			// (an iterator that holds values of its own may answer without the channel: only a
			// channel-backed Next is known to block on an empty open channel)
			if _, isChan := it.(*object.Chan); isChan && wouldBlock() {
				x.stopped = fmt.Sprintf("step %d (%s): the model has a value queued for this Next, the real channel is empty and open", idx, op)
				finish()
				return x
			}
			ok = c10_withWatch(func() {
				v, more, blocked := guardedNext(it)
				switch {
				case blocked:
					x.stopped = fmt.Sprintf("step %d (%s): the model has a value queued for this Next, the iterator (%s) blocked on the empty open channel", idx, op, it.Type())
				case more:
					o = "nv:" + name(v)
					pending[f[1]] = name(v)
				default:
					o = "end"
				}
			})
			if x.stopped != "" {
				finish()
				return x
			}
		case "e":
			it := its[f[1]]
			if it == nil {
				o = "noiter"
				break
			}
			ent, has := it.Entry()
			if !has {
				o = "entnone"
			} else {
				key := "?"
				if k, isInt := ent.Key().(*object.Int); isInt {
					key = strconv.FormatInt(k.Value(), 10)
				}
				o = "ent:" + key + ":" + name(ent.Value())
				x.handed = append(x.handed, name(ent.Value()))
			}
			delete(pending, f[1])
		case "h":
			v := mk(atoi(f[3]), atoi(f[4]))
			var sres string
			var wg sync.WaitGroup
			wg.Add(1)
			go func() { defer wg.Done(); sres = sendObs(ch.Send(live, v), v) }()
			ok = c10_withWatch(func() {
				if f[5] == "1" {
					it := its[f[2]]
					if it == nil {
						o = "noiter"
					} else if got, more := it.Next(live); more {
						o = "nv:" + name(got)
						pending[f[2]] = name(got)
					} else {
						o = "end"
					}
				} else {
					o = recvObs(ch.Receive(live))
				}
				wg.Wait()
			})
			if ok && sres != "so" {
				o += "(sender:" + sres + ")"
			}
		}
		if !ok {
			x.hung = fmt.Sprintf("step %d (%s) did not return within %v", idx, op, c10Wait)
			return x
		}
		x.obs = append(x.obs, o)
	}
	finish()
	return x
}

// multiset difference a - b (as sorted lists of "value×count")
func c10BagDiff(a, b []string) []string {
	m := map[string]int{}
	for _, v := range a {
		m[v]++
	}
	for _, v := range b {
		m[v]--
	}
	var out []string
	for v, n := range m {
		if n > 0 {
			out = append(out, fmt.Sprintf("%s×%d", v, n))
		}
	}
	sort.Strings(out)
	return out
}

func c10LoopOps(e *Env) {
	rng := e.Rng.Fork()
	n := 12000
	if !e.Quick {
		n = 200000
	}
	type cs struct {
		cap int
		ops []string
	}
	var cases []cs
	// directed: a loop left with values ready, then another thread receives / the same thread loops again
	for _, d := range []string{
		"3|s:0:0:0,s:0:0:1,s:0:0:2,en:1,n:1,e:1,lv:1,r:2,r:1",
		"4|s:0:0:0,s:0:0:1,s:0:0:2,s:0:0:3,en:1,n:1,e:1,n:1,e:1,lv:1,c:0,en:1,n:1,e:1,lv:1,r:2,r:2",
		"2|s:0:0:0,s:0:0:1,en:1,n:1,e:1,lv:1,c:0,r:2,r:2",
		"0|en:1,h:0:1:0:0:1,e:1,lv:1,h:0:2:0:1:0,c:0,r:1",
		"8|s:0:0:0,s:0:0:1,s:2:2:2,s:0:0:3,s:2:2:4,s:0:0:5,s:0:0:6,s:0:0:7,en:3,n:3,e:3,lv:3,en:3,n:3,e:3,lv:3,r:1,r:1,r:1,en:3,n:3,e:3,n:3,e:3,lv:3",
	} {
		p := strings.SplitN(d, "|", 2)
		c, _ := strconv.Atoi(p[0])
		cases = append(cases, cs{c, strings.Split(p[1], ",")})
	}
	for i := 0; i < n; i++ {
		cap := rng.Intn(9)
		if rng.Chance(15) {
			cap = 0
		}
		cases = append(cases, cs{cap, c10GenLoopOps(rng, cap)})
	}
	reqs := make([]string, len(cases))
	for i, c := range cases {
		reqs[i] = fmt.Sprintf("C10\tloops\t%d\t%s", c.cap, strings.Join(c.ops, ","))
	}
	reps := e.O.AskBatch(reqs)
	stops := 0
	for i, c := range cases {
		key := fmt.Sprintf("loops cap=%d ops=%s", c.cap, strings.Join(c.ops, ","))
		f := strings.Split(reps[i], "\t")
		if len(f) != 6 {
			e.R.Mismatch(key, "-", reps[i], "oracle reply malformed")
			continue
		}
		impl, spec := strings.Split(f[0], ","), strings.Split(f[1], ",")
		x := c10ExecLoopOps(c.cap, c.ops, impl)
		// non-trivial: a loop is left while a value is queued, and a value is handed out afterwards
		earlyExit, after := false, false
		queued := 0
		for j, o := range x.obs {
			op := strings.Split(c.ops[j], ":")
			switch {
			case o == "so":
				queued++
			case strings.HasPrefix(o, "v:") || strings.HasPrefix(o, "nv:"):
				if op[0] != "h" && queued > 0 {
					queued--
				}
				if earlyExit {
					after = true
				}
			case op[0] == "lv" && o == "u" && queued > 0:
				earlyExit = true
			}
			e.R.H("loops_obs", strings.SplitN(o, ":", 2)[0])
		}
		e.R.Case(key, earlyExit && after)
		e.R.H("loops_cap", strconv.Itoa(c.cap))
		e.R.H("loops_left_with_values_queued_then_received", strconv.FormatBool(earlyExit && after))
		e.R.H("loops_guard_atMostOneIterator", f[2])
		goAll := strings.Join(x.obs, ",")
		agree := true
		switch {
		case x.hung != "":
			agree = false
			e.R.Mismatch(key, "hung: "+x.hung+"; observations so far: "+goAll, f[0], "real channel blocked where the loop machine says the step is enabled")
		case x.stopped != "":
			agree = false
			e.R.Mismatch(key, "stopped: "+x.stopped+"; observations so far: "+goAll, f[0], "real channel vs C10.lstep")
		default:
			final := x.queue + " closed=" + strconv.FormatBool(x.closed)
			want := f[3] + " closed=" + strings.Split(f[4], ":")[0]
			if goAll != f[0] || final != want {
				agree = false
				e.R.Mismatch(key, goAll+" queue="+final, f[0]+" queue="+want, "object.Chan driven through Chan.Iter() vs C10.lstep")
			}
		}
		// Spec 1: every step hands out what the Spec machine hands out (values only)
		reported := false
		for j := range x.obs {
			if j < len(spec) && c10StripKey(x.obs[j]) != c10StripKey(spec[j]) {
				finding := ""
				if f[2] == "false" && agree && strings.HasPrefix(x.obs[j], "ent:") {
					finding = c10Finding
				}
				e.R.Spec(key, fmt.Sprintf("step %d (%s): the code handed out %s, the property demands %s", j, c.ops[j], c10StripKey(x.obs[j]), c10StripKey(spec[j])), finding)
				reported = true
				break
			}
		}
		// Spec 2, on the real results alone: accepted = handed out ⊎ still queued (⊎ returned by a
		// Next whose Entry is still to come), each value once
		if !reported && x.hung == "" {
			var left []string
			if x.queue != "-" && x.queue != "" {
				left = strings.Split(x.queue, ";")
			}
			got := append(append(append([]string{}, x.handed...), left...), x.inflight...)
			lost, extra := c10BagDiff(x.accepted, got), c10BagDiff(got, x.accepted)
			if len(lost) > 0 || len(extra) > 0 {
				finding := ""
				if f[2] == "false" && agree {
					finding = c10Finding
				}
				why := ""
				if x.stopped != "" {
					why = " (" + x.stopped + ")"
				}
				e.R.Spec(key, fmt.Sprintf("accepted [%s]; handed to script code [%s]; still queued [%s]: lost %v, surplus %v%s — the property demands that every accepted value is received exactly once: a value taken out of the channel and handed to nobody is missed by every later receiver",
					strings.Join(x.accepted, " "), strings.Join(x.handed, " "), strings.Join(left, " "), lost, extra, why), finding)
			}
		}
		if x.hung != "" || x.stopped != "" {
			stops++
			if stops >= 3 {
				e.R.Note("loop schedules stopped after %d schedules that could not be completed on the real channel", stops)
				break
			}
		}
	}
}

// ---------------------------------------------------------------------------------------
// H2. segmented consumers on real goroutines

type c10SegTopo struct {
	senders  int
	cap      int
	counts   []int
	plan     [][2]int // segments of the last (cycling) consumer: kind, quota
	stages   [][2]int // hand-over chain before it: one segment each
	explicit int      // explicit consumers beside the segmented one (0 when there is a chain)
	sendForm string   // go | spawn | fnspawn
	consForm string   // spawn | fnspawn
	procs    int
	yields   []uint64
}

var c10SegKinds = []string{"range_break", "forin_break", "range_return", "range_error", "explicit", "method", "range_index_break"}

func (t c10SegTopo) key() string {
	return fmt.Sprintf("segments senders=%d cap=%d counts=%v plan=%v chain=%v explicit=%d send=%s cons=%s procs=%d yields=%x",
		t.senders, t.cap, t.counts, t.plan, t.stages, t.explicit, t.sendForm, t.consForm, t.procs, t.yields)
}

const c10SegScript = `
func sender(id, n) {
  for k := 0; k < n; k++ {
    m := id * 100000 + k
    ch <- m
    yield(id)
  }
  return n * 7 + id
}
func seg_range_break(id, q) {
  n := 0
  for _, v := range ch { rec(id, v); n++; if n >= q { break } }
  return n
}
func seg_forin_break(id, q) {
  n := 0
  for v in ch { rec(id, v); n++; if n >= q { break } }
  return n
}
func seg_range_return(id, q) {
  n := 0
  for _, v := range ch { rec(id, v); n++; if n >= q { return n } }
  return n
}
func seg_range_error(id, q) {
  st := [0]
  try(func() {
    for _, v := range ch { rec(id, v); st[0] = st[0] + 1; if st[0] >= q { error("leave the loop") } }
  }, func(e) { return nil })
  return st[0]
}
func seg_explicit(id, q) {
  n := 0
  for n < q {
    v := <-ch
    if v == nil { return n }
    rec(id, v)
    n++
  }
  return n
}
func seg_method(id, q) {
  n := 0
  for n < q {
    v := ch.receive()
    if v == nil { return n }
    rec(id, v)
    n++
  }
  return n
}
func seg_range_index_break(id, q) {
  n := 0
  for i, v := range ch { rec(id, v); n++; if n >= q { break } }
  return n
}
segs := [seg_range_break, seg_forin_break, seg_range_return, seg_range_error, seg_explicit, seg_method, seg_range_index_break]
func stage(id, kind, q) {
  got := segs[kind](id, q)
  if got >= q && kind != 4 && kind != 5 { left(id) }
  return 1000 + id
}
func consumer(id, plan) {
  i := 0
  for {
    s := plan[i % len(plan)]
    got := segs[s[0]](id, s[1])
    if got < s[1] { break }
    if s[0] != 4 && s[0] != 5 { left(id) }
    i++
    yield(10 + id)
  }
  return 1000 + id
}
func rx_explicit(id) {
  for {
    v := <-ch
    if v == nil { break }
    rec(id, v)
    yield(10 + id)
  }
  return 1000 + id
}
`

func (t c10SegTopo) script() string {
	var b strings.Builder
	w := func(format string, a ...any) { fmt.Fprintf(&b, format+"\n", a...) }
	w("ch := chan(%d)", t.cap)
	b.WriteString(c10SegScript)
	start := func(form, fn, args string) string {
		if form == "fnspawn" {
			return fmt.Sprintf("%s.spawn(%s)", fn, args)
		}
		return fmt.Sprintf("spawn(%s, %s)", fn, args)
	}
	if t.sendForm == "go" {
		w("sdone := chan(%d)", t.senders)
		for i := 0; i < t.senders; i++ {
			w("go func(id, n) { r := sender(id, n); sdone <- r }(%d, %d)", i, t.counts[i])
		}
	} else {
		w("sts := []")
		for i := 0; i < t.senders; i++ {
			w("sts.append(%s)", start(t.sendForm, "sender", fmt.Sprintf("%d, %d", i, t.counts[i])))
		}
	}
	w("rts := []")
	id := 0
	for _, s := range t.stages {
		// hand-over: this consumer takes one segment and returns; only then the next one starts
		w("waited(1, %s.wait())", start(t.consForm, "stage", fmt.Sprintf("%d, %d, %d", id, s[0], s[1])))
		id++
	}
	var plan []string
	for _, s := range t.plan {
		plan = append(plan, fmt.Sprintf("[%d, %d]", s[0], s[1]))
	}
	w("rts.append(%s)", start(t.consForm, "consumer", fmt.Sprintf("%d, [%s]", id, strings.Join(plan, ", "))))
	id++
	for j := 0; j < t.explicit; j++ {
		w("rts.append(%s)", start(t.consForm, "rx_explicit", strconv.Itoa(id)))
		id++
	}
	if t.sendForm == "go" {
		w("for i := 0; i < %d; i++ { waited(0, <-sdone) }", t.senders)
	} else {
		w("for _, t := range sts { waited(0, t.wait()) }")
	}
	w("close(ch)")
	w("for _, t := range rts { waited(1, t.wait()) }")
	w("after(<-ch)\nafter(ch.receive())\nfor _, v := range ch { after(v) }\nafter(<-ch)")
	return b.String()
}

func (t c10SegTopo) receivers() int { return len(t.stages) + 1 + t.explicit }

func c10GenSegTopo(rng *RNG) c10SegTopo {
	t := c10SegTopo{senders: 1 + rng.Intn(3), cap: 1 + rng.Intn(8)}
	if rng.Chance(20) {
		t.cap = 0
	}
	total := 60 + rng.Intn(600)
	if rng.Chance(15) {
		total = 600 + rng.Intn(2400)
	}
	t.counts = make([]int, t.senders)
	for i := 0; i < total; i++ {
		t.counts[rng.Intn(t.senders)]++
	}
	quota := func() int {
		if rng.Chance(50) {
			return 1 + rng.Intn(4)
		}
		return 1 + rng.Intn(40)
	}
	for i, n := 0, 1+rng.Intn(4); i < n; i++ {
		k := rng.Intn(len(c10SegKinds))
		if rng.Chance(50) {
			k = rng.Intn(4) // a loop that is left early
		}
		t.plan = append(t.plan, [2]int{k, quota()})
	}
	if rng.Chance(45) {
		budget := total / 2
		for i, n := 0, 1+rng.Intn(3); i < n; i++ {
			q := quota()
			if q > budget {
				break
			}
			budget -= q
			k := rng.Intn(4)
			if rng.Chance(20) {
				k = rng.Intn(len(c10SegKinds))
			}
			t.stages = append(t.stages, [2]int{k, q})
		}
	}
	if len(t.stages) == 0 {
		t.explicit = rng.Intn(3)
	}
	t.sendForm = Pick(rng, []string{"go", "spawn", "fnspawn"})
	t.consForm = Pick(rng, []string{"spawn", "fnspawn"})
	t.procs = Pick(rng, []int{1, 2, 4, 16})
	t.yields = make([]uint64, 20)
	ymode := rng.Intn(3)
	for i := range t.yields {
		switch ymode {
		case 0:
		case 1:
			t.yields[i] = rng.Next() & rng.Next() & rng.Next()
		default:
			t.yields[i] = rng.Next()
		}
	}
	return t
}

func c10LoopScripts(e *Env) {
	rng := e.Rng.Fork()
	runs := 160
	budget := 25 * time.Second
	if !e.Quick {
		runs = 6000
		budget = 4 * time.Minute
	}
	deadline := time.Now().Add(budget)
	var topos []c10SegTopo
	// directed: the producer is far ahead of a consumer that leaves its loop after one value
	for _, k := range []int{0, 1, 2, 3} {
		topos = append(topos, c10SegTopo{senders: 1, cap: 8, counts: []int{64}, plan: [][2]int{{k, 1}, {4, 1}}, sendForm: "spawn", consForm: "spawn", procs: 4, yields: make([]uint64, 20)})
		topos = append(topos, c10SegTopo{senders: 2, cap: 4, counts: []int{40, 40}, stages: [][2]int{{k, 2}, {k, 3}}, plan: [][2]int{{4, 5}}, sendForm: "go", consForm: "fnspawn", procs: 2, yields: make([]uint64, 20)})
	}
	for len(topos) < runs {
		topos = append(topos, c10GenSegTopo(rng))
	}
	done, incomplete, msgs, exits := 0, 0, 0, 0
	for _, t := range topos {
		if time.Now().After(deadline) {
			e.R.Note("segmented-consumer runs stopped at the tier's time budget after %d of %d runs", done, len(topos))
			break
		}
		ok, left := c10RunSegTopo(e, t)
		done++
		exits += left
		for _, c := range t.counts {
			msgs += c
		}
		if !ok {
			incomplete++
			if incomplete >= 2 {
				e.R.Note("segmented-consumer runs stopped after %d runs that did not complete", incomplete)
				break
			}
		}
	}
	e.R.Note("segmented-consumer runs: %d, messages: %d, range loops left early (break / return / error): %d", done, msgs, exits)
}

func c10RunSegTopo(e *Env, t c10SegTopo) (completed bool, earlyExits int) {
	key := t.key()
	nrecv := t.receivers()
	run := &c10Run{recv: make([][]string, nrecv)}
	for j := range run.recv {
		run.recv[j] = make([]string, 0, 64)
	}
	leftN := make([]struct {
		n int
		_ [7]uint64
	}, nrecv)
	globals := map[string]any{
		"rec": object.NewBuiltin("rec", func(ctx context.Context, args ...object.Object) object.Object {
			id := int(args[0].(*object.Int).Value())
			s := "9:0"
			if v, ok := args[1].(*object.Int); ok && v.Value() >= 0 {
				s = fmt.Sprintf("%d:%d", v.Value()/100000, v.Value()%100000)
			}
			run.recv[id] = append(run.recv[id], s)
			return object.Nil
		}),
		"left": object.NewBuiltin("left", func(ctx context.Context, args ...object.Object) object.Object {
			leftN[int(args[0].(*object.Int).Value())].n++
			return object.Nil
		}),
		"yield": object.NewBuiltin("yield", func(ctx context.Context, args ...object.Object) object.Object {
			id := int(args[0].(*object.Int).Value())
			n := run.yieldN[id].n
			run.yieldN[id].n = n + 1
			if t.yields[id]>>(n%64)&1 == 1 {
				runtime.Gosched()
			}
			return object.Nil
		}),
		"waited": object.NewBuiltin("waited", func(ctx context.Context, args ...object.Object) object.Object {
			k := int(args[0].(*object.Int).Value())
			v := int64(-1)
			if x, ok := args[1].(*object.Int); ok {
				v = x.Value()
			}
			run.mu.Lock()
			run.waited[k] = append(run.waited[k], v)
			run.mu.Unlock()
			return object.Nil
		}),
		"after": object.NewBuiltin("after", func(ctx context.Context, args ...object.Object) object.Object {
			run.after = append(run.after, args[0].Inspect())
			return object.Nil
		}),
	}
	runtime.GOMAXPROCS(t.procs)
	// a value that went away with a loop makes a later consumer wait for ever: the run is given
	// a bounded time and its logs are judged whatever happens (timing is not the verdict: the
	// logs are)
	ctx, cancel := context.WithTimeout(context.Background(), 6*time.Second)
	var err error
	finished := c10_withWatch(func() {
		defer func() {
			if r := recover(); r != nil {
				err = fmt.Errorf("panic: %v", r)
			}
		}()
		_, err = risor.Eval(ctx, t.script(), risor.WithConcurrency(), risor.WithGlobals(globals))
	})
	cancel()
	total := 0
	for _, c := range t.counts {
		total += c
	}
	for j := range leftN {
		earlyExits += leftN[j].n
	}
	e.R.Case(key, total >= 50 && earlyExits >= 1)
	e.R.H("seg_cap", strconv.Itoa(t.cap))
	e.R.H("seg_chain_length", strconv.Itoa(len(t.stages)))
	e.R.H("seg_explicit_consumers_beside", strconv.Itoa(t.explicit))
	for _, s := range append(append([][2]int{}, t.stages...), t.plan...) {
		e.R.H("seg_kind", c10SegKinds[s[0]])
	}
	e.R.H("seg_early_exits", func() string {
		switch {
		case earlyExits == 0:
			return "0"
		case earlyExits < 10:
			return "1..9"
		case earlyExits < 100:
			return "10..99"
		}
		return ">=100"
	}())
	counts := make([]string, len(t.counts))
	for i, c := range t.counts {
		counts[i] = strconv.Itoa(c)
	}
	logs := make([]string, nrecv)
	got := 0
	for j, l := range run.recv {
		logs[j] = strings.Join(l, ",")
		if len(l) == 0 {
			logs[j] = "-"
		}
		got += len(l)
	}
	if !finished || err != nil {
		detail := fmt.Sprintf("the run did not complete (finished=%v err=%v): %d values were accepted or offered, the consumers were handed %d; logs (first 12 per consumer): %s. "+
			"A consumer that left a range loop early and every consumer after it wait for values nobody will ever hand out",
			finished, err, total, got, c10Head(run.recv, 12))
		e.R.Mismatch(key, fmt.Sprintf("finished=%v err=%v handed=%d of %d", finished, err, got, total), "every schedule of the loop machine delivers every accepted value (iterator_holds_nothing) and terminates", "segmented-consumer run did not complete")
		e.R.Spec(key, detail, "")
		return false, earlyExits
	}
	rep := e.O.Ask("C10", "hist", strings.Join(counts, ","), strings.Join(logs, ";"))
	f := strings.Split(rep, "\t")
	if len(f) != 3 {
		e.R.Mismatch(key, "-", rep, "oracle reply malformed")
		return true, earlyExits
	}
	e.R.H("seg_verdict", f[0])
	if f[0] != "valid" {
		detail := fmt.Sprintf("history rejected by validHistory: surplus deliveries:lost:alien = %s after %d early loop exits; logs (first 12 per consumer): %s", f[2], earlyExits, c10Head(run.recv, 12))
		e.R.Mismatch(key, "dups:lost:alien="+f[2], "valid history (one iterating consumer at a time: Impl = Spec, early exits lose nothing)", "observed history is not a history of the loop machine")
		e.R.Spec(key, detail, "")
	}
	if strings.Join(run.after, ",") != "nil,nil,nil" {
		e.R.Mismatch(key, strings.Join(run.after, ","), "nil,nil,nil", "receive / range on the closed and drained channel")
		e.R.Spec(key, "after close and drain: <-ch, ch.receive(), range ch, <-ch observed "+strings.Join(run.after, ","), "")
	}
	var wantS, wantR []int64
	for i, c := range t.counts {
		wantS = append(wantS, int64(c*7+i))
	}
	for j := 0; j < nrecv; j++ {
		wantR = append(wantR, int64(1000+j))
	}
	gotS, gotR := append([]int64{}, run.waited[0]...), append([]int64{}, run.waited[1]...)
	if t.sendForm == "go" {
		sort.Slice(gotS, func(a, b int) bool { return gotS[a] < gotS[b] })
		sort.Slice(wantS, func(a, b int) bool { return wantS[a] < wantS[b] })
	}
	if fmt.Sprint(gotS) != fmt.Sprint(wantS) || fmt.Sprint(gotR) != fmt.Sprint(wantR) {
		e.R.Mismatch(key, fmt.Sprint(gotS, gotR), fmt.Sprint(wantS, wantR), "results of the spawned calls")
		e.R.Spec(key, fmt.Sprintf("wait()/completion values %v %v, the calls returned %v %v", gotS, gotR, wantS, wantR), "")
	}
	return true, earlyExits
}

func c10Loops(e *Env) {
	c10LoopOps(e)
	c10LoopScripts(e)
}
