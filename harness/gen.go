package main

// Structured program generator for the language-level checks.  Programs are built as a tree
// (N), rendered to risor source text (Src) and to an S-expression (Sexp) for the Lean model.
// Every random choice comes from the RNG handed in.  Programs are scope-correct, mostly
// type-correct (so that >= 70 % run without a type error) and always terminate: every loop
// has a bound that the body cannot defeat.

import (
	"fmt"
	"strconv"
	"strings"
)

// N is one AST node: K = kind, S = name/operator/string literal, I = integer literal,
// C = children.  Kinds are documented next to the constructors below.
type N struct {
	K string
	S string
	I int64
	C []*N
}

func n(k string, cs ...*N) *N     { return &N{K: k, C: cs} }
func ns(k, s string, cs ...*N) *N { return &N{K: k, S: s, C: cs} }
func nInt(i int64) *N {
	if i < 0 { // the language has no negative literals: -1 is the prefix operator applied to 1
		return &N{K: "prefix", S: "-", C: []*N{{K: "int", I: -i}}}
	}
	return &N{K: "int", I: i}
}
func nBool(b bool) *N                  { return &N{K: "bool", I: b2i(b)} }
func nStr(s string) *N                 { return &N{K: "str", S: s} }
func nId(s string) *N                  { return &N{K: "id", S: s} }
func nInfix(op string, l, r *N) *N     { return &N{K: "infix", S: op, C: []*N{l, r}} }
func nBlock(stmts ...*N) *N            { return &N{K: "block", C: stmts} }
func nCall(f *N, args ...*N) *N        { return &N{K: "call", C: append([]*N{f}, args...)} }
func nVar(name string, e *N) *N        { return &N{K: "var", S: name, C: []*N{e}} }
func nAssign(name, op string, e *N) *N { return &N{K: "assign", S: name + " " + op, C: []*N{e}} }
func b2iInt(b bool) int                { return int(b2i(b)) }
func b2i(b bool) int64 {
	if b {
		return 1
	}
	return 0
}

// ---------------------------------------------------------------- rendering to source

var precTable = map[string]int{
	"|": 2, "&&": 3, "||": 3, "?": 6, "==": 7, "!=": 7, "<": 8, "<=": 8, ">": 8, ">=": 8,
	"+": 9, "-": 9, "*": 10, "/": 10, "&": 10, ">>": 10, "<<": 10, "**": 11, "%": 12,
	"in": 13, "not in": 13, "prefix": 13, "call": 14, "index": 15,
}

func quote(s string) string { return strconv.Quote(s) }

// exprPrec is the binding strength of the node's root when printed without parentheses.
func exprPrec(x *N) int {
	switch x.K {
	case "infix":
		return precTable[x.S]
	case "tern":
		return precTable["?"]
	case "in":
		return 13
	case "notin":
		return 13
	case "prefix":
		return 13
	case "pipe":
		return 2
	case "int":
		if x.I < 0 {
			return 13
		}
	case "func", "if", "switch":
		return 1 // always parenthesised as an operand
	}
	return 100
}

// sub renders x as an operand of an operator with precedence p; right = it is the right
// operand (left-associative operators need parentheses around an equal-precedence right side).
func sub(x *N, p int, right bool) string {
	q := exprPrec(x)
	s := Expr(x)
	if q < p || (right && q == p) {
		return "(" + s + ")"
	}
	return s
}

// Expr renders an expression.
func Expr(x *N) string {
	switch x.K {
	case "int":
		return strconv.FormatInt(x.I, 10)
	case "bool":
		if x.I == 1 {
			return "true"
		}
		return "false"
	case "nil":
		return "nil"
	case "str":
		return quote(x.S)
	case "tmpl": // children: str parts and expression parts alternate freely
		var sb strings.Builder
		sb.WriteByte('\'')
		for _, c := range x.C {
			if c.K == "str" {
				sb.WriteString(c.S) // generator only produces [a-z ] fragments
			} else {
				sb.WriteString("{" + Expr(c) + "}")
			}
		}
		sb.WriteByte('\'')
		return sb.String()
	case "id":
		return x.S
	case "infix":
		p := precTable[x.S]
		return sub(x.C[0], p, false) + " " + x.S + " " + sub(x.C[1], p, true)
	case "prefix":
		in := sub(x.C[0], 14, false) // `in`/`not in` and other prefix operators share the prefix level
		if x.S == "-" && strings.HasPrefix(in, "-") {
			in = "(" + in + ")"
		}
		return x.S + in
	case "tern":
		return sub(x.C[0], 7, false) + " ? " + sub(x.C[1], 7, false) + " : " + sub(x.C[2], 7, false)
	case "in":
		return sub(x.C[0], 14, false) + " in " + sub(x.C[1], 14, false)
	case "notin":
		return sub(x.C[0], 14, false) + " not in " + sub(x.C[1], 14, false)
	case "call":
		args := make([]string, len(x.C)-1)
		for i, a := range x.C[1:] {
			args[i] = Expr(a)
		}
		return sub(x.C[0], 14, false) + "(" + strings.Join(args, ", ") + ")"
	case "mcall": // S = method name; C[0] = object
		args := make([]string, len(x.C)-1)
		for i, a := range x.C[1:] {
			args[i] = Expr(a)
		}
		return sub(x.C[0], 15, false) + "." + x.S + "(" + strings.Join(args, ", ") + ")"
	case "index":
		return sub(x.C[0], 15, false) + "[" + Expr(x.C[1]) + "]"
	case "slice": // C = obj, lo|none, hi|none
		lo, hi := "", ""
		if x.C[1].K != "none" {
			lo = Expr(x.C[1])
		}
		if x.C[2].K != "none" {
			hi = Expr(x.C[2])
		}
		return sub(x.C[0], 15, false) + "[" + lo + ":" + hi + "]"
	case "list":
		return "[" + exprList(x.C) + "]"
	case "set":
		return "{" + exprList(x.C) + "}"
	case "map": // children alternate key (str) / value
		var parts []string
		for i := 0; i+1 < len(x.C); i += 2 {
			parts = append(parts, Expr(x.C[i])+": "+Expr(x.C[i+1]))
		}
		return "{" + strings.Join(parts, ", ") + "}"
	case "func": // S = name or ""; C[0] = params (K "params", children "param" S=name, optional default child), C[1] = block
		var ps []string
		for _, p := range x.C[0].C {
			if len(p.C) > 0 {
				ps = append(ps, p.S+"="+Expr(p.C[0]))
			} else {
				ps = append(ps, p.S)
			}
		}
		name := ""
		if x.S != "" {
			name = " " + x.S
		}
		return "func" + name + "(" + strings.Join(ps, ", ") + ") " + Block(x.C[1], 0)
	case "if":
		s := "if " + Expr(x.C[0]) + " " + Block(x.C[1], 0)
		if len(x.C) > 2 {
			s += " else " + Block(x.C[2], 0)
		}
		return s
	case "switch": // C[0] subject; then "case" nodes (C = exprs..., last child block) and optional "default" (C[0] block)
		var sb strings.Builder
		sb.WriteString("switch " + Expr(x.C[0]) + " {\n")
		for _, c := range x.C[1:] {
			if c.K == "case" {
				sb.WriteString("case " + exprList(c.C[:len(c.C)-1]) + ":\n")
				sb.WriteString(Stmts(c.C[len(c.C)-1].C, 1))
			} else {
				sb.WriteString("default:\n")
				sb.WriteString(Stmts(c.C[0].C, 1))
			}
		}
		sb.WriteString("}")
		return sb.String()
	case "pipe":
		parts := make([]string, len(x.C))
		for i, c := range x.C {
			parts[i] = sub(c, 3, false)
			if c.K == "tern" { // the else branch of a ternary extends as far as it can: `c ? a : b | f` is `c ? a : (b | f)`
				parts[i] = "(" + Expr(c) + ")"
			}
		}
		return strings.Join(parts, " | ")
	case "paren":
		return "(" + Expr(x.C[0]) + ")"
	}
	return "<?" + x.K + ">"
}

func exprList(xs []*N) string {
	parts := make([]string, len(xs))
	for i, a := range xs {
		parts[i] = Expr(a)
	}
	return strings.Join(parts, ", ")
}

func ind(k int) string { return strings.Repeat("  ", k) }

// Block renders `{ stmts }`.
func Block(b *N, depth int) string {
	if len(b.C) == 0 {
		return "{ }"
	}
	return "{\n" + Stmts(b.C, depth+1) + ind(depth) + "}"
}

func Stmts(ss []*N, depth int) string {
	var sb strings.Builder
	for _, s := range ss {
		sb.WriteString(ind(depth) + strings.ReplaceAll(Stmt(s), "\n", "\n"+ind(depth)) + "\n")
	}
	return sb.String()
}

// Stmt renders a statement (without trailing newline).
func Stmt(s *N) string {
	switch s.K {
	case "var":
		return s.S + " := " + Expr(s.C[0])
	case "const":
		return "const " + s.S + " = " + Expr(s.C[0])
	case "assign": // S = "name op"
		f := strings.SplitN(s.S, " ", 2)
		return f[0] + " " + f[1] + " " + Expr(s.C[0])
	case "setitem": // S = op; C = obj, index, value
		return sub(s.C[0], 15, false) + "[" + Expr(s.C[1]) + "] " + s.S + " " + Expr(s.C[2])
	case "multi": // S = "a,b" names; C[0] value
		return strings.ReplaceAll(s.S, ",", ", ") + " := " + Expr(s.C[0])
	case "postfix": // S = "name ++"
		f := strings.SplitN(s.S, " ", 2)
		return f[0] + f[1]
	case "for3": // C = init stmt, cond expr, post stmt, block
		return "for " + Stmt(s.C[0]) + "; " + Expr(s.C[1]) + "; " + Stmt(s.C[2]) + " " + Block(s.C[3], 0)
	case "forcond":
		return "for " + Expr(s.C[0]) + " " + Block(s.C[1], 0)
	case "forever":
		return "for " + Block(s.C[0], 0)
	case "forrange": // S = "k,v" | "k" | ""; C = container, block
		head := "for range "
		if s.S != "" {
			head = "for " + strings.ReplaceAll(s.S, ",", ", ") + " := range "
		}
		return head + sub(s.C[0], 14, false) + " " + Block(s.C[1], 0)
	case "forin": // S = var; C = container, block
		return "for " + s.S + " in " + sub(s.C[0], 14, false) + " " + Block(s.C[1], 0)
	case "break", "continue":
		return s.K
	case "return":
		if len(s.C) == 0 {
			return "return"
		}
		return "return " + Expr(s.C[0])
	case "defer": // C[0] = call / mcall; after `defer` the parser wants `func` or an identifier: no parentheses around a literal callee
		if c := s.C[0]; c.K == "call" && c.C[0].K == "func" {
			return "defer " + Expr(c.C[0]) + "(" + exprList(c.C[1:]) + ")"
		}
		return "defer " + Expr(s.C[0])
	case "expr":
		return Expr(s.C[0])
	}
	return Expr(s)
}

// Src renders a whole program (K = "prog").
func Src(p *N) string { return Stmts(p.C, 0) }

// Sexp renders the tree for the Lean model: (kind s:hex i:int child*)
func Sexp(x *N) string {
	var sb strings.Builder
	sb.WriteString("(" + x.K)
	if x.S != "" {
		sb.WriteString(" s:" + Hex(x.S))
	}
	if x.K == "int" || x.K == "bool" {
		sb.WriteString(" i:" + strconv.FormatInt(x.I, 10))
	}
	for _, c := range x.C {
		sb.WriteString(" " + Sexp(c))
	}
	sb.WriteString(")")
	return sb.String()
}

// Walk visits every node.
func Walk(x *N, f func(*N, []*N), path []*N) {
	f(x, path)
	for _, c := range x.C {
		Walk(c, f, append(path, x))
	}
}

// Size counts nodes.
func Size(x *N) int {
	k := 1
	for _, c := range x.C {
		k += Size(c)
	}
	return k
}

// Kinds lists the distinct statement/expression kinds used.
func Kinds(x *N) map[string]int {
	m := map[string]int{}
	Walk(x, func(y *N, _ []*N) { m[y.K]++ }, nil)
	return m
}

// CtlUnderOperands is the guard of the known C04 defect: a break/continue that is lexically
// inside a `switch` (or inside any construct used in an operand position with pending
// operands) between it and its enclosing loop.
func CtlUnderOperands(p *N) bool {
	found := false
	Walk(p, func(y *N, path []*N) {
		if y.K != "break" && y.K != "continue" {
			return
		}
		// walk outwards to the nearest loop
		for i := len(path) - 1; i >= 0; i-- {
			switch path[i].K {
			case "for3", "forcond", "forever", "forrange", "forin":
				return
			case "func":
				return
			case "switch":
				found = true
				return
			case "block", "if", "case", "default", "prog", "expr":
				// statement-level nesting is fine as long as the `if`/block is itself a statement:
				// an `if` used as an operand shows up as a child of a non-statement node, handled below
			default:
				// the control statement sits inside an expression operand (e.g. an `if` used as a
				// value in `x := if c { break }`, a function argument, a list element ...)
				found = true
				return
			}
		}
	}, nil)
	return found
}

// ---------------------------------------------------------------- generation

type GenOpts struct {
	MaxStmts      int // statements per block
	MaxDepth      int // nesting depth
	Budget        int // total node budget
	Funcs         bool
	Closures      bool
	Containers    bool
	Strings       bool
	CtlHeavy      bool // favour loops/switch/break/continue/return placement (C04)
	NoCtlInSwitch bool // stay inside the guard NoCtlUnderOperands
	Shadow        bool // nested scopes may redeclare (shadow) an outer variable
	TryDefer      bool // error(), try() with handler chains, defer inside functions (opt-in: C01)
	Pipes         bool // pipe expressions `x | f | g(a)` (opt-in: C01)
	Sets          bool // set literals, one-entry map literals with index / assignment / in, string index and slice (opt-in: C01)
}

type gvar struct {
	name  string
	ty    string // int bool str list func
	cnst  bool
	arity int
	req   int    // required (non-default) parameters
	key   string // ty "map": a key the map is known to hold
}

type gen struct {
	noIf   int
	r      *RNG
	o      GenOpts
	scopes [][]gvar
	nextID int
	loop   int // loop nesting depth (inside the current function)
	fn     int // function nesting depth
	sw     int // switch nesting depth inside the current loop
	budget int
	prints int
	raise  int // > 0 inside the function argument of a try: raising is expected there
}

func GenProgram(r *RNG, o GenOpts) *N {
	g := &gen{r: r, o: o, budget: o.Budget}
	g.push()
	var stmts []*N
	k := 2 + r.Intn(o.MaxStmts)
	for i := 0; i < k && g.budget > 0; i++ {
		stmts = append(stmts, g.stmt(0)...)
	}
	// the program's value: every int/bool/str variable in scope, in declaration order
	var items []*N
	for _, v := range g.scopes[0] {
		if v.ty == "int" || v.ty == "bool" || v.ty == "str" || v.ty == "list" || v.ty == "any" || v.ty == "set" || v.ty == "map" {
			items = append(items, nId(v.name))
		}
	}
	stmts = append(stmts, n("expr", n("list", items...)))
	return n("prog", stmts...)
}

func (g *gen) push() { g.scopes = append(g.scopes, nil) }
func (g *gen) pop()  { g.scopes = g.scopes[:len(g.scopes)-1] }
func (g *gen) fresh(prefix string) string {
	g.nextID++
	return fmt.Sprintf("%s%d", prefix, g.nextID)
}
func (g *gen) declare(name, ty string) {
	g.scopes[len(g.scopes)-1] = append(g.scopes[len(g.scopes)-1], gvar{name: name, ty: ty})
}
func (g *gen) vars(ty string, writable bool) []gvar {
	var out []gvar
	for _, s := range g.scopes {
		for _, v := range s {
			if v.ty == ty && !(writable && v.cnst) {
				out = append(out, v)
			}
		}
	}
	return out
}

func (g *gen) smallInt() int64 {
	switch g.r.Intn(12) {
	case 0:
		return 0
	case 1:
		return -1
	case 2:
		return 7
	case 3:
		return 100
	default:
		return int64(g.r.Intn(10))
	}
}

func (g *gen) intExpr(d int) *N {
	g.budget--
	vs := g.vars("int", false)
	if d <= 0 || g.budget <= 0 {
		if len(vs) > 0 && g.r.Chance(60) {
			return nId(Pick(g.r, vs).name)
		}
		return nInt(g.smallInt())
	}
	if g.o.Pipes && g.r.Chance(8) {
		if x := g.pipeExpr(d); x != nil {
			return x
		}
	}
	if g.o.Sets && g.r.Chance(6) {
		switch ss, ms := g.vars("set", false), g.vars("map", false); {
		case len(ss) > 0 && g.r.Bool():
			return nCall(nId("len"), nId(Pick(g.r, ss).name))
		case len(ms) > 0:
			m := Pick(g.r, ms)
			if g.r.Chance(25) {
				return nCall(nId("len"), nId(m.name))
			}
			return n("index", nId(m.name), nStr(m.key))
		}
	}
	if g.o.TryDefer && g.fn < 2 && g.noIf == 0 && g.r.Chance(4) { // (no braces inside a template string)
		return nCall(nId("try"), g.thunk(d, false), nInt(g.smallInt()))
	}
	switch g.r.Intn(14) {
	case 0, 1, 2:
		return nInfix(Pick(g.r, []string{"+", "-", "*"}), g.intExpr(d-1), g.intExpr(d-1))
	case 3:
		return nInfix(Pick(g.r, []string{"/", "%"}), g.intExpr(d-1), nInt(int64(1+g.r.Intn(5))))
	case 4:
		return ns("prefix", "-", g.intExpr(d-1))
	case 5:
		return n("tern", g.boolExpr(d-1), g.intExprNoTern(d-1), g.intExprNoTern(d-1))
	case 6:
		if fs := g.vars("func", false); len(fs) > 0 && g.o.Funcs {
			f := Pick(g.r, fs)
			nargs := f.arity
			if f.req < f.arity {
				nargs = f.req + g.r.Intn(f.arity-f.req+1)
			}
			args := make([]*N, nargs)
			for i := range args {
				args[i] = g.intExpr(d - 1)
			}
			return nCall(nId(f.name), args...)
		}
	case 7:
		if ls := g.vars("list", false); len(ls) > 0 && g.o.Containers {
			return nCall(nId("len"), nId(Pick(g.r, ls).name))
		}
	case 8:
		if ls := g.vars("list", false); len(ls) > 0 && g.o.Containers {
			// in-range index most of the time: l[i % len(l)] on a non-empty literal-built list
			l := nId(Pick(g.r, ls).name)
			if g.r.Chance(85) {
				return n("index", l, nInt(int64(g.r.Intn(2))-int64(g.r.Intn(2))))
			}
			return n("index", l, g.intExpr(d-1))
		}
	case 9:
		if g.noIf == 0 {
			return n("if", g.boolExpr(d-1), nBlock(n("expr", g.intExpr(d-1))), nBlock(n("expr", g.intExpr(d-1))))
		}
	case 10:
		if g.o.Strings {
			if ss := g.vars("str", false); len(ss) > 0 {
				return nCall(nId("len"), nId(Pick(g.r, ss).name))
			}
		}
	}
	if len(vs) > 0 && g.r.Chance(50) {
		return nId(Pick(g.r, vs).name)
	}
	return nInt(g.smallInt())
}

func (g *gen) intExprNoTern(d int) *N {
	x := g.intExpr(d)
	bad := false
	Walk(x, func(y *N, _ []*N) {
		if y.K == "tern" {
			bad = true
		}
	}, nil)
	if bad {
		return nInt(g.smallInt())
	}
	return x
}

func (g *gen) boolExpr(d int) *N {
	g.budget--
	if d <= 0 || g.budget <= 0 {
		if vs := g.vars("bool", false); len(vs) > 0 && g.r.Chance(40) {
			return nId(Pick(g.r, vs).name)
		}
		return nInfix(Pick(g.r, []string{"<", "<=", "==", "!=", ">", ">="}), g.intExpr(0), g.intExpr(0))
	}
	if g.o.Sets && g.r.Chance(8) {
		k := Pick(g.r, []string{"in", "notin"})
		switch ss, ms := g.vars("set", false), g.vars("map", false); {
		case len(ss) > 0 && g.r.Bool():
			return n(k, g.intExpr(d-1), nId(Pick(g.r, ss).name))
		case len(ms) > 0:
			m := Pick(g.r, ms)
			return n(k, nStr(Pick(g.r, []string{m.key, "zz"})), nId(m.name))
		}
	}
	switch g.r.Intn(8) {
	case 0, 1, 2:
		return nInfix(Pick(g.r, []string{"<", "<=", "==", "!=", ">", ">="}), g.intExpr(d-1), g.intExpr(d-1))
	case 3:
		return nInfix("&&", g.boolExpr(d-1), g.boolExpr(d-1))
	case 4:
		return nInfix("||", g.boolExpr(d-1), g.boolExpr(d-1))
	case 5:
		return ns("prefix", "!", g.boolExpr(d-1))
	case 6:
		if ls := g.vars("list", false); len(ls) > 0 && g.o.Containers {
			k := "in"
			if g.r.Bool() {
				k = "notin"
			}
			return n(k, g.intExpr(d-1), nId(Pick(g.r, ls).name))
		}
	}
	return nBool(g.r.Bool())
}

var words = []string{"a", "bc", "x y", "", "risor", "z"}

func (g *gen) strExpr(d int) *N {
	g.budget--
	vs := g.vars("str", false)
	if d <= 0 || g.budget <= 0 {
		if len(vs) > 0 && g.r.Chance(50) {
			return nId(Pick(g.r, vs).name)
		}
		return nStr(Pick(g.r, words))
	}
	if g.o.Sets && g.r.Chance(20) { // index / slice by rune
		var base *N
		if len(vs) > 0 && g.r.Bool() {
			base = nId(Pick(g.r, vs).name) // may be empty or short: index / slice errors
		} else {
			base = nStr(Pick(g.r, []string{"risor", "x y", "bc", "héllo"}))
		}
		switch g.r.Intn(5) {
		case 0:
			return n("index", base, nInt(int64(g.r.Intn(2))-int64(g.r.Intn(2))))
		case 1:
			return n("slice", base, nInt(int64(g.r.Intn(2))), n("none"))
		case 2:
			return n("slice", base, n("none"), nInt(int64(g.r.Intn(3))))
		case 3:
			return n("slice", base, nInt(0), nInt(int64(g.r.Intn(3))))
		default:
			return n("index", base, g.intExpr(0))
		}
	}
	switch g.r.Intn(5) {
	case 0:
		return nInfix("+", g.strExpr(d-1), g.strExpr(d-1))
	case 1:
		g.noIf++
		parts := []*N{nStr(Pick(g.r, []string{"v=", "n ", "<"})), g.intExprNoTern(d - 1)}
		if g.r.Bool() {
			parts = append(parts, nStr(Pick(g.r, []string{" end", ">", " "})), g.boolExpr(0))
		}
		g.noIf--
		return n("tmpl", parts...)
	case 2:
		return n("tern", g.boolExpr(d-1), nStr(Pick(g.r, words)), nStr(Pick(g.r, words)))
	}
	if len(vs) > 0 {
		return nId(Pick(g.r, vs).name)
	}
	return nStr(Pick(g.r, words))
}

func (g *gen) listExpr(d int) *N {
	g.budget--
	k := 1 + g.r.Intn(4)
	items := make([]*N, k)
	for i := range items {
		items[i] = g.intExpr(d - 1)
	}
	if ls := g.vars("list", false); len(ls) > 0 && g.r.Chance(25) {
		l := nId(Pick(g.r, ls).name)
		switch g.r.Intn(3) {
		case 0:
			return n("slice", l, nInt(0), nInt(1))
		case 1:
			return n("slice", l, n("none"), n("none"))
		default:
			return nInfix("+", l, n("list", items...))
		}
	}
	return n("list", items...)
}

// body generates a block for a loop/if/function body in a new scope.
func (g *gen) body(d int, extra ...*N) *N {
	g.push()
	defer g.pop()
	stmts := append([]*N{}, extra...)
	k := 1 + g.r.Intn(g.o.MaxStmts)
	for i := 0; i < k && (g.budget > 0 || len(stmts) == 0); i++ {
		stmts = append(stmts, g.stmt(d)...)
	}
	return nBlock(stmts...)
}

// ctl returns a break/continue guarded by a condition (so that loops still make progress),
// or nil when not inside a loop / not allowed.
func (g *gen) ctl(d int) *N {
	if g.loop == 0 {
		return nil
	}
	if g.sw > 0 && g.o.NoCtlInSwitch {
		return nil
	}
	k := "break"
	if g.r.Bool() {
		k = "continue"
	}
	return n("expr", n("if", g.boolExpr(1), nBlock(n(k))))
}

func (g *gen) stmt(d int) []*N {
	g.budget -= 2
	deep := d < g.o.MaxDepth && g.budget > 0
	if g.o.TryDefer && g.r.Chance(14+16*b2iInt(g.fn > 0)) {
		if ss := g.tryDeferStmt(d); ss != nil {
			return ss
		}
	}
	if g.o.Sets && g.r.Chance(8) {
		switch ms := g.vars("map", true); {
		case g.r.Chance(35): // a set of ints (sometimes with a repeated item, sometimes mixed with a string)
			name := g.fresh("u")
			x := n("set")
			for i, k := 0, 1+g.r.Intn(4); i < k; i++ {
				x.C = append(x.C, g.intExpr(1))
			}
			if g.r.Chance(20) {
				x.C = append(x.C, nStr(Pick(g.r, words)))
			}
			g.declare(name, "set")
			return []*N{nVar(name, x)}
		case g.r.Chance(50) || len(ms) == 0: // a map literal with ONE entry (two or more compile in Go map order)
			name := g.fresh("m")
			key := Pick(g.r, []string{"a", "k", "key", "x y"})
			e := g.intExpr(1)
			g.scopes[len(g.scopes)-1] = append(g.scopes[len(g.scopes)-1], gvar{name: name, ty: "map", key: key})
			return []*N{nVar(name, n("map", nStr(key), e))}
		default:
			m := Pick(g.r, ms)
			if g.r.Bool() {
				return []*N{ns("setitem", "=", nId(m.name), nStr(Pick(g.r, []string{m.key, "b", "c"})), g.intExpr(1))}
			}
			return []*N{ns("setitem", Pick(g.r, []string{"+=", "*="}), nId(m.name), nStr(m.key), g.intExpr(1))}
		}
	}
	choice := g.r.Intn(30)
	if g.o.CtlHeavy && g.r.Chance(45) {
		choice = 14 + g.r.Intn(12)
	}
	switch {
	case choice < 4: // new int variable; in a nested scope it sometimes shadows an outer one
		name := g.fresh("v")
		if g.o.Shadow && len(g.scopes) > 1 && g.r.Chance(25) {
			var outer []gvar
			inner := map[string]bool{}
			for _, v := range g.scopes[len(g.scopes)-1] {
				inner[v.name] = true
			}
			for _, sc := range g.scopes[:len(g.scopes)-1] {
				for _, v := range sc {
					if v.ty == "int" && !v.cnst && !inner[v.name] {
						outer = append(outer, v)
					}
				}
			}
			if len(outer) > 0 {
				name = Pick(g.r, outer).name
			}
		}
		e := g.intExpr(2)
		g.declare(name, "int")
		return []*N{nVar(name, e)}
	case choice < 6: // assignment to an int variable
		if vs := g.vars("int", true); len(vs) > 0 {
			v := Pick(g.r, vs)
			op := Pick(g.r, []string{"=", "+=", "-=", "*="})
			return []*N{nAssign(v.name, op, g.intExpr(2))}
		}
	case choice < 7:
		if vs := g.vars("int", true); len(vs) > 0 {
			return []*N{ns("postfix", Pick(g.r, vs).name+" "+Pick(g.r, []string{"++", "--"}))}
		}
	case choice < 8:
		name := g.fresh("b")
		e := g.boolExpr(2)
		g.declare(name, "bool")
		return []*N{nVar(name, e)}
	case choice < 9 && g.o.Strings:
		name := g.fresh("s")
		e := g.strExpr(2)
		g.declare(name, "str")
		return []*N{nVar(name, e)}
	case choice < 10 && g.o.Containers:
		name := g.fresh("l")
		e := g.listExpr(2)
		g.declare(name, "list")
		return []*N{nVar(name, e)}
	case choice < 11 && g.o.Containers:
		if ls := g.vars("list", true); len(ls) > 0 {
			l := Pick(g.r, ls)
			switch g.r.Intn(3) {
			case 0:
				return []*N{ns("setitem", Pick(g.r, []string{"=", "+="}), nId(l.name), nInt(int64(g.r.Intn(2))-int64(g.r.Intn(2))), g.intExpr(1))}
			case 1:
				return []*N{n("expr", ns("mcall", "append", nId(l.name), g.intExpr(1)))}
			default:
				a, b := g.fresh("m"), g.fresh("m")
				rhs := n("list", g.intExpr(1), g.intExpr(1))
				if g.r.Chance(12) { // too many / too few values: the count mismatch must be raised
					if g.r.Bool() {
						rhs.C = append(rhs.C, g.intExpr(1))
					} else {
						rhs.C = rhs.C[:1]
					}
				}
				g.declare(a, "int")
				g.declare(b, "int")
				return []*N{ns("multi", a+","+b, rhs)}
			}
		}
	case choice < 12:
		g.prints++
		args := []*N{g.intExpr(1)}
		if g.o.Strings && g.r.Bool() {
			args = append(args, g.strExpr(1))
		}
		return []*N{n("expr", nCall(nId("print"), args...))}
	case choice < 13:
		name := g.fresh("k")
		e := g.intExpr(1)
		g.scopes[len(g.scopes)-1] = append(g.scopes[len(g.scopes)-1], gvar{name: name, ty: "int", cnst: true})
		return []*N{ns("const", name, e)}
	case choice < 14:
		return []*N{n("expr", g.intExpr(2))}
	case choice < 16 && deep: // if / else as a statement
		c := g.boolExpr(2)
		x := n("if", c, g.body(d+1))
		if g.r.Bool() {
			x.C = append(x.C, g.body(d+1))
		}
		return []*N{n("expr", x)}
	case choice < 18 && deep: // switch
		subj := g.intExpr(1)
		x := n("switch", subj)
		g.sw++
		kc := 1 + g.r.Intn(3)
		for i := 0; i < kc; i++ {
			c := n("case", nInt(int64(i)))
			if g.r.Chance(25) {
				c.C = append(c.C, nInt(int64(i+10)))
			}
			var extra []*N
			if cs := g.ctl(d); cs != nil && g.r.Chance(50) {
				extra = append(extra, cs)
			}
			c.C = append(c.C, g.body(d+1, extra...))
			x.C = append(x.C, c)
		}
		if g.r.Chance(60) {
			var extra []*N
			if cs := g.ctl(d); cs != nil && g.r.Chance(40) {
				extra = append(extra, cs)
			}
			x.C = append(x.C, n("default", g.body(d+1, extra...)))
		}
		g.sw--
		return []*N{n("expr", x)}
	case choice < 20 && deep: // three-part for loop
		i := g.fresh("i")
		bound := int64(1 + g.r.Intn(4))
		g.push()
		g.declare(i, "int")
		g.scopes[len(g.scopes)-1][0].cnst = true // the body must not defeat the bound
		saved := g.sw
		g.sw = 0
		g.loop++
		var extra []*N
		if cs := g.ctl(d); cs != nil && g.r.Chance(50) {
			extra = append(extra, cs)
		}
		b := g.body(d+1, extra...)
		g.loop--
		g.sw = saved
		g.pop()
		// the post clause in every statement form the grammar allows there: `i++`, an
		// assignment, or an expression statement (identifier, operator, call), whose value the
		// compiler has to pop each time round; with an expression post clause the counter is
		// advanced first thing in the body (a `continue` must not skip it)
		switch g.r.Intn(10) {
		case 0, 1:
			return []*N{n("for3", nVar(i, nInt(0)), nInfix("<", nId(i), nInt(bound)), nAssign(i, "+=", nInt(1)), b)}
		case 2, 3:
			var post *N
			switch g.r.Intn(3) {
			case 0:
				post = nId(i)
			case 1:
				post = nInfix("*", nId(i), nInt(2))
			default:
				g.prints++
				post = nCall(nId("print"), nId(i))
			}
			b.C = append([]*N{nAssign(i, "+=", nInt(1))}, b.C...)
			return []*N{n("for3", nVar(i, nInt(-1)), nInfix("<", nId(i), nInt(bound-1)), n("expr", post), b)}
		}
		return []*N{n("for3", nVar(i, nInt(0)), nInfix("<", nId(i), nInt(bound)), ns("postfix", i+" ++"), b)}
	case choice < 21 && deep: // condition loop with its own counter, incremented first
		c := g.fresh("c")
		bound := int64(1 + g.r.Intn(4))
		g.scopes[len(g.scopes)-1] = append(g.scopes[len(g.scopes)-1], gvar{name: c, ty: "int", cnst: true})
		saved := g.sw
		g.sw = 0
		g.loop++
		extra := []*N{ns("postfix", c+" ++")}
		if cs := g.ctl(d); cs != nil && g.r.Chance(50) {
			extra = append(extra, cs)
		}
		b := g.body(d+1, extra...)
		g.loop--
		g.sw = saved
		if g.r.Chance(30) { // `for { ... }` with an explicit break
			b.C = append([]*N{n("expr", n("if", nInfix(">=", nId(c), nInt(bound)), nBlock(n("break"))))}, b.C...)
			return []*N{nVar(c, nInt(0)), n("forever", b)}
		}
		return []*N{nVar(c, nInt(0)), n("forcond", nInfix("<", nId(c), nInt(bound)), b)}
	case choice < 23 && deep && g.o.Containers: // range / in loops
		var cont *N
		iterated := ""
		if ls := g.vars("list", false); len(ls) > 0 && g.r.Bool() {
			iterated = Pick(g.r, ls).name
			cont = nId(iterated)
		} else if g.r.Bool() {
			cont = g.listExpr(1)
		} else {
			cont = nInt(int64(g.r.Intn(4)))
		}
		g.push()
		saved := g.sw
		g.sw = 0
		g.loop++
		// the body must not grow the list it iterates over (live iteration would not end)
		var restore []*bool
		for si := range g.scopes {
			for vi := range g.scopes[si] {
				if v := &g.scopes[si][vi]; v.name == iterated && !v.cnst {
					v.cnst = true
					restore = append(restore, &v.cnst)
				}
			}
		}
		defer func() {
			for _, b := range restore {
				*b = false
			}
		}()
		var st *N
		switch g.r.Intn(4) {
		case 0:
			k, v := g.fresh("i"), g.fresh("e")
			g.declare(k, "int")
			if cont.K == "int" {
				g.declare(v, "int")
			} else {
				g.declare(v, "int")
			}
			st = ns("forrange", k+","+v, cont)
		case 1:
			k := g.fresh("i")
			g.declare(k, "int")
			st = ns("forrange", k, cont)
		case 2:
			st = ns("forrange", "", cont)
		default:
			v := g.fresh("e")
			g.declare(v, "int")
			st = ns("forin", v, cont)
		}
		var extra []*N
		if cs := g.ctl(d); cs != nil && g.r.Chance(50) {
			extra = append(extra, cs)
		}
		st.C = append(st.C, g.body(d+1, extra...))
		g.loop--
		g.sw = saved
		g.pop()
		return []*N{st}
	case choice < 24:
		if cs := g.ctl(d); cs != nil {
			return []*N{cs}
		}
	case choice < 27 && deep && g.o.Funcs && g.fn < 2: // named function definition
		name := g.fresh("f")
		ar := g.r.Intn(3)
		params := n("params")
		g.push()
		savedLoop, savedSw := g.loop, g.sw
		g.loop, g.sw = 0, 0
		g.fn++
		req := ar
		if ar > 0 && g.r.Chance(35) {
			req = g.r.Intn(ar + 1)
		}
		for i := 0; i < ar; i++ {
			p := g.fresh("p")
			g.declare(p, "int")
			if i >= req {
				params.C = append(params.C, ns("param", p, nInt(int64(g.r.Intn(9)))))
			} else {
				params.C = append(params.C, ns("param", p))
			}
		}
		if !g.o.Closures {
			// hide outer int variables? they are globals at depth 0 and stay visible; keep them.
		}
		b := g.body(d + 1)
		if g.r.Chance(70) {
			b.C = append(b.C, n("return", g.intExpr(2)))
		} else {
			b.C = append(b.C, n("expr", g.intExpr(2)))
		}
		g.fn--
		g.loop, g.sw = savedLoop, savedSw
		g.pop()
		g.scopes[len(g.scopes)-1] = append(g.scopes[len(g.scopes)-1], gvar{name: name, ty: "func", cnst: true, arity: ar, req: req})
		return []*N{n("expr", ns("func", name, params, b))}
	case choice < 29 && choice >= 28 && g.o.Funcs && deep && g.fn == 0:
		// a recursive function with a base case, or a closure factory capturing its parameter
		if g.r.Bool() {
			name, p := g.fresh("r"), g.fresh("p")
			op := Pick(g.r, []string{"+", "*"})
			body := nBlock(
				n("expr", n("if", nInfix("<=", nId(p), nInt(1)), nBlock(n("return", nInt(1))))),
				n("return", nInfix(op, nId(p), nCall(nId(name), nInfix("-", nId(p), nInt(1))))))
			g.scopes[len(g.scopes)-1] = append(g.scopes[len(g.scopes)-1], gvar{name: name, ty: "func", cnst: true, arity: 1, req: 1})
			return []*N{n("expr", ns("func", name, n("params", ns("param", p)), body))}
		}
		if g.o.Shadow && g.r.Chance(30) {
			// a closure that first uses a captured variable, then declares a block-scoped variable of
			// the same name, and reads it from a block nested inside the shadowing block
			mk, pv, q, acc, fn, res := g.fresh("mk"), g.fresh("p"), g.fresh("p"), g.fresh("w"), g.fresh("g"), g.fresh("v")
			shadowBlock := nBlock(
				nVar(pv, nInfix("*", nId(q), nInt(int64(2+g.r.Intn(5))))),
				n("expr", n("if", nInfix(">", nId(q), nInt(1)), nBlock(nAssign(acc, "+=", nId(pv))))),
				nAssign(acc, "+=", nId(pv)))
			var loop *N
			if g.r.Bool() {
				loop = n("expr", n("if", nInfix(">", nId(q), nInt(0)), shadowBlock))
			} else {
				it := g.fresh("e")
				loop = ns("forin", pv, n("list", nId(q), nInfix("+", nId(q), nInt(1))),
					nBlock(n("expr", n("if", nInfix(">", nId(q), nInt(0)), nBlock(nAssign(acc, "+=", nId(pv)))))))
				_ = it
			}
			inner := ns("func", "", n("params", ns("param", q)), nBlock(
				nVar(acc, nInfix("+", nId(pv), nId(q))),
				loop,
				n("return", n("list", nId(acc), nId(pv)))))
			outer := ns("func", mk, n("params", ns("param", pv)), nBlock(n("return", inner)))
			a1 := g.intExpr(0)
			g.scopes[len(g.scopes)-1] = append(g.scopes[len(g.scopes)-1], gvar{name: mk, ty: "mk", cnst: true},
				gvar{name: fn, ty: "mk", cnst: true}, gvar{name: res, ty: "list"})
			return []*N{n("expr", outer), nVar(fn, nCall(nId(mk), a1)), nVar(res, nInfix("+", nCall(nId(fn), nInt(int64(g.r.Intn(4)))), nCall(nId(fn), nInt(2))))}
		}
		if g.r.Chance(40) {
			// a factory with more than 8 locals whose closure captures several of them, called
			// twice back to back; both closures are used afterwards
			mk, a, b := g.fresh("mk"), g.fresh("p"), g.fresh("p")
			var stmts []*N
			var locals []string
			k := 8 + g.r.Intn(4)
			for i := 0; i < k; i++ {
				l := g.fresh("w")
				locals = append(locals, l)
				stmts = append(stmts, nVar(l, nInfix("+", nId(a), nInt(int64(i)))))
			}
			x, y := Pick(g.r, locals), Pick(g.r, locals)
			inner := ns("func", "", n("params", ns("param", b)), nBlock(
				nAssign(x, "+=", nId(b)),
				n("return", nInfix("+", nId(x), nInfix("*", nId(y), nInt(2))))))
			stmts = append(stmts, n("return", inner))
			outer := ns("func", mk, n("params", ns("param", a)), nBlock(stmts...))
			g1, g2, r1 := g.fresh("g"), g.fresh("g"), g.fresh("v")
			a1, a2 := g.intExpr(0), g.intExpr(0)
			g.scopes[len(g.scopes)-1] = append(g.scopes[len(g.scopes)-1], gvar{name: mk, ty: "mk", cnst: true},
				gvar{name: g1, ty: "func", cnst: true, arity: 1, req: 1}, gvar{name: g2, ty: "func", cnst: true, arity: 1, req: 1}, gvar{name: r1, ty: "int"})
			return []*N{n("expr", outer), nVar(g1, nCall(nId(mk), a1)), nVar(g2, nCall(nId(mk), a2)),
				nVar(r1, nInfix("+", nCall(nId(g1), nInt(1)), nCall(nId(g2), nInt(2))))}
		}
		mk, a, b, fn := g.fresh("mk"), g.fresh("p"), g.fresh("p"), g.fresh("g")
		inner := ns("func", "", n("params", ns("param", b)), nBlock(
			nAssign(a, "+=", nId(b)),
			n("return", nInfix(Pick(g.r, []string{"+", "-", "*"}), nId(a), nId(b)))))
		outer := ns("func", mk, n("params", ns("param", a)), nBlock(n("return", inner)))
		arg := g.intExpr(1)
		g.scopes[len(g.scopes)-1] = append(g.scopes[len(g.scopes)-1], gvar{name: mk, ty: "mk", cnst: true}, gvar{name: fn, ty: "func", cnst: true, arity: 1, req: 1})
		return []*N{n("expr", outer), nVar(fn, nCall(nId(mk), arg))}
	case choice < 28 && g.fn > 0:
		if g.r.Chance(30) {
			return []*N{n("expr", n("if", g.boolExpr(1), nBlock(n("return", g.intExpr(1)))))}
		}
	}
	name := g.fresh("v")
	e := g.intExpr(1)
	g.declare(name, "int")
	return []*N{nVar(name, e)}
}

// ---------------------------------------------------------------- error(), try(), defer, pipes (opt-in)

var raiseWords = []string{"boom", "bad value", "e1", "stop", "x y"} // (never empty: EvalSrc tells errors by their text)

// noCall returns x unless it contains a call, a pipe or a function literal (inside a pipe stage
// every call of the current code object compiles to a Partial); then a leaf takes its place.
func (g *gen) noCall(x *N) *N {
	bad := false
	Walk(x, func(y *N, _ []*N) {
		switch y.K {
		case "call", "mcall", "pipe", "func":
			bad = true
		}
	}, nil)
	if bad {
		if vs := g.vars("int", false); len(vs) > 0 && g.r.Bool() {
			return nId(Pick(g.r, vs).name)
		}
		return nInt(g.smallInt())
	}
	return x
}

// pipeExpr: `x | f`, `x | f(a)`, `x | func(p) { … }`, `l | len`, one or two stages; nil when no
// suitable function is in scope.
func (g *gen) pipeExpr(d int) *N {
	var fs []gvar
	for _, f := range g.vars("func", false) {
		if f.arity >= 1 && f.req <= f.arity {
			fs = append(fs, f)
		}
	}
	stage := func() *N {
		switch {
		case len(fs) > 0 && g.r.Chance(70):
			f := Pick(g.r, fs)
			lo := f.req - 1 // written arguments: the piped value is the first one
			if lo < 0 {
				lo = 0
			}
			k := lo + g.r.Intn(f.arity-1-lo+1)
			if k == 0 && g.r.Bool() {
				return nId(f.name)
			}
			args := make([]*N, k)
			for i := range args {
				args[i] = g.noCall(g.intExpr(d - 1))
			}
			return nCall(nId(f.name), args...)
		case g.fn < 2 && g.noIf == 0:
			p := g.fresh("p")
			g.push()
			g.declare(p, "int")
			savedLoop, savedSw := g.loop, g.sw
			g.loop, g.sw = 0, 0
			g.fn++
			body := nBlock(n("return", nInfix(Pick(g.r, []string{"+", "-", "*"}), nId(p), g.intExpr(1))))
			g.fn--
			g.loop, g.sw = savedLoop, savedSw
			g.pop()
			return ns("func", "", n("params", ns("param", p)), body)
		}
		return nil
	}
	var first *N
	if ls := g.vars("list", false); len(ls) > 0 && g.o.Containers && g.r.Chance(25) {
		first = nPipe(nId(Pick(g.r, ls).name), nId("len")) // a list piped into a builtin: an int from here on
		if g.r.Bool() {
			return first
		}
	} else {
		first = g.intExpr(d - 1)
	}
	st := stage()
	if st == nil {
		return nil
	}
	x := nPipe(first, st)
	if g.r.Chance(35) {
		if st2 := stage(); st2 != nil {
			x.C = append(x.C, st2)
		}
	}
	return x
}

// thunk: `func() { stmts; [if c { error(w) }]; value }` — the function argument of a try (raising
// = true: an error is likely) or a deferred literal.
func (g *gen) thunk(d int, raising bool) *N {
	g.push()
	savedLoop, savedSw := g.loop, g.sw
	g.loop, g.sw = 0, 0
	g.fn++
	if raising {
		g.raise++
	}
	var stmts []*N
	for i, k := 0, g.r.Intn(3); i < k && g.budget > 0; i++ {
		stmts = append(stmts, g.stmt(d+1)...)
	}
	if raising && g.r.Chance(60) {
		c := g.boolExpr(1)
		if g.r.Chance(45) {
			c = nBool(true)
		}
		stmts = append(stmts, n("expr", n("if", c, nBlock(nRaise(Pick(g.r, raiseWords))))))
	}
	val := g.intExpr(1)
	if fs := g.vars("func", false); len(fs) > 0 && g.r.Chance(40) { // call a function: its deferred calls and raises happen
		f := Pick(g.r, fs)
		nargs := f.req
		if f.req < f.arity {
			nargs = f.req + g.r.Intn(f.arity-f.req+1)
		}
		args := make([]*N, nargs)
		for i := range args {
			args[i] = g.intExpr(0)
		}
		val = nCall(nId(f.name), args...)
	}
	if g.r.Bool() {
		stmts = append(stmts, n("return", val))
	} else {
		stmts = append(stmts, n("expr", val))
	}
	if raising {
		g.raise--
	}
	g.fn--
	g.loop, g.sw = savedLoop, savedSw
	g.pop()
	return ns("func", "", n("params"), nBlock(stmts...))
}

// handler: `func(e) { … }` / `func() { … }` with an int result, or a handler that raises again.
func (g *gen) handler(d int, reraise bool) *N {
	g.push()
	savedLoop, savedSw := g.loop, g.sw
	g.loop, g.sw = 0, 0
	g.fn++
	params := n("params")
	e := ""
	if g.r.Chance(70) {
		e = g.fresh("e")
		params.C = append(params.C, ns("param", e))
	}
	var stmts []*N
	switch {
	case e != "" && g.r.Chance(35):
		stmts = append(stmts, nPrint(nStr("caught"), nId(e)))
	case g.r.Chance(30):
		stmts = append(stmts, nPrint(nStr("handler"), g.intExpr(0)))
	}
	if g.r.Chance(30) && g.budget > 0 {
		stmts = append(stmts, g.stmt(d+1)...)
	}
	switch {
	case reraise && e != "" && g.r.Bool():
		stmts = append(stmts, nExpr(nCall(nId("error"), nId(e))))
	case reraise:
		stmts = append(stmts, nRaise(Pick(g.r, raiseWords)))
	default:
		stmts = append(stmts, n("return", g.intExpr(1)))
	}
	g.fn--
	g.loop, g.sw = savedLoop, savedSw
	g.pop()
	return ns("func", "", params, nBlock(stmts...))
}

// tryDeferStmt: one statement of the error/defer family, or nil when none fits here.
func (g *gen) tryDeferStmt(d int) []*N {
	g.budget -= 2
	lits := g.fn < 2 // function literals only two levels deep: free variables stay one function level up
	switch c := g.r.Intn(10); {
	case c < 4 && lits: // t := try(thunk, handlers…, [value])
		args := []*N{g.thunk(d, true)}
		if g.r.Chance(25) {
			args = append(args, g.handler(d, true))
		}
		ty := "int"
		switch g.r.Intn(4) {
		case 0:
			args = append(args, nInt(g.smallInt()))
		case 1:
			ty = "any" // nothing left after the last failure: nil
			if g.r.Bool() {
				args = append(args, g.handler(d, false))
				ty = "int"
			}
		default:
			args = append(args, g.handler(d, false))
		}
		if len(args) > 2 {
			ty = "any" // the handler after a failing handler may itself fail
		}
		name := g.fresh("t")
		g.declare(name, ty)
		return []*N{nVar(name, nTry(args...))}
	case c < 5 && lits: // the caught error as a value
		name, e := g.fresh("t"), g.fresh("e")
		g.declare(name, "any")
		return []*N{nVar(name, nTry(g.thunk(d, true), nFunc("", []string{e}, n("return", nId(e)))))}
	case c < 8 && g.fn > 0: // defer
		switch k := g.r.Intn(4); {
		case k == 0 && lits && g.loop == 0:
			// (not inside a loop: a variable declared in a loop body lives in ONE slot of the function, so a
			// closure that outlives its iteration sees the last iteration's value — finding
			// C01-loop-body-variable-shared; the reference semantics allocates per iteration)
			return []*N{nDefer(nCall(g.thunk(d, g.r.Chance(15))))}
		case k == 1 && g.loop == 0: // (same reason: a function declared in the loop body captures the body's variables)
			if fs := g.vars("func", false); len(fs) > 0 {
				f := Pick(g.r, fs)
				nargs := f.req
				if f.req < f.arity {
					nargs = f.req + g.r.Intn(f.arity-f.req+1)
				}
				args := make([]*N, nargs)
				for i := range args {
					args[i] = g.intExpr(1)
				}
				return []*N{nDefer(nCall(nId(f.name), args...))}
			}
		}
		g.prints++
		return []*N{nDefer(nCall(nId("print"), nStr("deferred"), g.intExpr(1)))}
	case c < 10 && (g.raise > 0 || (g.fn > 0 && g.r.Chance(25))): // raise under a condition
		return []*N{n("expr", n("if", g.boolExpr(1), nBlock(nRaise(Pick(g.r, raiseWords)))))}
	}
	return nil
}

// ---------------------------------------------------------------- shrinking

func cloneN(x *N) *N {
	y := &N{K: x.K, S: x.S, I: x.I}
	for _, c := range x.C {
		y.C = append(y.C, cloneN(c))
	}
	return y
}

// Shrink greedily deletes statements / switch cases / replaces compound statements by their
// bodies while `failing` still holds.  Structural, deterministic, stops at a local minimum.
func Shrink(p *N, failing func(*N) bool) *N {
	cur := cloneN(p)
	for changed := true; changed; {
		changed = false
		// collect candidate edits as paths
		var paths [][]int
		var rec func(x *N, path []int)
		rec = func(x *N, path []int) {
			for i, c := range x.C {
				pp := append(append([]int{}, path...), i)
				if x.K == "prog" || x.K == "block" || (x.K == "switch" && i > 0) {
					paths = append(paths, pp)
				}
				rec(c, pp)
			}
		}
		rec(cur, nil)
		for i := len(paths) - 1; i >= 0; i-- {
			cand := cloneN(cur)
			// navigate to parent
			x := cand
			path := paths[i]
			ok := true
			for _, k := range path[:len(path)-1] {
				if k >= len(x.C) {
					ok = false
					break
				}
				x = x.C[k]
			}
			if !ok {
				continue
			}
			k := path[len(path)-1]
			if k >= len(x.C) {
				continue
			}
			x.C = append(append([]*N{}, x.C[:k]...), x.C[k+1:]...)
			if failing(cand) {
				cur = cand
				changed = true
				break
			}
		}
	}
	return cur
}
