package main

// C06 — cancelling the context stops the evaluation and everything it started.
//
// Real code: parser + compiler + vm.Run (what risor.Eval/EvalCode do) on generated program
// shapes, with the context cancelled (or its deadline reached) before the start, while
// every thread is parked in its loop / blocking primitive, or after the main code returned.
// A case may be a SEQUENCE of evaluations on one VM (Run, then Call / RunCode): the context
// under test fires before, between (VM idle) or during them and is supplied again afterwards;
// earlier evaluations may use another context that stays alive.  Context kinds: cancel(),
// own deadline, cancel() under a far own / inherited / wrapped deadline, cancel() of the parent.
// Channel and wait primitives are rendered waiting for ever or as loops of operations that
// never have to wait (they must still observe the context).
// Host-provided builtins (hcb) call script functions back through the public callback API
// (object.GetCallFunc) with every kind of derived context: the caller's own, a WithCancel
// child, WithValue (model: hf, cancelled with the run's) and context.WithoutCancel /
// Background + the VM's values (model: hd, detached); the halt flag must stop the callback
// whatever context it was handed.
// Deferred script closures (`defer func() { … }()`): a function frame (a script call, the
// callback of a builtin) keeps the closure and runs it when the frame is left — also when the
// halt test stopped it.  Shapes `W fn body k` (script call) and `E d k` (defer statement) put
// deferred closures that do not end by themselves (compute loop, polling loop with time.sleep,
// retry loop, retried wait on a channel nobody feeds) on the frame stack while the
// cancellation arrives: in the function itself, in a callee, in a builtin's callback, in a
// deferred closure that is already running.  `C06 deferred <instant> <shape>` gives the
// model's verdict (must stop / never stops) and what the frames hold; it is compared with what
// the real evaluation did.
// Imports of source modules (`W imp body k`: `import mN` / `import mN as aN` / `from mN import vN`
// through the local importer risor.Eval uses; body = the TOP-LEVEL code of the module, written
// to a scratch directory per case): the module body runs as a nested eval on the same VM under
// the importer's context, so a cancellation that arrives while a module body loops, is blocked
// in a context-aware primitive, or after it started goroutines must stop all of it.  Imports
// sit in the main code, in functions, callbacks, deferred closures, spawned functions and in
// other modules.  `C06 imported <instant> <shape>` says what the case has to do with the context
// a module body is handed (is the main thread inside a module, which threads inherit the
// module body's context, what an importModule that detaches that context would never stop).
// Impl model: RisorModel/C06 through the oracle (`C06 run <instant> <shape>`, `C06 rerun
// <entry> <instant> <shape>` for a used VM): the set of outcomes the model allows for each
// evaluation (error class of the call | threads that never stop).  Spec: evaluated here on
// the real results (context's error returned, no host `tick()` counter advancing after the
// return, goroutines settle).
//
// All verdicts are logical (error value, counters across samples, goroutine count); the
// time limits (seconds) only bound the waiting.  Leaked goroutines are ended through a host
// flag after the observation so that no case disturbs the next one.

import (
	"context"
	"encoding/json"
	"errors"
	"fmt"
	"os"
	"path/filepath"
	"runtime"
	"sort"
	"strconv"
	"strings"
	"sync/atomic"
	"time"

	"github.com/risor-io/risor"
	"github.com/risor-io/risor/compiler"
	"github.com/risor-io/risor/object"
	ros "github.com/risor-io/risor/os"
	"github.com/risor-io/risor/parser"
	"github.com/risor-io/risor/vm"
)

func init() { commands["C06"] = c06_runC06 }

const (
	c06FindLeak    = "C06-spawned-goroutine-survives-cancel"
	c06FindLossy   = "C06-context-error-identity-lost"
	c06FindSwallow = "C06-cancellation-swallowed-nil-result"
	c06FindReset   = "C06-runcode-reset-loses-cancellation" // proposed, see c06Proposed
	// proposed: the halt test returns the error of the context the CALLEE was handed
	c06FindCallee = "C06-halt-poll-returns-callee-context-error"
)

// ---- program shapes (mirror of Risor.C06.Prog) ----

type c06Prog struct {
	kind string // D C S B W G E (E: `defer func(){ body }()`, then k)
	arg  string // primitive / wrapper
	id   int    // thread id of a spawn
	form int    // B: 0 = rendering form chosen at random, n = form n-1 (fixed witnesses)
	body *c06Prog
	k    *c06Prog
}

var c06Done = &c06Prog{kind: "D"}

func c06C(k *c06Prog) *c06Prog              { return &c06Prog{kind: "C", k: k} }
func c06S() *c06Prog                        { return &c06Prog{kind: "S"} }
func c06B(p string, k *c06Prog) *c06Prog    { return &c06Prog{kind: "B", arg: p, k: k} }
func c06W(w string, b, k *c06Prog) *c06Prog { return &c06Prog{kind: "W", arg: w, body: b, k: k} }
func c06G(b, k *c06Prog) *c06Prog           { return &c06Prog{kind: "G", body: b, k: k} }
func c06E(d, k *c06Prog) *c06Prog           { return &c06Prog{kind: "E", body: d, k: k} }
func c06F(b, k *c06Prog) *c06Prog           { return c06W("fn", b, k) } // script call func(){ b }()
func (p *c06Prog) then(k *c06Prog) *c06Prog { // replace the trailing D of p by k (spin absorbs)
	switch p.kind {
	case "D":
		return k
	case "S":
		return p
	}
	q := *p
	q.k = p.k.then(k)
	return &q
}

// number assigns thread ids to spawn sites in preorder (1, 2, …) and returns their count.
func (p *c06Prog) number(next *int) {
	switch p.kind {
	case "D", "S":
	case "C", "B":
		p.k.number(next)
	case "W", "E":
		p.body.number(next)
		p.k.number(next)
	case "G":
		*next++
		p.id = *next
		p.body.number(next)
		p.k.number(next)
	}
}

func (p *c06Prog) toks(out *[]string) {
	switch p.kind {
	case "D", "S":
		*out = append(*out, p.kind)
	case "C":
		*out = append(*out, "C")
		p.k.toks(out)
	case "B":
		*out = append(*out, "B", p.arg)
		p.k.toks(out)
	case "W":
		*out = append(*out, "W", p.arg)
		p.body.toks(out)
		p.k.toks(out)
	case "E":
		*out = append(*out, "E")
		p.body.toks(out)
		p.k.toks(out)
	case "G":
		*out = append(*out, "G", strconv.Itoa(p.id))
		p.body.toks(out)
		p.k.toks(out)
	}
}

func (p *c06Prog) String() string {
	var t []string
	p.toks(&t)
	return strings.Join(t, " ")
}

func (p *c06Prog) walk(f func(*c06Prog, int), depth int) {
	f(p, depth)
	switch p.kind {
	case "C", "B":
		p.k.walk(f, depth)
	case "W", "E":
		p.body.walk(f, depth)
		p.k.walk(f, depth)
	case "G":
		p.body.walk(f, depth+1)
		p.k.walk(f, depth)
	}
}

// ---- rendering to risor source ----

type c06Render struct {
	rng     *RNG
	n       int
	flav    []string
	lines   []string
	inDefer int // > 0 while the body of a deferred closure is rendered
	// source modules of the case (`W imp`): name -> top-level code, in order of creation
	modNames []string
	mods     map[string]string
	// the import statement that was emitted last, while nothing else has been emitted since (a
	// compute step that follows may be rendered as the same import again: served from vm.modules)
	lastImport string
}

func (r *c06Render) emit(ind int, s string) {
	r.lines = append(r.lines, strings.Repeat("  ", ind)+s)
	r.lastImport = ""
}
func (r *c06Render) fl(kind string, n int) int { return r.flForm(kind, n, 0) }
func (r *c06Render) flForm(kind string, n, form int) int {
	f := r.rng.Intn(n)
	if form > 0 && form <= n {
		f = form - 1
	}
	r.flav = append(r.flav, kind+strconv.Itoa(f))
	return f
}

func (r *c06Render) prog(p *c06Prog, tid, ind int) {
	switch p.kind {
	case "D":
	case "C":
		if imp := r.lastImport; imp != "" && r.fl("ci", 2) == 1 {
			// importing the same module again: it is served from vm.modules, its top-level code
			// does not run a second time — a terminating step like any other
			r.emit(ind, imp)
			r.prog(p.k, tid, ind)
			return
		}
		switch r.fl("c", 3) {
		case 0:
			r.emit(ind, "1 + 1")
		case 1:
			r.emit(ind, "len([1, 2])")
		default:
			r.emit(ind, `"a" + "b"`)
		}
		r.prog(p.k, tid, ind)
	case "S":
		t := strconv.Itoa(tid)
		if r.inDefer > 0 {
			// an unbounded loop in a DEFERRED closure: the cleanup code that does not end by itself
			r.n++
			n := strconv.Itoa(r.n)
			switch r.fl("ds", 5) {
			case 0: // compute loop
				r.emit(ind, "for { tick("+t+") }")
			case 1: // polling wait: time.sleep returns at once on a done context, the loop spins
				r.emit(ind, "for { time.sleep(0.001); tick("+t+") }")
			case 2: // retry loop: every attempt fails, try() swallows the error
				r.emit(ind, "for { try(func() { time.sleep(0.001); error(\"not yet\") }); tick("+t+") }")
			case 3: // retried wait on a channel nobody feeds (the receive fails once the context is done)
				r.emit(ind, "q"+n+" := chan()")
				r.emit(ind, "for { tick("+t+"); try(func() { q"+n+".receive() }) }")
			default: // polling a condition that never becomes true
				r.emit(ind, "ok"+n+" := false")
				r.emit(ind, "for !ok"+n+" { time.sleep(0.002); tick("+t+") }")
			}
			return
		}
		switch r.fl("s", 5) {
		case 0: // bare infinite loop
			r.emit(ind, "for { tick("+t+") }")
		case 1: // condition loop
			r.emit(ind, "for true { tick("+t+") }")
		case 2: // three-clause loop
			r.emit(ind, "for j := 0; j >= 0; j++ { tick("+t+") }")
		case 3: // range loop inside a driver
			r.emit(ind, "for { for _, v := range [1, 2, 3] { tick("+t+") } }")
		default: // deep recursion, over and over
			r.n++
			f := "rec" + strconv.Itoa(r.n)
			r.emit(ind, "func "+f+"(n) { if n <= 0 { return 0 }; return "+f+"(n - 1) + 1 }")
			r.emit(ind, "for { "+f+"(300); tick("+t+") }")
		}
	case "B":
		// Besides the form that waits for ever (nobody else touches the channel / thread), recv,
		// send and wait have "ready" forms: a loop whose channel operations never have to wait
		// (closed channel, 1-slot channel used as a lock, buffer that is never full, a thread
		// that has already finished).  Every such operation still selects on ctx.Done(), and Go's
		// select takes a ready case at random: once the context has fired the loop ends with
		// the primitive's error within a few iterations, exactly like the waiting form.  Until
		// then it never ends by itself and ticks (so a thread that goes on is seen).
		r.n++
		n := strconv.Itoa(r.n)
		t := strconv.Itoa(tid)
		switch p.arg {
		case "recv":
			switch r.flForm("r", 4, p.form) {
			case 0:
				r.emit(ind, "c"+n+" := chan()")
				r.emit(ind, "mark("+t+")")
				r.emit(ind, "c"+n+".receive()")
			case 1:
				r.emit(ind, "c"+n+" := chan()")
				r.emit(ind, "mark("+t+")")
				r.emit(ind, "<-c"+n)
			case 2: // receives from a closed channel
				r.emit(ind, "c"+n+" := chan()")
				r.emit(ind, "c"+n+".close()")
				r.emit(ind, "mark("+t+")")
				if r.fl("m", 2) == 0 {
					r.emit(ind, "for { <-c"+n+"; tick("+t+") }")
				} else {
					r.emit(ind, "for { c"+n+".receive(); tick("+t+") }")
				}
			default: // 1-slot channel used as a lock
				r.emit(ind, "c"+n+" := chan(1)")
				r.emit(ind, "mark("+t+")")
				r.emit(ind, "for { c"+n+" <- true; tick("+t+"); <-c"+n+" }")
			}
		case "send":
			switch r.flForm("w", 4, p.form) {
			case 0:
				r.emit(ind, "c"+n+" := chan()")
				r.emit(ind, "mark("+t+")")
				r.emit(ind, "c"+n+".send(1)")
			case 1:
				r.emit(ind, "c"+n+" := chan()")
				r.emit(ind, "mark("+t+")")
				r.emit(ind, "c"+n+" <- 1")
			case 2: // buffer that is emptied before it is full
				r.emit(ind, "c"+n+" := chan(4)")
				r.emit(ind, "mark("+t+")")
				r.emit(ind, "for { c"+n+".send(1); tick("+t+"); c"+n+".receive() }")
			default:
				r.emit(ind, "c"+n+" := chan(2)")
				r.emit(ind, "mark("+t+")")
				r.emit(ind, "for { c"+n+" <- 1; c"+n+" <- 2; tick("+t+"); <-c"+n+"; <-c"+n+" }")
			}
		case "next":
			r.emit(ind, "c"+n+" := chan()")
			r.emit(ind, "mark("+t+")")
			r.emit(ind, "for _, v := range c"+n+" { v }")
		case "sleep":
			r.emit(ind, "mark("+t+")")
			r.emit(ind, "time.sleep("+[]string{"3600", "86400.5", "40"}[r.fl("z", 3)]+")")
		case "wait":
			// the ready form only where no watcher can halt the VM first (a spawned thread): on
			// the main VM the poll could win with the context's own error, which the model's
			// `block wait` does not have
			if tid != 0 && r.flForm("t", 2, p.form) == 1 {
				r.emit(ind, "t"+n+" := spawn(func() { 1 })")
				r.emit(ind, "mark("+t+")")
				r.emit(ind, "for { t"+n+".wait(); tick("+t+") }")
			} else {
				r.emit(ind, "t"+n+" := spawn(hold)")
				r.emit(ind, "mark("+t+")")
				r.emit(ind, "t"+n+".wait()")
			}
		}
		r.prog(p.k, tid, ind)
	case "E":
		r.emit(ind, "defer func() {")
		r.inDefer++
		r.prog(p.body, tid, ind+1)
		r.inDefer--
		r.emit(ind, "}()")
		r.prog(p.k, tid, ind)
	case "W":
		if p.arg == "imp" {
			// `import` of a source module that has not been imported yet: the body is the module's
			// top-level code (a file of its own in the case's module directory)
			r.n++
			n := strconv.Itoa(r.n)
			name := "m" + n
			saved, savedDefer := r.lines, r.inDefer
			r.lines, r.inDefer = nil, 0
			r.emit(0, "v"+n+" := "+n)
			r.prog(p.body, tid, 0)
			if r.mods == nil {
				r.mods = map[string]string{}
			}
			r.mods[name] = strings.Join(r.lines, "\n") + "\n"
			r.modNames = append(r.modNames, name)
			r.lines, r.inDefer = saved, savedDefer
			stmt := ""
			switch r.fl("i", 3) {
			case 0:
				stmt = "import " + name
			case 1:
				stmt = "import " + name + " as a" + n
			default:
				stmt = "from " + name + " import v" + n
			}
			r.emit(ind, stmt)
			r.lastImport = stmt
			r.prog(p.k, tid, ind)
			return
		}
		if p.arg == "fn" {
			// a plain script call: the callee is a function frame of its own
			r.n++
			f := "fn" + strconv.Itoa(r.n)
			r.emit(ind, f+" := func() {")
			r.prog(p.body, tid, ind+1)
			r.emit(ind, "}")
			r.emit(ind, f+"()")
			r.prog(p.k, tid, ind)
			return
		}
		if p.arg == "hf" || p.arg == "hd" {
			// a host-provided builtin that calls the function back through object.GetCallFunc
			// with a derived context: hf = one that is cancelled with the caller's (0 the same
			// context, 1 a WithCancel child, 2 WithValue), hd = one that is not (3
			// context.WithoutCancel, 4 context.Background() with the VM's values copied)
			kind := 0
			if p.arg == "hf" {
				kind = r.fl("hf", 3)
			} else {
				kind = 3 + r.fl("hd", 2)
			}
			t := strconv.Itoa(tid)
			if p.body.kind == "S" && p.k.kind == "S" && r.fl("L", 2) == 1 {
				// the same two loops as one: every callback is finite, the cancellation instant
				// falls inside one of them or between two
				r.emit(ind, "for { hcb("+strconv.Itoa(kind)+", func() { for i := 0; i < 300; i++ { tick("+t+") } }) }")
				return
			}
			r.emit(ind, "hcb("+strconv.Itoa(kind)+", func() {")
			r.prog(p.body, tid, ind+1)
			r.emit(ind, "})")
			r.prog(p.k, tid, ind)
			return
		}
		switch p.arg {
		case "each", "map", "filter":
			r.emit(ind, "[1]."+p.arg+"(func(v) {")
		case "call":
			r.emit(ind, "call(func() {")
		case "sorted":
			r.emit(ind, "sorted([2, 1], func(a, b) {")
		case "try":
			r.emit(ind, "try(func() {")
		}
		r.prog(p.body, tid, ind+1)
		r.emit(ind, "})")
		r.prog(p.k, tid, ind)
	case "G":
		// a `go` statement that ends the main code is followed by one more instruction (a
		// poll the shape does not have); there the call form is used
		last := tid == 0 && ind == 0 && p.k.kind == "D"
		if r.fl("g", 2) == 0 && !last {
			r.emit(ind, "go func() {")
			r.prog(p.body, p.id, ind+1)
			r.emit(ind, "}()")
		} else {
			r.emit(ind, "spawn(func() {")
			r.prog(p.body, p.id, ind+1)
			r.emit(ind, "})")
		}
		r.prog(p.k, tid, ind)
	}
}

// ---- generators ----

var c06Prims = []string{"recv", "send", "next", "sleep", "wait"}
var c06Wraps = []string{"each", "map", "filter", "call", "sorted", "try"}

// c06Tail: what follows a blocking primitive (runs only once the context has fired).
func c06Tail(r *RNG, depth, budget int) *c06Prog {
	switch r.Intn(8) {
	case 0, 1, 2:
		return c06Done
	case 3:
		return c06C(c06Done)
	case 4:
		return c06C(c06C(c06S()))
	case 5:
		return c06S()
	case 6:
		if budget > 0 {
			return c06B(Pick(r, c06Prims), c06Tail(r, depth, budget-1))
		}
		return c06Done
	default:
		if depth < 3 && budget > 0 {
			return c06G(c06Thread(r, depth+1, budget-1, true), c06Tail(r, depth, budget-1))
		}
		return c06C(c06Done)
	}
}

// c06Park: a parking action (never ends by itself), possibly inside callbacks.
func c06Park(r *RNG, depth, budget int) *c06Prog {
	var p *c06Prog
	if r.Chance(45) {
		p = c06S()
	} else {
		p = c06B(Pick(r, c06Prims), c06Tail(r, depth, budget))
	}
	for n := 0; n < 2 && r.Chance(40); n++ {
		p = c06W(Pick(r, c06Wraps), p, c06Tail(r, depth, budget-1))
	}
	return p
}

// c06Thread: prefix (computes, spawns, finished callbacks) then a parking action or the end.
func c06Thread(r *RNG, depth, budget int, mayEnd bool) *c06Prog {
	var pre []func(*c06Prog) *c06Prog
	n := r.Intn(3)
	for i := 0; i < n; i++ {
		switch r.Intn(4) {
		case 0, 1:
			pre = append(pre, c06C)
		case 2:
			if depth < 3 && budget > 0 {
				b := c06Thread(r, depth+1, budget-1, true)
				pre = append(pre, func(k *c06Prog) *c06Prog { return c06G(b, k) })
			}
		default:
			w := Pick(r, c06Wraps)
			var b *c06Prog = c06C(c06Done)
			if depth < 3 && budget > 0 && r.Chance(40) {
				b = c06G(c06Thread(r, depth+1, budget-1, true), c06Done)
			}
			pre = append(pre, func(k *c06Prog) *c06Prog { return c06W(w, b, k) })
		}
	}
	var end *c06Prog
	if mayEnd && r.Chance(20) {
		end = c06Done
	} else {
		end = c06Park(r, depth, budget)
	}
	for i := len(pre) - 1; i >= 0; i-- {
		end = pre[i](end)
	}
	return end
}

// c06Systematic: parking action × callback wrapper × spawn depth (the parked action sits in
// a thread nested `depth` deep; every ancestor parks as well).
func c06Systematic(r *RNG) []*c06Prog {
	var parks []*c06Prog
	parks = append(parks, c06S())
	for _, p := range c06Prims {
		parks = append(parks, c06B(p, c06Done), c06B(p, c06C(c06Done)))
	}
	var out []*c06Prog
	for _, park := range parks {
		for wi := -1; wi < len(c06Wraps); wi++ {
			for depth := 0; depth <= 3; depth++ {
				p := park
				if wi >= 0 {
					p = c06W(c06Wraps[wi], park, c06Done)
				}
				for d := depth; d > 0; d-- {
					var anc *c06Prog
					if r.Bool() {
						anc = c06S()
					} else {
						anc = c06B(Pick(r, c06Prims), c06Done)
					}
					p = c06G(p, anc)
				}
				out = append(out, p)
			}
		}
	}
	return out
}

// c06Term: a stage that ends by itself (an earlier evaluation on the VM).  With spawns its
// children may park (they are observed like any other thread); without, it is pure code.
func c06Term(r *RNG, spawns bool) *c06Prog {
	end := c06Done
	n := 1 + r.Intn(3)
	for i := 0; i < n; i++ {
		switch r.Intn(4) {
		case 0, 1:
			end = c06C(end)
		case 2:
			end = c06W(Pick(r, c06Wraps), c06C(c06Done), end)
		default:
			if spawns {
				end = c06G(c06Thread(r, 1, 1, true), end)
			} else {
				end = c06C(end)
			}
		}
	}
	return end
}

// ---- host-provided builtins calling script functions back with derived contexts ----

// c06ComputeOnly / c06Wf mirror Risor.C06.computeOnly / wf: under a detached callee context
// only computation, loops and the callbacks of host builtins, each, call and try are modelled.
func c06ComputeOnly(p *c06Prog) bool {
	switch p.kind {
	case "D", "S":
		return true
	case "C":
		return c06ComputeOnly(p.k)
	case "W":
		switch p.arg {
		case "hf", "hd", "each", "call", "try":
			return c06ComputeOnly(p.body) && c06ComputeOnly(p.k)
		}
	}
	return false
}

func c06Wf(p *c06Prog) bool {
	hasDefer, hasDetached := false, false
	p.walk(func(q *c06Prog, _ int) {
		hasDefer = hasDefer || q.kind == "E"
		hasDetached = hasDetached || (q.kind == "W" && q.arg == "hd")
	}, 0)
	return c06WfIn(p, false) && !(hasDefer && hasDetached)
}

// c06WfIn mirrors Risor.C06.wfIn: inFn = the code is the body of a function (callback, script
// call, deferred closure); a defer statement is only accepted there.
func c06WfIn(p *c06Prog, inFn bool) bool {
	switch p.kind {
	case "D", "S":
		return true
	case "C", "B":
		return c06WfIn(p.k, inFn)
	case "W":
		if p.arg == "hd" && !c06ComputeOnly(p.body) {
			return false
		}
		// the top-level code of a module is not a function body
		return c06WfIn(p.body, p.arg != "imp") && c06WfIn(p.k, inFn)
	case "G":
		return c06WfIn(p.body, false) && c06WfIn(p.k, inFn)
	case "E":
		return inFn && c06WfIn(p.body, true) && c06WfIn(p.k, inFn)
	}
	return false
}

// c06HostBody: code that runs inside a host callback; det = an enclosing callee context is
// detached.  Long loops, nested calls (the recursion flavour of S), finite callbacks, further
// callbacks (host builtins with any context kind, and the builtins of the repository).
func c06HostBody(r *RNG, depth int, det bool) *c06Prog {
	switch r.Intn(7) {
	case 0, 1, 2:
		return c06S()
	case 3:
		return c06C(c06S())
	case 4:
		return c06C(c06Done)
	}
	if depth >= 3 {
		return c06S()
	}
	pool := []string{"hf", "hd", "hd", "each", "map", "filter", "call", "sorted", "try"}
	if det {
		pool = []string{"hf", "hd", "each", "call", "try"}
	}
	w := Pick(r, pool)
	return c06W(w, c06HostBody(r, depth+1, det || w == "hd"), c06HostTail(r, det))
}

func c06HostTail(r *RNG, det bool) *c06Prog {
	if det {
		return Pick(r, []*c06Prog{c06Done, c06Done, c06C(c06Done), c06S(), c06C(c06S())})
	}
	return c06Tail(r, 1, 1)
}

// c06HostRandom: a host callback somewhere in a thread: at the top, after a prefix, inside
// one of the repository's callback builtins, or inside a spawned function.
func c06HostRandom(r *RNG) *c06Prog {
	w := Pick(r, []string{"hf", "hd", "hd"})
	p := c06W(w, c06HostBody(r, 1, w == "hd"), c06HostTail(r, false))
	switch r.Intn(6) {
	case 0:
		p = c06C(p)
	case 1:
		p = c06W(Pick(r, c06Wraps), p, c06HostTail(r, false))
	case 2:
		p = c06G(p, c06Park(r, 1, 1))
	case 3:
		p = c06G(c06Thread(r, 1, 1, true), p)
	}
	return p
}

// c06HostSystematic: callee context kind x what the callback does x what follows the builtin x
// what encloses it.
func c06HostSystematic() []*c06Prog {
	bodies := []func() *c06Prog{
		func() *c06Prog { return c06S() },
		func() *c06Prog { return c06C(c06S()) },
		func() *c06Prog { return c06C(c06Done) },
		func() *c06Prog { return c06W("each", c06S(), c06Done) },
		func() *c06Prog { return c06W("call", c06S(), c06C(c06Done)) },
		func() *c06Prog { return c06W("try", c06S(), c06Done) },
		func() *c06Prog { return c06W("hf", c06S(), c06Done) },
		func() *c06Prog { return c06W("hd", c06S(), c06Done) },
		func() *c06Prog { return c06W("each", c06W("hd", c06S(), c06Done), c06Done) },
		func() *c06Prog { return c06W("sorted", c06S(), c06Done) },
	}
	conts := []func() *c06Prog{
		func() *c06Prog { return c06Done },
		func() *c06Prog { return c06C(c06Done) },
		func() *c06Prog { return c06S() },
		func() *c06Prog { return c06B("recv", c06Done) },
		func() *c06Prog { return c06B("sleep", c06Done) },
	}
	outers := []func(*c06Prog) *c06Prog{
		func(p *c06Prog) *c06Prog { return p },
		func(p *c06Prog) *c06Prog { return c06W("each", p, c06Done) },
		func(p *c06Prog) *c06Prog { return c06W("sorted", p, c06S()) },
		func(p *c06Prog) *c06Prog { return c06W("try", p, c06S()) },
		func(p *c06Prog) *c06Prog { return c06W("hf", p, c06S()) },
		func(p *c06Prog) *c06Prog { return c06W("hd", p, c06S()) },
		func(p *c06Prog) *c06Prog { return c06G(p, c06S()) },
	}
	var out []*c06Prog
	for _, w := range []string{"hf", "hd"} {
		for _, body := range bodies {
			for _, cont := range conts {
				for _, outer := range outers {
					p := outer(c06W(w, body(), cont()))
					if c06Wf(p) {
						out = append(out, p)
					}
				}
			}
		}
	}
	return out
}

// ---- deferred script closures on the frame stack when the cancellation arrives ----

// what a deferred closure does (it runs when its frame is left, also by the halt test)
var c06DeferredBodies = []struct {
	name string
	mk   func() *c06Prog
}{
	{"unbounded loop", func() *c06Prog { return c06S() }},
	{"compute then unbounded loop", func() *c06Prog { return c06C(c06S()) }},
	{"wait on a channel nobody feeds", func() *c06Prog { return c06B("recv", c06Done) }},
	{"failed wait then loop", func() *c06Prog { return c06W("try", c06B("recv", c06Done), c06S()) }},
	{"sleep then loop", func() *c06Prog { return c06B("sleep", c06S()) }},
	{"retry: try(loop) then loop", func() *c06Prog { return c06W("try", c06S(), c06S()) }},
	{"loop inside each", func() *c06Prog { return c06W("each", c06S(), c06Done) }},
	{"terminating cleanup", func() *c06Prog { return c06C(c06Done) }},
	{"script call holding a deferred loop of its own", func() *c06Prog { return c06F(c06E(c06S(), c06C(c06Done)), c06Done) }},
}

// what the code is doing when the cancellation arrives
var c06DeferParks = []struct {
	name string
	mk   func() *c06Prog
}{
	{"loop", func() *c06Prog { return c06S() }},
	{"compute, loop", func() *c06Prog { return c06C(c06S()) }},
	{"receive", func() *c06Prog { return c06B("recv", c06Done) }},
	{"sleep", func() *c06Prog { return c06B("sleep", c06Done) }},
	{"wait", func() *c06Prog { return c06B("wait", c06C(c06Done)) }},
	{"send then loop", func() *c06Prog { return c06B("send", c06S()) }},
}

// where the frame that holds the deferred closure d sits relative to the parked code
var c06DeferHolders = []struct {
	name string
	mk   func(r *RNG, d func() *c06Prog, park, k *c06Prog) *c06Prog
}{
	{"the function itself", func(r *RNG, d func() *c06Prog, park, k *c06Prog) *c06Prog { return c06F(c06E(d(), park), k) }},
	{"a caller (script call inside)", func(r *RNG, d func() *c06Prog, park, k *c06Prog) *c06Prog {
		return c06F(c06E(d(), c06F(park, c06Done)), k)
	}},
	{"caller and callee", func(r *RNG, d func() *c06Prog, park, k *c06Prog) *c06Prog {
		return c06F(c06E(d(), c06C(c06F(c06E(d(), park), c06Done))), k)
	}},
	{"the callback of a builtin", func(r *RNG, d func() *c06Prog, park, k *c06Prog) *c06Prog {
		return c06W(Pick(r, []string{"each", "map", "filter", "sorted", "call", "try", "hf"}), c06E(d(), park), k)
	}},
	{"the caller of a builtin whose callback is parked", func(r *RNG, d func() *c06Prog, park, k *c06Prog) *c06Prog {
		return c06F(c06E(d(), c06W(Pick(r, []string{"each", "map", "filter", "sorted", "call", "try", "hf"}), park, c06Done)), k)
	}},
	{"two deferred closures", func(r *RNG, d func() *c06Prog, park, k *c06Prog) *c06Prog {
		return c06F(c06E(d(), c06C(c06E(Pick(r, c06DeferredBodies).mk(), park))), k)
	}},
	{"the deferred closure is what is running (frame returned)", func(r *RNG, d func() *c06Prog, park, k *c06Prog) *c06Prog {
		return c06F(c06E(park, c06E(d(), c06C(c06Done))), k)
	}},
	{"inside a deferred closure that is running", func(r *RNG, d func() *c06Prog, park, k *c06Prog) *c06Prog {
		return c06F(c06E(c06F(c06E(d(), park), c06Done), c06Done), k)
	}},
	{"a spawned function", func(r *RNG, d func() *c06Prog, park, k *c06Prog) *c06Prog {
		return c06G(c06F(c06E(d(), park), c06Done), k.then(c06S()))
	}},
}

type c06DeferCase struct {
	prog                *c06Prog
	holder, body, parks string
}

func c06DeferSystematic(r *RNG) []c06DeferCase {
	conts := []func() *c06Prog{
		func() *c06Prog { return c06Done },
		func() *c06Prog { return c06C(c06Done) },
		func() *c06Prog { return c06S() },
	}
	var out []c06DeferCase
	for _, h := range c06DeferHolders {
		for _, d := range c06DeferredBodies {
			for _, pk := range c06DeferParks {
				p := h.mk(r, d.mk, pk.mk(), Pick(r, conts)())
				if c06Wf(p) {
					out = append(out, c06DeferCase{p, h.name, d.name, pk.name})
				}
			}
		}
	}
	return out
}

// c06DeferRandom: function frames nested up to 4 deep (script calls and builtin callbacks), each
// registering 0..2 deferred closures before it goes on; the innermost parks.
func c06DeferRandom(r *RNG, depth int) *c06Prog {
	var inner *c06Prog
	if depth >= 3 || r.Chance(35) {
		inner = Pick(r, c06DeferParks).mk()
	} else {
		inner = c06DeferRandom(r, depth+1)
		if r.Chance(30) {
			inner = c06C(inner)
		}
	}
	for n := r.Intn(3); n > 0; n-- {
		d := Pick(r, c06DeferredBodies).mk()
		if r.Chance(60) {
			d = c06S()
		}
		inner = c06E(d, inner)
		if r.Chance(30) {
			inner = c06C(inner)
		}
	}
	k := Pick(r, []*c06Prog{c06Done, c06Done, c06C(c06Done), c06S()})
	if r.Chance(55) {
		return c06F(inner, k)
	}
	return c06W(Pick(r, []string{"each", "map", "filter", "sorted", "call", "try", "hf"}), inner, k)
}

// c06EvalDeferred: the model's verdict for the main thread at the instant of the cancellation
// (`C06 deferred`: must stop / never stops, what its frames hold) next to the ordinary
// evaluation of the case; the verdict is compared with what the real evaluation did.
func c06EvalDeferred(e *Env, c c06Case, holder, body, parks string) {
	at := c.stages[c.fire].prog
	instant := c.instant
	n := 0
	q := c06Clone(at)
	q.number(&n)
	rep := e.O.Ask("C06", "deferred", instant, q.String())
	f := strings.Split(rep, "\t")
	if len(f) != 5 || f[0] != "ok" {
		e.R.Mismatch(q.String(), "-", rep, "oracle rejected the shape (deferred)")
		return
	}
	stops := f[1] == "stops=1"
	pending, loops := strings.TrimPrefix(f[3], "pending="), strings.TrimPrefix(f[4], "loops=")
	c.deferInfo = fmt.Sprintf("the frames the main thread was inside of when the context fired (%s) held %s deferred script closure(s), %s of them with an unbounded loop; the model (Risor.C06.halt_stops_deferred_calls) says the raised halt flag stops each of them at its first poll: the evaluation must end (stops=%v)",
		strings.TrimPrefix(f[2], "frames=")+" frame(s)", pending, loops, stops)
	e.R.H("deferred_holder", holder)
	e.R.H("deferred_closure_does", body)
	e.R.H("deferred_cancelled_while", parks+" ("+instant+")")
	e.R.H("deferred_pending_at_cancellation", pending)
	e.R.H("deferred_pending_with_unbounded_loop", loops)
	e.R.H("deferred_model_verdict", map[bool]string{true: "must stop", false: "never stops"}[stops])
	obs := c06Eval(e, c)
	if obs == nil || obs.unparked != "" {
		return
	}
	returned := obs.hangAt != c.fire // (a later evaluation that hangs is judged by c06Eval)
	e.R.H("deferred_real_evaluation", map[bool]string{true: "returned", false: "did not return"}[returned])
	if stops != returned {
		key := c06Key(c, obs.flav)
		e.R.Mismatch(key+" :: "+strings.ReplaceAll(strings.Join(obs.srcs, " ;; "), "\n", " ⏎ "),
			map[bool]string{true: "the evaluation returned", false: "the evaluation did not return after the cancellation"}[returned],
			rep, "deferred closures: the model's verdict for the main thread (must stop / never stops) against the real evaluation")
	}
}

// ---- imports of source modules: the top-level code of a module runs under the importer's context ----

// c06ImportSplit turns a stretch of the code that starts at q into the top-level code of a
// module: the first j steps of q (along its continuation chain) become the module body, the
// import statement stands in their place, the rest follows it.
func c06ImportSplit(r *RNG, q *c06Prog) *c06Prog {
	var chain []*c06Prog
	for n := q; ; n = n.k {
		chain = append(chain, n)
		if n.kind == "D" || n.kind == "S" {
			break
		}
	}
	j := 1 + r.Intn(len(chain))
	if r.Chance(50) {
		j = len(chain) // everything that is left runs as the module body (it parks in there)
	}
	var body, rest *c06Prog = c06Done, c06Done
	if j < len(chain) {
		rest = chain[j]
	}
	for i := j - 1; i >= 0; i-- {
		n := *chain[i]
		if n.kind == "D" || n.kind == "S" {
			body = &n
			continue
		}
		n.k = body
		body = &n
	}
	return c06W("imp", body, rest)
}

// c06AddImports: with probability pct at every point of the shape (main code, callbacks, script
// calls, deferred closures, spawned functions, module bodies), what follows becomes — in part or
// as a whole — the top-level code of a module that is imported there.  Nothing is imported under
// a detached callee context or directly where the model has no import (c06Wf decides).
func c06AddImports(r *RNG, p *c06Prog, pct int, det bool) *c06Prog {
	if p == nil {
		return nil
	}
	q := *p
	switch q.kind {
	case "C", "B":
		q.k = c06AddImports(r, q.k, pct, det)
	case "W":
		q.body = c06AddImports(r, q.body, pct, det || q.arg == "hd")
		q.k = c06AddImports(r, q.k, pct, det)
	case "E":
		q.body = c06AddImports(r, q.body, pct, det)
		q.k = c06AddImports(r, q.k, pct, det)
	case "G":
		q.body = c06AddImports(r, q.body, pct, det)
		q.k = c06AddImports(r, q.k, pct, det)
	}
	if !det && q.kind != "D" && q.kind != "E" && r.Chance(pct) {
		return c06ImportSplit(r, &q)
	}
	return &q
}

func c06HasImport(p *c06Prog) bool {
	has := false
	p.walk(func(q *c06Prog, _ int) { has = has || (q.kind == "W" && q.arg == "imp") }, 0)
	return has
}

// what the top-level code of the imported module does
var c06ModuleBodies = []struct {
	name string
	mk   func(r *RNG) *c06Prog
}{
	{"blocks in a receive", func(r *RNG) *c06Prog { return c06B("recv", c06Done) }},
	{"blocks in a send, then loops", func(r *RNG) *c06Prog { return c06B("send", c06S()) }},
	{"sleeps", func(r *RNG) *c06Prog { return c06B("sleep", c06C(c06Done)) }},
	{"waits for a thread", func(r *RNG) *c06Prog { return c06B("wait", c06Done) }},
	{"ranges over a channel", func(r *RNG) *c06Prog { return c06B("next", c06C(c06Done)) }},
	{"loops", func(r *RNG) *c06Prog { return c06C(c06S()) }},
	{"starts a goroutine that blocks, then blocks itself", func(r *RNG) *c06Prog {
		return c06G(c06B(Pick(r, c06Prims), c06Done), c06B(Pick(r, []string{"recv", "send", "sleep", "wait"}), c06Done))
	}},
	{"starts a goroutine whose channel operations never wait, and returns", func(r *RNG) *c06Prog {
		return c06G(&c06Prog{kind: "B", arg: Pick(r, []string{"recv", "send"}), form: 3 + r.Intn(2), k: c06Done}, c06C(c06Done))
	}},
	{"starts goroutines two deep (worker pool), and returns", func(r *RNG) *c06Prog {
		return c06G(c06G(&c06Prog{kind: "B", arg: "recv", form: 3, k: c06Done}, c06B(Pick(r, c06Prims), c06Done)), c06G(c06B("sleep", c06B("recv", c06Done)), c06Done))
	}},
	{"starts a goroutine inside a callback, then loops in a callback", func(r *RNG) *c06Prog {
		return c06W(Pick(r, c06Wraps), c06G(c06B(Pick(r, c06Prims), c06Done), c06Done), c06W(Pick(r, c06Wraps), c06S(), c06Done))
	}},
	{"imports a further module that blocks", func(r *RNG) *c06Prog {
		return c06C(c06W("imp", c06G(c06B("recv", c06Done), c06B(Pick(r, c06Prims), c06Done)), c06Done))
	}},
	{"calls a function that holds a deferred loop and blocks", func(r *RNG) *c06Prog {
		return c06F(c06E(c06S(), c06B(Pick(r, []string{"recv", "send", "wait"}), c06Done)), c06Done)
	}},
	{"defines things and returns", func(r *RNG) *c06Prog { return c06C(c06C(c06Done)) }},
}

// where the import statement sits
var c06ImportSites = []struct {
	name string
	mk   func(r *RNG, imp *c06Prog) *c06Prog
}{
	{"main code", func(r *RNG, imp *c06Prog) *c06Prog { return imp }},
	{"main code, after a prefix", func(r *RNG, imp *c06Prog) *c06Prog { return c06C(imp) }},
	{"a function", func(r *RNG, imp *c06Prog) *c06Prog { return c06F(imp, c06S()) }},
	{"the callback of a builtin", func(r *RNG, imp *c06Prog) *c06Prog { return c06W(Pick(r, c06Wraps), imp, c06S()) }},
	{"the callback of a host builtin (context cancelled with the run's)", func(r *RNG, imp *c06Prog) *c06Prog { return c06W("hf", imp, c06S()) }},
	{"a spawned function", func(r *RNG, imp *c06Prog) *c06Prog { return c06G(imp, c06S()) }},
	{"a function spawned by a spawned function", func(r *RNG, imp *c06Prog) *c06Prog {
		return c06G(c06G(imp, c06B(Pick(r, c06Prims), c06Done)), c06B(Pick(r, c06Prims), c06S()))
	}},
	{"the top-level code of another module", func(r *RNG, imp *c06Prog) *c06Prog { return c06W("imp", c06C(imp), c06S()) }},
	{"a deferred closure", func(r *RNG, imp *c06Prog) *c06Prog { return c06F(c06E(imp, c06C(c06Done)), c06S()) }},
	// reached only AFTER the cancellation: the importer parses the module with the same context and
	// fails with its error — no module body starts any more, also on a clone VM without a watcher
	{"a spawned function, after a sleep / a range over a channel that the cancellation ends", func(r *RNG, imp *c06Prog) *c06Prog {
		return c06G(c06B(Pick(r, []string{"sleep", "next"}), c06C(imp)), c06S())
	}},
	{"main code, after a failed wait that try() swallowed", func(r *RNG, imp *c06Prog) *c06Prog {
		return c06W("try", c06B(Pick(r, []string{"recv", "send", "wait"}), c06Done), imp)
	}},
	{"a function that holds a deferred loop", func(r *RNG, imp *c06Prog) *c06Prog { return c06F(c06E(c06S(), imp), c06S()) }},
}

// what follows the import statement
var c06ImportConts = []func() *c06Prog{
	func() *c06Prog { return c06Done },
	func() *c06Prog { return c06C(c06Done) },
	func() *c06Prog { return c06S() },
	func() *c06Prog { return c06C(c06S()) },
	func() *c06Prog { return c06B("recv", c06Done) },
}

type c06ImportCase struct {
	prog       *c06Prog
	site, body string
}

func c06ImportSystematic(r *RNG) []c06ImportCase {
	var out []c06ImportCase
	for _, site := range c06ImportSites {
		for _, body := range c06ModuleBodies {
			p := site.mk(r, c06W("imp", body.mk(r), Pick(r, c06ImportConts)()))
			if c06Wf(p) {
				out = append(out, c06ImportCase{p, site.name, body.name})
			}
		}
	}
	return out
}

// c06EvalImported: what the case has to do with the context its module bodies are handed
// (`C06 imported`) next to the ordinary evaluation; the model's verdict for the main thread
// (must stop / never stops) is compared with what the real evaluation did.
func c06EvalImported(e *Env, c c06Case, site, body string) {
	at := c.stages[c.fire].prog
	n := 0
	q := c06Clone(at)
	q.number(&n)
	// thread ids of the stage at which the context fires are numbered after those of the earlier stages
	base := 0
	for i := 0; i < c.fire; i++ {
		c06Clone(c.stages[i].prog).number(&base)
	}
	rep := e.O.Ask("C06", "imported", c.instant, q.String())
	f := strings.Split(rep, "\t")
	if len(f) != 7 || f[0] != "ok" {
		e.R.Mismatch(q.String(), "-", rep, "oracle rejected the shape (imported)")
		return
	}
	val := func(i int, name string) string { return strings.TrimPrefix(f[i], name+"=") }
	inImport, stops, stopsDet := val(2, "main_in_import") == "1", val(3, "stops") == "1", val(4, "stops_detached") == "1"
	shift := func(ids string) string {
		if ids == "-" {
			return "none"
		}
		var out []string
		for _, s := range strings.Split(ids, ",") {
			if v, err := strconv.Atoi(s); err == nil {
				out = append(out, strconv.Itoa(v+base))
			}
		}
		return strings.Join(out, ",")
	}
	inherit, never := shift(val(5, "inherit")), shift(val(6, "never_detached"))
	sensitive := (stops && !stopsDet) || never != "none"
	c.importInfo = fmt.Sprintf("the case imports source modules: when the context fired the main thread was %s the top-level code of a module; thread(s) started by module code (they inherit the context the module body was handed): %s; "+
		"the model (Risor.C06.import_body_blocked_unblocks, C06_partial_import; tie import_body_runs_under_importers_ctx_tie) says a module body runs under the importer's own context: main must stop=%v; "+
		"under an importModule that hands the body a context which is not cancelled with the run's (Risor.C06.importDetached_not_stopped, inherited_ctx_never_fires_never_stops) main would stop=%v and thread(s) %s would never end",
		map[bool]string{true: "inside", false: "outside"}[inImport], inherit, stops, stopsDet, never)
	e.R.H("import_site", site)
	e.R.H("import_module_body", body)
	e.R.H("import_main_thread_at_cancellation", map[bool]string{true: "inside the top-level code of a module", false: "outside"}[inImport]+" ("+c.instant+")")
	e.R.H("import_threads_inheriting_a_module_body's_context", map[bool]string{true: "none", false: ">=1"}[inherit == "none"])
	e.R.H("import_outcome_depends_on_the_context_handed_to_the_module_body", map[bool]string{true: "yes", false: "no"}[sensitive])
	e.R.H("import_model_verdict", map[bool]string{true: "must stop", false: "never stops"}[stops])
	obs := c06Eval(e, c)
	if obs == nil || obs.unparked != "" {
		return
	}
	// the verdict is about the evaluation during which the context fired; a LATER evaluation that
	// does not return (RunCode with the fired context: the recorded reset race) is judged by c06Eval
	returned := obs.hangAt != c.fire
	e.R.H("import_real_evaluation", map[bool]string{true: "returned", false: "did not return"}[returned])
	if stops != returned {
		key := c06Key(c, obs.flav)
		e.R.Mismatch(key+" :: "+strings.ReplaceAll(strings.Join(obs.srcs, " ;; "), "\n", " ⏎ ")+" ;; "+obs.mods,
			map[bool]string{true: "the evaluation returned", false: "the evaluation did not return after the cancellation"}[returned],
			rep, "imports: the model's verdict for the main thread (must stop / never stops) against the real evaluation")
	}
}

// ---- one case on the real code ----

// One evaluation on the VM of the case.
type c06Stage struct {
	prog  *c06Prog
	entry string // run (vm.New + Run) | call (vm.Call of a function the loaded code defined) | runcode (vm.RunCode)
	own   bool   // evaluated with another context that stays alive, not the context under test
}

// A case: the stages are evaluated in order on ONE VM; the context under test fires at
// stage `fire`: before that stage is started (pre; for fire > 0 that is while the VM is
// idle) or while all its threads are parked / after its main code returned (later).  Stages
// before `fire` end by themselves; stages after it are started with the fired context.
type c06Case struct {
	stages   []c06Stage
	fire     int
	instant  string // pre | later
	ctxKind  string // cancel | deadline | far | child | parent
	delayMs  int
	flavSeed uint64
	// set for the deferred-closure cases: what the model says about the frames at the instant of
	// the cancellation (added to the detail of a Spec violation)
	deferInfo string
	// set for the import cases: what the model says about the context the module bodies of the case
	// are handed (added to the detail of a Spec violation)
	importInfo string
}

func c06Single(p *c06Prog, instant, kind string, delay int, flavSeed uint64) c06Case {
	return c06Case{stages: []c06Stage{{prog: p, entry: "run"}}, instant: instant, ctxKind: kind, delayMs: delay, flavSeed: flavSeed}
}

// what the model says about one stage
type c06Model struct {
	instant string
	parked  map[int]string
	nonterm bool
	outs    []string
	lost    []string // outcomes of the RunCode reset race (proposed finding), nil if impossible
	guards  string
	lo, hi  int // thread ids lo < id <= hi belong to this stage
}

type c06Obs struct {
	cls      []string // per stage: nil | ctx | msg | other | hang | - (not evaluated)
	errText  []string
	ticking  []int
	hangAt   int
	unparked string
	latency  time.Duration
	stuckGor int
	srcs     []string
	flav     string
	mods     string // the source modules of the case: "module mN: <top-level code>" ...
}

func c06ParseReply(rep string) (m c06Model, ok bool) {
	f := strings.Split(rep, "\t")
	if len(f) != 6 || f[0] != "ok" || len(strings.TrimPrefix(f[4], "guards=")) != 4 {
		return m, false
	}
	m.parked = map[int]string{}
	for _, kv := range strings.Split(strings.TrimPrefix(f[1], "parked="), ",") {
		a := strings.SplitN(kv, ":", 2)
		if len(a) == 2 {
			id, _ := strconv.Atoi(a[0])
			m.parked[id] = a[1]
		}
	}
	m.nonterm = f[2] == "nonterm=1"
	m.outs = strings.Split(strings.TrimPrefix(f[3], "outs="), ";")
	m.guards = strings.TrimPrefix(f[4], "guards=")
	if l := strings.TrimPrefix(f[5], "lost="); l != "-" {
		m.lost = strings.Split(l, ";")
	}
	return m, true
}

// once a few cases have hung / left goroutines behind the verdict is established; the
// remaining cases wait less so that a broken tree does not cost minutes per case
var c06Hangs, c06Stucks int

type c06CtxKey struct{}

// c06Context builds the context under test: `fire` makes it fire (for deadline it waits for
// the deadline), `cleanup` releases everything.  far/child/parent carry a deadline that is
// far away (own, inherited from the parent, or on a wrapper) and fire through a cancel
// function: own, the child's, or the parent's.
func c06Context(kind string, expired bool) (ctx context.Context, fire func(), cleanup func()) {
	const far = 1000 * time.Hour
	const deadlineMs = 120
	switch kind {
	case "deadline":
		var cancel context.CancelFunc
		if expired {
			ctx, cancel = context.WithDeadline(context.Background(), time.Now().Add(-time.Second))
		} else {
			ctx, cancel = context.WithTimeout(context.Background(), deadlineMs*time.Millisecond)
		}
		return ctx, func() { <-ctx.Done() }, cancel
	case "far":
		c, cancel := context.WithTimeout(context.Background(), far)
		return c, cancel, cancel
	case "child":
		parent, pc := context.WithDeadline(context.Background(), time.Now().Add(far))
		c, cancel := context.WithCancel(parent)
		return c, cancel, func() { cancel(); pc() }
	case "parent":
		parent, pc := context.WithCancel(context.Background())
		mid, mc := context.WithTimeout(parent, far)
		return context.WithValue(mid, c06CtxKey{}, 1), pc, func() { pc(); mc() }
	default:
		c, cancel := context.WithCancel(context.Background())
		return c, cancel, cancel
	}
}

func c06Run(c c06Case, nThreads int, models []c06Model, accept func([]string, []int) bool) (obs c06Obs) {
	nSt := len(c.stages)
	obs.cls = make([]string, nSt)
	obs.errText = make([]string, nSt)
	for i := range obs.cls {
		obs.cls[i] = "-"
	}
	obs.hangAt = -1

	// rendering: a call stage is a function defined (and handed to the host through reg) by
	// the code of the closest run/runcode stage before it
	rd := &c06Render{rng: NewRNG(c.flavSeed)}
	obs.srcs = make([]string, nSt)
	bodies := make([][]string, nSt)
	for i, st := range c.stages {
		rd.lines = nil
		// "the same import again is served from vm.modules" holds inside one evaluation only: a RunCode
		// resets vm.modules, so an import repeated at the start of the NEXT stage would run the module's
		// top-level code (and start its threads, under that stage's context) a second time
		rd.lastImport = ""
		if st.entry == "call" {
			rd.emit(0, "func stage"+strconv.Itoa(i)+"() {")
			rd.prog(st.prog, 0, 1)
			rd.emit(0, "}")
			rd.emit(0, "reg("+strconv.Itoa(i)+", stage"+strconv.Itoa(i)+")")
		} else {
			rd.prog(st.prog, 0, 0)
		}
		bodies[i] = rd.lines
	}
	for i := range c.stages {
		if c.stages[i].entry == "call" {
			continue
		}
		var lines []string
		for j := i + 1; j < nSt && c.stages[j].entry == "call"; j++ {
			lines = append(lines, bodies[j]...)
		}
		lines = append(lines, bodies[i]...)
		obs.srcs[i] = strings.Join(lines, "\n")
	}
	for i := range c.stages {
		if c.stages[i].entry == "call" {
			obs.srcs[i] = "stage" + strconv.Itoa(i) + "()"
		}
	}
	obs.flav = strings.Join(rd.flav, "")

	ticks := make([]int64, nThreads+1)
	marks := make([]int64, nThreads+1)
	var stop int32
	release := make(chan struct{})
	idx := func(args []object.Object) int {
		if len(args) == 1 {
			if i, ok := args[0].(*object.Int); ok && i.Value() >= 0 && int(i.Value()) <= nThreads {
				return int(i.Value())
			}
		}
		return 0
	}
	tick := object.NewBuiltin("tick", func(ctx context.Context, args ...object.Object) object.Object {
		atomic.AddInt64(&ticks[idx(args)], 1)
		if atomic.LoadInt32(&stop) == 1 {
			return object.Errorf("host stop")
		}
		return object.Nil
	})
	mark := object.NewBuiltin("mark", func(ctx context.Context, args ...object.Object) object.Object {
		atomic.AddInt64(&marks[idx(args)], 1)
		return object.Nil
	})
	hold := object.NewBuiltin("hold", func(ctx context.Context, args ...object.Object) object.Object {
		<-release // host code, not script code: ends when the harness says so
		return object.Nil
	})
	// hcb(kind, fn): a host-provided builtin that runs a script function back on the VM
	// through the public callback API, with a context derived from the one it was called with
	hcb := object.NewBuiltin("hcb", func(ctx context.Context, args ...object.Object) object.Object {
		if len(args) != 2 {
			return object.Errorf("hcb: 2 arguments")
		}
		kind, ok1 := args[0].(*object.Int)
		fn, ok2 := args[1].(*object.Function)
		callFunc, ok3 := object.GetCallFunc(ctx)
		if !ok1 || !ok2 || !ok3 {
			return object.Errorf("hcb: bad arguments / no call function in the context")
		}
		cctx := ctx
		switch kind.Value() {
		case 1:
			var cancel context.CancelFunc
			cctx, cancel = context.WithCancel(ctx)
			defer cancel()
		case 2:
			cctx = context.WithValue(ctx, c06CtxKey{}, 2)
		case 3:
			cctx = context.WithoutCancel(ctx)
		case 4:
			cctx = context.Background()
			if o, ok := ros.GetOS(ctx); ok {
				cctx = ros.WithOS(cctx, o)
			}
			cctx = object.WithCallFunc(cctx, callFunc)
			if f, ok := object.GetSpawnFunc(ctx); ok {
				cctx = object.WithSpawnFunc(cctx, f)
			}
			if f, ok := object.GetCloneCallFunc(ctx); ok {
				cctx = object.WithCloneCallFunc(cctx, f)
			}
		}
		res, err := callFunc(cctx, fn, nil)
		if err != nil {
			return object.NewError(err) // the error value itself is handed on
		}
		if res == nil {
			return object.Nil
		}
		return res
	})
	fns := make([]*object.Function, nSt)
	reg := object.NewBuiltin("reg", func(ctx context.Context, args ...object.Object) object.Object {
		if len(args) == 2 {
			i, ok1 := args[0].(*object.Int)
			f, ok2 := args[1].(*object.Function)
			if ok1 && ok2 && i.Value() >= 0 && int(i.Value()) < nSt {
				fns[i.Value()] = f
			}
		}
		return object.Nil
	})

	cfgOpts := []risor.Option{risor.WithConcurrency(), risor.WithGlobals(map[string]any{"tick": tick, "mark": mark, "hold": hold, "reg": reg, "hcb": hcb})}
	if len(rd.modNames) > 0 {
		// the source modules of the case, in a scratch directory of their own, reached through the
		// local importer exactly as risor.Eval / the CLI set it up (risor.WithLocalImporter)
		dir, err := os.MkdirTemp("", "verif-c06-mod-")
		if err != nil {
			obs.cls[0], obs.errText[0] = "other", "harness: module directory: "+err.Error()
			return
		}
		defer os.RemoveAll(dir)
		var parts []string
		for _, name := range rd.modNames {
			if err := os.WriteFile(filepath.Join(dir, name+".risor"), []byte(rd.mods[name]), 0o644); err != nil {
				obs.cls[0], obs.errText[0] = "other", "harness: module file: "+err.Error()
				return
			}
			parts = append(parts, "module "+name+": "+strings.ReplaceAll(strings.TrimSpace(rd.mods[name]), "\n", " ⏎ "))
		}
		obs.mods = strings.Join(parts, " ;; ")
		cfgOpts = append(cfgOpts, risor.WithLocalImporter(dir))
	}
	cfg := risor.NewConfig(cfgOpts...)
	codes := make([]*compiler.Code, nSt)
	for i, st := range c.stages {
		if st.entry == "call" {
			continue
		}
		ast, err := parser.Parse(context.Background(), obs.srcs[i])
		if err != nil {
			obs.cls[i], obs.errText[i] = "other", "parse: "+err.Error()
			return
		}
		codes[i], err = compiler.Compile(ast, cfg.CompilerOpts()...)
		if err != nil {
			obs.cls[i], obs.errText[i] = "other", "compile: "+err.Error()
			return
		}
	}

	base := runtime.NumGoroutine()
	ctxS, fireS, cleanS := c06Context(c.ctxKind, c.fire == 0 && c.instant == "pre")
	ctxO, cancelO := context.WithCancel(context.Background())
	if c.fire == 0 && c.instant == "pre" {
		fireS()
	}
	machine := vm.New(codes[0], cfg.VMOpts()...)

	type result struct {
		err error
		at  time.Time
	}
	start := func(i int) chan result {
		ctx := ctxS
		if c.stages[i].own {
			ctx = ctxO
		}
		done := make(chan result, 1)
		go func() {
			var err error
			func() {
				defer func() {
					if r := recover(); r != nil {
						err = fmt.Errorf("PANIC: %v", r)
					}
				}()
				switch c.stages[i].entry {
				case "run":
					err = machine.Run(ctx)
				case "runcode":
					err = machine.RunCode(ctx, codes[i])
				default:
					if fns[i] == nil {
						err = fmt.Errorf("harness: function of stage %d was not registered", i)
					} else {
						_, err = machine.Call(ctx, fns[i], nil)
					}
				}
			}()
			done <- result{err, time.Now()}
		}()
		return done
	}
	classify := func(i int, err error) {
		ctx := ctxS
		if c.stages[i].own {
			ctx = ctxO
		}
		switch {
		case err == nil:
			obs.cls[i] = "nil"
		case ctx.Err() != nil && errors.Is(err, ctx.Err()):
			obs.cls[i] = "ctx"
		case ctx.Err() != nil && strings.Contains(err.Error(), ctx.Err().Error()):
			obs.cls[i] = "msg"
		case strings.HasPrefix(err.Error(), "panic: runtime error: index out of range [-1]"):
			// Run/Call recovered the Go panic of vm.pop() on an empty stack
			obs.cls[i] = "panic"
		default:
			obs.cls[i] = "other"
		}
		if err != nil {
			obs.errText[i] = fmt.Sprintf("%T %q", err, err.Error())
		}
	}
	hangLimit := func() time.Duration {
		if c06Hangs >= 3 {
			return 1500 * time.Millisecond
		}
		return 10 * time.Second
	}

	var pending chan result // the evaluation that has not returned
	var cancelAt time.Time
stages:
	for i := range c.stages {
		if i == c.fire && c.instant == "pre" && i > 0 {
			// the context fires while the VM is idle
			if c.ctxKind != "deadline" {
				time.Sleep(time.Duration(c.delayMs) * time.Millisecond)
			}
			fireS()
			if c.delayMs%2 == 0 {
				// usually the watchers of the earlier evaluations get the time to run and exit
				// before the context is supplied again; sometimes the next start races with them
				time.Sleep(2 * time.Millisecond)
			}
		}
		done := start(i)
		var res *result
		waitRes := func(limit time.Duration) bool {
			if res != nil {
				return true
			}
			select {
			case r := <-done:
				res = &r
				return true
			case <-time.After(limit):
				return false
			}
		}
		if i < c.fire || (i == c.fire && c.instant == "later") {
			// logical synchronisation: every thread the model parks has ticked / marked, a main
			// thread the model lets finish has returned
			parked := models[i].parked
			limit := time.Now().Add(5 * time.Second)
			for {
				missing := ""
				for id, kind := range parked {
					switch kind {
					case "S":
						if atomic.LoadInt64(&ticks[id]) == 0 {
							missing = fmt.Sprintf("thread %d not spinning", id)
						}
					case "B":
						if atomic.LoadInt64(&marks[id]) == 0 {
							missing = fmt.Sprintf("thread %d not at its blocking call", id)
						}
					case "F":
						if id == 0 && !waitRes(0) {
							missing = fmt.Sprintf("main code of stage %d has not returned", i)
						}
					}
				}
				if missing == "" {
					break
				}
				if ctxS.Err() != nil {
					obs.unparked = "deadline passed before all threads were parked: " + missing
					break
				}
				if time.Now().After(limit) {
					obs.unparked = missing
					break
				}
				time.Sleep(200 * time.Microsecond)
			}
			if obs.unparked != "" {
				if res == nil {
					pending = done
				} else {
					classify(i, res.err)
				}
				break stages
			}
			if i < c.fire {
				// an earlier evaluation: it has ended by itself (the model parks main at F)
				if res == nil {
					obs.unparked = fmt.Sprintf("stage %d was expected to end by itself", i)
					pending = done
					break stages
				}
				if ctxS.Err() != nil {
					obs.unparked = "deadline passed before all threads were parked: it fired during stage " + strconv.Itoa(i)
					classify(i, res.err)
					break stages
				}
				classify(i, res.err)
				continue
			}
			if c.ctxKind != "deadline" {
				time.Sleep(time.Duration(c.delayMs)*time.Millisecond + 2*time.Millisecond)
			}
			cancelAt = time.Now()
			fireS()
			if c.ctxKind == "deadline" {
				cancelAt = time.Now()
			}
		} else if i == c.fire {
			cancelAt = time.Now()
		}
		// the context has fired: the evaluation has to come back
		if !waitRes(hangLimit()) {
			obs.cls[i] = "hang"
			obs.hangAt = i
			c06Hangs++
			pending = done
			break stages
		}
		classify(i, res.err)
		if i == c.fire {
			obs.latency = res.at.Sub(cancelAt)
		}
	}

	sample := func() []int64 {
		s := make([]int64, len(ticks))
		for i := range ticks {
			s[i] = atomic.LoadInt64(&ticks[i])
		}
		return s
	}
	if pending == nil && obs.unparked == "" {
		// Which threads keep running: sample the per-thread counters every 25 ms.  Window 1 is
		// a settling window.  A thread "keeps running" when it advanced in >= 2 windows after
		// the first, one of them in the second half of the observation; a thread that was
		// merely finishing stops advancing for good.  At least 3 windows are taken; the
		// observation goes on (up to 40 windows = 1 s) while the verdict is still changing or is not one the model allows, so that
		// a loaded machine (a starved goroutine that has not ticked yet) does not decide it.
		const gap = 25 * time.Millisecond
		samples := [][]int64{sample()}
		classifyT := func() []int {
			w := len(samples) - 1
			var run []int
			for i := range ticks {
				n, recent := 0, false
				for j := 2; j <= w; j++ {
					if samples[j][i] > samples[j-1][i] {
						n++
						if 2*j >= w {
							recent = true
						}
					}
				}
				if n >= 2 && recent {
					run = append(run, i)
				}
			}
			return run
		}
		prev := "?"
		for w := 1; w <= 40; w++ {
			time.Sleep(gap)
			samples = append(samples, sample())
			if w < 3 {
				continue
			}
			obs.ticking = classifyT()
			cur := fmt.Sprint(obs.ticking)
			if cur == prev && accept(obs.cls, obs.ticking) {
				break
			}
			prev = cur
		}
	}
	// clean up: end leaked loops through the host flag, release host-held threads
	atomic.StoreInt32(&stop, 1)
	cleanS()
	cancelO()
	close(release)
	if pending != nil {
		limit := 2 * time.Second
		if c06Hangs > 3 {
			limit = 300 * time.Millisecond
		}
		select {
		case <-pending:
		case <-time.After(limit):
		}
	}
	settle := 3 * time.Second
	if c06Stucks >= 3 {
		settle = 300 * time.Millisecond
	}
	limit := time.Now().Add(settle)
	for runtime.NumGoroutine() > base && time.Now().Before(limit) {
		time.Sleep(500 * time.Microsecond)
	}
	if g := runtime.NumGoroutine(); g > base {
		obs.stuckGor = g - base
		c06Stucks++
	}
	return obs
}

func (st c06Stage) String() string {
	who := "S"
	if st.own {
		who = "O"
	}
	return st.entry + ":" + who + "{" + st.prog.String() + "}"
}

// c06Key: a single evaluation on a fresh VM keeps the historical form
// `<instant>/<ctx kind> <shape> [flavours]`; a sequence lists its stages and says at which
// one the context under test (S) fires; O = another context that stays alive.
func c06Key(c c06Case, flav string) string {
	if len(c.stages) == 1 {
		return fmt.Sprintf("%s/%s %s [%s]", c.instant, c.ctxKind, c.stages[0].prog.String(), flav)
	}
	parts := make([]string, len(c.stages))
	for i, st := range c.stages {
		parts[i] = st.String()
	}
	return fmt.Sprintf("%s/%s@stage%d one VM: %s [%s]", c.instant, c.ctxKind, c.fire, strings.Join(parts, " ; "), flav)
}

func c06Ids(run []int, lo, hi int, withMain bool) string {
	var ids []string
	for _, t := range run {
		if (t > lo && t <= hi) || (t == 0 && withMain) {
			ids = append(ids, strconv.Itoa(t))
		}
	}
	return strings.Join(ids, ",")
}

func c06In(xs []string, x string) bool {
	for _, o := range xs {
		if o == x {
			return true
		}
	}
	return false
}

// c06Agree: does stage i's observation (error class | its threads still running) match the
// model?  2 = an outcome of the armed watcher, 1 = only an outcome of the RunCode reset
// race (watcher store wiped), 0 = neither.
//
// sampled = false: a LATER evaluation of the sequence did not return, so no tick counters were
// sampled at all (c06Run samples only once every evaluation is over): for the stages before it
// only the error class can be compared.
func c06Agree(m c06Model, cls string, run []int, last, sampled bool) (int, string) {
	out := cls + "|" + c06Ids(run, m.lo, m.hi, last)
	if !sampled && cls != "hang" {
		out = cls + "|(threads not sampled)"
		for _, o := range m.outs {
			if strings.HasPrefix(o, cls+"|") {
				return 2, out
			}
		}
		for _, o := range m.lost {
			if strings.HasPrefix(o, cls+"|") {
				return 1, out
			}
		}
		return 0, out
	}
	if c06In(m.outs, out) {
		return 2, out
	}
	if c06In(m.lost, out) {
		return 1, out
	}
	if cls == "hang" {
		// nothing is sampled while an evaluation is still going on
		for _, o := range m.lost {
			if strings.HasPrefix(o, "hang|") {
				return 1, out
			}
		}
	}
	return 0, out
}

// c06ChildAsDetached: the shapes of the stages with every host callback that was handed a
// WithCancel CHILD of the caller's context (rendering flavour hf1) turned into one that was handed
// a detached context.  Go cancels the children of a context inside parent.cancel(), AFTER it has
// closed the parent's Done channel: the watcher can raise the halt flag, and a poll of the callback
// can consult the child, before the child reports an error.  For that one poll the child IS a
// context that does not report the cancellation, and the outcomes are those of the detached
// callee context (the recorded finding about eval's halt test returning the callee's ctx.Err()).
func c06ChildAsDetached(stages []c06Stage, flav string) ([]*c06Prog, bool) {
	var kinds []byte
	for i := 0; i+2 < len(flav); i++ {
		if flav[i] == 'h' && flav[i+1] == 'f' && flav[i+2] >= '0' && flav[i+2] <= '9' {
			kinds = append(kinds, flav[i+2])
		}
	}
	next, changed := 0, false
	var walk func(p *c06Prog)
	walk = func(p *c06Prog) { // the order in which c06Render.prog draws the flavours
		switch p.kind {
		case "C", "B":
			walk(p.k)
		case "W":
			if p.arg == "hf" {
				if next < len(kinds) && kinds[next] == '1' {
					p.arg = "hd"
					changed = true
				}
				next++
			}
			walk(p.body)
			walk(p.k)
		case "E", "G":
			walk(p.body)
			walk(p.k)
		}
	}
	out := make([]*c06Prog, len(stages))
	for i, st := range stages {
		out[i] = c06Clone(st.prog)
		walk(out[i])
	}
	return out, changed && next == len(kinds)
}

func c06Eval(e *Env, c c06Case) *c06Obs {
	n := 0
	models := make([]c06Model, len(c.stages))
	for i := range c.stages {
		if c.stages[i].prog.kind == "D" {
			// an empty source still compiles to one (polled) instruction
			c.stages[i].prog = c06C(c06Done)
		}
	}
	for i, st := range c.stages {
		lo := n
		st.prog.number(&n)
		instant := "later"
		if i > c.fire || (i == c.fire && c.instant == "pre") {
			instant = "pre"
		}
		var rep string
		if i == 0 {
			rep = e.O.Ask("C06", "run", instant, st.prog.String())
		} else {
			rep = e.O.Ask("C06", "rerun", st.entry, instant, st.prog.String())
		}
		m, ok := c06ParseReply(rep)
		if !ok {
			e.R.Mismatch(st.prog.String(), "-", rep, "oracle rejected the shape")
			return nil
		}
		m.instant, m.lo, m.hi = instant, lo, n
		models[i] = m
	}
	last := func(cls []string) int {
		l := 0
		for i := range cls {
			if cls[i] != "-" {
				l = i
			}
		}
		return l
	}
	obs := c06Run(c, n, models, func(cls []string, run []int) bool {
		// is every stage's (error class, set of running threads) an outcome the model allows?
		l := last(cls)
		for i, m := range models {
			if cls[i] == "-" {
				continue
			}
			if a, _ := c06Agree(m, cls[i], run, i == l, true); a == 0 {
				return false
			}
		}
		return true
	})
	key := c06Key(c, obs.flav)
	var srcText string
	if len(c.stages) == 1 {
		srcText = strings.ReplaceAll(obs.srcs[0], "\n", " ⏎ ")
	} else {
		var parts []string
		for i, st := range c.stages {
			parts = append(parts, fmt.Sprintf("stage%d %s: %s", i, st.entry, strings.ReplaceAll(obs.srcs[i], "\n", " ⏎ ")))
		}
		srcText = strings.Join(parts, " ;; ")
	}
	if obs.mods != "" {
		srcText += " ;; " + obs.mods
	}
	caseText := key + " :: " + srcText

	// distribution
	anyParked := false
	for _, m := range models {
		if m.nonterm {
			anyParked = true
		}
		for id, k := range m.parked {
			if id != 0 && (k == "S" || k == "B") {
				anyParked = true
			}
		}
	}
	e.R.Case(key, anyParked)
	e.R.H("instant", c.instant+"/"+c.ctxKind)
	e.R.H("main_parks_in", models[c.fire].parked[0])
	e.R.H("threads", strconv.Itoa(n+1))
	e.R.H("evaluations_on_the_vm", strconv.Itoa(len(c.stages)))
	if len(c.stages) > 1 {
		var pat []string
		for i, st := range c.stages {
			w := st.entry
			if st.own {
				w += "(other ctx)"
			}
			if i == c.fire {
				w = "[" + c.instant + "]" + w
			}
			pat = append(pat, w)
		}
		e.R.H("sequence", strings.Join(pat, " "))
	}
	maxDepth := 0
	for _, st := range c.stages {
		st.prog.walk(func(p *c06Prog, d int) {
			switch p.kind {
			case "B":
				e.R.H("constructs", "block:"+p.arg)
			case "W":
				e.R.H("constructs", "callback:"+map[string]string{"hf": "host builtin, context cancelled with the run's", "hd": "host builtin, detached context", "fn": "script call", "imp": "import (top-level code of a source module)"}[p.arg]+map[bool]string{true: p.arg}[p.arg != "hf" && p.arg != "hd" && p.arg != "fn" && p.arg != "imp"])
			case "S":
				e.R.H("constructs", "spin")
			case "E":
				e.R.H("constructs", "defer")
			case "G":
				e.R.H("constructs", "spawn")
				if d+1 > maxDepth {
					maxDepth = d + 1
				}
			}
		}, 0)
	}
	e.R.H("spawn_depth", strconv.Itoa(maxDepth))
	for f, name := range map[string]string{"hf0": "the caller's own context", "hf1": "WithCancel child", "hf2": "WithValue", "hd0": "WithoutCancel (detached, values kept)", "hd1": "Background + values copied (detached)"} {
		if n := strings.Count(obs.flav, f); n > 0 {
			e.R.H("host_callback_callee_context", name)
		}
	}
	if strings.Contains(obs.flav, "L1") {
		e.R.H("host_callback_form", "loop of finite callbacks")
	}
	for _, f := range []string{"s0", "s1", "s2", "s3", "s4"} {
		if strings.Contains(obs.flav, f) {
			e.R.H("loop_form", map[string]string{"s0": "for{}", "s1": "for cond{}", "s2": "for i;c;s{}", "s3": "range in driver", "s4": "deep recursion"}[f])
		}
	}
	for f, name := range map[string]string{"r2": "receive from a closed channel", "r3": "1-slot channel as a lock", "w2": "send into a buffer that is never full (method form)",
		"w3": "send into a buffer that is never full", "t1": "wait on a finished thread"} {
		if strings.Contains(obs.flav, f) {
			e.R.H("ready_operation_loops", name)
		}
	}

	for f, name := range map[string]string{"i0": "import m", "i1": "import m as a", "i2": "from m import v", "ci1": "the same module imported again (served from vm.modules)"} {
		if strings.Contains(obs.flav, f) {
			e.R.H("import_statement_form", name)
		}
	}
	for f, name := range map[string]string{"ds0": "compute loop", "ds1": "polling loop with time.sleep", "ds2": "retry loop (try + error)", "ds3": "retried wait on a channel nobody feeds", "ds4": "polling a condition that never holds"} {
		if strings.Contains(obs.flav, f) {
			e.R.H("deferred_loop_form", name)
		}
	}
	if obs.unparked != "" {
		if strings.HasPrefix(obs.unparked, "deadline passed") {
			e.R.H("inconclusive", "deadline before parked")
			return &obs
		}
		e.R.Mismatch(caseText, obs.unparked, "parked="+fmt.Sprint(models[c.fire].parked), "the threads did not reach the parking points the model predicts")
		return &obs
	}
	sort.Ints(obs.ticking)
	l := last(obs.cls)
	for i, m := range models {
		if obs.cls[i] == "-" {
			continue
		}
		where := ""
		if len(c.stages) > 1 {
			where = fmt.Sprintf("stage %d (%s): ", i, c.stages[i].entry)
		}
		if obs.cls[i] == "other" {
			e.R.Mismatch(caseText, where+"error "+obs.errText[i], strings.Join(m.outs, ";"), "unexpected error from the real code")
			return &obs
		}
		agree, goOut := c06Agree(m, obs.cls[i], obs.ticking, i == l, obs.hangAt < 0)
		forceAlt := os.Getenv("VERIF_C06_FORCE_ALT") != "" // development aid: exercise the path below on every hf1 case
		if (agree == 0 || forceAlt) && obs.cls[i] != "hang" && strings.Contains(obs.flav, "hf1") {
			// a poll may have consulted a WithCancel child before Go had cancelled it (see
			// c06ChildAsDetached): the outcomes of the detached callee context are allowed, and a
			// Spec violation among them belongs to the recorded finding about the callee's context
			if alts, ok := c06ChildAsDetached(c.stages, obs.flav); ok && c06Wf(alts[i]) {
				var rep string
				if i == 0 {
					rep = e.O.Ask("C06", "run", m.instant, alts[i].String())
				} else {
					rep = e.O.Ask("C06", "rerun", c.stages[i].entry, m.instant, alts[i].String())
				}
				if am, ok := c06ParseReply(rep); ok {
					am.instant, am.lo, am.hi = m.instant, m.lo, m.hi
					a2, _ := c06Agree(am, obs.cls[i], obs.ticking, i == l, obs.hangAt < 0)
					if forceAlt {
						e.R.H("forced_alt(development aid)", fmt.Sprintf("alt model ok, original agrees=%d, alt agrees=%d", agree, a2))
					}
					if agree == 0 && a2 == 2 {
						e.R.H("child_context_consulted_before_go_had_cancelled_it(race)", goOut)
						m, agree = am, 2
					}
				}
			}
		}
		e.R.H("outcome", goOut)
		e.R.H("allowed_outcomes", strconv.Itoa(len(m.outs)))
		if agree == 0 {
			e.R.Mismatch(caseText, where+goOut+" "+obs.errText[i], strings.Join(append(append([]string{}, m.outs...), m.lost...), ";"), "outcome (error class | threads still running) not among those the Impl model allows")
		}

		// Spec on the real results
		attr := func(id string, bit int) string {
			if agree == 2 && len(m.guards) == 4 && m.guards[bit] == '1' {
				return id
			}
			return ""
		}
		if obs.cls[i] == "hang" {
			detail := where + "the call did not return within the limit (10 s; 1.5 s once three cases have hung) after the cancellation"
			if c.deferInfo != "" {
				detail += " — " + c.deferInfo
			}
			if c.importInfo != "" {
				detail += " — " + c.importInfo
			}
			if agree == 1 {
				c06Proposed(e, c06FindReset, caseText, detail+" — RunCode on a used VM with a context that had already fired: resetForNewCode() cleared the halt flag the new watcher had just set")
			} else {
				e.R.Spec(caseText, detail, "")
			}
		}
		if ids := c06Ids(obs.ticking, m.lo, m.hi, i == l); ids != "" {
			detail := fmt.Sprintf("%sscript code keeps executing after the call returned %s: tick counters of thread(s) %s advance across three samples", where, obs.cls[i], ids)
			if c.importInfo != "" {
				detail += " — " + c.importInfo
			}
			e.R.Spec(caseText, detail, attr(c06FindLeak, 0))
		}
		if m.nonterm && i >= c.fire && obs.cls[i] != "hang" {
			switch obs.cls[i] {
			case "msg":
				e.R.Spec(caseText, where+"the call returned "+obs.errText[i]+", which is not the context's error (errors.Is fails; only the text survived)", attr(c06FindLossy, 2))
			case "nil":
				detail := where + "the call returned a nil error although its context fired while the program was looping/blocked"
				if attr(c06FindSwallow, 1) == "" && attr(c06FindCallee, 3) != "" {
					c06Proposed(e, c06FindCallee, caseText, detail+" — the halted callback of a host builtin that passed a context which is not cancelled with the run's (WithoutCancel / background + values) 'returned': eval's halt test returns ctx.Err() of the context it was handed, nil here, and nothing was left to poll")
				} else {
					e.R.Spec(caseText, detail, attr(c06FindSwallow, 1))
				}
			case "panic":
				detail := where + "the call returned " + obs.errText[i] + ", which is neither the context's error nor a copy of its text"
				if attr(c06FindCallee, 3) != "" {
					c06Proposed(e, c06FindCallee, caseText, detail+" — eval's halt test returned the nil error of the detached context the callee had been handed; callFunction went on to vm.pop() the result of the abandoned frame from an empty stack")
				} else {
					e.R.Spec(caseText, detail, "")
				}
			}
		}
	}
	if obs.hangAt < 0 {
		ms := obs.latency.Milliseconds()
		b := "<1ms"
		switch {
		case ms >= 1000:
			b = ">=1s"
		case ms >= 100:
			b = "100ms-1s"
		case ms >= 10:
			b = "10-100ms"
		case ms >= 1:
			b = "1-10ms"
		}
		e.R.H("latency_cancel_to_return(supporting)", b)
	}
	if obs.stuckGor > 0 {
		e.R.Mismatch(caseText, fmt.Sprintf("%d goroutine(s) still alive after the host ended every loop and the settle limit", obs.stuckGor), "all threads finished", "goroutine count did not settle")
		detail := fmt.Sprintf("%d goroutine(s) started by the evaluation are still alive after every context was cancelled, every loop was ended by the host and %s had passed", obs.stuckGor, "the settle limit (3 s; 300 ms once three cases were stuck)")
		if c.importInfo != "" {
			detail += " — " + c.importInfo
		}
		e.R.Spec(caseText, detail, "")
	}
	return &obs
}

// ---- a defect of the unchanged code that known_findings.json may not list yet ----
//
// findings/proposed-C06.json proposes c06FindReset.  While known_findings.json (owned by the
// framework) does not list it, a case that falls under it AND on which the real code agrees
// with the Impl model (`lost=` outcomes of the oracle) is reported as a note instead of a
// Spec violation; once listed it is an ordinary KNOWN-FINDING.  Any disagreement with the
// model is still raised.
var c06ListedCache map[string]bool
var c06ProposedSeen = map[string]string{}

func c06IsListed(id string) bool {
	if c06ListedCache == nil {
		c06ListedCache = map[string]bool{}
		for _, p := range []string{"../known_findings.json", "known_findings.json"} {
			b, err := os.ReadFile(p)
			if err != nil {
				continue
			}
			var k struct {
				Findings []struct {
					ID string `json:"id"`
				} `json:"findings"`
			}
			if json.Unmarshal(b, &k) == nil {
				for _, f := range k.Findings {
					c06ListedCache[f.ID] = true
				}
			}
			break
		}
	}
	return c06ListedCache[id]
}

func c06Proposed(e *Env, id, caseText, detail string) {
	if c06IsListed(id) {
		e.R.Spec(caseText, detail, id)
		return
	}
	e.R.H("proposed_finding_hits", id)
	if _, ok := c06ProposedSeen[id]; !ok {
		c06ProposedSeen[id] = caseText + " → " + detail
	}
}

// c06ProbeReset looks for the RunCode reset race directly: one used VM, `RunCode(ctx, for {
// tick(0) })` over and over, each time with a fresh context that is cancelled before the
// call.  Each try either returns the context's error (the poll saw halt = 1) or never returns
// (resetForNewCode wiped the watcher's store; the loop is then ended through the host flag).
// Any other result is a mismatch.
func c06ProbeReset(e *Env, tries int) {
	var stop int32
	var ticks int64
	tick := object.NewBuiltin("tick", func(ctx context.Context, args ...object.Object) object.Object {
		atomic.AddInt64(&ticks, 1)
		if atomic.LoadInt32(&stop) == 1 {
			return object.Errorf("host stop")
		}
		return object.Nil
	})
	cfg := risor.NewConfig(risor.WithGlobals(map[string]any{"tick": tick}))
	compile := func(src string) *compiler.Code {
		ast, err := parser.Parse(context.Background(), src)
		if err != nil {
			return nil
		}
		code, err := compiler.Compile(ast, cfg.CompilerOpts()...)
		if err != nil {
			return nil
		}
		return code
	}
	first, loop := compile("1 + 1"), compile("for { tick(0) }")
	caseText := "pre/cancel@stage1 one VM: run:O{C D} ; runcode:S{S} [probe] :: stage0 run: 1 + 1 ;; stage1 runcode: for { tick(0) }"
	if first == nil || loop == nil {
		e.R.Mismatch(caseText, "does not compile", "-", "probe")
		return
	}
	machine := vm.New(first, cfg.VMOpts()...)
	if err := machine.Run(context.Background()); err != nil {
		e.R.Mismatch(caseText, "first run: "+err.Error(), "nil", "probe")
		return
	}
	e.R.Case(caseText, true)
	lostAt := -1
	for i := 0; i < tries && lostAt < 0; i++ {
		ctx, cancel := context.WithCancel(context.Background())
		cancel()
		done := make(chan error, 1)
		go func() {
			defer func() {
				if r := recover(); r != nil {
					done <- fmt.Errorf("PANIC: %v", r)
				}
			}()
			done <- machine.RunCode(ctx, loop)
		}()
		select {
		case err := <-done:
			if !errors.Is(err, context.Canceled) {
				e.R.Mismatch(caseText, fmt.Sprintf("try %d: %v", i, err), "ctx|;hang|", "RunCode with a cancelled context returned something else than the context's error")
				return
			}
		case <-time.After(2 * time.Second):
			lostAt = i
			atomic.StoreInt32(&stop, 1)
			select {
			case <-done:
			case <-time.After(5 * time.Second):
				e.R.Mismatch(caseText, "the loop did not end through the host flag", "-", "probe clean-up")
			}
		}
	}
	e.R.H("runcode_reset_probe_tries", strconv.Itoa(tries))
	if lostAt >= 0 {
		e.R.H("runcode_reset_probe", "cancellation lost")
		c06Proposed(e, c06FindReset, caseText, fmt.Sprintf("try %d of RunCode(ctx already cancelled, `for { tick(0) }`) on a used VM did not return within 2 s (%d ticks so far); all earlier tries returned context.Canceled at once", lostAt, atomic.LoadInt64(&ticks)))
	} else {
		e.R.H("runcode_reset_probe", "not reproduced in this run")
	}
}

// ---- case generation ----

var c06CancelKinds = []string{"cancel", "cancel", "far", "child", "parent"}

// c06Normalise: a call stage needs the function its defining stage (the closest run/runcode
// stage before it) registered; when that stage is started with a fired context its
// definitions may not have run, so the stage becomes a RunCode stage.  Stage 0 creates the VM.
func c06Normalise(c *c06Case) {
	c.stages[0].entry = "run"
	c.stages[0].own = c.stages[0].own && c.fire > 0
	def := 0
	for i := 1; i < len(c.stages); i++ {
		st := &c.stages[i]
		if i >= c.fire {
			st.own = false
		}
		if st.entry == "call" {
			if def > c.fire || (def == c.fire && c.instant == "pre") {
				st.entry = "runcode"
			}
		}
		if st.entry != "call" {
			def = i
		}
	}
	for i := range c.stages {
		st := &c.stages[i]
		if st.entry == "call" {
			// the function's implicit return is one more polled instruction after the shape
			st.prog = st.prog.then(c06C(c06Done))
		}
	}
}

// c06Sequence: `before` evaluations that end by themselves (with the context under test or
// with another one), the stage at which the context fires, `after` evaluations started
// with the fired context.
func c06Sequence(r *RNG, before int, at *c06Prog, instant string, after []*c06Prog, callPct int) c06Case {
	entry := func() string {
		if r.Chance(callPct) {
			return "call"
		}
		return "runcode"
	}
	var c c06Case
	for i := 0; i < before; i++ {
		own := r.Chance(35)
		c.stages = append(c.stages, c06Stage{prog: c06Term(r, !own && r.Chance(40)), entry: entry(), own: own})
	}
	c.fire = before
	c.instant = instant
	c.stages = append(c.stages, c06Stage{prog: at, entry: entry()})
	for _, p := range after {
		c.stages = append(c.stages, c06Stage{prog: p, entry: entry()})
	}
	return c
}

func c06_runC06(e *Env) {
	e.R.Rule = "a case is (sequence of 1..5 evaluations on ONE VM [Run, then Call / RunCode], the stage and instant at which the context fires, context kind, rendering flavours); " +
		"shapes: a fixed list of replayed finding witnesses, the systematic product " +
		"{loop forms, 5 blocking primitives with/without code after them} x {no callback, each, map, filter, call, sorted, try} x {spawn depth 0..3}, and seeded random shapes " +
		"(prefix of computes/spawns/callbacks, parking action inside up to 2 callbacks, tails after blocking calls incl. further spawns, nesting <= 3); channel/wait primitives are rendered " +
		"either waiting for ever or as a loop of operations that never have to wait (closed channel, 1-slot lock, never-full buffer, finished thread); sequences: systematic " +
		"host-provided builtins that call a script function back through object.GetCallFunc with a derived context " +
		"{the same, WithCancel child, WithValue, WithoutCancel, Background + values} x {long loop, nested calls, finite callback, further callbacks of host builtins / each / call / try / sorted} x {what follows the builtin} x " +
		"{enclosing callback builtin, host builtin, spawned function} and seeded random nestings (also rendered as a loop of finite callbacks), cancellation before / during / after the callback; " +
		"deferred script closures: fixed witnesses, the systematic product {the frame that holds the deferred closure: the function itself, a caller, caller and callee, the callback of each/map/filter/sorted/call/try/a host builtin, the caller of such a builtin, " +
		"two deferred closures, the deferred closure itself already running, a frame inside a running deferred closure, a spawned function} x {what the deferred closure does: unbounded loop (rendered as compute loop, polling loop with time.sleep, " +
		"retry loop, retried wait on a channel nobody feeds, polling a condition), loop after a failed wait / a sleep / a try, a blocked receive, a loop inside each, a terminating cleanup, a script call holding a deferred loop of its own} x " +
		"{what the code is doing when the context fires: loop, receive, sleep, wait, send} and seeded random nestings of function frames up to 4 deep with 0..2 deferred closures each; " +
		"imports of source modules through the local importer (the module's top-level code is a file of the case's scratch module directory; import m / import m as a / from m import v / the same module again): fixed witnesses, the systematic product " +
		"{where the import statement sits: main code, a function, the callback of a builtin / of a host builtin, a spawned function (depth 1, 2), the top-level code of another module, a deferred closure, a function holding a deferred loop, " +
		"code reached only after the cancellation — behind a sleep / range / swallowed wait: the importer's parser observes the fired context, the import fails, no module body starts} x " +
		"{what the module's top-level code does: blocks in receive / send / sleep / wait / range, loops, starts goroutines (blocked, with channel operations that never wait, two deep, from inside a callback) and blocks or returns, imports a further module, " +
		"calls a function with a deferred loop, just defines things} x {what follows the import}, seeded random shapes of every other class in which random stretches of code (main code, callbacks, functions, deferred closures, spawned functions) are moved into modules imported there, " +
		"and sequences on one VM whose earlier evaluations imported modules; " +
		"sequences: systematic {same context re-supplied after it fired while the VM was idle, retry after a cancelled evaluation, cancellation during the n-th evaluation, another live context first} x {Call, RunCode} x parking actions, and seeded random ones; " +
		"several evaluations sharing host-supplied channel objects (object.NewChan handed to each as a global; every evaluation has its OWN context): fixed witnesses and seeded random cases of 2..4 evaluations " +
		"{risor-style Run whose main code blocks, vm.Call of a function that blocks — on a VM of its own or on the VM of an earlier run whose worker is still parked —, a run whose main code returns and leaves a worker goroutine blocked} x " +
		"{for-range, <-c, c.receive() on an empty channel; c <- v, c.send(v) on a full one; one or two operations} x {1..2 channel objects, mostly ONE shared by all} x {own context per evaluation, sometimes one context given to two; cancel(), own deadline for the consumer started last} x " +
		"{order of the cancellations: last started first, start order, random; some contexts never cancelled during the observation}; after every cancellation exactly the consumers of that context must have ended (call returned / worker reached its ended() call), the others stay parked; " +
		"instants: context already fired before the start, fired while every thread is parked (logical sync on tick/mark counters) or after the main code returned; context kinds: cancel(), own deadline reached, " +
		"cancel() of a context whose own / inherited / wrapped deadline is far away, cancel() of the parent; " +
		"non-trivial when some thread would loop or block for ever without cancellation; distinct by the whole tuple"
	if os.Getenv("VERIF_C06_DEBUG") != "" {
		defer func() {
			for _, m := range e.R.Mismatches {
				fmt.Fprintf(os.Stderr, "MISMATCH %s\n  go=%s\n  model=%s (%s)\n", m.Case, m.Go, m.Model, m.What)
			}
			for _, m := range e.R.SpecViolations {
				fmt.Fprintf(os.Stderr, "SPEC[%s] %s\n  %s\n", m.Finding, m.Case, m.Detail)
			}
		}()
	}
	rng := e.Rng.Fork()
	delay := func() int { return Pick(rng, []int{0, 0, 1, 5, 20}) }
	kindOf := func(kind string) string {
		if kind == "cancel" {
			return Pick(rng, c06CancelKinds)
		}
		return kind
	}
	mk := func(p *c06Prog, instant, kind string) c06Case {
		return c06Single(p, instant, kindOf(kind), delay(), rng.Next())
	}
	// 1. witnesses of the recorded findings (the replay files name these shapes) and of the
	// classes the sequences / context kinds / ready loops are there for
	fixed := []c06Case{
		c06Single(c06G(c06S(), c06S()), "later", "deadline", 0, 1),
		c06Single(c06G(c06S(), c06S()), "later", "cancel", 0, 1),
		c06Single(c06W("each", c06S(), c06Done), "later", "cancel", 0, 1),
		c06Single(c06B("wait", c06Done), "later", "cancel", 0, 1),
		c06Single(c06W("try", c06S(), c06Done), "later", "cancel", 0, 1),
		c06Single(c06B("sleep", c06Done), "later", "cancel", 0, 1),
		c06Single(c06B("sleep", c06S()), "later", "far", 0, 1),
		c06Single(c06W("each", c06B("sleep", c06Done), c06S()), "later", "child", 0, 2),
		c06Single(c06G(c06B("sleep", c06Done), c06B("sleep", c06S())), "later", "parent", 0, 3),
		// a spawned loop of channel operations that never have to wait / of waits on a finished thread
		c06Single(c06G(&c06Prog{kind: "B", arg: "recv", form: 4, k: c06Done}, c06B("recv", c06Done)), "later", "cancel", 0, 1),
		c06Single(c06G(&c06Prog{kind: "B", arg: "recv", form: 3, k: c06Done}, c06S()), "later", "cancel", 0, 1),
		c06Single(c06G(&c06Prog{kind: "B", arg: "send", form: 3, k: c06Done}, c06S()), "later", "deadline", 0, 1),
		c06Single(c06G(&c06Prog{kind: "B", arg: "send", form: 4, k: c06Done}, c06B("sleep", c06S())), "later", "cancel", 0, 1),
		c06Single(c06G(&c06Prog{kind: "B", arg: "wait", form: 2, k: c06Done}, c06S()), "later", "cancel", 0, 1),
		// the context fires while the VM is idle, then it is supplied again
		{stages: []c06Stage{{prog: c06C(c06Done), entry: "run"}, {prog: c06S(), entry: "call"}}, fire: 1, instant: "pre", ctxKind: "cancel", flavSeed: 1},
		{stages: []c06Stage{{prog: c06C(c06Done), entry: "run"}, {prog: c06C(c06Done), entry: "call"}, {prog: c06S(), entry: "call"}}, fire: 2, instant: "pre", ctxKind: "deadline", flavSeed: 1},
		// an evaluation is cancelled, the caller tries again with the same context
		{stages: []c06Stage{{prog: c06C(c06Done), entry: "run"}, {prog: c06S(), entry: "call"}, {prog: c06S(), entry: "call"}}, fire: 1, instant: "later", ctxKind: "cancel", flavSeed: 1},
		{stages: []c06Stage{{prog: c06S(), entry: "run"}, {prog: c06S(), entry: "runcode"}}, fire: 0, instant: "later", ctxKind: "cancel", flavSeed: 1},
		// another context first, then the context under test
		{stages: []c06Stage{{prog: c06C(c06Done), entry: "run", own: true}, {prog: c06S(), entry: "call"}}, fire: 1, instant: "later", ctxKind: "cancel", flavSeed: 1},
	}
	for _, c := range fixed {
		c06Normalise(&c)
		c06Eval(e, c)
	}
	// 2. systematic product
	sys := c06Systematic(rng)
	nSys, nRand, nSeqSys, nSeqRand, probe := 170, 150, 60, 70, 3000
	if !e.Quick {
		nSys, nRand, nSeqRand, probe = 4*len(sys), 2600, 900, 40000
	}
	for i := 0; i < nSys; i++ {
		var p *c06Prog
		if e.Quick {
			p = sys[rng.Intn(len(sys))]
		} else {
			p = sys[i%len(sys)]
		}
		instant, kind := "later", "cancel"
		sel := rng.Intn(10)
		if !e.Quick {
			sel = (i / len(sys)) * 3 // passes: later/cancel, pre/cancel, later/deadline, pre/deadline
			if sel > 9 {
				sel = 9
			}
		}
		switch {
		case sel >= 9:
			instant, kind = "pre", "deadline"
		case sel >= 6:
			kind = "deadline"
		case sel >= 3:
			instant = "pre"
		}
		q := *p // ids are assigned per case
		c06Eval(e, mk(c06Clone(&q), instant, kind))
	}
	// 3. random shapes
	for i := 0; i < nRand; i++ {
		p := c06Thread(rng, 0, 4, rng.Chance(12))
		instant, kind := "later", "cancel"
		if rng.Chance(25) {
			instant = "pre"
		}
		if rng.Chance(25) {
			kind = "deadline"
		}
		c06Eval(e, mk(p, instant, kind))
	}
	// 4. sequences on one VM, systematic: pattern x entry point x parking action x context kind
	var seqs []c06Case
	parks := []func() *c06Prog{
		func() *c06Prog { return c06S() },
		func() *c06Prog { return c06B("recv", c06Done) },
		func() *c06Prog { return c06B("sleep", c06S()) },
		func() *c06Prog { return c06W(Pick(rng, c06Wraps), c06S(), c06S()) },
		func() *c06Prog { return c06G(c06B(Pick(rng, c06Prims), c06Done), c06S()) },
	}
	for _, callPct := range []int{100, 0} {
		for _, park := range parks {
			for _, kind := range []string{"cancel", "deadline", "far"} {
				// same context again after it fired while the VM was idle
				seqs = append(seqs, c06Sequence(rng, 1, park(), "pre", nil, callPct))
				seqs[len(seqs)-1].ctxKind = kind
				// retry after a cancelled evaluation
				seqs = append(seqs, c06Sequence(rng, rng.Intn(2), park(), "later", []*c06Prog{park()}, callPct))
				seqs[len(seqs)-1].ctxKind = kind
				// cancellation during the second / third evaluation
				seqs = append(seqs, c06Sequence(rng, 1+rng.Intn(2), park(), "later", nil, callPct))
				seqs[len(seqs)-1].ctxKind = kind
			}
		}
	}
	if e.Quick {
		for i := len(seqs) - 1; i > 0; i-- {
			j := rng.Intn(i + 1)
			seqs[i], seqs[j] = seqs[j], seqs[i]
		}
		seqs = seqs[:nSeqSys]
	}
	// 5. random sequences
	for i := 0; i < nSeqRand; i++ {
		var after []*c06Prog
		for n := rng.Intn(3); n > 0; n-- {
			after = append(after, c06Thread(rng, 0, 2, rng.Chance(15)))
		}
		instant := "later"
		if rng.Chance(40) {
			instant = "pre"
		}
		before := rng.Intn(3)
		if before == 0 && len(after) == 0 {
			before = 1
		}
		c := c06Sequence(rng, before, c06Thread(rng, 0, 3, rng.Chance(12)), instant, after, 65)
		c.ctxKind = "cancel"
		if rng.Chance(20) {
			c.ctxKind = "deadline"
		}
		seqs = append(seqs, c)
	}
	for _, c := range seqs {
		c.ctxKind = kindOf(c.ctxKind)
		c.delayMs = delay()
		c.flavSeed = rng.Next()
		c06Normalise(&c)
		c06Eval(e, c)
	}
	// 7. host-provided builtins that call script functions back through the public callback
	// API with every kind of derived context (same, WithCancel child, WithValue,
	// WithoutCancel, background + values): fixed witnesses, the systematic product, random shapes
	hostFixed := []c06Case{
		c06Single(c06W("hd", c06S(), c06Done), "later", "cancel", 0, 1),
		c06Single(c06W("hd", c06S(), c06S()), "later", "cancel", 0, 1),
		c06Single(c06W("hd", c06S(), c06S()), "later", "cancel", 0, 2),
		c06Single(c06W("hd", c06S(), c06S()), "later", "deadline", 0, 3),
		c06Single(c06W("hd", c06S(), c06S()), "later", "parent", 0, 4),
		c06Single(c06W("hf", c06S(), c06S()), "later", "cancel", 0, 1),
		c06Single(c06W("hf", c06S(), c06S()), "later", "child", 0, 2),
		c06Single(c06W("hd", c06C(c06Done), c06S()), "later", "cancel", 0, 1),
		c06Single(c06W("hd", c06S(), c06S()), "pre", "cancel", 0, 1),
		c06Single(c06W("each", c06W("hd", c06W("hf", c06S(), c06Done), c06Done), c06S()), "later", "far", 0, 1),
		// on a VM that has been used before: Call / RunCode, cancellation during the detached callback
		{stages: []c06Stage{{prog: c06C(c06Done), entry: "run"}, {prog: c06W("hd", c06S(), c06S()), entry: "call"}}, fire: 1, instant: "later", ctxKind: "cancel", flavSeed: 1},
		{stages: []c06Stage{{prog: c06C(c06Done), entry: "run", own: true}, {prog: c06W("hd", c06S(), c06S()), entry: "runcode"}}, fire: 1, instant: "later", ctxKind: "cancel", flavSeed: 2},
		{stages: []c06Stage{{prog: c06W("hd", c06C(c06Done), c06Done), entry: "run"}, {prog: c06W("hf", c06W("hd", c06S(), c06Done), c06S()), entry: "call"}, {prog: c06S(), entry: "call"}}, fire: 1, instant: "later", ctxKind: "cancel", flavSeed: 3},
	}
	for _, c := range hostFixed {
		c06Normalise(&c)
		c06Eval(e, c)
	}
	hostSys := c06HostSystematic()
	nHostSys, nHostRand := 70, 50
	if !e.Quick {
		nHostSys, nHostRand = 2*len(hostSys), 700
	}
	for i := 0; i < nHostSys; i++ {
		var p *c06Prog
		if e.Quick {
			p = hostSys[rng.Intn(len(hostSys))]
		} else {
			p = hostSys[i%len(hostSys)]
		}
		instant, kind := "later", "cancel"
		if (e.Quick && rng.Chance(20)) || (!e.Quick && i >= len(hostSys)) {
			instant = "pre"
		}
		if rng.Chance(20) {
			kind = "deadline"
		}
		c06Eval(e, mk(c06Clone(p), instant, kind))
	}
	for i := 0; i < nHostRand; i++ {
		p := c06HostRandom(rng)
		if !c06Wf(p) {
			e.R.H("host_callback_shapes_outside_the_model(skipped)", "1")
			continue
		}
		instant, kind := "later", "cancel"
		if rng.Chance(25) {
			instant = "pre"
		}
		if rng.Chance(20) {
			kind = "deadline"
		}
		c06Eval(e, mk(p, instant, kind))
	}
	// 8. deferred script closures held by the frames the cancellation interrupts: fixed
	// witnesses, the systematic product {where the holding frame sits} x {what the deferred
	// closure does} x {what the code is doing when the context fires}, random nestings
	deferFixed := []struct {
		c                   c06Case
		holder, body, parks string
	}{
		{c06Single(c06F(c06E(c06S(), c06S()), c06Done), "later", "deadline", 0, 1), "the function itself", "unbounded loop", "loop"},
		{c06Single(c06F(c06E(c06S(), c06S()), c06Done), "later", "cancel", 0, 2), "the function itself", "unbounded loop", "loop"},
		{c06Single(c06F(c06E(c06S(), c06S()), c06S()), "later", "cancel", 0, 3), "the function itself", "unbounded loop", "loop"},
		{c06Single(c06F(c06E(c06S(), c06S()), c06Done), "later", "far", 0, 4), "the function itself", "unbounded loop", "loop"},
		{c06Single(c06F(c06E(c06S(), c06S()), c06Done), "later", "parent", 0, 5), "the function itself", "unbounded loop", "loop"},
		{c06Single(c06W("each", c06E(c06S(), c06S()), c06Done), "later", "cancel", 0, 1), "the callback of a builtin", "unbounded loop", "loop"},
		{c06Single(c06F(c06E(c06S(), c06W("map", c06S(), c06Done)), c06Done), "later", "cancel", 0, 1), "the caller of a builtin whose callback is parked", "unbounded loop", "loop"},
		{c06Single(c06F(c06E(c06S(), c06B("recv", c06Done)), c06Done), "later", "cancel", 0, 1), "the function itself", "unbounded loop", "receive"},
		{c06Single(c06F(c06E(c06S(), c06C(c06Done)), c06Done), "later", "cancel", 0, 1), "the deferred closure is what is running (frame returned)", "unbounded loop", "loop"},
		{c06Single(c06F(c06E(c06C(c06Done), c06S()), c06Done), "later", "cancel", 0, 1), "the function itself", "terminating cleanup", "loop"},
		{c06Single(c06F(c06E(c06S(), c06S()), c06Done), "pre", "cancel", 0, 1), "the function itself", "unbounded loop", "loop"},
		// on a VM that has been used before: vm.Call of a function whose callee holds the deferred loop
		{c06Case{stages: []c06Stage{{prog: c06C(c06Done), entry: "run"}, {prog: c06F(c06E(c06S(), c06S()), c06Done), entry: "call"}}, fire: 1, instant: "later", ctxKind: "cancel", flavSeed: 1}, "the function itself", "unbounded loop", "loop"},
		{c06Case{stages: []c06Stage{{prog: c06C(c06Done), entry: "run", own: true}, {prog: c06W("sorted", c06E(c06S(), c06S()), c06Done), entry: "runcode"}, {prog: c06S(), entry: "call"}}, fire: 1, instant: "later", ctxKind: "cancel", flavSeed: 2}, "the callback of a builtin", "unbounded loop", "loop"},
	}
	for _, d := range deferFixed {
		c := d.c
		c06Normalise(&c)
		c06EvalDeferred(e, c, d.holder, d.body, d.parks)
	}
	deferSys := c06DeferSystematic(rng)
	nDeferSys, nDeferRand := 55, 30
	if !e.Quick {
		nDeferSys, nDeferRand = len(deferSys), 500
	}
	for i := 0; i < nDeferSys; i++ {
		var d c06DeferCase
		if e.Quick {
			d = deferSys[rng.Intn(len(deferSys))]
		} else {
			d = deferSys[i%len(deferSys)]
		}
		instant, kind := "later", "cancel"
		if rng.Chance(8) {
			instant = "pre"
		}
		if rng.Chance(20) {
			kind = "deadline"
		}
		c06EvalDeferred(e, mk(c06Clone(d.prog), instant, kind), d.holder, d.body, d.parks)
	}
	for i := 0; i < nDeferRand; i++ {
		p := c06DeferRandom(rng, 0)
		if rng.Chance(20) {
			p = c06C(p)
		}
		if !c06Wf(p) {
			e.R.H("deferred_shapes_outside_the_model(skipped)", "1")
			continue
		}
		instant, kind := "later", "cancel"
		if rng.Chance(20) {
			kind = "deadline"
		}
		c06EvalDeferred(e, mk(p, instant, kind), "random nesting", "random", "random")
	}
	// 9. imports of source modules: the top-level code of a module runs as a nested eval under the
	// importer's context — fixed witnesses, the systematic product {where the import sits} x {what
	// the module body does} x {what follows}, random shapes of the other classes with stretches of
	// code moved into imported modules, sequences on one VM
	rform := func(prim string, form int) *c06Prog { return &c06Prog{kind: "B", arg: prim, form: form, k: c06Done} }
	importFixed := []struct {
		c          c06Case
		site, body string
	}{
		{c06Single(c06W("imp", c06B("recv", c06Done), c06Done), "later", "cancel", 0, 1), "main code", "blocks in a receive"},
		{c06Single(c06W("imp", c06B("recv", c06Done), c06Done), "later", "deadline", 0, 2), "main code", "blocks in a receive"},
		{c06Single(c06W("imp", c06B("sleep", c06C(c06Done)), c06S()), "later", "far", 0, 3), "main code", "sleeps"},
		{c06Single(c06W("imp", c06B("wait", c06Done), c06Done), "later", "child", 0, 1), "main code", "waits for a thread"},
		{c06Single(c06W("imp", c06B("send", c06Done), c06S()), "later", "parent", 0, 2), "main code", "blocks in a send"},
		{c06Single(c06W("imp", c06B("next", c06C(c06Done)), c06S()), "later", "cancel", 0, 3), "main code", "ranges over a channel"},
		{c06Single(c06W("imp", c06C(c06S()), c06Done), "later", "cancel", 0, 1), "main code", "loops"},
		{c06Single(c06W("imp", c06C(c06S()), c06Done), "pre", "cancel", 0, 1), "main code", "loops"},
		// the module body starts goroutines and returns; the importer goes on and is stopped by the poll
		{c06Single(c06W("imp", c06G(rform("recv", 3), c06C(c06Done)), c06S()), "later", "cancel", 0, 1), "main code", "starts a goroutine whose channel operations never wait, and returns"},
		{c06Single(c06W("imp", c06G(rform("send", 4), c06C(c06Done)), c06S()), "later", "deadline", 0, 2), "main code", "starts a goroutine whose channel operations never wait, and returns"},
		{c06Single(c06W("imp", c06G(rform("recv", 4), c06G(c06B("recv", c06Done), c06Done)), c06B("sleep", c06S())), "later", "cancel", 0, 3), "main code", "starts goroutines and returns"},
		{c06Single(c06W("imp", c06G(c06G(rform("send", 3), c06B("recv", c06Done)), c06B("recv", c06Done)), c06Done), "later", "cancel", 0, 4), "main code", "starts goroutines two deep, then blocks itself"},
		{c06Single(c06W("imp", c06C(c06W("imp", c06B("recv", c06Done), c06Done)), c06Done), "later", "cancel", 0, 1), "the top-level code of another module", "blocks in a receive"},
		{c06Single(c06F(c06W("imp", c06B("send", c06Done), c06Done), c06S()), "later", "cancel", 0, 1), "a function", "blocks in a send"},
		{c06Single(c06G(c06W("imp", c06B("recv", c06Done), c06Done), c06S()), "later", "cancel", 0, 1), "a spawned function", "blocks in a receive"},
		{c06Single(c06G(c06W("imp", c06G(rform("recv", 3), c06Done), c06B("wait", c06Done)), c06B("recv", c06Done)), "later", "cancel", 0, 2), "a spawned function", "starts a goroutine whose channel operations never wait, and returns"},
		{c06Single(c06W("try", c06W("imp", c06B("recv", c06Done), c06Done), c06S()), "later", "cancel", 0, 1), "the callback of a builtin", "blocks in a receive"},
		{c06Single(c06F(c06E(c06S(), c06W("imp", c06B("recv", c06Done), c06Done)), c06Done), "later", "cancel", 0, 1), "a function that holds a deferred loop", "blocks in a receive"},
		// an import statement reached only after the cancellation (the importer's parser observes the context)
		{c06Single(c06G(c06B("sleep", c06W("imp", c06C(c06S()), c06Done)), c06S()), "later", "cancel", 0, 1), "a spawned function, after a sleep / a range over a channel that the cancellation ends", "loops"},
		{c06Single(c06G(c06B("next", c06C(c06W("imp", c06G(c06S(), c06S()), c06Done))), c06B("recv", c06Done)), "later", "deadline", 0, 2), "a spawned function, after a sleep / a range over a channel that the cancellation ends", "starts a goroutine and loops"},
		{c06Single(c06B("sleep", c06W("imp", c06S(), c06Done)), "later", "cancel", 0, 1), "main code, after a sleep that the cancellation ends", "loops"},
		{c06Single(c06W("try", c06B("recv", c06Done), c06W("imp", c06B("recv", c06Done), c06Done)), "later", "far", 0, 1), "main code, after a failed wait that try() swallowed", "blocks in a receive"},
		{c06Single(c06G(c06W("imp", c06S(), c06Done), c06W("imp", c06C(c06Done), c06S())), "pre", "cancel", 0, 1), "a spawned function", "loops"},
		// on a VM that has been used before
		{c06Case{stages: []c06Stage{{prog: c06W("imp", c06C(c06Done), c06C(c06Done)), entry: "run"}, {prog: c06W("imp", c06G(c06B("recv", c06Done), c06B("recv", c06Done)), c06Done), entry: "call"}}, fire: 1, instant: "later", ctxKind: "cancel", flavSeed: 1}, "a function", "starts a goroutine that blocks, then blocks itself"},
		{c06Case{stages: []c06Stage{{prog: c06C(c06Done), entry: "run", own: true}, {prog: c06W("imp", c06B("sleep", c06B("recv", c06Done)), c06Done), entry: "runcode"}, {prog: c06W("imp", c06S(), c06Done), entry: "runcode"}}, fire: 1, instant: "later", ctxKind: "cancel", flavSeed: 2}, "main code", "sleeps"},
	}
	for _, d := range importFixed {
		c := d.c
		c06Normalise(&c)
		c06EvalImported(e, c, d.site, d.body)
	}
	importSys := c06ImportSystematic(rng)
	nImpSys, nImpRand, nImpSeq := 60, 45, 12
	if !e.Quick {
		nImpSys, nImpRand, nImpSeq = 3*len(importSys), 700, 150
	}
	for i := 0; i < nImpSys; i++ {
		var d c06ImportCase
		if e.Quick {
			d = importSys[rng.Intn(len(importSys))]
		} else {
			d = importSys[i%len(importSys)]
		}
		instant, kind := "later", "cancel"
		if rng.Chance(12) {
			instant = "pre"
		}
		if rng.Chance(20) {
			kind = "deadline"
		}
		c06EvalImported(e, mk(c06Clone(d.prog), instant, kind), d.site, d.body)
	}
	for i := 0; i < nImpRand; i++ {
		var p *c06Prog
		switch rng.Intn(5) {
		case 0, 1, 2:
			p = c06Thread(rng, 0, 3, rng.Chance(12))
		case 3:
			p = c06DeferRandom(rng, 0)
		default:
			p = c06HostRandom(rng)
		}
		p = c06AddImports(rng, p, 22, false)
		if !c06HasImport(p) {
			p = c06ImportSplit(rng, p)
		}
		if !c06Wf(p) {
			e.R.H("import_shapes_outside_the_model(skipped)", "1")
			continue
		}
		instant, kind := "later", "cancel"
		if rng.Chance(20) {
			instant = "pre"
		}
		if rng.Chance(20) {
			kind = "deadline"
		}
		c06EvalImported(e, mk(p, instant, kind), "random position", "random stretch of code")
	}
	for i := 0; i < nImpSeq; i++ {
		d := importSys[rng.Intn(len(importSys))]
		var after []*c06Prog
		if rng.Chance(40) {
			after = append(after, c06AddImports(rng, c06Thread(rng, 0, 2, rng.Chance(15)), 30, false))
		}
		instant := "later"
		if rng.Chance(25) {
			instant = "pre"
		}
		c := c06Sequence(rng, 1+rng.Intn(2), c06Clone(d.prog), instant, after, 60)
		ok := true
		for j := range c.stages {
			if j < c.fire {
				// earlier evaluations on the VM import modules of their own (they end by themselves)
				c.stages[j].prog = c06AddImports(rng, c.stages[j].prog, 35, false)
			}
			ok = ok && c06Wf(c.stages[j].prog)
		}
		if !ok {
			e.R.H("import_shapes_outside_the_model(skipped)", "1")
			continue
		}
		c.ctxKind = kindOf("cancel")
		c.delayMs = delay()
		c.flavSeed = rng.Next()
		c06Normalise(&c)
		c06EvalImported(e, c, d.site+" (VM used before)", d.body)
	}
	// 10. several evaluations, each with its own context, sharing host-supplied channel objects
	// (c06shared.go; model RisorModel/C06/Shared.lean)
	c06RunShared(e, rng)
	// 6. the RunCode reset race, directly
	c06ProbeReset(e, probe)
	for id, c := range c06ProposedSeen {
		e.R.Note("PROPOSED FINDING %s (findings/proposed-C06.json, not yet in known_findings.json) reproduced on: %s", id, c)
	}
	e.R.Note("every case runs the real parser, compiler and vm.Run / vm.Call / vm.RunCode in-process; leaked loops are ended through the host tick() flag after the observation and the goroutine count is required to return to its baseline")
}

func c06Clone(p *c06Prog) *c06Prog {
	if p == nil {
		return nil
	}
	q := *p
	q.body = c06Clone(p.body)
	q.k = c06Clone(p.k)
	return &q
}
