package main

// C06 — cancelling the context stops the evaluation and everything it started.
//
// Real code: parser + compiler + vm.Run (what risor.Eval/EvalCode do) on generated program
// shapes, with the context cancelled (or its deadline reached) before the start, while
// every thread is parked in its loop / blocking primitive, or after the main code returned.
// Impl model: RisorModel/C06 through the oracle (`C06 run <instant> <shape>`): the set of
// outcomes the model allows for the shape (error class of the call | threads that never
// stop).  Spec: evaluated here on the real results (context's error returned, no host
// `tick()` counter advancing after the return, goroutines settle).
//
// All verdicts are logical (error value, counters across samples, goroutine count); the
// time limits (seconds) only bound the waiting.  Leaked goroutines are ended through a host
// flag after the observation so that no case disturbs the next one.

import (
	"context"
	"errors"
	"fmt"
	"os"
	"runtime"
	"sort"
	"strconv"
	"strings"
	"sync/atomic"
	"time"

	"github.com/risor-io/risor"
	"github.com/risor-io/risor/compiler"
	"github.com/risor-io/risor/object"
	"github.com/risor-io/risor/parser"
	"github.com/risor-io/risor/vm"
)

func init() { commands["C06"] = c06_runC06 }

const (
	c06FindLeak    = "C06-spawned-goroutine-survives-cancel"
	c06FindLossy   = "C06-context-error-identity-lost"
	c06FindSwallow = "C06-cancellation-swallowed-nil-result"
)

// ---- program shapes (mirror of Risor.C06.Prog) ----

type c06Prog struct {
	kind string // D C S B W G
	arg  string // primitive / wrapper
	id   int    // thread id of a spawn
	body *c06Prog
	k    *c06Prog
}

var c06Done = &c06Prog{kind: "D"}

func c06C(k *c06Prog) *c06Prog              { return &c06Prog{kind: "C", k: k} }
func c06S() *c06Prog                        { return &c06Prog{kind: "S"} }
func c06B(p string, k *c06Prog) *c06Prog    { return &c06Prog{kind: "B", arg: p, k: k} }
func c06W(w string, b, k *c06Prog) *c06Prog { return &c06Prog{kind: "W", arg: w, body: b, k: k} }
func c06G(b, k *c06Prog) *c06Prog           { return &c06Prog{kind: "G", body: b, k: k} }
func (p *c06Prog) then(k *c06Prog) *c06Prog { // replace the trailing D of p by k (spin absorbs)
	switch p.kind {
	case "D":
		return k
	case "S":
		return p
	}
	q := *p
	q.k = p.k.then(k)
	return &q
}

// number assigns thread ids to spawn sites in preorder (1, 2, …) and returns their count.
func (p *c06Prog) number(next *int) {
	switch p.kind {
	case "D", "S":
	case "C", "B":
		p.k.number(next)
	case "W":
		p.body.number(next)
		p.k.number(next)
	case "G":
		*next++
		p.id = *next
		p.body.number(next)
		p.k.number(next)
	}
}

func (p *c06Prog) toks(out *[]string) {
	switch p.kind {
	case "D", "S":
		*out = append(*out, p.kind)
	case "C":
		*out = append(*out, "C")
		p.k.toks(out)
	case "B":
		*out = append(*out, "B", p.arg)
		p.k.toks(out)
	case "W":
		*out = append(*out, "W", p.arg)
		p.body.toks(out)
		p.k.toks(out)
	case "G":
		*out = append(*out, "G", strconv.Itoa(p.id))
		p.body.toks(out)
		p.k.toks(out)
	}
}

func (p *c06Prog) String() string {
	var t []string
	p.toks(&t)
	return strings.Join(t, " ")
}

func (p *c06Prog) walk(f func(*c06Prog, int), depth int) {
	f(p, depth)
	switch p.kind {
	case "C", "B":
		p.k.walk(f, depth)
	case "W":
		p.body.walk(f, depth)
		p.k.walk(f, depth)
	case "G":
		p.body.walk(f, depth+1)
		p.k.walk(f, depth)
	}
}

// ---- rendering to risor source ----

type c06Render struct {
	rng   *RNG
	n     int
	flav  []string
	lines []string
}

func (r *c06Render) emit(ind int, s string) {
	r.lines = append(r.lines, strings.Repeat("  ", ind)+s)
}
func (r *c06Render) fl(kind string, n int) int {
	f := r.rng.Intn(n)
	r.flav = append(r.flav, kind+strconv.Itoa(f))
	return f
}

func (r *c06Render) prog(p *c06Prog, tid, ind int) {
	switch p.kind {
	case "D":
	case "C":
		switch r.fl("c", 3) {
		case 0:
			r.emit(ind, "1 + 1")
		case 1:
			r.emit(ind, "len([1, 2])")
		default:
			r.emit(ind, `"a" + "b"`)
		}
		r.prog(p.k, tid, ind)
	case "S":
		t := strconv.Itoa(tid)
		switch r.fl("s", 5) {
		case 0: // bare infinite loop
			r.emit(ind, "for { tick("+t+") }")
		case 1: // condition loop
			r.emit(ind, "for true { tick("+t+") }")
		case 2: // three-clause loop
			r.emit(ind, "for j := 0; j >= 0; j++ { tick("+t+") }")
		case 3: // range loop inside a driver
			r.emit(ind, "for { for _, v := range [1, 2, 3] { tick("+t+") } }")
		default: // deep recursion, over and over
			r.n++
			f := "rec" + strconv.Itoa(r.n)
			r.emit(ind, "func "+f+"(n) { if n <= 0 { return 0 }; return "+f+"(n - 1) + 1 }")
			r.emit(ind, "for { "+f+"(300); tick("+t+") }")
		}
	case "B":
		r.n++
		n := strconv.Itoa(r.n)
		t := strconv.Itoa(tid)
		switch p.arg {
		case "recv":
			r.emit(ind, "c"+n+" := chan()")
			r.emit(ind, "mark("+t+")")
			if r.fl("r", 2) == 0 {
				r.emit(ind, "c"+n+".receive()")
			} else {
				r.emit(ind, "<-c"+n)
			}
		case "send":
			r.emit(ind, "c"+n+" := chan()")
			r.emit(ind, "mark("+t+")")
			if r.fl("w", 2) == 0 {
				r.emit(ind, "c"+n+".send(1)")
			} else {
				r.emit(ind, "c"+n+" <- 1")
			}
		case "next":
			r.emit(ind, "c"+n+" := chan()")
			r.emit(ind, "mark("+t+")")
			r.emit(ind, "for _, v := range c"+n+" { v }")
		case "sleep":
			r.emit(ind, "mark("+t+")")
			r.emit(ind, "time.sleep(3600)")
		case "wait":
			r.emit(ind, "t"+n+" := spawn(hold)")
			r.emit(ind, "mark("+t+")")
			r.emit(ind, "t"+n+".wait()")
		}
		r.prog(p.k, tid, ind)
	case "W":
		switch p.arg {
		case "each", "map", "filter":
			r.emit(ind, "[1]."+p.arg+"(func(v) {")
		case "call":
			r.emit(ind, "call(func() {")
		case "sorted":
			r.emit(ind, "sorted([2, 1], func(a, b) {")
		case "try":
			r.emit(ind, "try(func() {")
		}
		r.prog(p.body, tid, ind+1)
		r.emit(ind, "})")
		r.prog(p.k, tid, ind)
	case "G":
		// a `go` statement that ends the main code is followed by one more instruction (a
		// poll the shape does not have); there the call form is used
		last := tid == 0 && ind == 0 && p.k.kind == "D"
		if r.fl("g", 2) == 0 && !last {
			r.emit(ind, "go func() {")
			r.prog(p.body, p.id, ind+1)
			r.emit(ind, "}()")
		} else {
			r.emit(ind, "spawn(func() {")
			r.prog(p.body, p.id, ind+1)
			r.emit(ind, "})")
		}
		r.prog(p.k, tid, ind)
	}
}

// ---- generators ----

var c06Prims = []string{"recv", "send", "next", "sleep", "wait"}
var c06Wraps = []string{"each", "map", "filter", "call", "sorted", "try"}

// c06Tail: what follows a blocking primitive (runs only once the context has fired).
func c06Tail(r *RNG, depth, budget int) *c06Prog {
	switch r.Intn(8) {
	case 0, 1, 2:
		return c06Done
	case 3:
		return c06C(c06Done)
	case 4:
		return c06C(c06C(c06S()))
	case 5:
		return c06S()
	case 6:
		if budget > 0 {
			return c06B(Pick(r, c06Prims), c06Tail(r, depth, budget-1))
		}
		return c06Done
	default:
		if depth < 3 && budget > 0 {
			return c06G(c06Thread(r, depth+1, budget-1, true), c06Tail(r, depth, budget-1))
		}
		return c06C(c06Done)
	}
}

// c06Park: a parking action (never ends by itself), possibly inside callbacks.
func c06Park(r *RNG, depth, budget int) *c06Prog {
	var p *c06Prog
	if r.Chance(45) {
		p = c06S()
	} else {
		p = c06B(Pick(r, c06Prims), c06Tail(r, depth, budget))
	}
	for n := 0; n < 2 && r.Chance(40); n++ {
		p = c06W(Pick(r, c06Wraps), p, c06Tail(r, depth, budget-1))
	}
	return p
}

// c06Thread: prefix (computes, spawns, finished callbacks) then a parking action or the end.
func c06Thread(r *RNG, depth, budget int, mayEnd bool) *c06Prog {
	var pre []func(*c06Prog) *c06Prog
	n := r.Intn(3)
	for i := 0; i < n; i++ {
		switch r.Intn(4) {
		case 0, 1:
			pre = append(pre, c06C)
		case 2:
			if depth < 3 && budget > 0 {
				b := c06Thread(r, depth+1, budget-1, true)
				pre = append(pre, func(k *c06Prog) *c06Prog { return c06G(b, k) })
			}
		default:
			w := Pick(r, c06Wraps)
			var b *c06Prog = c06C(c06Done)
			if depth < 3 && budget > 0 && r.Chance(40) {
				b = c06G(c06Thread(r, depth+1, budget-1, true), c06Done)
			}
			pre = append(pre, func(k *c06Prog) *c06Prog { return c06W(w, b, k) })
		}
	}
	var end *c06Prog
	if mayEnd && r.Chance(20) {
		end = c06Done
	} else {
		end = c06Park(r, depth, budget)
	}
	for i := len(pre) - 1; i >= 0; i-- {
		end = pre[i](end)
	}
	return end
}

// c06Systematic: parking action × callback wrapper × spawn depth (the parked action sits in
// a thread nested `depth` deep; every ancestor parks as well).
func c06Systematic(r *RNG) []*c06Prog {
	var parks []*c06Prog
	parks = append(parks, c06S())
	for _, p := range c06Prims {
		parks = append(parks, c06B(p, c06Done), c06B(p, c06C(c06Done)))
	}
	var out []*c06Prog
	for _, park := range parks {
		for wi := -1; wi < len(c06Wraps); wi++ {
			for depth := 0; depth <= 3; depth++ {
				p := park
				if wi >= 0 {
					p = c06W(c06Wraps[wi], park, c06Done)
				}
				for d := depth; d > 0; d-- {
					var anc *c06Prog
					if r.Bool() {
						anc = c06S()
					} else {
						anc = c06B(Pick(r, c06Prims), c06Done)
					}
					p = c06G(p, anc)
				}
				out = append(out, p)
			}
		}
	}
	return out
}

// ---- one case on the real code ----

type c06Case struct {
	prog     *c06Prog
	instant  string // pre | later
	ctxKind  string // cancel | deadline
	delayMs  int
	flavSeed uint64
}

type c06Obs struct {
	errClass string
	errText  string
	ticking  []int
	hang     bool
	unparked string
	latency  time.Duration
	stuckGor int
	src      string
	flav     string
}

func c06ParseReply(rep string) (parked map[int]string, nonterm bool, outs []string, guards string, ok bool) {
	f := strings.Split(rep, "\t")
	if len(f) != 5 || f[0] != "ok" {
		return nil, false, nil, "", false
	}
	parked = map[int]string{}
	for _, kv := range strings.Split(strings.TrimPrefix(f[1], "parked="), ",") {
		a := strings.SplitN(kv, ":", 2)
		if len(a) == 2 {
			id, _ := strconv.Atoi(a[0])
			parked[id] = a[1]
		}
	}
	nonterm = f[2] == "nonterm=1"
	outs = strings.Split(strings.TrimPrefix(f[3], "outs="), ";")
	guards = strings.TrimPrefix(f[4], "guards=")
	return parked, nonterm, outs, guards, true
}

// once a few cases have hung / left goroutines behind the verdict is established; the
// remaining cases wait less so that a broken tree does not cost minutes per case
var c06Hangs, c06Stucks int

func c06Run(c c06Case, nThreads int, parked map[int]string, accept func(string, []int) bool) (obs c06Obs) {
	rd := &c06Render{rng: NewRNG(c.flavSeed)}
	rd.prog(c.prog, 0, 0)
	obs.src = strings.Join(rd.lines, "\n")
	obs.flav = strings.Join(rd.flav, "")

	ticks := make([]int64, nThreads+1)
	marks := make([]int64, nThreads+1)
	var stop int32
	release := make(chan struct{})
	idx := func(args []object.Object) int {
		if len(args) == 1 {
			if i, ok := args[0].(*object.Int); ok && i.Value() >= 0 && int(i.Value()) <= nThreads {
				return int(i.Value())
			}
		}
		return 0
	}
	tick := object.NewBuiltin("tick", func(ctx context.Context, args ...object.Object) object.Object {
		atomic.AddInt64(&ticks[idx(args)], 1)
		if atomic.LoadInt32(&stop) == 1 {
			return object.Errorf("host stop")
		}
		return object.Nil
	})
	mark := object.NewBuiltin("mark", func(ctx context.Context, args ...object.Object) object.Object {
		atomic.AddInt64(&marks[idx(args)], 1)
		return object.Nil
	})
	hold := object.NewBuiltin("hold", func(ctx context.Context, args ...object.Object) object.Object {
		<-release // host code, not script code: ends when the harness says so
		return object.Nil
	})

	cfg := risor.NewConfig(risor.WithConcurrency(), risor.WithGlobals(map[string]any{"tick": tick, "mark": mark, "hold": hold}))
	ast, err := parser.Parse(context.Background(), obs.src)
	if err != nil {
		obs.errClass, obs.errText = "other", "parse: "+err.Error()
		return
	}
	code, err := compiler.Compile(ast, cfg.CompilerOpts()...)
	if err != nil {
		obs.errClass, obs.errText = "other", "compile: "+err.Error()
		return
	}

	base := runtime.NumGoroutine()
	var ctx context.Context
	var cancel context.CancelFunc
	const deadlineMs = 120
	switch {
	case c.ctxKind == "deadline" && c.instant == "pre":
		ctx, cancel = context.WithDeadline(context.Background(), time.Now().Add(-time.Second))
	case c.ctxKind == "deadline":
		ctx, cancel = context.WithTimeout(context.Background(), deadlineMs*time.Millisecond)
	default:
		ctx, cancel = context.WithCancel(context.Background())
		if c.instant == "pre" {
			cancel()
		}
	}
	type result struct {
		err error
		at  time.Time
	}
	done := make(chan result, 1)
	go func() {
		var err error
		func() {
			defer func() {
				if r := recover(); r != nil {
					err = fmt.Errorf("PANIC: %v", r)
				}
			}()
			_, err = vm.Run(ctx, code, cfg.VMOpts()...)
		}()
		done <- result{err, time.Now()}
	}()

	var res *result
	waitRes := func(limit time.Duration) bool {
		if res != nil {
			return true
		}
		select {
		case r := <-done:
			res = &r
			return true
		case <-time.After(limit):
			return false
		}
	}
	var cancelAt time.Time
	if c.instant == "later" {
		// logical synchronisation: every thread the model parks has ticked / marked
		limit := time.Now().Add(5 * time.Second)
		for {
			missing := ""
			for id, kind := range parked {
				switch kind {
				case "S":
					if atomic.LoadInt64(&ticks[id]) == 0 {
						missing = fmt.Sprintf("thread %d not spinning", id)
					}
				case "B":
					if atomic.LoadInt64(&marks[id]) == 0 {
						missing = fmt.Sprintf("thread %d not at its blocking call", id)
					}
				case "F":
					if id == 0 && !waitRes(0) {
						missing = "main code has not returned"
					}
				}
			}
			if missing == "" {
				break
			}
			if ctx.Err() != nil {
				obs.unparked = "deadline passed before all threads were parked: " + missing
				break
			}
			if time.Now().After(limit) {
				obs.unparked = missing
				break
			}
			time.Sleep(200 * time.Microsecond)
		}
		if obs.unparked == "" {
			if c.ctxKind == "cancel" {
				time.Sleep(time.Duration(c.delayMs)*time.Millisecond + 2*time.Millisecond)
				cancelAt = time.Now()
				cancel()
			} else {
				<-ctx.Done()
				cancelAt = time.Now()
			}
		}
	} else {
		cancelAt = time.Now()
	}

	if obs.unparked == "" {
		hangLimit := 10 * time.Second
		if c06Hangs >= 3 {
			hangLimit = 1500 * time.Millisecond
		}
		if !waitRes(hangLimit) {
			obs.hang = true
			c06Hangs++
		}
	}
	sample := func() []int64 {
		s := make([]int64, len(ticks))
		for i := range ticks {
			s[i] = atomic.LoadInt64(&ticks[i])
		}
		return s
	}
	if res != nil && obs.unparked == "" {
		obs.latency = res.at.Sub(cancelAt)
		// Which threads keep running: sample the per-thread counters every 25 ms.  Window 1 is
		// a settling window.  A thread "keeps running" when it advanced in >= 2 windows after
		// the first, one of them in the second half of the observation; a thread that was
		// merely finishing stops advancing for good.  At least 3 windows are taken; the
		// observation goes on (up to 40 windows = 1 s) while the verdict is still changing or is not one the model allows, so that
		// a loaded machine (a starved goroutine that has not ticked yet) does not decide it.
		switch {
		case res.err == nil:
			obs.errClass = "nil"
		case ctx.Err() != nil && errors.Is(res.err, ctx.Err()):
			obs.errClass = "ctx"
		case ctx.Err() != nil && strings.Contains(res.err.Error(), ctx.Err().Error()):
			obs.errClass = "msg"
		default:
			obs.errClass = "other"
		}
		const gap = 25 * time.Millisecond
		samples := [][]int64{sample()}
		classify := func() []int {
			w := len(samples) - 1
			var run []int
			for i := range ticks {
				n, recent := 0, false
				for j := 2; j <= w; j++ {
					if samples[j][i] > samples[j-1][i] {
						n++
						if 2*j >= w {
							recent = true
						}
					}
				}
				if n >= 2 && recent {
					run = append(run, i)
				}
			}
			return run
		}
		prev := "?"
		for w := 1; w <= 40; w++ {
			time.Sleep(gap)
			samples = append(samples, sample())
			if w < 3 {
				continue
			}
			obs.ticking = classify()
			cur := fmt.Sprint(obs.ticking)
			if cur == prev && accept(obs.errClass, obs.ticking) {
				break
			}
			prev = cur
		}
		if res.err != nil {
			obs.errText = fmt.Sprintf("%T %q", res.err, res.err.Error())
		}
	}
	// clean up: end leaked loops through the host flag, release host-held threads
	atomic.StoreInt32(&stop, 1)
	cancel()
	close(release)
	if res == nil {
		if c06Hangs > 3 {
			waitRes(300 * time.Millisecond)
		} else {
			waitRes(2 * time.Second)
		}
	}
	settle := 3 * time.Second
	if c06Stucks >= 3 {
		settle = 300 * time.Millisecond
	}
	limit := time.Now().Add(settle)
	for runtime.NumGoroutine() > base && time.Now().Before(limit) {
		time.Sleep(500 * time.Microsecond)
	}
	if g := runtime.NumGoroutine(); g > base {
		obs.stuckGor = g - base
		c06Stucks++
	}
	return obs
}

func c06Key(c c06Case, flav string) string {
	return fmt.Sprintf("%s/%s %s [%s]", c.instant, c.ctxKind, c.prog.String(), flav)
}

func c06Eval(e *Env, c c06Case) {
	n := 0
	c.prog.number(&n)
	shape := c.prog.String()
	rep := e.O.Ask("C06", "run", c.instant, shape)
	parked, nonterm, outs, guards, ok := c06ParseReply(rep)
	if !ok {
		e.R.Mismatch(shape, "-", rep, "oracle rejected the shape")
		return
	}
	obs := c06Run(c, n, parked, func(cls string, run []int) bool {
		// is this (error class, set of running threads) an outcome the model allows?
		ids := make([]string, len(run))
		for i, t := range run {
			ids[i] = strconv.Itoa(t)
		}
		for _, o := range outs {
			if o == cls+"|"+strings.Join(ids, ",") {
				return true
			}
		}
		return false
	})
	key := c06Key(c, obs.flav)
	caseText := key + " :: " + strings.ReplaceAll(obs.src, "\n", " ⏎ ")

	// distribution
	anyParked := nonterm
	for id, k := range parked {
		if id != 0 && (k == "S" || k == "B") {
			anyParked = true
		}
	}
	e.R.Case(key, anyParked)
	e.R.H("instant", c.instant+"/"+c.ctxKind)
	e.R.H("main_parks_in", parked[0])
	e.R.H("threads", strconv.Itoa(n+1))
	maxDepth := 0
	c.prog.walk(func(p *c06Prog, d int) {
		switch p.kind {
		case "B":
			e.R.H("constructs", "block:"+p.arg)
		case "W":
			e.R.H("constructs", "callback:"+p.arg)
		case "S":
			e.R.H("constructs", "spin")
		case "G":
			e.R.H("constructs", "spawn")
			if d+1 > maxDepth {
				maxDepth = d + 1
			}
		}
	}, 0)
	e.R.H("spawn_depth", strconv.Itoa(maxDepth))
	for _, f := range []string{"s0", "s1", "s2", "s3", "s4"} {
		if strings.Contains(obs.flav, f) {
			e.R.H("loop_form", map[string]string{"s0": "for{}", "s1": "for cond{}", "s2": "for i;c;s{}", "s3": "range in driver", "s4": "deep recursion"}[f])
		}
	}

	if obs.unparked != "" {
		if strings.HasPrefix(obs.unparked, "deadline passed") {
			e.R.H("inconclusive", "deadline before parked")
			return
		}
		e.R.Mismatch(caseText, obs.unparked, "parked="+fmt.Sprint(parked), "the threads did not reach the parking points the model predicts")
		return
	}
	if obs.errClass == "other" && !obs.hang {
		e.R.Mismatch(caseText, "error "+obs.errText, strings.Join(outs, ";"), "unexpected error from the real code")
		return
	}
	goOut := obs.errClass
	if obs.hang {
		goOut = "hang"
	}
	ids := make([]string, len(obs.ticking))
	sort.Ints(obs.ticking)
	for i, t := range obs.ticking {
		ids[i] = strconv.Itoa(t)
	}
	goOut += "|" + strings.Join(ids, ",")
	e.R.H("outcome", goOut)
	e.R.H("allowed_outcomes", strconv.Itoa(len(outs)))
	if !obs.hang {
		ms := obs.latency.Milliseconds()
		b := "<1ms"
		switch {
		case ms >= 1000:
			b = ">=1s"
		case ms >= 100:
			b = "100ms-1s"
		case ms >= 10:
			b = "10-100ms"
		case ms >= 1:
			b = "1-10ms"
		}
		e.R.H("latency_cancel_to_return(supporting)", b)
	}
	agrees := false
	for _, o := range outs {
		if o == goOut {
			agrees = true
		}
	}
	if !agrees {
		e.R.Mismatch(caseText, goOut+" "+obs.errText, strings.Join(outs, ";"), "outcome (error class | threads still running) not among those the Impl model allows")
	}
	if obs.stuckGor > 0 {
		e.R.Mismatch(caseText, fmt.Sprintf("%d goroutine(s) still alive after the host ended every loop and the settle limit", obs.stuckGor), "all threads finished", "goroutine count did not settle")
	}

	// Spec on the real results
	attr := func(id string, bit int) string {
		if agrees && len(guards) == 3 && guards[bit] == '1' {
			return id
		}
		return ""
	}
	if obs.hang {
		e.R.Spec(caseText, "the call did not return within the limit (10 s; 1.5 s once three cases have hung) after the cancellation", "")
	}
	if len(obs.ticking) > 0 {
		e.R.Spec(caseText, fmt.Sprintf("script code keeps executing after the call returned %s: tick counters of thread(s) %s advance across three samples", obs.errClass, strings.Join(ids, ",")), attr(c06FindLeak, 0))
	}
	if nonterm && !obs.hang {
		switch obs.errClass {
		case "msg":
			e.R.Spec(caseText, "the call returned "+obs.errText+", which is not the context's error (errors.Is fails; only the text survived)", attr(c06FindLossy, 2))
		case "nil":
			e.R.Spec(caseText, "the call returned a nil error although its context fired while the program was looping/blocked", attr(c06FindSwallow, 1))
		}
	}
}

func c06_runC06(e *Env) {
	e.R.Rule = "a case is (program shape, cancellation instant, context kind, rendering flavours); shapes: a fixed list of replayed finding witnesses, the systematic product " +
		"{loop forms, 5 blocking primitives with/without code after them} x {no callback, each, map, filter, call, sorted, try} x {spawn depth 0..3}, and seeded random shapes " +
		"(prefix of computes/spawns/callbacks, parking action inside up to 2 callbacks, tails after blocking calls incl. further spawns, nesting <= 3); instants: context already " +
		"fired before the start, fired while every thread is parked (logical sync on tick/mark counters) or after the main code returned; cancel() or deadline; " +
		"non-trivial when some thread would loop or block for ever without cancellation; distinct by the whole tuple"
	if os.Getenv("VERIF_C06_DEBUG") != "" {
		defer func() {
			for _, m := range e.R.Mismatches {
				fmt.Fprintf(os.Stderr, "MISMATCH %s\n  go=%s\n  model=%s (%s)\n", m.Case, m.Go, m.Model, m.What)
			}
			for _, m := range e.R.SpecViolations {
				fmt.Fprintf(os.Stderr, "SPEC[%s] %s\n  %s\n", m.Finding, m.Case, m.Detail)
			}
		}()
	}
	rng := e.Rng.Fork()
	mk := func(p *c06Prog, instant, kind string) c06Case {
		return c06Case{prog: p, instant: instant, ctxKind: kind, delayMs: Pick(rng, []int{0, 0, 1, 5, 20}), flavSeed: rng.Next()}
	}
	// 1. witnesses of the recorded findings (the replay files name these shapes)
	fixed := []c06Case{
		{prog: c06G(c06S(), c06S()), instant: "later", ctxKind: "deadline", flavSeed: 1},
		{prog: c06G(c06S(), c06S()), instant: "later", ctxKind: "cancel", flavSeed: 1},
		{prog: c06W("each", c06S(), c06Done), instant: "later", ctxKind: "cancel", flavSeed: 1},
		{prog: c06B("wait", c06Done), instant: "later", ctxKind: "cancel", flavSeed: 1},
		{prog: c06W("try", c06S(), c06Done), instant: "later", ctxKind: "cancel", flavSeed: 1},
		{prog: c06B("sleep", c06Done), instant: "later", ctxKind: "cancel", flavSeed: 1},
	}
	for _, c := range fixed {
		c06Eval(e, c)
	}
	// 2. systematic product
	sys := c06Systematic(rng)
	nSys, nRand := 170, 150
	if !e.Quick {
		nSys, nRand = 4*len(sys), 2600
	}
	for i := 0; i < nSys; i++ {
		var p *c06Prog
		if e.Quick {
			p = sys[rng.Intn(len(sys))]
		} else {
			p = sys[i%len(sys)]
		}
		instant, kind := "later", "cancel"
		sel := rng.Intn(10)
		if !e.Quick {
			sel = (i / len(sys)) * 3 // passes: later/cancel, pre/cancel, later/deadline, pre/deadline
			if sel > 9 {
				sel = 9
			}
		}
		switch {
		case sel >= 9:
			instant, kind = "pre", "deadline"
		case sel >= 6:
			kind = "deadline"
		case sel >= 3:
			instant = "pre"
		}
		q := *p // ids are assigned per case
		c06Eval(e, mk(c06Clone(&q), instant, kind))
	}
	// 3. random shapes
	for i := 0; i < nRand; i++ {
		p := c06Thread(rng, 0, 4, rng.Chance(12))
		instant, kind := "later", "cancel"
		if rng.Chance(25) {
			instant = "pre"
		}
		if rng.Chance(25) {
			kind = "deadline"
		}
		c06Eval(e, mk(p, instant, kind))
	}
	e.R.Note("every case runs the real parser, compiler and vm.Run in-process; leaked loops are ended through the host tick() flag after the observation and the goroutine count is required to return to its baseline")
}

func c06Clone(p *c06Prog) *c06Prog {
	if p == nil {
		return nil
	}
	q := *p
	q.body = c06Clone(p.body)
	q.k = c06Clone(p.k)
	return &q
}
