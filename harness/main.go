package main

// verif harness: one sub-command per property.  It always compiles /repo's current
// working tree (go.mod: replace github.com/risor-io/risor => /repo) with -tags verif.
//
//   harness <Cnn> -tier quick|thorough -seed N -oracle <path> -out <result.json> [-replay <file>]

import (
	"flag"
	"fmt"
	"os"
	"strconv"
)

type Env struct {
	Tier   string
	Seed   uint64
	Rng    *RNG
	O      *Oracle
	R      *Result
	Replay string
	Quick  bool
}

var commands = map[string]func(*Env){}

func main() {
	if len(os.Args) < 2 {
		fmt.Fprintln(os.Stderr, "usage: harness <Cnn> [flags]")
		os.Exit(2)
	}
	prop := os.Args[1]
	if fn, ok := childCommands[prop]; ok { // child-process helpers (crash isolation)
		fn(os.Args[2:])
		return
	}
	fs := flag.NewFlagSet(prop, flag.ExitOnError)
	tier := fs.String("tier", "quick", "quick|thorough")
	seedS := fs.String("seed", "1", "VERIF_SEED")
	oracle := fs.String("oracle", "", "path of the compiled Lean oracle")
	out := fs.String("out", "", "result file")
	replay := fs.String("replay", "", "replay file")
	fs.Parse(os.Args[2:])
	seed, _ := strconv.ParseUint(*seedS, 10, 64)
	cmd, ok := commands[prop]
	if !ok {
		fmt.Fprintln(os.Stderr, "unknown property", prop)
		os.Exit(2)
	}
	env := &Env{Tier: *tier, Seed: seed, Rng: NewRNG(seed), Replay: *replay, Quick: *tier != "thorough"}
	env.R = NewResult(prop, *tier, seed)
	if *oracle != "" {
		o, err := StartOracle(*oracle)
		if err != nil {
			fmt.Fprintln(os.Stderr, "oracle:", err)
			os.Exit(3)
		}
		env.O = o
		defer o.Close()
	}
	cmd(env)
	if *out != "" {
		if err := env.R.Write(*out, env.O); err != nil {
			fmt.Fprintln(os.Stderr, "write result:", err)
			os.Exit(3)
		}
	}
}

// childCommands run inside a child process (cases that may kill the process).
var childCommands = map[string]func([]string){}
