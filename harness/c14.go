package main

// C14 — imports stay inside the import root, run once, keep their own globals.
//
// Real code (lexer, parser, compiler, VM, importer.LocalImporter / FSImporter) against the
// Lean model (RisorModel/C14) and against the Spec evaluated directly on the Go results:
//
//  stream 1 "spell": every import spelling x path texts the lexer can produce. The parser's
//    verdict and the module names the VM hands to the importer are compared with the
//    model's recogniser (`accepted`, `requestedNames`); the files opened are recorded by a
//    recording fs.FS (FSImporter) and by a temp tree with sentinel modules OUTSIDE the root
//    (LocalImporter).
//  stream 2 "graph": generated module trees (shared variable names, transitive, repeated,
//    failing and cyclic imports, imports inside try() and inside spawned clones) evaluated
//    on one VM with a host tick(location) builtin; body executions, files opened, outcome
//    and the complete reachable module state (module identities AND the identity of each
//    module's compiled code object) are compared with the model's `run`.  A quarter of the
//    programs are "twin" trees: several module paths with byte-identical source (copies of a
//    template) imported in one evaluation with state mutated between/after the imports; those
//    and every other plain program are also judged against a reference semantics written
//    directly from the property (every module path has its own variables, its body runs once
//    at its first import).  The importers alone are asked for sequences of names and the
//    pointer identities of the *compiler.Code they return are compared with the model's
//    importer (`codes`: distinct paths => distinct code objects, same path => same object).

import (
	"context"
	"fmt"
	"io/fs"
	"os"
	"path/filepath"
	"strconv"
	"strings"
	"sync"
	"testing/fstest"
	"unicode/utf8"

	"github.com/risor-io/risor"
	"github.com/risor-io/risor/compiler"
	"github.com/risor-io/risor/importer"
	"github.com/risor-io/risor/lexer"
	"github.com/risor-io/risor/object"
	"github.com/risor-io/risor/parser"
	"github.com/risor-io/risor/token"
	"github.com/risor-io/risor/vm"
)

func init() { commands["C14"] = c14_runC14 }

const (
	c14FindFail  = "C14-failed-import-reruns"
	c14FindClone = "C14-spawn-reimport"
)

var c14Exts = []string{".risor", ".rsr"}

// ---------------------------------------------------------------------------------------
// shared: tick builtin, recording importer, recording FS

type c14Ticks struct {
	mu sync.Mutex
	l  []string
}

func (t *c14Ticks) builtin() *object.Builtin {
	return object.NewBuiltin("tick", func(ctx context.Context, args ...object.Object) object.Object {
		s := "?"
		if len(args) == 1 {
			if v, ok := args[0].(*object.String); ok {
				s = v.Value()
			}
		}
		t.mu.Lock()
		t.l = append(t.l, s)
		t.mu.Unlock()
		return object.Nil
	})
}

type c14_recFSys struct {
	inner fs.FS
	mu    sync.Mutex
	opens []string
}

func (r *c14_recFSys) Open(name string) (fs.File, error) {
	r.mu.Lock()
	r.opens = append(r.opens, name)
	r.mu.Unlock()
	return r.inner.Open(name)
}

type c14_recImporter struct {
	inner importer.Importer
	mu    sync.Mutex
	names []string
}

func (r *c14_recImporter) Import(ctx context.Context, name string) (*object.Module, error) {
	r.mu.Lock()
	r.names = append(r.names, name)
	r.mu.Unlock()
	return r.inner.Import(ctx, name)
}

// independent (Go) statement of "a module name that cannot leave the root": non-empty
// '/'-separated components, none empty, "." or "..", no NUL or backslash, not rooted.
func c14NameConfined(n string) bool {
	if n == "" || strings.ContainsAny(n, "\x00\\") {
		return false
	}
	for _, c := range strings.Split(n, "/") {
		if c == "" || c == "." || c == ".." {
			return false
		}
	}
	return true
}

func c14ErrClass(err error) string {
	if err == nil {
		return "ok"
	}
	if strings.HasPrefix(err.Error(), "panic:") {
		return "panic"
	}
	return "err"
}

// ---------------------------------------------------------------------------------------
// stream 1: spellings x path texts

var c14Segs = []string{"a", "b", "d", "..", ".", "", "a1", "_x", "1a", "é", "日本", "a b", "a-b", "a.b", "..a", "a..", "%2e%2e",
	"\\", "a\\b", "A", "x", "\"", "\"a", "a\"", "\"..", "~", "*", "a\x00", "٣a", "secret", "as", "import", "\t", "a\n", "{x}", "$a"}

var c14Direct = []string{"a", "d/a", "d/b", "../secret", "../../secret", "/abs", "/", "a/", "/a", "a//b", "a/./b", "a/../b", "a/..", "..",
	".", "", "d/../../secret", "d/a/../../../secret", "\"a\"", "\"a", "a\"", "\"\"a\"\"", "\"../secret\"", "\"/abs\"", "\"d/a\"", "\"", "\"\"",
	"a/\"", "\"/a", "a\"/b", "d/\"a\"", "..\"", "\"..", "d/..\"", "é", "d/é", "a.b", "a.risor", "secret", "d\\a", "a\x00b", "d/a\n", "\na",
	"a b", " a", "a ", "d / a", "C:/a", "~/a", "$HOME/a", "d/日本", "_", "_/_", "a1/b_2/C3", "1/2"}

type c14Tok struct {
	typ token.Type
	lit string
}

func c14Lex(src string) (toks []c14Tok, err error) {
	defer func() {
		if r := recover(); r != nil {
			err = fmt.Errorf("lexer panic: %v", r)
		}
	}()
	l := lexer.New(src)
	for i := 0; i < 200; i++ {
		t, e := l.Next()
		if e != nil {
			return nil, e
		}
		toks = append(toks, c14Tok{t.Type, t.Literal})
		if t.Type == token.EOF {
			return toks, nil
		}
	}
	return nil, fmt.Errorf("too many tokens")
}

// shape of one import statement at token level; ok=false when the token sequence is not one
// of the statement forms the model covers (the case is then checked against the Spec only)
type c14Shape struct {
	kind    string // ident quoted fromdot fromq
	path    string
	parents []string
	items   []string
}

func c14ShapeOf(toks []c14Tok) (sh c14Shape, ok bool) {
	i := 0
	peek := func() token.Type {
		if i < len(toks) {
			return toks[i].typ
		}
		return token.EOF
	}
	end := func() bool {
		for peek() == token.NEWLINE || peek() == token.SEMICOLON {
			i++
		}
		return peek() == token.EOF
	}
	alias := func() bool {
		if peek() == token.AS {
			i++
			if peek() != token.IDENT {
				return false
			}
			i++
		}
		return true
	}
	switch peek() {
	case token.IMPORT:
		i++
		switch peek() {
		case token.IDENT:
			sh.kind = "ident"
		case token.STRING:
			sh.kind = "quoted"
		default:
			return sh, false
		}
		sh.path = toks[i].lit
		i++
		if !alias() {
			return sh, false
		}
		return sh, end()
	case token.FROM:
		i++
		switch peek() {
		case token.STRING:
			sh.kind = "fromq"
			sh.path = toks[i].lit
			i++
		case token.IDENT:
			sh.kind = "fromdot"
			for peek() == token.IDENT {
				sh.parents = append(sh.parents, toks[i].lit)
				i++
				if peek() != token.PERIOD {
					break
				}
				i++
				if peek() != token.IDENT {
					return sh, false
				}
			}
		default:
			return sh, false
		}
		if peek() != token.IMPORT {
			return sh, false
		}
		i++
		grouped := false
		if peek() == token.LPAREN {
			grouped = true
			i++
			for peek() == token.NEWLINE {
				i++
			}
		}
		for {
			if peek() != token.IDENT {
				return sh, false
			}
			sh.items = append(sh.items, toks[i].lit)
			i++
			if !alias() {
				return sh, false
			}
			if peek() != token.COMMA {
				break
			}
			i++
			if grouped {
				for peek() == token.NEWLINE {
					i++
				}
				if peek() == token.RPAREN {
					break
				}
			}
		}
		if grouped {
			if peek() != token.RPAREN {
				return sh, false
			}
			i++
		}
		return sh, end()
	}
	return sh, false
}

func c14Quote(s string) string {
	var b strings.Builder
	b.WriteByte('"')
	for i := 0; i < len(s); i++ {
		switch s[i] {
		case '"':
			b.WriteString("\\\"")
		case '\\':
			b.WriteString("\\\\")
		default:
			b.WriteByte(s[i])
		}
	}
	b.WriteByte('"')
	return b.String()
}

type c14Spell struct{ name, src string }

func c14Spellings(t string) []c14Spell {
	q := c14Quote(t)
	dotted := strings.ReplaceAll(t, "/", ".")
	return []c14Spell{
		{"import-ident", "import " + t},
		{"import-ident-as", "import " + t + " as zz"},
		{"import-quoted", "import " + q},
		{"import-quoted-as", "import " + q + " as zz"},
		{"import-single-quoted", "import '" + t + "'"},
		{"import-backtick", "import `" + t + "`"},
		{"from-dotted", "from " + dotted + " import x"},
		{"from-raw", "from " + t + " import x"},
		{"from-dotted-as", "from " + dotted + " import x as zz, y"},
		{"from-quoted", "from " + q + " import x"},
		{"from-quoted-as", "from " + q + " import x as zz"},
		{"from-grouped", "from " + dotted + " import (\n  x,\n  y as zz,\n)"},
		{"from-quoted-grouped", "from " + q + " import (x as zz, y)"},
		{"from-item", "from d import " + t},
		{"from-item-as", "from d import a as " + t},
	}
}

// the tempting tree: modules inside the root and sentinels outside it
func c14SpellFiles() (inside, outside map[string]string) {
	body := func(loc string) string { return "tick(" + strconv.Quote(loc) + ")\nx := 1\ny := 2\n" }
	inside = map[string]string{}
	for _, n := range []string{"a", "b", "d", "d/a", "d/b", "d/x", "a/x", "secret", "\"a\"", "\"a", "a\"", "é", "d/é", "_", "a1/b_2/C3", "A", "x", "_x", "a1", "a/b", "d/y"} {
		inside[n+".risor"] = body("root/" + n + ".risor")
	}
	outside = map[string]string{}
	for _, n := range []string{"secret", "a", "d", "x", "abs", "zz"} {
		outside[n+".risor"] = body("OUTSIDE/" + n + ".risor")
	}
	return
}

func c14Spell1(e *Env) {
	inside, outside := c14SpellFiles()
	outer, err := os.MkdirTemp("", "verif-c14s-")
	if err != nil {
		e.R.Note("cannot create temp tree: %v", err)
		return
	}
	defer os.RemoveAll(outer)
	root := filepath.Join(outer, "mid", "root")
	for rel, src := range inside {
		p := filepath.Join(root, rel)
		os.MkdirAll(filepath.Dir(p), 0o755)
		os.WriteFile(p, []byte(src), 0o644)
	}
	for rel, src := range outside {
		for _, dir := range []string{outer, filepath.Join(outer, "mid")} {
			os.WriteFile(filepath.Join(dir, rel), []byte(strings.ReplaceAll(src, "OUTSIDE/", "OUTSIDE/"+filepath.Base(dir)+"/")), 0o644)
		}
	}
	mapfs := fstest.MapFS{}
	for rel, src := range inside {
		mapfs[rel] = &fstest.MapFile{Data: []byte(src)}
	}

	texts := append([]string{}, c14Direct...)
	rng := e.Rng.Fork()
	n := 400
	if !e.Quick {
		n = 6000
	}
	for i := 0; i < n; i++ {
		k := 1 + rng.Intn(4)
		segs := make([]string, k)
		for j := range segs {
			if rng.Chance(55) {
				segs[j] = Pick(rng, []string{"a", "b", "d", "x", "..", "", ".", "secret"})
			} else {
				segs[j] = Pick(rng, c14Segs)
			}
		}
		if i%3 == 0 {
			for j := range segs {
				segs[j] = Pick(rng, []string{"a", "b", "d", "x", "_x", "a1", "A", "é", "日本", "٣a", "y", "secret"})
			}
		}
		t := strings.Join(segs, "/")
		switch rng.Intn(14) {
		case 0:
			t = "/" + t
		case 1:
			t = "\"" + t
		case 2:
			t = t + "\""
		case 3:
			t = "\"" + t + "\""
		}
		texts = append(texts, t)
	}
	seen := map[string]bool{}
	for _, t := range texts {
		if seen[t] {
			continue
		}
		seen[t] = true
		for _, sp := range c14Spellings(t) {
			c14SpellCase(e, sp, t, root, mapfs)
		}
	}
}

func c14TextClass(t string) string {
	switch {
	case t == "":
		return "empty"
	case strings.Contains(t, ".."):
		return "dotdot"
	case strings.HasPrefix(t, "/"):
		return "absolute"
	case strings.Contains(t, "//") || strings.HasSuffix(t, "/"):
		return "empty-component"
	case strings.Contains(t, "\""):
		return "quote-char"
	case !utf8.ValidString(t) || func() bool {
		for _, r := range t {
			if r > 127 {
				return true
			}
		}
		return false
	}():
		return "non-ascii"
	case strings.ContainsAny(t, ".\\ \x00\n\t-~*$%{"):
		return "punctuation"
	case strings.Contains(t, "/"):
		return "nested-plain"
	}
	return "plain"
}

func c14SpellCase(e *Env, sp c14Spell, text, root string, mapfs fstest.MapFS) {
	src := sp.src
	c := fmt.Sprintf("spell %s %q", sp.name, src)
	if os.Getenv("VERIF_DEBUG") != "" {
		fmt.Fprintln(os.Stderr, c)
	}
	plainExisting := (text == "a" || text == "b" || text == "d") && !strings.HasPrefix(sp.name, "from-item")
	e.R.Case(c, !plainExisting)
	e.R.H("spelling", sp.name)
	e.R.H("path_text_class", c14TextClass(text))

	// real parser
	_, perr := func() (p any, err error) {
		defer func() {
			if r := recover(); r != nil {
				err = fmt.Errorf("parser panic: %v", r)
			}
		}()
		return parser.Parse(context.Background(), src)
	}()
	goAccept := perr == nil

	// model, at token level
	toks, lerr := c14Lex(src)
	var modelNames [][]string // per listed item: names the VM may request, in order
	covered := false
	if lerr != nil {
		e.R.H("spell_shape", "lexer-error")
		if goAccept {
			e.R.Mismatch(c, "parsed", "lexer error: "+lerr.Error(), "the parser accepted a text the lexer rejects")
		}
	} else if sh, ok := c14ShapeOf(toks); ok {
		covered = true
		e.R.H("spell_shape", sh.kind)
		items := sh.items
		if len(items) == 0 {
			items = []string{""}
		}
		modelAccept := true
		for _, it := range items {
			var rep string
			switch sh.kind {
			case "ident", "quoted":
				rep = e.O.Ask("C14", "spell", sh.kind, Hex(sh.path), "-")
			case "fromq":
				rep = e.O.Ask("C14", "spell", "fromq", Hex(sh.path), Hex(it))
			case "fromdot":
				hs := make([]string, len(sh.parents))
				for i, p := range sh.parents {
					hs[i] = Hex(p)
				}
				rep = e.O.Ask("C14", "spell", "fromdot", strings.Join(hs, ","), Hex(it))
			}
			f := strings.Split(rep, "\t")
			if len(f) != 3 {
				e.R.Mismatch(c, "-", rep, "oracle reply malformed")
				return
			}
			if f[0] != "accept" {
				modelAccept = false
			}
			var ns []string
			for _, h := range strings.Split(f[1], ",") {
				if h == "~" {
					ns = append(ns, "")
				} else {
					ns = append(ns, UnHex(h))
				}
			}
			modelNames = append(modelNames, ns)
			if f[0] == "accept" && strings.Contains(f[2], "false") {
				e.R.Mismatch(c, "-", rep, "model accepts a statement that requests a name which is not nameOK (contradicts accepted_names_ok)")
			}
		}
		if modelAccept != goAccept {
			e.R.Mismatch(c, fmt.Sprintf("parser accept=%v (%v)", goAccept, perr), fmt.Sprintf("model accept=%v", modelAccept), "parser.validateImportPath/parseImport vs C14.accepted")
		}
	} else {
		e.R.H("spell_shape", "other")
	}
	if !goAccept {
		e.R.H("spell_outcome", "rejected")
		return
	}

	// run it for real: (1) recording importer over a recording FS
	tk := &c14Ticks{}
	rfs := &c14_recFSys{inner: mapfs}
	base := []risor.Option{risor.WithGlobal("tick", tk.builtin())}
	names := risor.NewConfig(base...).GlobalNames()
	ri := &c14_recImporter{inner: importer.NewFSImporter(importer.FSImporterOptions{GlobalNames: names, SourceFS: rfs})}
	_, err1 := c14Eval(src, append(base, risor.WithImporter(ri))...)
	e.R.H("spell_outcome", "fs:"+c14ErrClass(err1))
	for _, n := range ri.names {
		if !c14NameConfined(n) {
			e.R.Spec(c, fmt.Sprintf("the VM asked the importer for module name %q, which is not a list of plain components", n), "")
		}
	}
	for _, o := range rfs.opens {
		if !fs.ValidPath(o) || strings.HasPrefix(o, "../") || o == ".." {
			e.R.Spec(c, fmt.Sprintf("the importer opened %q, not a valid path inside its filesystem", o), "")
		}
	}
	for _, t := range tk.l {
		if !strings.HasPrefix(t, "root/") {
			e.R.Spec(c, "code outside the import root ran: "+t, "")
		}
	}
	if covered {
		// requested names: per item (processed in reverse source order) the first candidate,
		// then the parent when the first is not a module
		want := ""
		cached := map[string]bool{} // vm.modules: a loaded module is not requested again
		ask := func(n string) bool {
			if cached[n] {
				return true
			}
			want += "|" + n
			_, ok := mapfs[n+".risor"]
			cached[n] = ok
			return ok
		}
		for i := len(modelNames) - 1; i >= 0; i-- {
			ns := modelNames[i]
			if !ask(ns[0]) && len(ns) > 1 {
				ask(ns[1])
			}
		}
		got := ""
		for _, n := range ri.names {
			got += "|" + n
		}
		// a failing fallback stops the statement early: compare as prefix
		if !(got == want || (err1 != nil && strings.HasPrefix(want, got))) {
			e.R.Mismatch(c, got, want, "module names handed to the importer vs C14.requestedNames")
		}
		// every recorded open must be name+ext of a requested name
		for _, o := range rfs.opens {
			okOpen := false
			for _, n := range ri.names {
				for _, x := range c14Exts {
					if o == n+x {
						okOpen = true
					}
				}
			}
			if !okOpen {
				e.R.Mismatch(c, o, strings.Join(ri.names, "|"), "FSImporter opened a file that is not name+ext of a requested module")
			}
		}
	}
	// (2) LocalImporter on the real tree with sentinels outside the root
	tk2 := &c14Ticks{}
	_, err2 := c14Eval(src, risor.WithGlobal("tick", tk2.builtin()), risor.WithLocalImporter(root))
	e.R.H("spell_outcome", "local:"+c14ErrClass(err2))
	for _, t := range tk2.l {
		if !strings.HasPrefix(t, "root/") {
			e.R.Spec(c, "LocalImporter loaded code from outside the import root: "+t, "")
		}
	}
	if strings.Join(tk.l, "|") != strings.Join(tk2.l, "|") || c14ErrClass(err1) != c14ErrClass(err2) {
		e.R.Mismatch(c, fmt.Sprintf("local: %v %v", tk2.l, err2), fmt.Sprintf("fs: %v %v", tk.l, err1), "LocalImporter and FSImporter load different modules for the same statement")
	}
	// the file LocalImporter computes, against the model's fileName (for the names it was asked for)
	for _, n := range ri.names {
		got := filepath.Join(root, n+".risor")
		rep := strings.Split(e.O.Ask("C14", "file", Hex(root), Hex(n), Hex(".risor")), "\t")
		if len(rep) != 2 || UnHex(rep[0]) != got {
			e.R.Mismatch(c, got, strings.Join(rep, " "), "filepath.Join(dir, name+ext) vs C14.fileName")
		} else if rep[1] != "true" {
			e.R.Spec(c, fmt.Sprintf("file name %q is outside the root %q", got, root), "")
		}
	}
}

func c14Eval(src string, opts ...risor.Option) (res object.Object, err error) {
	defer func() {
		if r := recover(); r != nil {
			err = fmt.Errorf("panic: escaped risor.Eval: %v", r)
		}
	}()
	return risor.Eval(context.Background(), src, opts...)
}

// ---------------------------------------------------------------------------------------
// stream 2: module graphs

type c14Stmt struct {
	Kind    string // imp from set via add newlist push try spawn fail
	Name    string // module name (imp/try/spawn) or parent (from)
	Alias   string
	Var     string
	Val     int
	Items   [][2]string // from: (name, alias)
	Quoted  bool
	Grouped bool
}

type c14File struct {
	Name, Ext string
	Body      []c14Stmt
	Twin      string // template label: files with the same label have byte-identical source ("" = unique source)
}

// what the file's body passes to tick(): its location, or the template label for twins
// (the source text of twins must not mention their own location)
func (f *c14File) loc() string {
	if f.Twin != "" {
		return "root/@" + f.Twin
	}
	return "root/" + f.Name + f.Ext
}

type c14Prog struct {
	Files  []c14File
	Main   []c14Stmt
	Failed map[string]bool // modules whose body did not complete in this run (from the model's reply)
	Kind   string          // directed | random | twins
}

var c14Vars = []string{"x", "y"}

// the counter every module has: only ever initialised (`n := v`) and bumped through the
// module's own function add_n (never rebound by an import, so it always holds an integer)
const c14Counter = "n"

// the list every module has: created once (`l := []`) and appended to through the module's own
// function push_l (never rebound by an import: the module's global is the only reference to it)
const c14List = "l"
var c14AliasPool = []string{"p", "q", "r"}

func c14Last(name string) string {
	parts := strings.Split(name, "/")
	return parts[len(parts)-1]
}

func (s c14Stmt) wire() string {
	switch s.Kind {
	case "imp":
		return "i:" + Hex(s.Name) + ":" + Hex(s.Alias)
	case "from":
		its := make([]string, len(s.Items))
		for i, it := range s.Items {
			its[i] = Hex(it[0]) + "=" + Hex(it[1])
		}
		return "f:" + Hex(s.Name) + ":" + strings.Join(its, ",")
	case "set":
		return "s:" + Hex(s.Var) + ":" + strconv.Itoa(s.Val)
	case "via":
		return "v:" + Hex(s.Alias) + ":" + Hex(s.Var) + ":" + strconv.Itoa(s.Val)
	case "add":
		return "a:" + Hex(s.Alias) + ":" + Hex(s.Var) + ":" + strconv.Itoa(s.Val)
	case "newlist":
		return "l:" + Hex(s.Var)
	case "push":
		return "u:" + Hex(s.Alias) + ":" + Hex(s.Var) + ":" + strconv.Itoa(s.Val)
	case "try":
		return "t:" + Hex(s.Name)
	case "spawn":
		return "p:" + Hex(s.Name)
	}
	return "x"
}

func c14WireBody(b []c14Stmt) string {
	if len(b) == 0 {
		return "-"
	}
	out := make([]string, len(b))
	for i, s := range b {
		out[i] = s.wire()
	}
	return strings.Join(out, ";")
}

func c14ImportText(name string, quoted bool) string {
	if quoted || strings.Contains(name, "/") {
		return c14Quote(name)
	}
	return name
}

// source text of a body; loc == "" for the main script
func c14Render(loc string, body []c14Stmt) string { return c14RenderT(loc, body, nil) }

// the same with a call of the host builtin turn() in front of the statements listed in turnBefore
// (the session stream: the evaluation hands control to the scheduler there)
func c14RenderT(loc string, body []c14Stmt, turnBefore map[int]bool) string {
	var b strings.Builder
	if loc != "" {
		b.WriteString("tick(" + strconv.Quote(loc) + ")\n")
	}
	declared := map[string]bool{}
	for si, s := range body {
		if turnBefore[si] {
			b.WriteString("turn()\n")
		}
		switch s.Kind {
		case "imp":
			b.WriteString("import " + c14ImportText(s.Name, s.Quoted))
			if s.Alias != c14Last(s.Name) {
				b.WriteString(" as " + s.Alias)
			}
		case "from":
			if s.Quoted {
				b.WriteString("from " + c14Quote(s.Name) + " import ")
			} else {
				b.WriteString("from " + strings.ReplaceAll(s.Name, "/", ".") + " import ")
			}
			its := make([]string, len(s.Items))
			for i, it := range s.Items {
				its[i] = it[0]
				if it[1] != it[0] {
					its[i] += " as " + it[1]
				}
			}
			if s.Grouped {
				b.WriteString("(\n  " + strings.Join(its, ",\n  ") + ",\n)")
			} else {
				b.WriteString(strings.Join(its, ", "))
			}
		case "set":
			if declared[s.Var] {
				b.WriteString(fmt.Sprintf("%s = %d", s.Var, s.Val))
			} else {
				b.WriteString(fmt.Sprintf("%s := %d", s.Var, s.Val))
				declared[s.Var] = true
			}
		case "via":
			b.WriteString(fmt.Sprintf("%s.set_%s(%d)", s.Alias, s.Var, s.Val))
		case "add":
			b.WriteString(fmt.Sprintf("%s.add_%s(%d)", s.Alias, s.Var, s.Val))
		case "newlist":
			b.WriteString(s.Var + " := []")
			declared[s.Var] = true
		case "push":
			b.WriteString(fmt.Sprintf("%s.push_%s(%d)", s.Alias, s.Var, s.Val))
		case "try":
			b.WriteString("try(func() { import " + c14ImportText(s.Name, s.Quoted) + " }, 0)")
		case "spawn":
			b.WriteString("spawn(func() { import " + c14ImportText(s.Name, s.Quoted) + " }).wait()")
		case "fail":
			b.WriteString("error(\"boom\")")
		}
		b.WriteString("\n")
	}
	if loc != "" {
		for _, v := range c14Vars {
			if declared[v] {
				b.WriteString(fmt.Sprintf("func set_%s(v) { %s = v }\n", v, v))
				b.WriteString(fmt.Sprintf("func get_%s() { return %s }\n", v, v))
			}
		}
		if declared[c14Counter] {
			b.WriteString(fmt.Sprintf("func add_%s(v) { %s = %s + v }\n", c14Counter, c14Counter, c14Counter))
			b.WriteString(fmt.Sprintf("func get_%s() { return %s }\n", c14Counter, c14Counter))
		}
		if declared[c14List] {
			b.WriteString(fmt.Sprintf("func push_%s(v) { %s.append(v) }\n", c14List, c14List))
			b.WriteString(fmt.Sprintf("func get_%s() { return %s }\n", c14List, c14List))
		}
	}
	b.WriteString("end_marker := 0\n")
	return b.String()
}

// ---- generator

type c14Gen struct {
	rng     *RNG
	nextVal int
}

func (g *c14Gen) val() int { g.nextVal++; return g.nextVal }

var c14ModPool = []string{"a", "b", "c", "d", "d/a", "d/b", "e", "d/e"}

// importable names as seen from a body: the modules (later ones mostly), plus a missing one
func (g *c14Gen) target(mods []string, self int) string {
	r := g.rng
	if r.Chance(1) {
		return "nope"
	}
	if self+1 < len(mods) && !r.Chance(1) {
		return mods[self+1+r.Intn(len(mods)-self-1)]
	}
	return Pick(r, mods) // may be self or an earlier module: cycles
}

// names a finished body declares (what `from <module> import <name>` can find as attributes)
func c14Declared(body []c14Stmt) []string {
	set := map[string]bool{}
	for _, s := range body {
		switch s.Kind {
		case "set":
			if s.Var != c14Counter { // the counter is never offered to from-imports
				set[s.Var] = true
			}
		case "imp":
			set[s.Alias] = true
		case "from":
			for _, it := range s.Items {
				al := it[1]
				for _, it2 := range s.Items {
					if it2[0] == it[0] {
						al = it2[1]
					}
				}
				set[al] = true
			}
		}
	}
	return sortedKeys(set)
}

// done: bodies generated so far (modules are generated leaves first)
func (g *c14Gen) body(mods []string, self int, isMain bool, canFail bool, done map[string][]c14Stmt) []c14Stmt {
	r := g.rng
	var out []c14Stmt
	for _, v := range c14Vars {
		out = append(out, c14Stmt{Kind: "set", Var: v, Val: g.val()})
	}
	if !isMain {
		out = append(out, c14Stmt{Kind: "set", Var: c14Counter, Val: g.val()}, c14Stmt{Kind: "newlist", Var: c14List})
	}
	n := r.Intn(4)
	if isMain {
		n = 2 + r.Intn(7)
	}
	if self == len(mods)-1 && !r.Chance(6) {
		n = 0 // leaves
	}
	var aliases []string // import aliases declared so far (usable by via)
	failAt := -1
	if canFail {
		failAt = r.Intn(n + 1)
	}
	for i := 0; i <= n; i++ {
		if i == failAt {
			out = append(out, c14Stmt{Kind: "fail"})
		}
		if i == n {
			break
		}
		k := r.Intn(100)
		switch {
		case k < 34:
			nm := g.target(mods, self)
			al := c14Last(nm)
			if r.Chance(35) {
				al = Pick(r, c14AliasPool)
			}
			out = append(out, c14Stmt{Kind: "imp", Name: nm, Alias: al, Quoted: r.Chance(40)})
			aliases = append(aliases, al)
		case k < 62:
			// parent: a module, or the directory-like prefix "d"
			parent := g.target(mods, self)
			idx := map[string]int{}
			for i, m := range mods {
				idx[m] = i
			}
			later := func(m string) bool { i, ok := idx[m]; return ok && i > self }
			hasD := false
			for _, m := range mods {
				if strings.HasPrefix(m, "d/") && later(m) {
					hasD = true
				}
			}
			if _, isMod := idx["d"]; hasD && (!isMod || later("d")) && r.Chance(35) {
				parent = "d"
			}
			var cands []string
			for _, m := range mods { // sub-modules parent/<x>
				if strings.HasPrefix(m, parent+"/") && !strings.Contains(m[len(parent)+1:], "/") && (later(m) || r.Chance(2)) {
					cands = append(cands, m[len(parent)+1:], m[len(parent)+1:])
				}
			}
			if b, ok := done[parent]; ok {
				cands = append(cands, c14Declared(b)...)
			}
			cnt := 1 + r.Intn(3)
			st := c14Stmt{Kind: "from", Name: parent, Quoted: r.Chance(40), Grouped: r.Chance(30)}
			for j := 0; j < cnt; j++ {
				var nm string
				if len(cands) > 0 && !r.Chance(3) {
					nm = Pick(r, cands)
				} else {
					nm = Pick(r, []string{"x", "y", "a", "b", "e", "p", "q"})
				}
				al := nm
				if r.Chance(35) {
					al = Pick(r, c14AliasPool)
				}
				st.Items = append(st.Items, [2]string{nm, al})
			}
			// Go's alias map: only the last alias listed for a name is bound
			for _, it := range st.Items {
				al := it[1]
				for _, it2 := range st.Items {
					if it2[0] == it[0] {
						al = it2[1]
					}
				}
				if al != "x" && al != "y" && it[0] != "x" && it[0] != "y" {
					aliases = append(aliases, al)
				}
			}
			out = append(out, st)
		case k < 72:
			out = append(out, c14Stmt{Kind: "set", Var: Pick(r, c14Vars), Val: g.val()})
		case k < 86:
			if len(aliases) == 0 {
				out = append(out, c14Stmt{Kind: "set", Var: Pick(r, c14Vars), Val: g.val()})
			} else if r.Chance(30) {
				out = append(out, c14Stmt{Kind: "add", Alias: Pick(r, aliases), Var: c14Counter, Val: 1 + r.Intn(9)})
			} else if r.Chance(25) {
				out = append(out, c14Stmt{Kind: "push", Alias: Pick(r, aliases), Var: c14List, Val: g.val()})
			} else {
				out = append(out, c14Stmt{Kind: "via", Alias: Pick(r, aliases), Var: Pick(r, c14Vars), Val: g.val()})
			}
		case k < 92:
			out = append(out, c14Stmt{Kind: "try", Name: g.target(mods, self), Quoted: r.Chance(30)})
		default:
			if isMain && r.Chance(35) {
				out = append(out, c14Stmt{Kind: "spawn", Name: g.target(mods, self), Quoted: r.Chance(30)})
			} else {
				out = append(out, c14Stmt{Kind: "set", Var: Pick(r, c14Vars), Val: g.val()})
			}
		}
	}
	return out
}

func (g *c14Gen) prog() c14Prog {
	r := g.rng
	// choose and order modules
	pool := append([]string{}, c14ModPool...)
	for i := len(pool) - 1; i > 0; i-- {
		j := r.Intn(i + 1)
		pool[i], pool[j] = pool[j], pool[i]
	}
	mods := pool[:2+r.Intn(5)]
	var p c14Prog
	done := map[string][]c14Stmt{}
	for i := len(mods) - 1; i >= 0; i-- { // leaves first
		m := mods[i]
		f := c14File{Name: m, Ext: c14Exts[0], Body: g.body(mods, i, false, r.Chance(3), done)}
		done[m] = f.Body
		if r.Chance(20) {
			f.Ext = c14Exts[1]
		}
		p.Files = append(p.Files, f)
		if r.Chance(8) { // the same module under the other extension too: only the .risor one may load
			other := c14Exts[0]
			if f.Ext == other {
				other = c14Exts[1]
			}
			f2 := c14File{Name: m, Ext: other, Body: g.body(mods, i, false, false, done)}
			p.Files = append(p.Files, f2)
			if other == c14Exts[0] {
				done[m] = f2.Body
			}
		}
	}
	p.Main = g.body(mods, -1, true, r.Chance(2), done)
	p.Kind = "random"
	// now and then one module of a random tree is a byte-identical copy of a later one
	if len(mods) >= 2 && r.Chance(12) {
		j := 1 + r.Intn(len(mods)-1)
		i := r.Intn(j)
		src := p.fileOf(mods[j])
		if dst := p.fileOf(mods[i]); src != nil && dst != nil && src != dst {
			src.Twin = "T0"
			dst.Twin = "T0"
			dst.Body = append([]c14Stmt{}, src.Body...)
		}
	}
	c14Sanitize(&p)
	return p
}

// ---- twin trees: several module paths whose files are byte-identical copies of a template

var c14TwinGroups = [][]string{{"a", "d/a", "e/a"}, {"c", "d/c", "e/c", "w/c"}, {"b", "w/b", "e/b"}}
var c14TwinAliases = []string{"p", "q", "r", "s", "t", "u"}

func (g *c14Gen) progTwins() c14Prog {
	r := g.rng
	var p c14Prog
	p.Kind = "twins"
	// helpers: ordinary modules (unique source) the templates may import
	var helpers []string
	for _, h := range []string{"h", "g"} {
		if r.Chance(40) {
			helpers = append(helpers, h)
			p.Files = append(p.Files, c14File{Name: h, Ext: c14Exts[0], Body: []c14Stmt{
				{Kind: "set", Var: "x", Val: g.val()}, {Kind: "set", Var: "y", Val: g.val()}, {Kind: "set", Var: c14Counter, Val: g.val()}, {Kind: "newlist", Var: c14List}}})
		}
	}
	// templates
	groups := append([][]string{}, c14TwinGroups...)
	for i := len(groups) - 1; i > 0; i-- {
		j := r.Intn(i + 1)
		groups[i], groups[j] = groups[j], groups[i]
	}
	nt := 1
	if r.Chance(30) {
		nt = 2
	}
	var twins []string // all twin module paths
	for t := 0; t < nt; t++ {
		names := append([]string{}, groups[t]...)
		if r.Chance(25) { // copies with different last components too
			names = append(names, groups[2][r.Intn(len(groups[2]))])
		}
		for i := len(names) - 1; i > 0; i-- {
			j := r.Intn(i + 1)
			names[i], names[j] = names[j], names[i]
		}
		k := 2
		if r.Chance(35) && len(names) >= 3 {
			k = 3
		}
		names = names[:k]
		body := []c14Stmt{{Kind: "set", Var: "x", Val: g.val()}, {Kind: "set", Var: "y", Val: g.val()}, {Kind: "set", Var: c14Counter, Val: r.Intn(3) * 10}, {Kind: "newlist", Var: c14List}}
		if len(helpers) > 0 && r.Chance(50) { // the template uses a helper: every copy bumps the helper's counter / stores into it
			h := Pick(r, helpers)
			body = append(body, c14Stmt{Kind: "imp", Name: h, Alias: h, Quoted: r.Chance(30)})
			switch k := r.Intn(10); {
			case k < 4:
				body = append(body, c14Stmt{Kind: "add", Alias: h, Var: c14Counter, Val: 1 + r.Intn(5)})
			case k < 7:
				body = append(body, c14Stmt{Kind: "push", Alias: h, Var: c14List, Val: g.val()})
			default:
				body = append(body, c14Stmt{Kind: "via", Alias: h, Var: Pick(r, c14Vars), Val: g.val()})
			}
		}
		if r.Chance(30) {
			body = append(body, c14Stmt{Kind: "set", Var: Pick(r, c14Vars), Val: g.val()})
		}
		ext := c14Exts[0]
		if r.Chance(15) {
			ext = c14Exts[1]
		}
		seen := map[string]bool{}
		for _, nm := range names {
			if seen[nm] {
				continue
			}
			dup := false
			for _, tw := range twins {
				if tw == nm {
					dup = true
				}
			}
			if dup {
				continue
			}
			seen[nm] = true
			twins = append(twins, nm)
			p.Files = append(p.Files, c14File{Name: nm, Ext: ext, Twin: fmt.Sprintf("T%d", t+1), Body: append([]c14Stmt{}, body...)})
		}
	}
	// the script: imports every copy (any spelling, own alias), mutates state through the aliases
	// between and after the imports, imports some copies again under another alias
	main := []c14Stmt{{Kind: "set", Var: "x", Val: g.val()}, {Kind: "set", Var: "y", Val: g.val()}}
	aliases := append([]string{}, c14TwinAliases...)
	for i := len(aliases) - 1; i > 0; i-- {
		j := r.Intn(i + 1)
		aliases[i], aliases[j] = aliases[j], aliases[i]
	}
	var bound []string
	nextAlias := func() string {
		al := aliases[0]
		aliases = append(aliases[1:], al)
		return al
	}
	mutate := func(k int) {
		for j := 0; j < k && len(bound) > 0; j++ {
			al := Pick(r, bound)
			switch r.Intn(4) {
			case 0:
				main = append(main, c14Stmt{Kind: "via", Alias: al, Var: Pick(r, c14Vars), Val: g.val()})
			case 1:
				main = append(main, c14Stmt{Kind: "push", Alias: al, Var: c14List, Val: g.val()})
			default:
				main = append(main, c14Stmt{Kind: "add", Alias: al, Var: c14Counter, Val: 1 + r.Intn(9)})
			}
		}
	}
	importOne := func(nm string) {
		al := nextAlias()
		if i := strings.LastIndexByte(nm, '/'); i > 0 && r.Chance(35) {
			main = append(main, c14Stmt{Kind: "from", Name: nm[:i], Items: [][2]string{{nm[i+1:], al}}, Quoted: r.Chance(40), Grouped: r.Chance(20)})
		} else {
			main = append(main, c14Stmt{Kind: "imp", Name: nm, Alias: al, Quoted: r.Chance(40)})
		}
		bound = append(bound, al)
	}
	order := append([]string{}, twins...)
	for i := len(order) - 1; i > 0; i-- {
		j := r.Intn(i + 1)
		order[i], order[j] = order[j], order[i]
	}
	for _, nm := range order {
		importOne(nm)
		mutate(r.Intn(3))
	}
	for _, h := range helpers {
		if r.Chance(50) {
			importOne(h)
		}
	}
	mutate(1 + r.Intn(4))
	if r.Chance(50) {
		importOne(Pick(r, order)) // a second alias for a module that is loaded already
		mutate(1 + r.Intn(3))
	}
	if r.Chance(12) { // outside the plain fragment: the general machinery on twin trees
		switch r.Intn(3) {
		case 0:
			main = append(main, c14Stmt{Kind: "try", Name: Pick(r, order)})
		case 1:
			main = append([]c14Stmt{main[0], main[1], {Kind: "try", Name: Pick(r, order)}}, main[2:]...)
		default:
			main = append([]c14Stmt{main[0], main[1], {Kind: "spawn", Name: Pick(r, order)}}, main[2:]...)
		}
	}
	p.Main = main
	c14Sanitize(&p)
	return p
}

// imports a body may perform (module names it may ask for)
func c14Reach(p *c14Prog) map[string]map[string]bool {
	first := map[string]*c14File{}
	for i := range p.Files {
		f := &p.Files[i]
		if old, ok := first[f.Name]; !ok || (old.Ext != c14Exts[0] && f.Ext == c14Exts[0]) {
			first[f.Name] = f
		}
	}
	edges := map[string]map[string]bool{}
	add := func(from, to string) {
		if edges[from] == nil {
			edges[from] = map[string]bool{}
		}
		edges[from][to] = true
	}
	for name, f := range first {
		for _, s := range f.Body {
			switch s.Kind {
			case "imp", "try", "spawn":
				add(name, s.Name)
			case "from":
				add(name, s.Name)
				for _, it := range s.Items {
					add(name, s.Name+"/"+it[0])
				}
			}
		}
	}
	return edges
}

// a spawned clone must not reach a cyclic import: replace such spawns by plain try-imports.
// (With the cyclic-import repair of vm.importModule the clone would get an import error; the
// rule is kept because this check must also survive a tree in which the repair is lost, where
// the frame overflow would be a Go panic in another goroutine and kill the harness.)
func c14Sanitize(p *c14Prog) {
	edges := c14Reach(p)
	var cyclic func(n string, path map[string]bool, depth int) bool
	cyclic = func(n string, path map[string]bool, depth int) bool {
		if path[n] {
			return true
		}
		if depth > 12 {
			return true
		}
		path[n] = true
		defer delete(path, n)
		for m := range edges[n] {
			if cyclic(m, path, depth+1) {
				return true
			}
		}
		return false
	}
	for i, s := range p.Main {
		if s.Kind == "spawn" && cyclic(s.Name, map[string]bool{}, 0) {
			p.Main[i].Kind = "try"
		}
	}
}

// ---- running a program on the real code

type c14GoOut struct {
	class string
	err   error
	ticks []string // module names (location with root/ and extension stripped), or raw location when outside
	locs  []string
	opens []string
	dump  []string
	mods  map[string][]string // module name -> canonical ids observed
	// canonical code identity -> name of the first module object seen with that *compiler.Code;
	// pairs of different module names whose objects carry the same *compiler.Code
	codeOf     map[int]string
	sharedCode []string
}

func c14Keys(p *c14Prog) []string {
	set := map[string]bool{}
	for _, v := range c14Vars {
		set[v] = true
	}
	addBody := func(b []c14Stmt) {
		for _, s := range b {
			if s.Kind == "imp" {
				set[s.Alias] = true
			}
			for _, it := range s.Items {
				set[it[1]] = true
			}
		}
	}
	addBody(p.Main)
	for _, f := range p.Files {
		addBody(f.Body)
	}
	set[c14Counter] = true
	set[c14List] = true
	keys := sortedKeys(set)
	return keys
}

// the module tree on disk: dir/root/<name><ext>, with sentinel modules OUTSIDE the root
func c14WriteTree(p *c14Prog, dir string) string {
	root := filepath.Join(dir, "root")
	os.RemoveAll(dir)
	os.MkdirAll(root, 0o755)
	os.WriteFile(filepath.Join(dir, "a.risor"), []byte("tick(\"OUTSIDE/a.risor\")\n"), 0o644)
	os.WriteFile(filepath.Join(dir, "d.risor"), []byte("tick(\"OUTSIDE/d.risor\")\n"), 0o644)
	for _, f := range p.Files {
		fp := filepath.Join(root, f.Name+f.Ext)
		os.MkdirAll(filepath.Dir(fp), 0o755)
		os.WriteFile(fp, []byte(c14Render(f.loc(), f.Body)), 0o644)
	}
	return root
}

func c14RunGo(p *c14Prog, keys []string, local bool, dir string) (out c14GoOut) {
	tk := &c14Ticks{}
	opts := []risor.Option{risor.WithGlobal("tick", tk.builtin()), risor.WithConcurrency()}
	var rfs *c14_recFSys
	if local {
		root := c14WriteTree(p, dir)
		opts = append(opts, risor.WithLocalImporter(root))
	} else {
		m := fstest.MapFS{}
		for _, f := range p.Files {
			m[f.Name+f.Ext] = &fstest.MapFile{Data: []byte(c14Render(f.loc(), f.Body))}
		}
		rfs = &c14_recFSys{inner: m}
		names := risor.NewConfig(opts...).GlobalNames()
		opts = append(opts, risor.WithImporter(importer.NewFSImporter(importer.FSImporterOptions{GlobalNames: names, SourceFS: rfs})))
	}
	src := c14Render("", p.Main)
	var machine *vm.VirtualMachine
	func() {
		defer func() {
			if r := recover(); r != nil {
				out.err = fmt.Errorf("panic: escaped the VM: %v", r)
			}
		}()
		ctx := context.Background()
		cfg := risor.NewConfig(opts...)
		prog, err := parser.Parse(ctx, src)
		if err != nil {
			out.err = fmt.Errorf("PARSE: %v", err)
			return
		}
		code, err := compiler.Compile(prog, cfg.CompilerOpts()...)
		if err != nil {
			out.err = fmt.Errorf("COMPILE: %v", err)
			return
		}
		machine = vm.New(code, cfg.VMOpts()...)
		out.err = machine.Run(ctx)
	}()
	out.class = c14ErrClass(out.err)
	if out.err != nil && (strings.HasPrefix(out.err.Error(), "PARSE") || strings.HasPrefix(out.err.Error(), "COMPILE")) {
		out.class = "static:" + out.err.Error()
	}
	out.locs = tk.l
	for _, l := range tk.l {
		n := l
		if strings.HasPrefix(l, "root/") {
			n = strings.TrimPrefix(l, "root/")
			for _, x := range c14Exts {
				n = strings.TrimSuffix(n, x)
			}
		}
		out.ticks = append(out.ticks, n)
	}
	if rfs != nil {
		out.opens = rfs.opens
	}
	out.mods = map[string][]string{}
	out.codeOf = map[int]string{}
	if machine != nil {
		func() {
			defer func() {
				if r := recover(); r != nil {
					out.dump = append(out.dump, fmt.Sprintf("<walk panic %v>", r))
				}
			}()
			canon := map[*object.Module]int{}
			canonCode := map[*compiler.Code]int{}
			var walk func(fuel int, pre string, get func(string) object.Object)
			walk = func(fuel int, pre string, get func(string) object.Object) {
				if fuel == 0 {
					return
				}
				for _, k := range keys {
					v := get(k)
					if v == nil {
						continue
					}
					path := pre + "." + k
					switch x := v.(type) {
					case *object.Int:
						out.dump = append(out.dump, fmt.Sprintf("%s=i%d", path, x.Value()))
					case *object.NilType:
						out.dump = append(out.dump, path+"=n")
					case *object.List:
						items := make([]string, 0, len(x.Value()))
						for _, it := range x.Value() {
							if iv, ok := it.(*object.Int); ok {
								items = append(items, strconv.FormatInt(iv.Value(), 10))
							} else {
								items = append(items, "?"+string(it.Type()))
							}
						}
						out.dump = append(out.dump, path+"=l"+strings.Join(items, ";"))
					case *object.Module:
						id, ok := canon[x]
						if !ok {
							id = len(canon)
							canon[x] = id
						}
						name := x.Name().Value()
						cid, ok := canonCode[x.Code()]
						if !ok {
							cid = len(canonCode)
							canonCode[x.Code()] = cid
						}
						if old, ok := out.codeOf[cid]; ok && old != name {
							out.sharedCode = append(out.sharedCode, fmt.Sprintf("%s and %s", old, name))
						} else {
							out.codeOf[cid] = name
						}
						out.dump = append(out.dump, fmt.Sprintf("%s=m%d:%s:c%d", path, id, name, cid))
						ids := out.mods[name]
						has := false
						for _, s := range ids {
							if s == strconv.Itoa(id) {
								has = true
							}
						}
						if !has {
							out.mods[name] = append(ids, strconv.Itoa(id))
						}
						walk(fuel-1, path, func(k string) object.Object {
							a, found := x.GetAttr(k)
							if !found {
								return nil
							}
							return a
						})
					default:
						out.dump = append(out.dump, fmt.Sprintf("%s=?%s", path, v.Type()))
					}
				}
			}
			walk(5, "main", func(k string) object.Object {
				v, err := machine.Get(k)
				if err != nil {
					return nil
				}
				return v
			})
		}()
	}
	return out
}

// model dump → same textual form (module ids renumbered by first occurrence, names unhexed)
func c14ModelDump(field string) []string {
	if field == "-" {
		return nil
	}
	canon := map[string]int{}
	canonCode := map[string]int{}
	var out []string
	for _, line := range strings.Split(field, ",") {
		eq := strings.IndexByte(line, '=')
		if eq < 0 {
			out = append(out, line)
			continue
		}
		parts := strings.Split(line[:eq], ".")
		for i := 1; i < len(parts); i++ {
			parts[i] = UnHex(parts[i])
		}
		val := line[eq+1:]
		if strings.HasPrefix(val, "m") {
			f := strings.Split(val, ":") // m<object> : <name hex> : c<code>
			if len(f) == 3 {
				id, ok := canon[f[0]]
				if !ok {
					id = len(canon)
					canon[f[0]] = id
				}
				cid, ok := canonCode[f[2]]
				if !ok {
					cid = len(canonCode)
					canonCode[f[2]] = cid
				}
				name := UnHex(f[1])
				if f[1] == "~" {
					name = ""
				}
				val = fmt.Sprintf("m%d:%s:c%d", id, name, cid)
			}
		}
		out = append(out, strings.Join(parts, ".")+"="+val)
	}
	return out
}

func c14Csv(field string) []string {
	if field == "-" {
		return nil
	}
	var out []string
	for _, h := range strings.Split(field, ",") {
		if h == "~" {
			out = append(out, "")
		} else {
			out = append(out, UnHex(h))
		}
	}
	return out
}

const c14Root = "/R"

// run-length summary of a long log
func c14Short(xs []string) string {
	var b strings.Builder
	fmt.Fprintf(&b, "[%d]", len(xs))
	for i := 0; i < len(xs); {
		j := i
		for j < len(xs) && xs[j] == xs[i] {
			j++
		}
		if j-i > 1 {
			fmt.Fprintf(&b, " %s*%d", xs[i], j-i)
		} else {
			b.WriteString(" " + xs[i])
		}
		i = j
		if b.Len() > 600 {
			b.WriteString(" …")
			break
		}
	}
	return b.String()
}

func c14Request(p *c14Prog, keys []string) string {
	hx := func(xs []string) string {
		if len(xs) == 0 {
			return "-"
		}
		o := make([]string, len(xs))
		for i, x := range xs {
			o[i] = Hex(x)
		}
		return strings.Join(o, ",")
	}
	files := "-"
	if len(p.Files) > 0 {
		fs := make([]string, len(p.Files))
		for i, f := range p.Files {
			fs[i] = Hex(f.Name+f.Ext) + "@" + c14WireBody(f.Body)
		}
		files = strings.Join(fs, "|")
	}
	return strings.Join([]string{"C14", "run", "4000", "1024", Hex(c14Root), hx(c14Exts), hx(keys), files, c14WireBody(p.Main)}, "\t")
}

func (p *c14Prog) text() string {
	var b strings.Builder
	b.WriteString("main:\n" + c14Render("", p.Main))
	for _, f := range p.Files {
		b.WriteString("--- root/" + f.Name + f.Ext + ":\n" + c14Render(f.loc(), f.Body))
	}
	return b.String()
}

// static Spec helpers --------------------------------------------------------------------

func (p *c14Prog) fileOf(name string) *c14File {
	for _, x := range c14Exts {
		for i := range p.Files {
			if p.Files[i].Name == name && p.Files[i].Ext == x {
				return &p.Files[i]
			}
		}
	}
	return nil
}

// what a body execution of module `name` shows up as in the tick log: the module name, or
// "@<label>" for a copy of a template (its source cannot mention its own location)
func (p *c14Prog) tickName(name string) string {
	if f := p.fileOf(name); f != nil && f.Twin != "" {
		return "@" + f.Twin
	}
	return name
}

// how many module paths share this tick name (1 unless it is a template label)
func (p *c14Prog) tickShare(tick string) int {
	if !strings.HasPrefix(tick, "@") {
		return 1
	}
	names := map[string]bool{}
	for _, f := range p.Files {
		if f.Twin == tick[1:] {
			names[f.Name] = true
		}
	}
	return len(names)
}

// Go's alias map of one from-import statement: the alias actually bound for item i
func c14EffAlias(items [][2]string, i int) string {
	al := items[i][1]
	for _, it := range items {
		if it[0] == items[i][0] {
			al = it[1]
		}
	}
	return al
}

// module an alias denotes in a body just before statement index `at` (static), "" if unknown
func (p *c14Prog) aliasTarget(body []c14Stmt, at int, alias string) string {
	t := ""
	for i := 0; i < at && i < len(body); i++ {
		s := body[i]
		switch s.Kind {
		case "imp":
			if s.Alias == alias {
				t = s.Name
			}
		case "from":
			for k, it := range s.Items {
				if c14EffAlias(s.Items, k) == alias {
					if p.fileOf(s.Name+"/"+it[0]) != nil && !p.Failed[s.Name+"/"+it[0]] {
						t = s.Name + "/" + it[0]
					} else {
						t = "" // an attribute of the parent: not resolved statically
					}
				}
			}
		}
	}
	return t
}

// values that may legitimately be seen in variable `v` of module `mod` ("" = main script)
func (p *c14Prog) allowed(mod, v string, depth int) (vals map[int]bool, open bool) {
	vals = map[int]bool{}
	bodyOf := func(m string) []c14Stmt {
		if m == "" {
			return p.Main
		}
		if f := p.fileOf(m); f != nil {
			return f.Body
		}
		return nil
	}
	for _, s := range bodyOf(mod) {
		if s.Kind == "set" && s.Var == v {
			vals[s.Val] = true
		}
		if s.Kind == "from" {
			for k, it := range s.Items {
				if c14EffAlias(s.Items, k) == v || it[1] == v || it[0] == v { // bound by a from-import (alias map may redirect): value copied from elsewhere
					if depth <= 0 {
						open = true
						continue
					}
					sub, o := p.allowed(s.Name, it[0], depth-1)
					for k := range sub {
						vals[k] = true
					}
					if o || p.fileOf(s.Name) == nil {
						open = true
					}
					open = true // what a from-import binds is judged by the binding check (S3b) instead
				}
			}
		}
	}
	// stores through module functions, from any body
	scan := func(owner string, body []c14Stmt) {
		for i, s := range body {
			if s.Kind == "via" && s.Var == v {
				t := p.aliasTarget(body, i, s.Alias)
				if t == "" {
					if mod != "" {
						open = true
					}
				} else if t == mod {
					vals[s.Val] = true
				}
			}
		}
	}
	scan("", p.Main)
	for _, f := range p.Files {
		scan(f.Name, f.Body)
	}
	return vals, open
}

func c14Graph(e *Env) {
	n := 4000
	if !e.Quick {
		n = 60000
	}
	tmp, err := os.MkdirTemp("", "verif-c14g-")
	if err != nil {
		e.R.Note("cannot create temp tree: %v", err)
		return
	}
	defer os.RemoveAll(tmp)
	g := &c14Gen{rng: e.Rng.Fork()}
	irng := e.Rng.Fork()
	directed := c14DirectedProgs()
	progs := make([]c14Prog, 0, n+len(directed))
	progs = append(progs, directed...)
	for i := 0; i < n; i++ {
		if i%4 == 1 {
			progs = append(progs, g.progTwins())
		} else {
			progs = append(progs, g.prog())
		}
	}
	reqs := make([]string, len(progs))
	keysOf := make([][]string, len(progs))
	for i := range progs {
		keysOf[i] = c14Keys(&progs[i])
		reqs[i] = c14Request(&progs[i], keysOf[i])
	}
	reps := e.O.AskBatch(reqs)
	for i := range progs {
		local := i%4 == 0 || i < len(directed) || progs[i].hasTwins()
		c14GraphCase(e, &progs[i], keysOf[i], reps[i], filepath.Join(tmp, "t"), local, irng)
	}
}

func (p *c14Prog) hasTwins() bool {
	for _, f := range p.Files {
		if f.Twin != "" {
			return true
		}
	}
	return false
}

// ---- reference semantics (Spec), written from the property's text and from nothing else:
// every module PATH has its own variables; a module's body runs once, when the module is
// first imported; every import of the path yields that one module.  Defined on the plain
// fragment only (import, single-name from-import of a sub-module, stores, stores and counter
// bumps through a module's own functions; no failing, cyclic, try- or spawned imports, so
// none of the recorded findings is in reach); ok=false outside it.

type c14RefMod struct {
	name string
	g    map[string]c14RefVal
}
type c14RefVal struct {
	kind byte // 'i' 'm' 'l'
	i    int
	m    *c14RefMod
	l    []int
}

func c14RefEval(p *c14Prog, keys []string) (ticks, dump []string, ok bool) {
	mods := map[string]*c14RefMod{}
	loading := map[string]bool{}
	var exec func(g map[string]c14RefVal, body []c14Stmt) bool
	var imp func(name string) (*c14RefMod, bool)
	imp = func(name string) (*c14RefMod, bool) {
		if m, ok := mods[name]; ok {
			return m, true
		}
		f := p.fileOf(name)
		if f == nil || loading[name] {
			return nil, false
		}
		loading[name] = true
		ticks = append(ticks, p.tickName(name))
		m := &c14RefMod{name: name, g: map[string]c14RefVal{}}
		if !exec(m.g, f.Body) {
			return nil, false
		}
		delete(loading, name)
		mods[name] = m
		return m, true
	}
	exec = func(g map[string]c14RefVal, body []c14Stmt) bool {
		for _, s := range body {
			switch s.Kind {
			case "imp":
				m, ok := imp(s.Name)
				if !ok {
					return false
				}
				g[s.Alias] = c14RefVal{kind: 'm', m: m}
			case "from":
				if len(s.Items) != 1 || p.fileOf(s.Name+"/"+s.Items[0][0]) == nil {
					return false
				}
				m, ok := imp(s.Name + "/" + s.Items[0][0])
				if !ok {
					return false
				}
				g[s.Items[0][1]] = c14RefVal{kind: 'm', m: m}
			case "set":
				g[s.Var] = c14RefVal{kind: 'i', i: s.Val}
			case "newlist":
				g[s.Var] = c14RefVal{kind: 'l'}
			case "via", "add", "push":
				t, ok := g[s.Alias]
				if !ok || t.kind != 'm' || loading[t.m.name] {
					return false
				}
				old, ok := t.m.g[s.Var]
				if !ok || (s.Kind == "push") != (old.kind == 'l') || (s.Kind != "push" && old.kind != 'i') {
					return false
				}
				switch s.Kind {
				case "via":
					t.m.g[s.Var] = c14RefVal{kind: 'i', i: s.Val}
				case "add":
					t.m.g[s.Var] = c14RefVal{kind: 'i', i: old.i + s.Val}
				default:
					t.m.g[s.Var] = c14RefVal{kind: 'l', l: append(append([]int{}, old.l...), s.Val)}
				}
			default:
				return false
			}
		}
		return true
	}
	main := map[string]c14RefVal{}
	if !exec(main, p.Main) {
		return nil, nil, false
	}
	canon := map[*c14RefMod]int{}
	var walk func(fuel int, pre string, g map[string]c14RefVal)
	walk = func(fuel int, pre string, g map[string]c14RefVal) {
		if fuel == 0 {
			return
		}
		for _, k := range keys {
			v, has := g[k]
			if !has {
				continue
			}
			path := pre + "." + k
			if v.kind == 'i' {
				dump = append(dump, fmt.Sprintf("%s=i%d", path, v.i))
				continue
			}
			if v.kind == 'l' {
				items := make([]string, len(v.l))
				for i, x := range v.l {
					items[i] = strconv.Itoa(x)
				}
				dump = append(dump, path+"=l"+strings.Join(items, ";"))
				continue
			}
			id, seen := canon[v.m]
			if !seen {
				id = len(canon)
				canon[v.m] = id
			}
			// one module object and one code object per module path: both numbered by first visit
			dump = append(dump, fmt.Sprintf("%s=m%d:%s:c%d", path, id, v.m.name, id))
			walk(fuel-1, path, v.m.g)
		}
	}
	walk(5, "main", main)
	return ticks, dump, true
}

func c14FirstDiff(got, want []string) string {
	for i := 0; i < len(got) || i < len(want); i++ {
		g, w := "<nothing>", "<nothing>"
		if i < len(got) {
			g = got[i]
		}
		if i < len(want) {
			w = want[i]
		}
		if g != w {
			return fmt.Sprintf("observed %s, expected %s", g, w)
		}
	}
	return "no difference"
}

// ---- the importers alone: identity of the code objects they hand out

func c14ImporterCodes(e *Env, p *c14Prog, text, dir string, rng *RNG) {
	set := map[string]bool{"nope": true}
	for _, f := range p.Files {
		set[f.Name] = true
	}
	names := sortedKeys(set)
	seq := append([]string{}, names...)
	for i := len(seq) - 1; i > 0; i-- {
		j := rng.Intn(i + 1)
		seq[i], seq[j] = seq[j], seq[i]
	}
	for k := rng.Intn(4); k > 0; k-- {
		seq = append(seq, Pick(rng, names))
	}
	hx := make([]string, len(seq))
	for i, n := range seq {
		hx[i] = Hex(n)
	}
	req := strings.Split(c14Request(p, nil), "\t") // C14 run fuel limit root exts keys files main
	rep := strings.Split(e.O.Ask("C14", "codes", req[4], req[5], req[7], strings.Join(hx, ",")), "\t")
	if len(rep) != 3 {
		e.R.Mismatch(text, "-", strings.Join(rep, " "), "oracle reply malformed (codes)")
		return
	}
	canonList := func(ids []string) string {
		canon := map[string]int{}
		out := make([]string, len(ids))
		for i, id := range ids {
			if id == "-" {
				out[i] = seq[i] + "=-"
				continue
			}
			c, ok := canon[id]
			if !ok {
				c = len(canon)
				canon[id] = c
			}
			out[i] = fmt.Sprintf("%s=c%d", seq[i], c)
		}
		return strings.Join(out, " ")
	}
	model := canonList(strings.Split(rep[0], ","))
	if rep[1] != "true" {
		e.R.Mismatch(text, "-", model, "the importer model gave one code object to two module paths (contradicts importer_distinct_paths_distinct_code)")
	}
	tk := &c14Ticks{}
	gnames := risor.NewConfig(risor.WithGlobal("tick", tk.builtin()), risor.WithConcurrency()).GlobalNames()
	mfs := fstest.MapFS{}
	for _, f := range p.Files {
		mfs[f.Name+f.Ext] = &fstest.MapFile{Data: []byte(c14Render(f.loc(), f.Body))}
	}
	c14WriteTree(p, dir)
	imps := []struct {
		which string
		imp   importer.Importer
	}{
		{"LocalImporter", importer.NewLocalImporter(importer.LocalImporterOptions{GlobalNames: gnames, SourceDir: filepath.Join(dir, "root"), Extensions: c14Exts})},
		{"FSImporter", importer.NewFSImporter(importer.FSImporterOptions{GlobalNames: gnames, SourceFS: mfs, Extensions: c14Exts})},
	}
	for _, im := range imps {
		ptrs := map[*compiler.Code]int{}
		byName := map[string]*compiler.Code{}
		ids := make([]string, len(seq))
		for i, n := range seq {
			var code *compiler.Code
			func() {
				defer func() { recover() }()
				m, err := im.imp.Import(context.Background(), n)
				if err == nil && m != nil {
					code = m.Code()
				}
			}()
			if code == nil {
				ids[i] = "-"
				continue
			}
			if prev, ok := byName[n]; ok && prev != code {
				e.R.Mismatch(text, im.which+": Import("+n+") returned a different *compiler.Code the second time", "the by-name code cache returns the same code object", "importer code cache vs C14.noteCompiled")
			}
			byName[n] = code
			if _, ok := ptrs[code]; !ok {
				ptrs[code] = len(ptrs)
			}
			ids[i] = strconv.Itoa(ptrs[code])
		}
		// every name shows its FINAL code object, as the model's cache lookup does
		for i, n := range seq {
			if c, ok := byName[n]; ok {
				ids[i] = strconv.Itoa(ptrs[c])
			}
		}
		if got := canonList(ids); got != model {
			e.R.Mismatch(text, im.which+": "+got, model, "pointer identity of the *compiler.Code the importer returns per module path vs C14.importSeq (importer_distinct_paths_distinct_code: distinct paths => distinct code objects; hypothesis of module_globals_disjoint)")
		}
		e.R.H("importer_identity_sequences", im.which)
	}
}

func c14GraphCase(e *Env, p *c14Prog, keys []string, rep string, dir string, alsoLocal bool, irng *RNG) {
	text := strings.ReplaceAll(strings.TrimSpace(p.text()), "\n", " ¦ ")
	imports, transitive := 0, false
	for _, s := range p.Main {
		if s.Kind != "set" && s.Kind != "via" && s.Kind != "add" && s.Kind != "push" && s.Kind != "newlist" && s.Kind != "fail" {
			imports++
		}
	}
	for _, f := range p.Files {
		for _, s := range f.Body {
			if s.Kind == "imp" || s.Kind == "from" || s.Kind == "try" {
				transitive = true
			}
		}
	}
	e.R.Case(text, imports >= 2 || transitive)
	for _, s := range p.Main {
		e.R.H("graph_main_stmt", s.Kind)
	}
	e.R.H("graph_modules", strconv.Itoa(len(p.Files)))
	e.R.H("graph_kind", p.Kind)
	twinPaths := map[string]bool{}
	for _, f := range p.Files {
		if f.Twin != "" {
			twinPaths[f.Name] = true
		}
	}
	if len(twinPaths) > 0 {
		e.R.H("graph_identical_source_paths", strconv.Itoa(len(twinPaths)))
	}

	f := strings.Split(rep, "\t")
	if len(f) != 14 {
		e.R.Mismatch(text, "-", rep, "oracle reply malformed")
		return
	}
	// (the replies of the machine before the repairs of vm.importModule also carried `reent` and
	// `misbinds`, the guards of C14-cyclic-import-reruns and C14-from-import-stack-residue: both
	// are repaired, the model refuses cyclic imports and has no stack residue — a body that runs
	// twice for a cyclic import, or a from-import that binds anything but what it names, is a
	// mismatch AND an unlisted Spec violation now)
	mOut, mTicksRaw, mOpens, mFailed, mCycles := f[0], c14Csv(f[1]), c14Csv(f[2]), c14Csv(f[3]), c14Csv(f[4])
	mSpawns, mNofuel := f[5], f[6]
	mDump := c14ModelDump(f[7])
	mTicks := make([]string, len(mTicksRaw))
	for i, t := range mTicksRaw {
		mTicks[i] = p.tickName(t)
	}
	p.Failed = map[string]bool{}
	for _, n := range mFailed {
		p.Failed[n] = true
	}
	causes := map[string]string{}
	if f[11] != "-" {
		for _, rc := range strings.Split(f[11], ",") {
			i := strings.LastIndexByte(rc, ':')
			nm := UnHex(rc[:i])
			causes[nm] = rc[i+1:]
			causes[p.tickName(nm)] = rc[i+1:]
		}
	}
	if mNofuel == "true" {
		e.R.H("graph_outcome", "model-out-of-fuel")
		e.R.Note("model ran out of fuel on a generated program (skipped)")
		return
	}
	if f[12] != "true" {
		e.R.Mismatch(text, "-", f[13], "the model's importer gave one code object to two module paths (contradicts importer_distinct_paths_distinct_code_run)")
	}

	goFS := c14RunGo(p, keys, false, "")
	e.R.H("graph_outcome", goFS.class)
	if goFS.err != nil {
		msg := goFS.err.Error()
		if i := strings.IndexAny(msg, "\"\n"); i > 0 {
			msg = msg[:i]
		}
		e.R.H("graph_error", msg)
	}
	agree := true
	mis := func(goV, modelV, what string) {
		agree = false
		e.R.Mismatch(text, goV, modelV, what)
	}
	if strings.HasPrefix(goFS.class, "static:") {
		mis(goFS.class, mOut, "generated program does not parse/compile")
		return
	}
	// A cyclic import ends in a Go panic when the frame array (model: Env.limit) or, earlier, the
	// operand stack overflows; the model has no operand-stack limit, so on those runs the real
	// logs must be a prefix of the model's (DESIGN section 2, "Go-level accidents").
	if mOut == "panic" {
		e.R.H("graph_feature", "frame-overflow-weak-comparison")
	}
	// real run (either importer) against the model's run
	against := func(out c14GoOut, which string) {
		same := func(goL, modelL []string) bool {
			if mOut == "panic" && out.class == "panic" {
				return len(goL) <= len(modelL) && strings.Join(goL, ",") == strings.Join(modelL[:len(goL)], ",")
			}
			return strings.Join(goL, ",") == strings.Join(modelL, ",")
		}
		if out.class != mOut {
			mis(fmt.Sprintf("%s: %s (%v)", which, out.class, out.err), mOut, "evaluation outcome vs C14.run")
		}
		if !same(out.ticks, mTicks) {
			mis(which+": "+c14Short(out.ticks), c14Short(mTicks), "module body executions (tick log) vs C14.run ticks")
		}
		if out.opens != nil || which == "FSImporter" {
			wantOpens := make([]string, len(out.opens))
			for i, o := range out.opens {
				wantOpens[i] = c14Root + "/" + o
			}
			if !same(wantOpens, mOpens) {
				mis(which+": "+c14Short(wantOpens), c14Short(mOpens), "files opened by the importer vs C14.run opens")
			}
		}
		// after a Go panic the VM's registers are not those of the script's frame: no state comparison
		if out.class != "panic" && strings.Join(out.dump, ",") != strings.Join(mDump, ",") {
			what := "reachable module state (globals of script and modules, module identities, identity of each module's code object) vs C14.run heap"
			if len(twinPaths) > 0 {
				// diagnosis only: does the real run look like an importer sharing code between equal texts?
				sh := strings.Split(e.O.Ask(strings.Split(strings.Replace(c14Request(p, keys), "\trun\t", "\trunshared\t", 1), "\t")...), "\t")
				if len(sh) == 14 && strings.Join(c14ModelDump(sh[7]), ",") == strings.Join(out.dump, ",") {
					what += " — the real run equals the model of an importer that hands ONE code object to modules with equal source text (Env.reuse = shareByText; distinct_code_needed)"
				}
			}
			mis(which+": "+strings.Join(out.dump, ","), strings.Join(mDump, ","), what)
		}
		if len(out.sharedCode) > 0 {
			mis(which+": module objects of different paths carry the same *compiler.Code: "+strings.Join(out.sharedCode, "; "), "CodeInj: distinct module paths have distinct code objects",
				"identity of the code objects of the reachable modules (hypothesis of module_globals_disjoint)")
		}
	}
	against(goFS, "FSImporter")
	var goL c14GoOut
	if alsoLocal {
		goL = c14RunGo(p, keys, true, dir)
		if goL.class != goFS.class || strings.Join(goL.locs, ",") != strings.Join(goFS.locs, ",") || strings.Join(goL.dump, ",") != strings.Join(goFS.dump, ",") {
			against(goL, "LocalImporter")
			if agree { // differs from the FSImporter run in something the model does not see
				mis(fmt.Sprintf("local: %s %v", goL.class, goL.locs), fmt.Sprintf("fs: %s %v", goFS.class, goFS.locs), "LocalImporter and FSImporter runs differ")
			}
		}
		e.R.H("graph_importer_runs", "LocalImporter")
	}
	e.R.H("graph_importer_runs", "FSImporter")
	if len(twinPaths) > 0 || irng.Chance(10) {
		c14ImporterCodes(e, p, text, dir, irng)
	}
	if len(mFailed) > 0 {
		e.R.H("graph_feature", "failed-import")
	}
	if len(mCycles) > 0 {
		e.R.H("graph_feature", "cyclic-import-refused")
	}
	if mSpawns != "0" {
		e.R.H("graph_feature", "spawned-import")
	}
	if len(mFailed) == 0 && mSpawns == "0" {
		e.R.H("graph_feature", "inside-all-guards")
		if len(twinPaths) > 0 {
			e.R.H("graph_feature", "identical-source-modules-inside-all-guards")
		}
	}
	maxTick := 0
	cnt0 := map[string]int{}
	for _, t := range goFS.ticks {
		cnt0[t]++
		if over := cnt0[t] - p.tickShare(t) + 1; over > maxTick { // a template label stands for all its copies
			maxTick = over
		}
	}
	switch {
	case maxTick > 2:
		e.R.H("graph_max_body_runs", ">2")
	default:
		e.R.H("graph_max_body_runs", strconv.Itoa(maxTick))
	}

	refTicks, refDump, refOK := c14RefEval(p, keys)
	if refOK {
		e.R.H("graph_feature", "reference-semantics-applies")
		if len(twinPaths) > 0 {
			e.R.H("graph_feature", "reference-semantics-applies-identical-source")
		}
	}

	// ---- Spec on the real results (of either importer)
	spec := func(out c14GoOut, which string) {
		bad := func(detail, finding string) { e.R.Spec(text, "["+which+"] "+detail, finding) }
		// S1 confinement
		for _, l := range out.locs {
			if !strings.HasPrefix(l, "root/") {
				bad("code outside the import root ran: "+l, "")
			}
		}
		for _, o := range out.opens {
			if !fs.ValidPath(o) {
				bad("importer opened an invalid path: "+o, "")
			}
		}
		// S0 the reference semantics, where it is defined: exactly these bodies ran, in this order, and
		// the reachable state is exactly this (every module path its own variables and its own counter)
		if refOK {
			if out.class != "ok" {
				bad(fmt.Sprintf("the evaluation ended with %s (%v) although every import names an existing module and nothing fails", out.class, out.err), "")
			} else {
				if strings.Join(out.ticks, ",") != strings.Join(refTicks, ",") {
					bad(fmt.Sprintf("module bodies ran as %v; each module's body must run once, at its first import: %v", out.ticks, refTicks), "")
				}
				if strings.Join(out.dump, ",") != strings.Join(refDump, ",") {
					bad("state seen through the aliases differs from \"every module path has its own variables\": "+c14FirstDiff(out.dump, refDump), "")
				}
			}
		}
		cnt := map[string]int{}
		for _, t := range out.ticks {
			cnt[t]++
		}
		// S2 at most once (a template label stands for as many modules as there are copies)
		for _, name := range sortedKeys(cnt) {
			if cnt[name] <= p.tickShare(name) {
				continue
			}
			finding := ""
			if agree {
				switch causes[name] {
				case "2":
					finding = c14FindFail
				case "3":
					finding = c14FindClone
				}
			}
			bad(fmt.Sprintf("top-level code of module %q ran %d times in one evaluation", name, cnt[name]), finding)
		}
		// S3a one module object per name among everything reachable
		for _, name := range sortedKeys(out.mods) {
			if len(out.mods[name]) > 1 {
				finding := ""
				if agree && causes[name] != "" {
					finding = map[string]string{"2": c14FindFail, "3": c14FindClone}[causes[name]]
				}
				bad(fmt.Sprintf("importers hold %d different module objects for %q", len(out.mods[name]), name), finding)
			}
		}
		if out.class != "ok" {
			return
		}
		// S3b each import binding holds the module it names; S4 values stay with their owner
		got := map[string]string{}
		for _, l := range out.dump {
			eq := strings.IndexByte(l, '=')
			got[l[:eq]] = l[eq+1:]
		}
		var check func(path, mod string, body []c14Stmt, depth int)
		check = func(path, mod string, body []c14Stmt, depth int) {
			if depth == 0 {
				return
			}
			last := map[string]string{} // alias -> expected module name, "" = not judged
			for _, s := range body {
				switch s.Kind {
				case "imp":
					last[s.Alias] = s.Name
				case "from":
					seen := map[string]int{}
					for _, it := range s.Items {
						seen[it[0]]++
					}
					for k, it := range s.Items {
						if seen[it[0]] > 1 {
							last[c14EffAlias(s.Items, k)] = ""
							continue // the duplicate-name alias map defect is not judged here
						}
						last[it[1]] = ""
						full := s.Name + "/" + it[0]
						if p.fileOf(full) != nil {
							failing := false // its body did not complete, or the import was refused as cyclic: from-import falls back to the parent's attribute
							for _, fn := range mFailed {
								if fn == full {
									failing = true
								}
							}
							for _, fn := range mCycles {
								if fn == full {
									failing = true
								}
							}
							if !failing {
								last[it[1]] = full
							}
						}
					}
				case "set":
					delete(last, s.Var)
				}
			}
			for _, al := range sortedKeys(last) {
				want := last[al]
				if want == "" {
					continue
				}
				v, ok := got[path+"."+al]
				if !ok {
					continue // deeper than the walk
				}
				vf := strings.Split(v, ":") // m<id>:<name>:c<code>
				if !strings.HasPrefix(v, "m") || len(vf) != 3 || vf[1] != want {
					bad(fmt.Sprintf("%s.%s was imported as module %q but holds %s", path, al, want, v), "")
				} else if f := p.fileOf(want); f != nil {
					check(path+"."+al, want, f.Body, depth-1)
				}
			}
			for _, vname := range c14Vars {
				v, ok := got[path+"."+vname]
				if !ok {
					continue
				}
				vals, open := p.allowed(mod, vname, 3)
				finding := ""
				if !strings.HasPrefix(v, "i") {
					if !open && len(vals) > 0 {
						bad(fmt.Sprintf("%s.%s holds %s although only integers were stored into that variable", path, vname, v), finding)
					}
					continue
				}
				n, _ := strconv.Atoi(v[1:])
				if !vals[n] && !open {
					bad(fmt.Sprintf("%s.%s holds %d, a value that was stored into a different script's or module's variable", path, vname, n), finding)
				}
			}
		}
		check("main", "", p.Main, 4)
	}
	spec(goFS, "FSImporter")
	if alsoLocal {
		spec(goL, "LocalImporter")
	}
}

// directed programs: the witnesses of the findings and the plain cases of the property
func c14DirectedProgs() []c14Prog {
	set := func(v string, n int) c14Stmt { return c14Stmt{Kind: "set", Var: v, Val: n} }
	imp := func(n, a string) c14Stmt { return c14Stmt{Kind: "imp", Name: n, Alias: a} }
	from := func(parent string, items ...[2]string) c14Stmt {
		return c14Stmt{Kind: "from", Name: parent, Items: items}
	}
	leaf := func(name string, k int) c14File {
		return c14File{Name: name, Ext: ".risor", Body: []c14Stmt{set("x", k), set("y", k+1)}}
	}
	bad := func(name string, k int) c14File {
		return c14File{Name: name, Ext: ".risor", Body: []c14Stmt{set("x", k), set("y", k+1), {Kind: "fail"}}}
	}
	pre := []c14Stmt{set("x", 9001), set("y", 9002)}
	mk := func(files []c14File, main ...c14Stmt) c14Prog {
		return c14Prog{Files: files, Main: append(append([]c14Stmt{}, pre...), main...), Kind: "directed"}
	}
	// copies of one template: byte-identical source under different module paths
	twin := func(label, name string, k int, extra ...c14Stmt) c14File {
		return c14File{Name: name, Ext: ".risor", Twin: label, Body: append([]c14Stmt{set("x", k), set("y", k+1), set(c14Counter, 0), {Kind: "newlist", Var: c14List}}, extra...)}
	}
	via := func(al, v string, n int) c14Stmt { return c14Stmt{Kind: "via", Alias: al, Var: v, Val: n} }
	add := func(al string, n int) c14Stmt { return c14Stmt{Kind: "add", Alias: al, Var: c14Counter, Val: n} }
	push := func(al string, n int) c14Stmt { return c14Stmt{Kind: "push", Alias: al, Var: c14List, Val: n} }
	helper := c14File{Name: "h", Ext: ".risor", Body: []c14Stmt{set("x", 700), set("y", 701), set(c14Counter, 10), {Kind: "newlist", Var: c14List}}}
	return []c14Prog{
		// identical source: east/counter and west/counter — counters bumped between and after the imports
		mk([]c14File{twin("T1", "e/c", 100), twin("T1", "w/c", 100)}, imp("e/c", "p"), add("p", 3), imp("w/c", "q"), add("q", 4),
			via("q", "x", 7), imp("e/c", "r"), add("r", 1)),
		// identical source: lists appended to through each alias
		mk([]c14File{twin("T1", "e/c", 100), twin("T1", "w/c", 100)}, imp("e/c", "p"), imp("w/c", "q"), push("p", 1), push("q", 2), push("p", 3)),
		// identical source: x next to pkg/x, reached by import and by from-import
		mk([]c14File{twin("T1", "a", 100), twin("T1", "d/a", 100)}, imp("a", "a"), via("a", "x", 5), from("d", [2]string{"a", "q"}), add("q", 2), via("q", "y", 8)),
		// three copies that all use one ordinary helper module
		mk([]c14File{helper, twin("T1", "c", 300, imp("h", "h"), add("h", 1)), twin("T1", "d/c", 300, imp("h", "h"), add("h", 1)), twin("T1", "e/c", 300, imp("h", "h"), add("h", 1))},
			imp("c", "p"), imp("d/c", "q"), via("p", "x", 11), imp("e/c", "r"), add("q", 5), add("r", 6), imp("h", "h")),
		// both copies imported before any state changes, and a copy under the other extension
		mk([]c14File{twin("T1", "b", 500), {Name: "w/b", Ext: ".rsr", Twin: "T1", Body: []c14Stmt{set("x", 500), set("y", 501), set(c14Counter, 0), {Kind: "newlist", Var: c14List}}}},
			imp("b", "b"), imp("w/b", "q"), add("b", 2), add("q", 9), via("b", "x", 12)),
		// repeated imports under aliases + stores through the module and in the script
		mk([]c14File{leaf("a", 100)}, imp("a", "a"), imp("a", "p"), from("a", [2]string{"x", "q"}),
			c14Stmt{Kind: "via", Alias: "p", Var: "x", Val: 5}, set("x", 6)),
		// transitive: b imports a, both have x
		mk([]c14File{leaf("a", 100), {Name: "b", Ext: ".rsr", Body: []c14Stmt{set("x", 200), set("y", 201), imp("a", "a"),
			{Kind: "via", Alias: "a", Var: "x", Val: 7}}}}, imp("b", "b"), imp("a", "a")),
		// same last component in two directories
		mk([]c14File{leaf("a", 100), leaf("d/a", 300)}, imp("a", "a"), imp("d/a", "p"), from("d", [2]string{"a", "q"})),
		// FINDING failed import re-runs silently through from-import's fallback
		mk([]c14File{bad("d/e", 400), {Name: "d", Ext: ".risor", Body: []c14Stmt{set("x", 500), set("y", 501), set("e", 502)}}},
			from("d", [2]string{"e", "e"}), from("d", [2]string{"e", "p"})),
		mk([]c14File{bad("e", 400)}, c14Stmt{Kind: "try", Name: "e"}, c14Stmt{Kind: "try", Name: "e"}),
		// FIXED (was C14-cyclic-import-reruns): cyclic imports are refused — two modules, a self-import,
		// a cycle closed by a from-import (falls back to the parent's attribute), a cycle under try
		mk([]c14File{{Name: "a", Ext: ".risor", Body: []c14Stmt{set("x", 1), set("y", 2), imp("b", "b")}},
			{Name: "b", Ext: ".risor", Body: []c14Stmt{set("x", 3), set("y", 4), imp("a", "a")}}}, imp("a", "a")),
		mk([]c14File{{Name: "a", Ext: ".risor", Body: []c14Stmt{set("x", 1), set("y", 2), imp("a", "a")}}}, imp("a", "a")),
		mk([]c14File{{Name: "d", Ext: ".risor", Body: []c14Stmt{set("x", 5), set("y", 6), set("a", 7)}},
			{Name: "d/a", Ext: ".risor", Body: []c14Stmt{set("x", 1), set("y", 2), from("d", [2]string{"a", "p"})}}}, imp("d/a", "q"), from("d", [2]string{"a", "a"})),
		mk([]c14File{{Name: "a", Ext: ".risor", Body: []c14Stmt{set("x", 1), set("y", 2), {Kind: "try", Name: "b"}, set("x", 8)}},
			{Name: "b", Ext: ".risor", Body: []c14Stmt{set("x", 3), set("y", 4), imp("a", "a")}}}, imp("a", "a"), c14Stmt{Kind: "try", Name: "b"}, imp("a", "p")),
		// FINDING import inside a spawned clone, then in the script
		mk([]c14File{leaf("a", 100)}, c14Stmt{Kind: "spawn", Name: "a"}, imp("a", "a")),
		mk([]c14File{leaf("a", 100)}, c14Stmt{Kind: "spawn", Name: "a"}, c14Stmt{Kind: "spawn", Name: "a"}),
		// FIXED (was C14-from-import-stack-residue): from-import of two / three modules that are loaded by
		// that statement, of a module and an attribute, and of a module whose body fails (fallback)
		mk([]c14File{leaf("d/a", 100), leaf("d/b", 200)}, from("d", [2]string{"a", "a"}, [2]string{"b", "b"})),
		mk([]c14File{leaf("d/a", 100), leaf("d/b", 200), leaf("d/e", 300)}, from("d", [2]string{"a", "p"}, [2]string{"b", "q"}, [2]string{"e", "r"}),
			via("q", "x", 5), via("r", "y", 6)),
		mk([]c14File{leaf("d/a", 100), {Name: "d", Ext: ".risor", Body: []c14Stmt{set("x", 500), set("y", 501), set("e", 502)}}},
			from("d", [2]string{"e", "e"}, [2]string{"a", "a"}, [2]string{"y", "q"})),
		mk([]c14File{bad("d/e", 400), leaf("d/a", 100), {Name: "d", Ext: ".risor", Body: []c14Stmt{set("x", 500), set("y", 501), set("e", 502)}}},
			from("d", [2]string{"e", "e"}, [2]string{"a", "a"})),
		// observation: duplicate name in one from-import (only the last alias is bound)
		mk([]c14File{leaf("a", 100)}, from("a", [2]string{"x", "p"}, [2]string{"x", "q"})),
		// missing module, missing attribute
		mk([]c14File{leaf("a", 100)}, imp("nope", "nope")),
		mk([]c14File{leaf("a", 100)}, from("a", [2]string{"r", "r"})),
	}
}

func c14_runC14(e *Env) {
	e.R.Rule = "stream spell: each of 15 import spellings (identifier, quoted, aliased, from dotted/raw/quoted, grouped, item and alias position, " +
		"single-quoted, backtick) x path texts (directed list + seeded random '/'-joined segments over an alphabet with .., empty, '.', quotes, " +
		"NUL, backslash, non-ASCII letters and digits, keywords), distinct by (spelling, source text), non-trivial unless the text is the plain existing module a, b or d; " +
		"stream graph: seeded random module trees over the names {a,b,c,d,d/a,d/b,e,d/e} sharing the variables x,y, the counter n and the list l (every store writes a unique integer), " +
		"with import/from-import (dotted, quoted, grouped, aliased), stores, counter bumps and list appends through module functions, try-imports, spawned imports, failing and cyclic modules " +
		"(12% of them with one module a byte-identical copy of another); every fourth program is a twin tree: 2-3 module paths per template (1-2 templates, copies in different " +
		"directories and/or under different last names, optionally importing an ordinary helper module) with byte-identical source, all imported by the script under their own aliases " +
		"(import/from-import, quoted or not), stores, counter bumps and list appends through the aliases between and after the imports, re-imports under further aliases; " +
		"each program runs with the FSImporter, every twin tree and every fourth other program also with the LocalImporter on a temp tree, and the Spec (incl. the reference semantics " +
		"\"every module path has its own variables\" on the plain fragment) is evaluated on both; the importers alone are given seeded sequences of names (pointer identity of the code objects); " +
		"distinct by the full source text of script and modules, non-trivial when the script has >= 2 import statements or some module imports another"
	e.R.Rule += "; stream spellmix: for every file of a fixed module tree (two extensions, a file next to a directory of the same name, shared last components) " +
		"every candidate statement — 8-11 statement forms x ~35 path texts per module (plain, with each extension spelled out, other/upper-case/doubled extensions, './', trailing '/', " +
		"doubled and dotted separators, '..' detours, quote characters, blanks, NUL, backslashes) — is probed: the REAL parser decides whether it is accepted and a run of the statement alone " +
		"decides which file it reaches (both compared with C14.accepted / C14.reachedFile); the statements kept are grouped by the file reached and mixed within one evaluation: every ordered pair " +
		"of two path texts of one file (pairs differing only in the form: sampled in quick), the same pairs split between the script and a hub module (transitive), and seeded mixes of 3-6 imports " +
		"over 1-3 files partly inside hub modules, the module counter bumped through every alias; judged by FILE (one body execution per file, every alias of a file sees the same counter); " +
		"distinct by the full text of script and hub modules, all non-trivial; probes are non-trivial when accepted"
	e.R.Rule += "; stream session: 1-3 evaluations (own script, own VM, own tick/turn builtins) over ONE importer instance and one module tree — 55% plain trees (1-3 modules with own variables, " +
		"counter and list, optionally all importing a helper), else the random trees of the graph stream — scripts in the style of a plugin (import/from-import 1-4 modules under aliases, stores, counter bumps, " +
		"list appends through the aliases between and after the imports, re-imports; one try-/spawned/missing import or a failure in some) or the random scripts of the graph stream; a schedule over the " +
		"top-level statements of the scripts: sequential (15%), nested (30%: each evaluation runs the next one to its end in the middle of its own script), else seeded interleaving with 65% stickiness; " +
		"every evaluation runs in its own goroutine and returns control at generated turn() calls, so the real interleaving is the scheduled one; each session runs with the FSImporter, every third also " +
		"with the LocalImporter; directed sessions: the plugin-builtin scenario, two alternating handlers, sequential with the first VM kept alive, three evaluations with a shared helper, a failing import; " +
		"distinct by the full text of scripts, schedule and modules, non-trivial when some module is imported by at least two evaluations"
	if only := os.Getenv("VERIF_C14_ONLY"); only != "" { // development aid: run a single stream
		e.R.Note("VERIF_C14_ONLY=%s: only that stream was run", only)
		switch only {
		case "spell":
			c14Spell1(e)
		case "graph":
			c14Graph(e)
		case "spellmix":
			c14SpellMix(e)
		case "session":
			c14Sessions(e)
		}
		return
	}
	c14Spell1(e)
	c14Graph(e)
	c14SpellMix(e)
	c14Sessions(e)
}
