package main

// C18 — layer 8 sessions: the TABLES of the shared main code (Code.constants, the root symbol table) under the
// ROLLBACK of rejected pieces (Lean: RisorModel/C18/Tables.lean, theorems in TablesProps.lean).
//
// A session is a list of pieces over integer globals.  Literals are drawn from a small pool of values and written as
// int, string (`int("41")`) or float (`int(41.0)`) constants, so the same literal turns up in many pieces.  Accepted
// pieces are top-level declarations, assignments, expressions and `if true/false { … } else { … }` blocks (nested)
// whose bodies declare block variables — mostly with the names of top-level variables.  Rejected pieces have their
// compile error AFTER the compiler has added something to the shared tables: a fresh literal, a top-level declaration,
// a block variable (if / else / for-3 header / range / switch case / nested block) that carries the name of a LIVE
// GLOBAL, a function literal's constants.  The model (`tabs` request) compiles every piece into its tables (constants
// by slot, symbols by slot, names of top-level symbols), rolls a rejected piece back with the code's mechanism
// (truncate with the identity-guarded deletion of names) and runs accepted pieces against the constants by slot.
//
//   Code vs Impl : after EVERY piece (rejected ones included) outcome class, the compiler's root symbol table
//                  (compiler.Code.GlobalNames, after the host's names), its constants (Code.Constant), the piece's value
//                  and vm.Get of every name against `tabImpl`; the real whole program against `tabWhole`.
//   Code vs Spec : the same against `tabSpec` (a rejected piece leaves the compiler exactly as it was — also checked
//                  directly: tables, constants, instruction and name counts before = after) and the real incremental
//                  run against the real whole program of the accepted pieces.
//
// What a rejected piece's compilation did BEFORE the error (the order in which a for header claims its slots, the
// constants of a function literal) is not observable after the rollback: there the model lines only name what is
// declared and which literals are mentioned.

import (
	"fmt"
	"strconv"
	"strings"
)

type tbLit struct {
	v int
	k byte // i int constant, s string constant (through int("…")), f float constant (through int(….0))
}

func (l tbLit) src() string {
	switch l.k {
	case 's':
		return fmt.Sprintf("int(\"%d\")", l.v)
	case 'f':
		return fmt.Sprintf("int(%d.0)", l.v)
	}
	return strconv.Itoa(l.v)
}

func (l tbLit) key() string { return string(l.k) + strconv.Itoa(l.v) }

var tbLitValues = []int{0, 1, 2, 5, 7, 41, 100, 300}

type tbX struct {
	k    byte // L literal, V name, + addition
	lit  tbLit
	name string
	a, b *tbX
}

func (x *tbX) src() string {
	switch x.k {
	case 'L':
		return x.lit.src()
	case 'V':
		return x.name
	}
	r := x.b.src()
	if x.b.k == '+' {
		r = "(" + r + ")"
	}
	return x.a.src() + " + " + r
}

func (x *tbX) tok(res func(string) string) string {
	switch x.k {
	case 'L':
		return "L" + strconv.Itoa(x.lit.v)
	case 'V':
		return res(x.name)
	}
	return "+," + x.a.tok(res) + "," + x.b.tok(res)
}

func (x *tbX) lits(f func(tbLit)) {
	if x == nil {
		return
	}
	if x.k == 'L' {
		f(x.lit)
	}
	x.a.lits(f)
	x.b.lits(f)
}

type tbS struct {
	k         byte // d `n := e`  a `n = e`  x `e`  I if
	name      string
	e         *tbX
	cond      bool
	body, els []*tbS
	hasElse   bool
}

func tbBlockSrc(ss []*tbS, d int) string {
	var sb strings.Builder
	for _, s := range ss {
		sb.WriteString(s.src(d))
		sb.WriteByte('\n')
	}
	return sb.String()
}

func (s *tbS) src(d int) string {
	in := strings.Repeat("  ", d)
	switch s.k {
	case 'd':
		return in + s.name + " := " + s.e.src()
	case 'a':
		return in + s.name + " = " + s.e.src()
	case 'x':
		return in + s.e.src()
	}
	c := "false"
	if s.cond {
		c = "true"
	}
	out := fmt.Sprintf("%sif %s {\n%s%s}", in, c, tbBlockSrc(s.body, d+1), in)
	if s.hasElse {
		out += fmt.Sprintf(" else {\n%s%s}", tbBlockSrc(s.els, d+1), in)
	}
	return out
}

func (s *tbS) lits(f func(tbLit)) {
	s.e.lits(f)
	for _, b := range s.body {
		b.lits(f)
	}
	for _, b := range s.els {
		b.lits(f)
	}
}

// the model's name numbers
func tbNum(name string) int {
	switch name {
	case "za", "zb", "zc", "zd":
		return int(name[1] - 'a')
	case "zk":
		return 4
	case "_":
		return 8
	}
	if strings.HasPrefix(name, "zt") || strings.HasPrefix(name, "zu") {
		n, _ := strconv.Atoi(name[2:])
		if name[1] == 'u' {
			return 200 + n
		}
		return 100 + n
	}
	return 99 // a name nothing declares
}

type tbScope struct {
	parent *tbScope
	m      map[string]int
}

func tbChild(p *tbScope) *tbScope { return &tbScope{parent: p, m: map[string]int{}} }

func (sc *tbScope) lookup(name string) (int, bool) {
	for s := sc; s != nil; s = s.parent {
		if j, ok := s.m[name]; ok {
			return j, true
		}
	}
	return 0, false
}

// the model lines of ONE top-level statement (block variables are numbered per top-level statement)
type tbTop struct {
	lines []string
	nblk  int
}

func (t *tbTop) stmt(s *tbS, sc *tbScope, dead bool) {
	res := func(name string) string {
		if j, ok := sc.lookup(name); ok {
			return "K" + strconv.Itoa(j)
		}
		return "R" + strconv.Itoa(tbNum(name))
	}
	pre := ""
	if dead {
		pre = "~"
	}
	switch s.k {
	case 'd':
		e := s.e.tok(res) // the right-hand side is compiled before the name is entered
		if sc == nil {
			t.lines = append(t.lines, pre+"D"+strconv.Itoa(tbNum(s.name))+"="+e)
		} else {
			t.lines = append(t.lines, pre+"B"+strconv.Itoa(tbNum(s.name))+"="+e)
			sc.m[s.name] = t.nblk
			t.nblk++
		}
	case 'a':
		if j, ok := sc.lookup(s.name); ok {
			t.lines = append(t.lines, pre+"T"+strconv.Itoa(j)+"="+s.e.tok(res))
		} else {
			t.lines = append(t.lines, pre+"S"+strconv.Itoa(tbNum(s.name))+"="+s.e.tok(res))
		}
	case 'x':
		t.lines = append(t.lines, pre+"x"+s.e.tok(res))
	case 'I':
		b := tbChild(sc)
		for _, x := range s.body {
			t.stmt(x, b, dead || !s.cond)
		}
		if s.hasElse {
			b = tbChild(sc)
			for _, x := range s.els {
				t.stmt(x, b, dead || s.cond)
			}
		}
	}
}

func tbModelOf(tops []*tbS) string {
	var out []string
	for _, s := range tops {
		t := &tbTop{}
		t.stmt(s, nil, false)
		if len(t.lines) == 0 { // `if c { }`: nothing the tables see
			continue
		}
		out = append(out, strings.Join(t.lines, ";"))
	}
	return strings.Join(out, "/")
}

type tbPiece struct {
	src, model string
	lastExpr   bool
	rejected   bool // what the generator intends; the MODEL decides
	tag        string
	lits       map[string]bool
}

type tbSession struct {
	pieces []*tbPiece
	tag    string
}

func tbAccepted(tops ...*tbS) *tbPiece {
	p := &tbPiece{lits: map[string]bool{}}
	var ss []string
	for _, s := range tops {
		ss = append(ss, s.src(0))
		s.lits(func(l tbLit) { p.lits[l.key()] = true })
	}
	p.src, p.model = strings.Join(ss, "\n"), tbModelOf(tops)
	p.lastExpr = tops[len(tops)-1].k == 'x'
	if p.model == "" {
		p.model = "xL0" // never generated: a piece of empty blocks only
		p.src += "\n0"
		p.lastExpr = true
	}
	return p
}

// ---- generator

type tbGen struct {
	r        *RNG
	pool     []string
	declared []string // top-level names declared by the accepted pieces so far
	nt, nu   int
	seenLits map[string]bool // literals the accepted pieces so far have mentioned
	hasConst bool
}

func (g *tbGen) lit() tbLit {
	return tbLit{v: Pick(g.r, tbLitValues), k: Pick(g.r, []byte{'i', 'i', 's', 's', 's', 'f'})}
}

func (g *tbGen) visible(sc *tbScope) []string {
	seen := map[string]bool{}
	for s := sc; s != nil; s = s.parent {
		for n := range s.m {
			seen[n] = true
		}
	}
	for _, n := range g.declared {
		seen[n] = true
	}
	return sortedKeys(seen)
}

func (g *tbGen) expr(sc *tbScope, d int) *tbX {
	vis := g.visible(sc)
	switch c := g.r.Intn(10); {
	case c < 4 && len(vis) > 0:
		return &tbX{k: 'V', name: Pick(g.r, vis)}
	case c < 7 && d > 0:
		return &tbX{k: '+', a: g.expr(sc, d-1), b: g.expr(sc, d-1)}
	}
	return &tbX{k: 'L', lit: g.lit()}
}

func (g *tbGen) isDeclared(n string) bool {
	for _, d := range g.declared {
		if d == n {
			return true
		}
	}
	return false
}

// a name for a block variable: mostly the name of a top-level variable (a live one if there is one)
func (g *tbGen) blockName(own map[string]int) string {
	var cands []string
	src := g.declared
	if len(src) == 0 || g.r.Chance(20) {
		src = g.pool
	}
	for _, n := range src {
		if _, taken := own[n]; !taken {
			cands = append(cands, n)
		}
	}
	if len(cands) == 0 || g.r.Chance(15) {
		g.nu++
		return "zu" + strconv.Itoa(g.nu)
	}
	return Pick(g.r, cands)
}

func (g *tbGen) block(sc *tbScope, d int) []*tbS {
	b := tbChild(sc)
	var out []*tbS
	for i, n := 0, 1+g.r.Intn(3); i < n; i++ {
		out = append(out, g.inner(b, d))
	}
	return out
}

func (g *tbGen) inner(sc *tbScope, d int) *tbS {
	for {
		switch c := g.r.Intn(10); {
		case c < 4:
			s := &tbS{k: 'd', name: g.blockName(sc.m)}
			s.e = g.expr(sc, 1)
			sc.m[s.name] = -1
			return s
		case c < 6:
			if vis := g.visible(sc); len(vis) > 0 {
				return &tbS{k: 'a', name: Pick(g.r, vis), e: g.expr(sc, 1)}
			}
		case c < 8:
			return &tbS{k: 'x', e: g.expr(sc, 2)}
		case d > 0:
			return g.ifStmt(sc, d-1)
		}
	}
}

func (g *tbGen) ifStmt(sc *tbScope, d int) *tbS {
	s := &tbS{k: 'I', cond: g.r.Chance(70), hasElse: g.r.Chance(30)}
	s.body = g.block(sc, d)
	if s.hasElse {
		s.els = g.block(sc, d)
	}
	return s
}

func (g *tbGen) top() *tbS {
	for {
		switch c := g.r.Intn(20); {
		case c < 6:
			var cands []string
			for _, n := range g.pool {
				if !g.isDeclared(n) {
					cands = append(cands, n)
				}
			}
			if len(cands) == 0 {
				continue
			}
			s := &tbS{k: 'd', name: Pick(g.r, cands)}
			s.e = g.expr(nil, 1)
			g.declared = append(g.declared, s.name)
			return s
		case c < 9 && len(g.declared) > 0:
			return &tbS{k: 'a', name: Pick(g.r, g.declared), e: g.expr(nil, 1)}
		case c < 13:
			return &tbS{k: 'x', e: g.expr(nil, 2)}
		case c < 20:
			return g.ifStmt(nil, 1)
		}
	}
}

func (g *tbGen) accepted() *tbPiece {
	var tops []*tbS
	for i, n := 0, 1+g.r.Intn(3); i < n; i++ {
		tops = append(tops, g.top())
	}
	p := tbAccepted(tops...)
	p.tag = "accepted"
	return p
}

// a rejected piece: (source, model lines, shape).  G, H: names of block variables — mostly live globals.
func (g *tbGen) rejected() *tbPiece {
	p := &tbPiece{rejected: true, lits: map[string]bool{}}
	L := func() (string, string) {
		l := g.lit()
		p.lits[l.key()] = true
		return l.src(), "L" + strconv.Itoa(l.v)
	}
	name := func() string { return g.blockName(map[string]int{}) }
	G, H := name(), name()
	nG, nH := strconv.Itoa(tbNum(G)), strconv.Itoa(tbNum(H))
	g.nt++
	zt := "zt" + strconv.Itoa(g.nt)
	nzt := strconv.Itoa(tbNum(zt))
	l1s, l1 := L()
	l2s, l2 := L()
	l3s, l3 := L()
	// the offence at the end of the carrier
	type off struct{ src, model, tag string }
	offs := []off{
		{"no_such_name", "xR99", "undefined name"},
		{"no_such_name = " + l3s, "S99=" + l3, "assignment to an undefined name"},
		{zt + "x := " + l3s + " + no_such_name", "B98=+," + l3 + ",R99", "undefined name after a literal"},
		{"break", "!", "break outside a loop"},
	}
	if g.hasConst {
		offs = append(offs, off{"zk = " + l3s, "!", "assignment to a constant"})
	}
	o := Pick(g.r, offs)
	nb := o // where `break` would be legal (loops, switch) or pointless (top level)
	if o.src == "break" {
		nb = offs[0]
	}
	shapes := 14
	if len(g.declared) > 0 {
		shapes = 15
	}
	switch c := g.r.Intn(shapes); c {
	case 0:
		p.src = fmt.Sprintf("%s := %s\n%s", zt, l1s, nb.src)
		p.model, p.tag = "D"+nzt+"="+l1+"/"+strings.Replace(nb.model, "B98=", "D98=", 1), "top-level declaration, then "+nb.tag
	case 1, 2:
		p.src = fmt.Sprintf("if true {\n  %s := %s\n  %s\n}", G, l1s, o.src)
		p.model, p.tag = "B"+nG+"="+l1+";"+o.model, "if body declares, then "+o.tag
	case 3:
		p.src = fmt.Sprintf("if false {\n  %s := %s\n} else {\n  %s := %s\n  %s\n}", H, l2s, G, l1s, o.src)
		p.model, p.tag = "~B"+nH+"="+l2+";B"+nG+"="+l1+";"+o.model, "else body declares, then "+o.tag
	case 4, 5:
		p.src = fmt.Sprintf("for %s := %s; %s < %s; %s++ {\n  no_such_name\n}", G, l1s, G, l2s, G)
		p.model, p.tag = "B"+nG+"="+l1+";~x+,K0,"+l2+";xR99", "for-3 header declares, body names an undefined variable"
	case 6:
		p.src = fmt.Sprintf("for _, %s := range [%s, %s] {\n  %s\n}", G, l1s, l2s, nb.src)
		p.model, p.tag = "~x+,"+l1+","+l2+";B8=L0;B"+nG+"=L0;"+nb.model, "range variable declares, then "+nb.tag
	case 7:
		p.src = fmt.Sprintf("switch %s {\ncase %s:\n  %s := %s\n  %s\n}", l1s, l2s, G, l3s, nb.src)
		p.model, p.tag = "~x+,"+l1+","+l2+";B"+nG+"="+l3+";"+nb.model, "switch case body declares, then "+nb.tag
	case 8:
		p.src = fmt.Sprintf("if true {\n  %s := %s\n  if true {\n    %s := %s\n    %s\n  }\n}", G, l1s, H, l2s, o.src)
		p.model, p.tag = "B"+nG+"="+l1+";B"+nH+"="+l2+";"+o.model, "nested blocks declare, then "+o.tag
	case 9:
		p.src = fmt.Sprintf("func() {\n  %s := %s\n  no_such_name\n}()", G, l1s)
		p.model, p.tag = "!", "function literal declares a local, names an undefined variable"
	case 10:
		p.src = fmt.Sprintf("if true {\n  no_such_name\n  %s := %s\n}", G, l1s)
		p.model, p.tag = "xR99", "undefined name BEFORE the block's declaration"
	case 11:
		p.src = fmt.Sprintf("%s + no_such_name", l1s)
		p.model, p.tag = "x+,"+l1+",R99", "a literal, then an undefined name"
	case 12:
		p.src = fmt.Sprintf("func %s(%s) {\n  return %s + no_such_name\n}", zt, G, l1s)
		p.model, p.tag = "!", "named function (declared in the first pass) whose body names an undefined variable"
	case 13:
		p.src = fmt.Sprintf("if true {\n  %s := %s\n}\nif true {\n  %s := %s\n  %s\n}", H, l2s, G, l1s, o.src)
		p.model, p.tag = "B"+nH+"="+l2+"/B"+nG+"="+l1+";"+o.model, "a complete block, then a block that declares, then "+o.tag
	case 14:
		d := Pick(g.r, g.declared)
		p.src = fmt.Sprintf("%s := %s\n%s := %s", zt, l1s, d, l2s)
		p.model, p.tag = "D"+nzt+"="+l1+"/D"+strconv.Itoa(tbNum(d))+"="+l2, "top-level declaration, then a top-level name declared again"
	}
	return p
}

func c18GenTables(r *RNG) *tbSession {
	g := &tbGen{r: r, pool: []string{"za", "zb", "zc", "zd"}[:2+r.Intn(3)], seenLits: map[string]bool{}}
	s := &tbSession{tag: "random session"}
	if r.Chance(25) {
		s.pieces = append(s.pieces, g.rejected()) // before the VM exists
	}
	if r.Chance(30) {
		g.hasConst = true
		l := g.lit()
		s.pieces = append(s.pieces, &tbPiece{src: "const zk = " + l.src(), model: "D4=L" + strconv.Itoa(l.v), tag: "accepted", lits: map[string]bool{l.key(): true}})
	}
	first := &tbS{k: 'd', name: g.pool[0], e: &tbX{k: 'L', lit: g.lit()}}
	g.declared = append(g.declared, first.name)
	s.pieces = append(s.pieces, tbAccepted(first))
	for i, n := 0, 3+r.Intn(5); i < n; i++ {
		if r.Chance(40) {
			s.pieces = append(s.pieces, g.rejected())
		} else {
			s.pieces = append(s.pieces, g.accepted())
		}
	}
	// every top-level name is read at the end
	var reads *tbX
	for _, n := range g.declared {
		v := &tbX{k: 'V', name: n}
		if reads == nil {
			reads = v
		} else {
			reads = &tbX{k: '+', a: v, b: reads}
		}
	}
	s.pieces = append(s.pieces, tbAccepted(&tbS{k: 'x', e: reads}))
	return s
}

// ---- the model's answer

type tbSnap struct {
	ok     bool
	syms   []int
	consts []string
	arr    []string
	vals   []string
}

func tbParseSnap(t string) (tbSnap, bool) {
	f := strings.Split(t, ":")
	if len(f) != 5 {
		return tbSnap{}, false
	}
	list := func(x string) []string {
		if x == "-" {
			return nil
		}
		return strings.Split(x, ".")
	}
	sn := tbSnap{ok: f[0] == "a", consts: list(f[2]), arr: list(f[3]), vals: list(f[4])}
	for _, x := range list(f[1]) {
		n, _ := strconv.Atoi(x)
		sn.syms = append(sn.syms, n)
	}
	return sn, true
}

func tbParseSnaps(t string) ([]tbSnap, bool) {
	var out []tbSnap
	for _, p := range strings.Split(t, "|") {
		sn, ok := tbParseSnap(p)
		if !ok {
			return nil, false
		}
		out = append(out, sn)
	}
	return out, true
}

// vm.Get through the model: the first slot called `num`
func (sn tbSnap) get(num int) string {
	for i, n := range sn.syms {
		if n == num {
			if i < len(sn.arr) && sn.arr[i] != "n" {
				return sn.arr[i]
			}
			return ""
		}
	}
	return ""
}

func tbClass(ok bool) string {
	if ok {
		return "ok"
	}
	return "compile"
}

func c18RunTables(e *Env, env *c18Env, s *tbSession) {
	var srcs, models []string
	nameOf := map[int]string{}
	nameSet := map[string]bool{}
	for _, n := range []string{"za", "zb", "zc", "zd", "zk", "_"} {
		nameOf[tbNum(n)] = n
	}
	for _, p := range s.pieces {
		srcs, models = append(srcs, p.src), append(models, p.model)
	}
	for i := 1; i < 100; i++ {
		nameOf[100+i], nameOf[200+i] = "zt"+strconv.Itoa(i), "zu"+strconv.Itoa(i)
	}
	text := "table session\n" + strings.Join(srcs, "\n----\n")
	rep := strings.Split(e.O.Ask("C18", "tabs", strings.Join(models, "|")), "\t")
	var impl, spec, contrast []tbSnap
	var whole tbSnap
	okRep := len(rep) == 5 && rep[0] == "ok"
	if okRep {
		var o1, o2, o3, o4 bool
		impl, o1 = tbParseSnaps(rep[1])
		spec, o2 = tbParseSnaps(rep[2])
		contrast, o3 = tbParseSnaps(rep[3])
		whole, o4 = tbParseSnap(rep[4])
		okRep = o1 && o2 && o3 && o4 && len(impl) == len(srcs) && len(spec) == len(srcs)
	}
	if !okRep {
		e.R.Case(text, false)
		e.R.Mismatch(text, strings.Join(models, "|"), strings.Join(rep, " "), "oracle did not answer the tabs request")
		return
	}
	// statistics: what the session exercises
	nRej, rejThenAcc, freshReused, shadowing := 0, false, false, false
	seen := map[string]bool{}
	pending := map[string]bool{} // literals first mentioned by a rejected piece
	for i, p := range s.pieces {
		if !spec[i].ok {
			nRej++
			for l := range p.lits {
				if !seen[l] {
					pending[l] = true
				}
			}
			e.R.H("table_rejected_shape", p.tag)
			if p.rejected == false {
				e.R.H("table_sessions", "the model rejects a piece the generator meant to be accepted")
			}
		} else {
			if nRej > 0 {
				rejThenAcc = true
			}
			for l := range p.lits {
				if pending[l] {
					freshReused = true
				}
				seen[l] = true
			}
		}
	}
	for i := range impl {
		if contrast[i].ok != impl[i].ok {
			shadowing = true
		}
	}
	e.R.Case(text, len(srcs) >= 3 && rejThenAcc)
	e.R.H("history_kind", "tables: "+s.tag)
	e.R.H("table_sessions", fmt.Sprintf("rejected pieces: %d", nRej))
	if freshReused {
		e.R.H("table_sessions", "a literal first mentioned by a rejected piece is used by a later accepted piece")
	}
	if shadowing {
		e.R.H("table_sessions", "a rejected piece's block variable carries the name of a live global that a later piece mentions (Lean contrast without the guard differs)")
	}
	var names []string
	for _, n := range []string{"za", "zb", "zc", "zd", "zk"} {
		names = append(names, n)
		nameSet[n] = true
	}
	env.names = names
	env.recTabs = true
	real := env.incremental(srcs, names, true)
	env.recTabs = false
	nHost := len(env.host)
	mismatch, specDiff := "", ""
	setM := func(d string) {
		if mismatch == "" {
			mismatch = d
		}
	}
	setS := func(d string) {
		if specDiff == "" {
			specDiff = d
		}
	}
	symNames := func(sn tbSnap) string {
		var out []string
		for _, n := range sn.syms {
			out = append(out, nameOf[n])
		}
		return strings.Join(out, " ")
	}
	var prev *c18Obs
	for i, r := range real {
		one := c18OneLine(srcs[i])
		// (1) outcome class
		if want := tbClass(impl[i].ok); r.Class != want {
			setM(fmt.Sprintf("piece %d `%s`: %s %s, the model: %s", i, one, r.Class, c18_firstLine(r.Err), want))
		}
		if want := tbClass(spec[i].ok); r.Class != want {
			if spec[i].ok {
				setS(fmt.Sprintf("piece %d `%s`: %s %s; appended to the accepted pieces before it, it is part of a program that compiles and runs", i, one, r.Class, c18_firstLine(r.Err)))
			} else {
				setS(fmt.Sprintf("piece %d `%s` is %s; the program of the accepted pieces before it followed by this piece does not compile", i, one, r.Class))
			}
			break
		}
		// (2) a rejected piece leaves the compiler as it was (no model involved)
		if r.Class == "compile" {
			pn, pc, pl, pa := nHost, 0, 0, 0
			if prev != nil {
				pn, pc, pl, pa = len(prev.CNames), len(prev.Consts), prev.CodeLen, prev.NNames
			}
			if len(r.CNames) != pn || len(r.Consts) != pc || r.CodeLen != pl || r.NNames != pa {
				setS(fmt.Sprintf("rejected piece %d `%s` changed the shared main code: symbols %d -> %d, constants %d -> %d, instructions %d -> %d, attribute names %d -> %d",
					i, one, pn, len(r.CNames), pc, len(r.Consts), pl, r.CodeLen, pa, r.NNames))
			}
		}
		// (3) the compiler's tables against the model's
		if r.CNames != nil {
			got := r.CNames
			if len(got) >= nHost {
				got = got[nHost:]
			}
			if g, w := strings.Join(got, " "), symNames(impl[i]); g != w {
				setM(fmt.Sprintf("piece %d: the root symbol table after the host's names is [%s], the model's [%s]", i, g, w))
			}
			if g, w := strings.Join(r.Consts, " "), strings.Join(impl[i].consts, " "); g != w {
				setM(fmt.Sprintf("piece %d: the constants of the main code are [%s], the model's [%s]", i, g, w))
			}
		}
		// (4) value and globals
		for which, sn := range []tbSnap{impl[i], spec[i]} {
			diff := ""
			if r.Class == "ok" && s.pieces[i].lastExpr && len(sn.vals) > 0 && r.Value != sn.vals[len(sn.vals)-1] {
				diff = fmt.Sprintf("piece %d `%s`: value %s, expected %s", i, one, r.Value, sn.vals[len(sn.vals)-1])
			}
			if diff == "" {
				for _, n := range names {
					if got, want := r.Globals[n], sn.get(tbNum(n)); got != want {
						diff = fmt.Sprintf("after piece %d `%s`: global %s = %s (vm.Get), expected %s", i, one, n, c18_orUndef(got), c18_orUndef(want))
						break
					}
				}
			}
			if diff != "" {
				if which == 0 {
					setM(diff)
				} else {
					setS(diff + " (the accepted pieces so far as one program)")
				}
			}
		}
		prev = r
	}
	// (5) the real whole program of the accepted pieces
	var acc []string
	lastAcc := -1
	for i := range srcs {
		if spec[i].ok {
			acc = append(acc, srcs[i])
			lastAcc = i
		}
	}
	if specDiff == "" && mismatch == "" && lastAcc >= 0 {
		w := env.wholeEval(strings.Join(acc, "\n"))
		last := real[len(real)-1]
		switch {
		case w.Class != "ok":
			e.R.Mismatch(text, "whole program: "+w.Class+" "+c18_firstLine(w.Err), "ok", "the accepted pieces of a table session do not evaluate as one program")
		default:
			if lastAcc == len(srcs)-1 && s.pieces[lastAcc].lastExpr {
				if last.Value != w.Value {
					setS(fmt.Sprintf("value of the last piece %s, of the whole program %s", last.Value, w.Value))
				}
				if len(whole.vals) > 0 && w.Value != whole.vals[len(whole.vals)-1] {
					setM(fmt.Sprintf("whole program: value %s, the model's tabWhole %s", w.Value, whole.vals[len(whole.vals)-1]))
				}
			}
			for _, n := range names {
				if last.Globals[n] != w.Globals[n] {
					setS(fmt.Sprintf("after the last piece global %s = %s, after the whole program %s", n, c18_orUndef(last.Globals[n]), c18_orUndef(w.Globals[n])))
					break
				}
				if got, want := w.Globals[n], whole.get(tbNum(n)); got != want {
					setM(fmt.Sprintf("whole program: %s = %s, the model's tabWhole %s", n, c18_orUndef(got), c18_orUndef(want)))
					break
				}
			}
		}
	}
	if mismatch != "" {
		e.R.Mismatch(text, mismatch, rep[1], "real session vs Lean tables model (tabImpl: compPiece, Tab.rollback; rollback_restores_tables, tab_session_eq_spec)")
	}
	if specDiff != "" {
		e.R.Spec(text, specDiff, "")
		e.R.H("table_spec", "violated")
	} else {
		e.R.H("table_spec", "holds")
	}
}

// ---- directed sessions: the smallest histories of each kind first

func c18TablesDirected() []*tbSession {
	li := func(v int) *tbX { return &tbX{k: 'L', lit: tbLit{v, 'i'}} }
	ls := func(v int) *tbX { return &tbX{k: 'L', lit: tbLit{v, 's'}} }
	lf := func(v int) *tbX { return &tbX{k: 'L', lit: tbLit{v, 'f'}} }
	V := func(n string) *tbX { return &tbX{k: 'V', name: n} }
	add := func(a, b *tbX) *tbX { return &tbX{k: '+', a: a, b: b} }
	d := func(n string, e *tbX) *tbS { return &tbS{k: 'd', name: n, e: e} }
	a := func(n string, e *tbX) *tbS { return &tbS{k: 'a', name: n, e: e} }
	x := func(e *tbX) *tbS { return &tbS{k: 'x', e: e} }
	iff := func(c bool, body ...*tbS) *tbS { return &tbS{k: 'I', cond: c, body: body} }
	A := tbAccepted
	R := func(src, model, tag string, lits ...string) *tbPiece {
		m := map[string]bool{}
		for _, l := range lits {
			m[l] = true
		}
		return &tbPiece{src: src, model: model, rejected: true, tag: tag, lits: m}
	}
	mk := func(tag string, ps ...*tbPiece) *tbSession {
		for _, p := range ps {
			if p.tag == "" {
				p.tag = "accepted"
			}
		}
		return &tbSession{pieces: ps, tag: "directed: " + tag}
	}
	return []*tbSession{
		mk("rejected if body declares the name of a live global; the global is read, assigned, read",
			A(d("za", li(5))),
			R("if true {\n  za := 0\n  no_such_name\n}", "B0=L0;xR99", "if body declares, then undefined name", "i0"),
			A(x(V("za"))), A(a("za", add(V("za"), li(1)))), A(x(V("za")))),
		mk("rejected for-3 header declares the name of a live global",
			A(d("za", li(5))),
			R("for za := 0; za < 3; za++ {\n  no_such_name\n}", "B0=L0;~x+,K0,L3;xR99", "for-3 header declares, body names an undefined variable", "i0", "i3"),
			A(x(add(V("za"), li(1))))),
		mk("rejected range variable declares the name of a live global",
			A(d("za", li(5)), d("zb", li(6))),
			R("for _, zb := range [1, 2] {\n  no_such_name\n}", "~x+,L1,L2;B8=L0;B1=L0;xR99", "range variable declares, then undefined name", "i1", "i2"),
			A(x(add(V("za"), V("zb"))))),
		mk("rejected switch case body declares the name of a live global",
			A(d("za", li(5))),
			R("switch 1 {\ncase 1:\n  za := 9\n  no_such_name\n}", "~x+,L1,L1;B0=L9;xR99", "switch case body declares, then undefined name", "i1", "i9"),
			A(a("za", add(V("za"), V("za")))), A(x(V("za")))),
		mk("after the rejected shadowing piece the name is declared AGAIN at top level: must be rejected too",
			A(d("za", li(5))),
			R("if true {\n  za := 0\n  no_such_name\n}", "B0=L0;xR99", "if body declares, then undefined name", "i0"),
			R("za := 7", "D0=L7", "a top-level name declared again", "i7"),
			A(x(V("za")))),
		mk("a string literal first mentioned by a rejected piece is the first new constant of the next piece",
			A(d("za", li(5))),
			R("zt1 := int(\"41\")\nno_such_name", "D101=L41/xR99", "top-level declaration, then undefined name", "s41"),
			A(d("zb", ls(41))), A(x(add(V("za"), V("zb"))))),
		mk("a string literal first mentioned by a rejected piece is used after another new constant",
			A(d("za", li(5))),
			R("zt1 := int(\"41\")\nno_such_name", "D101=L41/xR99", "top-level declaration, then undefined name", "s41"),
			A(d("zb", ls(7)), d("zc", ls(41))), A(x(V("zb"))), A(x(V("zc")))),
		mk("the same with int and float literals, the rejected piece first (no VM yet)",
			R("41 + int(7.0) + no_such_name", "x+,+,L41,L7,R99", "a literal, then an undefined name", "i41", "f7"),
			A(d("za", lf(2))), A(d("zb", add(li(41), lf(7)))), A(x(add(V("za"), V("zb"))))),
		mk("two rejected pieces in a row, both with a fresh literal and a shadowing block variable",
			A(d("za", ls(1)), d("zb", ls(2))),
			R("if true {\n  za := int(\"100\")\n  no_such_name\n}", "B0=L100;xR99", "if body declares, then undefined name", "s100"),
			R("if true {\n  zb := int(\"300\")\n  no_such_name = 1\n}", "B1=L300;S99=L1", "if body declares, then assignment to an undefined name", "s300", "i1"),
			A(d("zc", add(ls(300), ls(100)))), A(x(add(V("za"), add(V("zb"), V("zc")))))),
		mk("after the rejected piece an ACCEPTED block declares the same name (the slot is claimed again)",
			A(d("za", li(5)), d("zb", li(0))),
			R("if true {\n  za := int(\"41\")\n  zb = za\n  no_such_name\n}", "B0=L41;S1=K0;xR99", "if body declares, then undefined name", "s41"),
			A(iff(true, d("za", ls(41)), a("zb", add(V("za"), li(1))))), A(x(add(V("za"), V("zb"))))),
		mk("nested blocks of a rejected piece declare two live globals",
			A(d("za", li(1))), A(d("zb", li(2))),
			R("if true {\n  za := 7\n  if true {\n    zb := za\n    no_such_name\n  }\n}", "B0=L7;B1=K0;xR99", "nested blocks declare, then undefined name", "i7"),
			A(x(add(V("za"), V("zb")))), A(a("zb", li(7))), A(x(add(V("za"), V("zb"))))),
		mk("the offending name comes BEFORE the declaration in the block (nothing claimed)",
			A(d("za", li(5))),
			R("if true {\n  no_such_name\n  za := 0\n}", "xR99", "undefined name BEFORE the block's declaration"),
			A(x(V("za")))),
		mk("a rejected constant reassignment inside a block that shadows",
			&tbPiece{src: "const zk = 7", model: "D4=L7", lits: map[string]bool{"i7": true}},
			A(d("za", li(5))),
			R("if true {\n  za := int(\"2\")\n  zk = za\n}", "B0=L2;!", "if body declares, then assignment to a constant", "s2"),
			A(d("zb", add(V("za"), add(V("zk"), ls(2))))), A(x(V("zb")))),
		mk("dead branches of accepted pieces claim slots and constants too",
			A(d("za", li(5))),
			A(&tbS{k: 'I', cond: false, hasElse: true, body: []*tbS{d("za", ls(41)), a("za", li(0))}, els: []*tbS{d("za", ls(7)), x(V("za"))}}),
			R("if true {\n  za := int(\"41\")\n  no_such_name\n}", "B0=L41;xR99", "if body declares, then undefined name", "s41"),
			A(x(add(V("za"), ls(41))))),
	}
}

func c18Tables(e *Env, env *c18Env) {
	for _, s := range c18TablesDirected() {
		c18RunTables(e, env, s)
	}
	n := 500
	if !e.Quick {
		n = 6000
	}
	r := e.Rng.Fork()
	for i := 0; i < n; i++ {
		c18RunTables(e, env, c18GenTables(r.Fork()))
	}
	// a HOST-supplied name declared inside a block of a REJECTED piece: the builtin must be the builtin in every later
	// piece (no table model: the incremental run against the whole program of the accepted pieces, every host-supplied
	// global compared after every piece)
	for _, h := range []struct {
		pieces []string
		expect []string
	}{
		{[]string{"za := 1", "if true {\n  len := 3\n  no_such_name\n}", "zb := len([1, 2])", "[za, zb]"}, []string{"", "compile", "", ""}},
		{[]string{"for int := 0; int < 3; int++ {\n  no_such_name\n}", "za := int(\"41\")", "za"}, []string{"compile", "", ""}},
		{[]string{"za := 0", "for _, math := range [1, 2] {\n  no_such_name\n}", "zb := math.abs(-2)", "[za, zb]"}, []string{"", "compile", "", ""}},
		{[]string{"za := 1", "switch za {\ncase 1:\n  keys := 9\n  no_such_name = keys\n}", "zb := keys({\"a\": 1})", "[za, zb]"}, []string{"", "compile", "", ""}},
		{[]string{"za := \"draft\"", "if true {\n  string := \"final\"\n  no_such_name\n}", "zb := string(5) + \"final\"", "[za, zb]"}, []string{"", "compile", "", ""}},
		// the third table of the main code that compiled code addresses by index: attribute names (Code.names)
		{[]string{"za := [1]", "za.append(no_such_name)", "za.append(2)", "len(za)"}, []string{"", "compile", "", ""}},
		{[]string{"za := \"ab\"", "zb := za.to_upper(no_such_name)", "zb := za.to_upper()", "zb.to_lower() + za"}, []string{"", "compile", "", ""}},
		{[]string{"za := \"ab\"", "if true {\n  zb := za.to_upper()\n  no_such_name\n}", "zb := za.to_lower()\nzb = zb.to_upper()", "zb + za"}, []string{"", "compile", "", ""}},
	} {
		text := "table session (a host-supplied name declared inside a block of a rejected piece / attribute names)\n" + strings.Join(h.pieces, "\n----\n")
		e.R.Case(text, true)
		e.R.H("history_kind", "tables: a host-supplied name declared inside a block of a rejected piece / attribute names of a rejected piece")
		c18VsWhole(e, env, text, h.pieces, h.expect, []string{"za", "zb"})
	}
}
