package main

// C05 stream F — the printed / formatted / stringified form of every object type.
//
// An object graph is generated together with (a) a risor expression that builds it from the
// default globals (or the name of a host-built global for the types a script cannot make:
// partial, cell, dynamic_attr, an entry holding a channel) and (b) the model term
// (Risor.C05.RObj) with an address chosen by the harness for every allocation.  One script
// renders the object through every route:
//
//   print(x)  printf("%v;\n", x)  fmt.println(x, x)  print([x])                    (stdout)
//   string(x)  sprintf("%v", x)  sprintf("%s", x)  fmt.sprintf("<%v>", x)  '{x}'  'a{x}b'
//   string([x])  sprintf("%v", [x])  sprintf("%v", {"k": x})
//   string(errorf("e %v", x))  string(errors.new("n %v", x))
//   try(func() { error("E %v", x) }, …)      (PrintableValue since the repair of C05-error-format-raw-go-value)
//   x.Inspect()  fmt.Sprintf("%v", object.PrintableValue(x))  builtins.Sprintf("%v", x)   (Go API, direct)
//
// Correspondence: every text must equal the model's (oracle request `render`).
// Spec: the script is evaluated `reps` times in fresh VMs and in fresh processes, all texts
// must be byte-identical; and no text may contain a Go pointer (0x followed by >= 6 hex
// digits) unless the model's text — which has no address in it — contains one as well
// (a string whose value looks like that).

import (
	"context"
	"fmt"
	"regexp"
	"sort"
	"strconv"
	"strings"
	"time"

	"github.com/risor-io/risor"
	"github.com/risor-io/risor/builtins"
	"github.com/risor-io/risor/object"
)

const (
	c05_renderMarker  = "// c05-render: concurrency + host objects\n"
	c05_renderTimeout = 5 * time.Second
)

var c05_ptrPattern = regexp.MustCompile(`0x[0-9a-f]{6,}`)
var c05_anyPtr = regexp.MustCompile(`0x[0-9a-f]+`)

type c05_rnode struct {
	kind          string
	txt, raw, aux string
	kids          []*c05_rnode
	errOK         bool // (historical) Interface()+%v of this node (and everything below) is modelled by ifaceV, the pre-fix error() route
}

func c05_hexField(s string) string {
	if s == "" {
		return "-"
	}
	return Hex(s)
}

func (n *c05_rnode) term(r *RNG, out *[]string) {
	*out = append(*out, n.kind, strconv.Itoa(0x100000+r.Intn(0xffffff)), c05_hexField(n.txt), c05_hexField(n.raw), c05_hexField(n.aux), strconv.Itoa(len(n.kids)))
	for _, k := range n.kids {
		k.term(r, out)
	}
}

func (n *c05_rnode) termText(r *RNG) string {
	var toks []string
	n.term(r, &toks)
	return strings.Join(toks, " ")
}

func (n *c05_rnode) walk(f func(*c05_rnode)) {
	f(n)
	for _, k := range n.kids {
		k.walk(f)
	}
}

func (n *c05_rnode) depth() int {
	d := 0
	for _, k := range n.kids {
		if kd := k.depth(); kd > d {
			d = kd
		}
	}
	return d + 1
}

// String.Inspect: '…' around a value that starts and ends with its only two double quotes, %q otherwise
func c05_inspectString(s string) string {
	if len(s) >= 2 && s[0] == '"' && s[len(s)-1] == '"' && strings.Count(s, "\"") == 2 {
		return "'" + s + "'"
	}
	return strconv.Quote(s)
}

// the objects a script cannot build itself; fixed, so that a child process builds the same ones
func c05_hostObjects() map[string]any {
	five := object.Object(object.NewInt(5))
	var lst object.Object = object.NewList([]object.Object{object.NewInt(1), object.NewString("a")})
	return map[string]any{
		"hp0": object.NewPartial(object.NewBuiltin("len", nil), []object.Object{object.NewInt(1), object.NewString("s")}),
		"hp1": object.NewPartial(object.NewBuiltin("len", nil), nil),
		"hp2": object.NewPartial(object.NewChan(3), []object.Object{object.NewChan(0)}),
		"hc0": object.NewCell(&five),
		"hc1": object.NewCell(&lst),
		"hc2": object.NewCell(nil),
		"hd0": object.NewDynamicAttr("dyn", nil),
		"he0": object.NewEntry(object.NewInt(1), object.NewChan(1)),
	}
}

func c05_leafNode(kind, txt, raw string, errOK bool) *c05_rnode {
	return &c05_rnode{kind: kind, txt: txt, raw: raw, errOK: errOK}
}

func c05_intNode(v int64) *c05_rnode {
	s := strconv.FormatInt(v, 10)
	return c05_leafNode("Int", s, s, true)
}

func c05_strNode(s string) *c05_rnode {
	return c05_leafNode("String", c05_inspectString(s), s, true)
}

var c05_hostNodes = map[string]func() *c05_rnode{
	"hp0": func() *c05_rnode {
		return &c05_rnode{kind: "Partial", kids: []*c05_rnode{c05_leafNode("Builtin", "len", "", true), c05_intNode(1), c05_strNode("s")}}
	},
	"hp1": func() *c05_rnode {
		return &c05_rnode{kind: "Partial", kids: []*c05_rnode{c05_leafNode("Builtin", "len", "", true)}}
	},
	"hp2": func() *c05_rnode {
		return &c05_rnode{kind: "Partial", kids: []*c05_rnode{c05_leafNode("Chan", "3", "", true), c05_leafNode("Chan", "", "", true)}}
	},
	"hc0": func() *c05_rnode { return &c05_rnode{kind: "Cell", kids: []*c05_rnode{c05_intNode(5)}, errOK: true} },
	"hc1": func() *c05_rnode {
		return &c05_rnode{kind: "Cell", errOK: true, kids: []*c05_rnode{{kind: "List", errOK: true, kids: []*c05_rnode{c05_intNode(1), c05_strNode("a")}}}}
	},
	"hc2": func() *c05_rnode { return &c05_rnode{kind: "Cell", errOK: true} },
	"hd0": func() *c05_rnode { return c05_leafNode("DynamicAttr", "dyn", "", false) },
	"he0": func() *c05_rnode {
		return &c05_rnode{kind: "Entry", errOK: true, kids: []*c05_rnode{c05_intNode(1), c05_leafNode("Chan", "1", "", true)}}
	},
}

type c05_rgen struct {
	r       *RNG
	prelude []string
	nfun    int
}

var c05_rwords = []string{"", "a", "x y", "é", "\"q\"", "it's", "a\nb", "0xdeadbeef12", "日本", "\"a\"b\"", "k"}

var c05_rbuiltins = [][2]string{
	{"len", "len"}, {"print", "print"}, {"sprintf", "sprintf"}, {"try", "try"}, {"math.abs", "math.abs"},
	{"strings.join", "strings.join"}, {"\"abc\".split", "string.split"}, {"[1].append", "list.append"},
	{"{1}.add", "set.add"}, {"json.marshal", "json.marshal"}, {"iter", "iter"}, {"chan", "chan"},
}

func (g *c05_rgen) scalar() (string, *c05_rnode) {
	r := g.r
	switch r.Intn(7) {
	case 0:
		return "nil", c05_leafNode("NilType", "nil", "nil", true)
	case 1:
		if r.Bool() {
			return "true", c05_leafNode("Bool", "true", "true", true)
		}
		return "false", c05_leafNode("Bool", "false", "false", true)
	case 2:
		v := int64(r.Intn(24) - 3)
		if r.Chance(10) {
			v = 1234567890123
		}
		if v < 0 {
			return "(" + strconv.FormatInt(v, 10) + ")", c05_intNode(v)
		}
		return strconv.FormatInt(v, 10), c05_intNode(v)
	case 3:
		f := Pick(r, []float64{1.5, 2.25, 0.1, 1000000.0, 2.0, 0.5, 123456789.0, 100000000000000000000000.0})
		src := strconv.FormatFloat(f, 'f', 1, 64)
		if f == 2.25 {
			src = "2.25"
		}
		return src, c05_leafNode("Float", strconv.FormatFloat(f, 'f', -1, 64), fmt.Sprint(f), true)
	case 4:
		b := 60 + r.Intn(10)
		return fmt.Sprintf("byte(%d)", b), c05_leafNode("Byte", strconv.Itoa(b), strconv.Itoa(b), true)
	default:
		w := Pick(r, c05_rwords)
		return strconv.Quote(w), c05_strNode(w)
	}
}

func (g *c05_rgen) opaqueLeaf() (string, *c05_rnode) {
	r := g.r
	switch r.Intn(14) {
	case 0:
		msg := Pick(r, []string{"boom", "bo\"om", "e: x", ""})
		return "errors.new(" + strconv.Quote(msg) + ")", c05_leafNode("Error", strconv.Quote(msg), msg, true)
	case 1:
		ts := Pick(r, []string{"2020-01-02T03:04:05Z", "1999-12-31T23:59:59Z"})
		return "time.parse(time.RFC3339, \"" + ts + "\")", c05_leafNode("Time", strconv.Quote(ts), ts, false)
	case 2:
		bs := Pick(r, [][]byte{{104, 105}, {1, 2, 200}, {}})
		var parts []string
		for _, b := range bs {
			parts = append(parts, strconv.Itoa(int(b)))
		}
		return "byte_slice([" + strings.Join(parts, ", ") + "])", &c05_rnode{kind: "ByteSlice", txt: fmt.Sprintf("%q", bs), raw: fmt.Sprintf("byte_slice(%v)", bs), aux: string(bs)}
	case 3:
		fs := Pick(r, [][]float64{{1.5, 2}, {}, {0.25}})
		var parts []string
		for _, f := range fs {
			parts = append(parts, strconv.FormatFloat(f, 'f', -1, 64))
		}
		return "float_slice([" + strings.Join(parts, ", ") + "])", c05_leafNode("FloatSlice", fmt.Sprintf("%v", fs), "", false)
	case 4:
		c := Pick(r, []string{"ab", "a\"b", ""})
		return "buffer(" + strconv.Quote(c) + ")", &c05_rnode{kind: "Buffer", txt: strconv.Quote(c), aux: c}
	case 5:
		// functions: anonymous, named (declared in the prelude), closure
		switch r.Intn(3) {
		case 0:
			params := Pick(r, []string{"", "a", "a, b=2", "a, b=\"x\", c=1.5, e=true"})
			body := Pick(r, []string{"return 1", "return a", "print(\"f\")"})
			if params == "" && body == "return a" {
				body = "return 1"
			}
			return "func(" + params + ") { " + body + " }", c05_leafNode("Function", "func("+params+") { "+body+" }", "func() { ... }", true)
		case 1:
			name := fmt.Sprintf("rf%d", g.nfun)
			g.nfun++
			params := Pick(r, []string{"", "a", "a, b=2"})
			g.prelude = append(g.prelude, "func "+name+"("+params+") { return 7 }")
			return name, c05_leafNode("Function", "func "+name+"("+params+") { return 7 }", "func "+name+"() { ... }", true)
		default:
			return "func(x) { return func() { return x } }(5)", c05_leafNode("Function", "func() { return x }", "func() { ... }", true)
		}
	case 6:
		b := Pick(r, c05_rbuiltins)
		return b[0], c05_leafNode("Builtin", b[1], "", true)
	case 7:
		m := Pick(r, []string{"math", "strings", "json", "os", "time", "rand", "fmt", "errors"})
		return m, c05_leafNode("Module", m, "", true)
	case 8, 9:
		n := r.Intn(4)
		if n == 0 {
			return "chan()", c05_leafNode("Chan", "", "", true)
		}
		return fmt.Sprintf("chan(%d)", n), c05_leafNode("Chan", strconv.Itoa(n), "", true)
	case 10:
		n := r.Intn(6)
		return fmt.Sprintf("iter(%d)", n), c05_leafNode("IntIter", strconv.Itoa(n), "", false)
	case 11:
		w := Pick(r, []string{"ab", "", "héy"})
		return "iter(" + strconv.Quote(w) + ")", c05_leafNode("SliceIter", fmt.Sprintf("slice_iter(pos=-1 size=%d)", len([]rune(w))), "", false)
	case 12:
		if r.Bool() {
			return "func() { t := spawn(len, \"ab\"); t.wait(); return t }()", &c05_rnode{kind: "Thread", errOK: true, kids: []*c05_rnode{c05_leafNode("Builtin", "len", "", true)}}
		}
		return "func() { t := spawn(func() { return 1 }); t.wait(); return t }()", &c05_rnode{kind: "Thread", errOK: true}
	default:
		h := Pick(r, []string{"hp0", "hp1", "hp2", "hc0", "hc1", "hc2", "hd0", "he0"})
		return h, c05_hostNodes[h]()
	}
}

func c05_allErrOK(kids []*c05_rnode) bool {
	for _, k := range kids {
		if !k.errOK {
			return false
		}
	}
	return true
}

// hashable set members in Set.SortedItems order: by type name, then value
type c05_setMember struct {
	src  string
	node *c05_rnode
	ty   string
	i    int64
	s    string
}

func (g *c05_rgen) list(d int) (string, *c05_rnode) {
	n := g.r.Intn(4)
	var srcs []string
	node := &c05_rnode{kind: "List"}
	for i := 0; i < n; i++ {
		s, k := g.obj(d - 1)
		srcs = append(srcs, s)
		node.kids = append(node.kids, k)
	}
	node.errOK = c05_allErrOK(node.kids)
	return "[" + strings.Join(srcs, ", ") + "]", node
}

func (g *c05_rgen) mapOf(d int) (string, *c05_rnode) {
	r := g.r
	n := r.Intn(4)
	keys := map[string]bool{}
	for len(keys) < n {
		keys[Pick(r, []string{"a", "k1", "é", "b c", "", "Z", "a\"b"})] = true
	}
	var ks []string
	for k := range keys {
		ks = append(ks, k)
	}
	sort.Strings(ks)
	node := &c05_rnode{kind: "Map"}
	// built by assignments in a random order: a map literal with >= 2 entries is the known
	// finding C05-map-literal-order, and insertion order must not matter for the printed form
	var stmts []string
	for _, k := range ks {
		s, v := g.obj(d - 1)
		stmts = append(stmts, "m["+strconv.Quote(k)+"] = "+s)
		node.kids = append(node.kids, &c05_rnode{kind: "pair", txt: strconv.Quote(k), raw: k, kids: []*c05_rnode{v}, errOK: v.errOK})
	}
	for i := len(stmts) - 1; i > 0; i-- {
		j := r.Intn(i + 1)
		stmts[i], stmts[j] = stmts[j], stmts[i]
	}
	node.errOK = c05_allErrOK(node.kids)
	if len(stmts) == 0 {
		return "{}", node
	}
	return "func() { m := {}; " + strings.Join(stmts, "; ") + "; return m }()", node
}

func (g *c05_rgen) setOf() (string, *c05_rnode) {
	r := g.r
	n := r.Intn(4)
	var ms []c05_setMember
	seen := map[string]bool{}
	for i := 0; i < n; i++ {
		var m c05_setMember
		switch r.Intn(3) {
		case 0:
			v := int64(r.Intn(12))
			m = c05_setMember{strconv.FormatInt(v, 10), c05_intNode(v), "int", v, ""}
		case 1:
			w := Pick(r, c05_rwords)
			m = c05_setMember{strconv.Quote(w), c05_strNode(w), "string", 0, w}
		default:
			if r.Bool() {
				m = c05_setMember{"true", c05_leafNode("Bool", "true", "true", true), "bool", 1, ""}
			} else {
				m = c05_setMember{"nil", c05_leafNode("NilType", "nil", "nil", true), "nil", 0, ""}
			}
		}
		key := m.ty + "/" + m.src
		if seen[key] {
			continue
		}
		seen[key] = true
		ms = append(ms, m)
	}
	var srcs []string
	for _, m := range ms {
		srcs = append(srcs, m.src)
	}
	sort.SliceStable(ms, func(i, j int) bool {
		if ms[i].ty != ms[j].ty {
			return ms[i].ty < ms[j].ty
		}
		if ms[i].i != ms[j].i {
			return ms[i].i < ms[j].i
		}
		return ms[i].s < ms[j].s
	})
	node := &c05_rnode{kind: "Set", errOK: true}
	for _, m := range ms {
		node.kids = append(node.kids, m.node)
	}
	if len(srcs) == 0 {
		return "set()", node
	}
	return "{" + strings.Join(srcs, ", ") + "}", node
}

func (g *c05_rgen) obj(d int) (string, *c05_rnode) {
	r := g.r
	if d <= 0 {
		if r.Chance(40) {
			return g.scalar()
		}
		return g.opaqueLeaf()
	}
	switch r.Intn(12) {
	case 0, 1:
		return g.list(d)
	case 2:
		return g.mapOf(d)
	case 3:
		return g.setOf()
	case 4:
		// iterators over a container: Inspect() shows the container
		switch r.Intn(3) {
		case 0:
			s, n := g.list(d)
			return "iter(" + s + ")", &c05_rnode{kind: "ListIter", kids: []*c05_rnode{n}}
		case 1:
			s, n := g.mapOf(d)
			return "iter(" + s + ")", &c05_rnode{kind: "MapIter", kids: []*c05_rnode{n}}
		default:
			s, n := g.setOf()
			return "iter(" + s + ")", &c05_rnode{kind: "SetIter", kids: []*c05_rnode{n}}
		}
	case 5, 6:
		// iterator entries: of a list (index, item), of a map (first key in sorted order, value), of an int
		switch r.Intn(3) {
		case 0:
			s, v := g.obj(d - 1)
			s2, _ := g.scalar()
			return "func() { it := iter([" + s + ", " + s2 + "]); it.next(); return it.entry() }()",
				&c05_rnode{kind: "Entry", kids: []*c05_rnode{c05_intNode(0), v}, errOK: v.errOK}
		case 1:
			s, v := g.obj(d - 1)
			return "func() { m := {}; m[\"zz\"] = 0; m[\"k\"] = " + s + "; it := iter(m); it.next(); return it.entry() }()",
				&c05_rnode{kind: "Entry", kids: []*c05_rnode{c05_strNode("k"), v}, errOK: v.errOK}
		default:
			return "func() { it := iter(4); it.next(); it.next(); return it.entry() }()",
				&c05_rnode{kind: "Entry", kids: []*c05_rnode{c05_intNode(1), c05_intNode(1)}, errOK: true}
		}
	case 7:
		return g.scalar()
	default:
		return g.opaqueLeaf()
	}
}

func c05_renderOpts() []risor.Option {
	return []risor.Option{risor.WithConcurrency(), risor.WithGlobals(c05_hostObjects())}
}

func c05_isPrimitiveKind(k string) bool {
	switch k {
	case "String", "Int", "Float", "Byte", "Error", "Bool":
		return true
	}
	return false
}

// the script that renders x through every route; its value is [x, [texts…]]
func c05_renderScript(prelude []string, expr string, node *c05_rnode) (string, []string) {
	var sb strings.Builder
	sb.WriteString(c05_renderMarker)
	for _, p := range prelude {
		sb.WriteString(p + "\n")
	}
	sb.WriteString("x := " + expr + "\n")
	sb.WriteString("print(x)\nprintf(\"%v;\\n\", x)\nfmt.println(x, x)\nprint([x])\n")
	routes := []string{"string(x)", "sprintf(\"%v\", x)", "fmt.sprintf(\"<%v>\", x)", "'{x}'", "'a{x}b'", "string([x])", "sprintf(\"%v\", [x])",
		"sprintf(\"%v\", func() { m := {}; m[\"k\"] = x; return m }())", "string(errorf(\"e %v\", x))", "string(errors.new(\"n %v\", x))"}
	if !c05_isPrimitiveKind(node.kind) {
		routes = append(routes, "sprintf(\"%s\", x)")
	}
	// the error() builtin: PrintableValue + %v since its repair, for every object
	routes = append(routes, "try(func() { error(\"E %v\", x) }, func(e) { return string(e) })")
	sb.WriteString("[x, [" + strings.Join(routes, ", ") + "]]\n")
	return sb.String(), routes
}

type c05_renderModel struct {
	inspect, printable, str, interp, errorFmt, noFallback string
	ifacePreFix                                           string // Interface()+%v: what error() printed before its repair
	noRawAddr, cellFree                                   bool
	ok                                                    bool
}

func c05_parseRender(reply string) (m c05_renderModel) {
	f := strings.Split(reply, "\t")
	if len(f) != 10 || f[0] != "ok" {
		return
	}
	un := func(s string) string {
		if s == "-" {
			return ""
		}
		return UnHex(s)
	}
	return c05_renderModel{un(f[1]), un(f[2]), un(f[3]), un(f[4]), un(f[5]), un(f[6]), un(f[7]), f[8] == "true", f[9] == "true", true}
}

type c05_renderObs struct {
	texts  []string // one per route
	stdout string
	insp   string // x.Inspect(), called by the harness
	pv     string // fmt.Sprintf("%v", object.PrintableValue(x))
	bsp    string // builtins.Sprintf(ctx, "%v", x) (shadowed by fmt.sprintf in the default globals: reached through the Go API)
	err    string
}

func c05_renderObserve(src string) (o c05_renderObs) {
	out := EvalSrc(src, c05_renderTimeout, c05_renderOpts()...)
	o.stdout = out.Stdout
	if out.Err != "" {
		o.err = out.Err
		return
	}
	func() {
		defer func() {
			if r := recover(); r != nil {
				o.err = fmt.Sprintf("PANIC while reading the result: %v", r)
			}
		}()
		top, ok := out.Obj.(*object.List)
		if !ok || len(top.Value()) != 2 {
			o.err = "result is not [x, texts]"
			return
		}
		x := top.Value()[0]
		o.insp = x.Inspect()
		o.pv = fmt.Sprintf("%v", object.PrintableValue(x))
		if so, ok := builtins.Sprintf(context.Background(), object.NewString("%v"), x).(*object.String); ok {
			o.bsp = so.Value()
		} else {
			o.bsp = "<not a string>"
		}
		l, ok := top.Value()[1].(*object.List)
		if !ok {
			o.err = "result is not [x, texts]"
			return
		}
		for _, it := range l.Value() {
			if s, ok := it.(*object.String); ok {
				o.texts = append(o.texts, s.Value())
			} else {
				o.texts = append(o.texts, "<"+string(it.Type())+"> "+it.Inspect())
			}
		}
	}()
	return
}

func (o c05_renderObs) key() string {
	return strings.Join(o.texts, "\x00") + "\x01" + o.stdout + "\x01" + o.insp + "\x01" + o.pv + "\x01" + o.bsp + "\x01" + o.err
}

func c05_maskPtr(s string) string { return c05_anyPtr.ReplaceAllString(s, "0xPTR") }

type c05_renderCase struct {
	src    string
	routes []string
	node   *c05_rnode
	mX     c05_renderModel // x
	mL     c05_renderModel // [x]
	mM     c05_renderModel // {"k": x}
	first  c05_renderObs
}

// expected text per route, and whether the route is the error() route
func (c *c05_renderCase) want(route string) (string, bool) {
	switch {
	case route == "string(x)":
		return c.mX.str, false
	case route == "sprintf(\"%v\", x)", route == "sprintf(\"%s\", x)":
		return c.mX.printable, false
	case route == "fmt.sprintf(\"<%v>\", x)":
		return "<" + c.mX.printable + ">", false
	case route == "'{x}'":
		return c.mX.interp, false
	case route == "'a{x}b'":
		return "a" + c.mX.interp + "b", false
	case route == "string([x])", route == "sprintf(\"%v\", [x])":
		return c.mL.inspect, false
	case strings.HasPrefix(route, "sprintf(\"%v\", func() { m := {}"):
		return c.mM.inspect, false
	case strings.HasPrefix(route, "string(errorf("):
		return "e " + c.mX.printable, false
	case strings.HasPrefix(route, "string(errors.new("):
		return "n " + c.mX.printable, false
	case strings.HasPrefix(route, "try(func() { error("):
		return "E " + c.mX.errorFmt, true
	}
	return "?", false
}

func c05Render(e *Env, n, reps, children int) {
	rng := e.Rng.Fork()
	var cases []*c05_renderCase
	var reqs []string
	// directed cases first (the smallest; the first violation recorded becomes the replay), then generated ones
	type directed struct {
		expr string
		node *c05_rnode
	}
	dirs := []directed{
		{"chan(2)", c05_leafNode("Chan", "2", "", true)},
		{"chan()", c05_leafNode("Chan", "", "", true)},
		{"func() { it := iter([\"x\"]); it.next(); return it.entry() }()", &c05_rnode{kind: "Entry", errOK: true, kids: []*c05_rnode{c05_intNode(0), c05_strNode("x")}}},
		{"func() { t := spawn(len, \"ab\"); t.wait(); return t }()", &c05_rnode{kind: "Thread", errOK: true, kids: []*c05_rnode{c05_leafNode("Builtin", "len", "", true)}}},
		{"hp0", c05_hostNodes["hp0"]()},
		{"hp2", c05_hostNodes["hp2"]()},
		{"he0", c05_hostNodes["he0"]()},
		{"hc1", c05_hostNodes["hc1"]()},
		{"[chan(1), len, math]", &c05_rnode{kind: "List", errOK: true, kids: []*c05_rnode{c05_leafNode("Chan", "1", "", true), c05_leafNode("Builtin", "len", "", true), c05_leafNode("Module", "math", "", true)}}},
		{"\"0xdeadbeef12\"", c05_strNode("0xdeadbeef12")},
	}
	for i := 0; i < len(dirs)+n; i++ {
		r := rng.Fork()
		g := &c05_rgen{r: r}
		var expr string
		var node *c05_rnode
		if i < len(dirs) {
			expr, node = dirs[i].expr, dirs[i].node
		} else {
			expr, node = g.obj(1 + r.Intn(3))
		}
		src, routes := c05_renderScript(g.prelude, expr, node)
		c := &c05_renderCase{src: src, routes: routes, node: node}
		cases = append(cases, c)
		wrapL := &c05_rnode{kind: "List", kids: []*c05_rnode{node}}
		wrapM := &c05_rnode{kind: "Map", kids: []*c05_rnode{{kind: "pair", txt: "\"k\"", raw: "k", kids: []*c05_rnode{node}}}}
		for _, t := range []*c05_rnode{node, wrapL, wrapM} {
			reqs = append(reqs, "C05\trender\t"+t.termText(r))
		}
	}
	replies := e.O.AskBatch(reqs)
	srcs := make([]string, len(cases))
	for i, c := range cases {
		c.mX, c.mL, c.mM = c05_parseRender(replies[3*i]), c05_parseRender(replies[3*i+1]), c05_parseRender(replies[3*i+2])
		srcs[i] = c.src
	}
	kids := c05RunChildren(srcs, children)
	for ci, k := range kids {
		if k == nil {
			e.R.Mismatch(fmt.Sprintf("render: child process %d", ci), "did not return one observation per script", "-", "child process failed")
		}
	}
	for i, c := range cases {
		e.R.Case(c.src, true)
		c.node.walk(func(k *c05_rnode) { e.R.H("render_kinds", k.kind) })
		e.R.H("render_top_kind", c.node.kind)
		e.R.H("render_depth", strconv.Itoa(c.node.depth()))
		if !c.mX.ok || !c.mL.ok || !c.mM.ok {
			e.R.Mismatch(c.src, "-", replies[3*i], "oracle rejected the object graph")
			continue
		}
		// ---- Spec 1: repetitions in fresh VMs and in fresh processes are byte-identical
		c.first = c05_renderObserve(c.src)
		if ErrClass(c.first.err) == "context" {
			e.R.H("render_outcome", "time-limit (not compared)")
			continue
		}
		varies := ""
		for rep := 1; rep < reps && varies == ""; rep++ {
			o := c05_renderObserve(c.src)
			if ErrClass(o.err) == "context" {
				break
			}
			if o.key() != c.first.key() {
				varies = c05_renderDiff(c, c.first, o)
			}
		}
		if varies != "" {
			e.R.H("render_variation", "in-process")
			e.R.Spec(c.src, "the rendered text differs between evaluations in fresh VMs: "+varies, "")
		} else {
			e.R.H("render_variation", "none in-process")
		}
		var procObs []c05Obs
		for _, k := range kids {
			if k != nil && ErrClass(k[i].Err) != "context" {
				procObs = append(procObs, k[i])
			}
		}
		for j := 1; j < len(procObs); j++ {
			a, b := procObs[0], procObs[j]
			if a.Value != b.Value || a.Err != b.Err || a.Stdout != b.Stdout {
				detail := fmt.Sprintf("the rendered text differs between fresh processes: value=%q err=%q stdout=%q | value=%q err=%q stdout=%q", a.Value, a.Err, a.Stdout, b.Value, b.Err, b.Stdout)
				e.R.H("render_variation", "fresh-processes")
				e.R.Spec(c.src, detail, "")
				break
			}
		}
		// ---- correspondence with the model, and Spec 2: no Go pointer in any text
		if c.first.err != "" {
			e.R.H("render_outcome", "script failed")
			e.R.Mismatch(c.src, "error: "+c.first.err, "a list of texts", "render script against the model")
			if c05_ptrPattern.MatchString(c.first.err) {
				e.R.Spec(c.src, "the error text contains a Go pointer: "+c.first.err, "")
			}
			continue
		}
		e.R.H("render_outcome", "rendered")
		check := func(route, got, want string, errRoute bool) {
			e.R.H("render_routes", route[:min(28, len(route))])
			if errRoute {
				// the repaired defect C05-error-format-raw-go-value: Interface()+%v printed the address of a
				// channel, builtin, file, partial, proxy.  Not a listed finding any more: a recurrence is a violation.
				if c.mX.noRawAddr {
					e.R.H("render_error_route", "object without a Go pointer behind it")
				} else {
					e.R.H("render_error_route", "channel/builtin/partial/... inside")
				}
				if got != want && c.node.errOK && c05_maskPtr(got) == c05_maskPtr("E "+c.mX.ifacePreFix) {
					e.R.Mismatch(c.src, got, want, "route "+route+": this is what error() printed BEFORE its repair (Interface() handed to fmt instead of PrintableValue)")
					if c05_ptrPattern.MatchString(got) && !c05_ptrPattern.MatchString(want) {
						e.R.Spec(c.src, fmt.Sprintf("%s gives %q: error() formats the Go value behind the object (Interface()), fmt prints its address (expected %q)", route, got, want), "")
					}
					return
				}
			}
			if got != want {
				e.R.Mismatch(c.src, got, want, "route "+route)
			}
			if c05_ptrPattern.MatchString(got) && !c05_ptrPattern.MatchString(want) {
				e.R.Spec(c.src, fmt.Sprintf("%s gives %q: the text contains a Go pointer (expected %q)", route, got, want), "")
			}
		}
		if len(c.first.texts) != len(c.routes) {
			e.R.Mismatch(c.src, fmt.Sprintf("%d texts", len(c.first.texts)), fmt.Sprintf("%d texts", len(c.routes)), "render script against the model")
			continue
		}
		check("x.Inspect()", c.first.insp, c.mX.inspect, false)
		check("fmt.Sprintf(\"%v\", object.PrintableValue(x))", c.first.pv, c.mX.printable, false)
		check("builtins.Sprintf(ctx, \"%v\", x)", c.first.bsp, c.mX.errorFmt, false)
		p := c.mX.printable
		check("print(x); printf(\"%v;\\n\", x); fmt.println(x, x); print([x])", c.first.stdout, p+"\n"+p+";\n"+p+" "+p+"\n"+c.mL.inspect+"\n", false)
		for j, route := range c.routes {
			want, errRoute := c.want(route)
			check(route, c.first.texts[j], want, errRoute)
		}
	}
}

func c05_renderDiff(c *c05_renderCase, a, b c05_renderObs) string {
	var parts []string
	if a.err != b.err {
		parts = append(parts, fmt.Sprintf("error %q | %q", a.err, b.err))
	}
	if a.stdout != b.stdout {
		parts = append(parts, fmt.Sprintf("stdout %q | %q", a.stdout, b.stdout))
	}
	if a.insp != b.insp {
		parts = append(parts, fmt.Sprintf("x.Inspect() %q | %q", a.insp, b.insp))
	}
	if a.pv != b.pv {
		parts = append(parts, fmt.Sprintf("PrintableValue(x) %q | %q", a.pv, b.pv))
	}
	if a.bsp != b.bsp {
		parts = append(parts, fmt.Sprintf("builtins.Sprintf(\"%%v\", x) %q | %q", a.bsp, b.bsp))
	}
	for j := range a.texts {
		if j < len(b.texts) && a.texts[j] != b.texts[j] && j < len(c.routes) {
			parts = append(parts, fmt.Sprintf("%s %q | %q", c.routes[j], a.texts[j], b.texts[j]))
		}
	}
	return strings.Join(parts, "; ")
}

// c05RenderOpaque: objects of module-defined types and OS-backed objects for which there is no
// model term — Spec only (repetitions identical, no Go pointer in any text).
func c05RenderOpaque(e *Env, reps int) {
	exprs := []string{
		"regexp.compile(\"a+\")", "exec.command(\"ls\")", "os.stdout", "os.stdin", "rand", "time.now", "http.get", "filepath.join",
		"regexp.compile(\"a+\").find", "strings.split", "os.getenv", "os.args", "base64.encode", "bytes.join", "strconv.atoi",
		"[regexp.compile(\"x\"), os.stdout, {\"re\": regexp.compile(\"y\")}]",
		"iter(byte_slice([1, 2]))", "iter(float_slice([1.5]))",
		"func() { it := iter(byte_slice([7, 8])); it.next(); return it.entry() }()",
		"func() { it := iter({3, \"s\"}); it.next(); return it.entry() }()",
		"func() { c := chan(1); c <- [chan(2)]; return <-c }()",
		"try(func() { [1][5] }, func(e) { return e })",
		"try(func() { chan(1) + 1 }, func(e) { return e })",
		"try(func() { len(chan(1)) }, func(e) { return e })",
		"try(func() { {chan(1)} }, func(e) { return e })",
		"try(func() { chan(1)[0] }, func(e) { return e })",
		"try(func() { chan(1).nope }, func(e) { return e })",
		"try(func() { iter([1]).entry().nope() }, func(e) { return e })",
		"try(func() { json.marshal(chan(1)) }, func(e) { return e })",
		"try(func() { int(chan(1)) }, func(e) { return e })",
		"try(func() { sorted([chan(1), chan(2)]) }, func(e) { return e })",
		"try(func() { assert(false, sprintf(\"%v\", chan(1))) }, func(e) { return e })",
		"type(chan(1))", "[type(iter([1])), type(hp0), type(hc0), type(he0)]",
	}
	for _, expr := range exprs {
		src := c05_renderMarker + "x := " + expr + "\nprint(x)\nprintf(\"%v;%s\\n\", x, x)\n[x, sprintf(\"%v\", x), '{x}', string([x]), string(errorf(\"e %v\", x))]\n"
		e.R.Case(src, true)
		e.R.H("render_opaque", expr[:min(24, len(expr))])
		var first EvalOut
		for rep := 0; rep < reps; rep++ {
			out := EvalSrc(src, c05_renderTimeout, c05_renderOpts()...)
			if ErrClass(out.Err) == "context" {
				break
			}
			if rep == 0 {
				first = out
				for _, t := range []string{out.Value, out.Err, out.Stdout} {
					if c05_ptrPattern.MatchString(t) {
						e.R.Spec(src, fmt.Sprintf("the rendered text contains a Go pointer: value=%q err=%q stdout=%q", out.Value, out.Err, out.Stdout), "")
						break
					}
				}
				continue
			}
			if out.Value != first.Value || out.Err != first.Err || out.Stdout != first.Stdout {
				e.R.Spec(src, fmt.Sprintf("the rendered text differs between evaluations in fresh VMs: value=%q err=%q stdout=%q | value=%q err=%q stdout=%q", first.Value, first.Err, first.Stdout, out.Value, out.Err, out.Stdout), "")
				break
			}
		}
	}
}

var _ = context.Background
