package main

// C04 — round 6: two scenario classes (model: lean/RisorModel/C04/Lit.lean, theorems LitProps.lean).
//
// A. LIST LITERALS OF EVERY LENGTH: 0 … 700 items, in particular around 256 / 512 (data tables,
//    generated code), constants and computed items.
// B. MEMBERSHIP TESTS `l in r` / `l not in r` with every kind of left operand (identifier,
//    constant, arithmetic on the loop variable, index, call) and right operand (literal list of
//    1…12 constants of mixed types, literal list with computed items, a variable holding a list),
//    whose outcome changes from one evaluation to the next (hit on the first / a middle / the
//    last item, no hit).
//
// The expression stands alone or under pending operands (list item, call argument), in a loop of
// the main code or of a function.  The window of instructions the REAL compiler emits for it is
// cut out differentially (the twin program has `nil` in its place), compared with the model's
// compileList / compileIn / compileNotIn, its net effect is evaluated by the model (`runStraight`:
// the Spec demands +1), the real VM's height is read before and after every execution of the
// window, every frame activation's observed run is judged (`neutral`, checker: obsJudge), the
// result is compared with the harness's own evaluation and the loop is run 2500 times.

import (
	"fmt"
	"strconv"
	"strings"
	"time"

	"github.com/risor-io/risor/op"
	"github.com/risor-io/risor/vm"
)

type litE struct {
	src  string
	spec []string
	val  func(i int64) any
	kind string // for the histograms
	nt   bool   // non-trivial: a literal longer than 256 items / a computed subject tested against a literal of constants
}

func litEq(a, b any) bool { return a == b }

// litAtomConst is a constant of a mixed-type item list
func litConst(r *RNG, intsOnly bool) litE {
	k := r.Intn(10)
	if intsOnly || k < 6 {
		v := int64(r.Intn(6))
		return litE{src: strconv.FormatInt(v, 10), spec: []string{"c"}, val: func(int64) any { return v }}
	}
	switch k {
	case 6:
		s := []string{"ab", "ef", "x"}[r.Intn(3)]
		return litE{src: strconv.Quote(s), spec: []string{"c"}, val: func(int64) any { return s }}
	case 7:
		return litE{src: "true", spec: []string{"T"}, val: func(int64) any { return true }}
	case 8:
		return litE{src: "false", spec: []string{"F"}, val: func(int64) any { return false }}
	default:
		return litE{src: "nil", spec: []string{"Z"}, val: func(int64) any { return nil }}
	}
}

// litInt is an int-valued expression; `iv` is the spec token of the loop variable (g / l)
func litInt(r *RNG, iv string, computed bool) litE {
	if !computed {
		switch r.Intn(3) {
		case 0:
			return litE{src: "gx", spec: []string{"g"}, val: func(int64) any { return int64(2) }, kind: "ident"}
		case 1:
			return litE{src: "i", spec: []string{iv}, val: func(i int64) any { return i }, kind: "ident"}
		default:
			c := litConst(r, true)
			c.kind = "const"
			return c
		}
	}
	switch r.Intn(5) {
	case 0:
		m := int64(2 + r.Intn(5))
		return litE{src: fmt.Sprintf("(i %% %d)", m), spec: []string{iv, "c", "b"}, val: func(i int64) any { return i % m }, kind: "arith"}
	case 1:
		return litE{src: "(gx + i)", spec: []string{"g", iv, "b"}, val: func(i int64) any { return 2 + i }, kind: "arith"}
	case 2:
		return litE{src: "gl[i % 2]", spec: []string{"g", iv, "c", "b", "i"}, val: func(i int64) any { return []int64{4, 1}[i%2] }, kind: "index"}
	case 3:
		return litE{src: "len(gw)", spec: []string{"g", "g", "k"}, val: func(int64) any { return int64(3) }, kind: "call"}
	default:
		return litE{src: "-(i - 3)", spec: []string{iv, "c", "b", "n"}, val: func(i int64) any { return -(i - 3) }, kind: "neg"}
	}
}

var litLens = []int{0, 1, 2, 3, 5, 8, 9, 17, 64, 255, 256, 257, 258, 300, 511, 512, 513, 600, 700}

// litList is a list literal
func litList(r *RNG, iv string, n int, constOnly bool, intsOnly bool) litE {
	items := make([]litE, n)
	var srcs, spec []string
	for j := range items {
		if !constOnly && r.Chance(12) {
			items[j] = litInt(r, iv, r.Bool())
		} else {
			items[j] = litConst(r, intsOnly)
		}
		srcs = append(srcs, items[j].src)
		spec = append(spec, items[j].spec...)
	}
	spec = append(spec, "L"+strconv.Itoa(n))
	return litE{src: "[" + strings.Join(srcs, ", ") + "]", spec: spec, kind: "list", nt: n > 256,
		val: func(i int64) any {
			out := make([]any, n)
			for j := range items {
				out[j] = items[j].val(i)
			}
			return out
		}}
}

// litGen returns the expression under test, the code that adds it to `s` and what it adds
func litGen(r *RNG, iv string) (x litE, add string, adds func(i int64) int64) {
	if r.Chance(40) {
		n := litLens[r.Intn(len(litLens))]
		if r.Chance(25) {
			n = r.Intn(700)
		}
		x = litList(r, iv, n, r.Chance(70), r.Bool())
		x.kind = "list-literal"
		return x, "s += len(v)", func(int64) int64 { return int64(n) }
	}
	computed := r.Chance(65)
	l := litInt(r, iv, computed)
	var c litE
	rk := r.Intn(10)
	switch {
	case rk < 6:
		n := 1 + r.Intn(8)
		if r.Chance(15) {
			n = 9 + r.Intn(4)
		}
		c = litList(r, iv, n, true, r.Chance(60))
		c.kind = "literal-of-constants"
	case rk < 8:
		c = litList(r, iv, 1+r.Intn(6), false, true)
		c.kind = "literal"
	case rk < 9:
		c = litE{src: "gl", spec: []string{"g"}, val: func(int64) any { return []any{int64(4), int64(1)} }, kind: "variable"}
	default:
		c = litList(r, iv, 257+r.Intn(200), true, true)
		c.kind = "long-literal"
	}
	not := r.Chance(35)
	x = litE{kind: "in " + l.kind + " / " + c.kind, nt: c.nt || (computed && c.kind == "literal-of-constants")}
	x.src = l.src + " in " + c.src
	x.spec = append(append(append([]string{}, l.spec...), c.spec...), "I")
	if not {
		x.src = l.src + " not in " + c.src
		x.spec[len(x.spec)-1] = "N"
		x.kind = "not " + x.kind
	}
	x.val = func(i int64) any {
		lv := l.val(i)
		hit := false
		for _, it := range c.val(i).([]any) {
			if litEq(lv, it) {
				hit = true
				break
			}
		}
		return hit != not
	}
	return x, "if v { s += 1 }", func(i int64) int64 {
		if x.val(i).(bool) {
			return 1
		}
		return 0
	}
}

const litDecls = "gx := 2\ngw := \"abc\"\ngl := [4, 1]\nfunc pick(a, b) { return b }\n"

var litCtx = []string{"%s", "[gx, %s][1]", "pick(gx, %s)", "pick(gl, [%s, gx])[0]"}

func litProgram(place int, ctx string, t string, add string, k int) string {
	expr := strings.ReplaceAll(ctx, "%s", t)
	switch place {
	case 0:
		return litDecls + fmt.Sprintf("s := 0\nv := nil\nfor i := 0; i < %d; i++ {\n  v = %s\n  %s\n}\ns", k, expr, add)
	case 1:
		return litDecls + fmt.Sprintf("func f(p, k) {\n  s := 0\n  v := nil\n  for i := 0; i < k; i++ {\n    v = %s\n    %s\n  }\n  return s\n}\nf(7, %d)", expr, add, k)
	case 2:
		return litDecls + fmt.Sprintf("s := 0\nv := nil\nfor i := range %d {\n  v = %s\n  %s\n}\ns", k, expr, add)
	default:
		return litDecls + fmt.Sprintf("s := 0\nv := nil\ni := -1\nfor i < %d {\n  i++\n  v = %s\n  %s\n}\ns", k-1, expr, add)
	}
}

// litHeights runs src and reads the real height before and after every execution of a window.
func litHeights(src string, ws []tmplWin, timeout time.Duration) (out EvalOut, deviation string, execs int) {
	type key struct {
		id string
		ip int
	}
	starts, ends := map[key]int{}, map[key]int{}
	for i, w := range ws {
		starts[key{w.id, w.start}] = i
		ends[key{w.id, w.end}] = i
	}
	type pend struct{ fp, sp, w int }
	var open []pend
	vm.VerifTrace = func(_ *vm.VirtualMachine, id string, ip int, opc op.Code, sp int, fp int) {
		if deviation != "" {
			return
		}
		if wi, ok := ends[key{id, ip}]; ok {
			if n := len(open); n > 0 && open[n-1].fp == fp && open[n-1].w == wi {
				p := open[n-1]
				open = open[:n-1]
				execs++
				if sp != p.sp+1 {
					deviation = fmt.Sprintf("the expression whose code starts at slot %d of code %s began with sp=%d and is over at slot %d with sp=%d (execution %d): it pushed %d value(s) instead of one",
						ws[wi].start, id, p.sp, ip, sp, execs, sp-p.sp)
					return
				}
			}
		}
		if wi, ok := starts[key{id, ip}]; ok {
			open = append(open, pend{fp, sp, wi})
		}
	}
	out = EvalSrc(src, timeout)
	vm.VerifTrace = nil
	return
}

func c04LitOne(e *Env, r *RNG) {
	place := r.Intn(4)
	iv := "g"
	if place == 1 {
		iv = "l"
	}
	x, add, adds := litGen(r, iv)
	ci := 0
	if r.Chance(45) {
		ci = 1 + r.Intn(len(litCtx)-1)
	}
	ctx := litCtx[ci]
	small, bigK := 4+r.Intn(5), 2500
	src := litProgram(place, ctx, x.src, add, small)
	sum := func(k int) string {
		var s int64
		for i := int64(0); i < int64(k); i++ {
			s += adds(i)
		}
		return strconv.FormatInt(s, 10)
	}
	e.R.Case("lit "+src, x.nt)
	e.R.H("lit_place", strconv.Itoa(place))
	e.R.H("lit_ctx", strconv.Itoa(ci))
	e.R.H("lit_kind", x.kind)
	if x.kind == "list-literal" {
		n := 0
		if t := x.spec[len(x.spec)-1]; strings.HasPrefix(t, "L") {
			n, _ = strconv.Atoi(t[1:])
		}
		e.R.H("lit_list_items", fmt.Sprintf("%04d+", n/128*128))
	}
	code, err := CompileSrc(src)
	if err != nil {
		e.R.Mismatch(src, "does not compile: "+err.Error(), "compiles", "C04 literal / membership program")
		return
	}
	twin, err := CompileSrc(litProgram(place, ctx, "nil", add, small))
	if err != nil {
		e.R.Mismatch(src, "the twin does not compile: "+err.Error(), "compiles", "C04 literal / membership program")
		return
	}
	var spec []string
	ws, werr := tmplWindows(code, twin, 1)
	if werr != "" {
		e.R.Mismatch(src, werr, "the expression compiles to one window of instructions", "C04 literal / membership window")
	}
	for _, w := range ws {
		rep := e.O.Ask("C04", "lit", strings.Join(x.spec, ","), w.text)
		f := strings.Split(rep, "\t")
		if f[0] != "ok" || len(f) < 5 {
			e.R.Mismatch(src, w.text, rep, "C04 lit request")
			continue
		}
		e.R.H("lit_window", strings.Fields(f[2])[0])
		wt := w.text
		if len(wt) > 400 {
			wt = wt[:200] + " … " + wt[len(wt)-200:]
		}
		if f[2] != "same" {
			e.R.Mismatch(src, wt, fmt.Sprintf("the model's %s instructions (%s)", f[1], f[2]),
				"the instructions the real compiler emits for the expression vs the model's compileList / compileIn / compileNotIn (indices erased)")
		}
		if f[3] != "1" {
			spec = append(spec, fmt.Sprintf("the real instructions of the expression (%s) take the height from h to h+%s or are not one straight line: the expression must push exactly one value on every path (compileList_pushes_one, compileIn_pushes_one)", wt, f[3]))
		}
	}
	out, dev, execs := litHeights(src, ws, 10*time.Second)
	if dev != "" {
		spec = append(spec, "on the real VM: "+dev)
	}
	if execs > 0 {
		e.R.H("lit_real_heights", "read")
	} else {
		e.R.H("lit_real_heights", "not-reached")
	}
	if want := sum(small); out.Err != "" || out.Value != want {
		e.R.Mismatch(src, "value "+out.Value+" error "+out.Err, want, "result of the literal / membership program vs the harness's own evaluation")
	}
	_, acts := obsRun(src, 10*time.Second)
	ospec, dep := obsJudge(e, code, acts)
	spec = append(spec, ospec...)
	for _, d := range dep {
		e.R.Mismatch(src, d, "a run of the model machine (traceOk) that follows the certificate", "observed run of one frame activation on the real VM vs the model machine of check_sound")
	}
	bsrc := litProgram(place, ctx, x.src, add, bigK)
	big := EvalSrc(bsrc, 60*time.Second)
	e.R.H("lit_scaled", ErrClass(big.Err))
	if ErrClass(big.Err) == "panic" && ErrClass(out.Err) != "panic" {
		spec = append(spec, fmt.Sprintf("with the loop bound %d instead of %d the run fails: %s", bigK, small, big.Err))
	} else if want := sum(bigK); big.Err != "" || big.Value != want {
		e.R.Mismatch(bsrc, "value "+big.Value+" error "+big.Err, want, "the same program with a larger loop bound vs the harness's own evaluation")
	}
	if len(spec) > 0 {
		e.R.Spec(src, strings.Join(spec, " | "), "")
	}
}

func c04Lit(e *Env, rng *RNG) {
	n := 320
	if !e.Quick {
		n = 5000
	}
	for i := 0; i < n; i++ {
		c04LitOne(e, rng.Fork())
	}
}
