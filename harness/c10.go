package main

// C10 — channels and spawned threads: the real code (object.Chan, object.Spawn,
// object.Thread, the VM's go/spawn paths) against the Lean model (RisorModel/C10) and
// against the Spec.
//
//   A. chanops   operation sequences on one real object.Chan driven from Go in a fixed
//                order (every interleaving of Send/Receive/Close/Next/Entry is a legal
//                schedule of script goroutines, so a sequence is a schedule); compared
//                step by step with the Impl model (Mismatch) and with the Spec machine
//                (Spec violation; attributed to the shared-lastReceived finding only when
//                >= 2 threads iterate and Go agrees with Impl).
//   B. topology  real script goroutines: 1..4 senders x 1..4 receivers x buffer 0..8 x
//                receive style x spawn form, varied GOMAXPROCS, injected yields; per-thread
//                histories are collected by host builtins and judged by the oracle's
//                validHistory.
//   C. spawn     scenarios of spawn/reassign/run/wait over all spawn forms (go f(..),
//                go o.m(..), go callee()(..), spawn(), fn.spawn(), host object.Spawn), with
//                argument expressions of every shape in every position (variables, literals,
//                nested calls with and without side effects, nested to depth 3) and calls
//                that end in every way (return, raised error, Go panic in a builtin, Go panic
//                by frame overflow), ordered by gates, compared with the thread machine of
//                the model; Spec evaluated on the Go results (arguments are the spawn-site
//                values, nested calls ran at the spawn site exactly once, wait returns the
//                call's outcome — observed at the Go level (Thread.Wait) and by the script).
//   D. nested    thread trees of depth 2–3 (c10nest.go): spawned functions that spawn and return.
//   E. tree      schedules of the model's thread tree step by step on real script threads (c10tree.go).
//   F. close races  produce-then-close on buffered channels (c10race.go): other threads' operations
//                run at the context call-outs of a Receive/Next/Send (deterministic linearisability
//                check), and hundreds of thousands of short rounds on real goroutines and script threads.
//   G. spawned builtins  builtins and bound methods with callbacks (map/each/filter/sorted/call/try),
//                all three spawn forms, the spawner running script code meanwhile; in a child process (c10vms.go).
//   H. loops     range loops that are LEFT EARLY (break / return / raised error) and what later receivers find:
//                loop schedules on a real object.Chan driven through Chan.Iter(), segmented consumers in scripts (c10loops.go).
//   I. modules   what a thread's VM knows of the modules: threads come and go, the spawner imports in between,
//                later threads call into / import what their spawner knew; step by step on one real VM (c10mods.go).
//   L. capacity  buffer capacity 0..4 step by step on a real object.Chan made by NewChan / chan(n) / make(chan, n):
//                non-blocking probes (len/cap of Chan.Value(), cancelled-context calls), queue length and
//                would-block flags compared with the model after every step (c10cap.go; PropsCap.lean).

import (
	"context"
	"fmt"
	"os"
	"runtime"
	"sort"
	"strconv"
	"strings"
	"sync"
	"sync/atomic"
	"time"

	"github.com/risor-io/risor"
	"github.com/risor-io/risor/object"
)

func init() { commands["C10"] = c10_runC10 }

const c10Finding = "C10-range-shared-lastreceived"
const c10Wait = 20 * time.Second // only bounds a wait; never a verdict by itself

func c10_runC10(e *Env) {
	e.R.Rule = "A: random schedules (6..40 steps, 1..4 threads, cap 0..8) of send/receive/close/Next/Entry/handoff on one real object.Chan, " +
		"non-trivial when >= 3 values pass through the channel and >= 2 threads act; distinct by (cap, op list). " +
		"B: one run of a generated script = (senders, receivers, buffer, per-sender counts, receive style, spawn form, send form, GOMAXPROCS, yield pattern), " +
		"non-trivial when >= 2 goroutines communicate >= 100 values; distinct by that tuple. " +
		"C: spawn scenarios (op list over spawn forms go f()/go o.m()/go callee()()/spawn()/fn.spawn()/host Spawn, argument expressions = variable | literal | " +
		"nested call with side effect tick_i() | nested pure call dbl(A) to depth 3, call bodies = return | raise | Go panic in a builtin | Go panic by frame overflow, " +
		"reassignments, runs, waits), non-trivial when a variable passed as argument is reassigned (or its slice overwritten) between spawn and run, " +
		"or an argument is a nested call, or the call panics; distinct by (layout, op list). " +
		"D: nested spawn topologies = thread trees of depth 2..3 (1..4 coordinators that start producers / pipeline stages / consumers / further coordinators with spawn() | fn.spawn() | go, " +
		"return at once or wait for some of the coordinators they started; buffers 0..8 per pipeline channel; explicit/method/range/for-in receives; producers gated until every coordinator has returned, or free; " +
		"the main program collects or consumes), each run for real, sequentialised into one schedule of the model's thread tree (C10 net) and judged by validHistory; " +
		"non-trivial when some thread is at depth >= 2 and >= 50 values pass; distinct by (tree, forms, buffers, counts, styles, GOMAXPROCS, yields). " +
		"E: random schedules (8..40 steps, up to 9 threads, 1..2 channels cap 0..3) of the model's thread tree — spawn by any live thread (spawn()/fn.spawn()/go), return, wait, send/receive/close/handoff — " +
		"executed step by step on real script threads (every thread runs a command loop), each thread's context read by the host after every step; " +
		"non-trivial when >= 2 channel operations are by threads one of whose ancestors has returned; distinct by (caps, forms, op list). " +
		"F1: call-out schedules on one real object.Chan (cap 1..8): prefix of sends/receives, then a Receive | Next | Send called with a context whose k-th call-out (Done/Err/Value/Deadline, k 0..3) runs a burst of other threads' operations (0..3 sends and a close; a receive or a close for a Send), then a drain; " +
		"judged against both placements of the call as one atomic step (C10 pclose); non-trivial when the call is a receive that is not enabled before the burst, the burst closes, and it ran inside the call; distinct by (cap, prefix, op, burst, k, drain). " +
		"F2/F3: produce-then-close rounds = (buffer 1..8, 1..n values then close at once, consumers recv | iter | recv+recv | iter+recv) run thousands of times each on real goroutines at the object.Chan API (GOMAXPROCS 2/4/16, cancellable context) and by script worker threads " +
		"(producer started with go | spawn() | fn.spawn(), consumer <-c | c.receive() | range | for-in | range plus a second consumer thread); ONE case per (level, shape, GOMAXPROCS) however many rounds it was run (round counts are in the notes); every such case is non-trivial. " +
		"G: spawned-builtin scenarios = 1..3 callables out of list.map (1 and 2 parameters) | list.each | list.filter | sorted(items, cmp) | call(f, n) | try(f, handler), each started with spawn(b,…) | b.spawn(…) | go b(…), their callbacks feeding one channel (cap 0..4) that the spawner " +
		"(main program or a spawned coordinator) consumes with <-out | out.receive() while keeping sums of its own, optionally a second consumer thread, then wait(); run in a child process; non-trivial when the spawner receives >= 5 values; distinct by (cap, GOMAXPROCS, spawner, receive form, consumer quota, salt, callables). " +
		"H1: loop schedules (8..44 steps, 2..4 threads, cap 0..8) on one real object.Chan = the steps of A plus en:t (a range loop starts: Chan.Iter(), the returned object is what Next/Entry are called on) and lv:t (the loop ends by break/return/error/end: the iterator is dropped), one iterating thread (12%: several), the queue kept full in 60% of the schedules so that loops are left while values are ready, every loop left at the end and the queue drained value by value; " +
		"non-trivial when a loop is left while a value is queued and a value is handed out afterwards; distinct by (cap, op list). " +
		"H2: segmented-consumer runs = (1..3 producers started with go | spawn() | fn.spawn(), buffer 0..8, 60..3000 values, ONE consumer at a time working in segments — range+break | for-in+break | range+return | range+raised error | range with index+break | q explicit receives | q c.receive() calls, quotas 1..40 — cycling until the channel ends, " +
		"0..2 explicit consumers beside it or a hand-over chain of 1..3 one-segment consumers each waited for before the next starts, GOMAXPROCS 1/2/4/16, yields), logs judged by validHistory; non-trivial when >= 50 values pass and >= 1 range loop was left early; distinct by that tuple. " +
		"I: schedules (8..32 steps, up to 8 threads, 4 modules) of the model's thread/VM/module machine — spawn by any live thread (spawn()/fn.spawn()/go), return, import by the main program (top-level statement or function-level, new or known module), import inside a thread of a module its VM knows, call of a module function by any thread " +
		"(into a module the thread's VM does not know: 12% of such draws, threads with a handle only), wait — executed step by step on one real VM with an FS importer, the main program generated as straight-line code, every other thread in a command loop; module bodies report each run; " +
		"non-trivial when a spawned thread calls into a module that the main program imported after some earlier thread had finished; distinct by (spawn forms, import forms, op list). " +
		"J: call-tree scenarios = 1..2 generated function bodies (statement trees to nesting level 3: effects, defer of a builtin effect | of a script function | of a script function that raises, plain nested calls, calls under try(), chains of d helper frames with a body at the bottom — d 1..6, around 16/32/64/128/256/512 +-4, or 7..306 —, a final return or raised error; nothing after a call that raises), " +
		"each body called DIRECTLY by the main program and started 1..2 times with spawn() | fn.spawn() | go | spawn() by a spawned coordinator that waits, the spawn statement itself 0..90 calls deep, steps shuffled, GOMAXPROCS 1/2/4/16; the per-thread statement lists merged into one random schedule of the model's thread net (C10 callnet); " +
		"every effect reported with the thread's tag, wait() read under try(); non-trivial when a spawned body executes a defer statement after a chain of >= 16 frames below it was left; distinct by (bodies, executions, GOMAXPROCS). " +
		"K: wide-call scenarios = one spawner (1..5 variables, global or function-local) with 3..10 statements: assignments and call statements of functions with req required parameters and nd parameters with defaults (0..48 parameters, drawn small and around 8/9, 16/17, 32/33), " +
		"given n arguments (req <= n <= req+nd; a quarter of the go statements: one too few / one too many, the arity error being fatal in every other form), argument expressions as in C, each call statement a direct call or go f() | go o.m() | go pick()() | spawn() | f.spawn() | host object.Spawn, every spawned call held at a gate until the spawner's last statement; " +
		"each call reports all its parameter values; compared with C10 wide (wideRun) and with arguments-at-the-spawn-site-then-defaults; non-trivial when a spawned call is given more than 8 arguments; distinct by (layout, GOMAXPROCS, variables, forms, statements). " +
		"L: capacity histories (8..40 steps, 4 threads) on one real object.Chan of capacity 0..4 made by object.NewChan(n) | builtin chan(n) | builtin make(chan, n): sends (per-history rate 35..85%), receives, Next+Entry pairs, closes (also repeated, also followed by sends), hand-offs for capacity 0, " +
		"plus 15 directed fill-to-the-brim/close/drain histories; whether a step can proceed is read off len/cap of Chan.Value(), a step that cannot is made 3x with an already cancelled context and must return context.Canceled each time; after every step queue length, send-would-block and receive-would-block are compared with C10 capseq, " +
		"at the end the queue is drained value by value; non-trivial when >= 1 send was refused on a full open channel and >= 2 values were received; distinct by (cap, form, op list)"
	prev := runtime.GOMAXPROCS(0)
	defer runtime.GOMAXPROCS(prev)
	parts := []struct {
		name string
		run  func(*Env)
	}{{"chanops", c10ChanOps}, {"closeraces", c10CloseRaces}, {"builtins", c10SpawnBuiltins}, {"spawn", c10Spawn}, {"tree", c10Tree},
		{"nested", c10Nested}, {"topologies", c10Topologies}, {"loops", c10Loops}, {"mods", c10Mods}, {"calls", c10Calls}, {"wide", c10Wide}, {"capacity", c10Capacity}} // (new parts last: the earlier parts keep their random streams)
	only := os.Getenv("VERIF_C10_ONLY") // development aid: run some parts only (comma separated)
	for _, p := range parts {
		if only != "" && !strings.Contains(","+only+",", ","+p.name+",") {
			continue
		}
		t0 := time.Now()
		p.run(e)
		e.R.Note("part %s: %.1fs", p.name, time.Since(t0).Seconds())
	}
}

// ---------------------------------------------------------------------------------------
// A. operation sequences on a real channel

type c10Vals struct {
	byPtr map[object.Object]string
}

// payload for message (i,k): fresh objects, with a zoo of zero-like values for i == 3
func (v *c10Vals) mk(i, k int) object.Object {
	var o object.Object
	switch {
	case i == 3:
		switch k % 6 {
		case 0:
			o = object.NewInt(0) // cached singleton
		case 1:
			o = object.NewString("")
		case 2:
			o = object.NewFloat(0)
		case 3:
			o = object.False // singleton
		case 4:
			o = object.Nil // singleton; a received nil reads like "closed and drained"
		default:
			o = object.NewList(nil)
		}
	case i == 2:
		o = object.NewString(strconv.Itoa(k))
	default:
		o = object.NewInt(int64(1000000 + i*100000 + k)) // outside NewInt's cache: a fresh pointer
	}
	v.byPtr[o] = fmt.Sprintf("%d:%d", i, k)
	return o
}

func (v *c10Vals) name(o object.Object) string {
	if o == nil {
		return "gonil"
	}
	if s, ok := v.byPtr[o]; ok {
		return s
	}
	return "alien(" + o.Inspect() + ")"
}

// withWatch runs f; reports false when it did not return in time (the goroutine is leaked
// then, the channel is abandoned).
func c10_withWatch(f func()) bool {
	done := make(chan struct{})
	go func() { defer close(done); f() }()
	select {
	case <-done:
		return true
	case <-time.After(c10Wait):
		// the deadline has passed.  When the whole process (or the machine) was stalled, or the
		// clock jumped, the timer and f are both due at once: look again before calling it a hang
		select {
		case <-done:
			return true
		case <-time.After(3 * time.Second):
			return false
		}
	}
}

func c10GenOps(rng *RNG, cap int) []string {
	n := 6 + rng.Intn(35)
	nthreads := 1 + rng.Intn(4)
	pending := map[int]bool{}
	seq := map[int]int{}
	buffered := 0
	closed := false
	var ops []string
	iterBias := rng.Intn(100) // how much this schedule iterates
	twoIter := rng.Chance(35) // allow several iterating threads
	iterThread := rng.Intn(nthreads)
	for len(ops) < n {
		t := rng.Intn(nthreads)
		if pending[t] {
			if rng.Chance(70) {
				ops = append(ops, fmt.Sprintf("e:%d", t))
				delete(pending, t)
			} else if rng.Chance(10) { // ill-formed on purpose: the model must say "not enabled"
				ops = append(ops, fmt.Sprintf("r:%d", t))
			}
			continue
		}
		kind := 0
		if rng.Chance(50) {
			kind = 1 + rng.Intn(3)
		}
		mkMsg := func() string {
			k := seq[-1] // one counter for the whole schedule: labels are unique
			seq[-1]++
			i := t
			if kind != 0 {
				i = kind
			}
			if i == 3 { // zero-like zoo; singletons (Int 0, false, nil) always carry the same label
				z := rng.Intn(6)
				if z == 0 || z == 3 || z == 4 {
					k = z
				} else {
					k = 6*k + z
				}
			}
			return fmt.Sprintf("%d:%d", i, k)
		}
		r := rng.Intn(100)
		wantIter := r < iterBias && (twoIter || t == iterThread)
		switch {
		case rng.Chance(4):
			ops = append(ops, fmt.Sprintf("c:%d", t))
			closed = true
		case rng.Chance(3):
			ops = append(ops, fmt.Sprintf("p:%d", t))
		case cap == 0 && !closed && rng.Chance(75):
			rcv := rng.Intn(nthreads + 1)
			if rcv == t || pending[rcv] {
				continue
			}
			it := 0
			if wantIter || (rng.Chance(iterBias) && (twoIter || rcv == iterThread)) {
				it = 1
				pending[rcv] = true
			}
			ops = append(ops, fmt.Sprintf("h:%d:%d:%s:%d", t, rcv, mkMsg(), it))
		case rng.Chance(50):
			if buffered < cap || closed || rng.Chance(15) {
				ops = append(ops, fmt.Sprintf("s:%d:%s", t, mkMsg()))
				if buffered < cap && !closed {
					buffered++
				}
			}
		default:
			if buffered > 0 || closed || rng.Chance(15) {
				if wantIter {
					ops = append(ops, fmt.Sprintf("n:%d", t))
					if buffered > 0 {
						pending[t] = true
					}
				} else {
					ops = append(ops, fmt.Sprintf("r:%d", t))
				}
				if buffered > 0 {
					buffered--
				}
			}
		}
	}
	// let pending iterators finish
	var ps []int
	for t := range pending {
		ps = append(ps, t)
	}
	sort.Ints(ps)
	for _, t := range ps {
		ops = append(ops, fmt.Sprintf("e:%d", t))
	}
	return ops
}

// c10ExecOps executes a schedule on a real channel following the model's enabledness.
func c10ExecOps(cap int, ops []string, impl []string) (obs []string, final string, hung string) {
	ch := object.NewChan(cap)
	vals := &c10Vals{byPtr: map[object.Object]string{}}
	live := context.Background()
	dead, cancel := context.WithCancel(context.Background())
	cancel()
	pending := map[string]bool{}
	sendObs := func(err error) string {
		switch {
		case err == nil:
			return "so"
		case err == context.Canceled:
			return "B"
		case strings.Contains(err.Error(), "send on closed channel"):
			return "se"
		}
		return "senderr(" + err.Error() + ")"
	}
	for idx, op := range ops {
		f := strings.Split(op, ":")
		blocked := idx < len(impl) && impl[idx] == "B"
		atoi := func(s string) int { n, _ := strconv.Atoi(s); return n }
		o := "?"
		ok := true
		switch f[0] {
		case "s":
			if pending[f[1]] {
				o = "B"
				break
			}
			v := vals.mk(atoi(f[2]), atoi(f[3]))
			ctx := live
			if blocked {
				ctx = dead
			}
			ok = c10_withWatch(func() { o = sendObs(ch.Send(ctx, v)) })
		case "r":
			if pending[f[1]] {
				o = "B"
				break
			}
			ctx := live
			if blocked {
				ctx = dead
			}
			ok = c10_withWatch(func() {
				v, err := ch.Receive(ctx)
				switch {
				case err == context.Canceled:
					o = "B"
				case err != nil:
					o = "recverr(" + err.Error() + ")"
				case v == object.Nil:
					o = "nil"
				default:
					o = "v:" + vals.name(v)
				}
			})
		case "c":
			if pending[f[1]] {
				o = "B"
				break
			}
			if err := ch.Close(); err == nil {
				o = "co"
			} else if strings.Contains(err.Error(), "close of closed channel") {
				o = "ce"
			} else {
				o = "closeerr(" + err.Error() + ")"
			}
		case "n":
			if pending[f[1]] || blocked {
				// Next cannot report "would block" (it returns (nil,false) on a cancelled
				// context exactly as at the end); emptiness is validated by the receives
				o = "B"
				break
			}
			ok = c10_withWatch(func() {
				v, more := ch.Next(live)
				if more {
					o = "nv:" + vals.name(v)
					pending[f[1]] = true
				} else {
					o = "end"
				}
			})
		case "e", "p":
			if (f[0] == "e") != pending[f[1]] {
				o = "B"
				break
			}
			ent, has := ch.Entry()
			if !has {
				o = "entnone"
			} else {
				key := "?"
				if k, isInt := ent.Key().(*object.Int); isInt {
					key = strconv.FormatInt(k.Value(), 10)
				}
				o = "ent:" + key + ":" + vals.name(ent.Value())
				if ent.Primary() != ent.Value() {
					o += "(primary differs)"
				}
			}
			delete(pending, f[1])
		case "h":
			if blocked || pending[f[1]] || pending[f[2]] {
				o = "B"
				break
			}
			v := vals.mk(atoi(f[3]), atoi(f[4]))
			var sres string
			var wg sync.WaitGroup
			wg.Add(1)
			go func() { defer wg.Done(); sres = sendObs(ch.Send(live, v)) }()
			ok = c10_withWatch(func() {
				if f[5] == "1" {
					got, more := ch.Next(live)
					if more {
						o = "nv:" + vals.name(got)
						pending[f[2]] = true
					} else {
						o = "end"
					}
				} else {
					got, err := ch.Receive(live)
					if err != nil {
						o = "recverr(" + err.Error() + ")"
					} else if got == object.Nil {
						o = "nil"
					} else {
						o = "v:" + vals.name(got)
					}
				}
				wg.Wait()
			})
			if ok && sres != "so" {
				o += "(sender:" + sres + ")"
			}
		}
		if !ok {
			return obs, "", fmt.Sprintf("step %d (%s) did not return within %v", idx, op, c10Wait)
		}
		obs = append(obs, o)
	}
	// final state: queue length, closedness (a closed drained channel yields nil), rxCount
	n := len(ch.Value())
	for i := 0; i < n; i++ {
		<-ch.Value()
	}
	closed := false
	// (on a closed channel the cancelled context and the channel are both ready: retry)
	for i := 0; i < 40 && !closed; i++ {
		v, err := ch.Receive(dead)
		closed = err == nil && v == object.Nil
	}
	rx := int64(0)
	if ent, has := ch.Entry(); has {
		if k, isInt := ent.Key().(*object.Int); isInt {
			rx = k.Value() + 1
		}
	}
	return obs, fmt.Sprintf("%d:%v:%d", n, closed, rx), ""
}

// values only (keys of iterator entries are bookkeeping, not part of the property)
func c10StripKey(o string) string {
	if strings.HasPrefix(o, "ent:") {
		f := strings.SplitN(o, ":", 3)
		if len(f) == 3 {
			return "ent:" + f[2]
		}
	}
	return o
}

func c10ChanOps(e *Env) {
	rng := e.Rng.Fork()
	n := 20000
	if !e.Quick {
		n = 300000
	}
	type cs struct {
		cap int
		ops []string
	}
	var cases []cs
	// the model's own counterexample first (DESIGN section 8 / Props.C10_counterexample_two_iterators)
	cases = append(cases, cs{2, strings.Split("s:0:0:0,s:0:0:1,n:1,n:2,e:1,e:2", ",")})
	cases = append(cases, cs{0, strings.Split("h:0:1:0:0:1,h:0:2:0:1:1,e:1,e:2,c:0,n:1,n:2,r:1", ",")})
	for i := 0; i < n; i++ {
		cap := rng.Intn(9)
		if rng.Chance(25) {
			cap = 0
		}
		cases = append(cases, cs{cap, c10GenOps(rng, cap)})
	}
	reqs := make([]string, len(cases))
	for i, c := range cases {
		reqs[i] = fmt.Sprintf("C10\tchanops\t%d\t%s", c.cap, strings.Join(c.ops, ","))
	}
	reps := e.O.AskBatch(reqs)
	nHung := 0
	for i, c := range cases {
		key := fmt.Sprintf("chanops cap=%d ops=%s", c.cap, strings.Join(c.ops, ","))
		f := strings.Split(reps[i], "\t")
		if len(f) != 4 {
			e.R.Mismatch(key, "-", reps[i], "oracle reply malformed")
			continue
		}
		f[0] = strings.ReplaceAll(","+f[0]+",", ",v:3:4,", ",nil,")
		f[0] = strings.Trim(strings.ReplaceAll(f[0], ",v:3:4,", ",nil,"), ",")
		f[1] = strings.ReplaceAll(","+f[1]+",", ",v:3:4,", ",nil,")
		f[1] = strings.Trim(strings.ReplaceAll(f[1], ",v:3:4,", ",nil,"), ",")
		impl, spec := strings.Split(f[0], ","), strings.Split(f[1], ",")
		obs, final, hung := c10ExecOps(c.cap, c.ops, impl)
		passed := 0
		threads := map[string]bool{}
		for j, o := range obs {
			if strings.HasPrefix(o, "v:") || strings.HasPrefix(o, "ent:") {
				passed++
			}
			if o != "B" {
				threads[strings.Split(c.ops[j], ":")[1]] = true
			}
			e.R.H("chanops_obs", strings.SplitN(o, ":", 2)[0])
		}
		e.R.Case(key, passed >= 3 && len(threads) >= 2)
		e.R.H("chanops_cap", strconv.Itoa(c.cap))
		e.R.H("chanops_len", strconv.Itoa(len(c.ops)/10*10)+"+")
		e.R.H("chanops_guard_atMostOneIterator", f[2])
		if hung != "" {
			e.R.Mismatch(key, "hung: "+hung, f[0], "real channel blocked where the model says the step is enabled")
			nHung++
			if nHung >= 3 {
				e.R.Note("channel schedules stopped after %d schedules that blocked", nHung)
				break
			}
			continue
		}
		goAll := strings.Join(obs, ",")
		agree := goAll == f[0] && final == f[3]
		if !agree {
			e.R.Mismatch(key, goAll+" final="+final, f[0]+" final="+f[3], "object.Chan vs C10.step")
		}
		// Spec: every step hands out what the Spec machine hands out (values only)
		for j := range obs {
			if j < len(spec) && c10StripKey(obs[j]) != c10StripKey(spec[j]) {
				finding := ""
				if f[2] == "false" && agree && strings.HasPrefix(obs[j], "ent:") {
					finding = c10Finding
				}
				e.R.Spec(key, fmt.Sprintf("step %d (%s): the code handed out %s, the property demands %s (the value this thread's own Next dequeued)",
					j, c.ops[j], c10StripKey(obs[j]), c10StripKey(spec[j])), finding)
				break
			}
		}
	}
}

// ---------------------------------------------------------------------------------------
// B. real goroutine topologies through scripts

type c10Topo struct {
	senders, receivers, cap int
	counts                  []int
	style                   []string // per receiver: explicit | method | range | forin
	spawnForm               string   // spawn | fnspawn | go
	sendForm                string   // op | method
	chanArg                 bool     // channel passed as argument (private) or captured (shared global)
	procs                   int
	yields                  []uint64 // per thread yield pattern
}

func (t c10Topo) key() string {
	return fmt.Sprintf("topology senders=%d receivers=%d cap=%d counts=%v styles=%v spawn=%s send=%s chanArg=%v procs=%d yields=%x",
		t.senders, t.receivers, t.cap, t.counts, t.style, t.spawnForm, t.sendForm, t.chanArg, t.procs, t.yields)
}

func (t c10Topo) script() string {
	var b strings.Builder
	w := func(format string, a ...any) { fmt.Fprintf(&b, format+"\n", a...) }
	w("ch := chan(%d)", t.cap)
	chName := "ch"
	params := ""
	if t.chanArg {
		chName = "c"
		params = ", c"
	}
	// (the value of a send statement is parsed at call precedence: compute it first)
	send := "m := id * 100000 + k\n    " + chName + " <- m"
	if t.sendForm == "method" {
		send = chName + ".send(id * 100000 + k)"
	}
	w("func sender(id, n%s) {\n  for k := 0; k < n; k++ {\n    %s\n    yield(id)\n  }\n  return n * 7 + id\n}", params, send)
	w("func rx_explicit(id%s) {\n  for {\n    v := <-%s\n    if v == nil { break }\n    rec(id, v)\n    yield(10 + id)\n  }\n  return 1000 + id\n}", params, chName)
	w("func rx_method(id%s) {\n  for {\n    v := %s.receive()\n    if v == nil { break }\n    rec(id, v)\n    yield(10 + id)\n  }\n  return 1000 + id\n}", params, chName)
	w("func rx_range(id%s) {\n  for _, v := range %s {\n    rec(id, v)\n    yield(10 + id)\n  }\n  return 1000 + id\n}", params, chName)
	w("func rx_forin(id%s) {\n  for v in %s {\n    rec(id, v)\n    yield(10 + id)\n  }\n  return 1000 + id\n}", params, chName)
	arg := ""
	if t.chanArg {
		arg = ", ch"
	}
	switch t.spawnForm {
	case "go":
		w("sdone := chan(%d)\nrdone := chan(%d)", t.senders, t.receivers)
		for j := 0; j < t.receivers; j++ {
			w("go func(id) { r := rx_%s(id%s); rdone <- r }(%d)", t.style[j], arg, j)
		}
		for i := 0; i < t.senders; i++ {
			w("go func(id, n) { r := sender(id, n%s); sdone <- r }(%d, %d)", arg, i, t.counts[i])
		}
		w("for i := 0; i < %d; i++ { waited(0, <-sdone) }", t.senders)
		w("close(ch)")
		w("for i := 0; i < %d; i++ { waited(1, <-rdone) }", t.receivers)
	default:
		w("rts := []\nsts := []")
		for j := 0; j < t.receivers; j++ {
			if t.spawnForm == "fnspawn" {
				w("rts.append(rx_%s.spawn(%d%s))", t.style[j], j, arg)
			} else {
				w("rts.append(spawn(rx_%s, %d%s))", t.style[j], j, arg)
			}
		}
		for i := 0; i < t.senders; i++ {
			if t.spawnForm == "fnspawn" {
				w("sts.append(sender.spawn(%d, %d%s))", i, t.counts[i], arg)
			} else {
				w("sts.append(spawn(sender, %d, %d%s))", i, t.counts[i], arg)
			}
		}
		w("for _, t := range sts { waited(0, t.wait()) }")
		w("close(ch)")
		w("for _, t := range rts { waited(1, t.wait()) }")
	}
	// closed and drained: receives yield nil, iteration ends at once
	w("after(<-ch)\nafter(ch.receive())\nfor _, v := range ch { after(v) }\nafter(<-ch)")
	return b.String()
}

type c10Run struct {
	recv   [][]string // per receiver: observed messages "i:k"
	waited [2][]int64
	after  []string
	yieldN [32]struct {
		n uint64
		_ [7]uint64
	}
	mu sync.Mutex
}

func c10Topologies(e *Env) {
	rng := e.Rng.Fork()
	runs := 400
	if !e.Quick {
		runs = 20000
	}
	deadline := time.Now().Add(100 * time.Second)
	if !e.Quick {
		deadline = time.Now().Add(18 * time.Minute)
	}
	styles := []string{"explicit", "method", "range", "forin"}
	totalMsgs := 0
	done := 0
	incomplete := 0
	for r := 0; r < runs; r++ {
		if time.Now().After(deadline) {
			e.R.Note("topology runs stopped at the tier's time budget after %d of %d runs", done, runs)
			break
		}
		t := c10Topo{senders: 1 + rng.Intn(4), receivers: 1 + rng.Intn(4), cap: rng.Intn(9)}
		if rng.Chance(30) {
			t.cap = 0
		}
		// message counts: mostly 10^2..10^3, some up to 10^4 in total, a few tiny
		var total int
		switch x := rng.Intn(100); {
		case x < 8:
			total = rng.Intn(20)
		case x < 70:
			total = 100 + rng.Intn(900)
		case x < 92:
			total = 1000 + rng.Intn(4000)
		default:
			total = 5000 + rng.Intn(5001)
		}
		if !e.Quick && rng.Chance(3) {
			total = 10000
		}
		t.counts = make([]int, t.senders)
		for i := 0; i < total; i++ {
			t.counts[rng.Intn(t.senders)]++
		}
		// receive styles: all explicit / all iterating / mixed; >= 2 iterating receivers is
		// where the shared lastReceived can bite
		mode := rng.Intn(100)
		for j := 0; j < t.receivers; j++ {
			switch {
			case mode < 40:
				t.style = append(t.style, styles[rng.Intn(2)])
			case mode < 70:
				t.style = append(t.style, styles[2+rng.Intn(2)])
			default:
				t.style = append(t.style, styles[rng.Intn(4)])
			}
		}
		t.spawnForm = Pick(rng, []string{"spawn", "fnspawn", "go"})
		t.sendForm = Pick(rng, []string{"op", "op", "method"})
		t.chanArg = rng.Bool()
		t.procs = Pick(rng, []int{1, 2, 4, 16})
		t.yields = make([]uint64, 20)
		ymode := rng.Intn(3)
		for i := range t.yields {
			switch ymode {
			case 0: // none
			case 1:
				t.yields[i] = rng.Next() & rng.Next() & rng.Next() // sparse
			default:
				t.yields[i] = rng.Next()
			}
		}
		if !c10RunTopology(e, t) {
			incomplete++
			if incomplete >= 3 {
				e.R.Note("topology runs stopped after %d runs that did not complete", incomplete)
				break
			}
		}
		done++
		totalMsgs += total
	}
	e.R.Note("topology runs: %d, messages through real channels: %d", done, totalMsgs)
}

func c10RunTopology(e *Env, t c10Topo) bool {
	key := t.key()
	run := &c10Run{recv: make([][]string, t.receivers)}
	for j := range run.recv {
		run.recv[j] = make([]string, 0, 64)
	}
	globals := map[string]any{
		// each receiver appends to its own log only; no lock, no cross-thread ordering implied
		"rec": object.NewBuiltin("rec", func(ctx context.Context, args ...object.Object) object.Object {
			id := int(args[0].(*object.Int).Value())
			s := "9:0"
			if v, ok := args[1].(*object.Int); ok && v.Value() >= 0 {
				s = fmt.Sprintf("%d:%d", v.Value()/100000, v.Value()%100000)
			}
			run.recv[id] = append(run.recv[id], s)
			return object.Nil
		}),
		"yield": object.NewBuiltin("yield", func(ctx context.Context, args ...object.Object) object.Object {
			id := int(args[0].(*object.Int).Value())
			n := run.yieldN[id].n
			run.yieldN[id].n = n + 1
			if t.yields[id]>>(n%64)&1 == 1 {
				runtime.Gosched()
			}
			return object.Nil
		}),
		"waited": object.NewBuiltin("waited", func(ctx context.Context, args ...object.Object) object.Object {
			k := int(args[0].(*object.Int).Value())
			v := int64(-1)
			if x, ok := args[1].(*object.Int); ok {
				v = x.Value()
			}
			run.waited[k] = append(run.waited[k], v)
			return object.Nil
		}),
		"after": object.NewBuiltin("after", func(ctx context.Context, args ...object.Object) object.Object {
			run.after = append(run.after, args[0].Inspect())
			return object.Nil
		}),
	}
	runtime.GOMAXPROCS(t.procs)
	ctx, cancel := context.WithTimeout(context.Background(), c10Wait)
	var err error
	finished := c10_withWatch(func() {
		defer func() {
			if r := recover(); r != nil {
				err = fmt.Errorf("panic: %v", r)
			}
		}()
		_, err = risor.Eval(ctx, t.script(), risor.WithConcurrency(), risor.WithGlobals(globals))
	})
	cancel()
	total := 0
	for _, c := range t.counts {
		total += c
	}
	iterating := 0
	for _, s := range t.style {
		if s == "range" || s == "forin" {
			iterating++
		}
	}
	e.R.Case(key, t.senders+t.receivers >= 2 && total >= 100)
	e.R.H("topo_senders_x_receivers", fmt.Sprintf("%dx%d", t.senders, t.receivers))
	e.R.H("topo_cap", strconv.Itoa(t.cap))
	e.R.H("topo_procs", strconv.Itoa(t.procs))
	e.R.H("topo_spawn_form", t.spawnForm)
	e.R.H("topo_iterating_receivers", strconv.Itoa(iterating))
	e.R.H("topo_messages", func() string {
		switch {
		case total < 100:
			return "<100"
		case total < 1000:
			return "100..999"
		case total < 5000:
			return "1000..4999"
		}
		return "5000..10000"
	}())
	if !finished || err != nil {
		// with >= 2 iterating receivers nothing in the model blocks either; a run that does
		// not finish is outside the Impl model whatever the style
		e.R.Mismatch(key, fmt.Sprintf("finished=%v err=%v", finished, err), "every schedule of the model terminates with all logs complete", "script run did not complete")
		e.R.Spec(key, fmt.Sprintf("the run did not complete (finished=%v err=%v): values sent were never received", finished, err), "")
		return false
	}
	counts := make([]string, len(t.counts))
	for i, c := range t.counts {
		counts[i] = strconv.Itoa(c)
	}
	logs := make([]string, t.receivers)
	for j, l := range run.recv {
		logs[j] = strings.Join(l, ",")
		if len(l) == 0 {
			logs[j] = "-"
		}
	}
	rep := e.O.Ask("C10", "hist", strings.Join(counts, ","), strings.Join(logs, ";"))
	f := strings.Split(rep, "\t")
	if len(f) != 3 {
		e.R.Mismatch(key, "-", rep, "oracle reply malformed")
		return true
	}
	e.R.H("topo_verdict", f[0])
	if f[0] != "valid" {
		detail := fmt.Sprintf("history rejected by validHistory: surplus deliveries:lost:alien = %s; logs (first 12 per receiver): %s", f[2], c10Head(run.recv, 12))
		if iterating >= 2 && f[1] == "pattern" {
			// Go agrees with Impl (the model allows exactly this), Impl differs from Spec, guard holds
			e.R.H("topo_defect_manifested", f[2])
			e.R.Spec(key, detail, c10Finding)
		} else {
			e.R.Mismatch(key, "dups:lost:alien="+f[2], "valid history (at most one iterating receiver: Impl = Spec)", "observed history is not a history of the model")
			e.R.Spec(key, detail, "")
		}
	}
	// closed and drained yields nil; iteration over it ends at once
	if strings.Join(run.after, ",") != "nil,nil,nil" {
		e.R.Mismatch(key, strings.Join(run.after, ","), "nil,nil,nil", "receive / range on the closed and drained channel")
		e.R.Spec(key, "after close and drain: <-ch, ch.receive(), range ch, <-ch observed "+strings.Join(run.after, ","), "")
	}
	// wait() / completion values: exactly the spawned call's result
	var wantS, wantR []int64
	for i, c := range t.counts {
		wantS = append(wantS, int64(c*7+i))
	}
	for j := 0; j < t.receivers; j++ {
		wantR = append(wantR, int64(1000+j))
	}
	gotS, gotR := append([]int64{}, run.waited[0]...), append([]int64{}, run.waited[1]...)
	if t.spawnForm == "go" { // completion order is arbitrary there
		sort.Slice(gotS, func(a, b int) bool { return gotS[a] < gotS[b] })
		sort.Slice(wantS, func(a, b int) bool { return wantS[a] < wantS[b] })
		sort.Slice(gotR, func(a, b int) bool { return gotR[a] < gotR[b] })
	}
	if fmt.Sprint(gotS) != fmt.Sprint(wantS) || fmt.Sprint(gotR) != fmt.Sprint(wantR) {
		e.R.Mismatch(key, fmt.Sprint(gotS, gotR), fmt.Sprint(wantS, wantR), "results of the spawned calls")
		e.R.Spec(key, fmt.Sprintf("wait()/completion values %v %v, the calls returned %v %v", gotS, gotR, wantS, wantR), "")
	}
	return true
}

func c10Head(recv [][]string, n int) string {
	var parts []string
	for j, l := range recv {
		if len(l) > n {
			l = l[:n]
		}
		parts = append(parts, fmt.Sprintf("r%d=[%s…]", j, strings.Join(l, " ")))
	}
	return strings.Join(parts, " ")
}

// ---------------------------------------------------------------------------------------
// C. spawn scenarios

type c10Scn struct {
	layout  string // global | local   (shared variables are globals, or cells of an enclosing function)
	builtin bool   // spawned callable is a host builtin (object.Callable branch of Spawn)
	vars    []int
	shared  []int
	ops     []string // oracle syntax
	forms   []string // per spawn op: go | gom | goc | spawn | fnspawn | host
	argc    []int
}

// argument expressions, oracle syntax: i | c<n> | cm<n> | t<i> | d<A>

// c10ArgSrc renders an argument expression as risor source.
func c10ArgSrc(a string) string {
	switch {
	case strings.HasPrefix(a, "d"):
		return "dbl(" + c10ArgSrc(a[1:]) + ")"
	case strings.HasPrefix(a, "t"):
		return "tick" + a[1:] + "()"
	case strings.HasPrefix(a, "cm"):
		return "-" + a[2:]
	case strings.HasPrefix(a, "c"):
		return a[1:]
	}
	return "v" + a
}

// c10ArgEval is the Spec's own reading of an argument expression: evaluated by the
// spawner, on the spawner's current variables, side effects included.
func c10ArgEval(a string, cur []int) int {
	switch {
	case strings.HasPrefix(a, "d"):
		return 2 * c10ArgEval(a[1:], cur)
	case strings.HasPrefix(a, "t"):
		i, _ := strconv.Atoi(a[1:])
		cur[i]++
		return cur[i]
	case strings.HasPrefix(a, "cm"):
		n, _ := strconv.Atoi(a[2:])
		return -n
	case strings.HasPrefix(a, "c"):
		n, _ := strconv.Atoi(a[1:])
		return n
	}
	i, _ := strconv.Atoi(a)
	return cur[i]
}

// c10ArgVar: the variable an argument expression reads (-1: none); nested = contains a call
func c10ArgVar(a string) (v int, nested bool) {
	for strings.HasPrefix(a, "d") {
		a = a[1:]
		nested = true
	}
	switch {
	case strings.HasPrefix(a, "t"):
		v, _ = strconv.Atoi(a[1:])
		return v, true
	case strings.HasPrefix(a, "c"):
		return -1, nested
	}
	v, _ = strconv.Atoi(a)
	return v, nested
}

func c10ArgKind(a string) string {
	switch {
	case strings.HasPrefix(a, "d"):
		return "nested pure call"
	case strings.HasPrefix(a, "t"):
		return "nested call with side effect"
	case strings.HasPrefix(a, "c"):
		return "literal"
	}
	return "variable"
}

func c10IsGo(form string) bool { return form == "go" || form == "gom" || form == "goc" }

func (s c10Scn) key() string {
	return fmt.Sprintf("spawn layout=%s builtin=%v vars=%v shared=%v forms=%v ops=%s", s.layout, s.builtin, s.vars, s.shared, s.forms, strings.Join(s.ops, ","))
}

func c10GenScn(rng *RNG) (c10Scn, bool) {
	s := c10Scn{layout: Pick(rng, []string{"global", "local"}), builtin: rng.Chance(15)}
	nv := 1 + rng.Intn(4)
	for i := 0; i < nv; i++ {
		s.vars = append(s.vars, rng.Intn(2000)-1000)
	}
	if !s.builtin {
		for i := rng.Intn(3); i > 0; i-- {
			s.shared = append(s.shared, rng.Intn(2000)-1000)
		}
	}
	type th struct {
		form   string
		argv   []int // per argument: the variable it reads, -1 if none
		ran    bool
		poked  bool
		reassd bool
		nested bool // a nested call in the argument list, or a call that panics
	}
	var genArg func(depth int) string
	genArg = func(depth int) string {
		switch x := rng.Intn(100); {
		case x < 50:
			return strconv.Itoa(rng.Intn(nv))
		case x < 58:
			if rng.Bool() {
				return "cm" + strconv.Itoa(1+rng.Intn(999))
			}
			return "c" + strconv.Itoa(rng.Intn(1000))
		case x < 80:
			return "t" + strconv.Itoa(rng.Intn(nv))
		case depth < 3:
			return "d" + genArg(depth+1)
		}
		return strconv.Itoa(rng.Intn(nv))
	}
	var ths []*th
	n := 3 + rng.Intn(14)
	nontrivial := false
	for len(s.ops) < n {
		switch x := rng.Intn(100); {
		case x < 25 && len(ths) < 5:
			form := Pick(rng, []string{"go", "gom", "goc", "spawn", "fnspawn", "host"})
			if s.builtin {
				form = "host"
			}
			argc := rng.Intn(5)
			t := &th{form: form}
			var as []string
			for i := 0; i < argc; i++ {
				a := genArg(0)
				v, nested := c10ArgVar(a)
				if nested {
					t.nested = true
					// the nested call writes v: that is a reassignment for the threads spawned before
					if strings.Contains(a, "t") {
						for _, u := range ths {
							for _, uv := range u.argv {
								if uv == v && !u.ran {
									u.reassd = true
								}
							}
						}
					}
				}
				t.argv = append(t.argv, v)
				as = append(as, a)
			}
			body := "e"
			switch {
			case s.builtin:
				if rng.Chance(20) {
					body = "p" // the host callable itself panics
				}
			case !c10IsGo(form) && rng.Chance(40):
				body = Pick(rng, []string{"f", "f", "p", "p", "o"})
			}
			if body == "p" || body == "o" {
				t.nested = true
			}
			a := strings.Join(as, ".")
			if a == "" {
				a = "-"
			}
			s.ops = append(s.ops, fmt.Sprintf("sp:%s:%s", body, a))
			s.forms = append(s.forms, form)
			s.argc = append(s.argc, argc)
			ths = append(ths, t)
		case x < 50:
			i := rng.Intn(nv)
			s.ops = append(s.ops, fmt.Sprintf("a:%d:%d", i, rng.Intn(2000)-1000))
			for _, t := range ths {
				for _, v := range t.argv {
					if v == i && !t.ran {
						t.reassd = true
					}
				}
			}
		case x < 60 && len(s.shared) > 0:
			s.ops = append(s.ops, fmt.Sprintf("g:%d:%d", rng.Intn(len(s.shared)), rng.Intn(2000)-1000))
		case x < 72 && len(ths) > 0:
			ti := rng.Intn(len(ths))
			if ths[ti].form == "host" && len(ths[ti].argv) > 0 {
				s.ops = append(s.ops, fmt.Sprintf("k:%d:%d:%d", 2*ti, rng.Intn(len(ths[ti].argv)), rng.Intn(2000)-1000))
				if !ths[ti].ran {
					ths[ti].poked = true
				}
			}
		case x < 88 && len(ths) > 0:
			ti := rng.Intn(len(ths))
			s.ops = append(s.ops, fmt.Sprintf("run:%d", ti))
			if !ths[ti].ran && (ths[ti].poked || ths[ti].reassd || ths[ti].nested) {
				nontrivial = true
			}
			ths[ti].ran = true
		case len(ths) > 0:
			ti := rng.Intn(len(ths))
			if !c10IsGo(ths[ti].form) {
				s.ops = append(s.ops, fmt.Sprintf("w:%d", ti))
			}
		}
	}
	// run and wait for everything at the end
	for ti, t := range ths {
		if !t.ran {
			s.ops = append(s.ops, fmt.Sprintf("run:%d", ti))
			if t.poked || t.reassd || t.nested {
				nontrivial = true
			}
		}
		if !c10IsGo(t.form) {
			s.ops = append(s.ops, fmt.Sprintf("w:%d", ti))
		}
	}
	return s, nontrivial
}

type c10Gates struct {
	gate []chan struct{}
	fin  []chan struct{}
}

// script builds the risor program of a scenario; impl = the model's observations (an op the
// model says is not enabled would block the script and is left out).
func (s c10Scn) script(impl []string) string {
	var b strings.Builder
	w := func(format string, a ...any) { fmt.Fprintf(&b, format+"\n", a...) }
	ind := ""
	// unbounded recursion: overflows the (cloned) VM's frame array, a Go panic inside the call
	w("func c10deep(n) { return c10deep(n + 1) + 1 }")
	if s.layout == "local" {
		w("func main() {")
		ind = "  "
	}
	for i, v := range s.vars {
		w("%sv%d := %d", ind, i, v)
	}
	// the nested calls of argument expressions: one with a side effect per variable, one pure
	var vnames []string
	for i := range s.vars {
		w("%stick%d := func() { v%d = v%d + 1; return v%d }", ind, i, i, i, i)
		vnames = append(vnames, fmt.Sprintf("v%d", i))
	}
	w("%sdbl := func(x) { return 2 * x }", ind)
	for i, v := range s.shared {
		w("%sg%d := %d", ind, i, v)
	}
	var sh []string
	for i := range s.shared {
		sh = append(sh, fmt.Sprintf("g%d", i))
	}
	t := 0
	wn := 0
	for idx, op := range s.ops {
		f := strings.Split(op, ":")
		blocked := idx < len(impl) && impl[idx] == "B"
		switch f[0] {
		case "a":
			w("%sv%s = %s", ind, f[1], f[2])
		case "g":
			w("%sg%s = %s", ind, f[1], f[2])
		case "sp":
			var ps, as []string
			for i := 0; i < s.argc[t]; i++ {
				ps = append(ps, fmt.Sprintf("a%d", i))
			}
			if f[2] != "-" {
				for _, a := range strings.Split(f[2], ".") {
					as = append(as, c10ArgSrc(a))
				}
			}
			if !s.builtin {
				fin := "return r"
				switch f[1] {
				case "f":
					fin = `error("E" + string(r))`
				case "p":
					fin = "boom(r)" // a host builtin that panics (Go level) with the data
				case "o":
					fin = "return c10deep(0)"
				}
				// private state: a local counter the call owns; shared state: g*
				w("%sf%d := func(%s) {\n%s  gate(%d)\n%s  mine := 0\n%s  mine += 1\n%s  r := [%s]\n%s  report(%d, r, mine)\n%s  fin(%d)\n%s  %s\n%s}",
					ind, t, strings.Join(ps, ", "), ind, t, ind, ind, ind, strings.Join(append(append([]string{}, ps...), sh...), ", "), ind, t, ind, t, ind, fin, ind)
			}
			switch s.forms[t] {
			case "go":
				w("%sgo f%d(%s)", ind, t, strings.Join(as, ", "))
			case "gom": // object-call form of the go statement
				w("%sm%d := {run: f%d}", ind, t, t)
				w("%sgo m%d.run(%s)", ind, t, strings.Join(as, ", "))
			case "goc": // the callee itself is the result of a call
				w("%spick%d := func() { return f%d }", ind, t, t)
				w("%sgo pick%d()(%s)", ind, t, strings.Join(as, ", "))
			case "spawn":
				w("%sth%d := spawn(%s)", ind, t, strings.Join(append([]string{fmt.Sprintf("f%d", t)}, as...), ", "))
			case "fnspawn":
				w("%sth%d := f%d.spawn(%s)", ind, t, t, strings.Join(as, ", "))
			default:
				target := fmt.Sprintf("f%d", t)
				if s.builtin {
					target = "nil"
				}
				w("%sth%d := hspawn(%s)", ind, t, strings.Join(append([]string{strconv.Itoa(t), target}, as...), ", "))
			}
			// what the spawner sees right after the statement (side effects of nested calls)
			w("%ssnap(%d, [%s])", ind, t, strings.Join(vnames, ", "))
			t++
		case "k":
			if !blocked {
				w("%spoke(%s, %s, %s)", ind, f[1], f[2], f[3])
			}
		case "run":
			if !blocked {
				w("%srelease(%s)", ind, f[1])
			}
		case "w":
			if !blocked {
				// Go level first (Thread.Wait); the script-level wait() only when that handed out an object at all
				w("%sif hwait(%d, th%s) {\n%s  waitres(%d, %s, try(func() { return th%s.wait() }, func(e) { return \"ERR:\" + string(e) }))\n%s}", ind, wn, f[1], ind, wn, f[1], f[1], ind)
			}
			wn++
		}
	}
	if s.layout == "local" {
		w("}\nmain()")
	}
	return b.String()
}

func c10Ints(o object.Object) string {
	l, ok := o.(*object.List)
	if !ok {
		return "notalist(" + o.Inspect() + ")"
	}
	var parts []string
	for _, x := range l.Value() {
		if i, ok := x.(*object.Int); ok {
			parts = append(parts, strconv.FormatInt(i.Value(), 10))
		} else {
			ins := "gonil"
			if x != nil {
				ins = strings.NewReplacer(".", "·", ",", ";", "\n", " ").Replace(x.Inspect())
				if len(ins) > 60 {
					ins = ins[:60] + "…"
				}
				ins = string(x.Type()) + "(" + ins + ")"
			}
			parts = append(parts, "?"+ins)
		}
	}
	if len(parts) == 0 {
		return "-"
	}
	return strings.Join(parts, ".")
}

// c10SpawnSrc: the spawn statement as the script spells it (for messages)
func c10SpawnSrc(form, args string) string {
	var as []string
	if args != "-" && args != "" {
		for _, a := range strings.Split(args, ".") {
			as = append(as, c10ArgSrc(a))
		}
	}
	switch form {
	case "go":
		return "`go f(" + strings.Join(as, ", ") + ")`"
	case "gom":
		return "`go m.run(" + strings.Join(as, ", ") + ")`"
	case "goc":
		return "`go pick()(" + strings.Join(as, ", ") + ")`"
	case "spawn":
		return "`spawn(" + strings.Join(append([]string{"f"}, as...), ", ") + ")`"
	case "fnspawn":
		return "`f.spawn(" + strings.Join(as, ", ") + ")`"
	}
	return "`object.Spawn(ctx, f, [" + strings.Join(as, ", ") + "])`"
}

// c10SpArgs: the argument field of the ti-th spawn op
func c10SpArgs(ops []string, ti int) string {
	n := 0
	for _, op := range ops {
		if f := strings.Split(op, ":"); f[0] == "sp" {
			if n == ti {
				return f[2]
			}
			n++
		}
	}
	return "-"
}

func c10Spawn(e *Env) {
	rng := e.Rng.Fork()
	n := 4000
	if !e.Quick {
		n = 60000
	}
	runtime.GOMAXPROCS(4)
	type gen struct {
		s  c10Scn
		nt bool
	}
	var scns []gen
	// directed: the property's own sentence, once per spawn form
	allForms := []string{"go", "gom", "goc", "spawn", "fnspawn", "host"}
	for _, form := range allForms {
		ops := []string{"sp:e:0.1", "a:0:111", "a:1:222", "run:0"}
		if form == "host" {
			ops = []string{"sp:e:0.1", "a:0:111", "k:0:1:333", "run:0"}
		}
		if !c10IsGo(form) {
			ops = append(ops, "w:0", "w:0")
		}
		scns = append(scns, gen{c10Scn{layout: "global", vars: []int{5, 6}, shared: []int{7}, ops: ops, forms: []string{form}, argc: []int{2}}, true})
	}
	scns = append(scns, gen{c10Scn{layout: "global", builtin: true, vars: []int{5, 6}, ops: []string{"sp:e:0.1", "k:0:0:333", "a:1:9", "run:0", "w:0"}, forms: []string{"host"}, argc: []int{2}}, true})
	// directed: one nested call as the only argument, per spawn form and kind of nested call
	// (pure / with a side effect), smallest first; then the mixed list
	for _, args := range []string{"d0", "t0", "t0.d1.0.dt1.c7"} {
		for _, layout := range []string{"global", "local"} {
			for _, form := range allForms {
				ops := []string{"sp:e:" + args, "a:0:111", "run:0"}
				if !c10IsGo(form) {
					ops = append(ops, "w:0")
				}
				scns = append(scns, gen{c10Scn{layout: layout, vars: []int{5, 6}, shared: []int{7}, ops: ops, forms: []string{form}, argc: []int{strings.Count(args, ".") + 1}}, true})
			}
		}
	}
	// directed: the spawned call ends in a Go panic (a builtin that panics; the frame array
	// overflowing); wait() must hand out that error, every time
	for _, body := range []string{"p", "o"} {
		for _, form := range []string{"spawn", "fnspawn", "host"} {
			scns = append(scns, gen{c10Scn{layout: "global", vars: []int{5, 6}, shared: []int{7}, ops: []string{"sp:" + body + ":0", "run:0", "w:0", "w:0"}, forms: []string{form}, argc: []int{1}}, true})
		}
	}
	scns = append(scns, gen{c10Scn{layout: "global", builtin: true, vars: []int{5, 6}, ops: []string{"sp:p:0.1", "run:0", "w:0", "w:0"}, forms: []string{"host"}, argc: []int{2}}, true})
	// one panicking call among calls that return: each wait() tells them apart
	scns = append(scns, gen{c10Scn{layout: "global", vars: []int{5, 6}, shared: []int{7},
		ops:   []string{"sp:e:0", "sp:o:1", "sp:e:d1", "run:0", "run:1", "run:2", "w:0", "w:1", "w:2"},
		forms: []string{"spawn", "spawn", "spawn"}, argc: []int{1, 1, 1}}, true})
	for i := 0; i < n; i++ {
		s, nt := c10GenScn(rng)
		scns = append(scns, gen{s, nt})
	}
	reqs := make([]string, len(scns))
	ints := func(xs []int) string {
		if len(xs) == 0 {
			return "-"
		}
		var p []string
		for _, x := range xs {
			p = append(p, strconv.Itoa(x))
		}
		return strings.Join(p, ",")
	}
	for i, g := range scns {
		reqs[i] = fmt.Sprintf("C10\tspawn\t%s\t%s\t%s", ints(g.s.vars), ints(g.s.shared), strings.Join(g.s.ops, ","))
	}
	reps := e.O.AskBatch(reqs)
	incomplete := 0
	for i, g := range scns {
		if !c10RunScn(e, g.s, g.nt, strings.Split(reps[i], ",")) {
			incomplete++
			if incomplete >= 3 {
				e.R.Note("spawn scenarios stopped after %d scenarios that did not complete", incomplete)
				break
			}
		}
	}
}

func c10RunScn(e *Env, s c10Scn, nontrivial bool, impl []string) bool {
	key := s.key()
	e.R.Case(key, nontrivial)
	e.R.H("spawn_layout", s.layout)
	for _, f := range s.forms {
		if s.builtin {
			f = "host(builtin target)"
		}
		e.R.H("spawn_form", f)
	}
	bodies := map[int]string{} // thread -> e | f | p | o
	for _, op := range s.ops {
		if f := strings.Split(op, ":"); f[0] == "sp" {
			bodies[len(bodies)] = f[1]
			e.R.H("spawn_body", map[string]string{"e": "returns", "f": "raises", "p": "Go panic in a builtin", "o": "Go panic by frame overflow"}[f[1]])
			if f[2] != "-" {
				for i, a := range strings.Split(f[2], ".") {
					e.R.H("spawn_arg_kind", c10ArgKind(a))
					if _, nested := c10ArgVar(a); nested {
						e.R.H("spawn_nested_call_position", strconv.Itoa(i))
					}
				}
			}
		}
	}
	if len(impl) != len(s.ops) {
		e.R.Mismatch(key, "-", strings.Join(impl, ","), "oracle reply malformed")
		return true
	}
	nth := len(s.forms)
	g := c10Gates{}
	for i := 0; i < nth; i++ {
		g.gate = append(g.gate, make(chan struct{}))
		g.fin = append(g.fin, make(chan struct{}))
	}
	var mu sync.Mutex
	reports := map[int]string{} // thread -> what its call computed
	mines := map[int]string{}
	waits := map[int]string{} // wait ordinal -> observation
	snaps := map[int]string{} // thread -> the spawner's variables right after its spawn statement
	callerSlices := map[int][]object.Object{}
	var hung atomic.Value
	await := func(ch chan struct{}, what string) bool {
		select {
		case <-ch:
			return true
		case <-time.After(c10Wait):
			hung.Store(what)
			return false
		}
	}
	intArg := func(o object.Object) int { return int(o.(*object.Int).Value()) }
	globals := map[string]any{
		"gate": object.NewBuiltin("gate", func(ctx context.Context, args ...object.Object) object.Object {
			await(g.gate[intArg(args[0])], "gate")
			return object.Nil
		}),
		"fin": object.NewBuiltin("fin", func(ctx context.Context, args ...object.Object) object.Object {
			close(g.fin[intArg(args[0])])
			return object.Nil
		}),
		"report": object.NewBuiltin("report", func(ctx context.Context, args ...object.Object) object.Object {
			mu.Lock()
			defer mu.Unlock()
			reports[intArg(args[0])] = c10Ints(args[1])
			mines[intArg(args[0])] = args[2].Inspect()
			return object.Nil
		}),
		"release": object.NewBuiltin("release", func(ctx context.Context, args ...object.Object) object.Object {
			t := intArg(args[0])
			close(g.gate[t])
			await(g.fin[t], fmt.Sprintf("thread %d did not reach the end of its call after release", t))
			return object.Nil
		}),
		"waitres": object.NewBuiltin("waitres", func(ctx context.Context, args ...object.Object) object.Object {
			mu.Lock()
			defer mu.Unlock()
			o := ""
			switch v := args[2].(type) {
			case *object.List:
				o = "r." + c10Ints(v)
			case *object.String:
				o = "str(" + v.Value() + ")"
				if strings.HasPrefix(v.Value(), "ERR:E[") {
					body := strings.TrimSuffix(strings.TrimPrefix(v.Value(), "ERR:E["), "]")
					if body == "" {
						o = "e.-"
					} else {
						o = "e." + strings.ReplaceAll(body, ", ", ".")
					}
				}
			default:
				o = "other(" + args[2].Inspect() + ")"
			}
			if strings.HasPrefix(o, "str(ERR:panic: P[") {
				body := strings.TrimSuffix(strings.TrimPrefix(o, "str(ERR:panic: P["), "])")
				if body == "" {
					o = "p.-"
				} else {
					o = "p." + strings.ReplaceAll(body, ", ", ".")
				}
			}
			waits[intArg(args[0])] = o
			return object.Nil
		}),
		// a Go panic inside the spawned call (the builtin's own, not a raised error)
		"boom": object.NewBuiltin("boom", func(ctx context.Context, args ...object.Object) object.Object {
			panic("P" + args[0].Inspect())
		}),
		"snap": object.NewBuiltin("snap", func(ctx context.Context, args ...object.Object) object.Object {
			mu.Lock()
			defer mu.Unlock()
			snaps[intArg(args[0])] = c10Ints(args[1])
			return object.Nil
		}),
		// Go-API level wait: what Thread.Wait hands out; false when that is not an object at
		// all (a Go nil has no meaning inside the VM, the script-level wait() is skipped then)
		"hwait": object.NewBuiltin("hwait", func(ctx context.Context, args ...object.Object) object.Object {
			th, ok := args[1].(*object.Thread)
			if !ok {
				mu.Lock()
				waits[intArg(args[0])] = "notathread(" + args[1].Inspect() + ")"
				mu.Unlock()
				return object.False
			}
			if r := th.Wait(ctx); r == nil {
				mu.Lock()
				waits[intArg(args[0])] = "gonil"
				mu.Unlock()
				return object.False
			}
			return object.True
		}),
		// Go-API level spawn: the host keeps the slice it handed to object.Spawn
		"hspawn": object.NewBuiltin("hspawn", func(ctx context.Context, args ...object.Object) object.Object {
			t := intArg(args[0])
			sl := make([]object.Object, len(args)-2)
			copy(sl, args[2:])
			mu.Lock()
			callerSlices[2*t] = sl
			mu.Unlock()
			var fn object.Object = args[1]
			if s.builtin {
				fn = object.NewBuiltin("gated", func(ctx context.Context, a ...object.Object) object.Object {
					await(g.gate[t], "gate")
					r := object.NewList(append([]object.Object{}, a...)) // reads its arguments only now
					mu.Lock()
					reports[t] = c10Ints(r)
					mines[t] = "1"
					mu.Unlock()
					close(g.fin[t])
					if bodies[t] == "p" {
						panic("P" + r.Inspect())
					}
					return r
				})
			}
			th, err := object.Spawn(ctx, fn, sl)
			if err != nil {
				return object.NewError(err)
			}
			return th
		}),
		"poke": object.NewBuiltin("poke", func(ctx context.Context, args ...object.Object) object.Object {
			mu.Lock()
			defer mu.Unlock()
			sl := callerSlices[intArg(args[0])]
			if i := intArg(args[1]); i < len(sl) {
				sl[i] = object.NewInt(int64(intArg(args[2])))
			}
			return object.Nil
		}),
	}
	src := s.script(impl)
	ctx, cancel := context.WithTimeout(context.Background(), c10Wait)
	var err error
	finished := c10_withWatch(func() {
		defer func() {
			if r := recover(); r != nil {
				err = fmt.Errorf("panic: %v", r)
			}
		}()
		_, err = risor.Eval(ctx, src, risor.WithConcurrency(), risor.WithGlobals(globals))
	})
	cancel()
	// let never-released threads go (they were not run in the scenario)
	for i := 0; i < nth; i++ {
		select {
		case <-g.gate[i]:
		default:
			close(g.gate[i])
		}
	}
	if h := hung.Load(); !finished || err != nil || h != nil {
		e.R.Mismatch(key, fmt.Sprintf("finished=%v err=%v hung=%v", finished, err, h), strings.Join(impl, ","), "scenario script did not complete\n"+src)
		// only runs that cost a timeout count towards stopping early; a script that fails at once is cheap
		return finished && h == nil
	}
	// compare with the model, op by op
	mu.Lock()
	defer mu.Unlock()
	var goObs []string
	t, wn := 0, 0
	spawnVals := map[int]string{} // Spec: argument values at the spawn site
	cur := append([]int{}, s.vars...)
	ranOutcome := map[int]string{}
	for idx, op := range s.ops {
		f := strings.Split(op, ":")
		o := impl[idx]
		switch f[0] {
		case "a":
			i, _ := strconv.Atoi(f[1])
			v, _ := strconv.Atoi(f[2])
			if i < len(cur) {
				cur[i] = v
			}
		case "sp":
			var p []string
			if f[2] != "-" {
				for _, a := range strings.Split(f[2], ".") { // left to right, side effects included
					p = append(p, strconv.Itoa(c10ArgEval(a, cur)))
				}
			}
			spawnVals[t] = strings.Join(p, ".")
			// Spec: the nested calls of the argument list ran at the spawn site, each once
			var cs []string
			for _, v := range cur {
				cs = append(cs, strconv.Itoa(v))
			}
			if snaps[t] != strings.Join(cs, ".") {
				e.R.Spec(key, fmt.Sprintf("thread %d (%s %s): right after the spawn statement the spawner's variables are [%s]; evaluating the argument expressions at the spawn site gives [%s]",
					t, s.forms[t], c10SpawnSrc(s.forms[t], f[2]), snaps[t], strings.Join(cs, ".")), "")
			}
			if mf := strings.SplitN(impl[idx], ":", 4); len(mf) == 4 {
				o = strings.Join(mf[:3], ":") + ":" + snaps[t]
			}
			t++
		case "run":
			if impl[idx] != "B" {
				ti, _ := strconv.Atoi(f[1])
				kind := "r"
				if len(impl[idx]) > 4 { // ran:r. | ran:e. | ran:p.
					kind = impl[idx][4:5]
				}
				o = "ran:" + kind + "." + reports[ti]
				ranOutcome[ti] = kind + "." + reports[ti]
				if mines[ti] != "1" {
					o += "(private counter=" + mines[ti] + ")"
				}
				// Spec: the call received the argument values given at the spawn site
				got := reports[ti]
				want := spawnVals[ti]
				if got == "-" {
					got = ""
				}
				gotArgs := strings.Split(got, ".")
				if got == "" {
					gotArgs = nil
				}
				if len(gotArgs) >= s.argc[ti] {
					gotArgs = gotArgs[:s.argc[ti]]
				}
				if strings.Join(gotArgs, ".") != want {
					e.R.Spec(key, fmt.Sprintf("thread %d (%s) read arguments [%s], the spawn site gave [%s]", ti, s.forms[ti]+" "+c10SpawnSrc(s.forms[ti], c10SpArgs(s.ops, ti)), strings.Join(gotArgs, "."), want), "")
				}
			}
		case "w":
			if impl[idx] != "B" {
				ti, _ := strconv.Atoi(f[1])
				got := waits[wn]
				if bodies[ti] == "o" && strings.HasPrefix(got, "str(ERR:panic: runtime error: index out of range") {
					// the overflow's message carries no data: the error of this call's panic it is
					got = "p." + reports[ti]
				}
				o = "w:" + got
				// Spec: wait returns exactly the call's result or error
				if got != ranOutcome[ti] {
					what := map[string]string{"e": "returned", "f": "raised an error", "p": "panicked in a builtin (its error is the call's outcome)", "o": "overflowed the frame array (its panic error is the call's outcome)"}[bodies[ti]]
					gotText := got
					if got == "gonil" {
						gotText = "a Go nil from Thread.Wait (neither a value nor an error)"
					}
					e.R.Spec(key, fmt.Sprintf("wait() of thread %d (%s) returned %s; its call %s: %s", ti, s.forms[ti], gotText, what, ranOutcome[ti]), "")
				}
			}
			wn++
		}
		goObs = append(goObs, o)
	}
	if strings.Join(goObs, ",") != strings.Join(impl, ",") {
		e.R.Mismatch(key, strings.Join(goObs, ","), strings.Join(impl, ","), "spawn/wait on the real VM vs C10.tstep\n"+src)
	}
	return true
}
