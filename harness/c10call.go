package main

// C10 part J (round 5): A SPAWNED CALL IS THE CALL — call trees with nested calls, defers and
// errors, run directly and on spawned threads.
//
// A scenario is 1..2 generated function bodies (trees of statements: effects, `defer` of an
// effect or of a call that raises, plain nested calls, calls under try(), chains of d helper
// frames with a nested body at the bottom — d drawn around the powers of two up to ~520 —, a final
// return or raised error) and a main program that, in a shuffled order, calls each body DIRECTLY
// and starts it 1..2 times on a thread (spawn() | fn.spawn() | go | spawn() by a spawned
// coordinator that waits for it), the spawn statement itself 0..90 calls deep.  Every effect is
// reported to the host with the thread's tag; wait() results are read under try().
//
//   correspondence: effects (in order) and outcome of every spawned call and of the main program
//     against the model's thread net (`C10 callnet`, the per-thread statement lists merged into one
//     random schedule);
//   Spec (evaluated on the real results): a spawned call has the effects, in order, and the result
//     or error of the SAME body called directly, and wait() hands out exactly that result/error.

import (
	"context"
	"fmt"
	"runtime"
	"strconv"
	"strings"
	"sync"
	"time"

	"github.com/risor-io/risor"
	"github.com/risor-io/risor/object"
)

type c10CStmt struct {
	kind  string // e | de (defer builtin effect) | ds (defer script function making the effect) | df (defer a script function that makes the effect and raises) | c | t | deep
	k     int
	d     int
	child *c10CBody
}

type c10CBody struct {
	stmts []c10CStmt
	term  string // r | x | "" (the last statement is a call that raises: nothing follows)
	tv    int
}

// does an error leave the body's frame?
func (b *c10CBody) raises() bool {
	for _, s := range b.stmts {
		if (s.kind == "c" || s.kind == "deep") && s.child.raises() {
			return true
		}
	}
	if b.term == "x" {
		return true
	}
	for _, s := range b.stmts {
		if s.kind == "df" {
			return true
		}
	}
	return false
}

// deepest nesting below the body's own frame, and whether some defer statement is executed after a
// chain of >= minD frames below it has returned (or been left by a caught error)
func (b *c10CBody) shape(minD int) (depth int, deferAfterDeep bool) {
	seenDeep := false
	for _, s := range b.stmts {
		switch s.kind {
		case "de", "ds", "df":
			if seenDeep {
				deferAfterDeep = true
			}
		case "c", "t", "deep":
			cd, ca := s.child.shape(minD)
			tot := cd + 1 + s.d
			if tot > depth {
				depth = tot
			}
			if tot >= minD {
				seenDeep = true
			}
			if ca {
				deferAfterDeep = true
			}
		}
	}
	return
}

func (b *c10CBody) text() string {
	var p []string
	for _, s := range b.stmts {
		switch s.kind {
		case "e", "de", "ds", "df":
			p = append(p, s.kind+strconv.Itoa(s.k))
		case "c", "t":
			p = append(p, s.kind+"{"+s.child.text()+"}")
		case "deep":
			p = append(p, "deep"+strconv.Itoa(s.d)+"{"+s.child.text()+"}")
		}
	}
	if b.term != "" {
		p = append(p, b.term+strconv.Itoa(b.tv))
	}
	return strings.Join(p, " ")
}

// the statements of the body as model operations (without the thread prefix)
func (b *c10CBody) flat(out *[]string) {
	for _, s := range b.stmts {
		switch s.kind {
		case "e":
			*out = append(*out, "e:"+strconv.Itoa(s.k))
		case "de", "ds":
			*out = append(*out, "de:"+strconv.Itoa(s.k))
		case "df":
			*out = append(*out, "df:"+strconv.Itoa(s.k))
		case "c":
			*out = append(*out, "c")
			s.child.flat(out)
			if s.child.raises() {
				return
			}
		case "t":
			*out = append(*out, "t")
			s.child.flat(out)
		case "deep":
			for i := 0; i < s.d+1; i++ {
				*out = append(*out, "c")
			}
			s.child.flat(out)
			if s.child.raises() {
				return
			}
			for i := 0; i < s.d; i++ {
				*out = append(*out, "r:0")
			}
		}
	}
	if b.term != "" {
		*out = append(*out, b.term+":"+strconv.Itoa(b.tv))
	}
}

// Source of the body at function nesting `level`.  Every function literal copies the tag into a
// local of its own (`T<level+1> := T<level>`): a variable is only ever captured from the function
// DIRECTLY enclosing the literal (capture across two or more function levels is the recorded
// finding C02-positional-capture and is not what this part examines).
func (b *c10CBody) src(w *strings.Builder, ind string, level int) {
	T := "T" + strconv.Itoa(level)
	open := func(head string) {
		fmt.Fprintf(w, "%s%s\n%s  T%d := %s\n", ind, head, ind, level+1, T)
	}
	for _, s := range b.stmts {
		switch s.kind {
		case "e":
			fmt.Fprintf(w, "%sev(%s, %d)\n", ind, T, s.k)
		case "de":
			fmt.Fprintf(w, "%sdefer ev(%s, %d)\n", ind, T, s.k)
		case "ds":
			fmt.Fprintf(w, "%sdefer demit(%s, %d)\n", ind, T, s.k)
		case "df":
			fmt.Fprintf(w, "%sdefer dfail(%s, %d)\n", ind, T, s.k)
		case "c":
			open("func() {")
			s.child.src(w, ind+"  ", level+1)
			fmt.Fprintf(w, "%s}()\n", ind)
		case "t":
			open("try(func() {")
			s.child.src(w, ind+"  ", level+1)
			fmt.Fprintf(w, "%s})\n", ind)
		case "deep":
			open(fmt.Sprintf("dive(%d, func() {", s.d-1))
			s.child.src(w, ind+"  ", level+1)
			fmt.Fprintf(w, "%s})\n", ind)
		}
	}
	switch b.term {
	case "r":
		fmt.Fprintf(w, "%sreturn %d\n", ind, b.tv)
	case "x":
		fmt.Fprintf(w, "%serror(\"E%d\")\n", ind, b.tv)
	}
}

func c10ChainDepth(rng *RNG) int {
	switch {
	case rng.Chance(30):
		return 1 + rng.Intn(6)
	case rng.Chance(60):
		base := Pick(rng, []int{16, 32, 32, 64, 64, 128, 128, 256, 512})
		d := base - 4 + rng.Intn(9)
		return d
	default:
		return 7 + rng.Intn(300)
	}
}

func c10GenCBody(rng *RNG, level int, frames *int, ctr *int) *c10CBody {
	b := &c10CBody{}
	n := 1 + rng.Intn(5)
	if level == 0 {
		n = 2 + rng.Intn(5)
	}
	for i := 0; i < n; i++ {
		*ctr++
		k := *ctr
		r := rng.Intn(100)
		switch {
		case r < 22:
			b.stmts = append(b.stmts, c10CStmt{kind: "e", k: k})
		case r < 34:
			b.stmts = append(b.stmts, c10CStmt{kind: "de", k: k})
		case r < 44:
			b.stmts = append(b.stmts, c10CStmt{kind: "ds", k: k})
		case r < 52:
			b.stmts = append(b.stmts, c10CStmt{kind: "df", k: k})
		default:
			if level >= 3 {
				b.stmts = append(b.stmts, c10CStmt{kind: "e", k: k})
				continue
			}
			kind := "deep"
			if r < 62 {
				kind = "c"
			} else if r < 72 {
				kind = "t"
			}
			d := 0
			if kind == "deep" {
				d = c10ChainDepth(rng)
				if d > *frames {
					d = 1 + rng.Intn(4)
				}
				*frames -= d
			}
			child := c10GenCBody(rng, level+1, frames, ctr)
			if kind == "deep" {
				*frames += d // the chain is left before the next statement
			}
			b.stmts = append(b.stmts, c10CStmt{kind: kind, d: d, child: child})
			if kind != "t" && child.raises() {
				return b // nothing is executed after a call that raises
			}
		}
	}
	*ctr++
	b.tv = *ctr
	b.term = "r"
	if rng.Chance(18) {
		b.term = "x"
	}
	return b
}

type c10CExec struct {
	body  int
	form  string // direct | spawn | fnspawn | go | via
	depth int    // the statement is made this many calls below the main program
}

type c10CallScn struct {
	bodies []*c10CBody
	execs  []c10CExec
	procs  int
	salt   uint64
}

func (s c10CallScn) key() string {
	var p []string
	for i, b := range s.bodies {
		p = append(p, fmt.Sprintf("b%d=[%s]", i, b.text()))
	}
	for _, x := range s.execs {
		p = append(p, fmt.Sprintf("%s:b%d@%d", x.form, x.body, x.depth))
	}
	return fmt.Sprintf("calls procs=%d %s", s.procs, strings.Join(p, " "))
}

func c10GenCallScn(rng *RNG) c10CallScn {
	s := c10CallScn{procs: Pick(rng, []int{1, 2, 4, 16}), salt: rng.Next()}
	nb := 1 + rng.Intn(2)
	for i := 0; i < nb; i++ {
		frames, ctr := 640, 0
		s.bodies = append(s.bodies, c10GenCBody(rng, 0, &frames, &ctr))
		s.execs = append(s.execs, c10CExec{body: i, form: "direct", depth: 0})
		for j, m := 0, 1+rng.Intn(2); j < m; j++ {
			x := c10CExec{body: i, form: Pick(rng, []string{"spawn", "spawn", "fnspawn", "go", "go", "via"})}
			if rng.Chance(40) {
				x.depth = Pick(rng, []int{1, 2, 5, 30, 40, 90})
			}
			s.execs = append(s.execs, x)
		}
	}
	for i := len(s.execs) - 1; i > 0; i-- {
		j := rng.Intn(i + 1)
		s.execs[i], s.execs[j] = s.execs[j], s.execs[i]
	}
	return s
}

func c10DirectedCalls() []c10CallScn {
	var out []c10CallScn
	leaf := func() *c10CBody { return &c10CBody{term: "r", tv: 0} }
	for i, d := range []int{1, 5, 30, 31, 32, 33, 64, 130, 300} {
		for _, dk := range []string{"de", "df"} {
			// defer before the chain, defer after the chain has returned
			b := &c10CBody{stmts: []c10CStmt{{kind: "ds", k: 1}, {kind: "deep", d: d, child: leaf()}, {kind: dk, k: 2}, {kind: "e", k: 3}}, term: "r", tv: 7}
			form := []string{"spawn", "fnspawn", "go", "via"}[i%4]
			out = append(out, c10CallScn{bodies: []*c10CBody{b}, procs: 2,
				execs: []c10CExec{{0, "direct", 0}, {0, form, 0}, {0, "spawn", 3}}})
		}
	}
	return out
}

func c10Calls(e *Env) {
	rng := e.Rng.Fork()
	n := 450
	budget := 25 * time.Second
	if !e.Quick {
		n = 9000
		budget = 4 * time.Minute
	}
	scns := c10DirectedCalls()
	for i := 0; i < n; i++ {
		scns = append(scns, c10GenCallScn(rng))
	}
	plans := make([]c10CallPlan, len(scns))
	reqs := make([]string, len(scns))
	for i, s := range scns {
		plans[i] = c10PlanCalls(s)
		reqs[i] = "C10\tcallnet\t" + strings.Join(plans[i].sched, ",")
	}
	reps := e.O.AskBatch(reqs)
	deadline := time.Now().Add(budget)
	done := 0
	for i, s := range scns {
		if time.Now().After(deadline) {
			e.R.Note("call-tree scenarios stopped at the tier's time budget after %d of %d", done, len(scns))
			break
		}
		done++
		if !c10RunCalls(e, s, plans[i], reps[i]) {
			e.R.Note("call-tree scenarios stopped after a scenario that did not complete")
			break
		}
	}
	e.R.Note("call-tree scenarios (direct call vs spawned call) run: %d", done)
}

type c10CallPlan struct {
	src     string
	sched   []string
	tagOf   []int // exec index -> tag (0 for direct calls; the tag of the thread that runs the body otherwise)
	modelOf []int // exec index -> model thread that runs the body (0 for direct)
	nth     int   // model threads
}

// The script and the schedule of the model's thread net.
func c10PlanCalls(s c10CallScn) c10CallPlan {
	p := c10CallPlan{}
	var w strings.Builder
	w.WriteString("func dive(n, f) {\n  if n <= 0 { return f() }\n  return dive(n - 1, f)\n}\n")
	w.WriteString("demit := func(T, k) { ev(T, k) }\n")
	w.WriteString("dfail := func(T, k) {\n  ev(T, k)\n  error(\"E\" + string(k))\n}\n")
	w.WriteString("gw := func(b, T) {\n  try(func() { b(T) })\n  fin(T)\n}\n")
	w.WriteString("co := func(b, T) { return spawn(b, T).wait() }\n")
	for i, b := range s.bodies {
		fmt.Fprintf(&w, "b%d := func(T0) {\n", i)
		b.src(&w, "  ", 0)
		w.WriteString("}\n")
	}
	// per-thread statement lists
	ops := map[int][]string{}
	var mainOps []string // thread 0, with "sp" markers: "SP:<model thread>"
	next := 1
	var waits []string
	for xi, x := range s.execs {
		var flat []string
		s.bodies[x.body].flat(&flat)
		raises := s.bodies[x.body].raises()
		if x.form == "direct" {
			p.tagOf = append(p.tagOf, 0)
			p.modelOf = append(p.modelOf, 0)
			fmt.Fprintf(&w, "dbeg(%d)\ndres(%d, try(func() { return b%d(0) }, func(e) { return \"ERR:\" + string(e) }))\n", xi, xi, x.body)
			mainOps = append(mainOps, "t", "c")
			mainOps = append(mainOps, flat...)
			if raises {
				mainOps = append(mainOps, "c", "r:0") // the handler
			} else {
				mainOps = append(mainOps, "r:0")
			}
			continue
		}
		tag := next // the tag of the thread that runs the body = its model thread
		stmt := ""
		var spawned []string // model: what the main program's spawn statement starts, in order
		switch x.form {
		case "spawn":
			stmt = fmt.Sprintf("keep(%d, spawn(b%d, %d))", xi, x.body, tag)
			ops[tag] = flat
			spawned = []string{"SP:0"}
			next++
		case "fnspawn":
			stmt = fmt.Sprintf("keep(%d, b%d.spawn(%d))", xi, x.body, tag)
			ops[tag] = flat
			spawned = []string{"SP:0"}
			next++
		case "go":
			stmt = fmt.Sprintf("go gw(b%d, %d)", x.body, tag)
			o := append([]string{"t", "c"}, flat...)
			if !raises {
				o = append(o, "r:0")
			}
			ops[tag] = append(o, "r:0")
			spawned = []string{"SP:0"}
			next++
		case "via":
			tag = next + 1 // the coordinator is model thread `next`
			stmt = fmt.Sprintf("keep(%d, spawn(co, b%d, %d))", xi, x.body, tag)
			ops[tag] = flat
			spawned = []string{"SP:0", fmt.Sprintf("SP:%d", next)}
			next += 2
		}
		p.tagOf = append(p.tagOf, tag)
		p.modelOf = append(p.modelOf, tag)
		if x.depth == 0 {
			fmt.Fprintf(&w, "%s\n", stmt)
			mainOps = append(mainOps, spawned...)
		} else {
			fmt.Fprintf(&w, "dive(%d, func() { %s })\n", x.depth-1, stmt)
			for i := 0; i < x.depth+1; i++ {
				mainOps = append(mainOps, "c")
			}
			mainOps = append(mainOps, spawned...)
			for i := 0; i < x.depth+1; i++ {
				mainOps = append(mainOps, "r:0")
			}
		}
		if x.form == "go" {
			waits = append(waits, fmt.Sprintf("join(%d)", tag))
		} else {
			waits = append(waits, fmt.Sprintf("wres(%d, try(func() { return handle(%d).wait() }, func(e) { return \"ERR:\" + string(e) }))", xi, xi))
		}
	}
	for _, l := range waits {
		w.WriteString(l + "\n")
	}
	p.src = w.String()
	p.nth = next
	// one schedule: the main program's statements in order; a started thread's statements are merged
	// in at random places after its spawn (any interleaving is a schedule of the net)
	rng := NewRNG(s.salt)
	type run struct {
		t   int
		pos int
	}
	var live []run
	emitSome := func(max int) {
		for n := 0; n < max && len(live) > 0; n++ {
			i := rng.Intn(len(live))
			r := &live[i]
			p.sched = append(p.sched, fmt.Sprintf("o:%d:%s", r.t, ops[r.t][r.pos]))
			r.pos++
			if r.pos >= len(ops[r.t]) {
				live = append(live[:i], live[i+1:]...)
			}
		}
	}
	for _, o := range mainOps {
		if strings.HasPrefix(o, "SP:") {
			p.sched = append(p.sched, "sp:"+o[3:])
			// which thread did this start? spawns are numbered in schedule order
			started := 0
			for _, q := range p.sched {
				if strings.HasPrefix(q, "sp:") {
					started++
				}
			}
			if len(ops[started]) > 0 {
				live = append(live, run{started, 0})
			}
			continue
		}
		p.sched = append(p.sched, "o:0:"+o)
		if rng.Chance(30) {
			emitSome(1 + rng.Intn(40))
		}
	}
	emitSome(1 << 30)
	for t := 1; t < next; t++ {
		p.sched = append(p.sched, fmt.Sprintf("w:0:%d", t))
	}
	return p
}

func c10CallOutcome(o object.Object) string {
	switch v := o.(type) {
	case *object.Int:
		return "v" + strconv.FormatInt(v.Value(), 10)
	case *object.String:
		if strings.HasPrefix(v.Value(), "ERR:E") {
			if _, err := strconv.Atoi(v.Value()[5:]); err == nil {
				return "e" + v.Value()[5:]
			}
		}
		return "str(" + v.Value() + ")"
	case *object.NilType:
		return "nil"
	}
	return "other(" + o.Inspect() + ")"
}

func c10RunCalls(e *Env, s c10CallScn, p c10CallPlan, rep string) bool {
	key := s.key()
	nontrivial := false
	for _, x := range s.execs {
		e.R.H("calls_form", x.form)
		if x.form == "direct" {
			continue
		}
		d, after := s.bodies[x.body].shape(16)
		e.R.H("calls_spawned_max_nesting", c10Bucket(d))
		e.R.H("calls_spawned_defer_after_chain>=16_returned", strconv.FormatBool(after))
		if x.depth > 0 {
			e.R.H("calls_spawn_statement_depth", c10Bucket(x.depth))
		}
		if after {
			nontrivial = true
		}
	}
	e.R.Case(key, nontrivial)
	f := strings.Split(rep, "\t")
	if len(f) != 2 {
		e.R.Mismatch(key, "-", rep, "oracle reply malformed")
		return true
	}
	type mth struct{ log, out string }
	model := map[int]mth{}
	for _, t := range strings.Split(f[0], ";") {
		q := strings.Split(t, ":")
		if len(q) != 6 {
			e.R.Mismatch(key, "-", rep, "oracle reply malformed")
			return true
		}
		ti, _ := strconv.Atoi(q[0])
		model[ti] = mth{q[1], q[2]}
		if q[2] != "run" && q[3] != q[4] {
			e.R.Mismatch(key, "-", t, "model: a finished call with deferred calls that did not run")
		}
	}
	if len(model) != p.nth {
		e.R.Mismatch(key, fmt.Sprintf("%d threads planned", p.nth), rep, "oracle reply: thread count")
		return true
	}

	var mu sync.Mutex
	logs := map[int][]string{}     // tag -> effects (tag 0: all direct calls)
	dlogs := map[int][]string{}    // exec index of a direct call -> its effects
	dres := map[int]string{}       // exec index of a direct call -> outcome
	wres := map[int]string{}       // exec index -> what wait() gave
	handles := map[int]object.Object{}
	fins := map[int]chan struct{}{}
	for _, t := range p.tagOf {
		fins[t] = make(chan struct{})
	}
	cur := -1
	var hung string
	intArg := func(o object.Object) int {
		if v, ok := o.(*object.Int); ok {
			return int(v.Value())
		}
		return -1
	}
	globals := map[string]any{
		"ev": object.NewBuiltin("ev", func(ctx context.Context, args ...object.Object) object.Object {
			mu.Lock()
			defer mu.Unlock()
			t, k := intArg(args[0]), strconv.Itoa(intArg(args[1]))
			logs[t] = append(logs[t], k)
			if t == 0 {
				dlogs[cur] = append(dlogs[cur], k)
			}
			return object.Nil
		}),
		"dbeg": object.NewBuiltin("dbeg", func(ctx context.Context, args ...object.Object) object.Object {
			mu.Lock()
			defer mu.Unlock()
			cur = intArg(args[0])
			return object.Nil
		}),
		"dres": object.NewBuiltin("dres", func(ctx context.Context, args ...object.Object) object.Object {
			mu.Lock()
			defer mu.Unlock()
			dres[intArg(args[0])] = c10CallOutcome(args[1])
			return object.Nil
		}),
		"wres": object.NewBuiltin("wres", func(ctx context.Context, args ...object.Object) object.Object {
			mu.Lock()
			defer mu.Unlock()
			wres[intArg(args[0])] = c10CallOutcome(args[1])
			return object.Nil
		}),
		"keep": object.NewBuiltin("keep", func(ctx context.Context, args ...object.Object) object.Object {
			mu.Lock()
			defer mu.Unlock()
			handles[intArg(args[0])] = args[1]
			return object.Nil
		}),
		"handle": object.NewBuiltin("handle", func(ctx context.Context, args ...object.Object) object.Object {
			mu.Lock()
			defer mu.Unlock()
			if h, ok := handles[intArg(args[0])]; ok {
				return h
			}
			return object.Nil
		}),
		"fin": object.NewBuiltin("fin", func(ctx context.Context, args ...object.Object) object.Object {
			mu.Lock()
			ch := fins[intArg(args[0])]
			mu.Unlock()
			if ch != nil {
				close(ch)
			}
			return object.Nil
		}),
		"join": object.NewBuiltin("join", func(ctx context.Context, args ...object.Object) object.Object {
			mu.Lock()
			ch := fins[intArg(args[0])]
			mu.Unlock()
			select {
			case <-ch:
			case <-time.After(c10Wait):
				mu.Lock()
				hung = fmt.Sprintf("the thread started with go (tag %d) did not reach its end", intArg(args[0]))
				mu.Unlock()
			}
			return object.Nil
		}),
	}
	runtime.GOMAXPROCS(s.procs)
	ctx, cancel := context.WithTimeout(context.Background(), 2*c10Wait)
	var err error
	finished := c10_withWatch(func() {
		defer func() {
			if r := recover(); r != nil {
				err = fmt.Errorf("panic: %v", r)
			}
		}()
		_, err = risor.Eval(ctx, p.src, risor.WithConcurrency(), risor.WithGlobals(globals))
	})
	cancel()
	mu.Lock()
	defer mu.Unlock()
	if !finished || err != nil || hung != "" {
		e.R.Mismatch(key, fmt.Sprintf("finished=%v err=%v hung=%q", finished, err, hung), rep, "call-tree script did not complete\n"+p.src)
		return finished && hung == ""
	}
	join := func(l []string) string {
		if len(l) == 0 {
			return "-"
		}
		return strings.Join(l, ".")
	}
	// the main program against the model's thread 0
	if g := join(logs[0]); g != model[0].log {
		e.R.Mismatch(key, "effects of the direct calls: "+g, model[0].log, "the main program's direct calls vs C10.cstep (thread 0)\n"+p.src)
	}
	direct := map[int]int{} // body -> exec index of its direct call
	for xi, x := range s.execs {
		if x.form == "direct" {
			direct[x.body] = xi
		}
	}
	for xi, x := range s.execs {
		if x.form == "direct" {
			continue
		}
		tag, mt := p.tagOf[xi], model[p.modelOf[xi]]
		goLog := join(logs[tag])
		goOut := wres[xi]
		what := fmt.Sprintf("body b%d started with %s (statement %d calls deep), thread tag %d", x.body, x.form, x.depth, tag)
		e.R.H("calls_spawned_outcome", mt.out[:1])
		// correspondence
		if x.form == "go" {
			if goLog != mt.log {
				e.R.Mismatch(key, "effects "+goLog, "effects "+mt.log, what+": real thread vs C10.cstep\n"+p.src)
			}
		} else if goLog != mt.log || goOut != mt.out {
			e.R.Mismatch(key, "effects "+goLog+" wait() "+goOut, "effects "+mt.log+" outcome "+mt.out, what+": real thread vs C10.cstep\n"+p.src)
		}
		// Spec on the real results: the spawned call is the direct call
		di := direct[x.body]
		dl, do := join(dlogs[di]), dres[di]
		if goLog != dl {
			e.R.Spec(key, fmt.Sprintf("%s: the spawned call made the effects [%s]; the same body called directly by the main program made [%s] (direct outcome %s)", what, goLog, dl, do), "")
		}
		if x.form != "go" && goOut != do {
			e.R.Spec(key, fmt.Sprintf("%s: wait() gave %s; the same body called directly gave %s", what, goOut, do), "")
		}
	}
	return true
}

func c10Bucket(d int) string {
	switch {
	case d < 8:
		return "0..7"
	case d < 31:
		return "8..30"
	case d < 63:
		return "31..62"
	case d < 127:
		return "63..126"
	case d < 255:
		return "127..254"
	case d < 511:
		return "255..510"
	}
	return ">=511"
}
